/-
  C10 — Regex replace uses the leftmost, then shortest, match.

  "str_replace_re(s, r, t) replaces the leftmost match of r in s, choosing the shortest match at
   that position (possibly empty, in which case t is inserted in front), and returns s unchanged if
   nothing matches.  str_replace_re_all(s, r, t) replaces, scanning left to right, each leftmost
   shortest non-empty match and continues after it, leaving all other characters untouched; both
   agree with str.replace_re and str.replace_re_all of SMT-LIB 2.6 for every string, expression and
   replacement text."

  Model: `RE.matchFrom`, `RE.searchFrom`, `RE.naiveReSearch`, `RE.strReplaceRe`,
  `RE.replaceAllLoop`, `RE.strReplaceReAll` (Model/ReplaceRe.lean), mirroring
  src/matcher.rs `naive_re_search` and src/smt_regular_expressions.rs `str_replace_re(_all)`.

  Specification (this file, independent of the model): `IsMatch`, `firstMatch` (the
  lexicographically least `(i, j)` with `k ≤ i ≤ j ≤ |w|`, `w[i..j) ∈ L`, `i < j` if required),
  `specReplaceRe` and the recursive `specReplaceAll` of SMT-LIB 2.6, over an arbitrary language `L`;
  the theorems instantiate `L := r.lang` (Proofs/ReLang.lean).

  Hypotheses: `DerivFacts ord Good` (C03: derivative = left quotient, `nullable` exact;
  Proofs/DerivFacts.lean), `Good r` (intended: `r.WF ∧ r.NZ`), `WFs s` (the subject string is an
  SMT string).  The replacement text `t` is arbitrary.  Helper lemmas: Proofs/ReplaceRe.lean.
-/
import SmtModel.Proofs.ReplaceRe

namespace Smt.C10
open Smt RE

/-! ### specification -/

/-- `w[i..j)` -/
def slice (w : List ℕ) (i j : ℕ) : List ℕ := (w.drop i).take (j - i)

/-- `(i, j)` is a match of `L` in `w` at or after `k` (non-empty if `nonempty`) -/
def IsMatch (L : Language ℕ) (w : List ℕ) (k : ℕ) (nonempty : Bool) (i j : ℕ) : Prop :=
  k ≤ i ∧ i ≤ j ∧ j ≤ w.length ∧ slice w i j ∈ L ∧ (nonempty = true → i < j)

/-- `(i, j)` is the leftmost match and the shortest one at that position: the lexicographically
    least match -/
def firstMatch (L : Language ℕ) (w : List ℕ) (k : ℕ) (nonempty : Bool) (i j : ℕ) : Prop :=
  IsMatch L w k nonempty i j ∧
    ∀ i' j', IsMatch L w k nonempty i' j' → i < i' ∨ (i = i' ∧ j ≤ j')

theorem firstMatch_unique {L : Language ℕ} {w : List ℕ} {k : ℕ} {ne : Bool} {i j i' j' : ℕ}
    (h : firstMatch L w k ne i j) (h' : firstMatch L w k ne i' j') : i = i' ∧ j = j' := by
  have h1 := h.2 i' j' h'.1
  have h2 := h'.2 i j h.1
  omega

open Classical in
/-- SMT-LIB 2.6 `str.replace_re`: `⟦str.replace_re⟧(w, L, w₂) = u₁w₂u₂` where `w = u₁w₁u₂` and `w₁`
    is the shortest leftmost match of `L` in `w` (possibly empty), `w` if there is no match -/
noncomputable def specReplaceRe (L : Language ℕ) (t : List ℕ) (s : List ℕ) : List ℕ :=
  if h : ∃ p : ℕ × ℕ, firstMatch L s 0 false p.1 p.2 then
    s.take (choose h).1 ++ t ++ s.drop (choose h).2
  else s

open Classical in
/-- SMT-LIB 2.6 `str.replace_re_all`: `⟦str.replace_re_all⟧(w, L, w₂) = w` if `w` has no non-empty
    match of `L`, and `u₁ w₂ ⟦str.replace_re_all⟧(u₂, L, w₂)` where `w = u₁w₁u₂` and `w₁` is the
    shortest leftmost NON-EMPTY match of `L` in `w`, otherwise -/
noncomputable def specReplaceAll (L : Language ℕ) (t : List ℕ) (s : List ℕ) : List ℕ :=
  if h : ∃ p : ℕ × ℕ, firstMatch L s 0 true p.1 p.2 then
    s.take (choose h).1 ++ t ++ specReplaceAll L t (s.drop (choose h).2)
  else s
termination_by s.length
decreasing_by
  have hm := (Classical.choose_spec h).1
  have h1 := hm.2.2.2.2 rfl
  have h2 := hm.2.2.1
  simp only [List.length_drop]
  omega

/-- the two defining equations of `specReplaceRe` -/
theorem specReplaceRe_match {L : Language ℕ} {t s : List ℕ} {i j : ℕ}
    (h : firstMatch L s 0 false i j) : specReplaceRe L t s = s.take i ++ t ++ s.drop j := by
  have hex : ∃ p : ℕ × ℕ, firstMatch L s 0 false p.1 p.2 := ⟨(i, j), h⟩
  obtain ⟨h1, h2⟩ := firstMatch_unique (Classical.choose_spec hex) h
  unfold specReplaceRe
  rw [dif_pos hex, h1, h2]

theorem specReplaceRe_none {L : Language ℕ} {t s : List ℕ}
    (h : ∀ i j, ¬ IsMatch L s 0 false i j) : specReplaceRe L t s = s := by
  unfold specReplaceRe
  rw [dif_neg]
  rintro ⟨p, hp⟩
  exact h _ _ hp.1

/-- the two defining equations of `specReplaceAll` -/
theorem specReplaceAll_match {L : Language ℕ} {t s : List ℕ} {i j : ℕ}
    (h : firstMatch L s 0 true i j) :
    specReplaceAll L t s = s.take i ++ t ++ specReplaceAll L t (s.drop j) := by
  have hex : ∃ p : ℕ × ℕ, firstMatch L s 0 true p.1 p.2 := ⟨(i, j), h⟩
  obtain ⟨h1, h2⟩ := firstMatch_unique (Classical.choose_spec hex) h
  rw [specReplaceAll, dif_pos hex, h1, h2]

theorem specReplaceAll_none {L : Language ℕ} {t s : List ℕ}
    (h : ∀ i j, ¬ IsMatch L s 0 true i j) : specReplaceAll L t s = s := by
  rw [specReplaceAll, dif_neg]
  rintro ⟨p, hp⟩
  exact h _ _ hp.1

/-! ### slices and shifting the start of the search -/

theorem slice_shift {s : List ℕ} {k i : ℕ} (h : k ≤ i) (j : ℕ) :
    slice s i j = ((s.drop k).drop (i - k)).take (j - i) := by
  unfold slice
  rw [List.drop_drop]
  congr 2
  omega

theorem slice_self (s : List ℕ) (i : ℕ) : slice s i i = [] := by
  simp [slice]

theorem isMatch_drop {L : Language ℕ} {s : List ℕ} {i : ℕ} {ne : Bool} (hi : i ≤ s.length)
    (a b : ℕ) : IsMatch L (s.drop i) 0 ne a b ↔ IsMatch L s i ne (i + a) (i + b) := by
  unfold IsMatch
  have hs : slice (s.drop i) a b = slice s (i + a) (i + b) := by
    rw [slice_shift (Nat.le_add_right i a) (i + b)]
    unfold slice
    have e1 : i + a - i = a := by omega
    have e2 : i + b - (i + a) = b - a := by omega
    rw [e1, e2]
  rw [hs, List.length_drop]
  constructor
  · rintro ⟨_, h2, h3, h4, h5⟩
    exact ⟨by omega, by omega, by omega, h4, fun hne => by have := h5 hne; omega⟩
  · rintro ⟨_, h2, h3, h4, h5⟩
    exact ⟨by omega, by omega, by omega, h4, fun hne => by have := h5 hne; omega⟩

theorem firstMatch_drop {L : Language ℕ} {s : List ℕ} {i : ℕ} {ne : Bool} (hi : i ≤ s.length)
    {j k : ℕ} (h : firstMatch L s i ne j k) : firstMatch L (s.drop i) 0 ne (j - i) (k - i) := by
  obtain ⟨hm, hmin⟩ := h
  have hij : i ≤ j := hm.1
  have hjk : j ≤ k := hm.2.1
  constructor
  · rw [isMatch_drop hi]
    have e1 : i + (j - i) = j := by omega
    have e2 : i + (k - i) = k := by omega
    rw [e1, e2]; exact hm
  · intro a b hab
    have := hmin _ _ ((isMatch_drop hi a b).1 hab)
    omega

/-! ### the search -/

variable {ord : RE → Nat} {Good : RE → Prop}

/-- T:match_from_spec — the inner loop of `naive_re_search`, started on the remaining string `rest`
    with the current derivative `p` and `n` characters consumed, returns `n + len` where `len` is the
    length of the shortest non-empty prefix of `rest` in the language of `p`, and `none` exactly
    when no non-empty prefix is in that language (the syntactic `is_empty` cut-off loses nothing) -/
theorem match_from_spec (F : DerivFacts ord Good) (p : RE) (rest : List ℕ) (n : ℕ)
    (hg : Good p) (hw : WFs rest) :
    (∀ m, matchFrom ord p rest n = some m ↔
      ∃ len, m = n + len ∧ 1 ≤ len ∧ len ≤ rest.length ∧ rest.take len ∈ p.lang ∧
        ∀ l, 1 ≤ l → l < len → rest.take l ∉ p.lang) ∧
    (matchFrom ord p rest n = none ↔ ∀ l, 1 ≤ l → l ≤ rest.length → rest.take l ∉ p.lang) := by
  have hsome := matchFrom_some F rest p n
  have hnone := matchFrom_none F rest p n hg hw
  constructor
  · intro m
    constructor
    · exact fun h => hsome m hg hw h
    · rintro ⟨len, rfl, h1, h2, h3, h4⟩
      cases hm : matchFrom ord p rest n with
      | none => exact absurd h3 (hnone hm len h1 h2)
      | some m' =>
        obtain ⟨len', rfl, h1', h2', h3', h4'⟩ := hsome m' hg hw hm
        have : ¬ len' < len := fun hlt => h4 len' h1' hlt h3'
        have : ¬ len < len' := fun hlt => h4' len h1 hlt h3
        congr 1; omega
  · constructor
    · exact fun h => hnone h
    · intro h
      cases hm : matchFrom ord p rest n with
      | none => rfl
      | some m' =>
        obtain ⟨len', rfl, h1', h2', h3', _⟩ := hsome m' hg hw hm
        exact absurd h3' (h len' h1' h2')

/-- unless the `allow_empty` shortcut fires, every match the search is asked for is non-empty -/
theorem match_nonempty (F : DerivFacts ord Good) {r : RE} (hg : Good r) {s : List ℕ} {k : ℕ}
    {allow : Bool} (hsc : (allow && r.nullable) = false) {i j : ℕ}
    (h : IsMatch r.lang s k (!allow) i j) : i < j := by
  cases allow with
  | false => exact h.2.2.2.2 rfl
  | true =>
    simp only [Bool.true_and] at hsc
    rcases Nat.lt_or_ge i j with hlt | hge
    · exact hlt
    · have : i = j := Nat.le_antisymm h.2.1 hge
      subst this
      have hmem := h.2.2.2.1
      rw [slice_self] at hmem
      rw [(F.nullable_iff r hg).2 hmem] at hsc
      cases hsc

theorem re_search_some (F : DerivFacts ord Good) (r : RE) (s : List ℕ) (k : ℕ) (allow : Bool)
    (hg : Good r) (hw : WFs s) (hk : k ≤ s.length) {i j : ℕ}
    (h : naiveReSearch ord r s k allow = some (i, j)) : firstMatch r.lang s k (!allow) i j := by
  unfold naiveReSearch at h
  cases hsc : (allow && r.nullable) with
  | true =>
    rw [hsc] at h
    simp only [if_true, Option.some.injEq, Prod.mk.injEq] at h
    obtain ⟨rfl, rfl⟩ := h
    simp only [Bool.and_eq_true] at hsc
    obtain ⟨rfl, hnull⟩ := hsc
    refine ⟨⟨Nat.le_refl _, Nat.le_refl _, hk, ?_, by simp⟩, ?_⟩
    · rw [slice_self]; exact (F.nullable_iff r hg).1 hnull
    · intro i' j' h'
      have := h'.1
      have := h'.2.1
      omega
  | false =>
    rw [hsc] at h
    simp only [Bool.false_eq_true, if_false] at h
    have hw' : WFs (s.drop k) := fun x hx => hw x (List.mem_of_mem_drop hx)
    obtain ⟨d, len, rfl, rfl, h1, h2, h3, h4, h5⟩ := searchFrom_some F r hg _ k _ _ hw' h
    have hlen : (s.drop k).length = s.length - k := List.length_drop
    rw [hlen] at h2
    have hsl : ∀ i' j', k ≤ i' → slice s i' j' = ((s.drop k).drop (i' - k)).take (j' - i') :=
      fun i' j' hi' => slice_shift hi' j'
    refine ⟨⟨by omega, by omega, by omega, ?_, fun _ => by omega⟩, ?_⟩
    · rw [hsl _ _ (by omega)]
      have e1 : k + d - k = d := by omega
      have e2 : k + d + len - (k + d) = len := by omega
      rw [e1, e2]; exact h3
    · intro i' j' h'
      have hlt := match_nonempty F hg hsc h'
      have hki := h'.1
      have hjl := h'.2.2.1
      have hmem := h'.2.2.2.1
      rw [hsl _ _ hki] at hmem
      rcases Nat.lt_trichotomy i' (k + d) with hlt' | heq | hgt
      · exact absurd hmem (h5 (i' - k) (j' - i') (by omega) (by omega) (by omega))
      · subst heq
        have e1 : k + d - k = d := by omega
        rw [e1] at hmem
        rcases Nat.lt_or_ge j' (k + d + len) with hj | hj
        · exact absurd hmem (h4 (j' - (k + d)) (by omega) (by omega))
        · exact .inr ⟨rfl, hj⟩
      · exact .inl hgt

theorem re_search_none (F : DerivFacts ord Good) (r : RE) (s : List ℕ) (k : ℕ) (allow : Bool)
    (hg : Good r) (hw : WFs s)
    (h : naiveReSearch ord r s k allow = none) : ∀ i j, ¬ IsMatch r.lang s k (!allow) i j := by
  unfold naiveReSearch at h
  cases hsc : (allow && r.nullable) with
  | true => rw [hsc] at h; simp at h
  | false =>
    rw [hsc] at h
    simp only [Bool.false_eq_true, if_false] at h
    have hw' : WFs (s.drop k) := fun x hx => hw x (List.mem_of_mem_drop hx)
    have hn := searchFrom_none F r hg _ k hw' h
    intro i j hm
    have hlt := match_nonempty F hg hsc hm
    have hki := hm.1
    have hjl := hm.2.2.1
    have hmem := hm.2.2.2.1
    rw [slice_shift hki j] at hmem
    refine hn (i - k) (j - i) (by omega) ?_ hmem
    rw [List.length_drop]; omega

/-- T:re_search_spec — for a search start `k ≤ |s|`:
    `naive_re_search(r, s, k, allow_empty)` returns `Found(i, j)` exactly when `(i, j)` is the
    leftmost-then-shortest match of `L(r)` in `s` at or after `k` (non-empty unless `allow_empty`;
    the `allow_empty` shortcut `(k, k)` is that match when `ε ∈ L(r)`), and `NotFound` exactly when
    there is no such match -/
theorem re_search_spec (F : DerivFacts ord Good) (r : RE) (s : List ℕ) (k : ℕ) (allow : Bool)
    (hg : Good r) (hw : WFs s) (hk : k ≤ s.length) :
    (∀ i j, naiveReSearch ord r s k allow = some (i, j) ↔ firstMatch r.lang s k (!allow) i j) ∧
    (naiveReSearch ord r s k allow = none ↔ ∀ i j, ¬ IsMatch r.lang s k (!allow) i j) := by
  constructor
  · intro i j
    constructor
    · exact re_search_some F r s k allow hg hw hk
    · intro hfm
      cases hres : naiveReSearch ord r s k allow with
      | none => exact absurd hfm.1 (re_search_none F r s k allow hg hw hres i j)
      | some p =>
        obtain ⟨a, b⟩ := p
        obtain ⟨rfl, rfl⟩ := firstMatch_unique (re_search_some F r s k allow hg hw hk hres) hfm
        rfl
  · constructor
    · exact re_search_none F r s k allow hg hw
    · intro hno
      cases hres : naiveReSearch ord r s k allow with
      | none => rfl
      | some p =>
        obtain ⟨a, b⟩ := p
        exact absurd (re_search_some F r s k allow hg hw hk hres).1 (hno a b)

/-- a match exists iff a leftmost-shortest match exists (via the search) -/
theorem exists_firstMatch_iff (F : DerivFacts ord Good) (r : RE) (s : List ℕ) (k : ℕ) (ne : Bool)
    (hg : Good r) (hw : WFs s) (hk : k ≤ s.length) :
    (∃ i j, IsMatch r.lang s k ne i j) ↔ ∃ i j, firstMatch r.lang s k ne i j := by
  constructor
  · rintro ⟨i, j, hm⟩
    have hne : ne = !(!ne) := by simp
    rw [hne] at hm ⊢
    cases hres : naiveReSearch ord r s k (!ne) with
    | none => exact absurd hm (re_search_none F r s k _ hg hw hres i j)
    | some p => exact ⟨p.1, p.2, re_search_some F r s k _ hg hw hk hres⟩
  · rintro ⟨i, j, hm⟩; exact ⟨i, j, hm.1⟩

/-! ### str_replace_re -/

/-- T:replace_re_spec — `str_replace_re(s, r, t)`:
    if `(i, j)` is the leftmost-then-shortest match (possibly empty) the result is
    `s[..i] ++ t ++ s[j..]`; if nothing matches the result is `s`; these two cases are exhaustive,
    and the result is SMT-LIB's `str.replace_re` -/
theorem replace_re_spec (F : DerivFacts ord Good) (r : RE) (s t : List ℕ)
    (hg : Good r) (hw : WFs s) :
    (∀ i j, firstMatch r.lang s 0 false i j →
        strReplaceRe ord s r t = s.take i ++ t ++ s.drop j) ∧
    ((∀ i j, ¬ IsMatch r.lang s 0 false i j) → strReplaceRe ord s r t = s) ∧
    strReplaceRe ord s r t = specReplaceRe r.lang t s := by
  have hsome := fun i j => re_search_some F r s 0 true hg hw (Nat.zero_le _) (i := i) (j := j)
  have hnone := re_search_none F r s 0 true hg hw
  simp only [Bool.not_true] at hsome hnone
  unfold strReplaceRe
  cases hres : naiveReSearch ord r s 0 true with
  | none =>
    refine ⟨fun i j hfm => absurd hfm.1 (hnone hres i j), fun _ => rfl, ?_⟩
    exact (specReplaceRe_none (hnone hres)).symm
  | some p =>
    obtain ⟨a, b⟩ := p
    have hfm := hsome a b hres
    refine ⟨fun i j hfm' => ?_, fun hno => absurd hfm.1 (hno a b), ?_⟩
    · obtain ⟨rfl, rfl⟩ := firstMatch_unique hfm hfm'
      rfl
    · exact (specReplaceRe_match hfm).symm

/-- "possibly empty, in which case t is inserted in front" -/
theorem replace_re_nullable (F : DerivFacts ord Good) (r : RE) (s t : List ℕ)
    (hg : Good r) (hw : WFs s) (hnil : [] ∈ r.lang) : strReplaceRe ord s r t = t ++ s := by
  have hfm : firstMatch r.lang s 0 false 0 0 := by
    refine ⟨⟨Nat.le_refl _, Nat.le_refl _, Nat.zero_le _, by rw [slice_self]; exact hnil, by simp⟩, ?_⟩
    intro i' j' h'
    have := h'.2.1
    omega
  rw [(replace_re_spec F r s t hg hw).1 0 0 hfm]
  simp

/-! ### str_replace_re_all -/

/-- the `while let Found(j, k)` loop: started at `i` with output `x` and enough fuel it returns
    `x ++ replace_re_all(s[i..])` -/
theorem replace_all_loop_spec (F : DerivFacts ord Good) (r : RE) (s t : List ℕ)
    (hg : Good r) (hw : WFs s) :
    ∀ (fuel i : ℕ) (x : List ℕ), i ≤ s.length → s.length - i + 1 ≤ fuel →
      replaceAllLoop ord r s t fuel i x = some (x ++ specReplaceAll r.lang t (s.drop i)) := by
  intro fuel
  induction fuel with
  | zero => intro i x _ h; omega
  | succ fuel ih =>
    intro i x hi hf
    simp only [replaceAllLoop]
    cases hres : naiveReSearch ord r s i false with
    | none =>
      have hno := re_search_none F r s i false hg hw hres
      simp only [Bool.not_false] at hno
      rw [specReplaceAll_none]
      intro a b hab
      exact hno _ _ ((isMatch_drop hi a b).1 hab)
    | some p =>
      obtain ⟨j, k⟩ := p
      have hfm := re_search_some F r s i false hg hw hi hres
      simp only [Bool.not_false] at hfm
      have hij : i ≤ j := hfm.1.1
      have hjk : j < k := hfm.1.2.2.2.2 rfl
      have hkl : k ≤ s.length := hfm.1.2.2.1
      have hfm' := firstMatch_drop hi hfm
      simp only
      rw [ih k _ hkl (by omega), specReplaceAll_match hfm', List.drop_drop]
      have e : i + (k - i) = k := by omega
      rw [e]
      simp only [List.append_assoc]

/-- T:replace_all_fuel_sufficient — the fuel `|s| + 2` given by `strReplaceReAll` always suffices
    (every match is non-empty, so the scan position strictly increases) -/
theorem replace_all_fuel_sufficient (F : DerivFacts ord Good) (r : RE) (s t : List ℕ)
    (hg : Good r) (hw : WFs s) : strReplaceReAll ord s r t ≠ none := by
  unfold strReplaceReAll
  rw [replace_all_loop_spec F r s t hg hw _ 0 [] (Nat.zero_le _) (by omega)]
  simp

/-- T:replace_re_all_spec — `str_replace_re_all(s, r, t)` is SMT-LIB's `str.replace_re_all`:
    `s` if `s` has no non-empty match, else `s[..i] ++ t ++ replace_re_all(s[j..])` for the
    leftmost-then-shortest non-empty match `(i, j)` -/
theorem replace_re_all_spec (F : DerivFacts ord Good) (r : RE) (s t : List ℕ)
    (hg : Good r) (hw : WFs s) :
    strReplaceReAll ord s r t = some (specReplaceAll r.lang t s) := by
  unfold strReplaceReAll
  rw [replace_all_loop_spec F r s t hg hw _ 0 [] (Nat.zero_le _) (by omega)]
  simp

/-! ### non-vacuity of the specification: `"baab"`, `L = {a}`, `t = "cd"` (the crate's doc test
    uses `a*`, whose non-empty leftmost-shortest matches are the same single `a`s) -/

section Example
private def La : Language ℕ := {w | w = [97]}

private theorem isMatch_La {s : List ℕ} {ne : Bool} {i j : ℕ} (h : IsMatch La s 0 ne i j) :
    j = i + 1 ∧ s[i]? = some 97 := by
  obtain ⟨_, h2, h3, h4, _⟩ := h
  have h4' : (s.drop i).take (j - i) = [97] := h4
  have hlen := congrArg List.length h4'
  simp only [List.length_take, List.length_drop, List.length_singleton] at hlen
  refine ⟨by omega, ?_⟩
  have := congrArg (fun l => l[0]?) h4'
  simp only [List.getElem?_take, List.getElem?_drop, List.getElem?_cons_zero] at this
  have hpos : 0 < j - i := by omega
  simpa [hpos] using this

/-- in `"baab"` the first non-empty match of `{a}` is `[1,2)` -/
example : firstMatch La [98, 97, 97, 98] 0 true 1 2 := by
  refine ⟨⟨by omega, by omega, by simp, rfl, fun _ => by omega⟩, ?_⟩
  intro i' j' h'
  obtain ⟨rfl, hget⟩ := isMatch_La h'
  rcases Nat.eq_zero_or_pos i' with h0 | hpos
  · subst h0; simp at hget
  · omega

/-- and `"b"` has none -/
example : ∀ i j, ¬ IsMatch La [98] 0 true i j := by
  intro i j h
  obtain ⟨rfl, hget⟩ := isMatch_La h
  have := h.2.2.1
  simp only [List.length_singleton] at this
  have : i = 0 := by omega
  subst this
  simp at hget

end Example

end Smt.C10
