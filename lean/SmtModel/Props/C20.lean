/-
  C20 — CharSet operations are exact interval algebra.

  Property theorems only (DESIGN.md §7 C20).  `x ∈ₛ s` is the set-theoretic meaning of an
  interval; every theorem is for all well-formed intervals (and for all naturals `x`, which
  includes every character of the alphabet).
-/
import SmtModel.Model.CharSet
import Mathlib.Order.Interval.Finset.Nat

namespace Smt.C20
open Smt CharSet

/-- set-theoretic meaning of an interval -/
def Mem (x : Nat) (s : CharSet) : Prop := s.start ≤ x ∧ x ≤ s.stop
local infix:50 " ∈ₛ " => Mem

theorem contains_iff (s : CharSet) (x : Nat) : s.contains x = true ↔ x ∈ₛ s := by
  simp [contains, Mem]

theorem covers_iff (s t : CharSet) (ht : t.WF) :
    s.covers t = true ↔ ∀ x, x ∈ₛ t → x ∈ₛ s := by
  simp only [covers, Mem, Bool.and_eq_true, decide_eq_true_eq]
  constructor
  · intro h x hx; omega
  · intro h
    have h1 := h t.start ⟨Nat.le_refl _, ht.1⟩
    have h2 := h t.stop ⟨ht.1, Nat.le_refl _⟩
    omega

theorem before_iff (s : CharSet) (hs : s.WF) (x : Nat) :
    s.isBefore x = true ↔ ∀ y, y ∈ₛ s → y < x := by
  simp only [isBefore, Mem, decide_eq_true_eq]
  constructor
  · intro h y hy; omega
  · intro h; exact h s.stop ⟨hs.1, Nat.le_refl _⟩

theorem after_iff (s : CharSet) (hs : s.WF) (x : Nat) :
    s.isAfter x = true ↔ ∀ y, y ∈ₛ s → x < y := by
  simp only [isAfter, Mem, decide_eq_true_eq]
  constructor
  · intro h y hy; omega
  · intro h; exact h s.start ⟨Nat.le_refl _, hs.1⟩

/-- `size` is the number of members -/
theorem size_eq_card (s : CharSet) (hs : s.WF) :
    s.size = (Finset.Icc s.start s.stop).card ∧ ∀ x, x ∈ Finset.Icc s.start s.stop ↔ x ∈ₛ s := by
  refine ⟨?_, fun x => by simp [Mem]⟩
  have := hs.1
  simp only [size, Nat.card_Icc]; omega

/-- `size` fits in a u32 and the subtraction does not underflow -/
theorem size_no_overflow (s : CharSet) (hs : s.WF) : s.start ≤ s.stop ∧ s.size ≤ MAX_CHAR + 1 := by
  have := hs.1; have := hs.2
  simp only [size]; omega

theorem singleton_iff (s : CharSet) (hs : s.WF) :
    s.isSingleton = true ↔ ∃ c, ∀ x, x ∈ₛ s ↔ x = c := by
  simp only [isSingleton, Mem, beq_iff_eq]
  constructor
  · intro h; exact ⟨s.start, fun x => by omega⟩
  · rintro ⟨c, hc⟩
    have h1 := (hc s.start).1 ⟨Nat.le_refl _, hs.1⟩
    have h2 := (hc s.stop).1 ⟨hs.1, Nat.le_refl _⟩
    omega

theorem alphabet_iff (s : CharSet) (hs : s.WF) :
    s.isAlphabet = true ↔ ∀ x, x ≤ MAX_CHAR → x ∈ₛ s := by
  simp only [isAlphabet, Mem, Bool.and_eq_true, beq_iff_eq]
  constructor
  · rintro ⟨h0, h1⟩ x hx; omega
  · intro h
    have h0 := h 0 (Nat.zero_le _)
    have h1 := h MAX_CHAR (Nat.le_refl _)
    have := hs.2
    omega

theorem pick_mem (s : CharSet) (hs : s.WF) : s.pick ∈ₛ s := ⟨Nat.le_refl _, hs.1⟩

/-- `inter` is `None` iff the intersection is empty … -/
theorem inter_none_iff (s t : CharSet) :
    s.inter t = none ↔ ¬ ∃ x, x ∈ₛ s ∧ x ∈ₛ t := by
  simp only [inter, Mem, range]
  constructor
  · intro h
    split at h
    · cases h
    · rintro ⟨x, hx⟩; omega
  · intro h
    split
    · rename_i hle
      exact absurd ⟨max s.start t.start, by omega⟩ h
    · rfl

/-- … and otherwise it is a well-formed interval denoting exactly the intersection -/
theorem inter_some_spec (s t u : CharSet) (hs : s.WF) (ht : t.WF) (h : s.inter t = some u) :
    u.WF ∧ ∀ x, x ∈ₛ u ↔ x ∈ₛ s ∧ x ∈ₛ t := by
  simp only [inter, range] at h
  split at h
  · cases h
    have := hs.2; have := ht.2
    refine ⟨⟨by assumption, by simp only; omega⟩, fun x => ?_⟩
    simp only [Mem]; omega
  · cases h

/-- common members of a list of intervals (all of the alphabet for the empty list) -/
def MemAll (x : Nat) (l : List CharSet) : Prop := x ≤ MAX_CHAR ∧ ∀ s ∈ l, x ∈ₛ s

private theorem interListAux_spec (r : CharSet) (hr : r.WF) (l : List CharSet)
    (hl : ∀ s ∈ l, s.WF) :
    (interListAux r l = none ↔ ¬ ∃ x, x ∈ₛ r ∧ ∀ s ∈ l, x ∈ₛ s) ∧
    (∀ u, interListAux r l = some u → u.WF ∧ ∀ x, x ∈ₛ u ↔ (x ∈ₛ r ∧ ∀ s ∈ l, x ∈ₛ s)) := by
  induction l generalizing r with
  | nil =>
    refine ⟨⟨fun h => by simp [interListAux] at h,
      fun h => absurd ⟨r.start, ⟨Nat.le_refl _, hr.1⟩, by simp⟩ h⟩, ?_⟩
    intro u hu
    simp only [interListAux, Option.some.injEq] at hu
    subst hu
    exact ⟨hr, fun x => by simp⟩
  | cons s rest ih =>
    have hs : s.WF := hl s (List.mem_cons_self)
    have hrest : ∀ t ∈ rest, t.WF := fun t ht => hl t (List.mem_cons_of_mem _ ht)
    simp only [interListAux]
    cases hrs : r.inter s with
    | none =>
      have hnone := (inter_none_iff r s).1 hrs
      refine ⟨⟨fun _ => ?_, fun _ => rfl⟩, fun u hu => by cases hu⟩
      rintro ⟨x, hx, hall⟩
      exact hnone ⟨x, hx, hall s List.mem_cons_self⟩
    | some v =>
      obtain ⟨hv, hvmem⟩ := inter_some_spec r s v hr hs hrs
      obtain ⟨ih1, ih2⟩ := ih v hv hrest
      refine ⟨?_, ?_⟩
      · rw [ih1]
        apply not_congr
        constructor
        · rintro ⟨x, hx, hall⟩
          exact ⟨x, ((hvmem x).1 hx).1, fun t ht => by
            rcases List.mem_cons.1 ht with rfl | ht
            · exact ((hvmem x).1 hx).2
            · exact hall t ht⟩
        · rintro ⟨x, hx, hall⟩
          exact ⟨x, (hvmem x).2 ⟨hx, hall s List.mem_cons_self⟩,
            fun t ht => hall t (List.mem_cons_of_mem _ ht)⟩
      · intro u hu
        obtain ⟨huwf, humem⟩ := ih2 u hu
        refine ⟨huwf, fun x => ?_⟩
        rw [humem x, hvmem x]
        constructor
        · rintro ⟨⟨h1, h2⟩, h3⟩
          exact ⟨h1, fun t ht => by
            rcases List.mem_cons.1 ht with rfl | ht
            · exact h2
            · exact h3 t ht⟩
        · rintro ⟨h1, h2⟩
          exact ⟨⟨h1, h2 s List.mem_cons_self⟩, fun t ht => h2 t (List.mem_cons_of_mem _ ht)⟩

/-- `inter_list`: `None` iff the common intersection (within the alphabet) is empty;
    otherwise exactly that intersection; the alphabet is the neutral element. -/
theorem inter_list_spec (l : List CharSet) (hl : ∀ s ∈ l, s.WF) :
    (interList l = none ↔ ¬ ∃ x, MemAll x l) ∧
    (∀ u, interList l = some u → u.WF ∧ ∀ x, x ∈ₛ u ↔ MemAll x l) := by
  cases l with
  | nil =>
    refine ⟨⟨fun h => by simp [interList] at h,
      fun h => absurd ⟨0, Nat.zero_le _, by simp⟩ h⟩, ?_⟩
    intro u hu
    simp only [interList, Option.some.injEq] at hu
    subst hu
    refine ⟨⟨Nat.zero_le _, Nat.le_refl _⟩, fun x => ?_⟩
    simp [Mem, MemAll, allChars]
  | cons a rest =>
    have ha : a.WF := hl a List.mem_cons_self
    have hrest : ∀ t ∈ rest, t.WF := fun t ht => hl t (List.mem_cons_of_mem _ ht)
    obtain ⟨h1, h2⟩ := interListAux_spec a ha rest hrest
    have key : ∀ x, MemAll x (a :: rest) ↔ (x ∈ₛ a ∧ ∀ s ∈ rest, x ∈ₛ s) := by
      intro x
      simp only [MemAll, List.mem_cons, forall_eq_or_imp]
      constructor
      · rintro ⟨_, h⟩; exact h
      · intro h; exact ⟨Nat.le_trans h.1.2 ha.2, h⟩
    simp only [interList]
    refine ⟨?_, ?_⟩
    · rw [h1]; apply not_congr; exact exists_congr (fun x => (key x).symm)
    · intro u hu
      obtain ⟨hw, hm⟩ := h2 u hu
      exact ⟨hw, fun x => by rw [hm x, key x]⟩

/-- the subtraction sites of `union` are never reached with a zero minuend -/
theorem union_no_underflow (s t : CharSet) : ∃ r, s.unionChecked t = some r ∧ r = s.union t := by
  simp only [unionChecked, union, sub1?, range]
  by_cases h1 : s.start = t.start
  · simp [h1]
  · by_cases h2 : s.start < t.start
    · have h3 : t.start ≠ 0 := by omega
      have h4 : ¬ t.start < s.start := by omega
      by_cases h5 : s.stop ≥ t.start - 1 <;> simp [h1, h2, h3, h4, h5]
    · have h3 : s.start ≠ 0 := by omega
      have h4 : t.start < s.start := by omega
      by_cases h5 : t.stop ≥ s.start - 1 <;> simp [h1, h2, h3, h4, h5]

/-- two well-formed intervals with the same members are equal -/
theorem ext_of_mem (u v : CharSet) (hu : u.WF) (hv : v.WF) (h : ∀ x, x ∈ₛ u ↔ x ∈ₛ v) : u = v := by
  have a := (h u.start).1 ⟨Nat.le_refl _, hu.1⟩
  have b := (h u.stop).1 ⟨hu.1, Nat.le_refl _⟩
  have c := (h v.start).2 ⟨Nat.le_refl _, hv.1⟩
  have d := (h v.stop).2 ⟨hv.1, Nat.le_refl _⟩
  cases u; cases v
  simp only [Mem] at a b c d
  simp only [CharSet.mk.injEq]; omega

theorem union_some_spec (s t u : CharSet) (hs : s.WF) (ht : t.WF) (h : s.union t = some u) :
    u.WF ∧ ∀ x, x ∈ₛ u ↔ x ∈ₛ s ∨ x ∈ₛ t := by
  have := hs.1; have := hs.2; have := ht.1; have := ht.2
  simp only [union, range, Bool.or_eq_true, beq_iff_eq, Bool.and_eq_true, decide_eq_true_eq] at h
  split at h
  · cases h
    refine ⟨⟨by simp only; omega, by simp only; omega⟩, fun x => ?_⟩
    simp only [Mem]; omega
  · split at h
    · cases h
      refine ⟨⟨by simp only; omega, by simp only; omega⟩, fun x => ?_⟩
      simp only [Mem]; omega
    · cases h

/-- `union` returns `Some u` exactly when the union of the two sets is an interval, and then
    `u` is that interval; `None` exactly when the union is not an interval. -/
theorem union_some_iff (s t u : CharSet) (hs : s.WF) (ht : t.WF) :
    s.union t = some u ↔ (u.WF ∧ ∀ x, x ∈ₛ u ↔ x ∈ₛ s ∨ x ∈ₛ t) := by
  refine ⟨union_some_spec s t u hs ht, ?_⟩
  rintro ⟨hu, hm⟩
  cases hun : s.union t with
  | some v =>
    obtain ⟨hv, hvm⟩ := union_some_spec s t v hs ht hun
    rw [ext_of_mem u v hu hv (fun x => by rw [hm x, hvm x])]
  | none =>
    exfalso
    have := hs.1; have := hs.2; have := ht.1; have := ht.2
    have hu1 := hu.1
    have b1 := (hm s.start).2 (Or.inl ⟨Nat.le_refl _, hs.1⟩)
    have b2 := (hm s.stop).2 (Or.inl ⟨hs.1, Nat.le_refl _⟩)
    have b3 := (hm t.start).2 (Or.inr ⟨Nat.le_refl _, ht.1⟩)
    have b4 := (hm t.stop).2 (Or.inr ⟨ht.1, Nat.le_refl _⟩)
    have g1 := (hm (s.stop + 1)).1
    have g2 := (hm (t.stop + 1)).1
    simp only [union, range, Bool.or_eq_true, beq_iff_eq, Bool.and_eq_true, decide_eq_true_eq] at hun
    simp only [Mem] at b1 b2 b3 b4 g1 g2
    split at hun
    · cases hun
    · split at hun
      · cases hun
      · rename_i n1 n2
        by_cases c : s.start < t.start
        · have : s.stop + 1 < t.start := by omega
          have := g1 ⟨by omega, by omega⟩
          omega
        · have : t.stop + 1 < s.start := by omega
          have := g2 ⟨by omega, by omega⟩
          omega

theorem union_none_iff (s t : CharSet) (hs : s.WF) (ht : t.WF) :
    s.union t = none ↔ ¬ ∃ u : CharSet, u.WF ∧ ∀ x, x ∈ₛ u ↔ x ∈ₛ s ∨ x ∈ₛ t := by
  constructor
  · intro h ⟨u, hu⟩
    have := (union_some_iff s t u hs ht).2 hu
    rw [h] at this; cases this
  · intro h
    cases hu : s.union t with
    | none => rfl
    | some u => exact absurd ⟨u, (union_some_iff s t u hs ht).1 hu⟩ h

/-- the partial order relates two sets only when equal or entirely one before the other -/
theorem partial_cmp_spec (s t : CharSet) (hs : s.WF) (ht : t.WF) :
    (s.partialCmp t = some .eq ↔ s = t) ∧
    (s.partialCmp t = some .lt ↔ ∀ x y, x ∈ₛ s → y ∈ₛ t → x < y) ∧
    (s.partialCmp t = some .gt ↔ ∀ x y, x ∈ₛ s → y ∈ₛ t → y < x) ∧
    (s.partialCmp t = none ↔ s ≠ t ∧ ∃ x, x ∈ₛ s ∧ x ∈ₛ t) := by
  have := hs.1; have := ht.1
  have hlt : (∀ x y, x ∈ₛ s → y ∈ₛ t → x < y) ↔ s.stop < t.start := by
    constructor
    · intro h; exact h s.stop t.start ⟨hs.1, Nat.le_refl _⟩ ⟨Nat.le_refl _, ht.1⟩
    · intro h x y hx hy; simp only [Mem] at hx hy; omega
  have hgt : (∀ x y, x ∈ₛ s → y ∈ₛ t → y < x) ↔ t.stop < s.start := by
    constructor
    · intro h; exact h s.start t.stop ⟨Nat.le_refl _, hs.1⟩ ⟨ht.1, Nat.le_refl _⟩
    · intro h x y hx hy; simp only [Mem] at hx hy; omega
  have hov : (∃ x, x ∈ₛ s ∧ x ∈ₛ t) ↔ ¬ s.stop < t.start ∧ ¬ t.stop < s.start := by
    constructor
    · rintro ⟨x, hx, hy⟩; simp only [Mem] at hx hy; omega
    · intro h; exact ⟨max s.start t.start, by simp only [Mem]; omega⟩
  rw [hlt, hgt, hov]
  simp only [partialCmp, beq_iff_eq, gt_iff_lt]
  by_cases e : s = t
  · subst e; simp; omega
  · by_cases l : s.stop < t.start
    · simp [e, l]; omega
    · by_cases g : t.stop < s.start <;> simp [e, l, g]

/-! Non-vacuity: concrete well-formed intervals meeting the hypotheses, adjacency at 0. -/
example : (CharSet.range 0 0).WF ∧ (CharSet.range 1 0x2FFFF).WF ∧
    (CharSet.range 0 0).union (CharSet.range 1 0x2FFFF) = some CharSet.allChars ∧
    (CharSet.range 1 0x2FFFF).union (CharSet.range 0 0) = some CharSet.allChars ∧
    (CharSet.range 3 5).union (CharSet.range 7 9) = none ∧
    (CharSet.range 3 5).inter (CharSet.range 5 9) = some (CharSet.range 5 5) := by
  decide

end Smt.C20
