/-
  C19 — Derivative closure is enumerated exactly; try_compile honours its bound.

  Property: "iter_derivatives(e) terminates, yields e first and then every distinct iterated
  derivative of e exactly once, and the yielded set is closed under char_derivative for every
  character.  try_compile(e,n) returns an automaton exactly when that number of distinct
  derivatives is at most n (never for n = 0), compile(e) always succeeds, and the automaton
  returned has exactly that many states."

  WHAT IS PROVED (for every `ord`, every fuel, every term `e` with `Good e`):
  with `iterDerivatives ord fuel e = .ok l` (the search finished within the fuel)
    * `iter_head`, `iter_nodup`, `iter_closed`, `iter_reachable`, `iter_complete`, `iter_exact`:
      `l` starts with `e`, has no duplicates, and its elements are exactly the iterated
      derivatives `str_derivative(e, s)` of `e` (s ranging over all SMT strings); in particular it
      is closed under `char_derivative(·, c)` for every `c ≤ MAX_CHAR`;
    * `iter_no_panic`: the search never panics (no `pick_class_rep` of an invalid class);
    * `iter_fuel_mono`: more fuel gives the same list; `iter_fuel_bound`: it used `l.length + 1` pops;
    * `closure_invariant_init/_step`: the loop invariant `BInv` (no duplicates, `i ≤ all.length`,
      every element reachable, every popped element has all its derivatives in `all`);
    * `try_compile_zero`, `try_compile_iff`: `try_compile(e, n)` is `Some` exactly when `n ≠ 0` and
      `l.length ≤ n`, and then the automaton has `l.length` states; `compile_num_states`;
    * `compile_no_bound`: `compile` never hits its bound.

  WHAT IS NOT PROVED
    * TERMINATION.  "iter_derivatives(e) terminates" is Brzozowski's finiteness theorem for this
      particular normal form; it is NOT proved (DESIGN.md §7 C19, §11).  All statements are of the
      form "if the search finished within the fuel, then …", for every fuel, plus monotonicity.
    * `compile(e)` always succeeds: proved up to the final `build_unchecked()` call
      (`compile_succeeds_partial`, `try_compile_no_panic_partial`): the BFS loop of
      `compile_with_bound` never panics and never reports "too many states" for `compile`; that
      `AutomatonBuilder::build_unchecked` does not panic on the builder state so produced is part
      of C02/C13 (it needs: the class intervals of a term are pairwise disjoint), not of this file.

  Hypotheses: the facts about derivatives are taken as the bundle `RE.ClosureFacts ord Good`
  (Proofs/Closure.lean); the last section discharges the class-related fields from C11 given that
  derivative classes are well-formed partitions.  Props/C19Final.lean discharges the whole bundle
  for `Good e := e.WF ∧ e.NZ` and every `ord` with `PairSound ord` (from C03) and restates the
  main theorems without the bundle (`Smt.C19.Final.*`).
-/
import SmtModel.Proofs.Closure
import SmtModel.Props.C11

namespace Smt.C19
open Smt RE

variable {ord : RE → Nat} {Good : RE → Prop}

/-! ### the loop invariant (T:closure_invariant) -/

/-- the invariant holds initially: queue = `[e]`, nothing popped -/
theorem closure_invariant_init (e : RE) : BInv ord e [e] 0 := BInv.init e

/-- the invariant is preserved by one `next()`: pop `all[i]`, push all its class derivatives -/
theorem closure_invariant_step (F : ClosureFacts ord Good) {e : RE} (hg : Good e)
    {all : List RE} {i : Nat} (h : BInv ord e all i) {r : RE} (hr : all[i]? = some r)
    {ds : List (ClassId × RE)} (hds : classDerivs ord r = some ds) :
    BInv ord e (ds.foldl (fun a d => bfsPush a d.2) all) (i + 1) :=
  h.step F hg hr hds

/-- the invariant at exit, for the list returned -/
theorem iter_invariant (F : ClosureFacts ord Good) {e : RE} (hg : Good e) {fuel : Nat}
    {l : List RE} (h : iterDerivatives ord fuel e = .ok l) : BInv ord e l l.length :=
  ((iterLoop_spec F hg fuel [e] 0 (BInv.init e)).2 l h).1

/-! ### iter_derivatives -/

/-- T:iter_head — `e` is yielded first -/
theorem iter_head (F : ClosureFacts ord Good) {e : RE} (hg : Good e) {fuel : Nat} {l : List RE}
    (h : iterDerivatives ord fuel e = .ok l) : l.head? = some e :=
  (iter_invariant F hg h).head

/-- T:iter_nodup — nothing is yielded twice -/
theorem iter_nodup (F : ClosureFacts ord Good) {e : RE} (hg : Good e) {fuel : Nat} {l : List RE}
    (h : iterDerivatives ord fuel e = .ok l) : l.Nodup :=
  (iter_invariant F hg h).nodup

/-- T:iter_no_panic — `class_derivative_unchecked` never panics during the search -/
theorem iter_no_panic (F : ClosureFacts ord Good) {e : RE} (hg : Good e) (fuel : Nat) :
    iterDerivatives ord fuel e ≠ .panic :=
  (iterLoop_spec F hg fuel [e] 0 (BInv.init e)).1

/-- T:iter_closed — the yielded set is closed under `char_derivative` for every character -/
theorem iter_closed (F : ClosureFacts ord Good) {e : RE} (hg : Good e) {fuel : Nat} {l : List RE}
    (h : iterDerivatives ord fuel e = .ok l) :
    ∀ x ∈ l, ∀ c, c ≤ MAX_CHAR → charDerivative ord x c ∈ l := by
  intro x hx c hc
  exact (iter_invariant F hg h).closed x (by simpa using hx) c hc

/-- T:iter_reachable — every yielded term is an iterated derivative of `e` -/
theorem iter_reachable (F : ClosureFacts ord Good) {e : RE} (hg : Good e) {fuel : Nat}
    {l : List RE} (h : iterDerivatives ord fuel e = .ok l) :
    ∀ x ∈ l, ∃ s, WFs s ∧ x = strDerivative ord e s :=
  (iter_invariant F hg h).reach

/-- T:iter_complete — every iterated derivative of `e` is yielded -/
theorem iter_complete (F : ClosureFacts ord Good) {e : RE} (hg : Good e) {fuel : Nat}
    {l : List RE} (h : iterDerivatives ord fuel e = .ok l) :
    ∀ s, WFs s → strDerivative ord e s ∈ l :=
  fun _ hs => (iter_invariant F hg h).complete hs

/-- the yielded set is exactly the set of iterated derivatives -/
theorem iter_exact (F : ClosureFacts ord Good) {e : RE} (hg : Good e) {fuel : Nat}
    {l : List RE} (h : iterDerivatives ord fuel e = .ok l) (x : RE) :
    x ∈ l ↔ ∃ s, WFs s ∧ x = strDerivative ord e s :=
  (iter_invariant F hg h).mem_iff_reach x

/-- T:iter_fuel_mono — more fuel gives the same answer (no hypothesis on `e` needed) -/
theorem iter_fuel_mono {e : RE} {fuel fuel' : Nat} (hle : fuel ≤ fuel') {l : List RE}
    (h : iterDerivatives ord fuel e = .ok l) : iterDerivatives ord fuel' e = .ok l :=
  iterLoop_mono hle h

/-- the answer does not depend on the fuel at all -/
theorem iter_fuel_irrelevant {e : RE} {fuel fuel' : Nat} {l l' : List RE}
    (h : iterDerivatives ord fuel e = .ok l) (h' : iterDerivatives ord fuel' e = .ok l') :
    l = l' := by
  rcases Nat.le_total fuel fuel' with hle | hle
  · have := iter_fuel_mono hle h
    rw [h'] at this
    exact (Res.ok.inj this).symm
  · have := iter_fuel_mono hle h'
    rw [h] at this
    exact Res.ok.inj this

/-- the search pops `l.length` terms and then sees the empty queue -/
theorem iter_fuel_bound {e : RE} {fuel : Nat} {l : List RE}
    (h : iterDerivatives ord fuel e = .ok l) : l.length + 1 ≤ fuel := by
  have := iterLoop_fuel_bound fuel [e] 0 l (by simp) h
  omega

/-! ### try_compile / compile -/

/-- never an automaton for `n = 0` -/
theorem try_compile_zero (fuel : Nat) (e : RE) : tryCompile ord fuel e 0 = .ok none := rfl

private theorem compile_core (F : ClosureFacts ord Good) {e : RE} (hg : Good e) (n fuel : Nat)
    {fuel' : Nat} {l : List RE} (hl : iterDerivatives ord fuel' e = .ok l) :
    compileLoop ord n fuel [e] 0 (Builder.new 0) ≠ .panic ∧
    (compileLoop ord n fuel [e] 0 (Builder.new 0) = .ok none → n < l.length) ∧
    (∀ b', compileLoop ord n fuel [e] 0 (Builder.new 0) = .ok (some b') →
      l.length ≤ n ∧ b'.size = l.length) :=
  compileLoop_vs_iter F hg n fuel [e] 0 (Builder.new 0) fuel' l (BInv.init e) BK.new
    (Nat.zero_le _) hl

/-- T:try_compile_iff — `try_compile(e, n)` returns an automaton exactly when `n ≠ 0` and the
    number of distinct derivatives is at most `n`; the automaton has exactly that many states -/
theorem try_compile_iff (F : ClosureFacts ord Good) {e : RE} (hg : Good e) {fuel fuel' n : Nat}
    {r : Option Automaton} {l : List RE} (hr : tryCompile ord fuel e n = .ok r)
    (hl : iterDerivatives ord fuel' e = .ok l) :
    (r.isSome = true ↔ n ≠ 0 ∧ l.length ≤ n) ∧ (∀ A, r = some A → A.numStates = l.length) := by
  unfold tryCompile compileWithBound at hr
  by_cases hn : n = 0
  · subst hn
    simp only [beq_self_eq_true, if_true, Res.ok.injEq] at hr
    subst hr
    simp
  · have hbeq : (n == 0) = false := by simpa using hn
    simp only [hbeq, Bool.false_eq_true, if_false] at hr
    obtain ⟨_, h2, h3⟩ := compile_core F hg n fuel hl
    cases hc : compileLoop ord n fuel [e] 0 (Builder.new 0) with
    | outOfFuel => rw [hc] at hr; cases hr
    | panic => rw [hc] at hr; cases hr
    | ok ob =>
      rw [hc] at hr
      cases ob with
      | none =>
        simp only [Res.ok.injEq] at hr
        subst hr
        have := h2 hc
        simp only [Option.isSome_none, Bool.false_eq_true, ne_eq, false_iff, not_and, Nat.not_le,
          reduceCtorEq, false_imp_iff, implies_true, and_true]
        intro _; exact this
      | some b =>
        obtain ⟨h4, h5⟩ := h3 b hc
        simp only at hr
        cases hb : b.buildUnchecked with
        | none => rw [hb] at hr; cases hr
        | some A =>
          rw [hb] at hr
          simp only [Res.ok.injEq] at hr
          subst hr
          refine ⟨by simp [hn, h4], ?_⟩
          intro A' hA'
          cases hA'
          rw [buildUnchecked_numStates hb, h5]

/-- the only place where `try_compile` could panic is the final `build_unchecked()`
    (full statement `tryCompile ord fuel e n ≠ .panic` needs C02/C13, see the file header) -/
theorem try_compile_no_panic_partial (F : ClosureFacts ord Good) {e : RE} (hg : Good e)
    {fuel n : Nat} (hp : tryCompile ord fuel e n = .panic) :
    ∃ b, compileLoop ord n fuel [e] 0 (Builder.new 0) = .ok (some b) ∧
      b.buildUnchecked = none := by
  unfold tryCompile compileWithBound at hp
  split at hp
  · cases hp
  · have hnp : compileLoop ord n fuel [e] 0 (Builder.new 0) ≠ .panic :=
      compileLoop_no_panic F hg n fuel [e] 0 (Builder.new 0) (BInv.init e) BK.new
    cases hc : compileLoop ord n fuel [e] 0 (Builder.new 0) with
    | outOfFuel => rw [hc] at hp; cases hp
    | panic => exact absurd hc hnp
    | ok ob =>
      rw [hc] at hp
      cases ob with
      | none => cases hp
      | some b =>
        simp only at hp
        cases hb : b.buildUnchecked with
        | none => exact ⟨b, rfl, hb⟩
        | some A => rw [hb] at hp; cases hp

/-- `compile`'s bound (`usize::MAX`) is never reached -/
theorem compile_no_bound (fuel : Nat) (e : RE) :
    compileWithBound ord fuel e (fuel + 1) ≠ .ok none := by
  unfold compileWithBound
  have hbeq : (fuel + 1 == 0) = false := by simp
  simp only [hbeq, Bool.false_eq_true, if_false]
  have := compileLoop_ne_none (ord := ord) (fuel + 1) fuel [e] 0 (Builder.new 0) (by omega)
  split
  · simp
  · simp
  · rename_i h; exact absurd h this
  · split <;> simp

/-- T:compile_succeeds (the state count) — the automaton returned by `compile` has exactly as
    many states as there are distinct derivatives -/
theorem compile_num_states (F : ClosureFacts ord Good) {e : RE} (hg : Good e) {fuel fuel' : Nat}
    {A : Automaton} {l : List RE} (hA : compile ord fuel e = .ok A)
    (hl : iterDerivatives ord fuel' e = .ok l) : A.numStates = l.length := by
  unfold compile at hA
  cases hc : compileWithBound ord fuel e (fuel + 1) with
  | outOfFuel => rw [hc] at hA; cases hA
  | panic => rw [hc] at hA; cases hA
  | ok r =>
    rw [hc] at hA
    cases r with
    | none => cases hA
    | some A' =>
      simp only [Res.ok.injEq] at hA
      subst hA
      exact (try_compile_iff F hg (n := fuel + 1) hc hl).2 A' rfl

/-- T:compile_succeeds, partial: `compile` can only panic inside the final `build_unchecked()`
    (never in the BFS loop, never through `unwrap()` of a "too many states" `None`).
    Full statement: `compile ord fuel e ≠ .panic` (needs C02/C13: `build_unchecked` succeeds). -/
theorem compile_succeeds_partial (F : ClosureFacts ord Good) {e : RE} (hg : Good e) {fuel : Nat}
    (hp : compile ord fuel e = .panic) :
    ∃ b, compileLoop ord (fuel + 1) fuel [e] 0 (Builder.new 0) = .ok (some b) ∧
      b.buildUnchecked = none := by
  unfold compile at hp
  cases hc : compileWithBound ord fuel e (fuel + 1) with
  | outOfFuel => rw [hc] at hp; cases hp
  | panic => exact try_compile_no_panic_partial F hg hc
  | ok r =>
    rw [hc] at hp
    cases r with
    | none => exact absurd hc (compile_no_bound fuel e)
    | some A => cases hp

/-- `compile_with_bound` needs no more fuel than `iter_derivatives` -/
theorem try_compile_fuel (F : ClosureFacts ord Good) {e : RE} (hg : Good e) {fuel n : Nat}
    {l : List RE} (hl : iterDerivatives ord fuel e = .ok l) :
    tryCompile ord fuel e n ≠ .outOfFuel := by
  unfold tryCompile compileWithBound
  split
  · simp
  · have := compileLoop_fuel F hg n fuel [e] 0 (Builder.new 0) l (BInv.init e) BK.new hl
    split <;> simp_all
    split <;> simp

theorem compile_fuel (F : ClosureFacts ord Good) {e : RE} (hg : Good e) {fuel : Nat}
    {l : List RE} (hl : iterDerivatives ord fuel e = .ok l) :
    compile ord fuel e ≠ .outOfFuel := by
  have := try_compile_fuel F hg (n := fuel + 1) hl
  unfold tryCompile at this
  unfold compile
  split <;> simp_all

/-! ### discharging the class-related fields of the bundle from C11 -/

/-- The three partition facts of `ClosureFacts` hold for every well-formed partition (C11), so the
    bundle follows from the four derivative facts plus "derivative classes are well-formed". -/
theorem closureFacts_of_class_wf
    (deriv_good : ∀ e c, Good e → c ≤ MAX_CHAR → Good (deriv ord e c))
    (deriv_lang : ∀ e c, Good e → c ≤ MAX_CHAR → (deriv ord e c).lang = {w | c :: w ∈ e.lang})
    (nullable_iff : ∀ e, Good e → (e.nullable = true ↔ [] ∈ e.lang))
    (lang_sub : ∀ e, Good e → e.lang ≤ allStrings)
    (class_wf : ∀ e, Good e → e.derivClass.WF) : ClosureFacts ord Good where
  deriv_good := deriv_good
  deriv_lang := deriv_lang
  nullable_iff := nullable_iff
  lang_sub := lang_sub
  class_cover := by
    intro e c hg hc
    exact ((C11.class_ids_spec _ (class_wf e hg)).2.1 _).2 ⟨c, hc, rfl⟩
  class_pick := by
    intro e cid hg hcid
    have hp := class_wf e hg
    have hne := ((C11.class_ids_spec _ hp).2.1 cid).1 hcid
    have hvalid := (C11.valid_class_id_spec _ hp cid).2 hne
    obtain ⟨h1, h2⟩ := C11.pick_in_class_spec _ hp cid
    cases hpick : e.derivClass.pickInClass cid with
    | none => rw [h1.1 hpick] at hvalid; cases hvalid
    | some c => exact ⟨c, (h2 c hpick).1, rfl, (h2 c hpick).2⟩
  class_set := by
    intro e i s hg hs
    have hp := class_wf e hg
    obtain ⟨hi, rfl⟩ := List.getElem?_eq_some_iff.1 hs
    have hw := hp.1.get_wf hi
    exact ((C11.class_of_set_spec _ hp _ hw).1 i).2 ⟨hi, fun x hx => hx⟩

/-! ### non-vacuity: the hypotheses `… = .ok l` are met by concrete non-trivial runs
    (`ab` = the regex `a·b`; ids constantly 0, which satisfies `PairSound` trivially) -/

private def ord0 : RE → Nat := fun _ => 0
private def ab : RE := .concat (.range ⟨97, 97⟩) (.range ⟨98, 98⟩)

example : PairSound ord0 := by intro x y h; simp [ord0] at h

example : iterDerivatives ord0 10 ab = .ok [ab, .range ⟨98, 98⟩, .empty, .epsilon] := by
  decide +kernel
/-- too little fuel: the answer is `outOfFuel`, not a wrong list -/
example : iterDerivatives ord0 4 ab = .outOfFuel := by decide +kernel
example : (match tryCompile ord0 10 ab 3 with | .ok none => true | _ => false) = true := by
  decide +kernel
example : (match tryCompile ord0 10 ab 4 with
    | .ok (some A) => A.numStates == 4 | _ => false) = true := by
  decide +kernel
example : (match compile ord0 10 ab with | .ok A => A.numStates == 4 | _ => false) = true := by
  decide +kernel

end Smt.C19
