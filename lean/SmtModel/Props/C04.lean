/-
  C04 — minimize preserves the language and leaves no two equivalent states
  (DESIGN.md §1 decision (b), §7 C04, §11).

  WHAT IS PROVED HERE, AND WHAT IS NOT.  `Automaton::minimize` runs Hopcroft's algorithm
  (`minimizer.rs`: splitter lists, pred-class partitions, ~550 lines of index bookkeeping).  Two
  layers:

  (1) Specification + verified checker (design decision (b)):
  * the specification is the Moore / Myhill–Nerode quotient (`Model/Minimize.lean`: `moore`,
    `quotient`), proved correct here (`moore_sound`, `moore_complete`, `moore_numBlocks`);
  * `checkMinimized A A'` is an executable certificate checker, and `check_minimized_sound` proves
    that whenever it accepts, `A'` is a correct minimization of `A` in the full sense of the
    property: same language on all well-formed strings, pairwise distinguishable states,
    consistent initial state / ids / counts, and — when all states of `A` are reachable — exactly
    as many states as the Myhill–Nerode index of the language;
  * on every run of the check the real `minimize()` is executed on generated automata and every
    single output is fed to the verified checker (family `min`, op `minimize`), the number of states
    is compared with the number of Moore blocks (op `minimize_num_states`), and `Minimizer::refine`
    is compared with the Moore partition on abstract DFAs (op `hopcroft`).
  * `BasePartition/Partition::refine_block(_with_fun)` (`partitions.rs`) is modelled line by line
    (`Model/Partition.lean`) and proved (`refine_block_spec`, …, from `Proofs/Partition.lean`).

  (2) Hopcroft's algorithm as written (second half of this file): `minimizer.rs`, `fast_sets.rs`,
  `StateMapping::from_partition` and the call sequence of `Automaton::minimize` are modelled line
  by line (`Model/Hopcroft.lean`, `Model/FastSet.lean`), compared LITERALLY with the real code on
  every run (ops `hopcroft_blocks`, `hopcroft_state`, `hopcroft_trace`, `minimize_literal`,
  `fastset`), and proved: `fastset_spec`, `hopcroft_invariants`, `hopcroft_stable_on_exit`,
  `hopcroft_correct` (the result of `refine` IS the Moore/Nerode partition up to block numbering)
  and `minimize_model_passes_check` (the model's `minimize` output always passes the checker of
  layer (1)).  These are conditional on the model run returning (`= some _`); that it always does
  — no panic site of the model is reached and the loop of `refine` ends within the model's fuel
  `(k+1)·n+1` — is proved at the end of the file (`run_total`, `minimize_total`; proofs in
  `Proofs/HopcroftTotal.lean`), which makes the headline unconditional (`minimize_correct_total`).

  Hypotheses.  `wfAut A = true` is the decidable "complete DFA as the crate hands them out"
  predicate (ids = indices, per-state partitions well formed, successors in range, a default
  successor wherever the complementary class is non-empty); `checkMinimized` tests it for both
  automata, so `check_minimized_sound` has no hypothesis besides `checkMinimized A A' = true`.
  Residual languages / left quotients are sets of well-formed strings (`WFs`, all characters
  `≤ MAX_CHAR`), DESIGN.md §6.  "One representative per character class suffices" is derived
  from C11 (`picks_mem`, `pick_in_class_spec`) and C12 (`merge_list_refines`, `merge_refines`) in
  `Proofs/Minimize.lean` (`combined_uniform`, `alphabet2_covers`).

  Theorems
  * `moore_sound`            same Moore block ⇒ same residual language
  * `moore_complete`         different blocks ⇒ a well-formed distinguishing string exists
  * `moore_block_iff`        both: same block ⇔ same residual language
  * `moore_numBlocks`        number of blocks of `moore A` = number of distinct residual languages
                             of the states of `A` (the model value of op `minimize_num_states`)
  * `hom_lang_eq`            a verified homomorphism gives `accepts A' w = accepts A w`
  * `discrete_distinguishable`  `moore A'` discrete ⇒ the states of `A'` have pairwise different
                             residual languages
  * `check_minimized_sound`  the four clauses above from `checkMinimized A A' = true`
  * `hopcroft_spec_sound`/`hopcroft_spec_complete`  the abstract statements behind op `hopcroft`
  * `refine_block_spec` …    see the end of the file
  * `quotient_passes_check`  for every complete `A`, `quotient A (moore A)` exists and
                             `checkMinimized A (quotient A (moore A)) = true` (the checker is not
                             vacuous for any `A`; also tested per run by op `quotient_check`);
                             `minimization_exists` combines it with `check_minimized_sound`
  * `fastset_spec`, `hopcroft_invariants`, `hopcroft_never_separates_equivalent`,
    `hopcroft_stable_on_exit`, `hopcroft_stable_blocks`, `hopcroft_correct`,
    `hopcroft_block_iff_indistinguishable`, `minimize_model_passes_check`,
    `minimize_model_correct`   Hopcroft as written, see the second half of the file
  * `hopcroft_new_no_panic`, `hopcroft_round_no_panic`, `hopcroft_fuel_sufficient`, `run_total`,
    `hopcroft_correct_total`, `minimize_total`, `minimize_correct_total`   totality (no panic, fuel),
                             see the last section of the file
-/
import SmtModel.Proofs.Minimize
import SmtModel.Proofs.Partition
import SmtModel.Proofs.Quotient
import SmtModel.Proofs.FastSet
import SmtModel.Proofs.Hopcroft
import SmtModel.Proofs.HopcroftMinimize
import SmtModel.Proofs.HopcroftTotal

namespace Smt.C04
open Smt Smt.Minimize

/-! ### the Moore partition is the Nerode equivalence of the states
  (proofs in `Proofs/Minimize.lean`, stated here) -/

theorem moore_length {A : Automaton} (h : wfAut A = true) :
    (moore A).length = A.states.length := Minimize.moore_length h

/-- T:moore_sound — two states in the same block of `moore A` have the same residual language -/
theorem moore_sound {A : Automaton} (h : wfAut A = true) {s t : Nat}
    (hs : s < A.states.length) (ht : t < A.states.length)
    (hb : (moore A)[s]? = (moore A)[t]?) : resid A s = resid A t :=
  Minimize.moore_sound h hs ht hb

/-- T:moore_complete — two states in different blocks are distinguished by a well-formed string -/
theorem moore_complete {A : Automaton} (h : wfAut A = true) {s t : Nat}
    (hs : s < A.states.length) (ht : t < A.states.length)
    (hb : (moore A)[s]? ≠ (moore A)[t]?) :
    ∃ w, WFs w ∧ ¬ (w ∈ resid A s ↔ w ∈ resid A t) :=
  Minimize.moore_complete h hs ht hb

/-- same block ⇔ same residual language -/
theorem moore_block_iff {A : Automaton} (h : wfAut A = true) {s t : Nat}
    (hs : s < A.states.length) (ht : t < A.states.length) :
    (moore A)[s]? = (moore A)[t]? ↔ resid A s = resid A t :=
  Minimize.moore_block_iff h hs ht

/-! ### number of blocks -/

/-- `numBlocks` counts the distinct block ids -/
theorem numBlocks_eq_card (blk : List Nat) : numBlocks blk = blk.toFinset.card := by
  unfold numBlocks
  rw [← List.toFinset_card_of_nodup (firstOccs_nodup blk)]
  congr 1
  ext x
  simp [mem_firstOccs]

/-- T:moore_numBlocks — the number of blocks of `moore A` is the number of distinct residual
    languages of the states of `A` -/
theorem moore_numBlocks {A : Automaton} (h : wfAut A = true) :
    numBlocks (moore A) =
      Set.ncard {L : Set (List Nat) | ∃ s, s < A.states.length ∧ L = resid A s} := by
  classical
  have hlen := moore_length h
  rw [numBlocks_eq_card]
  -- both sides are images of the state set
  have e1 : (moore A).toFinset =
      (Finset.range A.states.length).image (fun s => (moore A).getD s 0) := by
    ext x
    simp only [List.mem_toFinset, Finset.mem_image, Finset.mem_range]
    constructor
    · intro hx
      obtain ⟨i, hi, rfl⟩ := List.getElem_of_mem hx
      exact ⟨i, by omega, by simp [List.getD_eq_getElem?_getD, List.getElem?_eq_getElem hi]⟩
    · rintro ⟨s, hs, rfl⟩
      have hs' : s < (moore A).length := by omega
      simp [List.getD_eq_getElem?_getD, List.getElem?_eq_getElem hs']
  have e2 : {L : Set (List Nat) | ∃ s, s < A.states.length ∧ L = resid A s} =
      ↑((Finset.range A.states.length).image (fun s => resid A s)) := by
    ext L
    simp only [Set.mem_ofPred_eq, Finset.coe_image, Finset.coe_range, Set.mem_image, Set.mem_Iio]
    constructor
    · rintro ⟨s, hs, rfl⟩; exact ⟨s, hs, rfl⟩
    · rintro ⟨s, hs, rfl⟩; exact ⟨s, hs, rfl⟩
  rw [e1, e2, Set.ncard_coe_finset]
  -- the two images have the same kernel on the state set
  apply Finset.card_bij (fun b hb => resid A
    (Classical.choose (Finset.mem_image.1 hb)))
  · intro b hb
    have := Classical.choose_spec (Finset.mem_image.1 hb)
    exact Finset.mem_image.2 ⟨_, this.1, rfl⟩
  · intro b1 hb1 b2 hb2 he
    have s1 := Classical.choose_spec (Finset.mem_image.1 hb1)
    have s2 := Classical.choose_spec (Finset.mem_image.1 hb2)
    have hs1 := Finset.mem_range.1 s1.1
    have hs2 := Finset.mem_range.1 s2.1
    have := (moore_block_iff h hs1 hs2).2 he
    rw [← s1.2, ← s2.2]
    exact (getD_eq_iff (by omega) (by omega)).2 this
  · intro L hL
    obtain ⟨s, hs, rfl⟩ := Finset.mem_image.1 hL
    have hb : (moore A).getD s 0 ∈
        (Finset.range A.states.length).image (fun s => (moore A).getD s 0) :=
      Finset.mem_image.2 ⟨s, hs, rfl⟩
    refine ⟨_, hb, ?_⟩
    have sp := Classical.choose_spec (Finset.mem_image.1 hb)
    have hs1 := Finset.mem_range.1 sp.1
    have hs2 := Finset.mem_range.1 hs
    exact moore_sound h hs1 hs2 ((getD_eq_iff (by omega) (by omega)).1 sp.2)

/-! ### the abstract statements (op `hopcroft`: `Minimizer::refine` on a table-driven DFA) -/

/-- same block of the Moore partition ⇒ no word over the alphabet distinguishes the states -/
theorem hopcroft_spec_sound {n : Nat} {fin : Nat → Bool} {δ : Nat → Nat → Nat} {alphabet : List Nat}
    (hc : ∀ s, s < n → ∀ c ∈ alphabet, δ s c < n) {s t : Nat} (hs : s < n) (ht : t < n)
    (h : (mooreAbs n fin δ alphabet).getD s 0 = (mooreAbs n fin δ alphabet).getD t 0)
    (w : List Nat) (hw : ∀ c ∈ w, c ∈ alphabet) : fin (w.foldl δ s) = fin (w.foldl δ t) :=
  mooreAbs_sound hc hs ht h w hw

/-- different blocks ⇒ some word over the alphabet distinguishes the states -/
theorem hopcroft_spec_complete {n : Nat} {fin : Nat → Bool} {δ : Nat → Nat → Nat} {alphabet : List Nat}
    (hc : ∀ s, s < n → ∀ c ∈ alphabet, δ s c < n) {s t : Nat} (hs : s < n) (ht : t < n)
    (h : (mooreAbs n fin δ alphabet).getD s 0 ≠ (mooreAbs n fin δ alphabet).getD t 0) :
    ∃ w : List Nat, (∀ c ∈ w, c ∈ alphabet) ∧ fin (w.foldl δ s) ≠ fin (w.foldl δ t) :=
  mooreAbs_complete hc hs ht h

/-! ### homomorphisms -/

/-- T:hom_lang_eq — if `h` passes `checkHom` (initial state, finality and every transition on the
    representatives of the merged alphabet partition are preserved) then the two automata accept
    the same well-formed strings -/
theorem hom_lang_eq {A A' : Automaton} (hA : wfAut A = true) (hA' : wfAut A' = true)
    {h : List Nat} (hc : checkHom A A' h (alphabetOf2 A A') = true) (w : List Nat) (hw : WFs w) :
    A'.accepts w = A.accepts w := by
  obtain ⟨_, _, hinit, hstep, _⟩ := checkHom_spec hc
  have hi := (wfAut_spec hA).2.1
  rw [accepts_eq hA hw, accepts_eq hA' hw]
  have hr := hom_run hA hA' hc hw hi hinit
  obtain ⟨t, ht, hf, _⟩ := hstep _ (runD_lt hA hi hw)
  rw [hr] at ht
  cases ht
  rw [hf]

/-! ### minimality -/

/-- T:discrete_distinguishable — if the Moore partition of `A'` is discrete then any two distinct
    states of `A'` have different residual languages -/
theorem discrete_distinguishable {A' : Automaton} (hA' : wfAut A' = true)
    (hd : isDiscrete (moore A') = true) {s t : Nat}
    (hs : s < A'.states.length) (ht : t < A'.states.length) (hne : s ≠ t) :
    resid A' s ≠ resid A' t := by
  have hlen := moore_length hA'
  have hrange : moore A' = List.range (moore A').length := by
    simpa [isDiscrete] using hd
  intro he
  have := (moore_block_iff hA' hs ht).2 he
  rw [hrange] at this
  rw [List.getElem?_eq_getElem (by simpa [hlen] using hs),
      List.getElem?_eq_getElem (by simpa [hlen] using ht)] at this
  simp only [List.getElem_range, Option.some.injEq] at this
  exact hne this

/-! ### the checker -/

/-- what `checkMinimized` tests, clause by clause -/
theorem checkMinimized_spec {A A' : Automaton} (hc : checkMinimized A A' = true) :
    wfAut A = true ∧ wfAut A' = true ∧
    (∃ h, checkHom A A' h (alphabetOf2 A A') = true) ∧
    isDiscrete (moore A') = true ∧ countsOk A' = true := by
  unfold checkMinimized at hc
  simp only [Bool.and_eq_true] at hc
  obtain ⟨⟨⟨⟨h1, h2⟩, h3⟩, h4⟩, h5⟩ := hc
  refine ⟨h1, h2, ?_, h4, h5⟩
  split at h3
  · cases h3
  · rename_i h _; exact ⟨h, h3⟩

/-- T:check_minimized_sound — if the checker accepts `(A, A')` then
    (1) `A'` accepts exactly the well-formed strings `A` accepts;
    (2) any two distinct states of `A'` have different residual languages;
    (3) `A'` is consistent: `num_states` = number of states, ids `0 … n-1` in order, the initial
        state is one of them, `num_final_states` = number of final states;
    (4) if every state of `A` is reachable, the number of states of `A'` is the Myhill–Nerode
        index of the language of `A` (the number of distinct left quotients `u⁻¹ L(A)`), i.e. the
        size of the canonical minimal complete DFA. -/
theorem check_minimized_sound {A A' : Automaton} (hc : checkMinimized A A' = true) :
    (∀ w, WFs w → A'.accepts w = A.accepts w) ∧
    (∀ s t, s < A'.states.length → t < A'.states.length → s ≠ t → resid A' s ≠ resid A' t) ∧
    (A'.numStates = A'.states.length ∧ A'.initialState < A'.numStates ∧
      (∀ i (st : State), A'.states[i]? = some st → st.id = i) ∧
      A'.numFinalStates = (A'.states.filter (·.isFinal)).length) ∧
    (AllReachable A → A'.numStates = nerodeIndex A) := by
  obtain ⟨hA, hA', ⟨h, hh⟩, hd, hcnt⟩ := checkMinimized_spec hc
  have hlang : ∀ w, WFs w → A'.accepts w = A.accepts w := hom_lang_eq hA hA' hh
  have hdist := fun s t hs ht hne => discrete_distinguishable hA' hd (s := s) (t := t) hs ht hne
  obtain ⟨hn', hi', _⟩ := wfAut_spec hA'
  refine ⟨hlang, hdist, ⟨hn', hn' ▸ hi', fun i st hst => wf_id hA' hst, ?_⟩, ?_⟩
  · simpa [countsOk] using hcnt
  · intro hreach
    classical
    obtain ⟨_, _, hinit, _, hsurj⟩ := checkHom_spec hh
    have hi := (wfAut_spec hA).2.1
    -- every state of A' is reached by some well-formed string
    have hreach' : ∀ t, t < A'.states.length →
        ∃ u, WFs u ∧ runD A' A'.initialState u = t := by
      intro t ht
      obtain ⟨s, hs⟩ := List.mem_iff_getElem?.1 (hsurj t ht)
      have hsn : s < A.states.length := by
        have := (List.getElem?_eq_some_iff.1 hs).1
        rwa [(checkHom_spec hh).1] at this
      obtain ⟨u, st0, st, hu, h0, hrun, hid⟩ := hreach s hsn
      have h0' : A.states[A.initialState]? = some st0 := h0
      obtain ⟨_, t', ht', hn⟩ := strNext_eq hA hu h0'
      rw [hrun] at hn
      cases hn
      have hrs : runD A A.initialState u = s := by rw [← wf_id hA ht', hid]
      have := hom_run hA hA' hh hu hi hinit
      rw [hrs, hs] at this
      exact ⟨u, hu, (Option.some.inj this).symm⟩
    -- left quotients of A = left quotients of A'
    have hq : ∀ u, WFs u → leftQuot A u = leftQuot A' u := by
      intro u hu
      ext w
      simp only [leftQuot, Set.mem_ofPred_eq]
      constructor
      · rintro ⟨hw, ha⟩
        have huw : WFs (u ++ w) := fun c hc => by
          rcases List.mem_append.1 hc with h' | h'
          · exact hu c h'
          · exact hw c h'
        exact ⟨hw, by rw [hlang _ huw]; exact ha⟩
      · rintro ⟨hw, ha⟩
        have huw : WFs (u ++ w) := fun c hc => by
          rcases List.mem_append.1 hc with h' | h'
          · exact hu c h'
          · exact hw c h'
        exact ⟨hw, by rw [← hlang _ huw]; exact ha⟩
    have hset : {L : Set (List Nat) | ∃ u, WFs u ∧ L = leftQuot A u} =
        (fun t => resid A' t) '' (↑(Finset.range A'.states.length) : Set Nat) := by
      ext L
      simp only [Set.mem_ofPred_eq, Set.mem_image, Finset.coe_range, Set.mem_Iio]
      constructor
      · rintro ⟨u, hu, rfl⟩
        exact ⟨_, runD_lt hA' hi' hu, by rw [hq u hu, leftQuot_eq_resid hA' hu]⟩
      · rintro ⟨t, ht, rfl⟩
        obtain ⟨u, hu, rfl⟩ := hreach' t ht
        exact ⟨u, hu, by rw [hq u hu, leftQuot_eq_resid hA' hu]⟩
    have hinj : Set.InjOn (fun t => resid A' t) (↑(Finset.range A'.states.length) : Set Nat) := by
      intro s hs t ht he
      simp only [Finset.coe_range, Set.mem_Iio] at hs ht
      by_contra hne
      exact hdist s t hs ht hne he
    unfold nerodeIndex
    rw [hset, hinj.ncard_image, Set.ncard_coe_finset, Finset.card_range, hn']

/-! ### the specification's own quotient passes the checker -/

/-- T:quotient_passes_check — for EVERY well-formed complete DFA `A` the model's quotient exists
    (`remap_nodes` does not panic), is accepted by the checker, and has as many states as
    `moore A` has blocks.  So the hypothesis of `check_minimized_sound` is satisfiable for every
    `A` (non-vacuity), and the checker is complete for the canonical quotient. -/
theorem quotient_passes_check {A : Automaton} (h : wfAut A = true) :
    ∃ Q, quotient A (moore A) = some Q ∧ checkMinimized A Q = true ∧
      Q.numStates = numBlocks (moore A) :=
  quotient_passes h

/-- hence a minimal automaton in the sense of the property exists for every `A`, with the number
    of states given by the Moore partition -/
theorem minimization_exists {A : Automaton} (h : wfAut A = true) :
    ∃ Q, (∀ w, WFs w → Q.accepts w = A.accepts w) ∧
      (∀ s t, s < Q.states.length → t < Q.states.length → s ≠ t → resid Q s ≠ resid Q t) ∧
      Q.numStates = Set.ncard {L : Set (List Nat) | ∃ s, s < A.states.length ∧ L = resid A s} := by
  obtain ⟨Q, _, hc, hn⟩ := quotient_passes_check h
  obtain ⟨h1, h2, _, _⟩ := check_minimized_sound hc
  exact ⟨Q, h1, h2, by rw [hn, moore_numBlocks h]⟩

/-! ### `Partition::refine_block` (faithful model, `Model/Partition.lean`)

  `window seg h` = `seg[h.start .. h.stop)` = the elements of the block before the call;
  `RefineSpec p i pr h p' r` (Proofs/Partition) bundles: size and segment length unchanged, the
  segment is permuted and untouched outside the window of block `i`; no element satisfies `pr` ⇒
  result `(0, i)` and nothing changes; all do ⇒ `(i, 0)` and nothing changes; otherwise result
  `(i, old num_blocks)`, block `i` = the `pr`-elements in their old order (its header shrunk), the
  new block = the other elements (permuted), and every block with a disjoint window keeps its
  header and its elements. -/

open BasePartition in
/-- T:refine_block_spec (BasePartition) — block `i` is split exactly by the predicate -/
theorem base_refine_block_spec (p : BasePartition) (i : Nat) (pr : Nat → Bool) (h : BlockHeader)
    (hi : p.block[i]? = some h) (hle : h.start ≤ h.stop) (hstop : h.stop ≤ p.segment.length)
    (hsz : p.segment.length = p.size) :
    ∃ p' r, p.refineBlock i pr = some (p', r) ∧ RefineSpec p i pr h p' r :=
  BasePartition.refine_block_spec p i pr h hi hle hstop hsz

open BasePartition in
/-- T:refine_block_spec (Partition) — as above, and `block_id` becomes the id of the new block
    exactly for the elements moved to it (`i ≠ 0`: the code guards the update with
    `b1 != 0 && b2 != 0`, and block 0 is the empty block) -/
theorem refine_block_spec (p : Partition) (i : Nat) (pr : Nat → Bool) (h : BlockHeader)
    (hi : p.base.block[i]? = some h) (hle : h.start ≤ h.stop)
    (hstop : h.stop ≤ p.base.segment.length) (hsz : p.base.segment.length = p.base.size)
    (hid : ∀ x ∈ window p.base.segment h, x < p.blockId.length) :
    ∃ q r, p.refineBlock i pr = some (q, r) ∧ RefineSpec p.base i pr h q.base r ∧
      q.blockId.length = p.blockId.length ∧
      ∀ x, q.blockId[x]? =
        if i ≠ 0 ∧ (window p.base.segment h).filter pr ≠ [] ∧
            x ∈ (window p.base.segment h).filter (fun x => !pr x)
        then some p.base.numBlocks else p.blockId[x]? :=
  Partition.refine_block_spec p i pr h hi hle hstop hsz hid

open BasePartition in
/-- T:refine_block_with_fun_spec — `refine_block_with_fun(i, f, b)` is `refine_block` with the
    predicate "the block id of `f y` is `b`" (ids read before the update) -/
theorem refine_block_with_fun_spec (p : Partition) (i : Nat) (f : Nat → Nat) (b : Nat)
    (h : BlockHeader)
    (hi : p.base.block[i]? = some h) (hle : h.start ≤ h.stop)
    (hstop : h.stop ≤ p.base.segment.length) (hsz : p.base.segment.length = p.base.size)
    (hid : ∀ x ∈ window p.base.segment h, x < p.blockId.length)
    (hf : ∀ y ∈ window p.base.segment h, f y < p.blockId.length) :
    ∃ q r, p.refineBlockWithFun i f b = some (q, r) ∧
      RefineSpec p.base i (fun y => p.blockId.getD (f y) 0 == b) h q.base r ∧
      q.blockId.length = p.blockId.length ∧
      ∀ x, q.blockId[x]? =
        if i ≠ 0 ∧ (window p.base.segment h).filter (fun y => p.blockId.getD (f y) 0 == b) ≠ [] ∧
            x ∈ (window p.base.segment h).filter (fun y => !(p.blockId.getD (f y) 0 == b))
        then some p.base.numBlocks else p.blockId[x]? :=
  Partition.refine_block_with_fun_spec p i f b h hi hle hstop hsz hid hf

/-- a panic of the closure (`block_ids[f(y)]` out of bounds for some element of the block) makes
    `refine_block_with_fun` panic -/
theorem refine_block_with_fun_panics (p : Partition) (i : Nat) (f : Nat → Nat) (b : Nat)
    (hf : ∀ s, p.base.blockElements i = some s → ∃ y ∈ s, p.blockId.length ≤ f y) :
    p.refineBlockWithFun i f b = none :=
  Partition.refine_block_with_fun_none p i f b hf

/-! ### non-vacuity -/

/-- five states, all reachable; states 1 and 3 are equivalent although written differently
    (`a → 4, default → 2` versus `[0,96] → 2, [98,MAX] → 2, default → 4`) -/
def exA : Automaton :=
  { numStates := 5, numFinalStates := 1, initialState := 0,
    states := [
      { id := 0, isFinal := false, classes := ⟨[⟨97, 97⟩, ⟨98, 98⟩], 0⟩, successor := [1, 3],
        defaultSuccessor := some 2 },
      { id := 1, isFinal := false, classes := ⟨[⟨97, 97⟩], 0⟩, successor := [4],
        defaultSuccessor := some 2 },
      { id := 2, isFinal := false, classes := ⟨[], 0⟩, successor := [], defaultSuccessor := some 2 },
      { id := 3, isFinal := false, classes := ⟨[⟨0, 96⟩, ⟨98, MAX_CHAR⟩], 97⟩, successor := [2, 2],
        defaultSuccessor := some 4 },
      { id := 4, isFinal := true, classes := ⟨[], 0⟩, successor := [], defaultSuccessor := some 2 } ] }

/-- a minimization of `exA` with a state numbering different from the quotient's (as Hopcroft's
    block numbering would give): initial state 2, representative of {1,3} = old state 3 -/
def exA' : Automaton :=
  { numStates := 4, numFinalStates := 1, initialState := 2,
    states := [
      { id := 0, isFinal := true, classes := ⟨[], 0⟩, successor := [], defaultSuccessor := some 3 },
      { id := 1, isFinal := false, classes := ⟨[⟨0, 96⟩, ⟨98, MAX_CHAR⟩], 97⟩, successor := [3, 3],
        defaultSuccessor := some 0 },
      { id := 2, isFinal := false, classes := ⟨[⟨97, 97⟩, ⟨98, 98⟩], 0⟩, successor := [1, 1],
        defaultSuccessor := some 3 },
      { id := 3, isFinal := false, classes := ⟨[], 0⟩, successor := [], defaultSuccessor := some 3 } ] }

example : wfAut exA = true := by decide +kernel
example : moore exA = [0, 1, 2, 1, 3] := by decide +kernel
example : alphabetOf2 exA exA' = [0, 97, 98, 99] := by decide +kernel

/-- the hypothesis of `check_minimized_sound` is satisfiable by a result that is not the
    model's own quotient -/
theorem ex_check : checkMinimized exA exA' = true := by decide +kernel

/-- the checker rejects the unminimized automaton itself (states 1 and 3 are equivalent) … -/
example : checkMinimized exA exA = false := by decide +kernel
/-- … and a minimal automaton for another language (state 0 made final) -/
example : checkMinimized exA
    { exA' with numFinalStates := 2,
                states := exA'.states.modify 2 (fun s => { s with isFinal := true }) } = false := by
  decide +kernel

theorem ex_reachable : AllReachable exA := by
  have wf : ∀ l, goodString l = true → WFs l := fun l h => (goodString_iff l).1 h
  apply allReachable_of_runD (by decide +kernel)
  intro s hs
  have hs' : s < 5 := hs
  rcases s with _ | _ | _ | _ | _ | s
  · exact ⟨[], wf _ (by decide), by decide +kernel⟩
  · exact ⟨[97], wf _ (by decide), by decide +kernel⟩
  · exact ⟨[0], wf _ (by decide), by decide +kernel⟩
  · exact ⟨[98], wf _ (by decide), by decide +kernel⟩
  · exact ⟨[97, 97], wf _ (by decide), by decide +kernel⟩
  · omega

/-- all four clauses of `check_minimized_sound` on the example; in particular the language of
    `exA` has Myhill–Nerode index 4 -/
example : nerodeIndex exA = 4 := ((check_minimized_sound ex_check).2.2.2 ex_reachable).symm

/-- `refine_block` on `Partition::new(6)`, block 1, "even": `[0,2,4]` stay in order, the odd
    elements end up permuted (`[3,1,5]`) in the new block 2; all hypotheses of `refine_block_spec`
    hold for this call -/
example : (Partition.new 6).refineBlock 1 (fun x => x % 2 == 0) =
    some (⟨⟨6, [⟨0, 0⟩, ⟨0, 3⟩, ⟨3, 6⟩], [0, 2, 4, 3, 1, 5]⟩, [1, 2, 1, 2, 1, 2]⟩, (1, 2)) := by
  decide
example : ∃ q r, (Partition.new 6).refineBlock 1 (fun x => x % 2 == 0) = some (q, r) ∧
    q.blockId.length = 6 :=
  let ⟨q, r, h1, _, h3, _⟩ := refine_block_spec (Partition.new 6) 1 (fun x => x % 2 == 0) ⟨0, 6⟩
    (by decide) (by decide) (by decide) (by decide) (by decide)
  ⟨q, r, h1, h3⟩

/-- the model's quotient of `exA`: representative of {1,3} = state 1 (the smallest) -/
def exQ : Automaton :=
  { numStates := 4, numFinalStates := 1, initialState := 0,
    states := [
      { id := 0, isFinal := false, classes := ⟨[⟨97, 97⟩, ⟨98, 98⟩], 0⟩, successor := [1, 1],
        defaultSuccessor := some 2 },
      { id := 1, isFinal := false, classes := ⟨[⟨97, 97⟩], 0⟩, successor := [3],
        defaultSuccessor := some 2 },
      { id := 2, isFinal := false, classes := ⟨[], 0⟩, successor := [], defaultSuccessor := some 2 },
      { id := 3, isFinal := true, classes := ⟨[], 0⟩, successor := [], defaultSuccessor := some 2 } ] }

/-- the quotient of the example, concretely -/
example : quotient exA (moore exA) = some exQ ∧ checkMinimized exA exQ = true ∧
    exQ.numStates = numBlocks (moore exA) := by
  refine ⟨by decide +kernel, by decide +kernel, by decide +kernel⟩

/-! ### Hopcroft's algorithm as written: `minimizer.rs`, `fast_sets.rs`
  (faithful models `Model/Hopcroft.lean`, `Model/FastSet.lean`; proofs in `Proofs/FastSet.lean`,
  `Proofs/HopcroftPart.lean`, `Proofs/HopcroftLists.lean`, `Proofs/HopcroftUpdate.lean`,
  `Proofs/Hopcroft.lean`)

  The model follows the Rust line by line (splitter lists with the active prefix, `active_block`
  cursor, one `BasePartition` of pred classes per letter, `take_list` with the current fix, the
  candidate `FastSet`, "the splitter's own block last") and is compared LITERALLY with the real
  code on every run (ops `hopcroft_blocks`, `hopcroft_state`, `hopcroft_trace`, `minimize_literal`,
  `fastset` of family `min`).  What is proved about it, for every `n`, `k`, every closed transition
  function and every finality predicate (hypothesis `Closed δ n k`: `delta(x, c)` is defined and
  `< n` for `x < n`, `c < k` — what `compile_successors` guarantees, C14):

  whenever `Minimizer::new(n, k, delta, is_final).refine()` returns a partition `P`
  (`Hopcroft.run … = some P`, i.e. no panic site was hit and the loop ended within its fuel),
  * `hopcroft_invariants`       `P` is a partition of the states into the non-empty blocks
                                `1 … num_blocks-1` with `block_id` consistent, and every block is
                                uniform in finality;
  * `hopcroft_never_separates_equivalent`   states that no word distinguishes are in one block
                                (every refinement step only splits a block along a difference that
                                some word witnesses);
  * `hopcroft_stable_on_exit`   `P` is stable: for every block and letter all successors lie in one
                                block.  This is Hopcroft's invariant: for `x, y` in one block and a
                                letter `c` with successors in different blocks `B ≠ B'`, `(B, c)` or
                                `(B', c)` is an ACTIVE splitter — kept by every split through the
                                sibling rule (`upate_splitters_after_refinement`: an active `(D, c)`
                                makes both halves active, otherwise one of the two halves becomes
                                active; which half is irrelevant for correctness), and during a round
                                by "…or exactly one successor lies in the splitter's block";
  * `hopcroft_correct`          hence `P` is exactly the Moore / Nerode partition (`mooreAbs`, the
                                specification of op `hopcroft`) up to the numbering of the blocks.
  That `Hopcroft.run` never returns `none` on a closed DFA (absence of panics and sufficiency of the
  fuel `(k+1)·n+1`, i.e. termination) is proved in the last section of this file (`run_total`).
  NOT proved: the O(n log n) bound.  -/

section Hopcroft
open Hopcroft Partition BasePartition

/-- T:fastset_spec — `FastSet` (two arrays `pos`/`elem`) implements a finite subset of
    `{0, …, max-1}`: with `live s = elem[0..size)` as abstract value and `FastSet.Inv` the
    representation invariant stated in the source, `new`/`reset` give the empty set, `iter` yields
    the elements without repetition and `card` counts them, and for `x < max` no call panics,
    `contains` decides membership, `insert` adds exactly `x`, `remove` deletes exactly `x` -/
theorem fastset_spec :
    (∀ max, FastSet.Inv (FastSet.new max) ∧ FastSet.live (FastSet.new max) = []) ∧
    (∀ s, FastSet.Inv s → FastSet.Inv s.reset ∧ FastSet.live s.reset = [] ∧
      s.card = (FastSet.live s).length ∧ s.iter = some (FastSet.live s) ∧ (FastSet.live s).Nodup ∧
      ∀ x ∈ FastSet.live s, x < s.max) ∧
    (∀ s x, FastSet.Inv s → x < s.max →
      s.contains x = some (decide (x ∈ FastSet.live s)) ∧
      (∃ s', s.insert x = some s' ∧ FastSet.Inv s' ∧ s'.max = s.max ∧
        ∀ z, z ∈ FastSet.live s' ↔ z = x ∨ z ∈ FastSet.live s) ∧
      (∃ s', s.remove x = some s' ∧ FastSet.Inv s' ∧ s'.max = s.max ∧
        ∀ z, z ∈ FastSet.live s' ↔ z ∈ FastSet.live s ∧ z ≠ x)) := by
  refine ⟨fun max => ⟨FastSet.new_inv max, FastSet.new_live max⟩, ?_, ?_⟩
  · intro s h
    exact ⟨FastSet.reset_inv h, FastSet.reset_live s, FastSet.card_spec h, (FastSet.iter_spec h).1,
      (FastSet.iter_spec h).2, fun x hx => FastSet.live_lt h hx⟩
  · intro s x h hx
    refine ⟨FastSet.contains_spec h hx, ?_, ?_⟩
    · obtain ⟨s', e, hi, hm, hl⟩ := FastSet.insert_spec h hx
      refine ⟨s', e, hi, hm, ?_⟩
      intro z
      rw [hl]
      split
      · rename_i hin
        constructor
        · exact fun hz => .inr hz
        · rintro (rfl | hz)
          · exact hin
          · exact hz
      · simp only [List.mem_append, List.mem_singleton]
        constructor
        · rintro (hz | hz)
          · exact .inr hz
          · exact .inl hz
        · rintro (hz | hz)
          · exact .inr hz
          · exact .inl hz
    · obtain ⟨s', e, hi, hm, hl, _⟩ := FastSet.remove_spec h hx
      exact ⟨s', e, hi, hm, hl⟩

variable {δ : Nat → Nat → Option Nat} {isFinal : Nat → Option Bool} {n k : Nat}

/-- T:hopcroft_invariants — the partition returned by `Minimizer::new(..).refine()` is a partition
    of the `n` states (`PartWF`: headers inside `[0,n]` with disjoint windows, block 0 empty, every
    state in exactly one block, blocks `≥ 1` non-empty, `block_id[x] = b ⇔ x` is stored in block `b`)
    and every block is uniform in finality -/
theorem hopcroft_invariants (hcl : Closed δ n k) {P : Partition}
    (h : Hopcroft.run δ isFinal n k = some P) :
    PartWF P n ∧
    ∀ x y, x < n → y < n → blk P x = blk P y → ff isFinal x = ff isFinal y :=
  let ⟨h1, h2, _, _⟩ := run_spec hcl h
  ⟨h1, h2⟩

/-- states that no word over the `k` letters distinguishes are never separated -/
theorem hopcroft_never_separates_equivalent (hcl : Closed δ n k) {P : Partition}
    (h : Hopcroft.run δ isFinal n k = some P) {x y : Nat} (hx : x < n) (hy : y < n)
    (hxy : ∀ w : List Nat, (∀ c ∈ w, c < k) →
      ff isFinal (w.foldl (dd δ) x) = ff isFinal (w.foldl (dd δ) y)) :
    blk P x = blk P y :=
  (run_spec hcl h).2.2.1 x y hx hy hxy

/-- T:hopcroft_stable_on_exit — when `refine` returns, the partition is stable: two states of one
    block are sent into one block by every letter -/
theorem hopcroft_stable_on_exit (hcl : Closed δ n k) {P : Partition}
    (h : Hopcroft.run δ isFinal n k = some P) {x y : Nat} (hx : x < n) (hy : y < n)
    (hb : blk P x = blk P y) {c : Nat} (hc : c < k) :
    blk P (dd δ x c) = blk P (dd δ y c) :=
  (run_spec hcl h).2.2.2 x y hx hy hb c hc

/-- block form: for blocks `B`, `C` and a letter `c`, either every state of `C` goes into `B` on
    `c` or none does -/
theorem hopcroft_stable_blocks (hcl : Closed δ n k) {P : Partition}
    (h : Hopcroft.run δ isFinal n k = some P) (B C : Nat) {c : Nat} (hc : c < k) :
    (∀ x, x < n → blk P x = C → blk P (dd δ x c) = B) ∨
    (∀ x, x < n → blk P x = C → blk P (dd δ x c) ≠ B) := by
  by_cases hex : ∃ x, x < n ∧ blk P x = C ∧ blk P (dd δ x c) = B
  · obtain ⟨x, hx, hxC, hxB⟩ := hex
    left
    intro y hy hyC
    rw [← hopcroft_stable_on_exit hcl h hx hy (hxC.trans hyC.symm) hc]
    exact hxB
  · right
    intro x hx hxC hxB
    exact hex ⟨x, hx, hxC, hxB⟩

/-- T:hopcroft_correct — on exit the partition is the Moore / Nerode partition of the abstract DFA
    (`mooreAbs`, proved to be the Nerode equivalence by `hopcroft_spec_sound/complete`) up to the
    numbering of the blocks: same Hopcroft block ⇔ same Moore block -/
theorem hopcroft_correct (hcl : Closed δ n k) {P : Partition}
    (h : Hopcroft.run δ isFinal n k = some P) {x y : Nat} (hx : x < n) (hy : y < n) :
    blk P x = blk P y ↔
      (mooreAbs n (ff isFinal) (dd δ) (List.range k)).getD x 0 =
      (mooreAbs n (ff isFinal) (dd δ) (List.range k)).getD y 0 := by
  obtain ⟨_, hfin, hcoarse, hst⟩ := run_spec hcl h
  have hc : ∀ s, s < n → ∀ c ∈ List.range k, dd δ s c < n :=
    fun s hs c hc => (hcl.eq hs (List.mem_range.1 hc)).2
  constructor
  · intro hb
    by_contra hne
    obtain ⟨w, hw, hd⟩ := hopcroft_spec_complete hc hx hy hne
    exact hd (indist_of_stable hcl hfin hst x y hx hy hb w (fun c hc' => List.mem_range.1 (hw c hc')))
  · intro hm
    apply hcoarse x y hx hy
    intro w hw
    exact hopcroft_spec_sound hc hx hy hm w (fun c hc' => List.mem_range.2 (hw c hc'))

/-- hence: same Hopcroft block ⇔ no word distinguishes the two states -/
theorem hopcroft_block_iff_indistinguishable (hcl : Closed δ n k) {P : Partition}
    (h : Hopcroft.run δ isFinal n k = some P) {x y : Nat} (hx : x < n) (hy : y < n) :
    blk P x = blk P y ↔
      ∀ w : List Nat, (∀ c ∈ w, c < k) →
        ff isFinal (w.foldl (dd δ) x) = ff isFinal (w.foldl (dd δ) y) := by
  obtain ⟨_, hfin, hcoarse, hst⟩ := run_spec hcl h
  exact ⟨fun hb => indist_of_stable hcl hfin hst x y hx hy hb, fun hi => hcoarse x y hx hy hi⟩

/-! non-vacuity: a 6-state, 2-letter DFA (the corpus witness "the splitter's own block is split by
    itself"): states 3 and 4 are equivalent, as are 1 and 2 -/

def exRows : List (List Nat) := [[1, 2], [3, 4], [4, 3], [5, 5], [5, 5], [5, 5]]
def exDelta (s c : Nat) : Option Nat := (exRows[s]?).bind (fun r => r[c]?)
def exFinal (s : Nat) : Option Bool := [false, false, false, false, false, true][s]?

example : Closed exDelta 6 2 := by
  intro x c hx hc
  have : x = 0 ∨ x = 1 ∨ x = 2 ∨ x = 3 ∨ x = 4 ∨ x = 5 := by omega
  have : c = 0 ∨ c = 1 := by omega
  rcases ‹x = 0 ∨ _› with rfl | rfl | rfl | rfl | rfl | rfl <;> rcases ‹c = 0 ∨ _› with rfl | rfl <;>
    exact ⟨_, rfl, by decide⟩

/-- the run of the model on it: blocks `{5} {3,4} {0} {2,1}` (ids 1, 2, 3, 4), exactly what the
    real `Minimizer` returns (corpus line of op `hopcroft_blocks`) -/
example : (Hopcroft.run exDelta exFinal 6 2).map (fun P => (P.blockId, P.base.segment)) =
    some ([3, 4, 4, 2, 2, 1], [5, 3, 4, 0, 2, 1]) := by decide +kernel

end Hopcroft

/-! ### the model of `Automaton::minimize` passes the verified checker

  `Automaton.minimize` (Model/Hopcroft.lean) = `compile_successors`, `Minimizer::new`, `refine`,
  `StateMapping::from_partition` (`new_id[s] = block_id(s) - 1`, `old_id[b-1] = pick_element(b)`),
  `remap_nodes` — or nothing at all when no two states are merged.  Hypotheses: `AutWF A` (the
  invariant of every automaton the crate hands out, C13/C14; it gives the compiled table and a
  consistent `num_final_states`, without which the unchanged automaton of the "already minimal"
  branch would fail the checker's count clause) and the checker's own `wfAut A`. -/

/-- T:minimize_model_passes_check — whenever the model's `minimize` returns an automaton, the
    verified checker accepts it -/
theorem minimize_model_passes_check {A A' : Automaton} (hw : AutWF A) (h : wfAut A = true)
    (hm : A.minimize = some A') : checkMinimized A A' = true :=
  Minimize.minimize_passes hw h hm

/-- hence the model's `minimize` is correct in the full sense of the property (the four clauses of
    `check_minimized_sound`) -/
theorem minimize_model_correct {A A' : Automaton} (hw : AutWF A) (h : wfAut A = true)
    (hm : A.minimize = some A') :
    (∀ w, WFs w → A'.accepts w = A.accepts w) ∧
    (∀ s t, s < A'.states.length → t < A'.states.length → s ≠ t → resid A' s ≠ resid A' t) ∧
    (A'.numStates = A'.states.length ∧ A'.initialState < A'.numStates ∧
      (∀ i (st : State), A'.states[i]? = some st → st.id = i) ∧
      A'.numFinalStates = (A'.states.filter (·.isFinal)).length) ∧
    (AllReachable A → A'.numStates = nerodeIndex A) :=
  check_minimized_sound (minimize_model_passes_check hw h hm)

/-- non-vacuity: the example automaton satisfies both hypotheses -/
theorem exA_autWF : AutWF exA := by
  refine ⟨by decide, by decide, by decide, ?_, by decide⟩
  intro s hs
  simp only [exA, List.mem_cons, List.not_mem_nil, or_false] at hs
  rcases hs with rfl | rfl | rfl | rfl | rfl <;>
    exact ⟨by decide +kernel, by decide, by decide, by decide, by decide⟩

/-- non-vacuity: the model's `minimize` on the example returns a 4-state automaton with Hopcroft's
    numbering (block of the final state first), different from the specification's quotient `exQ` -/
example : (Automaton.minimize exA).map (fun Q => (Q.numStates, Q.initialState, Q.states.map (·.isFinal)))
    = some (4, 2, [true, false, false, false]) := by decide +kernel

example : ∃ Q, Automaton.minimize exA = some Q ∧ checkMinimized exA Q = true := by
  cases hq : Automaton.minimize exA with
  | none => exact absurd hq (by decide +kernel)
  | some Q => exact ⟨Q, rfl, minimize_model_passes_check exA_autWF (by decide +kernel) hq⟩

/-! ### totality: no panic site is reached and the fuel of `refine` suffices
  (proofs in `Proofs/HopcroftTotal.lean`)

  Hypotheses: `Closed δ n k` (what `compile_successors` guarantees, C14), `1 ≤ n`, `1 ≤ k`, and the
  finality closure is defined on the states (`is_final(x)` does not itself panic for `x < n`; its
  values are arbitrary).  `1 ≤ k` is needed: with an empty alphabet `Minimizer::new` adds no splitter,
  `SplitterSet.list` stays empty and `has_active_splitter` indexes `l[0]` out of bounds as soon as
  the loop of `refine` is entered (`index() < num_states`, e.g. `n = 2`, `k = 0`, no final state:
  `Hopcroft.run … = none`; the crate never does this: `pick_alphabet` is never empty, C14).

  no panic.  The invariant is `Inv` of `Proofs/Hopcroft.lean` (main partition `PartWF`; splitter
  lists `LWF`: `num_active ≤ len`; every item `(c, class)` of every list has `c < k`, `class ≠ 0`,
  `class` a block of the well-formed `pred_classes[c]`; chars of one list pairwise distinct) plus the
  new clause `CurOK`: the cursor `active_block` is a valid index of `SplitterSet.list`.  Site by site:
  `list.swap` in `add`, `&list[num_active]` / `debug_assert!(num_active > 0)` in `pick_active`,
  `self.list[b]` in `add_splitter`, `l[b]` in `has_active_splitter`, `&mut self.list[b]` in
  `pick_splitter` by `LWF`/`CurOK`; `debug_assert!(s.class != 0)`, `pred_classes[c]`,
  `p.refine_block`, `p.smaller_block` in `upate_splitters_after_refinement` by the item clauses;
  `debug_assert_eq!(num_blocks(), 2)` and `debug_assert!(i == 1 && j == 2)` in `init_main_partition`
  by `Partition::new`; `block_id(x)`, `block_size(b)`, the `FastSet` calls (`x < max = num_blocks`)
  in `collect_refinement_candidates` / `refine_with_splitter` by `PartWF`; `delta`/`block_ids[..]`
  inside `refine_block_with_fun` by `Closed`; `debug_assert_eq!(i, b)` by `refine_block`'s result
  shape; and `debug_assert!(i != 0)` in `refine_block_with_splitter` by a SEMANTIC argument: every
  candidate block was inserted because one of its members has its `c`-successor in the splitter's
  block, and refining the other candidates (distinct blocks, the splitter's own block last) moves
  neither that member nor the splitter's block.

  fuel.  `Φ m = (number of active items) + k · (n + 1 − num_blocks)` (`Phi`).  `pick_splitter`
  deactivates one item; a split raises `num_blocks` by one and activates at most one more item per
  entry of the old list of the split block (an active entry yields ≤ 2 active ones, an inactive one
  exactly ≤ 1 — the "smaller half" rule), i.e. at most `k`; `num_blocks ≤ n + 1`.  So every round
  lowers `Φ`, `Φ ≤ k·n` after `new`, and the model's fuel `(k+1)·n+1` is sufficient (with room to
  spare: `k·(n−1)+1` rounds suffice; confirmed exhaustively for `n ≤ 3, k ≤ 2`, `n = 4, k = 1`,
  `n = 2, k = 3` by evaluation). -/

section HopcroftTotal
open Hopcroft Partition BasePartition

variable {δ : Nat → Nat → Option Nat} {isFinal : Nat → Option Bool} {n k : Nat}

/-- T:hopcroft_new_no_panic — `Minimizer::new(n, k, delta, is_final)` reaches no panic site; it
    establishes the invariant (`Inv`, `CurOK`) and `Φ ≤ k·n` -/
theorem hopcroft_new_no_panic (hcl : Closed δ n k) (hn : 1 ≤ n) (hk : 1 ≤ k)
    (hfin : ∀ x, x < n → isFinal x ≠ none) :
    ∃ m, Hopcroft.new δ isFinal n k = some m ∧ Inv δ isFinal n k (fun _ _ _ => False) m ∧
      CurOK m.splitters ∧ Phi n k m ≤ k * n := by
  obtain ⟨m, hnew, hcur, hphi⟩ := new_total (isFinal := isFinal) hcl hn hk hfin
  exact ⟨m, hnew, new_inv hcl hnew, hcur, hphi⟩

/-- T:hopcroft_round_no_panic — one iteration of the `while` loop of `refine` under the invariant:
    `index()` and `pick_splitter()` do not panic, and if a splitter is picked, `refine_with_splitter`
    does not panic, re-establishes the invariant and lowers `Φ` -/
theorem hopcroft_round_no_panic (hcl : Closed δ n k) {m : Minimizer}
    (inv : Inv δ isFinal n k (fun _ _ _ => False) m) (hcur : CurOK m.splitters) :
    m.mainPartition.index = some (m.mainPartition.numBlocks - 1) ∧
    ∃ r m1, Hopcroft.pickSplitter m = some (r, m1) ∧
      ∀ s, r = some s → ∃ m2, refineWithSplitter δ m1 s = some m2 ∧
        Inv δ isFinal n k (fun _ _ _ => False) m2 ∧ CurOK m2.splitters ∧ Phi n k m2 < Phi n k m :=
  round_total hcl inv hcur

/-- T:hopcroft_fuel_sufficient — under the invariant the loop of `refine` returns with any fuel
    above `Φ`; the model's own fuel `refineFuel n k = (k+1)·n+1` is above the `k·n` that bounds `Φ`
    after `new` -/
theorem hopcroft_fuel_sufficient (hcl : Closed δ n k) {m : Minimizer}
    (inv : Inv δ isFinal n k (fun _ _ _ => False) m) (hcur : CurOK m.splitters) {fuel : Nat}
    (hf : Phi n k m < fuel) : ∃ m', refineLoop δ fuel m = some m' :=
  refineLoop_total hcl fuel m inv hcur hf

theorem refineFuel_gt (n k : Nat) : k * n < refineFuel n k := by
  unfold refineFuel
  have : (k + 1) * n = k * n + n := by rw [Nat.add_mul, Nat.one_mul]
  omega

/-- T:run_total — `Minimizer::new(n, k, delta, is_final).refine()` always returns: no panic site of
    the model is reached and the loop ends within the model's fuel -/
theorem run_total (hcl : Closed δ n k) (hn : 1 ≤ n) (hk : 1 ≤ k)
    (hfin : ∀ x, x < n → isFinal x ≠ none) : ∃ P, Hopcroft.run δ isFinal n k = some P :=
  Hopcroft.run_total hcl hn hk hfin

/-- T:hopcroft_correct_total — unconditional form of `hopcroft_invariants` + `hopcroft_correct`:
    the run returns a partition of the states which is exactly the Moore / Nerode partition -/
theorem hopcroft_correct_total (hcl : Closed δ n k) (hn : 1 ≤ n) (hk : 1 ≤ k)
    (hfin : ∀ x, x < n → isFinal x ≠ none) :
    ∃ P, Hopcroft.run δ isFinal n k = some P ∧ PartWF P n ∧
      ∀ x y, x < n → y < n →
        (blk P x = blk P y ↔
          (mooreAbs n (ff isFinal) (dd δ) (List.range k)).getD x 0 =
          (mooreAbs n (ff isFinal) (dd δ) (List.range k)).getD y 0) := by
  obtain ⟨P, hP⟩ := run_total (isFinal := isFinal) hcl hn hk hfin
  exact ⟨P, hP, (hopcroft_invariants hcl hP).1, fun x y hx hy => hopcroft_correct hcl hP hx hy⟩

/-! non-vacuity: the hypotheses hold for the 6-state example above -/

theorem exClosed : Closed exDelta 6 2 := by
  intro x c hx hc
  have : x = 0 ∨ x = 1 ∨ x = 2 ∨ x = 3 ∨ x = 4 ∨ x = 5 := by omega
  have : c = 0 ∨ c = 1 := by omega
  rcases ‹x = 0 ∨ _› with rfl | rfl | rfl | rfl | rfl | rfl <;> rcases ‹c = 0 ∨ _› with rfl | rfl <;>
    exact ⟨_, rfl, by decide⟩

theorem exFinal_total : ∀ x, x < 6 → exFinal x ≠ none := by
  intro x hx
  have : x = 0 ∨ x = 1 ∨ x = 2 ∨ x = 3 ∨ x = 4 ∨ x = 5 := by omega
  rcases this with rfl | rfl | rfl | rfl | rfl | rfl <;> decide

example : ∃ P, Hopcroft.run exDelta exFinal 6 2 = some P :=
  run_total exClosed (by decide) (by decide) exFinal_total

end HopcroftTotal

/-- T:minimize_total — the model of `Automaton::minimize` always returns on an automaton as the
    crate hands them out: `compile_successors` (C14), `Minimizer::new`, `refine` (within its fuel),
    `p.index()`, `StateMapping::from_partition` (`block_id(s) - 1` does not underflow, `new_id[s]`,
    `old_id[b-1]`, `pick_element(b)` in bounds) and `remap_nodes` reach no panic site -/
theorem minimize_total {A : Automaton} (hw : AutWF A) (h : wfAut A = true) :
    ∃ A', A.minimize = some A' :=
  Minimize.minimize_total hw h

/-- T:minimize_correct_total — the headline, unconditionally: for every automaton as the crate hands
    them out the model's `minimize` returns an automaton `A'` with (1) the same language on
    well-formed strings, (2) pairwise distinguishable states, (3) consistent ids / counts / initial
    state, (4) as many states as the Myhill–Nerode index when all states of `A` are reachable -/
theorem minimize_correct_total {A : Automaton} (hw : AutWF A) (h : wfAut A = true) :
    ∃ A', A.minimize = some A' ∧
    (∀ w, WFs w → A'.accepts w = A.accepts w) ∧
    (∀ s t, s < A'.states.length → t < A'.states.length → s ≠ t → resid A' s ≠ resid A' t) ∧
    (A'.numStates = A'.states.length ∧ A'.initialState < A'.numStates ∧
      (∀ i (st : State), A'.states[i]? = some st → st.id = i) ∧
      A'.numFinalStates = (A'.states.filter (·.isFinal)).length) ∧
    (AllReachable A → A'.numStates = nerodeIndex A) := by
  obtain ⟨A', hm⟩ := minimize_total hw h
  exact ⟨A', hm, minimize_model_correct hw h hm⟩

/-- non-vacuity: on the example automaton (hypotheses `exA_autWF`, `wfAut exA`) -/
example : ∃ Q, Automaton.minimize exA = some Q ∧ (∀ w, WFs w → Q.accepts w = exA.accepts w) ∧
    Q.numStates = nerodeIndex exA := by
  obtain ⟨Q, hQ, h1, _, _, h4⟩ := minimize_correct_total exA_autWF (by decide +kernel)
  exact ⟨Q, hQ, h1, h4 ex_reachable⟩

end Smt.C04
