/-
  C04 — minimize preserves the language and leaves no two equivalent states
  (DESIGN.md §1 decision (b), §7 C04, §11).

  WHAT IS PROVED HERE, AND WHAT IS NOT.  `Automaton::minimize` runs Hopcroft's algorithm
  (`minimizer.rs`: splitter lists, pred-class partitions, ~550 lines of index bookkeeping).  That
  bookkeeping is NOT modelled and NOT proved.  Instead (design decision (b)):

  * the specification is the Moore / Myhill–Nerode quotient (`Model/Minimize.lean`: `moore`,
    `quotient`), proved correct here (`moore_sound`, `moore_complete`, `moore_numBlocks`);
  * `checkMinimized A A'` is an executable certificate checker, and `check_minimized_sound` proves
    that whenever it accepts, `A'` is a correct minimization of `A` in the full sense of the
    property: same language on all well-formed strings, pairwise distinguishable states,
    consistent initial state / ids / counts, and — when all states of `A` are reachable — exactly
    as many states as the Myhill–Nerode index of the language;
  * on every run of the check the real `minimize()` is executed on generated automata and every
    single output is fed to the verified checker (family `min`, op `minimize`), the number of states
    is compared with the number of Moore blocks (op `minimize_num_states`), and `Minimizer::refine`
    is compared with the Moore partition on abstract DFAs (op `hopcroft`).  So Hopcroft's internals
    are validated per run through a verified checker, not proved for all inputs.
  * `BasePartition/Partition::refine_block(_with_fun)` (`partitions.rs`) IS modelled line by line
    (`Model/Partition.lean`) and proved (`refine_block_spec`, …, from `Proofs/Partition.lean`).

  Hypotheses.  `wfAut A = true` is the decidable "complete DFA as the crate hands them out"
  predicate (ids = indices, per-state partitions well formed, successors in range, a default
  successor wherever the complementary class is non-empty); `checkMinimized` tests it for both
  automata, so `check_minimized_sound` has no hypothesis besides `checkMinimized A A' = true`.
  Residual languages / left quotients are sets of well-formed strings (`WFs`, all characters
  `≤ MAX_CHAR`), DESIGN.md §6.  "One representative per character class suffices" is derived
  from C11 (`picks_mem`, `pick_in_class_spec`) and C12 (`merge_list_refines`, `merge_refines`) in
  `Proofs/Minimize.lean` (`combined_uniform`, `alphabet2_covers`).

  Theorems
  * `moore_sound`            same Moore block ⇒ same residual language
  * `moore_complete`         different blocks ⇒ a well-formed distinguishing string exists
  * `moore_block_iff`        both: same block ⇔ same residual language
  * `moore_numBlocks`        number of blocks of `moore A` = number of distinct residual languages
                             of the states of `A` (the model value of op `minimize_num_states`)
  * `hom_lang_eq`            a verified homomorphism gives `accepts A' w = accepts A w`
  * `discrete_distinguishable`  `moore A'` discrete ⇒ the states of `A'` have pairwise different
                             residual languages
  * `check_minimized_sound`  the four clauses above from `checkMinimized A A' = true`
  * `mooreAbs_sound'`/`mooreAbs_complete'`  the abstract statements behind op `hopcroft`
  * `refine_block_spec` …    see the end of the file
  * `quotient_passes_check_partial`  non-vacuity of the checker on concrete automata only; the
                             general statement (for every complete `A`, `checkMinimized A
                             (quotient A (moore A)) = true`) is NOT proved; it is tested on every
                             generated automaton by op `quotient_check`.
-/
import SmtModel.Proofs.Minimize
import SmtModel.Proofs.Partition

namespace Smt.C04
open Smt Smt.Minimize

/-! ### the Moore partition is the Nerode equivalence of the states -/

theorem moore_length {A : Automaton} (h : wfAut A = true) :
    (moore A).length = A.states.length :=
  mooreAbs_length (covers_closed h (alphabet_covers h).1)

private theorem getD_eq_iff {l : List Nat} {s t : Nat} (hs : s < l.length) (ht : t < l.length) :
    l.getD s 0 = l.getD t 0 ↔ l[s]? = l[t]? := by
  simp [List.getD_eq_getElem?_getD, List.getElem?_eq_getElem hs, List.getElem?_eq_getElem ht]

/-- T:moore_sound — two states in the same block of `moore A` have the same residual language -/
theorem moore_sound {A : Automaton} (h : wfAut A = true) {s t : Nat}
    (hs : s < A.states.length) (ht : t < A.states.length)
    (hb : (moore A)[s]? = (moore A)[t]?) : resid A s = resid A t := by
  have hcl := covers_closed h (alphabet_covers h).1
  have hlen := moore_length h
  have hb' := (getD_eq_iff (hlen ▸ hs) (hlen ▸ ht)).2 hb
  ext w
  rw [resid_iff h hs, resid_iff h ht]
  constructor <;> rintro ⟨hw, hf⟩ <;> refine ⟨hw, ?_⟩ <;>
    obtain ⟨w', hm, e⟩ := normalize h (alphabet_covers h) hw <;>
    have key := mooreAbs_sound (fin := finD A) hcl hs ht hb' w' hm <;>
    have e1 := e s hs <;> have e2 := e t ht <;>
    simp only [runD] at e1 e2 hf ⊢
  · rw [← e2, ← key, e1]; exact hf
  · rw [← e1, key, e2]; exact hf

/-- T:moore_complete — two states in different blocks are distinguished by a well-formed string -/
theorem moore_complete {A : Automaton} (h : wfAut A = true) {s t : Nat}
    (hs : s < A.states.length) (ht : t < A.states.length)
    (hb : (moore A)[s]? ≠ (moore A)[t]?) :
    ∃ w, WFs w ∧ ¬ (w ∈ resid A s ↔ w ∈ resid A t) := by
  have hcov := alphabet_covers h
  have hcl := covers_closed h hcov.1
  have hlen := moore_length h
  have hb' : (moore A).getD s 0 ≠ (moore A).getD t 0 :=
    fun e => hb ((getD_eq_iff (hlen ▸ hs) (hlen ▸ ht)).1 e)
  obtain ⟨w, hm, hd⟩ := mooreAbs_complete (fin := finD A) hcl hs ht hb'
  have hw : WFs w := wfs_of_alphabet hcov.1 hm
  refine ⟨w, hw, ?_⟩
  rw [resid_iff h hs, resid_iff h ht]
  simp only [runD, hw, true_and]
  intro hiff
  apply hd
  cases h1 : finD A (run (stepD A) s w) <;> cases h2 : finD A (run (stepD A) t w) <;>
    simp [h1, h2] at hiff ⊢

/-- same block ⇔ same residual language -/
theorem moore_block_iff {A : Automaton} (h : wfAut A = true) {s t : Nat}
    (hs : s < A.states.length) (ht : t < A.states.length) :
    (moore A)[s]? = (moore A)[t]? ↔ resid A s = resid A t := by
  constructor
  · exact moore_sound h hs ht
  · intro he
    by_contra hb
    obtain ⟨w, _, hn⟩ := moore_complete h hs ht hb
    exact hn (by rw [he])

/-! ### number of blocks -/

private theorem firstOccs_nodup {α : Type} [DecidableEq α] (l : List α) : (firstOccs l).Nodup := by
  induction l with
  | nil => simp [firstOccs]
  | cons x l ih =>
    simp only [firstOccs, List.nodup_cons, List.mem_filter, decide_eq_true_eq, ne_eq,
      not_true_eq_false, and_false, not_false_eq_true, true_and]
    exact ih.filter _

/-- `numBlocks` counts the distinct block ids -/
theorem numBlocks_eq_card (blk : List Nat) : numBlocks blk = blk.toFinset.card := by
  unfold numBlocks
  rw [← List.toFinset_card_of_nodup (firstOccs_nodup blk)]
  congr 1
  ext x
  simp [mem_firstOccs]

/-- T:moore_numBlocks — the number of blocks of `moore A` is the number of distinct residual
    languages of the states of `A` -/
theorem moore_numBlocks {A : Automaton} (h : wfAut A = true) :
    numBlocks (moore A) =
      Set.ncard {L : Set (List Nat) | ∃ s, s < A.states.length ∧ L = resid A s} := by
  classical
  have hlen := moore_length h
  rw [numBlocks_eq_card]
  -- both sides are images of the state set
  have e1 : (moore A).toFinset =
      (Finset.range A.states.length).image (fun s => (moore A).getD s 0) := by
    ext x
    simp only [List.mem_toFinset, Finset.mem_image, Finset.mem_range]
    constructor
    · intro hx
      obtain ⟨i, hi, rfl⟩ := List.getElem_of_mem hx
      exact ⟨i, hlen ▸ hi, by simp [List.getD_eq_getElem?_getD, List.getElem?_eq_getElem hi]⟩
    · rintro ⟨s, hs, rfl⟩
      have hs' : s < (moore A).length := hlen ▸ hs
      simp [List.getD_eq_getElem?_getD, List.getElem?_eq_getElem hs']
  have e2 : {L : Set (List Nat) | ∃ s, s < A.states.length ∧ L = resid A s} =
      ↑((Finset.range A.states.length).image (fun s => resid A s)) := by
    ext L
    simp only [Set.mem_ofPred_eq, Finset.coe_image, Finset.coe_range, Set.mem_image, Set.mem_Iio]
    constructor
    · rintro ⟨s, hs, rfl⟩; exact ⟨s, hs, rfl⟩
    · rintro ⟨s, hs, rfl⟩; exact ⟨s, hs, rfl⟩
  rw [e1, e2, Set.ncard_coe_finset]
  -- the two images have the same kernel on the state set
  apply Finset.card_bij (fun b hb => resid A
    (Classical.choose (Finset.mem_image.1 hb)))
  · intro b hb
    have := Classical.choose_spec (Finset.mem_image.1 hb)
    exact Finset.mem_image.2 ⟨_, this.1, rfl⟩
  · intro b1 hb1 b2 hb2 he
    have s1 := Classical.choose_spec (Finset.mem_image.1 hb1)
    have s2 := Classical.choose_spec (Finset.mem_image.1 hb2)
    have hs1 := Finset.mem_range.1 s1.1
    have hs2 := Finset.mem_range.1 s2.1
    have := (moore_block_iff h hs1 hs2).2 he
    rw [← s1.2, ← s2.2]
    exact (getD_eq_iff (hlen ▸ hs1) (hlen ▸ hs2)).2 this
  · intro L hL
    obtain ⟨s, hs, rfl⟩ := Finset.mem_image.1 hL
    have hb : (moore A).getD s 0 ∈
        (Finset.range A.states.length).image (fun s => (moore A).getD s 0) :=
      Finset.mem_image.2 ⟨s, hs, rfl⟩
    refine ⟨_, hb, ?_⟩
    have sp := Classical.choose_spec (Finset.mem_image.1 hb)
    have hs1 := Finset.mem_range.1 sp.1
    have hs2 := Finset.mem_range.1 hs
    exact moore_sound h hs1 hs2 ((getD_eq_iff (hlen ▸ hs1) (hlen ▸ hs2)).1 sp.2)

/-! ### the abstract statements (op `hopcroft`: `Minimizer::refine` on a table-driven DFA) -/

/-- same block of the Moore partition ⇒ no word over the alphabet distinguishes the states -/
theorem mooreAbs_sound' {n : Nat} {fin : Nat → Bool} {δ : Nat → Nat → Nat} {alphabet : List Nat}
    (hc : ∀ s, s < n → ∀ c ∈ alphabet, δ s c < n) {s t : Nat} (hs : s < n) (ht : t < n)
    (h : (mooreAbs n fin δ alphabet).getD s 0 = (mooreAbs n fin δ alphabet).getD t 0)
    (w : List Nat) (hw : ∀ c ∈ w, c ∈ alphabet) : fin (w.foldl δ s) = fin (w.foldl δ t) :=
  mooreAbs_sound hc hs ht h w hw

/-- different blocks ⇒ some word over the alphabet distinguishes the states -/
theorem mooreAbs_complete' {n : Nat} {fin : Nat → Bool} {δ : Nat → Nat → Nat} {alphabet : List Nat}
    (hc : ∀ s, s < n → ∀ c ∈ alphabet, δ s c < n) {s t : Nat} (hs : s < n) (ht : t < n)
    (h : (mooreAbs n fin δ alphabet).getD s 0 ≠ (mooreAbs n fin δ alphabet).getD t 0) :
    ∃ w : List Nat, (∀ c ∈ w, c ∈ alphabet) ∧ fin (w.foldl δ s) ≠ fin (w.foldl δ t) :=
  mooreAbs_complete hc hs ht h

/-! ### homomorphisms -/

/-- T:hom_lang_eq — if `h` passes `checkHom` (initial state, finality and every transition on the
    representatives of the merged alphabet partition are preserved) then the two automata accept
    the same well-formed strings -/
theorem hom_lang_eq {A A' : Automaton} (hA : wfAut A = true) (hA' : wfAut A' = true)
    {h : List Nat} (hc : checkHom A A' h (alphabetOf2 A A') = true) (w : List Nat) (hw : WFs w) :
    A'.accepts w = A.accepts w := by
  obtain ⟨_, _, hinit, hstep, _⟩ := checkHom_spec hc
  have hi := (wfAut_spec hA).2.1
  rw [accepts_eq hA hw, accepts_eq hA' hw]
  have hr := hom_run hA hA' hc hw hi hinit
  obtain ⟨t, ht, hf, _⟩ := hstep _ (runD_lt hA hi hw)
  rw [hr] at ht
  cases ht
  rw [hf]

/-! ### minimality -/

/-- T:discrete_distinguishable — if the Moore partition of `A'` is discrete then any two distinct
    states of `A'` have different residual languages -/
theorem discrete_distinguishable {A' : Automaton} (hA' : wfAut A' = true)
    (hd : isDiscrete (moore A') = true) {s t : Nat}
    (hs : s < A'.states.length) (ht : t < A'.states.length) (hne : s ≠ t) :
    resid A' s ≠ resid A' t := by
  have hlen := moore_length hA'
  have hrange : moore A' = List.range (moore A').length := by
    simpa [isDiscrete] using hd
  intro he
  have := (moore_block_iff hA' hs ht).2 he
  rw [hrange] at this
  rw [List.getElem?_eq_getElem (by simpa [hlen] using hs),
      List.getElem?_eq_getElem (by simpa [hlen] using ht)] at this
  simp only [List.getElem_range, Option.some.injEq] at this
  exact hne this

/-! ### the checker -/

/-- what `checkMinimized` tests, clause by clause -/
theorem checkMinimized_spec {A A' : Automaton} (hc : checkMinimized A A' = true) :
    wfAut A = true ∧ wfAut A' = true ∧
    (∃ h, checkHom A A' h (alphabetOf2 A A') = true) ∧
    isDiscrete (moore A') = true ∧ countsOk A' = true := by
  unfold checkMinimized at hc
  simp only [Bool.and_eq_true] at hc
  obtain ⟨⟨⟨⟨h1, h2⟩, h3⟩, h4⟩, h5⟩ := hc
  refine ⟨h1, h2, ?_, h4, h5⟩
  split at h3
  · cases h3
  · rename_i h _; exact ⟨h, h3⟩

/-- T:check_minimized_sound — if the checker accepts `(A, A')` then
    (1) `A'` accepts exactly the well-formed strings `A` accepts;
    (2) any two distinct states of `A'` have different residual languages;
    (3) `A'` is consistent: `num_states` = number of states, ids `0 … n-1` in order, the initial
        state is one of them, `num_final_states` = number of final states;
    (4) if every state of `A` is reachable, the number of states of `A'` is the Myhill–Nerode
        index of the language of `A` (the number of distinct left quotients `u⁻¹ L(A)`), i.e. the
        size of the canonical minimal complete DFA. -/
theorem check_minimized_sound {A A' : Automaton} (hc : checkMinimized A A' = true) :
    (∀ w, WFs w → A'.accepts w = A.accepts w) ∧
    (∀ s t, s < A'.states.length → t < A'.states.length → s ≠ t → resid A' s ≠ resid A' t) ∧
    (A'.numStates = A'.states.length ∧ A'.initialState < A'.numStates ∧
      (∀ i st, A'.states[i]? = some st → st.id = i) ∧
      A'.numFinalStates = (A'.states.filter (·.isFinal)).length) ∧
    (AllReachable A → A'.numStates = nerodeIndex A) := by
  obtain ⟨hA, hA', ⟨h, hh⟩, hd, hcnt⟩ := checkMinimized_spec hc
  have hlang : ∀ w, WFs w → A'.accepts w = A.accepts w := hom_lang_eq hA hA' hh
  have hdist := fun s t hs ht hne => discrete_distinguishable hA' hd (s := s) (t := t) hs ht hne
  obtain ⟨hn', hi', _⟩ := wfAut_spec hA'
  refine ⟨hlang, hdist, ⟨hn', hn' ▸ hi', fun i st hst => wf_id hA' hst, ?_⟩, ?_⟩
  · simpa [countsOk] using hcnt
  · intro hreach
    classical
    obtain ⟨_, _, hinit, _, hsurj⟩ := checkHom_spec hh
    have hi := (wfAut_spec hA).2.1
    -- every state of A' is reached by some well-formed string
    have hreach' : ∀ t, t < A'.states.length →
        ∃ u, WFs u ∧ runD A' A'.initialState u = t := by
      intro t ht
      obtain ⟨s, hs⟩ := List.mem_iff_getElem?.1 (hsurj t ht)
      have hsn : s < A.states.length := by
        have := (List.getElem?_eq_some_iff.1 hs).1
        rwa [(checkHom_spec hh).1] at this
      obtain ⟨u, st0, st, hu, h0, hrun, hid⟩ := hreach s hsn
      have h0' : A.states[A.initialState]? = some st0 := h0
      obtain ⟨_, t', ht', hn⟩ := strNext_eq hA hu h0'
      rw [hrun] at hn
      cases hn
      have hrs : runD A A.initialState u = s := by rw [← wf_id hA ht', hid]
      have := hom_run hA hA' hh hu hi hinit
      rw [hrs, hs] at this
      exact ⟨u, hu, (Option.some.inj this).symm⟩
    -- left quotients of A = left quotients of A'
    have hq : ∀ u, WFs u → leftQuot A u = leftQuot A' u := by
      intro u hu
      ext w
      simp only [leftQuot, Set.mem_ofPred_eq]
      constructor
      · rintro ⟨hw, ha⟩
        have huw : WFs (u ++ w) := fun c hc => by
          rcases List.mem_append.1 hc with h' | h'
          · exact hu c h'
          · exact hw c h'
        exact ⟨hw, by rw [hlang _ huw]; exact ha⟩
      · rintro ⟨hw, ha⟩
        have huw : WFs (u ++ w) := fun c hc => by
          rcases List.mem_append.1 hc with h' | h'
          · exact hu c h'
          · exact hw c h'
        exact ⟨hw, by rw [← hlang _ huw]; exact ha⟩
    have hset : {L : Set (List Nat) | ∃ u, WFs u ∧ L = leftQuot A u} =
        (fun t => resid A' t) '' (↑(Finset.range A'.states.length) : Set Nat) := by
      ext L
      simp only [Set.mem_ofPred_eq, Set.mem_image, Finset.coe_range, Set.mem_Iio]
      constructor
      · rintro ⟨u, hu, rfl⟩
        exact ⟨_, runD_lt hA' hi' hu, by rw [hq u hu, leftQuot_eq_resid hA' hu]⟩
      · rintro ⟨t, ht, rfl⟩
        obtain ⟨u, hu, rfl⟩ := hreach' t ht
        exact ⟨u, hu, by rw [hq u hu, leftQuot_eq_resid hA' hu]⟩
    have hinj : Set.InjOn (fun t => resid A' t) (↑(Finset.range A'.states.length) : Set Nat) := by
      intro s hs t ht he
      simp only [Finset.coe_range, Set.mem_Iio] at hs ht
      by_contra hne
      exact hdist s t hs ht hne he
    unfold nerodeIndex
    rw [hset, hinj.ncard_image, Set.ncard_coe_finset, Finset.card_range, hn']

end Smt.C04
