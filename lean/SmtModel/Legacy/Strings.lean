/-
  Regression documentation (DESIGN.md §9): the AS-FOUND variants of the two string functions that
  were repaired in /repo, each with a kernel-checked counter-example.  Nothing here is used by the
  model of the current tree (SmtModel/Model/Strings.lean) or by the driver.

  D3  `str_indexof` (before `fix: d695701`): guard `i >= s1.len()` rejected the start index
      `i = |s1|`, where the empty pattern occurs.
  D5  `str_to_int` (before `fix: 9c9009b`): `let y = 10 * x + (d as i32 - '0' as i32);
      if y < x { panic!(..) }` — with overflow checks the `*`/`+` panic (the right outcome, from
      the wrong place); without them the product wraps and the test `y < x` misses most overflows.

  Core Lean only.
-/
import SmtModel.Model.Strings

namespace Smt.Legacy
open Smt Smt.Str

/-! ### D5: as-found `str_to_int`, parameterised by the build profile -/

/-- `let y = 10 * x + (d as i32 - '0' as i32);` with the plain operators: each of the three
    operations panics on overflow in `checked` and wraps (mod 2^32) in `wrapping` -/
def toIntStepAsFound (pr : Profile) (x : Int) (d : Nat) : Option Int :=
  (arithI32 pr (10 * x)).bind fun a =>
    (arithI32 pr (u32AsI32 d - 48)).bind fun b => arithI32 pr (a + b)

/-- the as-found loop: `if char_is_digit(d) { y = ..; if y < x { panic } x = y } else { return -1 }` -/
def toIntLoopAsFound (pr : Profile) : List Nat → Int → Option Int
  | [], x => some x
  | d :: rest, x =>
    if charIsDigit d then
      (toIntStepAsFound pr x d).bind fun y =>
        if y < x then none else toIntLoopAsFound pr rest y
    else some (-1)

/-- as-found `str_to_int` -/
def strToIntAsFound (pr : Profile) (s : List Nat) : Option Int :=
  if s.isEmpty then some (-1) else toIntLoopAsFound pr s 0

/-- "5000000000" in a build without overflow checks: a wrong number instead of the documented
    panic (5000000000 mod 2^32 = 705032704, and 705032704 ≥ 500000000 defeats the `y < x` test) -/
theorem to_int_wrapping_counterexample :
    strToIntAsFound .wrapping [53, 48, 48, 48, 48, 48, 48, 48, 48, 48] = some 705032704 := by
  decide

/-- the same input with overflow checks panics (so the two profiles disagreed) -/
theorem to_int_checked_as_found :
    strToIntAsFound .checked [53, 48, 48, 48, 48, 48, 48, 48, 48, 48] = none := by
  decide

/-- the repaired function panics on it in both profiles -/
theorem to_int_current :
    strToInt .wrapping [53, 48, 48, 48, 48, 48, 48, 48, 48, 48] = none ∧
    strToInt .checked [53, 48, 48, 48, 48, 48, 48, 48, 48, 48] = none := by
  decide

/-- second deviation of the as-found loop: "99999999999a" contains a non-digit, so SMT-LIB says −1,
    but the digit prefix overflowed first (panic with checks, garbage without) -/
theorem to_int_nondigit_after_overflow :
    strToIntAsFound .checked [57, 57, 57, 57, 57, 57, 57, 57, 57, 57, 57, 97] = none ∧
    strToInt .checked [57, 57, 57, 57, 57, 57, 57, 57, 57, 57, 57, 97] = some (-1) ∧
    strToInt .wrapping [57, 57, 57, 57, 57, 57, 57, 57, 57, 57, 57, 97] = some (-1) := by
  decide

/-! ### D3: as-found `str_indexof` -/

/-- as-found `str_indexof`: guard `i >= s1.len() as i32` -/
def strIndexofAsFound (s1 s2 : List Nat) (i : Int) : Option Int :=
  if i < 0 ∨ i ≥ usizeAsI32 s1.length then some (-1)
  else match findSubVector s2 s1 (i32AsUsize i) with
    | none => none
    | some .notFound => some (-1)
    | some (.found k _) => some (usizeAsI32 k)

/-- `str_indexof("abc", "", 3)` returned −1 (SMT-LIB: 3) and `str_indexof("", "", 0)` returned −1
    (SMT-LIB: 0) -/
theorem indexof_counterexample :
    strIndexofAsFound [97, 98, 99] [] 3 = some (-1) ∧ strIndexofAsFound [] [] 0 = some (-1) := by
  decide

end Smt.Legacy
