/-
  Regression documentation (DESIGN.md §9, D4): the AS-FOUND `Display for SmtString` (before
  `fix: b5fa023`) with a kernel-checked counter-example.  Nothing here is used by the model of the
  current tree (SmtModel/Model/Literal.lean) or by the driver.

  As found, the second arm of the per-character case split read

      } else if x >= 32 && x < 127 {            // now: … && x != '\\' as u32
          write!(f, "{}", char::from_u32(x).unwrap())?;
      } else if x < 32 || x == 127 {            // now: … || x == '\\' as u32

  so a backslash (92) was printed raw.  A string whose characters happen to spell an SMT-LIB escape
  sequence then prints to a literal that every SMT-LIB reader (and the crate's own
  `parse_smt_literal`) decodes to a *different* string (property C08: print-then-parse is the
  identity).  `smt_char_as_string` and `char_to_smt` had the same two arms.

  `specParse` is defined by well-founded recursion, hence `decide +kernel`.  Core Lean only.
-/
import SmtModel.Model.Literal
import SmtModel.Model.Spec.Literal

namespace Smt.Legacy
open Smt Smt.Literal

/-- the piece `Display::fmt` wrote for one character, as found: 92 falls in the "printable" arm -/
def displayPieceAsFound (x : Nat) : Option (List Nat) :=
  if x = 34 then some [34, 34]
  else if x ≥ 32 ∧ x < 127 then do
    let c ← charFromU32 x
    pure [c]
  else if x < 32 ∨ x = 127 then some ([92, 117, 123] ++ hexPad 2 x ++ [125])
  else if x < 0x10000 then some ([92, 117] ++ hexPad 4 x)
  else some ([92, 117, 123] ++ hexDigitsOf x ++ [125])

/-- the `for` loop of `Display::fmt`, as found -/
def displayBodyAsFound : List Nat → Option (List Nat)
  | [] => some []
  | x :: rest => do
    let p ← displayPieceAsFound x
    let r ← displayBodyAsFound rest
    pure (p ++ r)

/-- the only character treated differently is the backslash -/
theorem displayPieceAsFound_eq (x : Nat) (h : x ≠ 92) : displayPieceAsFound x = displayPiece x := by
  unfold displayPieceAsFound displayPiece
  simp [h]

theorem displayPiece_backslash :
    displayPieceAsFound 92 = some [92] ∧ displayPiece 92 = some [92, 117, 123, 53, 99, 125] := by
  decide +kernel

/-- the D4 witness: the six characters `\ u { 4 1 }` -/
def d4String : List Nat := [92, 117, 123, 52, 49, 125]

/-- as found, the witness printed to itself (between the quotes) … -/
theorem display_as_found : displayBodyAsFound d4String = some [92, 117, 123, 52, 49, 125] := by
  decide +kernel

/-- … and that text is the escape sequence of `A`: the SMT-LIB reading (`specParse`) and the
    crate's parser (`parseSmtLiteral`) both return the one-character string `[65]` -/
theorem display_backslash_counterexample :
    ∃ body, displayBodyAsFound d4String = some body ∧
      LiteralSpec.specParse (LiteralSpec.undouble body) = [65] ∧
      parseSmtLiteral (LiteralSpec.undouble body) = some [65] ∧
      [65] ≠ d4String := by
  refine ⟨[92, 117, 123, 52, 49, 125], ?_, ?_, ?_, ?_⟩ <;> decide +kernel

/-- the current `Display` prints `\u{5c}u{41}`, which reads back as the original six characters -/
theorem display_backslash_current :
    ∃ body, displayBody d4String = some body ∧
      body = [92, 117, 123, 53, 99, 125, 117, 123, 52, 49, 125] ∧
      LiteralSpec.specParse (LiteralSpec.undouble body) = d4String ∧
      parseSmtLiteral (LiteralSpec.undouble body) = some d4String := by
  refine ⟨[92, 117, 123, 53, 99, 125, 117, 123, 52, 49, 125], ?_, ?_, ?_, ?_⟩ <;> decide +kernel

/-- the four-digit form fails the same way: `\ u 0 0 4 1` printed raw reads back as `A` -/
theorem display_backslash_counterexample_u4 :
    displayBodyAsFound [92, 117, 48, 48, 52, 49] = some [92, 117, 48, 48, 52, 49] ∧
    LiteralSpec.specParse [92, 117, 48, 48, 52, 49] = [65] ∧
    parseSmtLiteral [92, 117, 48, 48, 52, 49] = some [65] := by
  refine ⟨?_, ?_, ?_⟩ <;> decide +kernel

end Smt.Legacy
