/-
  Regression documentation (DESIGN.md §9, D1): the AS-FOUND `ReManager::mk_loop` (before
  `fix: 8c4050f`) with kernel-checked counter-examples.  Nothing here is used by the model of the
  current tree (SmtModel/Model/Re.lean) or by the driver.

  As found, the `Empty` arm read

      // empty ^ [i, j] --> empty
      BaseRegLan::Empty => self.empty,

  regardless of the range.  But `∅^0 = {""}`, so for every range with lower bound 0 (`star`, `opt`,
  `loop(_, 0, j)`) the language of the loop is `{""}`, not `∅` (property C01; it propagates to
  C02/C05/C10 through nullability and derivatives).  The range `[0,0]` never reaches that arm
  (`is_zero` is tested first), so the wrong answers are exactly the ranges `[0, j]`, `j ≥ 1`, and
  `[0, ∞)`.

  The specification used here is the executable reference matcher `refMatch` (Spec/RefMatch.lean)
  on the *unsimplified* node `.loop .empty range`: the smart constructor must return a term with
  the same language.  Core Lean only.
-/
import SmtModel.Model.Re
import SmtModel.Spec.RefMatch

namespace Smt.Legacy
open Smt Smt.RE

/-- `ReManager::mk_loop` as found: `Empty` body ↦ `Empty` whatever the range -/
def mkLoopAsFound (e : RE) (range : LoopRange) : RE :=
  if range.isZero then .epsilon
  else if range.isOne then e
  else
    match e with
    | .empty => .empty
    | .epsilon => .epsilon
    | .loop x xr =>
      if xr.rightMulIsExactN range then .loop x (xr.mulN range) else .loop e range
    | _ => .loop e range

/-- the only difference to the current function is the `Empty` arm -/
theorem mkLoopAsFound_eq_of_ne_empty (e : RE) (range : LoopRange) (h : e ≠ .empty) :
    mkLoopAsFound e range = mkLoop e range := by
  cases e <;> first | exact absurd rfl h | rfl

/-- … and there only for a lower bound 0 -/
theorem mkLoopAsFound_eq_of_start_pos (e : RE) (range : LoopRange) (h : range.start ≠ 0) :
    mkLoopAsFound e range = mkLoop e range := by
  cases e <;> simp [mkLoopAsFound, mkLoop, h]

/-! ### `star(∅)` -/

theorem star_empty_as_found : mkLoopAsFound .empty LoopRange.star = .empty := rfl

/-- the as-found result rejects the empty string … -/
theorem star_empty_as_found_rejects_nil :
    refMatch (mkLoopAsFound .empty LoopRange.star) [] = false := by decide

/-- … which the specification of `∅*` contains (`∅^0 = {""}`) … -/
theorem star_empty_spec_accepts_nil :
    refMatch (.loop .empty LoopRange.star) [] = true := by decide

/-- … and the current `mk_loop` returns `ε`, which accepts it -/
theorem star_empty_current :
    mkLoop .empty LoopRange.star = .epsilon ∧
    refMatch (mkLoop .empty LoopRange.star) [] = true := by decide

/-- D1 in one statement: on the input `(∅, [0,∞))` and the string `""` the as-found constructor
    disagrees with the specification of the loop, and the current one agrees -/
theorem star_empty_counterexample :
    refMatch (mkLoopAsFound .empty LoopRange.star) [] ≠ refMatch (.loop .empty LoopRange.star) [] ∧
    refMatch (mkLoop .empty LoopRange.star) [] = refMatch (.loop .empty LoopRange.star) [] := by
  decide

/-- the same through the attribute the derivative code reads (C02/C05/C10): `∅*` is nullable,
    the as-found result is not -/
theorem star_empty_nullable :
    (mkLoopAsFound .empty LoopRange.star).nullable = false ∧
    (RE.loop .empty LoopRange.star).nullable = true ∧
    (mkLoop .empty LoopRange.star).nullable = true := by decide

/-! ### `opt(∅)` -/

theorem opt_empty_as_found : mkLoopAsFound .empty LoopRange.opt = .empty := rfl

theorem opt_empty_counterexample :
    refMatch (mkLoopAsFound .empty LoopRange.opt) [] = false ∧
    refMatch (.loop .empty LoopRange.opt) [] = true ∧
    mkLoop .empty LoopRange.opt = .epsilon ∧
    refMatch (mkLoop .empty LoopRange.opt) [] = true := by decide

/-! ### `loop(∅, 0, 3)` -/

theorem loop03_empty_as_found : mkLoopAsFound .empty (LoopRange.finite 0 3) = .empty := rfl

theorem loop03_empty_counterexample :
    refMatch (mkLoopAsFound .empty (LoopRange.finite 0 3)) [] = false ∧
    refMatch (.loop .empty (LoopRange.finite 0 3)) [] = true ∧
    mkLoop .empty (LoopRange.finite 0 3) = .epsilon ∧
    refMatch (mkLoop .empty (LoopRange.finite 0 3)) [] = true := by decide

/-! ### all ranges with lower bound 0 at once -/

/-- for every range `[0, j]` (`j ≥ 1`) or `[0, ∞)` the as-found constructor returns `∅` where the
    loop contains `""`; the current constructor returns `ε` -/
theorem loop_empty_start0 (stop : Option Nat) (h : stop ≠ some 0) :
    mkLoopAsFound .empty ⟨0, stop⟩ = .empty ∧
    refMatch (mkLoopAsFound .empty ⟨0, stop⟩) [] = false ∧
    refMatch (.loop .empty ⟨0, stop⟩) [] = true ∧
    mkLoop .empty ⟨0, stop⟩ = .epsilon := by
  have hz : (LoopRange.mk 0 stop).isZero = false := by
    simp [LoopRange.isZero, h]
  have ho : (LoopRange.mk 0 stop).isOne = false := by
    simp [LoopRange.isOne]
  refine ⟨?_, ?_, ?_, ?_⟩
  · simp [mkLoopAsFound, hz, ho]
  · simp [mkLoopAsFound, hz, ho, refMatch]
  · simp [refMatch, loopMatch]
  · simp [mkLoop, hz, ho]

/-- where the lower bound is positive the as-found answer `∅` was right (and is unchanged) -/
theorem plus_empty_unchanged :
    mkLoopAsFound .empty LoopRange.plus = .empty ∧ mkLoop .empty LoopRange.plus = .empty ∧
    refMatch (.loop .empty LoopRange.plus) [] = false := by decide

end Smt.Legacy
