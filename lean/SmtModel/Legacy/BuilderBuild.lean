/-
  Regression documentation (DESIGN.md §9): the two as-found variants of `AutomatonBuilder::build`
  with a kernel-checked counter-example each.  Not part of the model of the current tree.

  * D7 (before commit 60078b8): `build` ran `cleanup()` first and validated the cleaned-up state.
  * before commit 114d68f: `build` cleaned the builder's states in place (`iter_mut`), so a
    `build()` in the middle of a call sequence changed what later calls meant.
-/
import SmtModel.Model.Spec.Builder

namespace Smt.Legacy
open Smt

/-- the loop body of `build` as found (D7): cleanup, then the three checks on the cleaned state -/
def buildStateAsFound (i : Nat) (s : StateInConstruction) : Option (Except Err State) :=
  let s' := s.cleanup
  match s'.makePartition with
  | .error e => some (.error e)
  | .ok p =>
    if s'.defaultSuccessor.isSome && p.emptyComplement then some (.error .EmptyComplementaryClass)
    else if s'.defaultSuccessor.isNone && !p.emptyComplement then
      some (.error .MissingDefaultSuccessor)
    else
      match s'.makeSuccessor p with
      | none => none
      | some succ =>
        some (.ok { id := i, isFinal := s'.isFinal, classes := p, successor := succ,
                    defaultSuccessor := s'.defaultSuccessor })

/-- `Ok` / error kind of a per-state result -/
def kind : Option (Except Err State) → Option (Option Err)
  | none => none
  | some (.error e) => some (some e)
  | some (.ok _) => some none

/-- D7, first witness: state 0 of `new(0); add_transition(0,[a-c],1); set_default(1,1)` has no
    default and leaves almost the whole alphabet uncovered; as found it was accepted (target 1 was
    promoted to default, i.e. `z ↦ 1` invented); the current code reports MissingDefaultSuccessor -/
example :
    kind (buildStateAsFound 0 ⟨false, none, [(⟨97, 99⟩, 1)]⟩) = some none ∧
    kind (StateInConstruction.buildState 0 ⟨false, none, [(⟨97, 99⟩, 1)]⟩) =
      some (some .MissingDefaultSuccessor) := by decide +kernel

/-- D7, second witness: `[a-c] → 1`, `[b-b] → 0`, default 1: the overlap was hidden because the
    transition into the default was dropped before the check -/
example :
    kind (buildStateAsFound 0 ⟨false, some 1, [(⟨97, 99⟩, 1), (⟨98, 98⟩, 0)]⟩) = some none ∧
    kind (StateInConstruction.buildState 0 ⟨false, some 1, [(⟨97, 99⟩, 1), (⟨98, 98⟩, 0)]⟩) =
      some (some .NonDisjointCharSets) := by decide +kernel

/-- the state as `build` left it in the builder before commit 114d68f (cleanup in place, after the
    three checks of the repaired D7 order) -/
def buildStateMut (s : StateInConstruction) : StateInConstruction :=
  match s.makePartition with
  | .error _ => s
  | .ok given =>
    if s.defaultSuccessor.isSome && given.emptyComplement then s
    else if s.defaultSuccessor.isNone && !given.emptyComplement then s
    else s.cleanup

def buildMutLoop : Nat → List StateInConstruction → List StateInConstruction
  | _, [] => []
  | i, s :: rest =>
    match s.buildState i with
    | some (.ok _) => buildStateMut s :: buildMutLoop (i + 1) rest
    | _ => buildStateMut s :: rest

/-- the builder after a `build()` call, as found -/
def buildMut (b : Builder) : Builder := { b with states := buildMutLoop 0 b.states }

def kindA : Option (Except Err Automaton) → Option (Option Err)
  | none => none
  | some (.error e) => some (some e)
  | some (.ok _) => some none

/-- witness: `new(0); T0:[0,MAX]:1; D1:1; build(); T0:[a,a]:2; D2:2; build()`.  With the in-place
    cleanup the second `build` returned `Ok` (the first one had replaced `[0,MAX] → 1` by a promoted
    default, hiding the conflict on `a`); on the unchanged builder it is NonDisjointCharSets, and
    the specification of the call sequence says the same. -/
example :
    let ops1 : List BuilderOp := [.addTransition 0 ⟨0, MAX_CHAR⟩ 1, .setDefault 1 1]
    let ops2 : List BuilderOp := [.addTransition 0 ⟨97, 97⟩ 2, .setDefault 2 2]
    kindA (ops2.foldl Builder.step (buildMut (Builder.run 0 ops1))).build = some none ∧
    kindA (ops2.foldl Builder.step (Builder.run 0 ops1)).build = some (some .NonDisjointCharSets) ∧
    BuilderSpec.verdict 0 (ops1 ++ ops2) = some .NonDisjointCharSets := by decide +kernel

end Smt.Legacy
