/-
  Regression documentation (DESIGN.md §9, D10): the AS-FOUND `SplitterSet::take_list` of
  `minimizer.rs` (before `fix: 1f550e5`) with a kernel-checked counter-example.  Nothing here is
  used by the model of the current tree (SmtModel/Model/Hopcroft.lean) or by the driver.

  As found:

      fn take_list(&mut self, b: u32) -> SplitterList {
          std::mem::take(&mut self.list[b as usize])          // index out of bounds ⇒ panic
      }

  `self.list` only grows in `add_splitter`, i.e. a block gets a slot when a splitter is added for it,
  which happens when it has a predecessor on some letter.  A block of states without incoming
  transitions that was created by a split (so its id is the newest one) has no slot; when that block
  is split in turn, `upate_splitters_after_refinement(i, j)` calls `take_list(i)` past the end of
  the vector.  Reachable through `AutomatonBuilder` + `minimize()` with two or more states without
  predecessors (property C04: `minimize` returns the minimal automaton, in particular returns).

  To keep the as-found algorithm next to the current one without copying it twice, the functions of
  Model/Hopcroft.lean that (transitively) call `take_list` are repeated here once, parameterised by
  the `take_list` to use (`tl`); `takeListAsFound` and `takeListCurrent` are the two instances, and
  `run_current_eq_model` checks on the witness that the second instance is the model's `run`.
  Everything that does not call `take_list` is used from Model/Hopcroft.lean directly.

  All evaluations are by `decide +kernel` (kernel reduction only).  Core Lean only.
-/
import SmtModel.Model.Hopcroft

namespace Smt.Legacy
open Smt Smt.Hopcroft

/-- `take_list(b)` as found: `none` = the index panic of `self.list[b as usize]` -/
def takeListAsFound (ss : SplitterSet) (b : Nat) : Option (SplitterList × SplitterSet) :=
  match ss.list[b]? with
  | some l => some (l, { ss with list := ss.list.set b SplitterList.default })   -- std::mem::take
  | none => none                                                                 -- self.list[b]

/-- the current `take_list` in the same shape (never panics) -/
def takeListCurrent (ss : SplitterSet) (b : Nat) : Option (SplitterList × SplitterSet) :=
  some (ss.takeList b)

/-- where the block has a slot the two agree -/
theorem takeListAsFound_eq (ss : SplitterSet) (b : Nat) (h : b < ss.list.length) :
    takeListAsFound ss b = takeListCurrent ss b := by
  simp [takeListAsFound, takeListCurrent, SplitterSet.takeList, List.getElem?_eq_getElem h]

/-- where it has none, the as-found function panics and the current one returns the empty list -/
theorem takeListAsFound_no_slot (ss : SplitterSet) (b : Nat) (h : ss.list.length ≤ b) :
    takeListAsFound ss b = none ∧ takeListCurrent ss b = some (SplitterList.default, ss) := by
  simp [takeListAsFound, takeListCurrent, SplitterSet.takeList, List.getElem?_eq_none h]

/-! ### the callers of `take_list`, parameterised by it -/
section
variable (tl : SplitterSet → Nat → Option (SplitterList × SplitterSet))
variable (δ : Nat → Nat → Option Nat) (isFinal : Nat → Option Bool)

/-- `upate_splitters_after_refinement(i, j)` -/
def updateSplittersAfterRefinementWith (m : Minimizer) (i j : Nat) : Option Minimizer :=
  match tl m.splitters i with
  | none => none                                     -- take_list(i)
  | some (old, ss) =>
    match updateLoop δ m.mainPartition i j old.items m.predClasses ss with
    | none => none
    | some (pc, ss') => some { m with predClasses := pc, splitters := ss' }

/-- `init_main_partition()` -/
def initMainPartitionWith (m : Minimizer) : Option Minimizer :=
  if m.mainPartition.numBlocks ≠ 2 then none
  else
    match refineBlockP m.mainPartition 1 isFinal with
    | none => none
    | some (main', (i, j)) =>
      let m' := { m with mainPartition := main' }
      if i ≠ 0 ∧ j ≠ 0 then
        if ¬ (i = 1 ∧ j = 2) then none
        else updateSplittersAfterRefinementWith tl δ m' i j
      else some m'

/-- `refine_block_with_splitter(s, b)` -/
def refineBlockWithSplitterWith (m : Minimizer) (s : Splitter) (b : Nat) : Option Minimizer :=
  match refineBlockWithFunP m.mainPartition b (fun x => δ x s.char) s.block with
  | none => none
  | some (main', (i, j)) =>
    if i = 0 then none
    else
      let m' := { m with mainPartition := main' }
      if j ≠ 0 then
        if i ≠ b then none
        else updateSplittersAfterRefinementWith tl δ m' i j
      else some m'

/-- the loop `for b in set.iter()` of `refine_with_splitter` -/
def refineCandidatesWith (s : Splitter) : List Nat → Minimizer → Option Minimizer
  | [], m => some m
  | b :: rest, m =>
    match refineBlockWithSplitterWith tl δ m s b with
    | none => none
    | some m' => refineCandidatesWith s rest m'

/-- `refine_with_splitter(s)` -/
def refineWithSplitterWith (m : Minimizer) (s : Splitter) : Option Minimizer :=
  let set := FastSet.new m.mainPartition.numBlocks
  match collectRefinementCandidates m s set with
  | none => none
  | some set =>
    match set.contains s.block with
    | none => none
    | some selfRefine =>
      let set' : Option FastSet := if selfRefine then set.remove s.block else some set
      match set' with
      | none => none
      | some set' =>
        match set'.iter with
        | none => none
        | some bs =>
          match refineCandidatesWith tl δ s bs m with
          | none => none
          | some m' =>
            if selfRefine then refineBlockWithSplitterWith tl δ m' s s.block
            else some m'

/-- the `while` loop of `refine` -/
def refineLoopWith : Nat → Minimizer → Option Minimizer
  | 0, _ => none                                     -- OUT OF FUEL (not a Rust panic)
  | fuel + 1, m =>
    match m.mainPartition.index with
    | none => none
    | some idx =>
      if idx < m.numStates then
        match pickSplitter m with
        | none => none
        | some (none, m') => some m'
        | some (some s, m') =>
          match refineWithSplitterWith tl δ m' s with
          | none => none
          | some m'' => refineLoopWith fuel m''
      else some m

/-- `refine()` -/
def refineWith (m : Minimizer) : Option Minimizer :=
  refineLoopWith tl δ (refineFuel m.numStates m.alphabetSize) m

/-- `Minimizer::new(num_states, alphabet_size, delta, is_final)` -/
def newWith (numStates alphabetSize : Nat) : Option Minimizer :=
  let main := Partition.new numStates
  let classes := List.replicate alphabetSize (BasePartition.new numStates)
  match newLoop (List.range alphabetSize) SplitterSet.new with
  | none => none
  | some ss =>
    initMainPartitionWith tl δ isFinal
      { numStates := numStates, alphabetSize := alphabetSize, mainPartition := main,
        predClasses := classes, splitters := ss }

/-- `Minimizer::new(..).refine()`: the resulting main partition -/
def runWith (numStates alphabetSize : Nat) : Option Partition :=
  match newWith tl δ isFinal numStates alphabetSize with
  | none => none
  | some m => (refineWith tl δ m).map (·.mainPartition)

end

/-- `Minimizer::new(..).refine()` as found -/
def runAsFound (δ : Nat → Nat → Option Nat) (isFinal : Nat → Option Bool)
    (numStates alphabetSize : Nat) : Option Partition :=
  runWith takeListAsFound δ isFinal numStates alphabetSize

/-! ### the D10 witness

  4 states, 2 letters, `δ` rows `[[0,2],[2,0],[0,0],[0,0]]`, final `{2}`: states 1 and 3 have no
  predecessor.  (The builder sequence quoted in the message of commit 1f550e5 has these rows, with
  column 0 = the class `{a}` and column 1 = the complementary class.) -/

def d10Rows : List (List Nat) := [[0, 2], [2, 0], [0, 0], [0, 0]]

/-- `delta(i, j)`; `none` = out of bounds -/
def d10Delta (x c : Nat) : Option Nat := (d10Rows[x]?).bind (·[c]?)

/-- `is_final(i)`; `none` = out of bounds -/
def d10Final (x : Nat) : Option Bool := if x < 4 then some (x == 2) else none

/-- the fuel given to the loop of `refine` on the witness; it is not what runs out below, see
    `run_as_found_panics_in_refine` -/
theorem d10_fuel : refineFuel 4 2 = 13 := rfl

/-- D10, as found: `minimize` panics (index out of bounds in `take_list`) -/
theorem run_as_found_panics : runAsFound d10Delta d10Final 4 2 = none := by
  decide +kernel

/-- the panic is in the loop of `refine`, not in `Minimizer::new` (the initial split into
    non-final/final states takes the list of block 1, which always has a slot) … -/
theorem new_as_found_ok : (newWith takeListAsFound d10Delta d10Final 4 2).isSome = true := by
  decide +kernel

/-- … and it is not exhausted fuel: with the current `take_list` the same loop with the same fuel
    returns, so the `none` above comes from `takeListAsFound` -/
theorem run_as_found_panics_in_refine :
    ∃ m, newWith takeListAsFound d10Delta d10Final 4 2 = some m ∧
      refineWith takeListAsFound d10Delta m = none ∧
      (refineWith takeListCurrent d10Delta m).isSome = true := by
  refine ⟨(newWith takeListAsFound d10Delta d10Final 4 2).get (by decide +kernel), ?_, ?_, ?_⟩
  · simp
  · decide +kernel
  · decide +kernel

/-- the current model returns a partition on the witness … -/
theorem run_current_some : (Hopcroft.run d10Delta d10Final 4 2).isSome = true := by
  decide +kernel

/-- … namely the discrete one: the four states are pairwise inequivalent (2 is final; 0 reaches 2
    on letter 1, 1 on letter 0, 3 on neither), so there are four non-empty blocks -/
theorem run_current_discrete :
    ∃ p, Hopcroft.run d10Delta d10Final 4 2 = some p ∧ p.index = some 4 ∧
      p.blockId = [2, 3, 1, 4] := by
  refine ⟨(Hopcroft.run d10Delta d10Final 4 2).get run_current_some, by simp, ?_, ?_⟩ <;>
    decide +kernel

/-- the parameterised copy instantiated with the current `take_list` is the model's `run` here -/
theorem run_current_eq_model :
    runWith takeListCurrent d10Delta d10Final 4 2 = Hopcroft.run d10Delta d10Final 4 2 := by
  decide +kernel

/-- D10 in one statement -/
theorem take_list_counterexample :
    runAsFound d10Delta d10Final 4 2 = none ∧
    (Hopcroft.run d10Delta d10Final 4 2).isSome = true :=
  ⟨run_as_found_panics, run_current_some⟩

/-- an automaton in which every state has a predecessor is unaffected: same rows with
    `δ(0,0) = 1` and `δ(2,0) = 3` -/
def okDelta (x c : Nat) : Option Nat := (([[1, 2], [2, 0], [3, 0], [0, 0]] : List (List Nat))[x]?).bind (·[c]?)

theorem run_as_found_agrees_with_predecessors :
    runAsFound okDelta d10Final 4 2 = Hopcroft.run okDelta d10Final 4 2 ∧
    (Hopcroft.run okDelta d10Final 4 2).isSome = true := by
  decide +kernel

end Smt.Legacy
