/-
  Regression documentation (DESIGN.md §9, D2): the AS-FOUND `CharPartition::interval_cover`
  (before `fix: 2d5d2b7`) with a kernel-checked counter-example.  Nothing here is used by the model
  of the current tree (SmtModel/Model/CharPartition.lean) or by the driver.

  As found, the last arm (the set `[a,b]` starts after interval `i`, i.e. `b_i < a`) read

      let next_ai = self.end(i + 1);          // now: self.start(i + 1)
      if b < next_ai { CoverResult::DisjointFromAll } else { CoverResult::Overlaps }

  so a set that starts in the gap after interval `i` and ends *inside* interval `i+1` was reported
  `DisjointFromAll` (property C11; through `class_of_set` it made `set_derivative` return `Ok` with
  an arbitrary answer instead of `Err`, property C03).

  `coverSearch` is defined by well-founded recursion, so the evaluations below use
  `decide +kernel` (plain `decide` does not unfold it).  Core Lean only.
-/
import SmtModel.Model.CharPartition
import SmtModel.Model.Spec.CharPartition

namespace Smt.Legacy
open Smt Smt.CharPartition

/-- `interval_cover` as found: compares `b` with the END of interval `i+1` -/
def intervalCoverAsFound (p : CharPartition) (set : CharSet) : CoverResult :=
  let a := set.start
  let b := set.stop
  let i := coverSearch p.list a 0 p.len
  let (ai, bi) := p.get i
  if a < ai then
    if b < ai then .disjointFromAll else .overlaps
  else if a ≤ bi then
    if b ≤ bi then .coveredBy i else .overlaps
  else
    let nextA := p.endOf (i + 1)
    if b < nextA then .disjointFromAll else .overlaps

/-- `class_of_set` on top of the as-found cover -/
def classOfSetAsFound (p : CharPartition) (s : CharSet) : Except Err ClassId :=
  match intervalCoverAsFound p s with
  | .coveredBy i => .ok (.interval i)
  | .disjointFromAll => .ok .complement
  | .overlaps => .error .AmbiguousCharSet

/-- the D2 witness: the partition `{[10,20],[30,40]}` (complement witness 0) and the set `[25,35]` -/
def d2Partition : CharPartition := ⟨[⟨10, 20⟩, ⟨30, 40⟩], 0⟩
def d2Set : CharSet := ⟨25, 35⟩

/-- D2: the as-found function says `DisjointFromAll`; the current model says `Overlaps`, so does the
    linear-scan specification of C11; and the set does meet interval 1: the character 30 belongs to
    both (and 25 belongs to the set but to no interval, so `CoveredBy` is not an option either) -/
theorem interval_cover_counterexample :
    intervalCoverAsFound d2Partition d2Set = .disjointFromAll ∧
    d2Partition.intervalCover d2Set = .overlaps ∧
    CPSpec.intervalCover d2Partition.list d2Set = .overlaps ∧
    (d2Set.contains 30 = true ∧ d2Partition.interval 1 = some ⟨30, 40⟩ ∧
      (⟨30, 40⟩ : CharSet).contains 30 = true) ∧
    (d2Set.contains 25 = true ∧ d2Partition.list.all (fun c => !c.contains 25) = true) := by
  decide +kernel

/-- `Except` has no `DecidableEq`; compare results as a sum -/
def outcome : Except Err ClassId → Sum Err ClassId
  | .error e => .inl e
  | .ok c => .inr c

/-- the consequence for `class_of_set`: the complementary class instead of `AmbiguousCharSet` -/
theorem class_of_set_counterexample :
    outcome (classOfSetAsFound d2Partition d2Set) = .inr .complement ∧
    outcome (d2Partition.classOfSet d2Set) = .inl .AmbiguousCharSet ∧
    outcome (CPSpec.classOfSet d2Partition.list d2Set) = .inl .AmbiguousCharSet := by
  decide +kernel

/-- the as-found comparison is wrong exactly for a set ending inside the next interval before its
    last character (`a_{i+1} ≤ b < b_{i+1}`): a set ending before the next interval, one ending at
    its last character and one reaching beyond it got the right answer -/
theorem interval_cover_as_found_agrees_elsewhere :
    intervalCoverAsFound d2Partition ⟨25, 29⟩ = d2Partition.intervalCover ⟨25, 29⟩ ∧
    intervalCoverAsFound d2Partition ⟨25, 45⟩ = d2Partition.intervalCover ⟨25, 45⟩ ∧
    intervalCoverAsFound d2Partition ⟨25, 40⟩ = d2Partition.intervalCover ⟨25, 40⟩ ∧
    intervalCoverAsFound d2Partition ⟨25, 39⟩ ≠ d2Partition.intervalCover ⟨25, 39⟩ ∧
    intervalCoverAsFound d2Partition ⟨25, 30⟩ ≠ d2Partition.intervalCover ⟨25, 30⟩ := by
  decide +kernel

end Smt.Legacy
