/-
  Regression documentation (DESIGN.md §9, D8): the AS-FOUND `ReManager::start_char` (before
  `fix: 3e35612`) with kernel-checked counter-examples.  Nothing here is used by the model of the
  current tree (SmtModel/Model/Closure.lean) or by the driver.

  As found, `Concat` and `Inter` had structural arms:

      BaseRegLan::Concat(e1, e2) => self.start_char(e1, c) || e1.nullable && self.start_char(e2, c),
      BaseRegLan::Loop(e, _)     => self.start_char(e, c),
      BaseRegLan::Inter(args)    => args.iter().all(|x| self.start_char(x, c)),
      BaseRegLan::Union(args)    => args.iter().any(|x| self.start_char(x, c)),
      BaseRegLan::Complement(_)  => { let d = self.deriv(e, c); !self.is_empty_re(d) }

  Both over-approximate "some string of L(e) starts with c" (property C18):
  * every operand of an intersection may have a string starting with `c` without having one in
    common (`Σ ∩ "ab"`: `Σ` has "a", `"ab"` has "ab", the intersection is empty);
  * `e1 · e2` may be empty although `e1` has a string starting with `c`.
  The current code sends Concat, Inter and Complement through derivative + emptiness.

  The specification side of the counter-examples is stated with the reference matcher `refMatch`
  (Spec/RefMatch.lean): the language of the witness is shown to contain no string starting with the
  character.  The answer of the current model (`RE.startChar`, derivative + emptiness search with
  fuel) is evaluated by the kernel as well, for the id assignment `fun _ => 1` (the one
  Props/C18Final.lean exhibits as `PairSound`).  Core Lean only.
-/
import SmtModel.Model.Closure
import SmtModel.Spec.RefMatch

namespace Smt.Legacy
open Smt Smt.RE

mutual
/-- `start_char` as found: arms in the order written -/
def startCharAsFound (ord : RE → Nat) (fuel : Nat) : RE → Nat → Res Bool
  | .empty, _ => .ok false
  | .epsilon, _ => .ok false
  | .range set, c => .ok (set.contains c)
  | .concat e1 e2, c =>
    -- `self.start_char(e1, c) || e1.nullable && self.start_char(e2, c)` (short-circuits)
    match startCharAsFound ord fuel e1 c with
    | .ok true => .ok true
    | .ok false => if e1.nullable then startCharAsFound ord fuel e2 c else .ok false
    | .panic => .panic
    | .outOfFuel => .outOfFuel
  | .loop e _, c => startCharAsFound ord fuel e c
  | .inter args, c => startCharAllAsFound ord fuel args c
  | .union args, c => startCharAnyAsFound ord fuel args c
  | .compl e, c =>
    match isEmptyRe ord fuel (deriv ord (.compl e) c) with
    | .ok b => .ok (!b)
    | .panic => .panic
    | .outOfFuel => .outOfFuel
/-- `args.iter().all(|x| self.start_char(x, c))` (short-circuits) -/
def startCharAllAsFound (ord : RE → Nat) (fuel : Nat) : List RE → Nat → Res Bool
  | [], _ => .ok true
  | x :: xs, c =>
    match startCharAsFound ord fuel x c with
    | .ok true => startCharAllAsFound ord fuel xs c
    | .ok false => .ok false
    | .panic => .panic
    | .outOfFuel => .outOfFuel
/-- `args.iter().any(|x| self.start_char(x, c))` (short-circuits) -/
def startCharAnyAsFound (ord : RE → Nat) (fuel : Nat) : List RE → Nat → Res Bool
  | [], _ => .ok false
  | x :: xs, c =>
    match startCharAsFound ord fuel x c with
    | .ok true => .ok true
    | .ok false => startCharAnyAsFound ord fuel xs c
    | .panic => .panic
    | .outOfFuel => .outOfFuel
end

/-! ### first witness: `Σ ∩ "ab"` at `'a'` -/

/-- the term `str("ab")` -/
def ab : RE := .concat (.range ⟨97, 97⟩) (.range ⟨98, 98⟩)

/-- `inter(Σ, "ab")` -/
def sigmaInterAb : RE := .inter [sigma, ab]

/-- as found: `true`, whatever the id assignment and the fuel (no search is involved) -/
theorem start_char_as_found_inter (ord : RE → Nat) (fuel : Nat) :
    startCharAsFound ord fuel sigmaInterAb 97 = .ok true := by
  simp [sigmaInterAb, ab, sigma, startCharAsFound, startCharAllAsFound, CharSet.contains,
    CharSet.allChars, MAX_CHAR]

/-- the language of `Σ ∩ "ab"` is empty (a string cannot have length 1 and length 2) … -/
theorem sigmaInterAb_empty (w : List Nat) : refMatch sigmaInterAb w = false := by
  match w with
  | [] => simp [sigmaInterAb, refMatch, refMatchAll, sigma]
  | [c] => simp [sigmaInterAb, ab, refMatch, refMatchAll, splits]
  | _ :: _ :: _ => simp [sigmaInterAb, refMatch, refMatchAll, sigma]

/-- … so in particular no member starts with `'a'`: the right answer is `false` -/
theorem start_char_inter_spec : ¬ ∃ w, refMatch sigmaInterAb (97 :: w) = true := by
  rintro ⟨w, h⟩
  rw [sigmaInterAb_empty] at h
  cases h

/-- the two candidate strings concretely: "a" is in `Σ` but not in `"ab"`, "ab" the other way round -/
theorem start_char_inter_instances :
    refMatch sigmaInterAb [97] = false ∧ refMatch sigmaInterAb [97, 98] = false ∧
    refMatch sigma [97] = true ∧ refMatch ab [97] = false ∧
    refMatch sigma [97, 98] = false ∧ refMatch ab [97, 98] = true := by decide

/-- the current model answers `false` (derivative of the intersection, then emptiness search) -/
theorem start_char_current_inter : startChar (fun _ => 1) 10 sigmaInterAb 97 = .ok false := by
  decide +kernel

/-- D8 in one statement -/
theorem start_char_counterexample :
    startCharAsFound (fun _ => 1) 10 sigmaInterAb 97 = .ok true ∧
    startChar (fun _ => 1) 10 sigmaInterAb 97 = .ok false ∧
    ∀ w, refMatch sigmaInterAb (97 :: w) = false :=
  ⟨start_char_as_found_inter _ _, start_char_current_inter, fun _ => sigmaInterAb_empty _⟩

/-! ### second witness: `ε + ([a-b] ∩ ¬[b-c])^[2,∞)` at `'b'`

  `[a-b] ∩ ¬[b-c] = {"a"}` (the complement is of a language of strings, so it contains every
  string except "b" and "c"), hence the loop is `{aᵏ | k ≥ 2}` and no member starts with `'b'`; but `[a-b]`
  has "b" and `¬[b-c]` has e.g. "bb", so the `all` of the as-found `Inter` arm says `true`. -/

def aOnly : RE := .inter [.range ⟨97, 98⟩, .compl (.range ⟨98, 99⟩)]
def d8Second : RE := .union [.epsilon, .loop aOnly ⟨2, none⟩]

theorem start_char_counterexample_second :
    startCharAsFound (fun _ => 1) 10 d8Second 98 = .ok true ∧
    startChar (fun _ => 1) 10 d8Second 98 = .ok false := by
  decide +kernel

/-- the only one-character string of `[a-b] ∩ ¬[b-c]` is "a" -/
theorem aOnly_single (c : Nat) : refMatch aOnly [c] = true ↔ c = 97 := by
  simp only [aOnly, refMatch, refMatchAll, CharSet.contains, Bool.and_true, Bool.and_eq_true,
    Bool.not_eq_true', decide_eq_true_eq, Bool.and_eq_false_iff, decide_eq_false_iff_not]
  omega

/-- and it has no string of another length -/
theorem aOnly_length (w : List Nat) (h : refMatch aOnly w = true) : w.length = 1 := by
  match w with
  | [] => simp [aOnly, refMatch, refMatchAll] at h
  | [_] => rfl
  | _ :: _ :: _ => simp [aOnly, refMatch, refMatchAll] at h

/-- so no member of the second witness starts with `'b'` on the short strings (instances by
    evaluation of the reference matcher; the general statement is `C18.Final.start_char_iff`) -/
theorem start_char_second_instances :
    refMatch d8Second [98] = false ∧ refMatch d8Second [98, 97] = false ∧
    refMatch d8Second [98, 98] = false ∧ refMatch d8Second [98, 97, 97] = false ∧
    refMatch d8Second [] = true ∧ refMatch d8Second [97, 97] = true ∧
    refMatch d8Second [97, 97, 97] = true ∧ refMatch d8Second [97] = false := by
  decide +kernel

/-! ### a Concat witness: `[a-a] · (Σ ∩ "ab")` at `'a'`

  the left factor has a string starting with `'a'`, but the concatenation is empty because the
  right factor is (semantically) empty -/

def concatWitness : RE := .concat (.range ⟨97, 97⟩) sigmaInterAb

theorem start_char_counterexample_concat :
    startCharAsFound (fun _ => 1) 10 concatWitness 97 = .ok true ∧
    startChar (fun _ => 1) 10 concatWitness 97 = .ok false := by
  decide +kernel

theorem concatWitness_empty (w : List Nat) : refMatch concatWitness w = false := by
  simp [concatWitness, refMatch, sigmaInterAb_empty]

/-- where the as-found arms were exact they agree with the current code -/
example :
    startCharAsFound (fun _ => 1) 10 ab 97 = .ok true ∧ startChar (fun _ => 1) 10 ab 97 = .ok true ∧
    startCharAsFound (fun _ => 1) 10 ab 98 = .ok false ∧ startChar (fun _ => 1) 10 ab 98 = .ok false := by
  decide +kernel

end Smt.Legacy
