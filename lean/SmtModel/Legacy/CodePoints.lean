/-
  Regression documentation (DESIGN.md §9, D6): the AS-FOUND `From<&str>` / `From<String>` /
  `From<char>` constructors of `SmtString` and the literal parser's `push` (before
  `fix: 1bf734c`) with kernel-checked counter-examples.  Nothing here is used by the model of the
  current tree (SmtModel/Model/Literal.lean) or by the driver.

  As found:

      impl From<&str> for SmtString { fn from(x: &str) -> Self {
          SmtString::make(x.chars().map(|c| c as u32).collect()) } }
      impl From<char> for SmtString { fn from(x: char) -> SmtString {
          SmtString::make(vec![x as u32]) } }
      fn push(&mut self, x: char) { self.string_so_far.push(x as u32); }

  A Rust `char` ranges over the Unicode scalar values up to 0x10FFFF, an SMT-LIB character only up
  to `MAX_CHAR = 0x2FFFF`.  The integer constructors (`From<u32>`, `From<&[u32]>`, `From<Vec<u32>>`)
  already replaced larger values by `REPLACEMENT_CHAR = 0xFFFD`; these three copied them, producing
  an `SmtString` that is not `is_good` (property C17) and on which `ReManager::str` panics
  (`assert!(x <= MAX_CHAR)` in `ReManager::char`).

  Core Lean only.
-/
import SmtModel.Model.Literal

namespace Smt.Legacy
open Smt Smt.Literal

/-- `From<&str>` as found: the code points as they are -/
def fromStrAsFound (x : List Nat) : Option (List Nat) := make x

/-- `From<String>` as found (`SmtString::from(x.as_str())`) -/
def fromStringAsFound (x : List Nat) : Option (List Nat) := fromStrAsFound x

/-- `From<char>` as found: `SmtString::make(vec![x as u32])` -/
def fromCharAsFound (x : Nat) : Option (List Nat) := make [x]

/-- the parser's `push` as found -/
def pushAsFound (a : Automaton) (x : Nat) : Automaton :=
  { a with stringSoFar := a.stringSoFar ++ [x] }

/-- `consume` on top of the as-found `push` -/
def consumeAsFound (a : Automaton) (x : Nat) : Option Automaton :=
  if x = 92 then do
    let a ← a.addPending x
    pure { a with state := .afterSlash }
  else some (pushAsFound a x)

/-- `accept` on top of the as-found `push` (the other arms are those of `Automaton.accept`) -/
def acceptAsFound (a : Automaton) (x : Nat) : Option Automaton :=
  match a.state with
  | .init => consumeAsFound a x
  | .afterSlash =>
    if x = 117 then do
      let a ← a.addPending x
      pure { a with state := .afterSlashU }
    else do
      let a ← a.flushPending
      consumeAsFound a x
  | .afterSlashU =>
    if x = 123 then do
      let a ← a.addPending x
      pure { a with state := .afterSlashUBrace }
    else if isAsciiHexdigit x then do
      let a ← a.addHex x
      pure { a with state := .afterSlashUHex }
    else do
      let a ← a.flushPending
      consumeAsFound a x
  | .afterSlashUBrace =>
    if x = 125 ∧ a.pendingIdx > 3 ∧ a.escapeCode ≤ MAX_CHAR then
      some a.closeEscapeSeq
    else if isAsciiHexdigit x ∧ a.pendingIdx < 8 then
      a.addHex x
    else do
      let a ← a.flushPending
      consumeAsFound a x
  | .afterSlashUHex =>
    if isAsciiHexdigit x then do
      let a ← a.addHex x
      if a.pendingIdx = 6 then some a.closeEscapeSeq else some a
    else do
      let a ← a.flushPending
      consumeAsFound a x

/-- `parse_smt_literal` as found -/
def parseSmtLiteralAsFound (a : List Nat) : Option (List Nat) := do
  let p ← a.foldlM acceptAsFound newAutomaton
  let p ← p.flushPending
  make p.stringSoFar

/-- the witness is a legal Rust `char` (U+30000, the first code point above `MAX_CHAR`) -/
theorem witness_is_scalar : Scalar 0x30000 ∧ ¬ 0x30000 ≤ MAX_CHAR := by decide

/-- D6, `From<&str>` / `From<String>`: the as-found result is not `is_good`, and `ReManager::str`
    would hit its assertion on it; the current constructor returns the replacement character -/
theorem from_str_counterexample :
    fromStrAsFound [0x30000] = some [0x30000] ∧
    fromStringAsFound [0x30000] = some [0x30000] ∧
    isGood [0x30000] = false ∧
    reStrAsserts [0x30000] = false ∧
    fromStr [0x30000] = some [REPLACEMENT_CHAR] ∧
    isGood [REPLACEMENT_CHAR] = true ∧
    reStrAsserts [REPLACEMENT_CHAR] = true := by
  decide

/-- the same inside a longer text: `"a\u{30000}b"` -/
theorem from_str_counterexample_mid :
    fromStrAsFound [97, 0x30000, 98] = some [97, 0x30000, 98] ∧
    isGood [97, 0x30000, 98] = false ∧
    fromStr [97, 0x30000, 98] = some [97, 0xFFFD, 98] ∧
    isGood [97, 0xFFFD, 98] = true := by
  decide

/-- D6, `From<char>` -/
theorem from_char_counterexample :
    fromCharAsFound 0x30000 = some [0x30000] ∧
    isGood [0x30000] = false ∧
    fromChar 0x30000 = some [REPLACEMENT_CHAR] ∧
    fromCharAsFound 0x10FFFF = some [0x10FFFF] ∧
    isGood [0x10FFFF] = false ∧
    fromChar 0x10FFFF = some [REPLACEMENT_CHAR] := by
  decide

/-- D6, `parse_smt_literal`: a raw character above `MAX_CHAR` in the literal text was copied -/
theorem parse_counterexample :
    parseSmtLiteralAsFound [0x30000] = some [0x30000] ∧
    isGood [0x30000] = false ∧
    parseSmtLiteral [0x30000] = some [REPLACEMENT_CHAR] := by
  decide

/-- … also when the character ends a pending (incomplete) escape sequence: `\u{3` then U+30000 -/
theorem parse_counterexample_after_pending :
    parseSmtLiteralAsFound [92, 117, 123, 51, 0x30000] = some [92, 117, 123, 51, 0x30000] ∧
    isGood [92, 117, 123, 51, 0x30000] = false ∧
    parseSmtLiteral [92, 117, 123, 51, 0x30000] = some [92, 117, 123, 51, REPLACEMENT_CHAR] := by
  decide

/-- on SMT-LIB characters the as-found constructors and the current ones agree -/
theorem fromStrAsFound_eq (x : List Nat) (h : ∀ c ∈ x, c ≤ MAX_CHAR) :
    fromStrAsFound x = fromStr x := by
  unfold fromStrAsFound fromStr
  congr 1
  induction x with
  | nil => rfl
  | cons c t ih =>
    have hc : c ≤ MAX_CHAR := h c (List.mem_cons_self ..)
    have ht : ∀ d ∈ t, d ≤ MAX_CHAR := fun d hd => h d (List.mem_cons_of_mem _ hd)
    simp only [List.map_cons, if_pos hc]
    exact congrArg (c :: ·) (ih ht)

theorem fromCharAsFound_eq (x : Nat) (h : x ≤ MAX_CHAR) : fromCharAsFound x = fromChar x := by
  simp [fromCharAsFound, fromChar, fromU32, h]

end Smt.Legacy
