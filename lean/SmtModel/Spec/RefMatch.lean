/-
  Executable reference semantics of regular-expression terms: `refMatch e w` decides membership
  of `w` in the language denoted by the tree `e`, directly from the SMT-LIB definitions
  (concatenation by splitting, loop by counting non-empty factors, complement by negation).
  Exponential; used by the driver as the specification's verdict on short strings and related to
  the `Language`-valued denotation in Proofs (theorem `refMatch_iff`).
  Core Lean only (linked into the driver).
-/
import SmtModel.Model.Re

namespace Smt
namespace RE

/-- all ways to split `w = p ++ r` -/
def splits : List Nat → List (List Nat × List Nat)
  | [] => [([], [])]
  | c :: w => ([], c :: w) :: (splits w).map (fun (p, r) => (c :: p, r))

/-- `w ∈ L^k` for some `lo ≤ k ≤ hi` (`hi = none`: unbounded), given a matcher `m` for `L`;
    counts non-empty factors only.  `fuel ≥ w.length` suffices. -/
def loopMatch (m : List Nat → Bool) : Nat → Nat → Option Nat → List Nat → Bool
  | _, lo, _, [] => lo == 0 || m []
  | 0, _, _, _ :: _ => false
  | fuel + 1, lo, hi, c :: w =>
    (match hi with | some h => decide (h ≥ 1) | none => true) &&
    (splits w).any fun (p, r) =>
      m (c :: p) && loopMatch m fuel (lo - 1) (hi.map (· - 1)) r

mutual
def refMatch : RE → List Nat → Bool
  | .empty, _ => false
  | .epsilon, w => w.isEmpty
  | .range s, w => match w with | [c] => s.contains c | _ => false
  | .concat a b, w => (splits w).any fun (p, r) => refMatch a p && refMatch b r
  | .loop e rng, w => loopMatch (fun p => refMatch e p) w.length rng.start rng.stop w
  | .compl e, w => !refMatch e w
  | .inter l, w => refMatchAll l w
  | .union l, w => refMatchAny l w
def refMatchAll : List RE → List Nat → Bool
  | [], _ => true
  | x :: xs, w => refMatch x w && refMatchAll xs w
def refMatchAny : List RE → List Nat → Bool
  | [], _ => false
  | x :: xs, w => refMatch x w || refMatchAny xs w
end

end RE
end Smt
