/-
  Helper lemmas for Props/C07RefineOps.lean, part 4: `naive_re_search`, `str_replace_re`,
  `str_replace_re_all` on the stateful manager (Model/ManagerOps.lean) refine
  `RE.naiveReSearch` / `RE.strReplaceRe` / `RE.strReplaceReAll` (Model/ReplaceRe.lean).
  These have no panic channel: the statements are plain equalities (`SPost`).
-/
import SmtModel.Proofs.ManagerOpsStart

namespace Smt
namespace MgrOps
open Smt RE Node MgrInv MgrCons MgrSet MgrDeriv

/-- from `m`, the stateful call returned `res`; `P ord` is the pure call: equal under the id
    assignment of every later table -/
structure SPost {α : Type} (m : Mgr) (res : Mgr × α) (P : (RE → Nat) → α) : Prop where
  inv : MgrDeriv.Inv res.1
  ext : m.tbl <+: res.1.tbl
  rep : ∀ T, res.1.tbl <+: T → TableOK T → P (ordOf T) = res.2

/-- `p.is_empty()` on an id = `RE.isEmpty` of its tree -/
theorem isEmptySyn_eq {m : Mgr} (h : TableOK m.tbl) {e : Nat} {te : RE}
    (r : treeOf m.tbl e = some te) : m.isEmptySyn e = te.isEmpty := by
  obtain ⟨n, hn, ht⟩ := treeOf_node h.children r
  simp only [Mgr.isEmptySyn, Mgr.expr, hn]
  by_cases hne : n = .empty
  · subst hne
    simp only [Node.toRE, Option.some.injEq] at ht
    subst ht
    rfl
  · have : te ≠ .empty := by
      intro hte
      rw [hte] at ht
      exact hne (toRE_eq_empty.1 ht)
    cases n <;> cases te <;> simp_all [RE.isEmpty]

theorem matchFromM_post : ∀ (rest : List Nat) {m : Mgr} {p : Nat} {tp : RE} (n : Nat),
    MgrDeriv.Inv m → treeOf m.tbl p = some tp →
    SPost m (m.matchFromM p rest n) (fun ord => matchFrom ord tp rest n) := by
  intro rest
  induction rest with
  | nil =>
    intro m p tp n hI _
    exact ⟨hI, List.prefix_refl _, fun T _ _ => rfl⟩
  | cons c rest ih =>
    intro m p tp n hI r
    have p1 : DPost m (m.charDerivativeM p c).1 (m.charDerivativeM p c).2
        (fun ord => deriv ord tp c) := dpost_derivM hI r c
    simp only [Mgr.matchFromM]
    generalize m.charDerivativeM p c = r1 at p1 ⊢
    have hn := rep_nullable p1.here
    have he := isEmptySyn_eq p1.inv.ok p1.here
    have hc : ∀ T, r1.1.tbl <+: T → TableOK T →
        deriv (ordOf T) tp c = deriv (ordOf r1.1.tbl) tp c := fun T hT hok => p1.const hT hok
    rw [hn, he]
    by_cases h1 : (deriv (ordOf r1.1.tbl) tp c).nullable = true
    · simp only [h1, if_true]
      refine ⟨p1.inv, p1.ext, ?_⟩
      intro T hT hok
      simp only [matchFrom, hc T hT hok, h1, if_true]
    · simp only [h1, Bool.false_eq_true, if_false]
      by_cases h2 : (deriv (ordOf r1.1.tbl) tp c).isEmpty = true
      · simp only [h2, if_true]
        refine ⟨p1.inv, p1.ext, ?_⟩
        intro T hT hok
        simp only [matchFrom, hc T hT hok, h1, h2, Bool.false_eq_true, if_false, if_true]
      · simp only [h2, Bool.false_eq_true, if_false]
        have p2 := ih (m := r1.1) (p := r1.2) (n + 1) p1.inv p1.here
        refine ⟨p2.inv, List.IsPrefix.trans p1.ext p2.ext, ?_⟩
        intro T hT hok
        simp only [matchFrom, hc T (List.IsPrefix.trans p2.ext hT) hok, h1, h2,
          Bool.false_eq_true, if_false]
        exact p2.rep T hT hok

theorem searchFromM_post {pat : Nat} {tp : RE} : ∀ (s : List Nat) {m : Mgr} (i : Nat),
    MgrDeriv.Inv m → treeOf m.tbl pat = some tp →
    SPost m (Mgr.searchFromM pat m s i) (fun ord => searchFrom ord tp s i) := by
  intro s
  induction s with
  | nil =>
    intro m i hI _
    exact ⟨hI, List.prefix_refl _, fun T _ _ => rfl⟩
  | cons c rest ih =>
    intro m i hI r
    have p1 := matchFromM_post (c :: rest) (m := m) 0 hI r
    simp only [Mgr.searchFromM]
    generalize m.matchFromM pat (c :: rest) 0 = r1 at p1 ⊢
    obtain ⟨m1, lo⟩ := r1
    cases lo with
    | some len =>
      simp only
      refine ⟨p1.inv, p1.ext, ?_⟩
      intro T hT hok
      simp only [searchFrom, p1.rep T hT hok]
    | none =>
      simp only
      have p2 := ih (m := m1) (i + 1) p1.inv (treeOf_prefix p1.ext r)
      refine ⟨p2.inv, List.IsPrefix.trans p1.ext p2.ext, ?_⟩
      intro T hT hok
      simp only [searchFrom, p1.rep T (List.IsPrefix.trans p2.ext hT) hok]
      exact p2.rep T hT hok

/-- **`naive_re_search` on the stateful manager is `RE.naiveReSearch`** -/
theorem naiveReSearchM_post {m : Mgr} (hI : MgrDeriv.Inv m) {pat : Nat} {tp : RE}
    (r : treeOf m.tbl pat = some tp) (s : List Nat) (k : Nat) (allowEmpty : Bool) :
    SPost m (m.naiveReSearchM pat s k allowEmpty)
      (fun ord => naiveReSearch ord tp s k allowEmpty) := by
  unfold Mgr.naiveReSearchM naiveReSearch
  rw [rep_nullable r]
  by_cases h : (allowEmpty && tp.nullable) = true
  · simp only [h, if_true]
    exact ⟨hI, List.prefix_refl _, fun T _ _ => rfl⟩
  · simp only [h, Bool.false_eq_true, if_false]
    exact searchFromM_post (s.drop k) k hI r

/-- `str_replace_re` -/
theorem strReplaceReM_post {m : Mgr} (hI : MgrDeriv.Inv m) {pat : Nat} {tp : RE}
    (r : treeOf m.tbl pat = some tp) (s1 s2 : List Nat) :
    SPost m (m.strReplaceReM s1 pat s2) (fun ord => strReplaceRe ord s1 tp s2) := by
  have p1 := naiveReSearchM_post hI r s1 0 true
  unfold Mgr.strReplaceReM
  generalize m.naiveReSearchM pat s1 0 true = r1 at p1 ⊢
  obtain ⟨m1, o⟩ := r1
  cases o with
  | none =>
    refine ⟨p1.inv, p1.ext, ?_⟩
    intro T hT hok
    simp only [strReplaceRe, p1.rep T hT hok]
  | some ij =>
    obtain ⟨i, j⟩ := ij
    refine ⟨p1.inv, p1.ext, ?_⟩
    intro T hT hok
    simp only [strReplaceRe, p1.rep T hT hok]

theorem replaceAllLoopM_post {pat : Nat} {tp : RE} (s1 s2 : List Nat) :
    ∀ (fuel : Nat) {m : Mgr} (i : Nat) (x : List Nat), MgrDeriv.Inv m →
    treeOf m.tbl pat = some tp →
    SPost m (Mgr.replaceAllLoopM pat s1 s2 fuel m i x)
      (fun ord => replaceAllLoop ord tp s1 s2 fuel i x) := by
  intro fuel
  induction fuel with
  | zero =>
    intro m i x hI _
    exact ⟨hI, List.prefix_refl _, fun T _ _ => rfl⟩
  | succ fuel ih =>
    intro m i x hI r
    have p1 := naiveReSearchM_post hI r s1 i false
    simp only [Mgr.replaceAllLoopM]
    generalize m.naiveReSearchM pat s1 i false = r1 at p1 ⊢
    obtain ⟨m1, o⟩ := r1
    cases o with
    | none =>
      simp only
      refine ⟨p1.inv, p1.ext, ?_⟩
      intro T hT hok
      simp only [replaceAllLoop, p1.rep T hT hok]
    | some jk =>
      obtain ⟨j, k⟩ := jk
      simp only
      have p2 := ih (m := m1) k (x ++ (s1.drop i).take (j - i) ++ s2) p1.inv
        (treeOf_prefix p1.ext r)
      refine ⟨p2.inv, List.IsPrefix.trans p1.ext p2.ext, ?_⟩
      intro T hT hok
      simp only [replaceAllLoop, p1.rep T (List.IsPrefix.trans p2.ext hT) hok]
      exact p2.rep T hT hok

/-- `str_replace_re_all` -/
theorem strReplaceReAllM_post {m : Mgr} (hI : MgrDeriv.Inv m) {pat : Nat} {tp : RE}
    (r : treeOf m.tbl pat = some tp) (s1 s2 : List Nat) :
    SPost m (m.strReplaceReAllM s1 pat s2) (fun ord => strReplaceReAll ord s1 tp s2) :=
  replaceAllLoopM_post s1 s2 _ 0 [] hI r

end MgrOps
end Smt
