/-
  Discharge of `Deriv.ConsFacts ord` (Proofs/Deriv.lean) for every id assignment with `PairSound`:
    * languages / WF of `complement`, `concat`, `mk_loop`      — Proofs/ReLangCore.lean
    * languages / WF of `union`, `union_list`, `inter_list`    — Proofs/ReSetOps.lean
      (its `CoreFacts` bundle is instantiated here with ReLangCore; the soundness of the inclusion
       test used by `remove_subsumed`, `SubSound`, is `RE.subSound` of Proofs/ReSetOpsFinal.lean,
       i.e. Props/C16.lean)
    * no constructor builds a `[0,0]` loop                      — Proofs/DerivNZ.lean
-/
import SmtModel.Proofs.DerivNZ
import SmtModel.Proofs.ReLangCore
import SmtModel.Proofs.ReSetOps
import SmtModel.Proofs.ReSetOpsFinal

namespace Smt.DerivFinal
open Smt

/-- the id-independent facts of Proofs/ReSetOps.lean, from Proofs/ReLangCore.lean -/
theorem coreFacts : RE.CoreFacts where
  lang_sub := RE.lang_sub_allStrings
  nullable_iff := RE.nullable_iff
  complement_lang := RE.complement_lang
  complement_wf := RE.complement_wf
  flattenUnion_lang := RE.flattenUnion_lang
  flattenUnion_wf := RE.flattenUnion_wf
  flattenInter_lang := RE.flattenInter_lang
  flattenInter_wf := RE.flattenInter_wf

/-- every id assignment with `PairSound` satisfies the hypotheses of the derivative theorems -/
theorem consFacts_of_subSound (hs : RE.SubSound) {ord : RE → Nat} (hp : RE.PairSound ord) :
    Deriv.ConsFacts ord where
  complement_lang := RE.complement_lang
  complement_good := fun e he => ⟨RE.complement_wf e he.1, DerivNZ.complement_nz e he.2⟩
  mkConcat_lang := RE.mkConcat_lang
  mkConcat_good := fun a b ha hb =>
    ⟨RE.mkConcat_wf a b ha.1 hb.1, DerivNZ.mkConcat_good a b ha hb RE.mkConcat_wf⟩
  mkLoop_lang := fun e r he hr => RE.mkLoop_lang e r he hr
  mkLoop_good := fun e r he hr => ⟨RE.mkLoop_wf e r he.1 hr, DerivNZ.mkLoop_nz e r he.1 he.2 hr⟩
  mkUnion_lang := fun a b ha hb => RE.mkUnion_lang coreFacts hs hp a b ha hb
  mkUnion_good := fun a b ha hb =>
    ⟨RE.mkUnion_wf coreFacts ord a b ha.1 hb.1, DerivNZ.mkUnion_nz ord a b ha.2 hb.2⟩
  mkUnionList_lang := fun l hl => RE.mkUnionList_lang coreFacts hs hp l hl
  mkUnionList_good := fun l hl =>
    ⟨RE.mkUnionList_wf coreFacts ord l hl.1, DerivNZ.mkUnionList_nz ord l hl.2⟩
  mkInterList_lang := fun l hl => RE.mkInterList_lang coreFacts hp l hl
  mkInterList_good := fun l hl =>
    ⟨RE.mkInterList_wf coreFacts ord l hl.1, DerivNZ.mkInterList_nz ord l hl.2⟩

/-- no hypothesis left but `PairSound` -/
theorem consFacts {ord : RE → Nat} (hp : RE.PairSound ord) : Deriv.ConsFacts ord :=
  consFacts_of_subSound RE.subSound hp

end Smt.DerivFinal
