/-
  Termination of the derivative closure (C19), part 2: FINITENESS of the set of iterated
  derivatives for a fragment of the term language (see Props/C19Term.lean for the statement).

  Technique: `Closed ord S` — a finite list `S` of terms closed under `computeDeriv ord · c` for
  EVERY `c`, under union/intersection components and under complement bodies.  `Fin ord e` = some
  closed list contains `e`.  Compositional lemmas:
    * `fin_atom`, `fin_range`, `fin_rangeLoop`
    * `fin_union`, `fin_inter`  (every ACI-normalised n-ary union/intersection over a closed list:
      the result of `make_union`/`make_inter` is `∅`, `ε`, `Σ*`, an operand, or a DUPLICATE-FREE
      list of operands — this is where sorting by id + `dedup` + injectivity of `ord` is used)
    * `fin_compl`
    * `Letter` : a term all of whose derivatives are `ε`/`∅` (a character class, a union of
      classes); `fin_concat_head` : `A · G` with `A` a letter or a loop over a letter
      (all loop-merging rewrites of `concat` between `A` and `G` are covered)
    * `fin_loop_chain` : `Y^ρ` for a chain `Y = h₁·(…·hₙ)` of letters / loops over letters
      (`n ≥ 2`, `h₁` not nullable); `fin_loop_chain_tail` (+ `_inertTail`, `_simpleTail`) : `Y^ρ · T`
      for a tail `T` against which no arm of `concat` fires.  Universe: the chains
      `a·(hₖ₊₁·(…·(hₙ·R)))` with `a` in the family of a letter and `R` a tail (`Y`, `Y^τ`, `T`,
      `Y^τ·T`); `mkConcat_chain_tail` is the re-association lemma used in place of associativity.
    * `frag`, `frag_fin` : the decidable fragment and the main theorem; `ordEnc` : an injective
      `PairSound` id assignment.
-/
import SmtModel.Proofs.Termination
import Mathlib.Data.List.Sublists
import Mathlib.Data.List.Permutation
import Mathlib.Data.List.Perm.Subperm
import Mathlib.Data.Nat.Pairing

namespace Smt
namespace RE

variable {ord : RE → Nat}

/-! ### sort + dedup with an injective `ord` leaves no duplicates -/

theorem insertByOrd_sorted (ord : RE → Nat) (x : RE) (l : List RE)
    (h : l.Pairwise (fun a b => ord a ≤ ord b)) :
    (insertByOrd ord x l).Pairwise (fun a b => ord a ≤ ord b) := by
  induction l with
  | nil => simp [insertByOrd]
  | cons y ys ih =>
    simp only [insertByOrd]
    obtain ⟨hy, hys⟩ := List.pairwise_cons.1 h
    split
    · rename_i hxy
      refine List.pairwise_cons.2 ⟨?_, h⟩
      intro z hz
      rcases List.mem_cons.1 hz with rfl | hz
      · exact hxy
      · exact Nat.le_trans hxy (hy z hz)
    · rename_i hxy
      refine List.pairwise_cons.2 ⟨?_, ih hys⟩
      intro z hz
      rcases List.mem_cons.1 ((insertByOrd_perm ord x ys).mem_iff.1 hz) with rfl | hz
      · omega
      · exact hy z hz

theorem sortByOrd_sorted (ord : RE → Nat) (l : List RE) :
    (sortByOrd ord l).Pairwise (fun a b => ord a ≤ ord b) := by
  induction l with
  | nil => simp [sortByOrd]
  | cons x xs ih => exact insertByOrd_sorted ord x _ ih

theorem dedup_strict (hinj : Function.Injective ord) (l : List RE)
    (h : l.Pairwise (fun a b => ord a ≤ ord b)) :
    (dedup l).Pairwise (fun a b => ord a < ord b) := by
  fun_induction dedup l with
  | case1 => simp
  | case2 y => simp
  | case3 b rest ih => exact ih (List.pairwise_cons.1 h).2
  | case4 a b rest hab ih =>
    obtain ⟨ha, hrest⟩ := List.pairwise_cons.1 h
    refine List.pairwise_cons.2 ⟨?_, ih hrest⟩
    intro z hz
    rw [mem_dedup] at hz
    have hab' : ord a < ord b := by
      have h1 := ha b (List.mem_cons_self ..)
      have h2 : ord a ≠ ord b := fun he => hab (hinj he)
      omega
    rcases List.mem_cons.1 hz with rfl | hz
    · exact hab'
    · have := (List.pairwise_cons.1 hrest).1 z hz
      omega

theorem dedup_sort_nodup (hinj : Function.Injective ord) (v : List RE) :
    (dedup (sortByOrd ord v)).Nodup := by
  have := dedup_strict hinj _ (sortByOrd_sorted ord v)
  exact this.imp (fun {a b} hab he => by subst he; omega)

theorem simplifyLoop_sublist (ord : RE → Nat) (bottom : RE) :
    ∀ (rest : List RE) (previous : RE) (l : List RE),
      simplifyLoop ord bottom previous rest = some l → l.Sublist rest := by
  intro rest
  induction rest with
  | nil =>
    intro previous l h
    simp only [simplifyLoop, Option.some.injEq] at h
    subst h; exact List.Sublist.refl _
  | cons current rest ih =>
    intro previous l h
    simp only [simplifyLoop] at h
    split at h
    · cases h
    · split at h
      · rw [Option.map_eq_some_iff] at h
        obtain ⟨l', hl', rfl⟩ := h
        exact List.Sublist.cons_cons _ (ih current l' hl')
      · exact List.Sublist.cons _ (ih previous l h)

/-- the result of `simplify_set_operation` is `[top]` or a duplicate-free list of operands -/
theorem simplifySetOperation_nodup (hinj : Function.Injective ord) (v : List RE) (bottom top : RE) :
    simplifySetOperation ord v bottom top = [top] ∨
    ((simplifySetOperation ord v bottom top).Nodup ∧
      ∀ x ∈ simplifySetOperation ord v bottom top, x ∈ v) := by
  have hnd := dedup_sort_nodup hinj v
  have hs := mem_dedup_sort ord v
  unfold simplifySetOperation
  generalize dedup (sortByOrd ord v) = s at hs hnd
  cases s with
  | nil => right; simp
  | cons v0 rest =>
    simp only
    split
    · left; rfl
    · cases hl : simplifyLoop ord bottom v0 rest with
      | none => left; rfl
      | some l =>
        right
        have hsub := simplifyLoop_sublist ord bottom rest v0 l hl
        simp only
        split
        · exact ⟨(List.Sublist.cons_cons v0 hsub).nodup hnd,
            fun x hx => (hs x).1 ((List.Sublist.cons_cons v0 hsub).subset hx)⟩
        · exact ⟨(List.Sublist.cons v0 hsub).nodup hnd,
            fun x hx => (hs x).1 ((List.Sublist.cons v0 hsub).subset hx)⟩

theorem removeSubsumedAux_sublist :
    ∀ (todo done : List RE), (removeSubsumedAux done todo).Sublist (done ++ todo) := by
  intro todo
  induction todo with
  | nil => intro done; simp [removeSubsumedAux]
  | cons x rest ih =>
    intro done
    simp only [removeSubsumedAux]
    split
    · exact (ih done).trans
        (List.Sublist.append (List.Sublist.refl _) (List.Sublist.cons _ (List.Sublist.refl _)))
    · have := ih (done ++ [x])
      simpa using this

theorem removeSubsumed_sublist (a : List RE) : (removeSubsumed a).Sublist a := by
  have := removeSubsumedAux_sublist a []
  simpa [removeSubsumed] using this

/-- **shape of `make_union`**: `∅`, `Σ*`, an operand, or a duplicate-free list of operands -/
theorem makeUnion_cases (hinj : Function.Injective ord) (v : List RE) :
    makeUnion ord v = .empty ∨ makeUnion ord v = sigmaStar ∨ makeUnion ord v ∈ v ∨
    ∃ w, w.Nodup ∧ (∀ x ∈ w, x ∈ v) ∧ makeUnion ord v = .union w := by
  unfold makeUnion
  rcases simplifySetOperation_nodup hinj v .empty sigmaStar with h | ⟨hnd, hsub⟩
  · rw [h]; simp
  · generalize simplifySetOperation ord v .empty sigmaStar = s at hnd hsub
    simp only
    have hnd' : (if s.length ≥ 2 then removeSubsumed s else s).Nodup := by
      split
      · exact (removeSubsumed_sublist s).nodup hnd
      · exact hnd
    have hsub' : ∀ x ∈ (if s.length ≥ 2 then removeSubsumed s else s), x ∈ v := by
      intro x hx
      split at hx
      · exact hsub x ((removeSubsumed_sublist s).subset hx)
      · exact hsub x hx
    generalize (if s.length ≥ 2 then removeSubsumed s else s) = s' at hnd' hsub'
    match s' with
    | [] => left; rfl
    | [x] => right; right; left; exact hsub' x (by simp)
    | x :: y :: r => right; right; right; exact ⟨_, hnd', hsub', rfl⟩

/-- **shape of `make_inter`** -/
theorem makeInter_cases (hinj : Function.Injective ord) (v : List RE) :
    makeInter ord v = .empty ∨ makeInter ord v = .epsilon ∨ makeInter ord v = sigmaStar ∨
    makeInter ord v ∈ v ∨ ∃ w, w.Nodup ∧ (∀ x ∈ w, x ∈ v) ∧ makeInter ord v = .inter w := by
  unfold makeInter
  rcases simplifySetOperation_nodup hinj v sigmaStar .empty with h | ⟨hnd, hsub⟩
  · rw [h]
    simp only
    split
    · split <;> simp
    · simp
  · generalize simplifySetOperation ord v sigmaStar .empty = s at hnd hsub
    simp only
    split
    · split <;> simp
    · match s with
      | [] => simp
      | [x] => right; right; right; left; exact hsub x (by simp)
      | x :: y :: r => right; right; right; right; exact ⟨_, hnd, hsub, rfl⟩

/-! ### the finite list of all duplicate-free lists over a list -/

/-- every duplicate-free list with members in `B` (as a list of lists) -/
def nodupLists (B : List RE) : List (List RE) := B.sublists.flatMap List.permutations

theorem mem_nodupLists {B w : List RE} (hnd : w.Nodup) (hsub : ∀ x ∈ w, x ∈ B) :
    w ∈ nodupLists B := by
  obtain ⟨l, hl, hlB⟩ := List.subperm_of_subset hnd hsub
  unfold nodupLists
  rw [List.mem_flatMap]
  exact ⟨l, List.mem_sublists.2 hlB, List.mem_permutations.2 hl.symm⟩

theorem subset_of_mem_nodupLists {B w : List RE} (h : w ∈ nodupLists B) : ∀ x ∈ w, x ∈ B := by
  unfold nodupLists at h
  rw [List.mem_flatMap] at h
  obtain ⟨l, hl, hw⟩ := h
  intro x hx
  exact (List.mem_sublists.1 hl).subset ((List.mem_permutations.1 hw).mem_iff.1 hx)

/-! ### unfolding `computeDeriv`; the cases of `concat` for a head that is not a concatenation -/

theorem cd_range (r : CharSet) (c : Nat) :
    computeDeriv ord (.range r) c = if r.contains c then .epsilon else .empty := by
  rw [computeDeriv]

theorem cd_loop (e : RE) (ρ : LoopRange) (c : Nat) :
    computeDeriv ord (.loop e ρ) c =
      mkConcat (computeDeriv ord e (classRep e.derivClass c)) (mkLoop e ρ.shift) := by
  rw [computeDeriv]

theorem cd_concat (a b : RE) (c : Nat) :
    computeDeriv ord (.concat a b) c =
      if a.nullable then
        mkUnion ord (mkConcat (computeDeriv ord a (classRep a.derivClass c)) b)
          (computeDeriv ord b (classRep b.derivClass c))
      else mkConcat (computeDeriv ord a (classRep a.derivClass c)) b := by
  rw [computeDeriv]

theorem cd_compl (a : RE) (c : Nat) :
    computeDeriv ord (.compl a) c = (computeDeriv ord a (classRep a.derivClass c)).complement := by
  rw [computeDeriv]

theorem cd_union (l : List RE) (c : Nat) :
    computeDeriv ord (.union l) c = mkUnionList ord (derivList ord l c) := by
  rw [computeDeriv]

theorem cd_inter (l : List RE) (c : Nat) :
    computeDeriv ord (.inter l) c = mkInterList ord (derivList ord l c) := by
  rw [computeDeriv]

theorem cd_empty (c : Nat) : computeDeriv ord .empty c = .empty := by rw [computeDeriv]
theorem cd_eps (c : Nat) : computeDeriv ord .epsilon c = .empty := by rw [computeDeriv]

theorem mkConcat_nonconcat_cases (h G : RE) (hn : ∀ x y, h ≠ .concat x y) :
    mkConcat h G = .empty ∨ mkConcat h G = G ∨ mkConcat h G = h ∨ mkConcat h G = .concat h G ∨
    (∃ σ, G = .loop h σ ∧ mkConcat h G = .loop h (σ.addPointN 1)) ∨
    (∃ ρ, h = .loop G ρ ∧ mkConcat h G = .loop G (ρ.addPointN 1)) ∨
    (∃ x ρ σ, h = .loop x ρ ∧ G = .loop x σ ∧ mkConcat h G = .loop x (ρ.addN σ)) ∨
    (h = G ∧ mkConcat h G = .loop h (LoopRange.point 2)) := by
  unfold mkConcat
  split
  · exact absurd rfl (hn _ _)
  · split
    · rename_i r hpre
      unfold concatPre at hpre
      split at hpre
      · cases hpre; left; rfl
      · cases hpre; left; rfl
      · cases hpre; right; left; rfl
      · cases hpre; right; right; left; rfl
      · split at hpre
        · rename_i r' heq
          cases hpre
          split at heq
          · rename_i y rng
            split at heq
            · rename_i hxy
              cases heq
              subst hxy
              right; right; right; right; left
              exact ⟨_, rfl, rfl⟩
            · cases heq
          · cases heq
        · split at hpre
          · rename_i r' heq
            cases hpre
            split at heq
            · rename_i x rng
              split at heq
              · rename_i hxy
                cases heq
                subst hxy
                right; right; right; right; right; left
                exact ⟨_, rfl, rfl⟩
              · cases heq
            · cases heq
          · split at hpre
            · rename_i r' heq
              cases hpre
              split at heq
              · rename_i x xr y yr
                split at heq
                · rename_i hxy
                  cases heq
                  subst hxy
                  right; right; right; right; right; right; left
                  exact ⟨_, _, _, rfl, rfl, rfl⟩
                · cases heq
              · cases heq
            · split at hpre
              · rename_i hab
                cases hpre
                subst hab
                right; right; right; right; right; right; right
                exact ⟨rfl, rfl⟩
              · cases hpre
    · unfold concatBase
      split
      · rename_i hc
        simp only [Bool.and_eq_true, decide_eq_true_eq] at hc
        right; left; rfl
      · right; right; right; left; rfl


/-! ### closed lists -/

/-- the four built-in terms -/
def baseTerms : List RE := [.empty, .epsilon, sigmaStar, sigmaPlus]

/-- a list closed under `computeDeriv · c` for EVERY `c`, under union/intersection components
    and complement bodies, that contains the built-in terms -/
structure Closed (ord : RE → Nat) (S : List RE) : Prop where
  base : ∀ x ∈ baseTerms, x ∈ S
  deriv : ∀ x ∈ S, ∀ c, computeDeriv ord x c ∈ S
  unionComps : ∀ x ∈ S, ∀ y ∈ flattenUnion x, y ∈ S
  interComps : ∀ x ∈ S, ∀ y ∈ flattenInter x, y ∈ S
  complBody : ∀ z, RE.compl z ∈ S → z ∈ S

/-- `e` lies in a finite closed list: the set of its iterated derivatives is finite -/
def Fin (ord : RE → Nat) (e : RE) : Prop := ∃ S, e ∈ S ∧ Closed ord S

theorem Closed.empty_mem {S : List RE} (h : Closed ord S) : RE.empty ∈ S := h.base _ (by simp [baseTerms])
theorem Closed.eps_mem {S : List RE} (h : Closed ord S) : RE.epsilon ∈ S := h.base _ (by simp [baseTerms])
theorem Closed.sigmaStar_mem {S : List RE} (h : Closed ord S) : sigmaStar ∈ S := h.base _ (by simp [baseTerms])
theorem Closed.sigmaPlus_mem {S : List RE} (h : Closed ord S) : sigmaPlus ∈ S := h.base _ (by simp [baseTerms])

theorem Closed.derivClosed {S : List RE} (h : Closed ord S) : DerivClosed ord S :=
  fun x hx _ _ => h.deriv x hx _

theorem Closed.append {S T : List RE} (hS : Closed ord S) (hT : Closed ord T) :
    Closed ord (S ++ T) where
  base := fun x hx => List.mem_append_left _ (hS.base x hx)
  deriv := by
    intro x hx c
    rcases List.mem_append.1 hx with h | h
    · exact List.mem_append_left _ (hS.deriv x h c)
    · exact List.mem_append_right _ (hT.deriv x h c)
  unionComps := by
    intro x hx y hy
    rcases List.mem_append.1 hx with h | h
    · exact List.mem_append_left _ (hS.unionComps x h y hy)
    · exact List.mem_append_right _ (hT.unionComps x h y hy)
  interComps := by
    intro x hx y hy
    rcases List.mem_append.1 hx with h | h
    · exact List.mem_append_left _ (hS.interComps x h y hy)
    · exact List.mem_append_right _ (hT.interComps x h y hy)
  complBody := by
    intro z hz
    rcases List.mem_append.1 hz with h | h
    · exact List.mem_append_left _ (hS.complBody z h)
    · exact List.mem_append_right _ (hT.complBody z h)

theorem flattenUnionList_eq (l : List RE) : flattenUnionList l = l.flatMap flattenUnion := by
  induction l with
  | nil => simp [flattenUnionList]
  | cons x xs ih => simp [flattenUnionList, ih]

theorem flattenInterList_eq (l : List RE) : flattenInterList l = l.flatMap flattenInter := by
  induction l with
  | nil => simp [flattenInterList]
  | cons x xs ih => simp [flattenInterList, ih]

theorem flattenUnion_union (l : List RE) : flattenUnion (.union l) = l.flatMap flattenUnion := by
  rw [flattenUnion, flattenUnionList_eq]

theorem flattenInter_inter (l : List RE) : flattenInter (.inter l) = l.flatMap flattenInter := by
  rw [flattenInter, flattenInterList_eq]

theorem flattenUnion_of_not_union {x : RE} (h : ∀ l, x ≠ .union l) : flattenUnion x = [x] := by
  cases x <;> first | rfl | exact absurd rfl (h _)

theorem flattenInter_of_not_inter {x : RE} (h : ∀ l, x ≠ .inter l) : flattenInter x = [x] := by
  cases x <;> first | rfl | exact absurd rfl (h _)

theorem derivList_eq_map' (ord : RE → Nat) (l : List RE) (c : Nat) :
    derivList ord l c = l.map (fun x => computeDeriv ord x (classRep x.derivClass c)) := by
  induction l with
  | nil => simp [derivList]
  | cons x xs ih => simp [derivList, ih]

/-- the built-in terms form a closed list -/
theorem closed_base : Closed ord baseTerms where
  base := fun x hx => hx
  deriv := by
    intro x hx c
    simp only [baseTerms, List.mem_cons, List.not_mem_nil, or_false] at hx
    rcases hx with rfl | rfl | rfl | rfl
    · simp [cd_empty, baseTerms]
    · simp [cd_eps, baseTerms]
    · rw [sigmaStar, cd_loop, sigma, cd_range]
      split <;> simp [baseTerms, mkConcat, concatPre, mkLoop, LoopRange.shift, LoopRange.star,
        LoopRange.infinite, LoopRange.isZero, LoopRange.isOne, sigmaStar, sigma]
    · rw [sigmaPlus, cd_loop, sigma, cd_range]
      split <;> simp [baseTerms, mkConcat, concatPre, mkLoop, LoopRange.shift, LoopRange.plus,
        LoopRange.star, LoopRange.infinite, LoopRange.isZero, LoopRange.isOne, sigmaStar, sigma]
  unionComps := by
    intro x hx y hy
    simp only [baseTerms, List.mem_cons, List.not_mem_nil, or_false] at hx
    rcases hx with rfl | rfl | rfl | rfl <;>
      simp [flattenUnion, sigmaStar, sigmaPlus] at hy <;> subst hy <;>
      simp [baseTerms, sigmaStar, sigmaPlus]
  interComps := by
    intro x hx y hy
    simp only [baseTerms, List.mem_cons, List.not_mem_nil, or_false] at hx
    rcases hx with rfl | rfl | rfl | rfl <;>
      simp [flattenInter, sigmaStar, sigmaPlus] at hy <;> subst hy <;>
      simp [baseTerms, sigmaStar, sigmaPlus]
  complBody := by
    intro z hz
    simp [baseTerms, sigmaStar, sigmaPlus] at hz

/-- one closed list for all members of a list of `Fin` terms -/
theorem fin_list {l : List RE} (h : ∀ x ∈ l, Fin ord x) :
    ∃ S, Closed ord S ∧ ∀ x ∈ l, x ∈ S := by
  induction l with
  | nil => exact ⟨baseTerms, closed_base, by simp⟩
  | cons x xs ih =>
    obtain ⟨S, hS, hxs⟩ := ih (fun y hy => h y (List.mem_cons_of_mem _ hy))
    obtain ⟨T, hxT, hT⟩ := h x (List.mem_cons_self ..)
    refine ⟨T ++ S, hT.append hS, ?_⟩
    intro y hy
    rcases List.mem_cons.1 hy with rfl | hy
    · exact List.mem_append_left _ hxT
    · exact List.mem_append_right _ (hxs y hy)

/-! ### saturation: a "weakly closed" base plus all duplicate-free unions over it is closed -/

theorem Closed.saturate (hinj : Function.Injective ord) {B : List RE}
    (hbase : ∀ x ∈ baseTerms, x ∈ B)
    (hderiv : ∀ x ∈ B, ∀ c, computeDeriv ord x c ∈ B ∨
      ∃ v, (∀ y ∈ v, y ∈ B) ∧ computeDeriv ord x c = makeUnion ord v)
    (hU : ∀ x ∈ B, ∀ y ∈ flattenUnion x, y ∈ B)
    (hI : ∀ x ∈ B, ∀ y ∈ flattenInter x, y ∈ B)
    (hC : ∀ z, RE.compl z ∈ B → z ∈ B) :
    Closed ord (B ++ (nodupLists B).map RE.union) := by
  have hempty : RE.empty ∈ B := hbase _ (by simp [baseTerms])
  have hstar : sigmaStar ∈ B := hbase _ (by simp [baseTerms])
  -- every `makeUnion` over `B` is in the saturated list
  have hmk : ∀ v, (∀ y ∈ v, y ∈ B) → makeUnion ord v ∈ B ++ (nodupLists B).map RE.union := by
    intro v hv
    rcases makeUnion_cases hinj v with h | h | h | ⟨w, hnd, hsub, h⟩
    · rw [h]; exact List.mem_append_left _ hempty
    · rw [h]; exact List.mem_append_left _ hstar
    · exact List.mem_append_left _ (hv _ h)
    · rw [h]
      exact List.mem_append_right _
        (List.mem_map.2 ⟨w, mem_nodupLists hnd (fun x hx => hv x (hsub x hx)), rfl⟩)
  -- union components of a `makeUnion` over `B` are in `B`
  have hmkU : ∀ v, (∀ y ∈ v, y ∈ B) → ∀ y ∈ flattenUnion (makeUnion ord v), y ∈ B := by
    intro v hv y hy
    rcases makeUnion_cases hinj v with h | h | h | ⟨w, hnd, hsub, h⟩
    · rw [h] at hy; simp [flattenUnion] at hy; subst hy; exact hempty
    · rw [h] at hy; simp [flattenUnion, sigmaStar] at hy; subst hy; exact hstar
    · exact hU _ (hv _ h) y hy
    · rw [h, flattenUnion_union, List.mem_flatMap] at hy
      obtain ⟨z, hz, hyz⟩ := hy
      exact hU z (hv z (hsub z hz)) y hyz
  -- union components of the derivative of a member of `B` are in `B`
  have hdU : ∀ x ∈ B, ∀ c, ∀ y ∈ flattenUnion (computeDeriv ord x c), y ∈ B := by
    intro x hx c y hy
    rcases hderiv x hx c with h | ⟨v, hv, h⟩
    · exact hU _ h y hy
    · rw [h] at hy; exact hmkU v hv y hy
  refine ⟨fun x hx => List.mem_append_left _ (hbase x hx), ?_, ?_, ?_, ?_⟩
  · intro x hx c
    rcases List.mem_append.1 hx with hx | hx
    · rcases hderiv x hx c with h | ⟨v, hv, h⟩
      · exact List.mem_append_left _ h
      · rw [h]; exact hmk v hv
    · obtain ⟨w, hw, rfl⟩ := List.mem_map.1 hx
      have hwB := subset_of_mem_nodupLists hw
      rw [cd_union, mkUnionList]
      apply hmk
      intro y hy
      rw [List.mem_flatMap] at hy
      obtain ⟨d, hd, hyd⟩ := hy
      rw [derivList_eq_map', List.mem_map] at hd
      obtain ⟨x, hxw, rfl⟩ := hd
      exact hdU x (hwB x hxw) _ y hyd
  · intro x hx y hy
    rcases List.mem_append.1 hx with hx | hx
    · exact List.mem_append_left _ (hU x hx y hy)
    · obtain ⟨w, hw, rfl⟩ := List.mem_map.1 hx
      have hwB := subset_of_mem_nodupLists hw
      rw [flattenUnion_union, List.mem_flatMap] at hy
      obtain ⟨z, hz, hyz⟩ := hy
      exact List.mem_append_left _ (hU z (hwB z hz) y hyz)
  · intro x hx y hy
    rcases List.mem_append.1 hx with hx | hx
    · exact List.mem_append_left _ (hI x hx y hy)
    · obtain ⟨w, hw, rfl⟩ := List.mem_map.1 hx
      simp only [flattenInter, List.mem_singleton] at hy
      subst hy
      exact List.mem_append_right _ (List.mem_map.2 ⟨w, hw, rfl⟩)
  · intro z hz
    rcases List.mem_append.1 hz with hz | hz
    · exact List.mem_append_left _ (hC z hz)
    · obtain ⟨w, _, hw⟩ := List.mem_map.1 hz
      cases hw


/-! ### union, intersection, complement -/

theorem fin_union (hinj : Function.Injective ord) {l : List RE} (h : ∀ x ∈ l, Fin ord x) :
    Fin ord (.union l) := by
  obtain ⟨S, hS, hl⟩ := fin_list h
  refine ⟨(RE.union l :: S) ++ (nodupLists (RE.union l :: S)).map RE.union,
    List.mem_append_left _ (List.mem_cons_self ..), ?_⟩
  apply Closed.saturate hinj
  · intro x hx; exact List.mem_cons_of_mem _ (hS.base x hx)
  · intro x hx c
    rcases List.mem_cons.1 hx with rfl | hx
    · right
      refine ⟨(derivList ord l c).flatMap flattenUnion, ?_, by rw [cd_union, mkUnionList]⟩
      intro y hy
      rw [List.mem_flatMap] at hy
      obtain ⟨d, hd, hyd⟩ := hy
      rw [derivList_eq_map', List.mem_map] at hd
      obtain ⟨x, hxl, rfl⟩ := hd
      exact List.mem_cons_of_mem _ (hS.unionComps _ (hS.deriv x (hl x hxl) _) y hyd)
    · left; exact List.mem_cons_of_mem _ (hS.deriv x hx c)
  · intro x hx y hy
    rcases List.mem_cons.1 hx with rfl | hx
    · rw [flattenUnion_union, List.mem_flatMap] at hy
      obtain ⟨z, hz, hyz⟩ := hy
      exact List.mem_cons_of_mem _ (hS.unionComps z (hl z hz) y hyz)
    · exact List.mem_cons_of_mem _ (hS.unionComps x hx y hy)
  · intro x hx y hy
    rcases List.mem_cons.1 hx with rfl | hx
    · simp only [flattenInter, List.mem_singleton] at hy
      subst hy; exact List.mem_cons_self ..
    · exact List.mem_cons_of_mem _ (hS.interComps x hx y hy)
  · intro z hz
    rcases List.mem_cons.1 hz with h | hz
    · cases h
    · exact List.mem_cons_of_mem _ (hS.complBody z hz)

theorem fin_inter (hinj : Function.Injective ord) {l : List RE} (h : ∀ x ∈ l, Fin ord x) :
    Fin ord (.inter l) := by
  obtain ⟨S, hS, hl⟩ := fin_list h
  refine ⟨(RE.inter l :: S) ++ (nodupLists S).map RE.inter,
    List.mem_append_left _ (List.mem_cons_self ..), ?_⟩
  -- every `makeInter` over `S` is in the list
  have hmk : ∀ v, (∀ y ∈ v, y ∈ S) →
      makeInter ord v ∈ (RE.inter l :: S) ++ (nodupLists S).map RE.inter := by
    intro v hv
    rcases makeInter_cases hinj v with h | h | h | h | ⟨w, hnd, hsub, h⟩
    · rw [h]; exact List.mem_append_left _ (List.mem_cons_of_mem _ hS.empty_mem)
    · rw [h]; exact List.mem_append_left _ (List.mem_cons_of_mem _ hS.eps_mem)
    · rw [h]; exact List.mem_append_left _ (List.mem_cons_of_mem _ hS.sigmaStar_mem)
    · exact List.mem_append_left _ (List.mem_cons_of_mem _ (hv _ h))
    · rw [h]
      exact List.mem_append_right _
        (List.mem_map.2 ⟨w, mem_nodupLists hnd (fun x hx => hv x (hsub x hx)), rfl⟩)
  -- the derivative of an intersection of members of `S`
  have hdI : ∀ w, (∀ x ∈ w, x ∈ S) → ∀ c,
      computeDeriv ord (.inter w) c ∈ (RE.inter l :: S) ++ (nodupLists S).map RE.inter := by
    intro w hw c
    rw [cd_inter, mkInterList]
    apply hmk
    intro y hy
    rw [List.mem_flatMap] at hy
    obtain ⟨d, hd, hyd⟩ := hy
    rw [derivList_eq_map', List.mem_map] at hd
    obtain ⟨x, hxw, rfl⟩ := hd
    exact hS.interComps _ (hS.deriv x (hw x hxw) _) y hyd
  refine ⟨fun x hx => List.mem_append_left _ (List.mem_cons_of_mem _ (hS.base x hx)), ?_, ?_, ?_, ?_⟩
  · intro x hx c
    rcases List.mem_append.1 hx with hx | hx
    · rcases List.mem_cons.1 hx with rfl | hx
      · exact hdI l hl c
      · exact List.mem_append_left _ (List.mem_cons_of_mem _ (hS.deriv x hx c))
    · obtain ⟨w, hw, rfl⟩ := List.mem_map.1 hx
      exact hdI w (subset_of_mem_nodupLists hw) c
  · intro x hx y hy
    rcases List.mem_append.1 hx with hx | hx
    · rcases List.mem_cons.1 hx with rfl | hx
      · simp only [flattenUnion, List.mem_singleton] at hy
        subst hy; exact List.mem_append_left _ (List.mem_cons_self ..)
      · exact List.mem_append_left _ (List.mem_cons_of_mem _ (hS.unionComps x hx y hy))
    · obtain ⟨w, hw, rfl⟩ := List.mem_map.1 hx
      simp only [flattenUnion, List.mem_singleton] at hy
      subst hy
      exact List.mem_append_right _ (List.mem_map.2 ⟨w, hw, rfl⟩)
  · intro x hx y hy
    rcases List.mem_append.1 hx with hx | hx
    · rcases List.mem_cons.1 hx with rfl | hx
      · rw [flattenInter_inter, List.mem_flatMap] at hy
        obtain ⟨z, hz, hyz⟩ := hy
        exact List.mem_append_left _ (List.mem_cons_of_mem _ (hS.interComps z (hl z hz) y hyz))
      · exact List.mem_append_left _ (List.mem_cons_of_mem _ (hS.interComps x hx y hy))
    · obtain ⟨w, hw, rfl⟩ := List.mem_map.1 hx
      rw [flattenInter_inter, List.mem_flatMap] at hy
      obtain ⟨z, hz, hyz⟩ := hy
      exact List.mem_append_left _ (List.mem_cons_of_mem _
        (hS.interComps z (subset_of_mem_nodupLists hw z hz) y hyz))
  · intro z hz
    rcases List.mem_append.1 hz with hz | hz
    · rcases List.mem_cons.1 hz with h | hz
      · cases h
      · exact List.mem_append_left _ (List.mem_cons_of_mem _ (hS.complBody z hz))
    · obtain ⟨w, _, hw⟩ := List.mem_map.1 hz
      cases hw

/-- `complement y` is already in a closed list containing `y`, or it is the node `compl y` -/
theorem complement_cases {S : List RE} (hS : Closed ord S) {y : RE} (hy : y ∈ S) :
    y.complement ∈ S ∨ y.complement = .compl y := by
  unfold complement
  split
  · left; exact hS.sigmaStar_mem
  · left; exact hS.sigmaPlus_mem
  · left; exact hS.complBody _ hy
  · split
    · left; exact hS.empty_mem
    · split
      · left; exact hS.eps_mem
      · right; rfl

theorem fin_compl {x : RE} (h : Fin ord x) : Fin ord (.compl x) := by
  obtain ⟨S, hx, hS⟩ := h
  refine ⟨S ++ (S.map fun y => RE.compl y),
    List.mem_append_right _ (List.mem_map.2 ⟨x, hx, rfl⟩), ?_⟩
  have hcm : ∀ y ∈ S, y.complement ∈ S ++ (S.map fun y => RE.compl y) := by
    intro y hy
    rcases complement_cases hS hy with h | h
    · exact List.mem_append_left _ h
    · rw [h]; exact List.mem_append_right _ (List.mem_map.2 ⟨y, hy, rfl⟩)
  refine ⟨fun x hx => List.mem_append_left _ (hS.base x hx), ?_, ?_, ?_, ?_⟩
  · intro z hz c
    rcases List.mem_append.1 hz with hz | hz
    · exact List.mem_append_left _ (hS.deriv z hz c)
    · obtain ⟨y, hy, rfl⟩ := List.mem_map.1 hz
      rw [cd_compl]
      exact hcm _ (hS.deriv y hy _)
  · intro z hz y hy
    rcases List.mem_append.1 hz with hz | hz
    · exact List.mem_append_left _ (hS.unionComps z hz y hy)
    · obtain ⟨y', hy', rfl⟩ := List.mem_map.1 hz
      simp only [flattenUnion, List.mem_singleton] at hy
      subst hy
      exact List.mem_append_right _ (List.mem_map.2 ⟨y', hy', rfl⟩)
  · intro z hz y hy
    rcases List.mem_append.1 hz with hz | hz
    · exact List.mem_append_left _ (hS.interComps z hz y hy)
    · obtain ⟨y', hy', rfl⟩ := List.mem_map.1 hz
      simp only [flattenInter, List.mem_singleton] at hy
      subst hy
      exact List.mem_append_right _ (List.mem_map.2 ⟨y', hy', rfl⟩)
  · intro z hz
    rcases List.mem_append.1 hz with hz | hz
    · exact List.mem_append_left _ (hS.complBody z hz)
    · obtain ⟨y', hy', h⟩ := List.mem_map.1 hz
      cases h
      exact List.mem_append_left _ hy'


/-! ### auxiliary facts on `concat` and loop ranges -/

theorem fin_base {x : RE} (hx : x ∈ baseTerms) : Fin ord x := ⟨baseTerms, hx, closed_base⟩

theorem mkConcat_empty_left (X : RE) : mkConcat .empty X = .empty := by
  unfold mkConcat concatPre
  cases X <;> rfl

theorem mkConcat_eps_left (X : RE) : mkConcat .epsilon X = X := by
  unfold mkConcat concatPre
  cases X <;> rfl

/-- both bounds of a loop range are at most `N` -/
def RangeLe (ρ : LoopRange) (N : Nat) : Prop := ρ.start ≤ N ∧ ∀ j, ρ.stop = some j → j ≤ N

theorem RangeLe.mono {ρ : LoopRange} {N K : Nat} (h : RangeLe ρ N) (hNK : N ≤ K) : RangeLe ρ K :=
  ⟨Nat.le_trans h.1 hNK, fun j hj => Nat.le_trans (h.2 j hj) hNK⟩

theorem RangeLe.shift {ρ : LoopRange} {N : Nat} (h : RangeLe ρ N) : RangeLe ρ.shift N := by
  obtain ⟨i, s⟩ := ρ
  obtain ⟨h1, h2⟩ := h
  simp only at h1 h2
  unfold LoopRange.shift
  cases i with
  | zero =>
    cases s with
    | none => exact ⟨Nat.zero_le _, fun j hj => by simp [LoopRange.infinite] at hj⟩
    | some j =>
      cases j with
      | zero => exact ⟨Nat.zero_le _, fun j hj => by simp [LoopRange.point, LoopRange.finite] at hj; omega⟩
      | succ j =>
        refine ⟨Nat.zero_le _, fun j' hj => ?_⟩
        simp [LoopRange.finite] at hj
        have := h2 (j + 1) rfl
        omega
  | succ i =>
    cases s with
    | none => exact ⟨by simp [LoopRange.infinite]; omega, fun j hj => by simp [LoopRange.infinite] at hj⟩
    | some j =>
      refine ⟨by simp [LoopRange.finite]; omega, fun j' hj => ?_⟩
      simp [LoopRange.finite] at hj
      have := h2 j rfl
      omega

/-! ### letters: terms that behave like one character class

  A *letter* `X` is a term all of whose derivatives are `ε` or `∅` (a character class `[a-b]`, or
  a union of character classes such as `[a-zA-Z0-9_]`), that is not `∅`, `ε`, a concatenation or a
  loop, together with a closed list `SX` that contains it. -/

structure Letter (ord : RE → Nat) (X : RE) (SX : List RE) : Prop where
  closed : Closed ord SX
  mem : X ∈ SX
  deriv : ∀ c, computeDeriv ord X c = .epsilon ∨ computeDeriv ord X c = .empty
  ne_empty : X ≠ .empty
  ne_eps : X ≠ .epsilon
  not_concat : ∀ a b, X ≠ .concat a b
  not_loop : ∀ a ρ, X ≠ .loop a ρ

/-- all loops over `X` with both bounds at most `N` -/
def xLoops (X : RE) (N : Nat) : List RE :=
  (List.range (N + 1)).flatMap fun i =>
    RE.loop X ⟨i, none⟩ :: (List.range (N + 1)).map fun j => RE.loop X ⟨i, some j⟩

/-- `∅`, `ε`, `X` and all loops over `X` with bounds at most `N` -/
def xFam (X : RE) (N : Nat) : List RE := .empty :: .epsilon :: X :: xLoops X N

theorem mem_xLoops {X : RE} {N : Nat} {x : RE} :
    x ∈ xLoops X N ↔ ∃ ρ, RangeLe ρ N ∧ x = .loop X ρ := by
  unfold xLoops
  simp only [List.mem_flatMap, List.mem_range, List.mem_cons, List.mem_map]
  constructor
  · rintro ⟨i, hi, h | ⟨j, hj, h⟩⟩
    · exact ⟨⟨i, none⟩, ⟨by simp; omega, fun j hj => by simp at hj⟩, h⟩
    · exact ⟨⟨i, some j⟩, ⟨by simp; omega, fun j' hj' => by simp at hj'; omega⟩, h.symm⟩
  · rintro ⟨⟨i, s⟩, ⟨h1, h2⟩, rfl⟩
    simp only at h1 h2
    refine ⟨i, by omega, ?_⟩
    cases s with
    | none => left; rfl
    | some j => right; exact ⟨j, by have := h2 j rfl; omega, rfl⟩

theorem mem_xFam {X : RE} {N : Nat} {x : RE} :
    x ∈ xFam X N ↔ x = .empty ∨ x = .epsilon ∨ x = X ∨ ∃ ρ, RangeLe ρ N ∧ x = .loop X ρ := by
  unfold xFam
  simp only [List.mem_cons, mem_xLoops]

theorem xFam_mono {X : RE} {N K : Nat} (hNK : N ≤ K) {x : RE} (h : x ∈ xFam X N) :
    x ∈ xFam X K := by
  rw [mem_xFam] at h ⊢
  rcases h with h | h | h | ⟨ρ, hρ, h⟩
  · exact .inl h
  · exact .inr (.inl h)
  · exact .inr (.inr (.inl h))
  · exact .inr (.inr (.inr ⟨ρ, hρ.mono hNK, h⟩))

theorem mkLoop_letter_mem {X : RE} {SX : List RE} (L : Letter ord X SX) {N : Nat} {ρ : LoopRange}
    (h : RangeLe ρ N) : mkLoop X ρ ∈ xFam X N := by
  rw [mem_xFam]
  unfold mkLoop
  split
  · exact .inr (.inl rfl)
  · split
    · exact .inr (.inr (.inl rfl))
    · refine .inr (.inr (.inr ⟨ρ, h, ?_⟩))
      have h1 := L.ne_empty
      have h2 := L.ne_eps
      have h3 := L.not_loop
      cases X <;> first | rfl | exact absurd rfl h1 | exact absurd rfl h2 | exact absurd rfl (h3 _ _)

/-- the family is closed under `computeDeriv` -/
theorem xFam_deriv {X : RE} {SX : List RE} (L : Letter ord X SX) {N : Nat} {x : RE}
    (h : x ∈ xFam X N) (c : Nat) : computeDeriv ord x c ∈ xFam X N := by
  rcases mem_xFam.1 h with rfl | rfl | rfl | ⟨ρ, hρ, rfl⟩
  · rw [cd_empty]; exact mem_xFam.2 (.inl rfl)
  · rw [cd_eps]; exact mem_xFam.2 (.inl rfl)
  · rcases L.deriv c with hd | hd
    · rw [hd]; exact mem_xFam.2 (.inr (.inl rfl))
    · rw [hd]; exact mem_xFam.2 (.inl rfl)
  · rw [cd_loop]
    rcases L.deriv (classRep X.derivClass c) with hd | hd
    · rw [hd, mkConcat_eps_left]; exact mkLoop_letter_mem L hρ.shift
    · rw [hd, mkConcat_empty_left]; exact mem_xFam.2 (.inl rfl)

/-- the closed list of a letter together with the family of its loops is closed -/
theorem closed_xFam {X : RE} {SX : List RE} (L : Letter ord X SX) (N : Nat) :
    Closed ord (SX ++ xFam X N) := by
  have hS := L.closed
  have key : ∀ x ∈ xFam X N, x ∈ SX ∨
      (flattenUnion x = [x] ∧ flattenInter x = [x] ∧ ∀ z, x ≠ .compl z) := by
    intro x hx
    rcases mem_xFam.1 hx with rfl | rfl | rfl | ⟨ρ, _, rfl⟩
    · left; exact hS.empty_mem
    · left; exact hS.eps_mem
    · left; exact L.mem
    · right; exact ⟨rfl, rfl, fun _ hh => (by cases hh)⟩
  refine ⟨fun x hx => List.mem_append_left _ (hS.base x hx), ?_, ?_, ?_, ?_⟩
  · intro x hx c
    rcases List.mem_append.1 hx with hx | hx
    · exact List.mem_append_left _ (hS.deriv x hx c)
    · exact List.mem_append_right _ (xFam_deriv L hx c)
  · intro x hx y hy
    rcases List.mem_append.1 hx with hx | hx
    · exact List.mem_append_left _ (hS.unionComps x hx y hy)
    · rcases key x hx with h | h
      · exact List.mem_append_left _ (hS.unionComps x h y hy)
      · rw [h.1, List.mem_singleton] at hy
        subst hy; exact List.mem_append_right _ hx
  · intro x hx y hy
    rcases List.mem_append.1 hx with hx | hx
    · exact List.mem_append_left _ (hS.interComps x hx y hy)
    · rcases key x hx with h | h
      · exact List.mem_append_left _ (hS.interComps x h y hy)
      · rw [h.2.1, List.mem_singleton] at hy
        subst hy; exact List.mem_append_right _ hx
  · intro z hz
    rcases List.mem_append.1 hz with hz | hz
    · exact List.mem_append_left _ (hS.complBody z hz)
    · rcases key _ hz with h | h
      · exact List.mem_append_left _ (hS.complBody z h)
      · exact absurd rfl (h.2.2 z)

/-- `∅`, `ε`, a letter, a loop over a letter -/
theorem fin_xFam {X : RE} {SX : List RE} (L : Letter ord X SX) {N : Nat} {x : RE}
    (h : x ∈ xFam X N) : Fin ord x :=
  ⟨SX ++ xFam X N, List.mem_append_right _ h, closed_xFam L N⟩

theorem fin_letterLoop {X : RE} {SX : List RE} (L : Letter ord X SX) (ρ : LoopRange) :
    Fin ord (.loop X ρ) :=
  fin_xFam L (N := ρ.start + ρ.stop.getD 0) (mem_xFam.2 (.inr (.inr (.inr ⟨ρ,
    ⟨Nat.le_add_right _ _, fun j hj => by simp [hj]⟩, rfl⟩))))

/-! ### `A · G` with `A` a letter or a loop over a letter -/

theorem loop_ne_self (x : RE) (ρ : LoopRange) : RE.loop x ρ ≠ x := by
  intro h
  have := congrArg sizeOf h
  simp at this
  omega

theorem mkConcat_loop_loop (x : RE) (ρ σ : LoopRange) :
    mkConcat (.loop x ρ) (.loop x σ) = .loop x (ρ.addN σ) := by
  unfold mkConcat concatPre
  simp [loop_ne_self]

theorem rangeLe_self (σ : LoopRange) : RangeLe σ (σ.start + σ.stop.getD 0) :=
  ⟨Nat.le_add_right _ _, fun j hj => by simp [hj]⟩

theorem rangeLe_addN {ρ : LoopRange} {N : Nat} (h : RangeLe ρ N) (σ : LoopRange) :
    RangeLe (ρ.addN σ) (N + (σ.start + σ.stop.getD 0)) := by
  obtain ⟨i, s⟩ := ρ
  obtain ⟨i', s'⟩ := σ
  obtain ⟨h1, h2⟩ := h
  simp only at h1 h2
  unfold LoopRange.addN
  cases s with
  | none =>
    refine ⟨by simp [LoopRange.infinite]; omega, fun j hj => by simp [LoopRange.infinite] at hj⟩
  | some a =>
    cases s' with
    | none =>
      refine ⟨by simp [LoopRange.infinite]; omega, fun j hj => by simp [LoopRange.infinite] at hj⟩
    | some b =>
      have := h2 a rfl
      refine ⟨by simp [LoopRange.finite]; omega, fun j hj => ?_⟩
      simp [LoopRange.finite] at hj
      simp
      omega

/-- the counters of a top-level loop (0 for other terms) -/
def loopBound : RE → Nat
  | .loop _ σ => σ.start + σ.stop.getD 0
  | _ => 0

/-- the result of `concat(h, G)` for `h` in the family of the letter `X`: a member of the closed
    list of the tail, a loop of the (larger) family — the loop-merging arms —, or the plain node -/
theorem mkConcat_head_mem {X : RE} {SX : List RE} (L : Letter ord X SX) {N : Nat} {G : RE}
    {S : List RE} (hS : Closed ord S) (hG : G ∈ S)
    (hF : ∀ x ∈ xFam X (N + loopBound G + 2), x ∈ S)
    (hnest : ∀ y σ, G = .loop y σ → ∀ x ρ, y ≠ .loop x ρ) {h : RE} (hh : h ∈ xFam X N) :
    mkConcat h G ∈ S ++ (xFam X N).map (fun h => RE.concat h G) := by
  have inS : ∀ {x}, x ∈ S → x ∈ S ++ (xFam X N).map (fun h => RE.concat h G) :=
    fun hx => List.mem_append_left _ hx
  have inF : ∀ {ρ}, RangeLe ρ (N + loopBound G + 2) → RE.loop X ρ ∈
      S ++ (xFam X N).map (fun h => RE.concat h G) :=
    fun hρ => inS (hF _ (mem_xFam.2 (.inr (.inr (.inr ⟨_, hρ, rfl⟩)))))
  have inM : RE.concat h G ∈ S ++ (xFam X N).map (fun h => RE.concat h G) :=
    List.mem_append_right _ (List.mem_map.2 ⟨h, hh, rfl⟩)
  have inK : h ∈ S ++ (xFam X N).map (fun h => RE.concat h G) :=
    inS (hF _ (xFam_mono (by omega) hh))
  rcases mem_xFam.1 hh with rfl | rfl | rfl | ⟨ρ, hρ, rfl⟩
  · rw [mkConcat_empty_left]; exact inS hS.empty_mem
  · rw [mkConcat_eps_left]; exact inS hG
  · rcases mkConcat_nonconcat_cases h G L.not_concat with
      h1 | h1 | h1 | h1 | ⟨σ, hGσ, h1⟩ | ⟨ρ, hh', _⟩ | ⟨x, ρ, σ, hh', _⟩ | ⟨hhG, h1⟩
    · rw [h1]; exact inS hS.empty_mem
    · rw [h1]; exact inS hG
    · rw [h1]; exact inK
    · rw [h1]; exact inM
    · rw [h1]
      apply inF
      have := rangeLe_addN (rangeLe_self σ) (LoopRange.point 1)
      subst hGσ
      simp only [loopBound]
      refine RangeLe.mono this ?_
      simp [LoopRange.point, LoopRange.finite]
    · exact absurd hh' (L.not_loop _ _)
    · exact absurd hh' (L.not_loop _ _)
    · rw [h1]
      apply inF
      exact ⟨by simp [LoopRange.point, LoopRange.finite],
        fun j hj => by simp [LoopRange.point, LoopRange.finite] at hj; omega⟩
  · by_cases hGl : ∃ σ, G = .loop X σ
    · obtain ⟨σ, rfl⟩ := hGl
      rw [mkConcat_loop_loop]
      apply inF
      refine RangeLe.mono (rangeLe_addN hρ σ) ?_
      simp only [loopBound]
      omega
    · rcases mkConcat_nonconcat_cases (.loop X ρ) G (fun _ _ hh => by cases hh) with
        h1 | h1 | h1 | h1 | ⟨σ, hGσ, _⟩ | ⟨ρ', hh', h1⟩ | ⟨x, ρ', σ, hh', hG', _⟩ | ⟨hhG, _⟩
      · rw [h1]; exact inS hS.empty_mem
      · rw [h1]; exact inS hG
      · rw [h1]; exact inK
      · rw [h1]; exact inM
      · exact absurd rfl (hnest _ _ hGσ _ _)
      · rw [h1]
        cases hh'
        apply inF
        refine RangeLe.mono (rangeLe_addN hρ (LoopRange.point 1)) ?_
        simp [LoopRange.point, LoopRange.finite]
      · cases hh'
        exact absurd ⟨σ, hG'⟩ hGl
      · exact absurd ⟨ρ, hhG.symm⟩ hGl

theorem fin_concat_head (hinj : Function.Injective ord) {X : RE} {SX : List RE}
    (L : Letter ord X SX) {N : Nat} {A G : RE} (hA : A ∈ xFam X N) (hG : Fin ord G)
    (hnest : ∀ y σ, G = .loop y σ → ∀ x ρ, y ≠ .loop x ρ) : Fin ord (.concat A G) := by
  obtain ⟨S0, hGS0, hS0⟩ := hG
  -- the closed list of the tail together with the (larger) family of the letter
  have hS : Closed ord (S0 ++ (SX ++ xFam X (N + loopBound G + 2))) :=
    hS0.append (closed_xFam L _)
  have hGS : G ∈ S0 ++ (SX ++ xFam X (N + loopBound G + 2)) := List.mem_append_left _ hGS0
  have hF : ∀ x ∈ xFam X (N + loopBound G + 2),
      x ∈ S0 ++ (SX ++ xFam X (N + loopBound G + 2)) :=
    fun x hx => List.mem_append_right _ (List.mem_append_right _ hx)
  generalize S0 ++ (SX ++ xFam X (N + loopBound G + 2)) = S at hS hGS hF
  let B := S ++ (xFam X N).map (fun h => RE.concat h G)
  have hB : ∀ x, x ∈ B ↔ x ∈ S ∨ ∃ h ∈ xFam X N, x = .concat h G := by
    intro x
    simp only [B, List.mem_append, List.mem_map]
    constructor
    · rintro (h | ⟨a, ha, rfl⟩)
      · exact .inl h
      · exact .inr ⟨a, ha, rfl⟩
    · rintro (h | ⟨a, ha, rfl⟩)
      · exact .inl h
      · exact .inr ⟨a, ha, rfl⟩
  have hU : ∀ x ∈ B, ∀ y ∈ flattenUnion x, y ∈ B := by
    intro x hx y hy
    rcases (hB x).1 hx with h | ⟨a, _, rfl⟩
    · exact (hB y).2 (.inl (hS.unionComps x h y hy))
    · simp only [flattenUnion, List.mem_singleton] at hy
      subst hy; exact hx
  refine ⟨B ++ (nodupLists B).map RE.union,
    List.mem_append_left _ ((hB _).2 (.inr ⟨A, hA, rfl⟩)), ?_⟩
  apply Closed.saturate hinj
  · intro x hx; exact (hB x).2 (.inl (hS.base x hx))
  · intro x hx c
    rcases (hB x).1 hx with h | ⟨a, ha, rfl⟩
    · left; exact (hB _).2 (.inl (hS.deriv x h c))
    · have hd1 : mkConcat (computeDeriv ord a (classRep a.derivClass c)) G ∈ B :=
        mkConcat_head_mem L hS hGS hF hnest (xFam_deriv L ha _)
      rw [cd_concat]
      split
      · right
        refine ⟨_, ?_, rfl⟩
        intro y hy
        rcases List.mem_append.1 hy with hy | hy
        · exact hU _ hd1 y hy
        · exact (hB y).2 (.inl (hS.unionComps _ (hS.deriv G hGS _) y hy))
      · left; exact hd1
  · exact hU
  · intro x hx y hy
    rcases (hB x).1 hx with h | ⟨a, _, rfl⟩
    · exact (hB y).2 (.inl (hS.interComps x h y hy))
    · simp only [flattenInter, List.mem_singleton] at hy
      subst hy; exact hx
  · intro z hz
    rcases (hB _).1 hz with h | ⟨a, _, h⟩
    · exact (hB z).2 (.inl (hS.complBody z h))
    · cases h

/-! ### the letters: a character class, a union of character classes -/

theorem closed_range (r : CharSet) : Closed ord (baseTerms ++ [RE.range r]) := by
  have hb := closed_base (ord := ord)
  refine ⟨fun x hx => List.mem_append_left _ hx, ?_, ?_, ?_, ?_⟩
  · intro x hx c
    rcases List.mem_append.1 hx with hx | hx
    · exact List.mem_append_left _ (hb.deriv x hx c)
    · rw [List.mem_singleton] at hx
      subst hx
      rw [cd_range]
      split <;> exact List.mem_append_left _ (by simp [baseTerms])
  · intro x hx y hy
    rcases List.mem_append.1 hx with hx | hx
    · exact List.mem_append_left _ (hb.unionComps x hx y hy)
    · rw [List.mem_singleton] at hx
      subst hx
      simp only [flattenUnion, List.mem_singleton] at hy
      subst hy; exact List.mem_append_right _ (by simp)
  · intro x hx y hy
    rcases List.mem_append.1 hx with hx | hx
    · exact List.mem_append_left _ (hb.interComps x hx y hy)
    · rw [List.mem_singleton] at hx
      subst hx
      simp only [flattenInter, List.mem_singleton] at hy
      subst hy; exact List.mem_append_right _ (by simp)
  · intro z hz
    rcases List.mem_append.1 hz with hz | hz
    · exact List.mem_append_left _ (hb.complBody z hz)
    · simp at hz

theorem letter_range (r : CharSet) : Letter ord (.range r) (baseTerms ++ [RE.range r]) where
  closed := closed_range r
  mem := List.mem_append_right _ (by simp)
  deriv := by intro c; rw [cd_range]; split <;> simp
  ne_empty := by intro h; cases h
  ne_eps := by intro h; cases h
  not_concat := by intro a b h; cases h
  not_loop := by intro a ρ h; cases h

theorem fin_range (r : CharSet) : Fin ord (.range r) :=
  ⟨_, (letter_range (ord := ord) r).mem, (letter_range r).closed⟩

/-- a union over operands that are all `ε` or `∅` is `ε` or `∅` -/
theorem makeUnion_eps_empty (hps : PairSound ord) (hinj : Function.Injective ord) (v : List RE)
    (hv : ∀ y ∈ v, y = .epsilon ∨ y = .empty) :
    makeUnion ord v = .epsilon ∨ makeUnion ord v = .empty := by
  have hnotstar : sigmaStar ∉ v := by
    intro h
    rcases hv _ h with h | h <;> simp [sigmaStar] at h
  unfold makeUnion
  rcases simplifySetOperation_cases hps v .empty sigmaStar with ⟨_, h | ⟨x, hx, hcx⟩⟩ | hmem
  · exact absurd h hnotstar
  · exfalso
    rcases hv x hx with rfl | rfl
    · rcases hv _ hcx with h | h <;> simp [complement, sigmaPlus] at h
    · rcases hv _ hcx with h | h <;> simp [complement, sigmaStar] at h
  · have hnd : (simplifySetOperation ord v .empty sigmaStar).Nodup := by
      rcases simplifySetOperation_nodup hinj v .empty sigmaStar with h | h
      · rw [h]; simp
      · exact h.1
    generalize simplifySetOperation ord v .empty sigmaStar = s at hmem hnd
    have hall : ∀ x ∈ s, x = .epsilon := by
      intro x hx
      obtain ⟨h1, h2⟩ := (hmem x).1 hx
      rcases hv x h1 with h | h
      · exact h
      · exact absurd h h2
    simp only
    have hnd' : (if s.length ≥ 2 then removeSubsumed s else s).Nodup := by
      split
      · exact (removeSubsumed_sublist s).nodup hnd
      · exact hnd
    have hall' : ∀ x ∈ (if s.length ≥ 2 then removeSubsumed s else s), x = .epsilon := by
      intro x hx
      split at hx
      · exact hall x ((removeSubsumed_sublist s).subset hx)
      · exact hall x hx
    generalize (if s.length ≥ 2 then removeSubsumed s else s) = s' at hnd' hall'
    match s' with
    | [] => right; rfl
    | [x] => left; exact hall' x (by simp)
    | x :: y :: r =>
      exfalso
      have hx := hall' x (by simp)
      have hy := hall' y (by simp)
      subst hx hy
      simp at hnd'

/-- a union of character classes is a letter -/
theorem letter_unionRanges (hps : PairSound ord) (hinj : Function.Injective ord) {l : List RE}
    (hl : ∀ x ∈ l, ∃ s, x = .range s) : ∃ SX, Letter ord (.union l) SX := by
  obtain ⟨SX, hm, hc⟩ := fin_union hinj (l := l)
    (fun x hx => by obtain ⟨s, rfl⟩ := hl x hx; exact fin_range s)
  refine ⟨SX, hc, hm, ?_, fun h => (by cases h), fun h => (by cases h),
    fun a b h => (by cases h), fun a ρ h => (by cases h)⟩
  intro c
  rw [cd_union, mkUnionList]
  apply makeUnion_eps_empty hps hinj
  intro y hy
  rw [List.mem_flatMap] at hy
  obtain ⟨d, hd, hyd⟩ := hy
  rw [derivList_eq_map', List.mem_map] at hd
  obtain ⟨x, hx, rfl⟩ := hd
  obtain ⟨s, rfl⟩ := hl x hx
  rw [cd_range] at hyd
  split at hyd <;> simp [flattenUnion] at hyd <;> simp [hyd]

/-! ### plain concatenations, chains of factors, inert tails -/

theorem concatPre_none {h G : RE}
    (h0 : h ≠ .empty) (h1 : h ≠ .epsilon) (g0 : G ≠ .empty) (g1 : G ≠ .epsilon)
    (m1 : ∀ σ, G ≠ .loop h σ) (m2 : ∀ ρ, h ≠ .loop G ρ)
    (m3 : ∀ x ρ σ, h = .loop x ρ → G ≠ .loop x σ) (m4 : h ≠ G) :
    concatPre h G = none := by
  unfold concatPre
  split
  · exact absurd rfl h0
  · exact absurd rfl g0
  · exact absurd rfl h1
  · exact absurd rfl g1
  · split
    · rename_i r' heq
      exfalso
      split at heq
      · rename_i y rng
        split at heq
        · rename_i hxy
          subst hxy
          exact m1 _ rfl
        · cases heq
      · cases heq
    · split
      · rename_i r' heq
        exfalso
        split at heq
        · rename_i x rng
          split at heq
          · rename_i hxy
            subst hxy
            exact m2 _ rfl
          · cases heq
        · cases heq
      · split
        · rename_i r' heq
          exfalso
          split at heq
          · rename_i x xr y yr
            split at heq
            · rename_i hxy
              subst hxy
              exact m3 _ _ _ rfl rfl
            · cases heq
          · cases heq
        · rw [if_neg m4]

/-- `concat(h, G)` is the plain node when no rewriting arm applies -/
theorem mkConcat_plain {h G : RE} (hn : ∀ x y, h ≠ .concat x y)
    (h0 : h ≠ .empty) (h1 : h ≠ .epsilon) (g0 : G ≠ .empty) (g1 : G ≠ .epsilon)
    (m1 : ∀ σ, G ≠ .loop h σ) (m2 : ∀ ρ, h ≠ .loop G ρ)
    (m3 : ∀ x ρ σ, h = .loop x ρ → G ≠ .loop x σ) (m4 : h ≠ G) (m5 : G ≠ sigmaStar) :
    mkConcat h G = .concat h G := by
  have hp := concatPre_none h0 h1 g0 g1 m1 m2 m3 m4
  unfold mkConcat
  split
  · exact absurd rfl (hn _ _)
  · rw [hp]
    simp only [concatBase]
    rw [if_neg]
    simp [m5]

/-- `(R · S) · T → R · (S · T)` when no arm applies to the whole left operand -/
theorem mkConcat_assoc_step {p q R : RE} (g0 : R ≠ .empty) (g1 : R ≠ .epsilon)
    (m1 : ∀ σ, R ≠ .loop (.concat p q) σ) (m4 : RE.concat p q ≠ R) :
    mkConcat (.concat p q) R = mkConcat p (mkConcat q R) := by
  have hp : concatPre (.concat p q) R = none :=
    concatPre_none (fun h => by cases h) (fun h => by cases h) g0 g1 m1
      (fun ρ h => by cases h) (fun x ρ σ h => by cases h) m4
  rw [mkConcat, hp]


theorem mkConcat_eps_right (x : RE) : mkConcat x .epsilon = x := by
  unfold mkConcat concatPre
  cases x <;> rfl

theorem mkConcat_self_concat (p q : RE) :
    mkConcat (.concat p q) (.concat p q) = .loop (.concat p q) (LoopRange.point 2) := by
  rw [mkConcat]
  simp [concatPre]

theorem mkConcat_body_loop (p q : RE) (τ : LoopRange) :
    mkConcat (.concat p q) (.loop (.concat p q) τ) = .loop (.concat p q) (τ.addPointN 1) := by
  rw [mkConcat]
  simp [concatPre]

theorem mkLoop_concat (p q : RE) (τ : LoopRange) :
    mkLoop (.concat p q) τ = .epsilon ∨ mkLoop (.concat p q) τ = .concat p q ∨
      mkLoop (.concat p q) τ = .loop (.concat p q) τ := by
  unfold mkLoop
  split
  · left; rfl
  · split
    · right; left; rfl
    · right; right; rfl

/-- right-nested concatenation of a list of factors in front of `R` -/
def rchain (hs : List RE) (R : RE) : RE := hs.foldr RE.concat R

@[simp] theorem rchain_nil (R : RE) : rchain [] R = R := rfl
@[simp] theorem rchain_cons (h : RE) (hs : List RE) (R : RE) :
    rchain (h :: hs) R = .concat h (rchain hs R) := rfl
theorem rchain_append (hs hs' : List RE) (R : RE) :
    rchain (hs ++ hs') R = rchain hs (rchain hs' R) := by
  simp [rchain, List.foldr_append]

/-- shape of the tails that no letter merges with: a concatenation or a loop over one -/
def InertTail (R : RE) : Prop := (∃ p q, R = .concat p q) ∨ (∃ p q τ, R = .loop (.concat p q) τ)

theorem mkConcat_fam_inert {X : RE} {SX : List RE} (L : Letter ord X SX) {M : Nat} {a : RE}
    (ha : a ∈ xFam X M) (ha0 : a ≠ .empty) (ha1 : a ≠ .epsilon) {R : RE} (hR : InertTail R) :
    mkConcat a R = .concat a R := by
  have hX1 := L.not_concat
  have hX2 := L.not_loop
  rcases mem_xFam.1 ha with h | h | rfl | ⟨ρ, _, rfl⟩
  · exact absurd h ha0
  · exact absurd h ha1
  · -- a = X
    rcases hR with ⟨p, q, rfl⟩ | ⟨p, q, τ, rfl⟩
    · apply mkConcat_plain hX1 ha0 ha1 (fun h => by cases h) (fun h => by cases h)
        (fun σ h => by cases h) (fun ρ h => hX2 _ _ h) (fun x ρ σ h => absurd h (hX2 _ _))
        (fun h => hX1 _ _ h) (fun h => by simp [sigmaStar] at h)
    · apply mkConcat_plain hX1 ha0 ha1 (fun h => by cases h) (fun h => by cases h)
        (fun σ h => by cases h; exact hX1 _ _ rfl) (fun ρ h => hX2 _ _ h)
        (fun x ρ σ h => absurd h (hX2 _ _))
        (fun h => hX2 _ _ h) (fun h => by simp [sigmaStar, sigma] at h)
  · -- a = loop X ρ
    rcases hR with ⟨p, q, rfl⟩ | ⟨p, q, τ, rfl⟩
    · apply mkConcat_plain (fun _ _ h => by cases h) ha0 ha1 (fun h => by cases h)
        (fun h => by cases h) (fun σ h => by cases h)
        (fun ρ' h => by cases h; exact hX1 _ _ rfl)
        (fun x ρ' σ _ h => by cases h) (fun h => by cases h) (fun h => by simp [sigmaStar] at h)
    · apply mkConcat_plain (fun _ _ h => by cases h) ha0 ha1 (fun h => by cases h)
        (fun h => by cases h) (fun σ h => by cases h)
        (fun ρ' h => by cases h; exact hX2 _ _ rfl)
        (fun x ρ' σ h1 h2 => by cases h1; cases h2; exact hX1 _ _ rfl)
        (fun h => by cases h; exact hX1 _ _ rfl) (fun h => by simp [sigmaStar, sigma] at h)


/-- the precise shape of `concat(h, G)` for `h` in the family of a letter -/
theorem mkConcat_head_shape {X : RE} {SX : List RE} (L : Letter ord X SX) {N : Nat} {G : RE}
    (hnest : ∀ y σ, G = .loop y σ → ∀ x ρ, y ≠ .loop x ρ) {h : RE} (hh : h ∈ xFam X N) :
    mkConcat h G = .empty ∨ mkConcat h G = G ∨ mkConcat h G ∈ xFam X (N + loopBound G + 2) ∨
      (mkConcat h G = .concat h G ∧ h ≠ .empty ∧ h ≠ .epsilon) := by
  have inF : ∀ {ρ}, RangeLe ρ (N + loopBound G + 2) →
      RE.loop X ρ ∈ xFam X (N + loopBound G + 2) :=
    fun hρ => mem_xFam.2 (.inr (.inr (.inr ⟨_, hρ, rfl⟩)))
  have inK : h ∈ xFam X (N + loopBound G + 2) := xFam_mono (by omega) hh
  rcases mem_xFam.1 hh with rfl | rfl | rfl | ⟨ρ, hρ, rfl⟩
  · left; exact mkConcat_empty_left G
  · right; left; exact mkConcat_eps_left G
  · rcases mkConcat_nonconcat_cases h G L.not_concat with
      h1 | h1 | h1 | h1 | ⟨σ, hGσ, h1⟩ | ⟨ρ, hh', _⟩ | ⟨x, ρ, σ, hh', _⟩ | ⟨hhG, h1⟩
    · exact .inl h1
    · exact .inr (.inl h1)
    · rw [h1]; exact .inr (.inr (.inl inK))
    · exact .inr (.inr (.inr ⟨h1, L.ne_empty, L.ne_eps⟩))
    · rw [h1]
      refine .inr (.inr (.inl (inF ?_)))
      have := rangeLe_addN (rangeLe_self σ) (LoopRange.point 1)
      subst hGσ
      simp only [loopBound]
      refine RangeLe.mono this ?_
      simp [LoopRange.point, LoopRange.finite]
    · exact absurd hh' (L.not_loop _ _)
    · exact absurd hh' (L.not_loop _ _)
    · rw [h1]
      refine .inr (.inr (.inl (inF ?_)))
      exact ⟨by simp [LoopRange.point, LoopRange.finite],
        fun j hj => by simp [LoopRange.point, LoopRange.finite] at hj; omega⟩
  · by_cases hGl : ∃ σ, G = .loop X σ
    · obtain ⟨σ, rfl⟩ := hGl
      rw [mkConcat_loop_loop]
      refine .inr (.inr (.inl (inF ?_)))
      refine RangeLe.mono (rangeLe_addN hρ σ) ?_
      simp only [loopBound]
      omega
    · rcases mkConcat_nonconcat_cases (.loop X ρ) G (fun _ _ hh => by cases hh) with
        h1 | h1 | h1 | h1 | ⟨σ, hGσ, _⟩ | ⟨ρ', hh', h1⟩ | ⟨x, ρ', σ, hh', hG', _⟩ | ⟨hhG, _⟩
      · exact .inl h1
      · exact .inr (.inl h1)
      · rw [h1]; exact .inr (.inr (.inl inK))
      · exact .inr (.inr (.inr ⟨h1, fun h => (by cases h), fun h => (by cases h)⟩))
      · exact absurd rfl (hnest _ _ hGσ _ _)
      · rw [h1]
        cases hh'
        refine .inr (.inr (.inl (inF ?_)))
        refine RangeLe.mono (rangeLe_addN hρ (LoopRange.point 1)) ?_
        simp [LoopRange.point, LoopRange.finite]
      · cases hh'
        exact absurd ⟨σ, hG'⟩ hGl
      · exact absurd ⟨ρ, hhG.symm⟩ hGl

/-- `RangeLe` after a shift: one less -/
theorem RangeLe.shift_pred {ρ : LoopRange} {N : Nat} (h : RangeLe ρ (N + 1)) :
    RangeLe ρ.shift N := by
  obtain ⟨i, s⟩ := ρ
  obtain ⟨h1, h2⟩ := h
  simp only at h1 h2
  unfold LoopRange.shift
  cases i with
  | zero =>
    cases s with
    | none => exact ⟨Nat.zero_le _, fun j hj => by simp [LoopRange.infinite] at hj⟩
    | some j =>
      cases j with
      | zero => exact ⟨Nat.zero_le _, fun j hj => by simp [LoopRange.point, LoopRange.finite] at hj; omega⟩
      | succ j =>
        refine ⟨Nat.zero_le _, fun j' hj => ?_⟩
        simp [LoopRange.finite] at hj
        have := h2 (j + 1) rfl
        omega
  | succ i =>
    cases s with
    | none => exact ⟨by simp [LoopRange.infinite]; omega, fun j hj => by simp [LoopRange.infinite] at hj⟩
    | some j =>
      refine ⟨by simp [LoopRange.finite]; omega, fun j' hj => ?_⟩
      simp [LoopRange.finite] at hj
      have := h2 j rfl
      omega

theorem rangeLe_addPoint {ρ : LoopRange} {N : Nat} (h : RangeLe ρ N) :
    RangeLe (ρ.addPointN 1) (N + 1) := by
  have := rangeLe_addN h (LoopRange.point 1)
  obtain ⟨i, s⟩ := ρ
  obtain ⟨h1, h2⟩ := h
  simp only at h1 h2
  unfold LoopRange.addPointN LoopRange.addN LoopRange.point LoopRange.finite
  cases s with
  | none => exact ⟨by simp [LoopRange.infinite]; omega, fun j hj => by simp [LoopRange.infinite] at hj⟩
  | some a =>
    have := h2 a rfl
    refine ⟨by simp [LoopRange.finite]; omega, fun j hj => ?_⟩
    simp [LoopRange.finite] at hj
    omega


/-! ### loops over a chain of letters: `(h₁ h₂ … hₙ)^[i,j]`, `n ≥ 2`, `h₁` not nullable -/

/-- the letter of a head -/
def headLetter : RE → RE
  | .loop x _ => x
  | x => x

/-- union components of a `makeUnion` over a list closed under union components -/
theorem flattenUnion_makeUnion_mem (hinj : Function.Injective ord) {B : List RE}
    (hempty : RE.empty ∈ B) (hstar : sigmaStar ∈ B)
    (hU : ∀ x ∈ B, ∀ y ∈ flattenUnion x, y ∈ B) {v : List RE} (hv : ∀ y ∈ v, y ∈ B) :
    ∀ y ∈ flattenUnion (makeUnion ord v), y ∈ B := by
  intro y hy
  rcases makeUnion_cases hinj v with h | h | h | ⟨w, hnd, hsub, h⟩
  · rw [h] at hy; simp [flattenUnion] at hy; subst hy; exact hempty
  · rw [h] at hy; simp [flattenUnion, sigmaStar] at hy; subst hy; exact hstar
  · exact hU _ (hv _ h) y hy
  · rw [h, flattenUnion_union, List.mem_flatMap] at hy
    obtain ⟨z, hz, hyz⟩ := hy
    exact hU z (hv z (hsub z hz)) y hyz

/-- one closed list for the families of all heads of a list -/
theorem exists_closed_families (M : Nat) {hs : List RE}
    (hL : ∀ h ∈ hs, ∃ SX, Letter ord (headLetter h) SX) :
    ∃ S, Closed ord S ∧ ∀ h ∈ hs, ∀ x ∈ xFam (headLetter h) M, x ∈ S := by
  induction hs with
  | nil => exact ⟨baseTerms, closed_base, by simp⟩
  | cons h hs ih =>
    obtain ⟨S, hS, hmem⟩ := ih (fun x hx => hL x (List.mem_cons_of_mem _ hx))
    obtain ⟨SX, L⟩ := hL h (List.mem_cons_self ..)
    refine ⟨(SX ++ xFam (headLetter h) M) ++ S, (closed_xFam L M).append hS, ?_⟩
    intro h' hh' x hx
    rcases List.mem_cons.1 hh' with rfl | hh'
    · exact List.mem_append_left _ (List.mem_append_right _ hx)
    · exact List.mem_append_right _ (hmem h' hh' x hx)

theorem sizeOf_rchain_lt (h : RE) (hs : List RE) (R : RE) :
    sizeOf (rchain hs R) < sizeOf (rchain (h :: hs) R) := by
  simp only [rchain_cons, RE.concat.sizeOf_spec]
  omega

/-- splicing a proper suffix chain of `Y` in front of `Y` or a loop over `Y`: plain re-association -/
theorem mkConcat_splice {Y : RE} {M : Nat} {last : RE} {R : RE}
    (hR : R = Y ∨ ∃ τ, R = .loop Y τ) (hYc : ∃ p q, Y = .concat p q) :
    ∀ (post : List RE),
      (∀ h ∈ post ++ [last], (∃ SX, Letter ord (headLetter h) SX) ∧
        h ∈ xFam (headLetter h) M ∧ h ≠ .empty ∧ h ≠ .epsilon) →
      sizeOf (rchain post last) < sizeOf Y →
      mkConcat (rchain post last) R = rchain (post ++ [last]) R := by
  have hRi : InertTail R := by
    obtain ⟨p, q, rfl⟩ := hYc
    rcases hR with rfl | ⟨τ, rfl⟩
    · exact .inl ⟨p, q, rfl⟩
    · exact .inr ⟨p, q, τ, rfl⟩
  have hR0 : R ≠ .empty := by
    obtain ⟨p, q, rfl⟩ := hYc
    rcases hR with rfl | ⟨τ, rfl⟩ <;> exact fun h => by cases h
  have hR1 : R ≠ .epsilon := by
    obtain ⟨p, q, rfl⟩ := hYc
    rcases hR with rfl | ⟨τ, rfl⟩ <;> exact fun h => by cases h
  intro post
  induction post with
  | nil =>
    intro hh _
    obtain ⟨⟨SX, L⟩, hm, h0, h1⟩ := hh last (by simp)
    simpa using mkConcat_fam_inert L hm h0 h1 hRi
  | cons h' post' ih =>
    intro hh hsz
    obtain ⟨⟨SX, L⟩, hm, h0, h1⟩ := hh h' (by simp)
    have hsz' : sizeOf (rchain post' last) < sizeOf Y :=
      Nat.lt_trans (sizeOf_rchain_lt h' post' last) hsz
    rw [rchain_cons, mkConcat_assoc_step hR0 hR1]
    · rw [ih (fun h hx => hh h (by simp at hx ⊢; exact .inr hx)) hsz']
      have : InertTail (rchain (post' ++ [last]) R) := by
        cases post' with
        | nil => exact .inl ⟨_, _, rfl⟩
        | cons x xs => exact .inl ⟨_, _, rfl⟩
      simpa using mkConcat_fam_inert L hm h0 h1 this
    · intro σ hσ
      rcases hR with rfl | ⟨τ, rfl⟩
      · obtain ⟨p, q, rfl⟩ := hYc; cases hσ
      · cases hσ
        simp only [rchain_cons] at hsz
        exact absurd hsz (Nat.lt_irrefl _)
    · intro hσ
      rcases hR with rfl | ⟨τ, rfl⟩
      · simp only [rchain_cons] at hsz
        rw [hσ] at hsz
        exact absurd hsz (Nat.lt_irrefl _)
      · cases hσ


theorem le_sum_of_mem {l : List Nat} {x : Nat} (h : x ∈ l) : x ≤ l.sum := by
  induction l with
  | nil => cases h
  | cons a l ih =>
    rcases List.mem_cons.1 h with rfl | h
    · simp
    · have := ih h; simp; omega

/-- **loops over a chain of heads**: `(h₁ · (… · hₙ))^ρ` with `n ≥ 2`, every `hᵢ` a letter or a
    loop over a letter, `h₁` not nullable -/
theorem fin_loop_chain (hinj : Function.Injective ord) {h1 : RE} {mid : List RE} {last : RE}
    (hL : ∀ h ∈ h1 :: (mid ++ [last]), ∃ SX, Letter ord (headLetter h) SX)
    (hin : ∀ h ∈ h1 :: (mid ++ [last]),
      h ∈ xFam (headLetter h) (loopBound h) ∧ h ≠ .empty ∧ h ≠ .epsilon)
    (hnest : ∀ y σ, last = .loop y σ → ∀ x ρ, y ≠ .loop x ρ)
    (hnn : h1.nullable = false)
    (hY : Fin ord (rchain (h1 :: mid) last)) (ρ : LoopRange) :
    Fin ord (.loop (rchain (h1 :: mid) last) ρ) := by
  -- notation
  generalize hfull : h1 :: (mid ++ [last]) = full at hL hin
  generalize hM : (full.map loopBound).sum + 2 = M
  have hYdef : rchain (h1 :: mid) last = .concat h1 (rchain mid last) := rfl
  generalize hY2 : rchain mid last = Y2 at hYdef
  generalize hYY : rchain (h1 :: mid) last = Y at hY hYdef ⊢
  have hYc : ∃ p q, Y = .concat p q := ⟨_, _, hYdef⟩
  have hfull_tail : rchain (mid ++ [last]) = fun R => rchain mid (rchain [last] R) := by
    funext R; exact rchain_append _ _ _
  -- heads are members of their families with the uniform bound `M`
  have hinM : ∀ h ∈ full, (∃ SX, Letter ord (headLetter h) SX) ∧
      h ∈ xFam (headLetter h) M ∧ h ≠ .empty ∧ h ≠ .epsilon := by
    intro h hh
    obtain ⟨h1', h2', h3'⟩ := hin h hh
    refine ⟨hL h hh, xFam_mono ?_ h1', h2', h3'⟩
    have := le_sum_of_mem (List.mem_map_of_mem (f := loopBound) hh)
    omega
  -- the closed list: the one of `Y` and the families of all heads
  obtain ⟨S0, hYS0, hS0⟩ := hY
  obtain ⟨S1, hS1, hfam1⟩ := exists_closed_families (ord := ord) M hL
  have hS : Closed ord (S0 ++ S1) := hS0.append hS1
  have hYS : Y ∈ S0 ++ S1 := List.mem_append_left _ hYS0
  have hfam : ∀ h ∈ full, ∀ x ∈ xFam (headLetter h) M, x ∈ S0 ++ S1 :=
    fun h hh x hx => List.mem_append_right _ (hfam1 h hh x hx)
  generalize S0 ++ S1 = S at hS hYS hfam
  clear hS0 hYS0 hS1 hfam1 S0 S1
  -- the lists
  let NL := ρ.start + ρ.stop.getD 0 + 2
  let F := full.flatMap (fun h => xFam (headLetter h) M)
  let Rs := Y :: xLoops Y NL
  let Cs := F.flatMap fun a => full.tails.flatMap fun post =>
    Rs.map fun R => RE.concat a (rchain post R)
  let B := S ++ xLoops Y NL ++ Cs
  have hF : ∀ a, a ∈ F ↔ ∃ h ∈ full, a ∈ xFam (headLetter h) M := by
    intro a; simp only [F, List.mem_flatMap]
  have hRs : ∀ R, R ∈ Rs ↔ R = Y ∨ ∃ τ, RangeLe τ NL ∧ R = .loop Y τ := by
    intro R; simp only [Rs, List.mem_cons, mem_xLoops]
  have hCs : ∀ x, x ∈ Cs ↔ ∃ a ∈ F, ∃ post, post <:+ full ∧ ∃ R ∈ Rs,
      x = .concat a (rchain post R) := by
    intro x
    simp only [Cs, List.mem_flatMap, List.mem_map, List.mem_tails]
    constructor
    · rintro ⟨a, ha, post, hp, R, hR, rfl⟩; exact ⟨a, ha, post, hp, R, hR, rfl⟩
    · rintro ⟨a, ha, post, hp, R, hR, rfl⟩; exact ⟨a, ha, post, hp, R, hR, rfl⟩
  have hB : ∀ x, x ∈ B ↔ x ∈ S ∨ (∃ τ, RangeLe τ NL ∧ x = .loop Y τ) ∨ x ∈ Cs := by
    intro x; simp only [B, List.mem_append, mem_xLoops, or_assoc]
  have inS : ∀ {x}, x ∈ S → x ∈ B := fun h => (hB _).2 (.inl h)
  -- members of `F`
  have hFS : ∀ a ∈ F, a ∈ S := by
    intro a ha
    obtain ⟨h, hh, hx⟩ := (hF a).1 ha
    exact hfam h hh a hx
  have hFd : ∀ a ∈ F, ∀ c, computeDeriv ord a c ∈ F := by
    intro a ha c
    obtain ⟨h, hh, hx⟩ := (hF a).1 ha
    obtain ⟨SX, L⟩ := (hinM h hh).1
    exact (hF _).2 ⟨h, hh, xFam_deriv L hx c⟩
  have hFi : ∀ a ∈ F, a ≠ .empty → a ≠ .epsilon → ∀ R, InertTail R →
      mkConcat a R = .concat a R := by
    intro a ha h0 h1 R hR
    obtain ⟨h, hh, hx⟩ := (hF a).1 ha
    obtain ⟨SX, L⟩ := (hinM h hh).1
    exact mkConcat_fam_inert L hx h0 h1 hR
  have hheadF : ∀ h ∈ full, h ∈ F := fun h hh => (hF h).2 ⟨h, hh, (hinM h hh).2.1⟩
  -- tails
  have hRinert : ∀ R ∈ Rs, InertTail R := by
    intro R hR
    obtain ⟨p, q, rfl⟩ := hYc
    rcases (hRs R).1 hR with rfl | ⟨τ, _, rfl⟩
    · exact .inl ⟨p, q, rfl⟩
    · exact .inr ⟨p, q, τ, rfl⟩
  have hRB : ∀ R ∈ Rs, R ∈ B := by
    intro R hR
    rcases (hRs R).1 hR with rfl | ⟨τ, hτ, rfl⟩
    · exact inS hYS
    · exact (hB _).2 (.inr (.inl ⟨τ, hτ, rfl⟩))
  have hrestInert : ∀ post, ∀ R ∈ Rs, InertTail (rchain post R) := by
    intro post R hR
    cases post with
    | nil => exact hRinert R hR
    | cons x xs => exact .inl ⟨_, _, rfl⟩
  have hrestB : ∀ post, post <:+ full → ∀ R ∈ Rs, rchain post R ∈ B := by
    intro post hp R hR
    cases post with
    | nil => exact hRB R hR
    | cons x xs =>
      refine (hB _).2 (.inr (.inr ((hCs _).2 ⟨x, hheadF x ?_, xs, ?_, R, hR, rfl⟩)))
      · exact hp.subset (List.mem_cons_self ..)
      · exact (List.suffix_cons x xs).trans hp
  -- closure of `B` under components
  have hU : ∀ x ∈ B, ∀ y ∈ flattenUnion x, y ∈ B := by
    intro x hx y hy
    rcases (hB x).1 hx with h | ⟨τ, _, rfl⟩ | h
    · exact inS (hS.unionComps x h y hy)
    · simp only [flattenUnion, List.mem_singleton] at hy; subst hy; exact hx
    · obtain ⟨a, _, post, _, R, _, rfl⟩ := (hCs x).1 h
      simp only [flattenUnion, List.mem_singleton] at hy; subst hy; exact hx
  have hI : ∀ x ∈ B, ∀ y ∈ flattenInter x, y ∈ B := by
    intro x hx y hy
    rcases (hB x).1 hx with h | ⟨τ, _, rfl⟩ | h
    · exact inS (hS.interComps x h y hy)
    · simp only [flattenInter, List.mem_singleton] at hy; subst hy; exact hx
    · obtain ⟨a, _, post, _, R, _, rfl⟩ := (hCs x).1 h
      simp only [flattenInter, List.mem_singleton] at hy; subst hy; exact hx
  -- weak closure
  let WC : RE → Prop := fun x => ∀ c, computeDeriv ord x c ∈ B ∨
    ∃ v, (∀ y ∈ v, y ∈ B) ∧ computeDeriv ord x c = makeUnion ord v
  have hcomps : ∀ x, WC x → ∀ c, ∀ y ∈ flattenUnion (computeDeriv ord x c), y ∈ B := by
    intro x hx c y hy
    rcases hx c with h | ⟨v, hv, h⟩
    · exact hU _ h y hy
    · rw [h] at hy
      exact flattenUnion_makeUnion_mem hinj (inS hS.empty_mem) (inS hS.sigmaStar_mem) hU hv y hy
  -- a chain element, given weak closure of its tail
  have wc_chain : ∀ a ∈ F, ∀ post, post <:+ full → ∀ R ∈ Rs, WC (rchain post R) →
      WC (.concat a (rchain post R)) := by
    intro a ha post hp R hR hrest c
    have hda := hFd a ha (classRep a.derivClass c)
    have hd1 : mkConcat (computeDeriv ord a (classRep a.derivClass c)) (rchain post R) ∈ B := by
      generalize computeDeriv ord a (classRep a.derivClass c) = da at hda
      by_cases h0 : da = .empty
      · subst h0; rw [mkConcat_empty_left]; exact inS hS.empty_mem
      · by_cases h1 : da = .epsilon
        · subst h1; rw [mkConcat_eps_left]; exact hrestB post hp R hR
        · rw [hFi da hda h0 h1 _ (hrestInert post R hR)]
          exact (hB _).2 (.inr (.inr ((hCs _).2 ⟨da, hda, post, hp, R, hR, rfl⟩)))
    rw [cd_concat]
    split
    · right
      refine ⟨_, ?_, rfl⟩
      intro y hy
      rcases List.mem_append.1 hy with hy | hy
      · exact hU _ hd1 y hy
      · exact hcomps _ hrest _ y hy
    · left; exact hd1
  -- the derivative of the body
  have hh1 := hin h1 (by rw [← hfull]; exact List.mem_cons_self ..)
  obtain ⟨SX1, L1⟩ := hL h1 (by rw [← hfull]; exact List.mem_cons_self ..)
  have hh1F : h1 ∈ full := by rw [← hfull]; exact List.mem_cons_self ..
  have hsuf : (mid ++ [last]) <:+ full := by rw [← hfull]; exact List.suffix_cons _ _
  have hdY : ∀ c, computeDeriv ord Y c = .empty ∨ computeDeriv ord Y c = Y2 ∨
      computeDeriv ord Y c ∈ F ∨
      ∃ a ∈ F, a ≠ .empty ∧ a ≠ .epsilon ∧ computeDeriv ord Y c = .concat a Y2 := by
    intro c
    rw [hYdef, cd_concat, hnn]
    simp only [Bool.false_eq_true, if_false]
    have hd := xFam_deriv L1 hh1.1 (classRep h1.derivClass c)
    generalize computeDeriv ord h1 (classRep h1.derivClass c) = dh at hd
    have hdF : dh ∈ F := by
      refine (hF _).2 ⟨h1, hh1F, xFam_mono ?_ hd⟩
      have := le_sum_of_mem (List.mem_map_of_mem (f := loopBound) hh1F)
      omega
    cases mid with
    | nil =>
      simp only [rchain_nil] at hY2
      subst hY2
      rcases mkConcat_head_shape L1 hnest hd with h | h | h | ⟨h, h0, h1'⟩
      · exact .inl h
      · exact .inr (.inl h)
      · refine .inr (.inr (.inl ((hF _).2 ⟨h1, hh1F, xFam_mono ?_ h⟩)))
        rw [← hM, ← hfull]
        simp
      · exact .inr (.inr (.inr ⟨dh, hdF, h0, h1', h⟩))
    | cons m ms =>
      have hi : InertTail Y2 := by rw [← hY2]; exact .inl ⟨_, _, rfl⟩
      by_cases h0 : dh = .empty
      · subst h0; left; exact mkConcat_empty_left _
      · by_cases h1' : dh = .epsilon
        · subst h1'; right; left; exact mkConcat_eps_left _
        · exact .inr (.inr (.inr ⟨dh, hdF, h0, h1', hFi dh hdF h0 h1' _ hi⟩))
  have hszY2 : sizeOf (rchain mid last) < sizeOf Y := by
    rw [hY2, hYdef]; simp; omega
  have hheads_tail : ∀ h ∈ mid ++ [last], (∃ SX, Letter ord (headLetter h) SX) ∧
      h ∈ xFam (headLetter h) M ∧ h ≠ .empty ∧ h ≠ .epsilon :=
    fun h hh => hinM h (hsuf.subset hh)
  -- a loop over the body
  have wc_loop : ∀ τ, RangeLe τ NL → WC (.loop Y τ) := by
    intro τ hτ c
    left
    rw [cd_loop]
    have hdYS : computeDeriv ord Y (classRep Y.derivClass c) ∈ S := hS.deriv Y hYS _
    have hsh := hdY (classRep Y.derivClass c)
    generalize computeDeriv ord Y (classRep Y.derivClass c) = dY at hdYS hsh
    -- the tail
    have hτ' : RangeLe τ.shift (ρ.start + ρ.stop.getD 0 + 1) := RangeLe.shift_pred hτ
    have hL' : mkLoop Y τ.shift = .epsilon ∨ ∃ R, mkLoop Y τ.shift = R ∧ R ∈ Rs ∧
        (R = Y ∨ ∃ τ', RangeLe τ' (ρ.start + ρ.stop.getD 0 + 1) ∧ R = .loop Y τ') := by
      have := mkLoop_concat h1 Y2 τ.shift
      rw [← hYdef] at this
      rcases this with h | h | h
      · exact .inl h
      · exact .inr ⟨Y, h, (hRs _).2 (.inl rfl), .inl rfl⟩
      · exact .inr ⟨_, h, (hRs _).2 (.inr ⟨_, hτ'.mono (by omega), rfl⟩), .inr ⟨_, hτ', rfl⟩⟩
    rcases hL' with h | ⟨R, hR, hRs', hRform⟩
    · rw [h, mkConcat_eps_right]; exact inS hdYS
    · rw [hR]
      have hRi := hRinert R hRs'
      have hR0 : R ≠ .empty := by
        rcases hRi with ⟨p, q, rfl⟩ | ⟨p, q, t, rfl⟩ <;> exact fun h => by cases h
      have hR1 : R ≠ .epsilon := by
        rcases hRi with ⟨p, q, rfl⟩ | ⟨p, q, t, rfl⟩ <;> exact fun h => by cases h
      have hsplice : mkConcat Y2 R = rchain (mid ++ [last]) R := by
        rw [← hY2]
        exact mkConcat_splice (M := M)
          (hRform.imp id (fun ⟨t, _, h⟩ => ⟨t, h⟩)) hYc mid hheads_tail hszY2
      rcases hsh with h | h | h | ⟨a, haF, ha0, ha1, h⟩
      · rw [h, mkConcat_empty_left]; exact inS hS.empty_mem
      · rw [h, hsplice]; exact hrestB _ hsuf R hRs'
      · by_cases h0 : dY = .empty
        · subst h0; rw [mkConcat_empty_left]; exact inS hS.empty_mem
        · by_cases h1' : dY = .epsilon
          · subst h1'; rw [mkConcat_eps_left]; exact hRB R hRs'
          · rw [hFi dY h h0 h1' R hRi]
            exact (hB _).2 (.inr (.inr ((hCs _).2
              ⟨dY, h, [], List.nil_suffix, R, hRs', rfl⟩)))
      · rw [h]
        by_cases hah : a = h1
        · subst hah
          rw [← hYdef]
          rcases hRform with rfl | ⟨τ', hτ'', rfl⟩
          · obtain ⟨p, q, rfl⟩ := hYc
            rw [mkConcat_self_concat]
            refine (hB _).2 (.inr (.inl ⟨_, ?_, rfl⟩))
            exact ⟨by simp [LoopRange.point, LoopRange.finite, NL],
              fun j hj => by simp [LoopRange.point, LoopRange.finite] at hj; omega⟩
          · obtain ⟨p, q, rfl⟩ := hYc
            rw [mkConcat_body_loop]
            exact (hB _).2 (.inr (.inl ⟨_, rangeLe_addPoint hτ'', rfl⟩))
        · rw [mkConcat_assoc_step hR0 hR1, hsplice]
          · have hi : InertTail (rchain (mid ++ [last]) R) := by
              cases mid with
              | nil => exact .inl ⟨_, _, rfl⟩
              | cons x xs => exact .inl ⟨_, _, rfl⟩
            rw [hFi a haF ha0 ha1 _ hi]
            exact (hB _).2 (.inr (.inr ((hCs _).2 ⟨a, haF, _, hsuf, R, hRs', rfl⟩)))
          · intro σ hσ
            rcases hRform with rfl | ⟨τ', _, rfl⟩
            · rw [hYdef] at hσ; cases hσ
            · cases hσ
              exact hah (RE.concat.inj hYdef).1
          · intro hσ
            rcases hRform with rfl | ⟨τ', _, rfl⟩
            · rw [hYdef] at hσ
              exact hah (RE.concat.inj hσ).1
            · cases hσ
  -- every tail chain
  have wc_rest : ∀ post, post <:+ full → ∀ R ∈ Rs, WC (rchain post R) := by
    intro post
    induction post with
    | nil =>
      intro _ R hR
      rcases (hRs R).1 hR with rfl | ⟨τ, hτ, rfl⟩
      · intro c; left; exact inS (hS.deriv _ hYS c)
      · exact wc_loop τ hτ
    | cons x xs ih =>
      intro hp R hR
      have hp' : xs <:+ full := (List.suffix_cons x xs).trans hp
      exact wc_chain x (hheadF x (hp.subset (List.mem_cons_self ..))) xs hp' R hR (ih hp' R hR)
  -- assemble
  refine ⟨B ++ (nodupLists B).map RE.union, List.mem_append_left _ ((hB _).2 (.inr (.inl
    ⟨ρ, (rangeLe_self ρ).mono (by omega), rfl⟩))), ?_⟩
  apply Closed.saturate hinj
  · intro x hx; exact inS (hS.base x hx)
  · intro x hx
    rcases (hB x).1 hx with h | ⟨τ, hτ, rfl⟩ | h
    · intro c; left; exact inS (hS.deriv x h c)
    · exact wc_loop τ hτ
    · obtain ⟨a, ha, post, hp, R, hR, rfl⟩ := (hCs x).1 h
      exact wc_chain a ha post hp R hR (wc_rest post hp R hR)
  · exact hU
  · exact hI
  · intro z hz
    rcases (hB _).1 hz with h | ⟨τ, _, h⟩ | h
    · exact inS (hS.complBody z h)
    · cases h
    · obtain ⟨a, _, post, _, R, _, h⟩ := (hCs _).1 h
      cases h


/-- re-association of a chain in front of a tail `T`: `(q₁·(…·(qₖ·R₀)))·T = q₁·(…·(qₖ·(R₀·T)))`
    when no rewriting arm of `concat` applies on the way -/
theorem mkConcat_chain_tail {T : RE} (hT0 : T ≠ .empty) (hT1 : T ≠ .epsilon) (P I : RE → Prop)
    (hPi : ∀ q, P q → ∀ R, I R → mkConcat q R = .concat q R)
    (hIc : ∀ q R, I (.concat q R))
    (hPT : ∀ q, P q → ∀ r, (∀ σ, T ≠ .loop (.concat q r) σ) ∧ RE.concat q r ≠ T) :
    ∀ qs : List RE, (∀ q ∈ qs, P q) → ∀ R0 W, mkConcat R0 T = W → I W →
      mkConcat (rchain qs R0) T = rchain qs W := by
  intro qs
  induction qs with
  | nil => intro _ R0 W h _; simpa using h
  | cons q qs' ih =>
    intro hq R0 W h hW
    have hPq := hq q (List.mem_cons_self ..)
    rw [rchain_cons, mkConcat_assoc_step hT0 hT1 (hPT q hPq _).1 (hPT q hPq _).2,
      ih (fun x hx => hq x (List.mem_cons_of_mem _ hx)) R0 W h hW]
    have : I (rchain qs' W) := by
      cases qs' with
      | nil => exact hW
      | cons x xs => exact hIc _ _
    rw [rchain_cons]
    exact hPi q hPq _ this

/-- **a loop over a chain of heads followed by a tail**: `(h₁ · (… · hₙ))^ρ · T`, where `T` is a
    concatenation or a loop over a concatenation whose first factor is not a member of the
    families of the heads (so that no rewriting arm of `concat` fires against `T`) -/
theorem fin_loop_chain_tail (hinj : Function.Injective ord) {h1 : RE} {mid : List RE} {last : RE}
    (hL : ∀ h ∈ h1 :: (mid ++ [last]), ∃ SX, Letter ord (headLetter h) SX)
    (hin : ∀ h ∈ h1 :: (mid ++ [last]),
      h ∈ xFam (headLetter h) (loopBound h) ∧ h ≠ .empty ∧ h ≠ .epsilon)
    (hnest : ∀ y σ, last = .loop y σ → ∀ x ρ, y ≠ .loop x ρ)
    (hnn : h1.nullable = false)
    (hY : Fin ord (rchain (h1 :: mid) last)) {T : RE} (hT : Fin ord T)
    (hT0 : T ≠ .empty) (hT1 : T ≠ .epsilon)
    (hTin : ∀ h ∈ h1 :: (mid ++ [last]),
      mkConcat (headLetter h) T = .concat (headLetter h) T ∧
      ∀ ρ', mkConcat (.loop (headLetter h) ρ') T = .concat (.loop (headLetter h) ρ') T)
    (hTL : ∀ τ, mkConcat (.loop (rchain (h1 :: mid) last) τ) T =
      .concat (.loop (rchain (h1 :: mid) last) τ) T)
    (hTF : ∀ h ∈ h1 :: (mid ++ [last]), ∀ r,
      ((∀ σ, T ≠ .loop (.concat (headLetter h) r) σ) ∧ RE.concat (headLetter h) r ≠ T) ∧
      ∀ ρ', (∀ σ, T ≠ .loop (.concat (.loop (headLetter h) ρ') r) σ) ∧
        RE.concat (.loop (headLetter h) ρ') r ≠ T)
    (ρ : LoopRange) :
    Fin ord (.concat (.loop (rchain (h1 :: mid) last) ρ) T) := by
  -- notation
  generalize hps : mid ++ [last] = ps at hL hin hTF hTin
  have hpsne : ∃ m ms, ps = m :: ms := by
    rw [← hps]; cases mid with
    | nil => exact ⟨_, _, rfl⟩
    | cons x xs => exact ⟨_, _, rfl⟩
  generalize hfull : h1 :: ps = full at hL hin hTF hTin
  generalize hM : (full.map loopBound).sum + 2 = M
  have hYdef : rchain (h1 :: mid) last = .concat h1 (rchain mid last) := rfl
  generalize hY2 : rchain mid last = Y2 at hYdef
  generalize hYY : rchain (h1 :: mid) last = Y at hY hYdef hTL ⊢
  have hYc : ∃ p q, Y = .concat p q := ⟨_, _, hYdef⟩
  have hinM : ∀ h ∈ full, (∃ SX, Letter ord (headLetter h) SX) ∧
      h ∈ xFam (headLetter h) M ∧ h ≠ .empty ∧ h ≠ .epsilon := by
    intro h hh
    obtain ⟨h1', h2', h3'⟩ := hin h hh
    refine ⟨hL h hh, xFam_mono ?_ h1', h2', h3'⟩
    have := le_sum_of_mem (List.mem_map_of_mem (f := loopBound) hh)
    omega
  -- the closed list: the ones of `Y` and `T` and the families of all heads
  obtain ⟨S0, hYS0, hS0⟩ := hY
  obtain ⟨ST, hTST, hST⟩ := hT
  obtain ⟨S1, hS1, hfam1⟩ := exists_closed_families (ord := ord) M hL
  have hS : Closed ord (S0 ++ (ST ++ S1)) := hS0.append (hST.append hS1)
  have hYS : Y ∈ S0 ++ (ST ++ S1) := List.mem_append_left _ hYS0
  have hTS : T ∈ S0 ++ (ST ++ S1) := List.mem_append_right _ (List.mem_append_left _ hTST)
  have hfam : ∀ h ∈ full, ∀ x ∈ xFam (headLetter h) M, x ∈ S0 ++ (ST ++ S1) :=
    fun h hh x hx => List.mem_append_right _ (List.mem_append_right _ (hfam1 h hh x hx))
  generalize S0 ++ (ST ++ S1) = S at hS hYS hTS hfam
  clear hS0 hYS0 hS1 hfam1 hST hTST S0 S1 ST
  -- the lists
  let NL := ρ.start + ρ.stop.getD 0 + 2
  let F := full.flatMap (fun h => xFam (headLetter h) M)
  let LT := (xLoops Y NL).map (fun L => RE.concat L T)
  let Rs := T :: LT
  let Cs := F.flatMap fun a => (full ++ full).tails.flatMap fun post =>
    Rs.map fun R => RE.concat a (rchain post R)
  let B := S ++ LT ++ Cs
  have hF : ∀ a, a ∈ F ↔ ∃ h ∈ full, a ∈ xFam (headLetter h) M := by
    intro a; simp only [F, List.mem_flatMap]
  have hLT : ∀ x, x ∈ LT ↔ ∃ τ, RangeLe τ NL ∧ x = .concat (.loop Y τ) T := by
    intro x
    simp only [LT, List.mem_map, mem_xLoops]
    constructor
    · rintro ⟨L, ⟨τ, hτ, rfl⟩, rfl⟩; exact ⟨τ, hτ, rfl⟩
    · rintro ⟨τ, hτ, rfl⟩; exact ⟨_, ⟨τ, hτ, rfl⟩, rfl⟩
  have hRs : ∀ R, R ∈ Rs ↔ R = T ∨ ∃ τ, RangeLe τ NL ∧ R = .concat (.loop Y τ) T := by
    intro R; simp only [Rs, List.mem_cons, hLT]
  have hCs : ∀ x, x ∈ Cs ↔ ∃ a ∈ F, ∃ post, post <:+ full ++ full ∧ ∃ R ∈ Rs,
      x = .concat a (rchain post R) := by
    intro x
    simp only [Cs, List.mem_flatMap, List.mem_map, List.mem_tails]
    constructor
    · rintro ⟨a, ha, post, hp, R, hR, rfl⟩; exact ⟨a, ha, post, hp, R, hR, rfl⟩
    · rintro ⟨a, ha, post, hp, R, hR, rfl⟩; exact ⟨a, ha, post, hp, R, hR, rfl⟩
  have hB : ∀ x, x ∈ B ↔ x ∈ S ∨ (∃ τ, RangeLe τ NL ∧ x = .concat (.loop Y τ) T) ∨ x ∈ Cs := by
    intro x; simp only [B, List.mem_append, hLT, or_assoc]
  have inS : ∀ {x}, x ∈ S → x ∈ B := fun h => (hB _).2 (.inl h)
  -- members of `F`
  have hFd : ∀ a ∈ F, ∀ c, computeDeriv ord a c ∈ F := by
    intro a ha c
    obtain ⟨h, hh, hx⟩ := (hF a).1 ha
    obtain ⟨SX, L⟩ := (hinM h hh).1
    exact (hF _).2 ⟨h, hh, xFam_deriv L hx c⟩
  have hFi : ∀ a ∈ F, a ≠ .empty → a ≠ .epsilon → ∀ R, InertTail R →
      mkConcat a R = .concat a R := by
    intro a ha h0 h1 R hR
    obtain ⟨h, hh, hx⟩ := (hF a).1 ha
    obtain ⟨SX, L⟩ := (hinM h hh).1
    exact mkConcat_fam_inert L hx h0 h1 hR
  have hFT : ∀ a ∈ F, a ≠ .empty → a ≠ .epsilon → ∀ r,
      (∀ σ, T ≠ .loop (.concat a r) σ) ∧ RE.concat a r ≠ T := by
    intro a ha h0 h1 r
    obtain ⟨h, hh, hx⟩ := (hF a).1 ha
    rcases mem_xFam.1 hx with e | e | rfl | ⟨ρ', _, rfl⟩
    · exact absurd e h0
    · exact absurd e h1
    · exact (hTF h hh r).1
    · exact (hTF h hh r).2 ρ'
  have hheadF : ∀ h ∈ full, h ∈ F := fun h hh => (hF h).2 ⟨h, hh, (hinM h hh).2.1⟩
  have hheadP : ∀ h ∈ full, h ∈ F ∧ h ≠ .empty ∧ h ≠ .epsilon :=
    fun h hh => ⟨hheadF h hh, (hinM h hh).2.2⟩
  -- tails that no member of `F` merges with
  let IT : RE → Prop := fun R => ∀ a ∈ F, a ≠ .empty → a ≠ .epsilon → mkConcat a R = .concat a R
  have hITi : ∀ R, InertTail R → IT R := fun R hR a ha h0 h1 => hFi a ha h0 h1 R hR
  have hITT : IT T := by
    intro a ha h0 h1
    obtain ⟨h, hh, hx⟩ := (hF a).1 ha
    rcases mem_xFam.1 hx with e | e | rfl | ⟨ρ', _, rfl⟩
    · exact absurd e h0
    · exact absurd e h1
    · exact (hTin h hh).1
    · exact (hTin h hh).2 ρ'
  have key1 := mkConcat_chain_tail hT0 hT1 (fun q => q ∈ F ∧ q ≠ .empty ∧ q ≠ .epsilon) IT
    (fun q hq R hR => hR q hq.1 hq.2.1 hq.2.2)
    (fun q R => hITi _ (.inl ⟨q, R, rfl⟩))
    (fun q hq r => hFT q hq.1 hq.2.1 hq.2.2 r)
  -- tails
  have hRinert : ∀ R ∈ Rs, IT R := by
    intro R hR
    rcases (hRs R).1 hR with rfl | ⟨τ, _, rfl⟩
    · exact hITT
    · exact hITi _ (.inl ⟨_, _, rfl⟩)
  have hRB : ∀ R ∈ Rs, R ∈ B := by
    intro R hR
    rcases (hRs R).1 hR with rfl | ⟨τ, hτ, rfl⟩
    · exact inS hTS
    · exact (hB _).2 (.inr (.inl ⟨τ, hτ, rfl⟩))
  have hrestInert : ∀ post, ∀ R ∈ Rs, IT (rchain post R) := by
    intro post R hR
    cases post with
    | nil => exact hRinert R hR
    | cons x xs => exact hITi _ (.inl ⟨_, _, rfl⟩)
  have hmemff : ∀ x ∈ full ++ full, x ∈ full := by
    intro x hx; rcases List.mem_append.1 hx with h | h <;> exact h
  have hrestB : ∀ post, post <:+ full ++ full → ∀ R ∈ Rs, rchain post R ∈ B := by
    intro post hp R hR
    cases post with
    | nil => exact hRB R hR
    | cons x xs =>
      refine (hB _).2 (.inr (.inr ((hCs _).2 ⟨x, hheadF x ?_, xs, ?_, R, hR, rfl⟩)))
      · exact hmemff x (hp.subset (List.mem_cons_self ..))
      · exact (List.suffix_cons x xs).trans hp
  -- closure of `B` under components
  have hU : ∀ x ∈ B, ∀ y ∈ flattenUnion x, y ∈ B := by
    intro x hx y hy
    rcases (hB x).1 hx with h | ⟨τ, _, rfl⟩ | h
    · exact inS (hS.unionComps x h y hy)
    · simp only [flattenUnion, List.mem_singleton] at hy; subst hy; exact hx
    · obtain ⟨a, _, post, _, R, _, rfl⟩ := (hCs x).1 h
      simp only [flattenUnion, List.mem_singleton] at hy; subst hy; exact hx
  have hI : ∀ x ∈ B, ∀ y ∈ flattenInter x, y ∈ B := by
    intro x hx y hy
    rcases (hB x).1 hx with h | ⟨τ, _, rfl⟩ | h
    · exact inS (hS.interComps x h y hy)
    · simp only [flattenInter, List.mem_singleton] at hy; subst hy; exact hx
    · obtain ⟨a, _, post, _, R, _, rfl⟩ := (hCs x).1 h
      simp only [flattenInter, List.mem_singleton] at hy; subst hy; exact hx
  -- weak closure
  let WC : RE → Prop := fun x => ∀ c, computeDeriv ord x c ∈ B ∨
    ∃ v, (∀ y ∈ v, y ∈ B) ∧ computeDeriv ord x c = makeUnion ord v
  have hcomps : ∀ x, WC x → ∀ c, ∀ y ∈ flattenUnion (computeDeriv ord x c), y ∈ B := by
    intro x hx c y hy
    rcases hx c with h | ⟨v, hv, h⟩
    · exact hU _ h y hy
    · rw [h] at hy
      exact flattenUnion_makeUnion_mem hinj (inS hS.empty_mem) (inS hS.sigmaStar_mem) hU hv y hy
  have wc_chain : ∀ a ∈ F, ∀ post, post <:+ full ++ full → ∀ R ∈ Rs, WC (rchain post R) →
      WC (.concat a (rchain post R)) := by
    intro a ha post hp R hR hrest c
    have hda := hFd a ha (classRep a.derivClass c)
    have hd1 : mkConcat (computeDeriv ord a (classRep a.derivClass c)) (rchain post R) ∈ B := by
      generalize computeDeriv ord a (classRep a.derivClass c) = da at hda
      by_cases h0 : da = .empty
      · subst h0; rw [mkConcat_empty_left]; exact inS hS.empty_mem
      · by_cases h1 : da = .epsilon
        · subst h1; rw [mkConcat_eps_left]; exact hrestB post hp R hR
        · rw [hrestInert post R hR da hda h0 h1]
          exact (hB _).2 (.inr (.inr ((hCs _).2 ⟨da, hda, post, hp, R, hR, rfl⟩)))
    rw [cd_concat]
    split
    · right
      refine ⟨_, ?_, rfl⟩
      intro y hy
      rcases List.mem_append.1 hy with hy | hy
      · exact hU _ hd1 y hy
      · exact hcomps _ hrest _ y hy
    · left; exact hd1
  -- the derivative of the body
  have hh1F : h1 ∈ full := by rw [← hfull]; exact List.mem_cons_self ..
  have hh1 := hin h1 hh1F
  obtain ⟨SX1, L1⟩ := hL h1 hh1F
  have hsuf : ps <:+ full := by rw [← hfull]; exact List.suffix_cons _ _
  have hpsP : ∀ q ∈ ps, q ∈ F ∧ q ≠ .empty ∧ q ≠ .epsilon :=
    fun q hq => hheadP q (hsuf.subset hq)
  have hdY : ∀ c, computeDeriv ord Y c = .empty ∨ computeDeriv ord Y c = Y2 ∨
      computeDeriv ord Y c ∈ F ∨
      ∃ a ∈ F, a ≠ .empty ∧ a ≠ .epsilon ∧ computeDeriv ord Y c = .concat a Y2 := by
    intro c
    rw [hYdef, cd_concat, hnn]
    simp only [Bool.false_eq_true, if_false]
    have hd := xFam_deriv L1 hh1.1 (classRep h1.derivClass c)
    generalize computeDeriv ord h1 (classRep h1.derivClass c) = dh at hd
    have hdF : dh ∈ F := by
      refine (hF _).2 ⟨h1, hh1F, xFam_mono ?_ hd⟩
      have := le_sum_of_mem (List.mem_map_of_mem (f := loopBound) hh1F)
      omega
    cases mid with
    | nil =>
      simp only [rchain_nil] at hY2
      subst hY2
      rcases mkConcat_head_shape L1 hnest hd with h | h | h | ⟨h, h0, h1'⟩
      · exact .inl h
      · exact .inr (.inl h)
      · refine .inr (.inr (.inl ((hF _).2 ⟨h1, hh1F, xFam_mono ?_ h⟩)))
        rw [← hM, ← hfull, ← hps]
        simp
      · exact .inr (.inr (.inr ⟨dh, hdF, h0, h1', h⟩))
    | cons m ms =>
      have hi : InertTail Y2 := by rw [← hY2]; exact .inl ⟨_, _, rfl⟩
      by_cases h0 : dh = .empty
      · subst h0; left; exact mkConcat_empty_left _
      · by_cases h1' : dh = .epsilon
        · subst h1'; right; left; exact mkConcat_eps_left _
        · exact .inr (.inr (.inr ⟨dh, hdF, h0, h1', hFi dh hdF h0 h1' _ hi⟩))
  have hszY2 : sizeOf (rchain mid last) < sizeOf Y := by
    rw [hY2, hYdef]; simp; omega
  have hheads_tail : ∀ h ∈ mid ++ [last], (∃ SX, Letter ord (headLetter h) SX) ∧
      h ∈ xFam (headLetter h) M ∧ h ≠ .empty ∧ h ≠ .epsilon := by
    rw [hps]; exact fun h hh => hinM h (hsuf.subset hh)
  have hlastP : last ∈ F ∧ last ≠ .empty ∧ last ≠ .epsilon :=
    hpsP last (by rw [← hps]; simp)
  have hmidP : ∀ q ∈ mid, q ∈ F ∧ q ≠ .empty ∧ q ≠ .epsilon :=
    fun q hq => hpsP q (by rw [← hps]; simp [hq])
  -- splicing with `T`
  have w1 : mkConcat last T = .concat last T := hITT last hlastP.1 hlastP.2.1 hlastP.2.2
  have hpsT : ∀ R, rchain mid (.concat last R) = rchain ps R := by
    intro R; rw [← hps, rchain_append]; rfl
  have wY2 : mkConcat Y2 T = rchain ps T := by
    rw [← hY2, key1 mid hmidP last _ w1 (hITi _ (.inl ⟨_, _, rfl⟩)), hpsT]
  have wY : mkConcat Y T = rchain full T := by
    rw [← hYY, key1 (h1 :: mid) (fun q hq => by
      rcases List.mem_cons.1 hq with rfl | hq
      · exact hheadP _ hh1F
      · exact hmidP q hq) last _ w1 (hITi _ (.inl ⟨_, _, rfl⟩)), rchain_cons, hpsT, ← hfull,
      rchain_cons]
  have wL : ∀ τ, mkConcat (.loop Y τ) T = .concat (.loop Y τ) T := hTL
  have hpsfull : ps ++ full <:+ full ++ full := by
    rw [← hfull]; exact List.suffix_cons _ _
  have hps2 : ps <:+ full ++ full := hsuf.trans (List.suffix_append _ _)
  have hfullsuf : full <:+ full ++ full := List.suffix_append _ _
  -- a loop over the body, followed by `T`
  have wc_loopT : ∀ τ, RangeLe τ NL → WC (.concat (.loop Y τ) T) := by
    intro τ hτ c
    have hd1 : mkConcat (computeDeriv ord (.loop Y τ) (classRep (RE.loop Y τ).derivClass c)) T ∈ B := by
      rw [cd_loop]
      generalize classRep (RE.loop Y τ).derivClass c = c'
      have hdYS : computeDeriv ord Y (classRep Y.derivClass c') ∈ S := hS.deriv Y hYS _
      have hsh := hdY (classRep Y.derivClass c')
      generalize computeDeriv ord Y (classRep Y.derivClass c') = dY at hdYS hsh
      have hτ' : RangeLe τ.shift (ρ.start + ρ.stop.getD 0 + 1) := RangeLe.shift_pred hτ
      have hL' := mkLoop_concat h1 Y2 τ.shift
      rw [← hYdef] at hL'
      rcases hL' with hL' | hL' | hL'
      · -- the loop is exhausted: `dY · T`
        rw [hL', mkConcat_eps_right]
        rcases hsh with h | h | h | ⟨a, haF, ha0, ha1, h⟩
        · rw [h, mkConcat_empty_left]; exact inS hS.empty_mem
        · rw [h, wY2]; exact hrestB ps hps2 T ((hRs _).2 (.inl rfl))
        · by_cases h0 : dY = .empty
          · subst h0; rw [mkConcat_empty_left]; exact inS hS.empty_mem
          · by_cases h1' : dY = .epsilon
            · subst h1'; rw [mkConcat_eps_left]; exact inS hTS
            · rw [hITT dY h h0 h1']
              exact (hB _).2 (.inr (.inr ((hCs _).2
                ⟨dY, h, [], List.nil_suffix, T, (hRs _).2 (.inl rfl), rfl⟩)))
        · have : dY = rchain (a :: mid) last := by rw [h, ← hY2]; rfl
          rw [this, key1 (a :: mid) (fun q hq => by
            rcases List.mem_cons.1 hq with rfl | hq
            · exact ⟨haF, ha0, ha1⟩
            · exact hmidP q hq) last _ w1 (hITi _ (.inl ⟨_, _, rfl⟩)), rchain_cons, hpsT]
          exact (hB _).2 (.inr (.inr ((hCs _).2
            ⟨a, haF, ps, hps2, T, (hRs _).2 (.inl rfl), rfl⟩)))
      all_goals
        -- the loop continues with `R' = Y` or `R' = loop Y τ'`
        have caseR : ∀ R', (R' = Y ∨ ∃ τ', RangeLe τ' (ρ.start + ρ.stop.getD 0 + 1) ∧
            R' = .loop Y τ') → mkConcat (mkConcat dY R') T ∈ B := by
          intro R' hR'form
          have hR'i : InertTail R' := by
            obtain ⟨p, q, rfl⟩ := hYc
            rcases hR'form with rfl | ⟨τ', _, rfl⟩
            · exact .inl ⟨p, q, rfl⟩
            · exact .inr ⟨p, q, τ', rfl⟩
          have hR'0 : R' ≠ .empty := by
            rcases hR'i with ⟨p, q, rfl⟩ | ⟨p, q, t, rfl⟩ <;> exact fun h => by cases h
          have hR'1 : R' ≠ .epsilon := by
            rcases hR'i with ⟨p, q, rfl⟩ | ⟨p, q, t, rfl⟩ <;> exact fun h => by cases h
          obtain ⟨pw, Rw, hW, hRw, hpw1, hpw2⟩ : ∃ pw Rw, mkConcat R' T = rchain pw Rw ∧ Rw ∈ Rs ∧
              ps ++ pw <:+ full ++ full ∧ pw <:+ full ++ full := by
            rcases hR'form with rfl | ⟨τ', hτ'', rfl⟩
            · exact ⟨full, T, wY, (hRs _).2 (.inl rfl), hpsfull, hfullsuf⟩
            · exact ⟨[], _, by rw [wL]; rfl,
                (hRs _).2 (.inr ⟨τ', hτ''.mono (by omega), rfl⟩), by simpa using hps2,
                List.nil_suffix⟩
          have hWi : IT (rchain pw Rw) := hrestInert pw Rw hRw
          have hsplice : mkConcat Y2 R' = rchain ps R' := by
            rw [← hY2, ← hps]
            exact mkConcat_splice (M := M)
              (hR'form.imp id (fun ⟨t, _, h⟩ => ⟨t, h⟩)) hYc mid hheads_tail hszY2
          have hpsi : InertTail (rchain ps R') := by
            obtain ⟨m, ms, rfl⟩ := hpsne
            exact .inl ⟨_, _, rfl⟩
          rcases hsh with h | h | h | ⟨a, haF, ha0, ha1, h⟩
          · rw [h, mkConcat_empty_left, mkConcat_empty_left]; exact inS hS.empty_mem
          · rw [h, hsplice, key1 ps hpsP R' _ hW hWi, ← rchain_append]
            exact hrestB _ hpw1 Rw hRw
          · by_cases h0 : dY = .empty
            · subst h0; rw [mkConcat_empty_left, mkConcat_empty_left]; exact inS hS.empty_mem
            · by_cases h1' : dY = .epsilon
              · subst h1'; rw [mkConcat_eps_left, hW]; exact hrestB _ hpw2 Rw hRw
              · rw [hFi dY h h0 h1' R' hR'i]
                have := key1 [dY] (fun q hq => by
                  rw [List.mem_singleton] at hq; subst hq; exact ⟨h, h0, h1'⟩) R' _ hW hWi
                simp only [rchain_cons, rchain_nil] at this
                rw [this]
                exact (hB _).2 (.inr (.inr ((hCs _).2 ⟨dY, h, pw, hpw2, Rw, hRw, rfl⟩)))
          · rw [h]
            by_cases hah : a = h1
            · subst hah
              rw [← hYdef]
              rcases hR'form with rfl | ⟨τ', hτ'', rfl⟩
              · obtain ⟨p, q, rfl⟩ := hYc
                rw [mkConcat_self_concat, wL]
                refine (hB _).2 (.inr (.inl ⟨_, ?_, rfl⟩))
                exact ⟨by simp [LoopRange.point, LoopRange.finite, NL],
                  fun j hj => by simp [LoopRange.point, LoopRange.finite] at hj; omega⟩
              · obtain ⟨p, q, rfl⟩ := hYc
                rw [mkConcat_body_loop, wL]
                exact (hB _).2 (.inr (.inl ⟨_, rangeLe_addPoint hτ'', rfl⟩))
            · have hin1 : mkConcat (.concat a Y2) R' = rchain (a :: ps) R' := by
                rw [mkConcat_assoc_step hR'0 hR'1, hsplice, hFi a haF ha0 ha1 _ hpsi]
                · rfl
                · intro σ hσ
                  rcases hR'form with rfl | ⟨τ', _, rfl⟩
                  · rw [hYdef] at hσ; cases hσ
                  · cases hσ
                    exact hah (RE.concat.inj hYdef).1
                · intro hσ
                  rcases hR'form with rfl | ⟨τ', _, rfl⟩
                  · rw [hYdef] at hσ
                    exact hah (RE.concat.inj hσ).1
                  · cases hσ
              rw [hin1, key1 (a :: ps) (fun q hq => by
                rcases List.mem_cons.1 hq with rfl | hq
                · exact ⟨haF, ha0, ha1⟩
                · exact hpsP q hq) R' _ hW hWi, rchain_cons, ← rchain_append]
              exact (hB _).2 (.inr (.inr ((hCs _).2 ⟨a, haF, _, hpw1, Rw, hRw, rfl⟩)))
        rw [hL']
        first
          | exact caseR _ (.inl rfl)
          | exact caseR _ (.inr ⟨_, hτ', rfl⟩)
    rw [cd_concat]
    split
    · right
      refine ⟨_, ?_, rfl⟩
      intro y hy
      rcases List.mem_append.1 hy with hy | hy
      · exact hU _ hd1 y hy
      · exact inS (hS.unionComps _ (hS.deriv T hTS _) y hy)
    · left; exact hd1
  -- every tail chain
  have wc_rest : ∀ post, post <:+ full ++ full → ∀ R ∈ Rs, WC (rchain post R) := by
    intro post
    induction post with
    | nil =>
      intro _ R hR
      rcases (hRs R).1 hR with rfl | ⟨τ, hτ, rfl⟩
      · intro c; left; exact inS (hS.deriv _ hTS c)
      · exact wc_loopT τ hτ
    | cons x xs ih =>
      intro hp R hR
      have hp' : xs <:+ full ++ full := (List.suffix_cons x xs).trans hp
      exact wc_chain x (hheadF x (hmemff x (hp.subset (List.mem_cons_self ..)))) xs hp' R hR
        (ih hp' R hR)
  -- assemble
  refine ⟨B ++ (nodupLists B).map RE.union, List.mem_append_left _ ((hB _).2 (.inr (.inl
    ⟨ρ, (rangeLe_self ρ).mono (by omega), rfl⟩))), ?_⟩
  apply Closed.saturate hinj
  · intro x hx; exact inS (hS.base x hx)
  · intro x hx
    rcases (hB x).1 hx with h | ⟨τ, hτ, rfl⟩ | h
    · intro c; left; exact inS (hS.deriv x h c)
    · exact wc_loopT τ hτ
    · obtain ⟨a, ha, post, hp, R, hR, rfl⟩ := (hCs x).1 h
      exact wc_chain a ha post hp R hR (wc_rest post hp R hR)
  · exact hU
  · exact hI
  · intro z hz
    rcases (hB _).1 hz with h | ⟨τ, _, h⟩ | h
    · exact inS (hS.complBody z h)
    · cases h
    · obtain ⟨a, _, post, _, R, _, h⟩ := (hCs _).1 h
      cases h



/-- a head is its letter or a loop over its letter -/
theorem head_form {h : RE} {N : Nat} (hm : h ∈ xFam (headLetter h) N) (h0 : h ≠ .empty)
    (h1 : h ≠ .epsilon) : h = headLetter h ∨ ∃ ρ, h = .loop (headLetter h) ρ := by
  rcases mem_xFam.1 hm with e | e | e | ⟨ρ, _, e⟩
  · exact absurd e h0
  · exact absurd e h1
  · exact .inl e
  · exact .inr ⟨ρ, e⟩

/-- the tail is a concatenation or a loop over a concatenation -/
theorem fin_loop_chain_inertTail (hinj : Function.Injective ord) {h1 : RE} {mid : List RE}
    {last : RE}
    (hL : ∀ h ∈ h1 :: (mid ++ [last]), ∃ SX, Letter ord (headLetter h) SX)
    (hin : ∀ h ∈ h1 :: (mid ++ [last]),
      h ∈ xFam (headLetter h) (loopBound h) ∧ h ≠ .empty ∧ h ≠ .epsilon)
    (hnest : ∀ y σ, last = .loop y σ → ∀ x ρ, y ≠ .loop x ρ)
    (hnn : h1.nullable = false)
    (hY : Fin ord (rchain (h1 :: mid) last)) {T : RE} (hT : Fin ord T) (hTi : InertTail T)
    (hTF : ∀ h ∈ h1 :: (mid ++ [last]), ∀ r,
      ((∀ σ, T ≠ .loop (.concat (headLetter h) r) σ) ∧ RE.concat (headLetter h) r ≠ T) ∧
      ∀ ρ', (∀ σ, T ≠ .loop (.concat (.loop (headLetter h) ρ') r) σ) ∧
        RE.concat (.loop (headLetter h) ρ') r ≠ T)
    (ρ : LoopRange) :
    Fin ord (.concat (.loop (rchain (h1 :: mid) last) ρ) T) := by
  have hT0 : T ≠ .empty := by
    rcases hTi with ⟨p, q, rfl⟩ | ⟨p, q, t, rfl⟩ <;> exact fun h => by cases h
  have hT1 : T ≠ .epsilon := by
    rcases hTi with ⟨p, q, rfl⟩ | ⟨p, q, t, rfl⟩ <;> exact fun h => by cases h
  refine fin_loop_chain_tail hinj hL hin hnest hnn hY hT hT0 hT1 ?_ ?_ hTF ρ
  · intro h hh
    obtain ⟨SX, L⟩ := hL h hh
    refine ⟨mkConcat_fam_inert L (M := 0) (mem_xFam.2 (.inr (.inr (.inl rfl)))) L.ne_empty
      L.ne_eps hTi, fun ρ' => ?_⟩
    exact mkConcat_fam_inert L (M := ρ'.start + ρ'.stop.getD 0)
      (mem_xFam.2 (.inr (.inr (.inr ⟨ρ', rangeLe_self ρ', rfl⟩))))
      (fun h => by cases h) (fun h => by cases h) hTi
  · intro τ
    have hh1 := hin h1 (List.mem_cons_self ..)
    have hY1 : rchain (h1 :: mid) last ≠ T ∧ ∀ σ, T ≠ .loop (rchain (h1 :: mid) last) σ := by
      have hf := hTF h1 (List.mem_cons_self ..) (rchain mid last)
      rcases head_form hh1.1 hh1.2.1 hh1.2.2 with e | ⟨ρ', e⟩
      · rw [← e] at hf; exact ⟨hf.1.2, hf.1.1⟩
      · have := hf.2 ρ'; rw [← e] at this; exact ⟨this.2, this.1⟩
    apply mkConcat_plain (fun _ _ h => by cases h) (fun h => by cases h) (fun h => by cases h)
      hT0 hT1
    · intro σ h
      rcases hTi with ⟨p', q', rfl⟩ | ⟨p', q', t, rfl⟩
      · cases h
      · cases h
    · intro ρ' h
      cases h
      exact hY1.1 rfl
    · intro x ρ' σ h1' h2'
      cases h1'
      exact hY1.2 σ h2'
    · intro h
      exact hY1.2 τ h.symm
    · intro h
      rcases hTi with ⟨p', q', rfl⟩ | ⟨p', q', t, rfl⟩
      · simp [sigmaStar] at h
      · simp [sigmaStar, sigma] at h

/-- the tail is a single factor: not a concatenation, not a loop over a concatenation or over a
    loop, not `∅`, `ε`, `Σ*`, and not a member of the family of a head -/
theorem fin_loop_chain_simpleTail (hinj : Function.Injective ord) {h1 : RE} {mid : List RE}
    {last : RE}
    (hL : ∀ h ∈ h1 :: (mid ++ [last]), ∃ SX, Letter ord (headLetter h) SX)
    (hin : ∀ h ∈ h1 :: (mid ++ [last]),
      h ∈ xFam (headLetter h) (loopBound h) ∧ h ≠ .empty ∧ h ≠ .epsilon)
    (hnest : ∀ y σ, last = .loop y σ → ∀ x ρ, y ≠ .loop x ρ)
    (hnn : h1.nullable = false)
    (hY : Fin ord (rchain (h1 :: mid) last)) {T : RE} (hT : Fin ord T)
    (hT0 : T ≠ .empty) (hT1 : T ≠ .epsilon) (hTs : T ≠ sigmaStar)
    (hTc : ∀ a b, T ≠ .concat a b) (hTlc : ∀ a b σ, T ≠ .loop (.concat a b) σ)
    (hTll : ∀ a ρ' σ, T ≠ .loop (.loop a ρ') σ)
    (hTok : ∀ h ∈ h1 :: (mid ++ [last]), T ≠ headLetter h ∧ ∀ ρ', T ≠ .loop (headLetter h) ρ')
    (ρ : LoopRange) :
    Fin ord (.concat (.loop (rchain (h1 :: mid) last) ρ) T) := by
  refine fin_loop_chain_tail hinj hL hin hnest hnn hY hT hT0 hT1 ?_ ?_ ?_ ρ
  · intro h hh
    obtain ⟨SX, L⟩ := hL h hh
    obtain ⟨hk1, hk2⟩ := hTok h hh
    constructor
    · apply mkConcat_plain L.not_concat L.ne_empty L.ne_eps hT0 hT1
      · intro σ; exact hk2 σ
      · intro ρ' e; exact L.not_loop _ _ e
      · intro x ρ' σ e; exact absurd e (L.not_loop _ _)
      · exact fun e => hk1 e.symm
      · exact hTs
    · intro ρ'
      apply mkConcat_plain (fun _ _ h => by cases h) (fun h => by cases h) (fun h => by cases h)
        hT0 hT1
      · intro σ e; exact hTll _ _ _ e
      · intro ρ'' e; cases e; exact hk1 rfl
      · intro x ρ'' σ e1 e2; cases e1; exact hk2 σ e2
      · exact fun e => hk2 ρ' e.symm
      · exact hTs
  · intro τ
    apply mkConcat_plain (fun _ _ h => by cases h) (fun h => by cases h) (fun h => by cases h)
      hT0 hT1
    · intro σ e; exact hTll _ _ _ e
    · intro ρ' e; cases e; exact hTc _ _ rfl
    · intro x ρ' σ e1 e2; cases e1; exact hTlc _ _ _ e2
    · exact fun e => hTlc _ _ _ e.symm
    · exact hTs
  · intro h hh r
    refine ⟨⟨fun σ e => hTlc _ _ _ e, fun e => hTc _ _ e.symm⟩, fun ρ' => ?_⟩
    exact ⟨fun σ e => hTlc _ _ _ e, fun e => hTc _ _ e.symm⟩


/-! ### the fragment -/

/-- a letter: a character class or a union of character classes -/
def isLetter : RE → Bool
  | .range _ => true
  | .union l => l.all isRange
  | _ => false

/-- admissible left operand of a concatenation: `∅`, `ε`, a letter, a loop over a letter -/
def isHead : RE → Bool
  | .empty | .epsilon => true
  | .loop x _ => isLetter x
  | x => isLetter x

/-- a letter or a loop over a letter (not `∅`, `ε`) -/
def isStrictHead : RE → Bool
  | .loop x _ => isLetter x
  | x => isLetter x

/-- a right-nested chain `h₁ · (h₂ · (… · hₙ))`, `n ≥ 1`, of letters / loops over letters -/
def isHeadChain : RE → Bool
  | .concat a g => isStrictHead a && isHeadChain g
  | x => isStrictHead x

/-- admissible compound loop body: a chain of at least two such heads whose first head is not
    nullable, e.g. `ab`, `[a-z][0-9]+ ,` -/
def isLoopBody : RE → Bool
  | .concat a g => isStrictHead a && !a.nullable && isHeadChain g
  | _ => false

/-- `t` is not a member of the family of the head `h` (not its letter, not a loop over it) -/
def okHead (t h : RE) : Bool :=
  t != headLetter h && (match t with | .loop x _ => x != headLetter h | _ => true)

/-- `t` is not `∅`, `ε` or a member of the family of any head of the chain -/
def notInFamsOf (t : RE) : RE → Bool
  | .concat a g => okHead t a && notInFamsOf t g
  | x => okHead t x

/-- the first factor of a concatenation / of the body of a loop over a concatenation -/
def firstFactor : RE → Option RE
  | .concat t _ => some t
  | .loop (.concat u _) _ => some u
  | _ => none

/-- `a · g` with `a = Y^ρ` a loop over a chain body and `g` either a concatenation or a loop over a
    concatenation whose first factor is not in the family of any head of `Y`, or a single factor
    (not `∅`, `ε`, `Σ*`) that is not in the family of any head of `Y` -/
def isChainLoopHead (a g : RE) : Bool :=
  match a with
  | .loop y _ => isLoopBody y &&
      (match firstFactor g with
       | some t => t != .empty && t != .epsilon && notInFamsOf t y
       | none => g != .empty && g != .epsilon && g != sigmaStar && notInFamsOf g y)
  | _ => false

mutual
/-- **the fragment**: right-linear terms — `∅`, `ε`, letters (character classes and unions of
    character classes), loops (any range, also unbounded) over a letter or over a chain of
    letters / loops over letters with a non-nullable first factor (`(ab)*`, `([a-z][0-9]+)^[2,5]`),
    concatenations `A · G` whose LEFT operand `A` is a letter or a loop over a letter, and
    arbitrary unions, intersections and complements of such terms (at any depth, also to the
    right of a concatenation). -/
def frag : RE → Bool
  | .empty | .epsilon | .range _ => true
  | .concat a g => (isHead a || isChainLoopHead a g) && frag g
  | .loop x _ => isLetter x || isLoopBody x
  | .compl x => frag x
  | .union l => fragList l
  | .inter l => fragList l
def fragList : List RE → Bool
  | [] => true
  | x :: xs => frag x && fragList xs
end

theorem fragList_iff (l : List RE) : fragList l = true ↔ ∀ x ∈ l, frag x = true := by
  induction l with
  | nil => simp [fragList]
  | cons x xs ih => simp [fragList, ih]

theorem isRange_iff (x : RE) : x.isRange = true ↔ ∃ s, x = .range s := by
  cases x <;> simp [isRange]

theorem isLetter_letter (hps : PairSound ord) (hinj : Function.Injective ord) {x : RE}
    (h : isLetter x = true) : ∃ SX, Letter ord x SX := by
  cases x with
  | range s => exact ⟨_, letter_range s⟩
  | union l =>
    simp only [isLetter, List.all_eq_true] at h
    exact letter_unionRanges hps hinj (fun x hx => (isRange_iff x).1 (h x hx))
  | empty => simp [isLetter] at h
  | epsilon => simp [isLetter] at h
  | concat _ _ => simp [isLetter] at h
  | loop _ _ => simp [isLetter] at h
  | compl _ => simp [isLetter] at h
  | inter _ => simp [isLetter] at h

theorem isLetter_not_loop {x : RE} (h : isLetter x = true) : ∀ a ρ, x ≠ .loop a ρ := by
  intro a ρ hx
  subst hx
  simp [isLetter] at h

theorem isHead_mem (hps : PairSound ord) (hinj : Function.Injective ord) {a : RE}
    (h : isHead a = true) : ∃ X SX N, Letter ord X SX ∧ a ∈ xFam X N := by
  have letterCase : isLetter a = true → ∃ X SX N, Letter ord X SX ∧ a ∈ xFam X N := by
    intro hl
    obtain ⟨SX, L⟩ := isLetter_letter hps hinj hl
    exact ⟨a, SX, 0, L, mem_xFam.2 (.inr (.inr (.inl rfl)))⟩
  cases a with
  | empty => exact ⟨_, _, 0, letter_range ⟨0, 0⟩, mem_xFam.2 (.inl rfl)⟩
  | epsilon => exact ⟨_, _, 0, letter_range ⟨0, 0⟩, mem_xFam.2 (.inr (.inl rfl))⟩
  | loop x ρ =>
    simp only [isHead] at h
    obtain ⟨SX, L⟩ := isLetter_letter hps hinj h
    exact ⟨x, SX, ρ.start + ρ.stop.getD 0, L,
      mem_xFam.2 (.inr (.inr (.inr ⟨ρ, rangeLe_self ρ, rfl⟩)))⟩
  | range s => exact letterCase (by simpa [isHead] using h)
  | union l => exact letterCase (by simpa [isHead] using h)
  | concat _ _ => exact letterCase (by simpa [isHead] using h)
  | compl _ => exact letterCase (by simpa [isHead] using h)
  | inter _ => exact letterCase (by simpa [isHead] using h)

theorem isLetter_frag {x : RE} (h : isLetter x = true) : frag x = true := by
  cases x with
  | range s => simp [frag]
  | union l =>
    simp only [isLetter, List.all_eq_true] at h
    simp only [frag, fragList_iff]
    intro y hy
    obtain ⟨s, rfl⟩ := (isRange_iff y).1 (h y hy)
    simp [frag]
  | empty => simp [isLetter] at h
  | epsilon => simp [isLetter] at h
  | concat _ _ => simp [isLetter] at h
  | loop _ _ => simp [isLetter] at h
  | compl _ => simp [isLetter] at h
  | inter _ => simp [isLetter] at h

theorem isStrictHead_concat (a b : RE) : isStrictHead (.concat a b) = false := by
  simp [isStrictHead, isLetter]

theorem isStrictHead_frag {x : RE} (h : isStrictHead x = true) :
    frag x = true ∧ isHead x = true := by
  cases x with
  | loop y ρ =>
    simp only [isStrictHead] at h
    simp [frag, isHead, h]
  | range s => simp [frag, isHead, isLetter]
  | union l =>
    have hl : isLetter (.union l) = true := by simpa [isStrictHead] using h
    exact ⟨isLetter_frag hl, by simpa [isHead] using hl⟩
  | empty => simp [isStrictHead, isLetter] at h
  | epsilon => simp [isStrictHead, isLetter] at h
  | concat _ _ => simp [isStrictHead, isLetter] at h
  | compl _ => simp [isStrictHead, isLetter] at h
  | inter _ => simp [isStrictHead, isLetter] at h

/-- what is needed of a strict head -/
theorem isStrictHead_spec (hps : PairSound ord) (hinj : Function.Injective ord) {h : RE}
    (hh : isStrictHead h = true) :
    (∃ SX, Letter ord (headLetter h) SX) ∧
      (h ∈ xFam (headLetter h) (loopBound h) ∧ h ≠ .empty ∧ h ≠ .epsilon) ∧
      (∀ y σ, h = .loop y σ → ∀ x ρ, y ≠ .loop x ρ) := by
  have letterCase : isLetter h = true → (∀ a ρ, h ≠ .loop a ρ) → headLetter h = h →
      (∃ SX, Letter ord (headLetter h) SX) ∧
      (h ∈ xFam (headLetter h) (loopBound h) ∧ h ≠ .empty ∧ h ≠ .epsilon) ∧
      (∀ y σ, h = .loop y σ → ∀ x ρ, y ≠ .loop x ρ) := by
    intro hl hnl hhl
    obtain ⟨SX, L⟩ := isLetter_letter hps hinj hl
    rw [hhl]
    exact ⟨⟨SX, L⟩, ⟨mem_xFam.2 (.inr (.inr (.inl rfl))), L.ne_empty, L.ne_eps⟩,
      fun y σ hy => absurd hy (hnl y σ)⟩
  cases h with
  | loop y ρ =>
    simp only [isStrictHead] at hh
    obtain ⟨SX, L⟩ := isLetter_letter hps hinj hh
    refine ⟨⟨SX, L⟩, ⟨mem_xFam.2 (.inr (.inr (.inr ⟨ρ, rangeLe_self ρ, rfl⟩))),
      fun h => (by cases h), fun h => (by cases h)⟩, ?_⟩
    intro y' σ hy x ρ' hx
    cases hy
    exact isLetter_not_loop hh x ρ' hx
  | range s => exact letterCase (by simpa [isStrictHead] using hh) (fun _ _ h => (by cases h)) rfl
  | union l => exact letterCase (by simpa [isStrictHead] using hh) (fun _ _ h => (by cases h)) rfl
  | empty => simp [isStrictHead, isLetter] at hh
  | epsilon => simp [isStrictHead, isLetter] at hh
  | concat _ _ => simp [isStrictHead, isLetter] at hh
  | compl _ => simp [isStrictHead, isLetter] at hh
  | inter _ => simp [isStrictHead, isLetter] at hh

/-- a head chain is a right-nested chain of strict heads, and a term of the fragment -/
theorem isHeadChain_spec : ∀ g : RE, isHeadChain g = true →
    frag g = true ∧ ∃ mid last, g = rchain mid last ∧ ∀ h ∈ mid ++ [last], isStrictHead h = true := by
  apply Deriv.re_ind
  · intro h; simp [isHeadChain, isStrictHead, isLetter] at h
  · intro h; simp [isHeadChain, isStrictHead, isLetter] at h
  · intro s h; exact ⟨by simp [frag], [], _, rfl, by simpa [isHeadChain] using h⟩
  · intro a b _ ihb h
    simp only [isHeadChain, Bool.and_eq_true] at h
    obtain ⟨hfb, mid, last, rfl, hall⟩ := ihb h.2
    refine ⟨by simp [frag, (isStrictHead_frag h.1).2, hfb], a :: mid, last, rfl, ?_⟩
    intro x hx
    rcases List.mem_cons.1 hx with rfl | hx
    · exact h.1
    · exact hall x hx
  · intro e r _ h
    have hs : isStrictHead (.loop e r) = true := by simpa [isHeadChain] using h
    exact ⟨(isStrictHead_frag hs).1, [], _, rfl, by simpa using hs⟩
  · intro e _ h; simp [isHeadChain, isStrictHead, isLetter] at h
  · intro l _ h; simp [isHeadChain, isStrictHead, isLetter] at h
  · intro l _ h
    have hs : isStrictHead (.union l) = true := by simpa [isHeadChain] using h
    exact ⟨(isStrictHead_frag hs).1, [], _, rfl, by simpa using hs⟩

/-- a head chain has a finite closed list (by `fin_concat_head` along the chain) -/
theorem headChain_fin (hps : PairSound ord) (hinj : Function.Injective ord) :
    ∀ g : RE, isHeadChain g = true →
      Fin ord g ∧ ∀ y σ, g = .loop y σ → ∀ x ρ, y ≠ .loop x ρ := by
  have strictCase : ∀ g, isStrictHead g = true →
      Fin ord g ∧ ∀ y σ, g = .loop y σ → ∀ x ρ, y ≠ .loop x ρ := by
    intro g hg
    obtain ⟨⟨SX, L⟩, ⟨hm, _, _⟩, hn⟩ := isStrictHead_spec hps hinj hg
    exact ⟨fin_xFam L hm, hn⟩
  apply Deriv.re_ind
  · intro h; simp [isHeadChain, isStrictHead, isLetter] at h
  · intro h; simp [isHeadChain, isStrictHead, isLetter] at h
  · intro s h; exact strictCase _ (by simpa [isHeadChain] using h)
  · intro a b _ ihb h
    simp only [isHeadChain, Bool.and_eq_true] at h
    obtain ⟨hfb, hnb⟩ := ihb h.2
    obtain ⟨⟨SX, L⟩, ⟨hm, _, _⟩, _⟩ := isStrictHead_spec hps hinj h.1
    exact ⟨fin_concat_head hinj L hm hfb hnb, fun y σ hy => by cases hy⟩
  · intro e r _ h; exact strictCase _ (by simpa [isHeadChain] using h)
  · intro e _ h; simp [isHeadChain, isStrictHead, isLetter] at h
  · intro l _ h; simp [isHeadChain, isStrictHead, isLetter] at h
  · intro l _ h; exact strictCase _ (by simpa [isHeadChain] using h)

theorem firstFactor_spec {b t : RE} (h : firstFactor b = some t) :
    (∃ t2, b = .concat t t2) ∨ (∃ u2 σ, b = .loop (.concat t u2) σ) := by
  cases b with
  | concat x y => simp only [firstFactor, Option.some.injEq] at h; subst h; exact .inl ⟨_, rfl⟩
  | loop x σ =>
    cases x with
    | concat u u2 =>
      simp only [firstFactor, Option.some.injEq] at h; subst h; exact .inr ⟨_, _, rfl⟩
    | empty => simp [firstFactor] at h
    | epsilon => simp [firstFactor] at h
    | range _ => simp [firstFactor] at h
    | loop _ _ => simp [firstFactor] at h
    | compl _ => simp [firstFactor] at h
    | union _ => simp [firstFactor] at h
    | inter _ => simp [firstFactor] at h
  | empty => simp [firstFactor] at h
  | epsilon => simp [firstFactor] at h
  | range _ => simp [firstFactor] at h
  | compl _ => simp [firstFactor] at h
  | union _ => simp [firstFactor] at h
  | inter _ => simp [firstFactor] at h

theorem firstFactor_none {b : RE} (h : firstFactor b = none) :
    (∀ a c, b ≠ .concat a c) ∧ (∀ a c σ, b ≠ .loop (.concat a c) σ) := by
  constructor
  · intro a c hb; subst hb; simp [firstFactor] at h
  · intro a c σ hb; subst hb; simp [firstFactor] at h

theorem okHead_spec {t h : RE} (hok : okHead t h = true) :
    t ≠ headLetter h ∧ ∀ ρ', t ≠ .loop (headLetter h) ρ' := by
  simp only [okHead, Bool.and_eq_true, bne_iff_ne, ne_eq] at hok
  refine ⟨hok.1, ?_⟩
  intro ρ' ht
  subst ht
  simp at hok

theorem notInFamsOf_rchain {t : RE} : ∀ (hs : List RE) (last : RE),
    (∀ a b, last ≠ .concat a b) → notInFamsOf t (rchain hs last) = true →
    ∀ h ∈ hs ++ [last], okHead t h = true := by
  intro hs
  induction hs with
  | nil =>
    intro last hl h x hx
    simp only [List.nil_append, List.mem_singleton] at hx
    subst hx
    simp only [rchain_nil] at h
    cases x <;> first | exact absurd rfl (hl _ _) | simpa [notInFamsOf] using h
  | cons a hs ih =>
    intro last hl h x hx
    simp only [rchain_cons, notInFamsOf, Bool.and_eq_true] at h
    rcases List.mem_cons.1 hx with rfl | hx
    · exact h.1
    · exact ih last hl h.2 x hx

/-- **finiteness for the fragment**: every term of the fragment lies in a finite list closed under
    derivatives (w.r.t. every character), for every injective id assignment with `PairSound` -/
theorem frag_fin (hps : PairSound ord) (hinj : Function.Injective ord) :
    ∀ e : RE, frag e = true → Fin ord e := by
  apply Deriv.re_ind
  · intro _; exact fin_base (by simp [baseTerms])
  · intro _; exact fin_base (by simp [baseTerms])
  · intro s _; exact fin_range s
  · intro a b _ ihb h
    simp only [frag, Bool.and_eq_true, Bool.or_eq_true] at h
    obtain ⟨hab, hfb⟩ := h
    have hnestb : ∀ y σ, b = .loop y σ → ∀ x ρ, y ≠ .loop x ρ := by
      intro y σ hb x ρ hy
      subst hb hy
      simp [frag, isLetter, isLoopBody] at hfb
    rcases hab with ha | ha
    · obtain ⟨X, SX, N, L, ha⟩ := isHead_mem hps hinj ha
      exact fin_concat_head hinj L ha (ihb hfb) hnestb
    · -- a loop over a chain, followed by an inert tail
      cases a with
      | loop Y ρ =>
        simp only [isChainLoopHead, Bool.and_eq_true] at ha
        obtain ⟨hbody, htail⟩ := ha
        cases Y with
        | concat h1 g =>
          simp only [isLoopBody, Bool.and_eq_true, Bool.not_eq_eq_eq_not, Bool.not_true] at hbody
          obtain ⟨⟨hs1, hnn⟩, hg⟩ := hbody
          obtain ⟨_, mid, last, rfl, hall⟩ := isHeadChain_spec g hg
          have hall' : ∀ h ∈ h1 :: (mid ++ [last]), isStrictHead h = true := by
            intro x hx
            rcases List.mem_cons.1 hx with rfl | hx
            · exact hs1
            · exact hall x hx
          have hYfin : Fin ord (rchain (h1 :: mid) last) :=
            (headChain_fin hps hinj _ (by simp [isHeadChain, hs1, hg])).1
          cases hff : firstFactor b with
          | none =>
            simp only [hff, Bool.and_eq_true, bne_iff_ne, ne_eq] at htail
            obtain ⟨⟨⟨hb0, hb1⟩, hbs⟩, hnot⟩ := htail
            have hlastnc : ∀ a' b', last ≠ .concat a' b' := by
              intro a' b' hl
              have := hall last (by simp)
              rw [hl, isStrictHead_concat] at this
              cases this
            have hok := notInFamsOf_rchain (h1 :: mid) last hlastnc hnot
            obtain ⟨hbc, hblc⟩ := firstFactor_none hff
            exact fin_loop_chain_simpleTail hinj (h1 := h1) (mid := mid) (last := last)
              (fun x hx => (isStrictHead_spec hps hinj (hall' x hx)).1)
              (fun x hx => (isStrictHead_spec hps hinj (hall' x hx)).2.1)
              (isStrictHead_spec hps hinj (hall' last (by simp))).2.2
              hnn hYfin (ihb hfb) hb0 hb1 hbs hbc hblc
              (fun a' ρ' σ hb => hnestb _ σ hb a' ρ' rfl)
              (fun h hh => okHead_spec (hok h (by simpa using hh))) ρ
          | some t =>
            simp only [hff, Bool.and_eq_true, bne_iff_ne, ne_eq] at htail
            obtain ⟨_, hnot⟩ := htail
            have hlastnc : ∀ a' b', last ≠ .concat a' b' := by
              intro a' b' hl
              have := hall last (by simp)
              rw [hl, isStrictHead_concat] at this
              cases this
            have hok := notInFamsOf_rchain (h1 :: mid) last hlastnc hnot
            have hTi : InertTail b := by
              rcases firstFactor_spec hff with ⟨t2, rfl⟩ | ⟨u2, σ, rfl⟩
              · exact .inl ⟨_, _, rfl⟩
              · exact .inr ⟨_, _, _, rfl⟩
            refine fin_loop_chain_inertTail hinj (h1 := h1) (mid := mid) (last := last)
              (fun x hx => (isStrictHead_spec hps hinj (hall' x hx)).1)
              (fun x hx => (isStrictHead_spec hps hinj (hall' x hx)).2.1)
              (isStrictHead_spec hps hinj (hall' last (by simp))).2.2
              hnn hYfin (ihb hfb) hTi ?_ ρ
            intro h hh r
            obtain ⟨hk1, hk2⟩ := okHead_spec (hok h (by simpa using hh))
            rcases firstFactor_spec hff with ⟨t2, rfl⟩ | ⟨u2, σ', rfl⟩
            · refine ⟨⟨fun σ hσ => (by cases hσ), fun hσ => hk1 (RE.concat.inj hσ).1.symm⟩, ?_⟩
              intro ρ'
              exact ⟨fun σ hσ => (by cases hσ), fun hσ => hk2 ρ' (RE.concat.inj hσ).1.symm⟩
            · refine ⟨⟨fun σ hσ => hk1 (RE.concat.inj (RE.loop.inj hσ).1).1,
                fun hσ => by cases hσ⟩, ?_⟩
              intro ρ'
              exact ⟨fun σ hσ => hk2 ρ' (RE.concat.inj (RE.loop.inj hσ).1).1,
                fun hσ => by cases hσ⟩
        | empty => simp [isLoopBody] at hbody
        | epsilon => simp [isLoopBody] at hbody
        | range _ => simp [isLoopBody] at hbody
        | loop _ _ => simp [isLoopBody] at hbody
        | compl _ => simp [isLoopBody] at hbody
        | union _ => simp [isLoopBody] at hbody
        | inter _ => simp [isLoopBody] at hbody
      | empty => simp [isChainLoopHead] at ha
      | epsilon => simp [isChainLoopHead] at ha
      | range _ => simp [isChainLoopHead] at ha
      | concat _ _ => simp [isChainLoopHead] at ha
      | compl _ => simp [isChainLoopHead] at ha
      | union _ => simp [isChainLoopHead] at ha
      | inter _ => simp [isChainLoopHead] at ha
  · intro e r _ h
    simp only [frag, Bool.or_eq_true] at h
    rcases h with h | h
    · obtain ⟨SX, L⟩ := isLetter_letter hps hinj h
      exact fin_letterLoop L r
    · -- a loop over a chain of heads
      cases e with
      | concat h1 g =>
        simp only [isLoopBody, Bool.and_eq_true, Bool.not_eq_eq_eq_not, Bool.not_true] at h
        obtain ⟨⟨hs1, hnn⟩, hg⟩ := h
        obtain ⟨_, mid, last, rfl, hall⟩ := isHeadChain_spec g hg
        have hall' : ∀ h ∈ h1 :: (mid ++ [last]), isStrictHead h = true := by
          intro x hx
          rcases List.mem_cons.1 hx with rfl | hx
          · exact hs1
          · exact hall x hx
        exact fin_loop_chain hinj (h1 := h1) (mid := mid) (last := last)
          (fun x hx => (isStrictHead_spec hps hinj (hall' x hx)).1)
          (fun x hx => (isStrictHead_spec hps hinj (hall' x hx)).2.1)
          (isStrictHead_spec hps hinj (hall' last (by simp))).2.2
          hnn (headChain_fin hps hinj _ (by simp [isHeadChain, hs1, hg])).1 r
      | empty => simp [isLoopBody] at h
      | epsilon => simp [isLoopBody] at h
      | range _ => simp [isLoopBody] at h
      | loop _ _ => simp [isLoopBody] at h
      | compl _ => simp [isLoopBody] at h
      | union _ => simp [isLoopBody] at h
      | inter _ => simp [isLoopBody] at h
  · intro e ih h
    simp only [frag] at h
    exact fin_compl (ih h)
  · intro l ih h
    simp only [frag] at h
    rw [fragList_iff] at h
    exact fin_inter hinj (fun x hx => ih x hx (h x hx))
  · intro l ih h
    simp only [frag] at h
    rw [fragList_iff] at h
    exact fin_union hinj (fun x hx => ih x hx (h x hx))

/-! ### an injective id assignment that satisfies `PairSound` (non-vacuity of the hypotheses) -/

mutual
def enc : RE → Nat
  | .empty => Nat.pair 0 0
  | .epsilon => Nat.pair 1 0
  | .range s => Nat.pair 2 (Nat.pair s.start s.stop)
  | .concat a b => Nat.pair 3 (Nat.pair (enc a) (enc b))
  | .loop e r => Nat.pair 4 (Nat.pair (enc e)
      (Nat.pair r.start (match r.stop with | none => 0 | some j => j + 1)))
  | .compl e => Nat.pair 5 (enc e)
  | .union l => Nat.pair 6 (encList l)
  | .inter l => Nat.pair 7 (encList l)
def encList : List RE → Nat
  | [] => 0
  | x :: xs => Nat.pair (enc x) (encList xs) + 1
end

mutual
theorem enc_inj : ∀ (a b : RE), enc a = enc b → a = b
  | .empty, b => by cases b <;> simp [enc, Nat.pair_eq_pair]
  | .epsilon, b => by cases b <;> simp [enc, Nat.pair_eq_pair]
  | .range s, b => by
      cases b <;> simp [enc, Nat.pair_eq_pair]
      rename_i t
      intro h1 h2
      cases s; cases t; simp_all
  | .concat a1 a2, b => by
      cases b <;> simp [enc, Nat.pair_eq_pair]
      rename_i b1 b2
      intro h1 h2
      exact ⟨enc_inj a1 b1 h1, enc_inj a2 b2 h2⟩
  | .loop a r, b => by
      cases b <;> simp [enc, Nat.pair_eq_pair]
      rename_i b1 s
      intro h1 h2 h3
      refine ⟨enc_inj a b1 h1, ?_⟩
      obtain ⟨i, st⟩ := r
      obtain ⟨i', st'⟩ := s
      simp only at h2 h3
      subst h2
      cases st <;> cases st' <;> simp_all
  | .compl a, b => by
      cases b <;> simp [enc, Nat.pair_eq_pair]
      rename_i b1
      exact enc_inj a b1
  | .union l, b => by
      cases b <;> simp [enc, Nat.pair_eq_pair]
      rename_i m
      exact encList_inj l m
  | .inter l, b => by
      cases b <;> simp [enc, Nat.pair_eq_pair]
      rename_i m
      exact encList_inj l m
theorem encList_inj : ∀ (l m : List RE), encList l = encList m → l = m
  | [], m => by cases m <;> simp [encList]
  | a :: l, m => by
      cases m <;> simp [encList, Nat.pair_eq_pair]
      rename_i b m'
      intro h1 h2
      exact ⟨enc_inj a b h1, encList_inj l m' h2⟩
end

/-- an id assignment by Gödel numbering, all ids even -/
def ordEnc (e : RE) : Nat := 2 * enc e

theorem ordEnc_injective : Function.Injective ordEnc := by
  intro a b h
  exact enc_inj a b (by simp only [ordEnc] at h; omega)

theorem ordEnc_pairSound : PairSound ordEnc := by
  intro x y h
  simp only [ordEnc] at h
  omega

end RE
end Smt
