/-
  Helper lemmas for C06 / C09 (string functions).  The property theorems are in Props/C06.lean and
  Props/C09.lean; nothing here is a property statement by itself.

  `Occ s p n` is the pointwise form of "p occurs in s at position n" used to talk about the index
  loops; `occ_iff_decomp` connects it with the SMT-LIB decomposition `s = u ++ p ++ v, |u| = n`.
-/
import SmtModel.Model.Strings
import Mathlib.Data.List.Basic

namespace Smt.Str

/-! ### machine integers, make -/

theorem usizeAsI32_of_le (n : Nat) (h : n ≤ 2147483647) : usizeAsI32 n = (n : Int) := by
  unfold usizeAsI32 wrapI32
  have : n % 4294967296 = n := Nat.mod_eq_of_lt (by omega)
  rw [this]
  simp only [Int.ofNat_eq_natCast]
  omega

theorem u32AsI32_of_le (n : Nat) (h : n ≤ 2147483647) : u32AsI32 n = (n : Int) := by
  unfold u32AsI32 wrapI32
  simp only [Int.ofNat_eq_natCast]
  omega

theorem i32AsUsize_of_nonneg (i : Int) (h : 0 ≤ i) : i32AsUsize i = i.toNat := by
  unfold i32AsUsize; rw [if_pos h]

theorem i32AsU32_of_nonneg (i : Int) (h : 0 ≤ i) : i32AsU32 i = i.toNat := by
  unfold i32AsU32; rw [if_pos h]

theorem make_of_le (a : List Nat) (h : a.length ≤ 2147483647) : make a = some a := by
  unfold make; rw [if_neg (by omega)]

/-! ### the index loop -/

theorem cmpLoop_spec (v w : List Nat) (off bound i : Nat)
    (hv : bound ≤ v.length) (hw : bound + off ≤ w.length) (hi : i ≤ bound) :
    ∃ m, cmpLoop v w off bound i = some m ∧ i ≤ m ∧ m ≤ bound ∧
      (∀ t, i ≤ t → t < m → v[t]? = w[t + off]?) ∧ (m < bound → v[m]? ≠ w[m + off]?) := by
  fun_induction cmpLoop v w off bound i with
  | case1 i hlt b hb ha ih =>
    obtain ⟨m, h1, h2, h3, h4, h5⟩ := ih (by omega)
    refine ⟨m, h1, by omega, h3, ?_, h5⟩
    intro t ht1 ht2
    by_cases hti : t = i
    · subst hti; rw [ha, hb]
    · exact h4 t (by omega) ht2
  | case2 i hlt a b hb ha hab =>
    refine ⟨i, rfl, by omega, by omega, by intro t h1 h2; omega, ?_⟩
    intro _; rw [ha, hb]; simpa using hab
  | case3 i hlt hnone =>
    exfalso
    have h1 : i < v.length := by omega
    have h2 : i + off < w.length := by omega
    exact hnone v[i] w[i + off] (by simp [h1]) (by simp [h2])
  | case4 i hge =>
    exact ⟨i, rfl, by omega, by omega, by intro t h1 h2; omega, by intro h; omega⟩

def Occ (s p : List Nat) (n : Nat) : Prop :=
  n + p.length ≤ s.length ∧ ∀ t, t < p.length → p[t]? = s[t + n]?

theorem occ_iff_take_drop (s p : List Nat) (n : Nat) :
    Occ s p n ↔ n + p.length ≤ s.length ∧ (s.drop n).take p.length = p := by
  unfold Occ
  constructor
  · rintro ⟨h1, h2⟩
    refine ⟨h1, ?_⟩
    apply List.ext_getElem?
    intro t
    by_cases ht : t < p.length
    · rw [List.getElem?_take_of_lt ht, List.getElem?_drop, h2 t ht, Nat.add_comm]
    · have : (List.take p.length (List.drop n s)).length ≤ t := by
        simp; omega
      rw [List.getElem?_eq_none this, List.getElem?_eq_none (by omega)]
  · rintro ⟨h1, h2⟩
    refine ⟨h1, ?_⟩
    intro t ht
    conv_lhs => rw [← h2]
    rw [List.getElem?_take_of_lt ht, List.getElem?_drop, Nat.add_comm]

theorem occ_iff_decomp (s p : List Nat) (n : Nat) :
    Occ s p n ↔ ∃ u v, s = u ++ p ++ v ∧ u.length = n := by
  rw [occ_iff_take_drop]
  constructor
  · rintro ⟨h1, h2⟩
    refine ⟨s.take n, s.drop (n + p.length), ?_, by simp; omega⟩
    conv_lhs => rw [← List.take_append_drop n s, ← List.take_append_drop p.length (s.drop n)]
    rw [h2, List.drop_drop, List.append_assoc]
  · rintro ⟨u, v, rfl, rfl⟩
    simp

theorem cmpLoop_full (p s : List Nat) (n : Nat) (h : n + p.length ≤ s.length) :
    ∃ m, cmpLoop p s n p.length 0 = some m ∧ (m = p.length ↔ Occ s p n) := by
  obtain ⟨m, h1, _, h3, h4, h5⟩ := cmpLoop_spec p s n p.length 0 (Nat.le_refl _) (by omega) (Nat.zero_le _)
  refine ⟨m, h1, ?_⟩
  constructor
  · intro hm; subst hm
    exact ⟨h, fun t ht => h4 t (Nat.zero_le _) ht⟩
  · rintro ⟨_, ho⟩
    by_contra hne
    exact h5 (by omega) (ho m (by omega))

def SearchSpec (p s : List Nat) (k : Nat) : SearchResult → Prop
  | .found i j => k ≤ i ∧ Occ s p i ∧ j = i + p.length ∧ ∀ n, k ≤ n → n < i → ¬ Occ s p n
  | .notFound => ∀ n, k ≤ n → ¬ Occ s p n

theorem naiveSearch_spec (p s : List Nat) (k : Nat) :
    ∃ r, naiveSearch p s k = some r ∧ SearchSpec p s k r := by
  fun_induction naiveSearch p s k with
  | case1 i hle hc =>
    obtain ⟨m, hm, _⟩ := cmpLoop_full p s i hle
    rw [hc] at hm; cases hm
  | case2 i hle hc =>
    obtain ⟨m, hm, hiff⟩ := cmpLoop_full p s i hle
    rw [hc] at hm; cases hm
    exact ⟨_, rfl, Nat.le_refl _, hiff.1 rfl, rfl, by intro n h1 h2; omega⟩
  | case3 i hle j hc hj ih =>
    obtain ⟨m, hm, hiff⟩ := cmpLoop_full p s i hle
    rw [hc] at hm; cases hm
    have hno : ¬ Occ s p i := fun ho => hj (hiff.2 ho)
    obtain ⟨r, hr, hs⟩ := ih
    refine ⟨r, hr, ?_⟩
    cases r with
    | notFound =>
      intro n hn
      by_cases hni : n = i
      · subst hni; exact hno
      · exact hs n (by omega)
    | found a b =>
      obtain ⟨h1, h2, h3, h4⟩ := hs
      refine ⟨by omega, h2, h3, ?_⟩
      intro n hn1 hn2
      by_cases hni : n = i
      · subst hni; exact hno
      · exact h4 n (by omega) hn2
  | case4 i hle =>
    refine ⟨_, rfl, ?_⟩
    intro n hn ho
    have := ho.1
    omega

/-! ### structural equations for the comparison loops starting at 0 -/

theorem cmpLoop_cons (a b : Nat) (v w : List Nat) (bound i : Nat) :
    cmpLoop (a :: v) (b :: w) 0 (bound + 1) (i + 1) = (cmpLoop v w 0 bound i).map (· + 1) := by
  fun_induction cmpLoop v w 0 bound i with
  | case1 i hlt c hb ha ih =>
    rw [cmpLoop]; simp_all
  | case2 i hlt c d hb ha hab =>
    rw [cmpLoop]; simp_all
  | case3 i hlt hnone =>
    rw [cmpLoop]
    simp only [Nat.add_lt_add_iff_right, hlt, if_true, List.getElem?_cons_succ, Nat.add_zero]
    split
    · rename_i c d hc hd; exact (hnone c d hc (by simpa using hd)).elim
    · rfl
  | case4 i hge =>
    rw [cmpLoop, if_neg (by omega)]; rfl

theorem vectorLt_nil_left (w : List Nat) : vectorLt [] w = some (decide (0 < w.length)) := by
  simp [vectorLt, cmpLoop]

theorem vectorLt_nil_right (v : List Nat) : vectorLt v [] = some false := by
  simp [vectorLt, cmpLoop]

theorem vectorLt_cons (a b : Nat) (v w : List Nat) :
    vectorLt (a :: v) (b :: w) = if a = b then vectorLt v w else some (decide (a < b)) := by
  unfold vectorLt
  simp only [List.length_cons, Nat.add_min_add_right]
  rw [cmpLoop]
  simp only [Nat.zero_lt_succ, if_true, List.getElem?_cons_zero, Nat.add_zero]
  by_cases hab : a = b
  · simp only [hab, if_true]
    have := cmpLoop_cons b b v w (min v.length w.length) 0
    simp only [Nat.zero_add] at this
    rw [this]
    cases cmpLoop v w 0 (min v.length w.length) 0 with
    | none => rfl
    | some i => simp
  · simp [hab]

theorem vectorLe_nil_left (w : List Nat) : vectorLe [] w = some true := by
  simp [vectorLe, cmpLoop]

theorem vectorLe_nil_right (a : Nat) (v : List Nat) : vectorLe (a :: v) [] = some false := by
  simp [vectorLe, cmpLoop]

theorem vectorLe_cons (a b : Nat) (v w : List Nat) :
    vectorLe (a :: v) (b :: w) = if a = b then vectorLe v w else some (decide (a < b)) := by
  unfold vectorLe
  simp only [List.length_cons, Nat.add_min_add_right]
  rw [cmpLoop]
  simp only [Nat.zero_lt_succ, if_true, List.getElem?_cons_zero, Nat.add_zero]
  by_cases hab : a = b
  · simp only [hab, if_true]
    have := cmpLoop_cons b b v w (min v.length w.length) 0
    simp only [Nat.zero_add] at this
    rw [this]
    cases cmpLoop v w 0 (min v.length w.length) 0 with
    | none => rfl
    | some i => simp
  · simp [hab]

/-- `vector_lt` decides the lexicographic order (and never hits an index panic) -/
theorem vectorLt_lex (v w : List Nat) :
    ∃ b, vectorLt v w = some b ∧ (b = true ↔ List.Lex (· < ·) v w) := by
  induction v generalizing w with
  | nil =>
    refine ⟨_, vectorLt_nil_left w, ?_⟩
    cases w with
    | nil => simp
    | cons b w => simp
  | cons a v ih =>
    cases w with
    | nil => exact ⟨_, vectorLt_nil_right _, by simp⟩
    | cons b w =>
      rw [vectorLt_cons]
      by_cases hab : a = b
      · subst hab
        obtain ⟨r, h1, h2⟩ := ih w
        refine ⟨r, by simp [h1], ?_⟩
        rw [h2]
        constructor
        · exact List.Lex.cons
        · intro h
          cases h with
          | rel h => exact absurd h (Nat.lt_irrefl _)
          | cons h => exact h
      · refine ⟨decide (a < b), by simp [hab], ?_⟩
        simp only [decide_eq_true_eq]
        constructor
        · exact List.Lex.rel
        · intro h
          cases h with
          | rel h => exact h
          | cons h => exact absurd rfl hab

theorem vectorLe_lex (v w : List Nat) :
    ∃ b, vectorLe v w = some b ∧ (b = true ↔ (List.Lex (· < ·) v w ∨ v = w)) := by
  induction v generalizing w with
  | nil =>
    refine ⟨_, vectorLe_nil_left w, ?_⟩
    cases w with
    | nil => simp
    | cons b w => simp
  | cons a v ih =>
    cases w with
    | nil => exact ⟨_, vectorLe_nil_right _ _, by simp⟩
    | cons b w =>
      rw [vectorLe_cons]
      by_cases hab : a = b
      · subst hab
        obtain ⟨r, h1, h2⟩ := ih w
        refine ⟨r, by simp [h1], ?_⟩
        rw [h2]
        constructor
        · rintro (h | h)
          · exact Or.inl (List.Lex.cons h)
          · exact Or.inr (by rw [h])
        · rintro (h | h)
          · cases h with
            | rel h => exact absurd h (Nat.lt_irrefl _)
            | cons h => exact Or.inl h
          · exact Or.inr (List.cons.inj h).2
      · refine ⟨decide (a < b), by simp [hab], ?_⟩
        simp only [decide_eq_true_eq]
        constructor
        · exact fun h => Or.inl (List.Lex.rel h)
        · rintro (h | h)
          · cases h with
            | rel h => exact h
            | cons h => exact absurd rfl hab
          · exact absurd (List.cons.inj h).1 hab

/-! ### facts about the lexicographic order on `List Nat` -/

theorem lex_irrefl (v : List Nat) : ¬ List.Lex (· < ·) v v := by
  induction v with
  | nil => intro h; cases h
  | cons a v ih =>
    intro h
    cases h with
    | rel h => exact Nat.lt_irrefl _ h
    | cons h => exact ih h

theorem lex_trans {u v w : List Nat} (h1 : List.Lex (· < ·) u v) (h2 : List.Lex (· < ·) v w) :
    List.Lex (· < ·) u w := by
  induction h1 generalizing w with
  | nil => cases h2 <;> exact List.Lex.nil
  | rel h =>
    cases h2 with
    | rel h' => exact List.Lex.rel (Nat.lt_trans h h')
    | cons h' => exact List.Lex.rel h
  | cons h ih =>
    cases h2 with
    | rel h' => exact List.Lex.rel h'
    | cons h' => exact List.Lex.cons (ih h')

theorem lex_trichotomy (v w : List Nat) :
    List.Lex (· < ·) v w ∨ v = w ∨ List.Lex (· < ·) w v := by
  induction v generalizing w with
  | nil =>
    cases w with
    | nil => exact Or.inr (Or.inl rfl)
    | cons b w => exact Or.inl List.Lex.nil
  | cons a v ih =>
    cases w with
    | nil => exact Or.inr (Or.inr List.Lex.nil)
    | cons b w =>
      rcases Nat.lt_trichotomy a b with h | h | h
      · exact Or.inl (List.Lex.rel h)
      · subst h
        rcases ih w with h | h | h
        · exact Or.inl (List.Lex.cons h)
        · exact Or.inr (Or.inl (by rw [h]))
        · exact Or.inr (Or.inr (List.Lex.cons h))
      · exact Or.inr (Or.inr (List.Lex.rel h))

theorem lex_of_prefix (v x : List Nat) (hx : x ≠ []) : List.Lex (· < ·) v (v ++ x) := by
  induction v with
  | nil =>
    cases x with
    | nil => exact absurd rfl hx
    | cons a x => exact List.Lex.nil
  | cons a v ih => exact List.Lex.cons ih

/-! ### prefix / suffix -/

theorem vectorPrefix_spec (v w : List Nat) :
    ∃ b, vectorPrefix v w = some b ∧ (b = true ↔ Occ w v 0 ) := by
  unfold vectorPrefix
  by_cases h : v.length ≤ w.length
  · simp only [h, if_true]
    obtain ⟨m, hm, hiff⟩ := cmpLoop_full v w 0 (by omega)
    rw [hm]
    exact ⟨_, rfl, by simp [hiff]⟩
  · simp only [h, if_false]
    refine ⟨false, rfl, ?_⟩
    constructor
    · intro h'; cases h'
    · intro ho; have := ho.1; omega

theorem vectorSuffix_spec (v w : List Nat) :
    ∃ b, vectorSuffix v w = some b ∧ (b = true ↔ (v.length ≤ w.length ∧ Occ w v (w.length - v.length))) := by
  unfold vectorSuffix
  by_cases h : v.length ≤ w.length
  · simp only [h, if_true]
    obtain ⟨m, hm, hiff⟩ := cmpLoop_full v w (w.length - v.length) (by omega)
    rw [hm]
    exact ⟨_, rfl, by simp [hiff]⟩
  · simp only [h, if_false]
    exact ⟨false, rfl, by simp⟩

theorem occ_zero_iff (w v : List Nat) : Occ w v 0 ↔ ∃ x, w = v ++ x := by
  rw [occ_iff_decomp]
  constructor
  · rintro ⟨u, x, h, hu⟩
    have : u = [] := List.eq_nil_of_length_eq_zero hu
    subst this
    exact ⟨x, by simpa using h⟩
  · rintro ⟨x, h⟩
    exact ⟨[], x, by simpa using h, rfl⟩

theorem occ_end_iff (w v : List Nat) :
    (v.length ≤ w.length ∧ Occ w v (w.length - v.length)) ↔ ∃ x, w = x ++ v := by
  rw [occ_iff_decomp]
  constructor
  · rintro ⟨hle, u, x, h, hu⟩
    have hl := congrArg List.length h
    simp only [List.length_append] at hl
    have : x = [] := List.eq_nil_of_length_eq_zero (by omega)
    subst this
    exact ⟨u, by simpa using h⟩
  · rintro ⟨x, h⟩
    have hl := congrArg List.length h
    simp only [List.length_append] at hl
    exact ⟨by omega, x, [], by simpa using h, by omega⟩

/-! ### contains / indexof / replace through `naive_search` -/

theorem strContains_spec (s1 s2 : List Nat) :
    ∃ b, strContains s1 s2 = some b ∧ (b = true ↔ ∃ n, Occ s1 s2 n) := by
  unfold strContains findSubVector
  obtain ⟨r, hr, hs⟩ := naiveSearch_spec s2 s1 0
  rw [hr]
  cases r with
  | notFound =>
    refine ⟨false, rfl, ?_⟩
    constructor
    · intro h; cases h
    · rintro ⟨n, hn⟩; exact (hs n (Nat.zero_le _) hn).elim
  | found i j => exact ⟨true, rfl, by simp only [true_iff]; exact ⟨i, hs.2.1⟩⟩

/-- closed form of `str_indexof` for a string that fits the length limit and an i32 start index -/
theorem strIndexof_spec (s1 s2 : List Nat) (i : Int) (hlen : s1.length ≤ 2147483647) :
    ∃ r, strIndexof s1 s2 i = some r ∧
      ((0 ≤ i ∧ ∃ n : Nat, i ≤ n ∧ Occ s1 s2 n) →
        ∃ n : Nat, r = n ∧ i ≤ n ∧ Occ s1 s2 n ∧ ∀ n' : Nat, i ≤ n' → Occ s1 s2 n' → n ≤ n') ∧
      (¬ (0 ≤ i ∧ ∃ n : Nat, i ≤ n ∧ Occ s1 s2 n) → r = -1) := by
  unfold strIndexof findSubVector
  rw [usizeAsI32_of_le _ hlen]
  by_cases hg : i < 0 ∨ i > (s1.length : Int)
  · rw [if_pos hg]
    refine ⟨-1, rfl, ?_, fun _ => rfl⟩
    rintro ⟨h0, n, hn, ho⟩
    have := ho.1
    omega
  · rw [if_neg hg]
    have h0 : 0 ≤ i := by omega
    rw [i32AsUsize_of_nonneg i h0]
    obtain ⟨r, hr, hs⟩ := naiveSearch_spec s2 s1 i.toNat
    rw [hr]
    cases r with
    | notFound =>
      refine ⟨-1, rfl, ?_, fun _ => rfl⟩
      rintro ⟨_, n, hn, ho⟩
      exact (hs n (by omega) ho).elim
    | found k j =>
      obtain ⟨h1, h2, h3, h4⟩ := hs
      have hk : k ≤ 2147483647 := by have := h2.1; omega
      refine ⟨_, rfl, ?_, ?_⟩
      · intro _
        refine ⟨k, usizeAsI32_of_le k hk, by omega, h2, ?_⟩
        intro n' hn' ho'
        by_contra hlt
        exact h4 n' (by omega) (by omega) ho'
      · intro hneg
        exact (hneg ⟨h0, k, by omega, h2⟩).elim

theorem strReplace_spec (s p r : List Nat) :
    (¬ (∃ n, Occ s p n) → strReplace s p r = make s) ∧
    ((∃ n, Occ s p n) → ∃ i, Occ s p i ∧ (∀ n, n < i → ¬ Occ s p n) ∧
        strReplace s p r = make (s.take i ++ r ++ s.drop (i + p.length))) := by
  unfold strReplace findSubVector makeFromSlice
  obtain ⟨res, hr, hs⟩ := naiveSearch_spec p s 0
  rw [hr]
  cases res with
  | notFound =>
    refine ⟨fun _ => rfl, ?_⟩
    rintro ⟨n, hn⟩; exact (hs n (Nat.zero_le _) hn).elim
  | found i j =>
    obtain ⟨_, h2, h3, h4⟩ := hs
    refine ⟨fun h => (h ⟨i, h2⟩).elim, fun _ => ⟨i, h2, fun n hn => h4 n (Nat.zero_le _) hn, ?_⟩⟩
    have := h2.1
    subst h3
    simp only [sliceTo?, sliceFrom?]
    rw [if_pos (by omega), if_pos (by omega)]

/-! ### at / substr -/

theorem strSubstr_closed (s : List Nat) (i n : Int) (hlen : s.length ≤ 2147483647)
    (hn : n ≤ 2147483647) :
    strSubstr s i n = some (if 0 ≤ i ∧ i < (s.length : Int) ∧ 0 < n
      then (s.drop i.toNat).take (min n.toNat (s.length - i.toNat)) else []) := by
  unfold strSubstr makeFromSlice
  rw [usizeAsI32_of_le _ hlen]
  by_cases hg : i < 0 ∨ i ≥ (s.length : Int) ∨ n ≤ 0
  · rw [if_pos hg, if_neg (by omega)]
  · rw [if_neg hg, if_pos (by omega)]
    have h0 : 0 ≤ i := by omega
    have hn0 : 0 ≤ n := by omega
    simp only [i32AsUsize_of_nonneg i h0, i32AsUsize_of_nonneg n hn0]
    unfold slice?
    rw [if_pos (by omega)]
    simp only []
    have e : min (i.toNat + n.toNat) s.length - i.toNat = min n.toNat (s.length - i.toNat) := by omega
    rw [e]
    apply make_of_le
    simp only [List.length_take, List.length_drop]
    omega

theorem strAt_closed (s : List Nat) (i : Int) (hlen : s.length ≤ 2147483647) (hwf : WFs s) :
    strAt s i = some (if 0 ≤ i ∧ i < (s.length : Int) then (s.drop i.toNat).take 1 else []) := by
  unfold strAt
  rw [usizeAsI32_of_le _ hlen]
  by_cases hg : i < 0 ∨ i ≥ (s.length : Int)
  · rw [if_pos hg, if_neg (by omega)]
  · rw [if_neg hg, if_pos (by omega)]
    have h0 : 0 ≤ i := by omega
    rw [i32AsUsize_of_nonneg i h0]
    have hlt : i.toNat < s.length := by omega
    rw [List.getElem?_eq_getElem hlt]
    simp only [fromU32]
    have hc : s[i.toNat] ≤ MAX_CHAR := hwf _ (List.getElem_mem hlt)
    rw [if_pos hc, make_of_le _ (by simp)]
    rw [List.drop_eq_getElem_cons hlt, List.take_succ_cons, List.take_zero]

/-! ### replace_all -/

theorem occ_drop (s p : List Nat) (i n : Nat) (hi : i ≤ s.length) :
    Occ (s.drop i) p n ↔ Occ s p (n + i) := by
  unfold Occ
  simp only [List.length_drop, List.getElem?_drop]
  constructor
  · rintro ⟨h1, h2⟩
    refine ⟨by omega, fun t ht => ?_⟩
    rw [h2 t ht]; congr 1; omega
  · rintro ⟨h1, h2⟩
    refine ⟨by omega, fun t ht => ?_⟩
    rw [h2 t ht]; congr 1; omega

/-- The `while let` loop of `str_replace_all`, against any relation `R` closed under the two
    rules of the SMT-LIB definition (no occurrence: identity; leftmost occurrence at `j`:
    `w.take j ++ r ++ (replace_all of the rest)`), both phrased with `Occ`. -/
theorem replaceAllLoop_spec (s p r : List Nat) (hp : 0 < p.length)
    (R : List Nat → List Nat → Prop)
    (hno : ∀ w, (∀ n, ¬ Occ w p n) → R w w)
    (hstep : ∀ w j out, Occ w p j → (∀ n, n < j → ¬ Occ w p n) →
      R (w.drop (j + p.length)) out → R w (w.take j ++ r ++ out))
    (i : Nat) (x : List Nat) (hi : i ≤ s.length) :
    ∃ out, R (s.drop i) out ∧ replaceAllLoop s p r hp i x = make (x ++ out) := by
  fun_induction replaceAllLoop s p r hp i x with
  | case1 i x hf =>
    obtain ⟨res, hr, _⟩ := naiveSearch_spec p s i
    unfold findSubVector at hf; rw [hf] at hr; cases hr
  | case2 i x j k hf hsl =>
    obtain ⟨res, hr, hs⟩ := naiveSearch_spec p s i
    unfold findSubVector at hf; rw [hf] at hr; cases hr
    have := hs.2.1.1
    unfold slice? at hsl
    rw [if_pos ⟨hs.1, by omega⟩] at hsl; cases hsl
  | case3 i x j k hf seg hsl ih =>
    obtain ⟨res, hr, hs⟩ := naiveSearch_spec p s i
    unfold findSubVector at hf; rw [hf] at hr; cases hr
    obtain ⟨h1, h2, h3, h4⟩ := hs
    have hjl := h2.1
    unfold slice? at hsl
    rw [if_pos ⟨h1, by omega⟩] at hsl
    cases hsl
    obtain ⟨out, hR, hloop⟩ := ih (by omega)
    refine ⟨List.take (j - i) (List.drop i s) ++ r ++ out, ?_, ?_⟩
    · apply hstep (s.drop i) (j - i) out
      · rw [occ_drop s p i (j - i) hi]
        have : j - i + i = j := by omega
        rw [this]; exact h2
      · intro n hn ho
        rw [occ_drop s p i n hi] at ho
        exact h4 (n + i) (by omega) (by omega) ho
      · rw [List.drop_drop]
        have : i + (j - i + p.length) = k := by omega
        rw [this]; exact hR
    · rw [hloop]; simp only [List.append_assoc]
  | case4 i x hf hsl =>
    unfold sliceFrom? at hsl
    rw [if_pos hi] at hsl; cases hsl
  | case5 i x hf rest hsl =>
    obtain ⟨res, hr, hs⟩ := naiveSearch_spec p s i
    unfold findSubVector at hf; rw [hf] at hr; cases hr
    unfold sliceFrom? at hsl
    rw [if_pos hi] at hsl; cases hsl
    refine ⟨s.drop i, ?_, rfl⟩
    apply hno
    intro n ho
    rw [occ_drop s p i n hi] at ho
    exact hs (n + i) (by omega) ho

/-! ### to_int / from_int -/

/-- value accumulated by reading the digit string `s` after `acc` -/
def decFold (acc : Nat) (s : List Nat) : Nat := s.foldl (fun a d => 10 * a + (d - 48)) acc

theorem decFold_nil (x : Nat) : decFold x [] = x := by simp only [decFold, List.foldl_nil]
theorem decFold_cons (x d : Nat) (s : List Nat) : decFold x (d :: s) = decFold (10 * x + (d - 48)) s := by
  simp only [decFold, List.foldl_cons]

theorem decFold_ge (x : Nat) (s : List Nat) : x ≤ decFold x s := by
  induction s generalizing x with
  | nil => exact Nat.le_refl _
  | cons d s ih =>
    rw [decFold_cons]
    have := ih (10 * x + (d - 48))
    omega

theorem decFold_append (x : Nat) (s t : List Nat) : decFold x (s ++ t) = decFold (decFold x s) t := by
  simp only [decFold, List.foldl_append]

theorem inI32_iff (x : Int) : inI32 x = true ↔ (-2147483648 ≤ x ∧ x ≤ 2147483647) := by
  unfold inI32
  rw [Bool.and_eq_true, decide_eq_true_iff, decide_eq_true_iff]
  exact Iff.rfl

theorem charIsDigit_iff (c : Nat) : charIsDigit c = true ↔ (48 ≤ c ∧ c ≤ 57) := by
  simp only [charIsDigit, Bool.and_eq_true, decide_eq_true_eq, ge_iff_le]

theorem toIntLoop_spec (pr : Profile) (s : List Nat) (x : Nat)
    (hd : ∀ c ∈ s, charIsDigit c = true) (hx : x ≤ 2147483647) :
    toIntLoop pr s (x : Int) =
      if decFold x s ≤ 2147483647 then some ((decFold x s : Nat) : Int) else none := by
  induction s generalizing x with
  | nil => rw [decFold_nil, if_pos hx, toIntLoop]
  | cons d rest ih =>
    have hdig := (charIsDigit_iff d).1 (hd d (List.mem_cons_self))
    have hrest : ∀ c ∈ rest, charIsDigit c = true := fun c hc => hd c (List.mem_cons_of_mem _ hc)
    have hcast : u32AsI32 d = (d : Int) := u32AsI32_of_le d (by omega)
    have hsub : arithI32 pr ((d : Int) - 48) = some ((d : Int) - 48) := by
      unfold arithI32
      rw [if_pos ((inI32_iff _).2 (by omega))]
    rw [decFold_cons, toIntLoop, toIntStep, hcast, hsub]
    simp only [Option.bind_some]
    have hge := decFold_ge (10 * x + (d - 48)) rest
    by_cases h1 : (x : Int) * 10 ≤ 2147483647
    · have e1 : checkedI32 ((x : Int) * 10) = some ((x : Int) * 10) := by
        unfold checkedI32; rw [if_pos ((inI32_iff _).2 (by omega))]
      rw [e1]
      simp only [Option.bind_some]
      by_cases h2 : (x : Int) * 10 + ((d : Int) - 48) ≤ 2147483647
      · have e2 : checkedI32 ((x : Int) * 10 + ((d : Int) - 48)) = some ((x : Int) * 10 + ((d : Int) - 48)) := by
          unfold checkedI32; rw [if_pos ((inI32_iff _).2 (by omega))]
        rw [e2]
        simp only [Option.bind_some]
        have e3 : (x : Int) * 10 + ((d : Int) - 48) = ((10 * x + (d - 48) : Nat) : Int) := by omega
        rw [e3]
        exact ih (10 * x + (d - 48)) hrest (by omega)
      · have e2 : checkedI32 ((x : Int) * 10 + ((d : Int) - 48)) = none := by
          unfold checkedI32; rw [if_neg]; rw [inI32_iff]; omega
        rw [e2]
        simp only [Option.bind_none]
        rw [if_neg (by omega)]
    · have e1 : checkedI32 ((x : Int) * 10) = none := by
        unfold checkedI32; rw [if_neg]; rw [inI32_iff]; omega
      rw [e1]
      simp only [Option.bind_none]
      rw [if_neg (by omega)]

theorem strToInt_nondigit (pr : Profile) (s : List Nat)
    (h : s = [] ∨ ∃ c ∈ s, charIsDigit c = false) : strToInt pr s = some (-1) := by
  unfold strToInt
  rw [if_pos]
  rcases h with h | ⟨c, hc, hd⟩
  · subst h; rfl
  · have : s.all charIsDigit = false := by
      rw [List.all_eq_false]; exact ⟨c, hc, by simp [hd]⟩
    simp [this]

theorem strToInt_digits (pr : Profile) (s : List Nat)
    (hne : s ≠ []) (hd : ∀ c ∈ s, charIsDigit c = true) :
    strToInt pr s =
      if decFold 0 s ≤ 2147483647 then some ((decFold 0 s : Nat) : Int) else none := by
  unfold strToInt
  have h1 : s.isEmpty = false := by cases s <;> simp_all
  have h2 : s.all charIsDigit = true := List.all_eq_true.2 hd
  rw [if_neg (by simp [h1, h2])]
  exact toIntLoop_spec pr s 0 hd (by omega)

/-! ### decimal digits -/

theorem decDigits_digits (n : Nat) : ∀ c ∈ decDigits n, 48 ≤ c ∧ c ≤ 57 := by
  fun_induction decDigits n with
  | case1 n h => intro c hc; simp at hc; omega
  | case2 n h ih =>
    intro c hc
    rw [List.mem_append] at hc
    rcases hc with hc | hc
    · exact ih c hc
    · simp at hc; omega

theorem decDigits_value (n : Nat) : decFold 0 (decDigits n) = n := by
  fun_induction decDigits n with
  | case1 n h => rw [decFold_cons, decFold_nil]; omega
  | case2 n h ih => rw [decFold_append, ih, decFold_cons, decFold_nil]; omega

theorem decDigits_length_pos (n : Nat) : 0 < (decDigits n).length := by
  fun_induction decDigits n with
  | case1 n h => simp
  | case2 n h ih => simp

theorem decDigits_length_le (n : Nat) : (decDigits n).length ≤ n / 10 + 1 := by
  fun_induction decDigits n with
  | case1 n h => simp
  | case2 n h ih => simp only [List.length_append, List.length_singleton]; omega

/-- no leading zero: `10^(L-1) ≤ n` for `n > 0` -/
theorem decDigits_pow_le (n : Nat) (hn : 0 < n) : 10 ^ ((decDigits n).length - 1) ≤ n := by
  fun_induction decDigits n with
  | case1 n h => simp; omega
  | case2 n h ih =>
    have hpos := decDigits_length_pos (n / 10)
    have := ih (by omega)
    simp only [List.length_append, List.length_singleton, Nat.add_sub_cancel]
    have e : (decDigits (n / 10)).length = ((decDigits (n / 10)).length - 1) + 1 := by omega
    rw [e, Nat.pow_succ]
    omega

/-- a digit string of length `L` read after `x` denotes less than `(x+1)·10^L` -/
theorem decFold_lt (x : Nat) (s : List Nat) (hd : ∀ c ∈ s, charIsDigit c = true) :
    decFold x s < (x + 1) * 10 ^ s.length := by
  induction s generalizing x with
  | nil => rw [decFold_nil]; simp
  | cons d rest ih =>
    have hdig := (charIsDigit_iff d).1 (hd d (List.mem_cons_self))
    have hrest : ∀ c ∈ rest, charIsDigit c = true := fun c hc => hd c (List.mem_cons_of_mem _ hc)
    rw [decFold_cons]
    have h1 := ih (10 * x + (d - 48)) hrest
    have h2 : (10 * x + (d - 48) + 1) * 10 ^ rest.length ≤ ((x + 1) * 10) * 10 ^ rest.length :=
      Nat.mul_le_mul_right _ (by omega)
    rw [List.length_cons, Nat.pow_succ, Nat.mul_comm (10 ^ rest.length) 10, ← Nat.mul_assoc]
    omega

/-- `decDigits n` is a shortest digit string denoting `n` -/
theorem decDigits_shortest (n : Nat) (w : List Nat) (hne : w ≠ [])
    (hd : ∀ c ∈ w, charIsDigit c = true) (hv : decFold 0 w = n) :
    (decDigits n).length ≤ w.length := by
  have hwpos : 0 < w.length := List.length_pos_of_ne_nil hne
  by_cases hn : n = 0
  · subst hn
    have : (decDigits 0).length = 1 := by rw [decDigits]; simp
    omega
  · have h1 := decDigits_pow_le n (by omega)
    have h2 := decFold_lt 0 w hd
    rw [hv, Nat.zero_add, Nat.one_mul] at h2
    by_contra hlt
    have h3 : 10 ^ w.length ≤ 10 ^ ((decDigits n).length - 1) :=
      Nat.pow_le_pow_right (by omega) (by omega)
    omega

theorem strFromInt_closed (x : Int) (h0 : 0 ≤ x) (hx : x ≤ 2147483647) :
    strFromInt x = some (decDigits x.toNat) := by
  unfold strFromInt fromStr
  rw [if_pos h0]
  have hmap : (decDigits x.toNat).map (fun c => if c ≤ MAX_CHAR then c else REPLACEMENT_CHAR)
      = decDigits x.toNat := by
    conv_rhs => rw [← List.map_id (decDigits x.toNat)]
    apply List.map_congr_left
    intro c hc
    have := decDigits_digits _ c hc
    have hm : MAX_CHAR = 196607 := rfl
    rw [if_pos (by omega)]; rfl
  rw [hmap]
  apply make_of_le
  have := decDigits_length_le x.toNat
  omega

theorem strFromInt_neg (x : Int) (h : x < 0) : strFromInt x = some [] := by
  unfold strFromInt; rw [if_neg (by omega)]

end Smt.Str
