/-
  Helper lemmas for C06 / C09 (string functions).  The property theorems are in Props/C06.lean and
  Props/C09.lean; nothing here is a property statement by itself.

  `Occ s p n` is the pointwise form of "p occurs in s at position n" used to talk about the index
  loops; `occ_iff_decomp` connects it with the SMT-LIB decomposition `s = u ++ p ++ v, |u| = n`.
-/
import SmtModel.Model.Strings
import Mathlib.Data.List.Basic

namespace Smt.Str

/-! ### machine integers, make -/

theorem usizeAsI32_of_le (n : Nat) (h : n ≤ 2147483647) : usizeAsI32 n = (n : Int) := by
  unfold usizeAsI32 wrapI32
  have : n % 4294967296 = n := Nat.mod_eq_of_lt (by omega)
  rw [this]
  simp only [Int.ofNat_eq_natCast]
  omega

theorem u32AsI32_of_le (n : Nat) (h : n ≤ 2147483647) : u32AsI32 n = (n : Int) := by
  unfold u32AsI32 wrapI32
  simp only [Int.ofNat_eq_natCast]
  omega

theorem i32AsUsize_of_nonneg (i : Int) (h : 0 ≤ i) : i32AsUsize i = i.toNat := by
  unfold i32AsUsize; rw [if_pos h]

theorem i32AsU32_of_nonneg (i : Int) (h : 0 ≤ i) : i32AsU32 i = i.toNat := by
  unfold i32AsU32; rw [if_pos h]

theorem make_of_le (a : List Nat) (h : a.length ≤ 2147483647) : make a = some a := by
  unfold make; rw [if_neg (by omega)]

/-! ### the index loop -/

theorem cmpLoop_spec (v w : List Nat) (off bound i : Nat)
    (hv : bound ≤ v.length) (hw : bound + off ≤ w.length) (hi : i ≤ bound) :
    ∃ m, cmpLoop v w off bound i = some m ∧ i ≤ m ∧ m ≤ bound ∧
      (∀ t, i ≤ t → t < m → v[t]? = w[t + off]?) ∧ (m < bound → v[m]? ≠ w[m + off]?) := by
  fun_induction cmpLoop v w off bound i with
  | case1 i hlt b hb ha ih =>
    obtain ⟨m, h1, h2, h3, h4, h5⟩ := ih (by omega)
    refine ⟨m, h1, by omega, h3, ?_, h5⟩
    intro t ht1 ht2
    by_cases hti : t = i
    · subst hti; rw [ha, hb]
    · exact h4 t (by omega) ht2
  | case2 i hlt a b hb ha hab =>
    refine ⟨i, rfl, by omega, by omega, by intro t h1 h2; omega, ?_⟩
    intro _; rw [ha, hb]; simpa using hab
  | case3 i hlt hnone =>
    exfalso
    have h1 : i < v.length := by omega
    have h2 : i + off < w.length := by omega
    exact hnone v[i] w[i + off] (by simp [h1]) (by simp [h2])
  | case4 i hge =>
    exact ⟨i, rfl, by omega, by omega, by intro t h1 h2; omega, by intro h; omega⟩

def Occ (s p : List Nat) (n : Nat) : Prop :=
  n + p.length ≤ s.length ∧ ∀ t, t < p.length → p[t]? = s[t + n]?

theorem occ_iff_take_drop (s p : List Nat) (n : Nat) :
    Occ s p n ↔ n + p.length ≤ s.length ∧ (s.drop n).take p.length = p := by
  unfold Occ
  constructor
  · rintro ⟨h1, h2⟩
    refine ⟨h1, ?_⟩
    apply List.ext_getElem?
    intro t
    by_cases ht : t < p.length
    · rw [List.getElem?_take_of_lt ht, List.getElem?_drop, h2 t ht, Nat.add_comm]
    · have : (List.take p.length (List.drop n s)).length ≤ t := by
        simp; omega
      rw [List.getElem?_eq_none this, List.getElem?_eq_none (by omega)]
  · rintro ⟨h1, h2⟩
    refine ⟨h1, ?_⟩
    intro t ht
    conv_lhs => rw [← h2]
    rw [List.getElem?_take_of_lt ht, List.getElem?_drop, Nat.add_comm]

theorem occ_iff_decomp (s p : List Nat) (n : Nat) :
    Occ s p n ↔ ∃ u v, s = u ++ p ++ v ∧ u.length = n := by
  rw [occ_iff_take_drop]
  constructor
  · rintro ⟨h1, h2⟩
    refine ⟨s.take n, s.drop (n + p.length), ?_, by simp; omega⟩
    conv_lhs => rw [← List.take_append_drop n s, ← List.take_append_drop p.length (s.drop n)]
    rw [h2, List.drop_drop, List.append_assoc]
  · rintro ⟨u, v, rfl, rfl⟩
    simp

theorem cmpLoop_full (p s : List Nat) (n : Nat) (h : n + p.length ≤ s.length) :
    ∃ m, cmpLoop p s n p.length 0 = some m ∧ (m = p.length ↔ Occ s p n) := by
  obtain ⟨m, h1, _, h3, h4, h5⟩ := cmpLoop_spec p s n p.length 0 (Nat.le_refl _) (by omega) (Nat.zero_le _)
  refine ⟨m, h1, ?_⟩
  constructor
  · intro hm; subst hm
    exact ⟨h, fun t ht => h4 t (Nat.zero_le _) ht⟩
  · rintro ⟨_, ho⟩
    by_contra hne
    exact h5 (by omega) (ho m (by omega))

def SearchSpec (p s : List Nat) (k : Nat) : SearchResult → Prop
  | .found i j => k ≤ i ∧ Occ s p i ∧ j = i + p.length ∧ ∀ n, k ≤ n → n < i → ¬ Occ s p n
  | .notFound => ∀ n, k ≤ n → ¬ Occ s p n

theorem naiveSearch_spec (p s : List Nat) (k : Nat) :
    ∃ r, naiveSearch p s k = some r ∧ SearchSpec p s k r := by
  fun_induction naiveSearch p s k with
  | case1 i hle hc =>
    obtain ⟨m, hm, _⟩ := cmpLoop_full p s i hle
    rw [hc] at hm; cases hm
  | case2 i hle hc =>
    obtain ⟨m, hm, hiff⟩ := cmpLoop_full p s i hle
    rw [hc] at hm; cases hm
    exact ⟨_, rfl, Nat.le_refl _, hiff.1 rfl, rfl, by intro n h1 h2; omega⟩
  | case3 i hle j hc hj ih =>
    obtain ⟨m, hm, hiff⟩ := cmpLoop_full p s i hle
    rw [hc] at hm; cases hm
    have hno : ¬ Occ s p i := fun ho => hj (hiff.2 ho)
    obtain ⟨r, hr, hs⟩ := ih
    refine ⟨r, hr, ?_⟩
    cases r with
    | notFound =>
      intro n hn
      by_cases hni : n = i
      · subst hni; exact hno
      · exact hs n (by omega)
    | found a b =>
      obtain ⟨h1, h2, h3, h4⟩ := hs
      refine ⟨by omega, h2, h3, ?_⟩
      intro n hn1 hn2
      by_cases hni : n = i
      · subst hni; exact hno
      · exact h4 n (by omega) hn2
  | case4 i hle =>
    refine ⟨_, rfl, ?_⟩
    intro n hn ho
    have := ho.1
    omega

/-! ### structural equations for the comparison loops starting at 0 -/

theorem cmpLoop_cons (a b : Nat) (v w : List Nat) (bound i : Nat) :
    cmpLoop (a :: v) (b :: w) 0 (bound + 1) (i + 1) = (cmpLoop v w 0 bound i).map (· + 1) := by
  fun_induction cmpLoop v w 0 bound i with
  | case1 i hlt c hb ha ih =>
    rw [cmpLoop]; simp_all
  | case2 i hlt c d hb ha hab =>
    rw [cmpLoop]; simp_all
  | case3 i hlt hnone =>
    rw [cmpLoop]
    simp only [Nat.add_lt_add_iff_right, hlt, if_true, List.getElem?_cons_succ, Nat.add_zero]
    split
    · rename_i c d hc hd; exact (hnone c d hc (by simpa using hd)).elim
    · rfl
  | case4 i hge =>
    rw [cmpLoop, if_neg (by omega)]; rfl

theorem vectorLt_nil_left (w : List Nat) : vectorLt [] w = some (decide (0 < w.length)) := by
  simp [vectorLt, cmpLoop]

theorem vectorLt_nil_right (v : List Nat) : vectorLt v [] = some false := by
  simp [vectorLt, cmpLoop]

theorem vectorLt_cons (a b : Nat) (v w : List Nat) :
    vectorLt (a :: v) (b :: w) = if a = b then vectorLt v w else some (decide (a < b)) := by
  unfold vectorLt
  simp only [List.length_cons, Nat.add_min_add_right]
  rw [cmpLoop]
  simp only [Nat.zero_lt_succ, if_true, List.getElem?_cons_zero, Nat.add_zero]
  by_cases hab : a = b
  · simp only [hab, if_true]
    have := cmpLoop_cons b b v w (min v.length w.length) 0
    simp only [Nat.zero_add] at this
    rw [this]
    cases cmpLoop v w 0 (min v.length w.length) 0 with
    | none => rfl
    | some i => simp
  · simp [hab]

end Smt.Str
