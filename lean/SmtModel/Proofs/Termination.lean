/-
  Termination of the BFS searches over the derivative closure (C19), part 1: the generic reduction

      "the set of iterated derivatives of `e` is finite"  ⇒  the searches finish, with explicit fuel.

  `DerivBounded ord e S` says that every iterated derivative of `e` (w.r.t. a well-formed string)
  is a member of the list `S`.  Under the usual bundle `ClosureFacts ord Good` and `Good e`:
    * `iterLoop_terminates` / `iterDerivatives_terminates` : `iterDerivatives ord (S.length+1) e = .ok l`
    * `isEmptyRe_terminates`, `getStringPath_terminates`, `getString_terminates`
  A deriv-closed list that contains `e` bounds the derivatives: `derivBounded_of_closed`.

  Part 2 (finiteness for a fragment) is Proofs/TerminationFrag.lean.
-/
import SmtModel.Proofs.DerivFinal
import SmtModel.Proofs.Closure
import Mathlib.Data.List.Perm.Subperm

namespace Smt
namespace RE

variable {ord : RE → Nat} {Good : RE → Prop}

/-- every iterated derivative of `e` lies in the (finite) list `S` -/
def DerivBounded (ord : RE → Nat) (e : RE) (S : List RE) : Prop :=
  ∀ s, WFs s → strDerivative ord e s ∈ S

/-- `S` is closed under `deriv · c` for every character `c ≤ MAX_CHAR` -/
def DerivClosed (ord : RE → Nat) (S : List RE) : Prop :=
  ∀ x ∈ S, ∀ c, c ≤ MAX_CHAR → deriv ord x c ∈ S

theorem derivBounded_of_closed {e : RE} {S : List RE} (hc : DerivClosed ord S) (he : e ∈ S) :
    DerivBounded ord e S := by
  intro s hs
  induction s using List.reverseRecOn with
  | nil => simpa [strDerivative] using he
  | append_singleton s c ih =>
    rw [wfs_snoc'] at hs
    rw [strDerivative_snoc]
    exact hc _ (ih hs.1) c hs.2

theorem DerivBounded.reach {e : RE} {S : List RE} (h : DerivBounded ord e S) {x : RE}
    (hx : Reach ord e x) : x ∈ S := by
  obtain ⟨s, hs, rfl⟩ := hx
  exact h s hs

/-- the BFS list never gets longer than `S` -/
theorem BInv.length_le_of_bounded {e : RE} {S : List RE} (hb : DerivBounded ord e S)
    {all : List RE} {i : Nat} (h : BInv ord e all i) : all.length ≤ S.length :=
  (List.subperm_of_subset h.nodup (fun x hx => hb.reach (h.reach x hx))).length_le

/-- `iterLoop` finishes as soon as `fuel + i` exceeds the size of a bound of the closure -/
theorem iterLoop_terminates (F : ClosureFacts ord Good) {e : RE} (hg : Good e) {S : List RE}
    (hb : DerivBounded ord e S) :
    ∀ (fuel : Nat) (all : List RE) (i : Nat), BInv ord e all i → S.length + 1 ≤ fuel + i →
      ∃ l, iterLoop ord fuel all i = .ok l := by
  intro fuel
  induction fuel with
  | zero =>
    intro all i h hf
    have := h.length_le_of_bounded hb
    have := h.le
    omega
  | succ fuel ih =>
    intro all i h hf
    rw [iterLoop]
    cases hr : all[i]? with
    | none => exact ⟨all, rfl⟩
    | some r =>
      obtain ⟨ds, hds⟩ := classDerivs_isSome F (h.good_at F hg hr)
      simp only [hds]
      exact ih (pushAll all ds) (i + 1) (h.step F hg hr hds) (by omega)

/-- **the closure is enumerated within `S.length + 1` pops** -/
theorem iterDerivatives_terminates (F : ClosureFacts ord Good) {e : RE} (hg : Good e)
    {S : List RE} (hb : DerivBounded ord e S) :
    ∃ l, iterDerivatives ord (S.length + 1) e = .ok l :=
  iterLoop_terminates F hg hb (S.length + 1) [e] 0 (BInv.init e) (by omega)

/-- `isEmptyLoop` finishes (it may stop early, on a nullable term) -/
theorem isEmptyLoop_terminates (F : ClosureFacts ord Good) {e : RE} (hg : Good e) {S : List RE}
    (hb : DerivBounded ord e S) :
    ∀ (fuel : Nat) (all : List RE) (i : Nat), BInv ord e all i → S.length + 1 ≤ fuel + i →
      ∃ b, isEmptyLoop ord fuel all i = .ok b := by
  intro fuel
  induction fuel with
  | zero =>
    intro all i h hf
    have := h.length_le_of_bounded hb
    have := h.le
    omega
  | succ fuel ih =>
    intro all i h hf
    rw [isEmptyLoop]
    cases hr : all[i]? with
    | none => exact ⟨true, rfl⟩
    | some r =>
      obtain ⟨ds, hds⟩ := classDerivs_isSome F (h.good_at F hg hr)
      simp only [hds]
      cases hn : r.nullable with
      | true => exact ⟨false, by simp⟩
      | false =>
        simp only [Bool.false_eq_true, if_false]
        exact ih (pushAll all ds) (i + 1) (h.step F hg hr hds) (by omega)

theorem isEmptyRe_terminates (F : ClosureFacts ord Good) {e : RE} (hg : Good e)
    {S : List RE} (hb : DerivBounded ord e S) :
    ∃ b, isEmptyRe ord (S.length + 1) e = .ok b :=
  isEmptyLoop_terminates F hg hb (S.length + 1) [e] 0 (BInv.init e) (by omega)

/-- `pathLoop` (the search of `get_string_path`) finishes -/
theorem pathLoop_terminates (F : ClosureFacts ord Good) {e : RE} (hg : Good e) {S : List RE}
    (hb : DerivBounded ord e S) :
    ∀ (fuel : Nat) (m : List LqEntry) (i : Nat), LqWF ord e m → BInv ord e (nodes m) i →
      S.length + 1 ≤ fuel + i → ∃ r, pathLoop ord fuel m i = .ok r := by
  intro fuel
  induction fuel with
  | zero =>
    intro m i _ h hf
    have := h.length_le_of_bounded hb
    have := h.le
    omega
  | succ fuel ih =>
    intro m i hwf h hf
    rw [pathLoop]
    cases hr : m[i]? with
    | none => exact ⟨none, rfl⟩
    | some ent =>
      have hr' : (nodes m)[i]? = some ent.node := by simp [nodes, hr]
      obtain ⟨hi, hri⟩ := List.getElem?_eq_some_iff.1 hr'
      have hmem : ent.node ∈ nodes m := by rw [← hri]; exact List.getElem_mem hi
      simp only
      cases hnr : ent.node.nullable with
      | true =>
        obtain ⟨p, hp, _⟩ := hwf.fullPath hmem
        exact ⟨some p, by simp [hp]⟩
      | false =>
        have hgr := h.good_at F hg hr'
        obtain ⟨ds, hds⟩ := classDerivs_isSome F hgr
        simp only [Bool.false_eq_true, if_false, hds]
        have hwf' : LqWF ord e (lqPushAll m ent.node ds) := by
          apply LqWF.lqPushAll _ hwf hmem
          intro d hd
          exact ⟨(classDerivs_mem F hgr hds hd).1, (classDerivs_some hds).2 d hd⟩
        have hinv := h.step F hg hr' hds
        rw [← nodes_lqPushAll m ent.node ds] at hinv
        exact ih (lqPushAll m ent.node ds) (i + 1) hwf' hinv (by omega)

theorem getStringPath_terminates (F : ClosureFacts ord Good) {e : RE} (hg : Good e)
    {S : List RE} (hb : DerivBounded ord e S) :
    ∃ r, getStringPath ord (S.length + 1) e = .ok r :=
  pathLoop_terminates F hg hb (S.length + 1) [⟨e, none⟩] 0 .root (BInv.init e) (by omega)

/-- `get_string` does not run out of fuel (that it does not panic either is C05) -/
theorem getString_not_outOfFuel (F : ClosureFacts ord Good) {e : RE} (hg : Good e)
    {S : List RE} (hb : DerivBounded ord e S) :
    getString ord (S.length + 1) e ≠ .outOfFuel := by
  obtain ⟨r, hr⟩ := getStringPath_terminates F hg hb
  unfold getString
  rw [hr]
  cases r with
  | none => simp
  | some p =>
    simp only
    split <;> simp

end RE
end Smt
