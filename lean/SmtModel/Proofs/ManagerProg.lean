/-
  Helper lemmas for Props/C07Refine.lean, part 5: whole construction programs (Model/Prog.lean) run
  statefully (`Mgr.runProg`) build the term `build (ordOf T) p` for every later table `T`, are
  hash-consed as a whole, and panic exactly when `build` does.
-/
import SmtModel.Proofs.ManagerDeriv

namespace Smt
namespace MgrProg
open Smt RE Node MgrInv MgrCons MgrSet MgrDeriv

/-! ### the sequencing combinators of `runProg` -/

theorem seq1_eq_some {α : Type} {a : Mgr → Option (Mgr × α)} {f : Mgr → α → Mgr × Nat}
    {m m' : Mgr} {r : Nat} :
    Mgr.seq1 a f m = some (m', r) ↔ ∃ m1 x, a m = some (m1, x) ∧ f m1 x = (m', r) := by
  unfold Mgr.seq1
  cases a m with
  | none => simp
  | some r1 => obtain ⟨m1, x⟩ := r1; simp

theorem seq2_eq_some {α β : Type} {a : Mgr → Option (Mgr × α)} {b : Mgr → Option (Mgr × β)}
    {f : Mgr → α → β → Mgr × Nat} {m m' : Mgr} {r : Nat} :
    Mgr.seq2 a b f m = some (m', r) ↔
      ∃ m1 x m2 y, a m = some (m1, x) ∧ b m1 = some (m2, y) ∧ f m2 x y = (m', r) := by
  unfold Mgr.seq2
  cases a m with
  | none => simp
  | some r1 =>
    obtain ⟨m1, x⟩ := r1
    simp only
    cases hb : b m1 with
    | none => simp [hb]
    | some r2 => obtain ⟨m2, y⟩ := r2; simp [hb]

theorem seq1_eq_none {α : Type} {a : Mgr → Option (Mgr × α)} {f : Mgr → α → Mgr × Nat} {m : Mgr} :
    Mgr.seq1 a f m = none ↔ a m = none := by
  unfold Mgr.seq1
  cases a m <;> simp

theorem seq2_eq_none {α β : Type} {a : Mgr → Option (Mgr × α)} {b : Mgr → Option (Mgr × β)}
    {f : Mgr → α → β → Mgr × Nat} {m : Mgr} :
    Mgr.seq2 a b f m = none ↔ a m = none ∨ ∃ m1 x, a m = some (m1, x) ∧ b m1 = none := by
  unfold Mgr.seq2
  cases a m with
  | none => simp
  | some r1 =>
    obtain ⟨m1, x⟩ := r1
    simp only
    cases hb : b m1 <;> simp [hb]

/-! ### what running a program guarantees -/

/-- `run` (a stateful program) refines `B` (the same program on trees under an id assignment):
    whenever it returns, the table invariant is kept, the table only grew, the cache is untouched,
    the returned id holds the tree `B (ordOf T)` for EVERY later table `T`, and re-running it in any
    later state returns the same id and allocates nothing -/
def RunOK (run : Mgr → Option (Mgr × Nat)) (B : (RE → Nat) → Option RE) : Prop :=
  ∀ m m' r, TableOK m.tbl → run m = some (m', r) →
    ∃ e, Post m m' r e ∧ (∀ T, m'.tbl <+: T → TableOK T → B (ordOf T) = some e) ∧
      ∀ m2, Later m' m2 → run m2 = some (m2, r)

/-- list of results -/
structure PostL (m m' : Mgr) (rs : List Nat) (es : List RE) : Prop where
  ok : TableOK m'.tbl
  ext : m.tbl <+: m'.tbl
  cache : m'.cache = m.cache
  rep : List.Forall₂ (fun i e => treeOf m'.tbl i = some e) rs es

def RunOKL (run : Mgr → Option (Mgr × List Nat)) (B : (RE → Nat) → Option (List RE)) : Prop :=
  ∀ m m' rs, TableOK m.tbl → run m = some (m', rs) →
    ∃ es, PostL m m' rs es ∧ (∀ T, m'.tbl <+: T → TableOK T → B (ordOf T) = some es) ∧
      ∀ m2, Later m' m2 → run m2 = some (m2, rs)

theorem RunOK.congr {run run' : Mgr → Option (Mgr × Nat)} {B B' : (RE → Nat) → Option RE}
    (h1 : ∀ m, run m = run' m) (h2 : ∀ ord, B ord = B' ord) (h : RunOK run' B') : RunOK run B := by
  intro m m' r hm hr
  rw [h1] at hr
  obtain ⟨e, p, hB, hs⟩ := h m m' r hm hr
  exact ⟨e, p, fun T hp hT => by rw [h2]; exact hB T hp hT, fun m2 hl => by rw [h1]; exact hs m2 hl⟩

theorem RunOKL.congr {run run' : Mgr → Option (Mgr × List Nat)}
    {B B' : (RE → Nat) → Option (List RE)}
    (h1 : ∀ m, run m = run' m) (h2 : ∀ ord, B ord = B' ord) (h : RunOKL run' B') : RunOKL run B := by
  intro m m' r hm hr
  rw [h1] at hr
  obtain ⟨e, p, hB, hs⟩ := h m m' r hm hr
  exact ⟨e, p, fun T hp hT => by rw [h2]; exact hB T hp hT, fun m2 hl => by rw [h1]; exact hs m2 hl⟩

/-- a constructor without arguments -/
theorem runOK_of_good {op : Mgr → Mgr × Nat} {e : RE} (h : ∀ m, TableOK m.tbl → Good op m e) :
    RunOK (fun m => some (op m)) (fun _ => some e) := by
  intro m m' r hm hr
  simp only [Option.some.injEq] at hr
  have g := h m hm
  refine ⟨e, ?_, fun _ _ _ => rfl, ?_⟩
  · have := g.post; rw [hr] at this; exact this
  · intro m2 hl
    have := g.stable m2 (by rw [hr]; exact hl)
    rw [hr] at this
    simp only [this]

/-- a constructor without term arguments that may panic -/
theorem runOK_of_goodO {op : Mgr → Option (Mgr × Nat)} {eo : Option RE}
    (h : ∀ m, TableOK m.tbl → GoodO op m eo) : RunOK op (fun _ => eo) := by
  intro m m' r hm hr
  have g := h m hm
  cases eo with
  | none =>
    have := g m (Later.refl hm)
    rw [this] at hr; cases hr
  | some e =>
    obtain ⟨op', heq, hg⟩ := g
    have h0 := heq m (Later.refl hm)
    rw [hr] at h0
    simp only [Option.some.injEq] at h0
    refine ⟨e, ?_, fun _ _ _ => rfl, ?_⟩
    · have := hg.post; rw [← h0] at this; exact this
    · intro m2 hl
      have hl' : Later (op' m).1 m2 := by rw [← h0]; exact hl
      rw [heq m2 (Later.trans hg.post.ext hl'), hg.stable m2 hl', ← h0]

/-! ### the shapes of constructor lemmas -/

def UnaryOK (f : Mgr → Nat → Mgr × Nat) (F : (RE → Nat) → RE → RE) : Prop :=
  ∀ m1 r1 t1, TableOK m1.tbl → treeOf m1.tbl r1 = some t1 →
    Good (fun m => f m r1) m1 (F (ordOf m1.tbl) t1) ∧
    ∀ T, TableOK T → m1.tbl <+: T → F (ordOf T) t1 = F (ordOf m1.tbl) t1

def BinaryOK (f : Mgr → Nat → Nat → Mgr × Nat) (F : (RE → Nat) → RE → RE → RE) : Prop :=
  ∀ m1 r1 r2 t1 t2, TableOK m1.tbl → treeOf m1.tbl r1 = some t1 → treeOf m1.tbl r2 = some t2 →
    Good (fun m => f m r1 r2) m1 (F (ordOf m1.tbl) t1 t2) ∧
    ∀ T, TableOK T → m1.tbl <+: T → F (ordOf T) t1 t2 = F (ordOf m1.tbl) t1 t2

def ListOK (f : Mgr → List Nat → Mgr × Nat) (F : (RE → Nat) → List RE → RE) : Prop :=
  ∀ m1 rs ts, TableOK m1.tbl → List.Forall₂ (fun i e => treeOf m1.tbl i = some e) rs ts →
    Good (fun m => f m rs) m1 (F (ordOf m1.tbl) ts) ∧
    ∀ T, TableOK T → m1.tbl <+: T → F (ordOf T) ts = F (ordOf m1.tbl) ts

def BinListOK (f : Mgr → Nat → List Nat → Mgr × Nat) (F : (RE → Nat) → RE → List RE → RE) : Prop :=
  ∀ m1 r1 rs t1 ts, TableOK m1.tbl → treeOf m1.tbl r1 = some t1 →
    List.Forall₂ (fun i e => treeOf m1.tbl i = some e) rs ts →
    Good (fun m => f m r1 rs) m1 (F (ordOf m1.tbl) t1 ts) ∧
    ∀ T, TableOK T → m1.tbl <+: T → F (ordOf T) t1 ts = F (ordOf m1.tbl) t1 ts

theorem runOK_seq1 {a : Mgr → Option (Mgr × Nat)} {A : (RE → Nat) → Option RE}
    {f : Mgr → Nat → Mgr × Nat} {F : (RE → Nat) → RE → RE} (hf : UnaryOK f F) (ha : RunOK a A) :
    RunOK (Mgr.seq1 a f) (fun ord => (A ord).map (F ord)) := by
  intro m m' r hm hr
  obtain ⟨m1, x, ha1, hf1⟩ := seq1_eq_some.1 hr
  obtain ⟨e1, p1, B1, s1⟩ := ha m m1 x hm ha1
  obtain ⟨g, lat⟩ := hf m1 x e1 p1.ok p1.rep
  have gp : Post m1 m' r (F (ordOf m1.tbl) e1) := by have := g.post; rw [hf1] at this; exact this
  refine ⟨_, ⟨gp.ok, List.IsPrefix.trans p1.ext gp.ext, gp.cache.trans p1.cache, gp.rep⟩, ?_, ?_⟩
  · intro T hp hT
    have hp1 := List.IsPrefix.trans gp.ext hp
    simp only [B1 T hp1 hT, Option.map_some, lat T hT hp1]
  · intro m2 hl
    have hl' : Later (f m1 x).1 m2 := by rw [hf1]; exact hl
    have := g.stable m2 hl'
    simp only [hf1] at this
    simp only [Mgr.seq1, s1 m2 (Later.trans gp.ext hl), this]

theorem runOK_seq2 {a b : Mgr → Option (Mgr × Nat)} {A B : (RE → Nat) → Option RE}
    {f : Mgr → Nat → Nat → Mgr × Nat} {F : (RE → Nat) → RE → RE → RE} (hf : BinaryOK f F)
    (ha : RunOK a A) (hb : RunOK b B) :
    RunOK (Mgr.seq2 a b f) (fun ord => call2 (F ord) (A ord) (B ord)) := by
  intro m m' r hm hr
  obtain ⟨m1, x, m2, y, ha1, hb1, hf1⟩ := seq2_eq_some.1 hr
  obtain ⟨e1, p1, B1, s1⟩ := ha m m1 x hm ha1
  obtain ⟨e2, p2, B2, s2⟩ := hb m1 m2 y p1.ok hb1
  obtain ⟨g, lat⟩ := hf m2 x y e1 e2 p2.ok (treeOf_prefix p2.ext p1.rep) p2.rep
  have gp : Post m2 m' r (F (ordOf m2.tbl) e1 e2) := by
    have := g.post; rw [hf1] at this; exact this
  refine ⟨_, ⟨gp.ok, List.IsPrefix.trans p1.ext (List.IsPrefix.trans p2.ext gp.ext),
    gp.cache.trans (p2.cache.trans p1.cache), gp.rep⟩, ?_, ?_⟩
  · intro T hp hT
    have hp2 := List.IsPrefix.trans gp.ext hp
    have hp1 := List.IsPrefix.trans p2.ext hp2
    simp only [B1 T hp1 hT, B2 T hp2 hT, call2, lat T hT hp2]
  · intro M hl
    have hl' : Later (f m2 x y).1 M := by rw [hf1]; exact hl
    have := g.stable M hl'
    simp only [hf1] at this
    have hl2 := Later.trans gp.ext hl
    simp only [Mgr.seq2, s1 M (Later.trans p2.ext hl2), s2 M hl2, this]

theorem runOK_seq1L {a : Mgr → Option (Mgr × List Nat)} {A : (RE → Nat) → Option (List RE)}
    {f : Mgr → List Nat → Mgr × Nat} {F : (RE → Nat) → List RE → RE} (hf : ListOK f F)
    (ha : RunOKL a A) : RunOK (Mgr.seq1 a f) (fun ord => (A ord).map (F ord)) := by
  intro m m' r hm hr
  obtain ⟨m1, x, ha1, hf1⟩ := seq1_eq_some.1 hr
  obtain ⟨e1, p1, B1, s1⟩ := ha m m1 x hm ha1
  obtain ⟨g, lat⟩ := hf m1 x e1 p1.ok p1.rep
  have gp : Post m1 m' r (F (ordOf m1.tbl) e1) := by have := g.post; rw [hf1] at this; exact this
  refine ⟨_, ⟨gp.ok, List.IsPrefix.trans p1.ext gp.ext, gp.cache.trans p1.cache, gp.rep⟩, ?_, ?_⟩
  · intro T hp hT
    have hp1 := List.IsPrefix.trans gp.ext hp
    simp only [B1 T hp1 hT, Option.map_some, lat T hT hp1]
  · intro m2 hl
    have hl' : Later (f m1 x).1 m2 := by rw [hf1]; exact hl
    have := g.stable m2 hl'
    simp only [hf1] at this
    simp only [Mgr.seq1, s1 m2 (Later.trans gp.ext hl), this]

theorem runOK_seq2L {a : Mgr → Option (Mgr × Nat)} {b : Mgr → Option (Mgr × List Nat)}
    {A : (RE → Nat) → Option RE} {B : (RE → Nat) → Option (List RE)}
    {f : Mgr → Nat → List Nat → Mgr × Nat} {F : (RE → Nat) → RE → List RE → RE}
    (hf : BinListOK f F) (ha : RunOK a A) (hb : RunOKL b B) :
    RunOK (Mgr.seq2 a b f) (fun ord => call2 (F ord) (A ord) (B ord)) := by
  intro m m' r hm hr
  obtain ⟨m1, x, m2, y, ha1, hb1, hf1⟩ := seq2_eq_some.1 hr
  obtain ⟨e1, p1, B1, s1⟩ := ha m m1 x hm ha1
  obtain ⟨e2, p2, B2, s2⟩ := hb m1 m2 y p1.ok hb1
  obtain ⟨g, lat⟩ := hf m2 x y e1 e2 p2.ok (treeOf_prefix p2.ext p1.rep) p2.rep
  have gp : Post m2 m' r (F (ordOf m2.tbl) e1 e2) := by
    have := g.post; rw [hf1] at this; exact this
  refine ⟨_, ⟨gp.ok, List.IsPrefix.trans p1.ext (List.IsPrefix.trans p2.ext gp.ext),
    gp.cache.trans (p2.cache.trans p1.cache), gp.rep⟩, ?_, ?_⟩
  · intro T hp hT
    have hp2 := List.IsPrefix.trans gp.ext hp
    have hp1 := List.IsPrefix.trans p2.ext hp2
    simp only [B1 T hp1 hT, B2 T hp2 hT, call2, lat T hT hp2]
  · intro M hl
    have hl' : Later (f m2 x y).1 M := by rw [hf1]; exact hl
    have := g.stable M hl'
    simp only [hf1] at this
    have hl2 := Later.trans gp.ext hl
    simp only [Mgr.seq2, s1 M (Later.trans p2.ext hl2), s2 M hl2, this]

/-! ### every constructor has the right shape -/

theorem unaryOK_of_good {f : Mgr → Nat → Mgr × Nat} {F : RE → RE}
    (h : ∀ m1 r1 t1, TableOK m1.tbl → treeOf m1.tbl r1 = some t1 →
      Good (fun m => f m r1) m1 (F t1)) : UnaryOK f (fun _ => F) :=
  fun m1 r1 t1 hm hr => ⟨h m1 r1 t1 hm hr, fun _ _ _ => rfl⟩

theorem complement_ok : UnaryOK Mgr.complementM (fun _ => RE.complement) :=
  unaryOK_of_good (fun _ _ _ hm hr => good_complement hm hr)
theorem mkLoop_ok (rg : LoopRange) :
    UnaryOK (fun m e => m.mkLoopM e rg) (fun _ t => mkLoop t rg) :=
  unaryOK_of_good (fun _ _ _ hm hr => good_mkLoop hm hr rg)
theorem smtLoop_ok (i j : Nat) :
    UnaryOK (fun m e => m.smtLoopM e i j) (fun _ t => smtLoop t i j) := by
  apply unaryOK_of_good
  intro m1 r1 t1 hm hr
  by_cases hij : i ≤ j
  · simp only [smtLoop, if_pos hij]
    exact good_congr hm (fun m2 _ => by simp only [Mgr.smtLoopM, if_pos hij]) (good_mkLoop hm hr _)
  · simp only [smtLoop, if_neg hij]
    exact good_congr hm (fun m2 _ => by simp only [Mgr.smtLoopM, if_neg hij])
      (good_ret hm (tree_emptyId hm))

theorem concat_ok : BinaryOK Mgr.concatM (fun _ => mkConcat) :=
  fun _ _ _ _ _ hm h1 h2 => ⟨good_concat hm h1 h2, fun _ _ _ => rfl⟩
theorem union_ok : BinaryOK Mgr.unionM mkUnion :=
  fun _ _ _ _ _ hm h1 h2 => good_union hm h1 h2
theorem inter_ok : BinaryOK Mgr.interM mkInter :=
  fun _ _ _ _ _ hm h1 h2 => good_inter hm h1 h2
theorem diff_ok : BinaryOK Mgr.diffM mkDiff :=
  fun _ _ _ _ _ hm h1 h2 => good_diff hm h1 h2

theorem concatList_ok : ListOK Mgr.concatListM (fun _ => concatList) := by
  intro m1 rs ts hm hf
  obtain ⟨hv, hmap⟩ := forall₂_treeD hf
  have := good_concatList hm hv
  rw [hmap] at this
  exact ⟨this, fun _ _ _ => rfl⟩
theorem unionList_ok : ListOK Mgr.unionListM mkUnionList := by
  intro m1 rs ts hm hf
  obtain ⟨hv, hmap⟩ := forall₂_treeD hf
  have := good_unionList hm hv
  rw [hmap] at this
  exact this
theorem interList_ok : ListOK Mgr.interListM mkInterList := by
  intro m1 rs ts hm hf
  obtain ⟨hv, hmap⟩ := forall₂_treeD hf
  have := good_interList hm hv
  rw [hmap] at this
  exact this
theorem diffList_ok : BinListOK Mgr.diffListM mkDiffList := by
  intro m1 r1 rs t1 ts hm h1 hf
  obtain ⟨hv, hmap⟩ := forall₂_treeD hf
  have := good_diffList hm h1 hv
  rw [hmap] at this
  exact this

/-! ### programs -/

theorem runOKL_nil : RunOKL (fun m => some (m, [])) (fun _ => some []) := by
  intro m m' rs hm hr
  simp only [Option.some.injEq, Prod.mk.injEq] at hr
  obtain ⟨rfl, rfl⟩ := hr
  exact ⟨[], ⟨hm, List.prefix_refl _, rfl, .nil⟩, fun _ _ _ => rfl, fun _ _ => rfl⟩

theorem runOKL_cons {a : Mgr → Option (Mgr × Nat)} {b : Mgr → Option (Mgr × List Nat)}
    {A : (RE → Nat) → Option RE} {B : (RE → Nat) → Option (List RE)}
    (ha : RunOK a A) (hb : RunOKL b B) :
    RunOKL (Mgr.seqCons a b) (fun ord => call2 List.cons (A ord) (B ord)) := by
  intro m m' rs hm hr
  unfold Mgr.seqCons at hr
  cases ha1 : a m with
  | none => rw [ha1] at hr; cases hr
  | some r1 =>
    obtain ⟨m1, x⟩ := r1
    rw [ha1] at hr
    simp only at hr
    cases hb1 : b m1 with
    | none => rw [hb1] at hr; cases hr
    | some r2 =>
      obtain ⟨m2, ys⟩ := r2
      rw [hb1] at hr
      simp only [Option.some.injEq, Prod.mk.injEq] at hr
      obtain ⟨rfl, rfl⟩ := hr
      obtain ⟨e1, p1, B1, s1⟩ := ha m m1 x hm ha1
      obtain ⟨es, p2, B2, s2⟩ := hb m1 m2 ys p1.ok hb1
      refine ⟨e1 :: es, ⟨p2.ok, List.IsPrefix.trans p1.ext p2.ext, p2.cache.trans p1.cache,
        .cons (treeOf_prefix p2.ext p1.rep) p2.rep⟩, ?_, ?_⟩
      · intro T hp hT
        simp only [B1 T (List.IsPrefix.trans p2.ext hp) hT, B2 T hp hT, call2]
      · intro M hl
        simp only [Mgr.seqCons, s1 M (Later.trans p2.ext hl), s2 M hl]

mutual
/-- **a whole program, run statefully, builds `build (ordOf T) p` for every later table `T`** -/
theorem runProg_ok : ∀ (p : Prog), RunOK (fun m => m.runProg p) (fun ord => build ord p)
  | .none => RunOK.congr (fun _ => by rw [Mgr.runProg]) (fun _ => by rw [build])
      (runOK_of_good (op := fun m => (m, Mgr.emptyId)) (fun _ hm => good_ret hm (tree_emptyId hm)))
  | .all => RunOK.congr (fun _ => by rw [Mgr.runProg]) (fun _ => by rw [build])
      (runOK_of_good (op := fun m => (m, Mgr.sigmaStarId))
        (fun _ hm => good_ret hm (tree_sigmaStar hm)))
  | .allchar => RunOK.congr (fun _ => by rw [Mgr.runProg]) (fun _ => by rw [build])
      (runOK_of_good (op := fun m => (m, Mgr.sigmaId)) (fun _ hm => good_ret hm (tree_sigma hm)))
  | .eps => RunOK.congr (fun _ => by rw [Mgr.runProg]) (fun _ => by rw [build])
      (runOK_of_good (op := fun m => (m, Mgr.epsilonId))
        (fun _ hm => good_ret hm (tree_epsilonId hm)))
  | .sigmaPlus => RunOK.congr (fun _ => by rw [Mgr.runProg]) (fun _ => by rw [build])
      (runOK_of_good (op := fun m => (m, Mgr.sigmaPlusId))
        (fun _ hm => good_ret hm (tree_sigmaPlus hm)))
  | .range a b => RunOK.congr (fun _ => by rw [Mgr.runProg]) (fun _ => by rw [build])
      (runOK_of_goodO (fun _ hm => goodO_range hm a b))
  | .char c => RunOK.congr (fun _ => by rw [Mgr.runProg]) (fun _ => by rw [build])
      (runOK_of_goodO (fun _ hm => goodO_char hm c))
  | .smtRange s1 s2 => RunOK.congr (fun _ => by rw [Mgr.runProg]) (fun _ => by rw [build])
      (runOK_of_good (op := fun m => m.smtRangeM s1 s2) (fun _ hm => good_smtRange hm s1 s2))
  | .str s => RunOK.congr (fun _ => by rw [Mgr.runProg]) (fun _ => by rw [build])
      (runOK_of_goodO (fun _ hm => goodO_str hm s))
  | .charSet cs => RunOK.congr (fun _ => by rw [Mgr.runProg]) (fun _ => by rw [build])
      (runOK_of_good (op := fun m => m.charSetM cs) (fun _ hm => good_charSet hm cs))
  | .concat p q => RunOK.congr (fun _ => by rw [Mgr.runProg]) (fun _ => by rw [build])
      (runOK_seq2 concat_ok (runProg_ok p) (runProg_ok q))
  | .concatList ps => RunOK.congr (fun _ => by rw [Mgr.runProg]) (fun _ => by rw [build])
      (runOK_seq1L concatList_ok (runProgList_ok ps))
  | .union p q => RunOK.congr (fun _ => by rw [Mgr.runProg]) (fun _ => by rw [build])
      (runOK_seq2 union_ok (runProg_ok p) (runProg_ok q))
  | .unionList ps => RunOK.congr (fun _ => by rw [Mgr.runProg]) (fun _ => by rw [build])
      (runOK_seq1L unionList_ok (runProgList_ok ps))
  | .inter p q => RunOK.congr (fun _ => by rw [Mgr.runProg]) (fun _ => by rw [build])
      (runOK_seq2 inter_ok (runProg_ok p) (runProg_ok q))
  | .interList ps => RunOK.congr (fun _ => by rw [Mgr.runProg]) (fun _ => by rw [build])
      (runOK_seq1L interList_ok (runProgList_ok ps))
  | .comp p => RunOK.congr (fun _ => by rw [Mgr.runProg]) (fun _ => by rw [build])
      (runOK_seq1 complement_ok (runProg_ok p))
  | .diff p q => RunOK.congr (fun _ => by rw [Mgr.runProg]) (fun _ => by rw [build])
      (runOK_seq2 diff_ok (runProg_ok p) (runProg_ok q))
  | .diffList p qs => RunOK.congr (fun _ => by rw [Mgr.runProg]) (fun _ => by rw [build])
      (runOK_seq2L diffList_ok (runProg_ok p) (runProgList_ok qs))
  | .star p => RunOK.congr (fun _ => by rw [Mgr.runProg]; rfl) (fun _ => by rw [build]; rfl)
      (runOK_seq1 (mkLoop_ok LoopRange.star) (runProg_ok p))
  | .plus p => RunOK.congr (fun _ => by rw [Mgr.runProg]; rfl) (fun _ => by rw [build]; rfl)
      (runOK_seq1 (mkLoop_ok LoopRange.plus) (runProg_ok p))
  | .opt p => RunOK.congr (fun _ => by rw [Mgr.runProg]; rfl) (fun _ => by rw [build]; rfl)
      (runOK_seq1 (mkLoop_ok LoopRange.opt) (runProg_ok p))
  | .exp p k => RunOK.congr (fun _ => by rw [Mgr.runProg]; rfl) (fun _ => by rw [build]; rfl)
      (runOK_seq1 (mkLoop_ok (LoopRange.point k)) (runProg_ok p))
  | .smtLoop p i j => RunOK.congr (fun _ => by rw [Mgr.runProg]) (fun _ => by rw [build])
      (runOK_seq1 (smtLoop_ok i j) (runProg_ok p))
  | .mkLoop p rg => RunOK.congr (fun _ => by rw [Mgr.runProg]) (fun _ => by rw [build])
      (runOK_seq1 (mkLoop_ok rg) (runProg_ok p))
theorem runProgList_ok : ∀ (ps : List Prog),
    RunOKL (fun m => m.runProgList ps) (fun ord => buildList ord ps)
  | [] => RunOKL.congr (fun _ => by rw [Mgr.runProgList]) (fun _ => by rw [buildList]) runOKL_nil
  | p :: ps => RunOKL.congr (fun _ => by rw [Mgr.runProgList]) (fun _ => by rw [buildList])
      (runOKL_cons (runProg_ok p) (runProgList_ok ps))
end

/-! ### the panic channel: `runProg` panics exactly when `build` does (no hypothesis at all) -/

theorem seq1_none_iff {α γ δ : Type} {a : Mgr → Option (Mgr × α)} {f : Mgr → α → Mgr × Nat}
    {A : Option γ} {F : γ → δ} (ha : ∀ m, a m = none ↔ A = none) (m : Mgr) :
    Mgr.seq1 a f m = none ↔ A.map F = none := by
  rw [seq1_eq_none, ha m]
  cases A <;> simp

theorem seq2_none_iff {α β γ δ ε : Type} {a : Mgr → Option (Mgr × α)} {b : Mgr → Option (Mgr × β)}
    {f : Mgr → α → β → Mgr × Nat} {A : Option γ} {B : Option δ} {F : γ → δ → ε}
    (ha : ∀ m, a m = none ↔ A = none) (hb : ∀ m, b m = none ↔ B = none) (m : Mgr) :
    Mgr.seq2 a b f m = none ↔ call2 F A B = none := by
  rw [seq2_eq_none, call2_eq_none_iff]
  constructor
  · rintro (h | ⟨m1, x, _, h⟩)
    · exact Or.inl ((ha m).1 h)
    · exact Or.inr ((hb m1).1 h)
  · rintro (h | h)
    · exact Or.inl ((ha m).2 h)
    · cases hm : a m with
      | none => exact Or.inl rfl
      | some r1 => exact Or.inr ⟨r1.1, r1.2, rfl, (hb r1.1).2 h⟩

theorem seqCons_none_iff {a : Mgr → Option (Mgr × Nat)} {b : Mgr → Option (Mgr × List Nat)}
    {A : Option RE} {B : Option (List RE)}
    (ha : ∀ m, a m = none ↔ A = none) (hb : ∀ m, b m = none ↔ B = none) (m : Mgr) :
    Mgr.seqCons a b m = none ↔ call2 List.cons A B = none := by
  rw [call2_eq_none_iff]
  unfold Mgr.seqCons
  cases hm : a m with
  | none => simp [(ha m).1 hm]
  | some r1 =>
    have hA : A ≠ none := fun h => by rw [(ha m).2 h] at hm; cases hm
    simp only [hA, false_or]
    cases hb1 : b r1.1 with
    | none => simp [(hb r1.1).1 hb1]
    | some r2 =>
      have hB : B ≠ none := fun h => by rw [(hb r1.1).2 h] at hb1; cases hb1
      simp [hB]

theorem charM_none_iff (m : Mgr) (c : Nat) : m.charM c = none ↔ char? c = none := by
  unfold Mgr.charM char?
  split <;> simp

theorem rangeM_none_iff (m : Mgr) (a b : Nat) : m.rangeM a b = none ↔ range? a b = none := by
  unfold Mgr.rangeM range?
  split <;> simp

theorem strM_none_iff : ∀ (s : List Nat) (m : Mgr), m.strM s = none ↔ str? s = none := by
  intro s
  induction s with
  | nil => intro m; simp [Mgr.strM, str?]
  | cons c rest ih =>
    intro m
    simp only [Mgr.strM, str?]
    cases hr : m.strM rest with
    | none =>
      have := (ih m).1 hr
      simp [this]
    | some r1 =>
      have hne : str? rest ≠ none := fun h => by rw [(ih m).2 h] at hr; cases hr
      obtain ⟨re, hre⟩ := Option.ne_none_iff_exists'.1 hne
      simp only [hre, Option.bind_eq_bind, Option.bind_some]
      cases hc : r1.1.charM c with
      | none =>
        have := (charM_none_iff r1.1 c).1 hc
        simp [this]
      | some r2 =>
        have hne' : char? c ≠ none := fun h => by rw [(charM_none_iff r1.1 c).2 h] at hc; cases hc
        obtain ⟨ch, hch⟩ := Option.ne_none_iff_exists'.1 hne'
        simp [hch]

mutual
theorem runProg_none_iff : ∀ (p : Prog) (ord : RE → Nat) (m : Mgr),
    m.runProg p = none ↔ build ord p = none
  | .none, _, _ => by simp [Mgr.runProg, build]
  | .all, _, _ => by simp [Mgr.runProg, build]
  | .allchar, _, _ => by simp [Mgr.runProg, build]
  | .eps, _, _ => by simp [Mgr.runProg, build]
  | .sigmaPlus, _, _ => by simp [Mgr.runProg, build]
  | .range a b, _, m => by rw [Mgr.runProg, build]; exact rangeM_none_iff m a b
  | .char c, _, m => by rw [Mgr.runProg, build]; exact charM_none_iff m c
  | .smtRange _ _, _, _ => by simp [Mgr.runProg, build]
  | .str s, _, m => by rw [Mgr.runProg, build]; exact strM_none_iff s m
  | .charSet _, _, _ => by simp [Mgr.runProg, build]
  | .concat p q, ord, m => by
      rw [Mgr.runProg, build]
      exact seq2_none_iff (runProg_none_iff p ord) (runProg_none_iff q ord) m
  | .concatList ps, ord, m => by
      rw [Mgr.runProg, build]; exact seq1_none_iff (runProgList_none_iff ps ord) m
  | .union p q, ord, m => by
      rw [Mgr.runProg, build]
      exact seq2_none_iff (runProg_none_iff p ord) (runProg_none_iff q ord) m
  | .unionList ps, ord, m => by
      rw [Mgr.runProg, build]; exact seq1_none_iff (runProgList_none_iff ps ord) m
  | .inter p q, ord, m => by
      rw [Mgr.runProg, build]
      exact seq2_none_iff (runProg_none_iff p ord) (runProg_none_iff q ord) m
  | .interList ps, ord, m => by
      rw [Mgr.runProg, build]; exact seq1_none_iff (runProgList_none_iff ps ord) m
  | .comp p, ord, m => by
      rw [Mgr.runProg, build]; exact seq1_none_iff (runProg_none_iff p ord) m
  | .diff p q, ord, m => by
      rw [Mgr.runProg, build]
      exact seq2_none_iff (runProg_none_iff p ord) (runProg_none_iff q ord) m
  | .diffList p qs, ord, m => by
      rw [Mgr.runProg, build]
      exact seq2_none_iff (runProg_none_iff p ord) (runProgList_none_iff qs ord) m
  | .star p, ord, m => by
      rw [Mgr.runProg, build]; exact seq1_none_iff (runProg_none_iff p ord) m
  | .plus p, ord, m => by
      rw [Mgr.runProg, build]; exact seq1_none_iff (runProg_none_iff p ord) m
  | .opt p, ord, m => by
      rw [Mgr.runProg, build]; exact seq1_none_iff (runProg_none_iff p ord) m
  | .exp p _, ord, m => by
      rw [Mgr.runProg, build]; exact seq1_none_iff (runProg_none_iff p ord) m
  | .smtLoop p _ _, ord, m => by
      rw [Mgr.runProg, build]; exact seq1_none_iff (runProg_none_iff p ord) m
  | .mkLoop p _, ord, m => by
      rw [Mgr.runProg, build]; exact seq1_none_iff (runProg_none_iff p ord) m
theorem runProgList_none_iff : ∀ (ps : List Prog) (ord : RE → Nat) (m : Mgr),
    m.runProgList ps = none ↔ buildList ord ps = none
  | [], _, _ => by simp [Mgr.runProgList, buildList]
  | p :: ps, ord, m => by
      rw [Mgr.runProgList, buildList]
      exact seqCons_none_iff (runProg_none_iff p ord) (runProgList_none_iff ps ord) m
end

end MgrProg
end Smt
