/-
  C04 helper lemmas, part 3: the model's own quotient passes the checker
  (`quotient_passes_check`: for every well-formed complete DFA `A`,
  `quotient A (moore A) = some Q` and `checkMinimized A Q = true`).  This is the non-vacuity /
  completeness half of the checker: `check_minimized_sound` can be instantiated for every `A`.

  The quotient context `QCtx A blk nb rep Q` is generic in the numbering: `blk` = new id of every
  state (all `< nb`), `rep j` = a state of block `j` whose copy becomes state `j` of `Q`.  It is
  instantiated here with the canonical numbering / smallest representative (`quotient_passes`) and in
  `Proofs/HopcroftMinimize.lean` with Hopcroft's block ids / `pick_element` (`minimize_passes`).

  Outline
  * canonical numbering: `canon l` uses exactly the ids `0 … k-1`, in order of first occurrence
    (`canon_canonical`), so does `moore A` (`moore_canonical`); a canonical duplicate-free list is
    `range` (`canonical_nodup_eq_range`)
  * `blockReps_eq`: the representatives exist; `remapLoop_spec` / `quotient_eq`: `remap_nodes`
    does not panic and returns the states `qState`
  * `rawStep`: `stepD` read off the state; `stepD_quot`: `δ_Q(blk s, c) = blk (δ_A(rep, c))`
  * `checkHom_quot`: the block map is a verified homomorphism `A → Q`
  * `quot_reduced`: distinct states of `Q` are distinguished by a word over the merged alphabet
  * `findHom_quot`: the untrusted search of the checker finds exactly the block map
-/
import SmtModel.Proofs.Minimize
import Mathlib.Data.List.Nodup

namespace Smt.Minimize
open Smt

/-! ### canonical numbering -/
section canon
variable {α : Type} [DecidableEq α]

/-- the ids used are `0 … k-1`, numbered by first occurrence -/
def Canonical (blk : List Nat) : Prop := firstOccs blk = List.range (firstOccs blk).length

theorem firstOccs_map_injOn {β : Type} [DecidableEq β] (f : α → β) (l : List α)
    (hinj : ∀ x ∈ l, ∀ y ∈ l, f x = f y → x = y) :
    firstOccs (l.map f) = (firstOccs l).map f := by
  induction l with
  | nil => rfl
  | cons x l ih =>
    have ih' := ih (fun a ha b hb => hinj a (by simp [ha]) b (by simp [hb]))
    simp only [List.map_cons, firstOccs, ih', List.filter_map, List.cons.injEq, true_and]
    congr 1
    apply List.filter_congr
    intro y hy
    have hyl : y ∈ l := mem_firstOccs.1 hy
    simp only [Function.comp, ne_eq, decide_not, Bool.not_eq_eq_eq_not, Bool.not_not]
    by_cases e : y = x
    · subst e; simp
    · have : f y ≠ f x := fun h => e (hinj y (by simp [hyl]) x (by simp) h)
      simp [e, this]

theorem map_idxOf_self (d : List α) (hd : d.Nodup) :
    d.map (fun x => d.idxOf x) = List.range d.length := by
  apply List.ext_getElem (by simp)
  intro i h1 h2
  simp only [List.getElem_map, List.getElem_range]
  exact hd.idxOf_getElem i (by simpa using h1)

theorem canon_canonical (l : List α) : Canonical (canon l) := by
  have h1 : firstOccs (canon l) = List.range (firstOccs l).length := by
    unfold canon
    rw [firstOccs_map_injOn]
    · exact map_idxOf_self _ (firstOccs_nodup l)
    · intro x hx y _ h
      exact (idxOf_inj_of_mem (mem_firstOccs.2 hx)).1 h
  unfold Canonical
  rw [h1]
  simp

theorem firstOccs_of_nodup (l : List α) (h : l.Nodup) : firstOccs l = l := by
  induction l with
  | nil => rfl
  | cons x l ih =>
    obtain ⟨hx, hl⟩ := List.nodup_cons.1 h
    simp only [firstOccs, ih hl, List.cons.injEq, true_and]
    rw [List.filter_eq_self]
    intro a ha
    have : a ≠ x := fun e => hx (e ▸ ha)
    simpa using this

end canon

theorem canonical_nodup_eq_range {blk : List Nat} (hc : Canonical blk) (hn : blk.Nodup) :
    blk = List.range blk.length := by
  unfold Canonical at hc
  rwa [firstOccs_of_nodup blk hn] at hc

theorem canonical_mem_iff {blk : List Nat} (hc : Canonical blk) (b : Nat) :
    b ∈ blk ↔ b < numBlocks blk := by
  rw [← mem_firstOccs, hc]
  simp [numBlocks]

theorem refineStep_canonical (n : Nat) (δ : Nat → Nat → Nat) (alphabet blk : List Nat) :
    Canonical (refineStep n δ alphabet blk) := canon_canonical _

theorem mooreIter_canonical (n : Nat) (δ : Nat → Nat → Nat) (alphabet : List Nat) (r : Nat)
    (blk : List Nat) (h : Canonical blk) : Canonical (mooreIter n δ alphabet r blk) := by
  induction r generalizing blk with
  | zero => exact h
  | succ r ih =>
    unfold mooreIter
    simp only
    split
    · exact h
    · exact ih _ (refineStep_canonical n δ alphabet blk)

theorem mooreAbs_canonical (n : Nat) (fin : Nat → Bool) (δ : Nat → Nat → Nat)
    (alphabet : List Nat) : Canonical (mooreAbs n fin δ alphabet) :=
  mooreIter_canonical _ _ _ _ _ (canon_canonical _)

theorem moore_canonical (A : Automaton) : Canonical (moore A) := mooreAbs_canonical _ _ _ _

/-! ### `mapOpt` -/

theorem mapOpt_eq_some_map {α β : Type} (f : α → Option β) (g : α → β) (l : List α)
    (h : ∀ x ∈ l, f x = some (g x)) : mapOpt f l = some (l.map g) := by
  induction l with
  | nil => rfl
  | cons a l ih =>
    have ha := h a (by simp)
    have ih' := ih (fun x hx => h x (by simp [hx]))
    simp [mapOpt, ha, ih']

/-! ### representatives -/

/-- smallest state of block `b` -/
def repOf (blk : List Nat) (b : Nat) : Nat := blk.idxOf b

theorem blockReps_eq {blk : List Nat} (hc : Canonical blk) :
    blockReps blk = some ((List.range (numBlocks blk)).map (repOf blk)) := by
  unfold blockReps
  apply mapOpt_eq_some_map
  intro b hb
  have hb' : b ∈ blk := (canonical_mem_iff hc b).2 (List.mem_range.1 hb)
  have : blk.idxOf b < blk.length := List.idxOf_lt_length_iff.2 hb'
  simp [this, repOf]

theorem repOf_lt {blk : List Nat} (hc : Canonical blk) {b : Nat} (hb : b < numBlocks blk) :
    repOf blk b < blk.length :=
  List.idxOf_lt_length_iff.2 ((canonical_mem_iff hc b).2 hb)

theorem blk_repOf {blk : List Nat} (hc : Canonical blk) {b : Nat} (hb : b < numBlocks blk) :
    blk[repOf blk b]? = some b := by
  have h := repOf_lt hc hb
  rw [List.getElem?_eq_getElem h]
  exact congrArg some (List.getElem_idxOf h)

theorem blk_lt {blk : List Nat} (hc : Canonical blk) {s b : Nat} (h : blk[s]? = some b) :
    b < numBlocks blk :=
  (canonical_mem_iff hc b).1 (List.mem_of_getElem? h)

/-! ### `remap_nodes` on the block map -/

/-- the state `remap_nodes` builds from the representative `s` of block `i` -/
def qState (blk : List Nat) (i : Nat) (s : State) : State :=
  { id := i, isFinal := s.isFinal, classes := s.classes,
    successor := s.successor.map (fun j => blk.getD j 0),
    defaultSuccessor := s.defaultSuccessor.map (fun j => blk.getD j 0) }

theorem getElem?_eq_some_getD {l : List Nat} {j : Nat} (h : j < l.length) :
    l[j]? = some (l.getD j 0) := by
  simp [List.getD_eq_getElem?_getD, List.getElem?_eq_getElem h]

theorem state_remap {blk reps : List Nat} {s : State} {i : Nat}
    (h1 : blk[s.id]? = some i) (h2 : reps[i]? = some s.id)
    (hs : ∀ j ∈ s.successor, j < blk.length)
    (hd : ∀ d, s.defaultSuccessor = some d → d < blk.length) :
    s.remapNodes ⟨blk, reps⟩ = some (qState blk i s) := by
  have hsucc : mapOpt (fun j => blk[j]?) s.successor
      = some (s.successor.map (fun j => blk.getD j 0)) :=
    mapOpt_eq_some_map _ _ _ (fun j hj => getElem?_eq_some_getD (hs j hj))
  have hrep : StateMapping.isClassRep ⟨blk, reps⟩ s.id = some true := by
    unfold StateMapping.isClassRep
    dsimp only
    rw [h1]
    dsimp only
    rw [h2]
    simp
  have hnew : (StateMapping.mk blk reps).newId[s.id]? = some i := h1
  unfold State.remapNodes
  dsimp only
  rw [hrep]
  dsimp only
  rw [hnew]
  dsimp only
  cases hdef : s.defaultSuccessor with
  | none =>
    dsimp only
    rw [hsucc]
    simp [qState, hdef]
  | some d =>
    have := getElem?_eq_some_getD (hd d hdef)
    dsimp only
    rw [this, hsucc]
    simp [qState, hdef]

set_option linter.unnecessarySeqFocus false in
theorem remapLoop_spec (A : Automaton) (blk reps : List Nat) :
    ∀ (rest : List Nat) (i nf : Nat),
      (∀ k (hk : k < rest.length), ∃ s, A.states[rest[k]]? = some s ∧
        s.remapNodes ⟨blk, reps⟩ = some (qState blk (i + k) s)) →
      ∃ sts, A.remapLoop ⟨blk, reps⟩ i rest nf
          = some (sts, nf + (sts.filter (·.isFinal)).length) ∧
        sts.length = rest.length ∧
        ∀ k (hk : k < rest.length), ∃ s, A.states[rest[k]]? = some s ∧
          sts[k]? = some (qState blk (i + k) s) := by
  intro rest
  induction rest with
  | nil => intro i nf _; exact ⟨[], by simp [Automaton.remapLoop], rfl, fun k hk => by simp at hk⟩
  | cons old rest ih =>
    intro i nf h
    obtain ⟨s, hs, hr⟩ := h 0 (by simp)
    simp only [List.getElem_cons_zero, Nat.add_zero] at hs hr
    obtain ⟨sts, e, hlen, hall⟩ := ih (i + 1) (if s.isFinal then nf + 1 else nf) (fun k hk => by
      obtain ⟨s', hs', hr'⟩ := h (k + 1) (by simpa using hk)
      simp only [List.getElem_cons_succ] at hs'
      exact ⟨s', hs', by rw [hr']; congr 2; omega⟩)
    refine ⟨qState blk i s :: sts, ?_, by simp [hlen], ?_⟩
    · unfold Automaton.remapLoop
      simp only [hs, hr, e]
      have hid : (qState blk i s).id = i := rfl
      simp only [hid, ne_eq, not_true_eq_false, if_false]
      have hf : (qState blk i s).isFinal = s.isFinal := rfl
      cases hfin : s.isFinal <;> simp [hf, hfin] <;> omega
    · intro k hk
      cases k with
      | zero => exact ⟨s, by simpa using hs, by simp⟩
      | succ k =>
        obtain ⟨s', hs', hr'⟩ := hall k (by simpa using hk)
        refine ⟨s', by simpa using hs', ?_⟩
        simp only [List.getElem?_cons_succ, hr']
        congr 2; omega

/-- what the quotient looks like -/
structure IsQuot (A : Automaton) (blk : List Nat) (nb : Nat) (rep : Nat → Nat) (Q : Automaton) :
    Prop where
  numStates : Q.numStates = nb
  length : Q.states.length = nb
  init : blk[A.initialState]? = some Q.initialState
  state : ∀ j, j < nb → ∃ s, A.states[rep j]? = some s ∧
    Q.states[j]? = some (qState blk j s)
  counts : Q.numFinalStates = (Q.states.filter (·.isFinal)).length

theorem quotient_eq {A : Automaton} (h : wfAut A = true) {blk : List Nat}
    (hlen : blk.length = A.states.length) (hc : Canonical blk) :
    ∃ Q, quotient A blk = some Q ∧ IsQuot A blk (numBlocks blk) (repOf blk) Q := by
  have hinit : A.initialState < blk.length := hlen ▸ (wfAut_spec h).2.1
  set reps := (List.range (numBlocks blk)).map (repOf blk) with hreps
  have hloop := remapLoop_spec A blk reps reps 0 0 (fun k hk => by
    have hk' : k < numBlocks blk := by simpa [hreps] using hk
    have hrk : reps[k] = repOf blk k := by simp [hreps]
    have hlt : repOf blk k < A.states.length := hlen ▸ repOf_lt hc hk'
    refine ⟨A.states[repOf blk k], by rw [hrk, List.getElem?_eq_getElem hlt], ?_⟩
    have hst := List.getElem?_eq_getElem hlt
    have hid := wf_id h hst
    obtain ⟨_, _, _, hsucc, hd1, _⟩ := wfState_spec ((wfAut_spec h).2.2 _ _ hst)
    rw [Nat.zero_add]
    apply state_remap
    · rw [hid]; exact blk_repOf hc hk'
    · rw [hid, List.getElem?_eq_getElem hk, hrk]
    · intro j hj; rw [hlen]; exact hsucc j hj
    · intro d hd; rw [hlen]; exact hd1 d hd)
  obtain ⟨sts, e, hl, hall⟩ := hloop
  refine ⟨{ numStates := numBlocks blk, numFinalStates := 0 + (sts.filter (·.isFinal)).length,
            initialState := blk[A.initialState], states := sts }, ?_, ?_⟩
  · unfold quotient
    rw [blockReps_eq hc]
    simp only [Automaton.remapNodes, List.getElem?_eq_getElem hinit, ← hreps, e,
      StateMapping.numNewStates]
    simp [hreps]
  · refine ⟨rfl, by simp [hl, hreps], by simp [List.getElem?_eq_getElem hinit], ?_, by simp⟩
    intro j hj
    have hj' : j < reps.length := by simpa [hreps] using hj
    obtain ⟨s, hs, hq⟩ := hall j hj'
    have hrk : reps[j] = repOf blk j := by simp [hreps]
    rw [hrk] at hs
    exact ⟨s, hs, by simpa using hq⟩

/-! ### the transition function read off the state -/

def rawStep (st : State) (c : Nat) : Nat :=
  match st.classes.classOfChar c with
  | .interval k => st.successor.getD k 0
  | .complement => st.defaultSuccessor.getD 0

/-- the class of a valid character is served by the state -/
theorem class_cases {n i : Nat} {st : State} (h : wfState n i st = true) {c : Nat}
    (hc : c ≤ MAX_CHAR) :
    (∃ k, st.classes.classOfChar c = .interval k ∧ k < st.successor.length) ∨
    (st.classes.classOfChar c = .complement ∧ ∃ d, st.defaultSuccessor = some d) := by
  obtain ⟨_, hwf, hlen, _, _, hd2⟩ := wfState_spec h
  have hvalid : st.classes.validClassId (st.classes.classOfChar c) = true :=
    (C11.valid_class_id_spec _ hwf _).2 ⟨c, hc, rfl⟩
  cases hcid : st.classes.classOfChar c with
  | interval k =>
    left
    rw [hcid] at hvalid
    simp only [CharPartition.validClassId, CharPartition.len] at hvalid
    exact ⟨k, rfl, by have := of_decide_eq_true hvalid; omega⟩
  | complement =>
    right
    rw [hcid] at hvalid
    cases hd : st.defaultSuccessor with
    | none =>
      have := hd2 hd
      simp [CharPartition.validClassId, this] at hvalid
    | some d => exact ⟨rfl, d, rfl⟩

theorem stepD_eq_raw {A : Automaton} (h : wfAut A = true) {i : Nat} {st : State}
    (hst : A.states[i]? = some st) {c : Nat} (hc : c ≤ MAX_CHAR) :
    stepD A i c = rawStep st c := by
  obtain ⟨_, t, ht, hn⟩ := next_eq h hst hc
  have hwfs := (wfAut_spec h).2.2 i st hst
  unfold Automaton.next Automaton.classNext at hn
  unfold rawStep
  rcases class_cases hwfs hc with ⟨k, hk, hlt⟩ | ⟨hk, d, hd⟩
  · rw [hk] at hn ⊢
    split at hn
    · simp only [List.getElem?_eq_getElem hlt] at hn
      have hj : A.states[st.successor[k]]? = some t := hn
      have e1 := wf_id h ht
      have e2 := wf_id h hj
      simp only [List.getD_eq_getElem?_getD, List.getElem?_eq_getElem hlt, Option.getD_some]
      omega
    · cases hn
  · rw [hk] at hn ⊢
    split at hn
    · simp only [hd] at hn
      have hj : A.states[d]? = some t := hn
      have e1 := wf_id h ht
      have e2 := wf_id h hj
      simp only [hd, Option.getD_some]
      omega
    · cases hn

/-! ### the quotient is a well-formed automaton -/

theorem wfAut_of {A : Automaton} (h1 : A.numStates = A.states.length)
    (h2 : A.initialState < A.states.length)
    (h3 : ∀ i st, A.states[i]? = some st → wfState A.states.length i st = true) :
    wfAut A = true := by
  unfold wfAut
  simp only [Bool.and_eq_true, beq_iff_eq, List.all_eq_true, decide_eq_true_eq]
  refine ⟨⟨h1, h2⟩, fun p hp => ?_⟩
  exact h3 p.2 p.1 (List.mem_zipIdx_iff_getElem?.1 hp)

theorem wfState_quot {n nb j i : Nat} {s : State} {blk : List Nat}
    (h : wfState n i s = true)
    (hb : ∀ x, x < n → blk.getD x 0 < nb) : wfState nb j (qState blk j s) = true := by
  obtain ⟨_, _, hl, hsucc, hd1, hd2⟩ := wfState_spec h
  have hpart : wfPart s.classes = true := by
    unfold wfState at h
    simp only [Bool.and_eq_true] at h
    exact h.1.1.1.2
  unfold wfState
  simp only [Bool.and_eq_true, beq_iff_eq, List.all_eq_true, decide_eq_true_eq]
  refine ⟨⟨⟨⟨rfl, hpart⟩, ?_⟩, ?_⟩, ?_⟩
  · simp [qState, hl, CharPartition.len]
  · intro x hx
    simp only [qState, List.mem_map] at hx
    obtain ⟨y, hy, rfl⟩ := hx
    exact hb y (hsucc y hy)
  · cases hd : s.defaultSuccessor with
    | none => simpa [qState, hd] using hd2 hd
    | some d => simpa [qState, hd] using hb d (hd1 d hd)

/-- everything known about the block list of `A` and its quotient -/
structure QCtx (A : Automaton) (blk : List Nat) (nb : Nat) (rep : Nat → Nat) (Q : Automaton) :
    Prop where
  wfA : wfAut A = true
  len : blk.length = A.states.length
  /-- every block id is `< nb` -/
  blk_lt' : ∀ x, x < A.states.length → blk.getD x 0 < nb
  /-- `rep j` is a state of block `j` -/
  rep_lt' : ∀ j, j < nb → rep j < A.states.length
  blk_rep' : ∀ j, j < nb → blk.getD (rep j) 0 = j
  isq : IsQuot A blk nb rep Q

theorem QCtx.blk_lt {A Q : Automaton} {blk : List Nat} {nb : Nat} {rep : Nat → Nat}
    (cx : QCtx A blk nb rep Q) {x : Nat}
    (hx : x < A.states.length) : blk.getD x 0 < nb := cx.blk_lt' x hx

theorem QCtx.wfQ {A Q : Automaton} {blk : List Nat} {nb : Nat} {rep : Nat → Nat} (cx : QCtx A blk nb rep Q) : wfAut Q = true := by
  apply wfAut_of
  · rw [cx.isq.numStates, cx.isq.length]
  · have hi := (wfAut_spec cx.wfA).2.1
    have := cx.isq.init
    rw [cx.isq.length]
    have hi' : A.initialState < blk.length := cx.len ▸ hi
    rw [getElem?_eq_some_getD hi'] at this
    rw [← Option.some.inj this]
    exact cx.blk_lt hi
  · intro j st hst
    have hj : j < nb := by
      rw [← cx.isq.length]; exact (List.getElem?_eq_some_iff.1 hst).1
    obtain ⟨s, hs, hq⟩ := cx.isq.state j hj
    rw [hq] at hst
    cases hst
    rw [cx.isq.length]
    exact wfState_quot ((wfAut_spec cx.wfA).2.2 _ _ hs) (fun x hx => cx.blk_lt hx)

theorem QCtx.rep_lt {A Q : Automaton} {blk : List Nat} {nb : Nat} {rep : Nat → Nat} (cx : QCtx A blk nb rep Q) {j : Nat}
    (hj : j < nb) : rep j < A.states.length := cx.rep_lt' j hj

theorem QCtx.blk_rep {A Q : Automaton} {blk : List Nat} {nb : Nat} {rep : Nat → Nat} (cx : QCtx A blk nb rep Q) {j : Nat}
    (hj : j < nb) : blk.getD (rep j) 0 = j := cx.blk_rep' j hj

/-- `δ_Q(j, c)` is the block of `δ_A(rep j, c)` -/
theorem QCtx.stepD_quot {A Q : Automaton} {blk : List Nat} {nb : Nat} {rep : Nat → Nat} (cx : QCtx A blk nb rep Q) {j : Nat}
    (hj : j < nb) {c : Nat} (hc : c ≤ MAX_CHAR) :
    stepD Q j c = blk.getD (stepD A (rep j) c) 0 := by
  obtain ⟨s, hs, hq⟩ := cx.isq.state j hj
  rw [stepD_eq_raw cx.wfQ hq hc, stepD_eq_raw cx.wfA hs hc]
  have hwfs := (wfAut_spec cx.wfA).2.2 _ _ hs
  unfold rawStep
  rcases class_cases hwfs hc with ⟨k, hk, hlt⟩ | ⟨hk, d, hd⟩
  · have hk' : (qState blk j s).classes.classOfChar c = .interval k := hk
    rw [hk, hk']
    simp [qState, List.getD_eq_getElem?_getD, List.getElem?_eq_getElem hlt]
  · have hk' : (qState blk j s).classes.classOfChar c = .complement := hk
    rw [hk, hk']
    simp [qState, hd]

theorem QCtx.finD_quot {A Q : Automaton} {blk : List Nat} {nb : Nat} {rep : Nat → Nat} (cx : QCtx A blk nb rep Q) {j : Nat}
    (hj : j < nb) : finD Q j = finD A (rep j) := by
  obtain ⟨s, hs, hq⟩ := cx.isq.state j hj
  rw [finD_eq hq, finD_eq hs]
  rfl

/-! ### the block map is a verified homomorphism -/

theorem resid_nil {A : Automaton} (h : wfAut A = true) {s : Nat} (hs : s < A.states.length) :
    [] ∈ resid A s ↔ finD A s = true := by
  rw [resid_iff h hs]
  simp [runD, run, WFs]

theorem resid_cons {A : Automaton} (h : wfAut A = true) {s : Nat} (hs : s < A.states.length)
    {c : Nat} (hc : c ≤ MAX_CHAR) (w : List Nat) :
    (c :: w) ∈ resid A s ↔ w ∈ resid A (stepD A s c) := by
  rw [resid_iff h hs, resid_iff h (stepD_lt h hs hc), runD_cons]
  constructor
  · rintro ⟨hw, hf⟩; exact ⟨fun x hx => hw x (by simp [hx]), hf⟩
  · rintro ⟨hw, hf⟩
    refine ⟨fun x hx => ?_, hf⟩
    rcases List.mem_cons.1 hx with rfl | hx
    · exact hc
    · exact hw x hx

theorem finD_of_resid_eq {A : Automaton} (h : wfAut A = true) {s t : Nat}
    (hs : s < A.states.length) (ht : t < A.states.length) (he : resid A s = resid A t) :
    finD A s = finD A t := by
  have h1 := resid_nil h hs
  have h2 := resid_nil h ht
  rw [he] at h1
  cases e1 : finD A s <;> cases e2 : finD A t <;> simp_all

theorem resid_step_eq {A : Automaton} (h : wfAut A = true) {s t : Nat}
    (hs : s < A.states.length) (ht : t < A.states.length) (he : resid A s = resid A t)
    {c : Nat} (hc : c ≤ MAX_CHAR) : resid A (stepD A s c) = resid A (stepD A t c) := by
  ext w
  rw [← resid_cons h hs hc, ← resid_cons h ht hc, he]

theorem checkHom_of {A A' : Automaton} {h alphabet : List Nat}
    (h1 : h.length = A.states.length) (h2 : ∀ t ∈ h, t < A'.states.length)
    (h3 : h[A.initialState]? = some A'.initialState)
    (h4 : ∀ s, s < A.states.length → ∃ t, h[s]? = some t ∧ finD A' t = finD A s ∧
      ∀ c ∈ alphabet, h[stepD A s c]? = some (stepD A' t c))
    (h5 : ∀ t, t < A'.states.length → t ∈ h) :
    checkHom A A' h alphabet = true := by
  unfold checkHom
  simp only [Bool.and_eq_true, beq_iff_eq, List.all_eq_true, decide_eq_true_eq, List.mem_range,
    List.contains_iff_mem]
  refine ⟨⟨⟨⟨h1, h2⟩, h3⟩, fun s hs => ?_⟩, h5⟩
  obtain ⟨t, ht, hf, hst⟩ := h4 s hs
  rw [ht]
  simp only [Bool.and_eq_true, beq_iff_eq, List.all_eq_true]
  exact ⟨hf, hst⟩

/-- the block list is the Nerode equivalence of the states of `A` -/
def IsNerode (A : Automaton) (blk : List Nat) : Prop :=
  ∀ s t, s < A.states.length → t < A.states.length →
    (blk.getD s 0 = blk.getD t 0 ↔ resid A s = resid A t)

theorem moore_isNerode {A : Automaton} (h : wfAut A = true) : IsNerode A (moore A) := by
  intro s t hs ht
  have hlen := moore_length h
  rw [getD_eq_iff (by omega) (by omega)]
  exact moore_block_iff h hs ht

section quot
variable {A Q : Automaton} {blk : List Nat} {nb : Nat} {rep : Nat → Nat}

/-- a state and the representative of its block have the same residual language -/
theorem QCtx.rep_resid (cx : QCtx A blk nb rep Q) (hN : IsNerode A blk) {s : Nat}
    (hs : s < A.states.length) :
    resid A (rep (blk.getD s 0)) = resid A s := by
  have hb := cx.blk_lt hs
  exact (hN _ _ (cx.rep_lt hb) hs).1 (cx.blk_rep hb)

theorem QCtx.finD_blk (cx : QCtx A blk nb rep Q) (hN : IsNerode A blk) {s : Nat}
    (hs : s < A.states.length) : finD Q (blk.getD s 0) = finD A s := by
  have hb := cx.blk_lt hs
  rw [cx.finD_quot hb]
  exact finD_of_resid_eq cx.wfA (cx.rep_lt hb) hs (cx.rep_resid hN hs)

theorem QCtx.checkHom_quot (cx : QCtx A blk nb rep Q) (hN : IsNerode A blk) :
    checkHom A Q blk (alphabetOf2 A Q) = true := by
  have hle := (alphabet2_covers cx.wfA cx.wfQ).1
  apply checkHom_of cx.len
  · intro t ht
    rw [cx.isq.length]
    obtain ⟨x, hx, rfl⟩ := List.getElem_of_mem ht
    have hx' : x < A.states.length := cx.len ▸ hx
    have := cx.blk_lt hx'
    rwa [List.getD_eq_getElem?_getD, List.getElem?_eq_getElem hx] at this
  · exact cx.isq.init
  · intro s hs
    have hs' : s < blk.length := cx.len ▸ hs
    have hb := cx.blk_lt hs
    refine ⟨blk.getD s 0, getElem?_eq_some_getD hs', cx.finD_blk hN hs, fun c hc => ?_⟩
    have hcm := hle c hc
    have hst : stepD A s c < blk.length := cx.len ▸ stepD_lt cx.wfA hs hcm
    rw [getElem?_eq_some_getD hst, cx.stepD_quot hb hcm]
    congr 1
    apply (hN _ _ (stepD_lt cx.wfA hs hcm) (stepD_lt cx.wfA (cx.rep_lt hb) hcm)).2
    exact (resid_step_eq cx.wfA (cx.rep_lt hb) hs (cx.rep_resid hN hs) hcm).symm
  · intro t ht
    rw [cx.isq.length] at ht
    have h1 := cx.rep_lt ht
    have h2 := cx.blk_rep ht
    have h1' : rep t < blk.length := cx.len ▸ h1
    rw [List.getD_eq_getElem?_getD, List.getElem?_eq_getElem h1'] at h2
    exact List.mem_of_getElem (Option.some.inj (by simpa using h2) : blk[rep t] = t)

/-- reading a well-formed string in `Q` from the block of `s` = block of reading it in `A` -/
theorem QCtx.run_quot (cx : QCtx A blk nb rep Q) (hN : IsNerode A blk) {s : Nat}
    (hs : s < A.states.length) {w : List Nat} (hw : WFs w) :
    runD Q (blk.getD s 0) w = blk.getD (runD A s w) 0 := by
  have hs' : s < blk.length := cx.len ▸ hs
  have := hom_run cx.wfA cx.wfQ (cx.checkHom_quot hN) hw hs (getElem?_eq_some_getD hs')
  have hr : runD A s w < blk.length := cx.len ▸ runD_lt cx.wfA hs hw
  rw [getElem?_eq_some_getD hr] at this
  exact (Option.some.inj this).symm

theorem QCtx.resid_quot (cx : QCtx A blk nb rep Q) (hN : IsNerode A blk) {s : Nat}
    (hs : s < A.states.length) : resid Q (blk.getD s 0) = resid A s := by
  ext w
  have hb : blk.getD s 0 < Q.states.length := cx.isq.length ▸ cx.blk_lt hs
  rw [resid_iff cx.wfQ hb, resid_iff cx.wfA hs]
  constructor
  · rintro ⟨hw, hf⟩
    rw [cx.run_quot hN hs hw, cx.finD_blk hN (runD_lt cx.wfA hs hw)] at hf
    exact ⟨hw, hf⟩
  · rintro ⟨hw, hf⟩
    rw [← cx.finD_blk hN (runD_lt cx.wfA hs hw), ← cx.run_quot hN hs hw] at hf
    exact ⟨hw, hf⟩

/-- distinct states of the quotient have distinct residual languages -/
theorem QCtx.reduced (cx : QCtx A blk nb rep Q) (hN : IsNerode A blk) {j j' : Nat}
    (hj : j < nb) (hj' : j' < nb) (he : resid Q j = resid Q j') :
    j = j' := by
  have h1 := cx.resid_quot hN (cx.rep_lt hj)
  have h2 := cx.resid_quot hN (cx.rep_lt hj')
  rw [cx.blk_rep hj] at h1
  rw [cx.blk_rep hj'] at h2
  have := (hN _ _ (cx.rep_lt hj) (cx.rep_lt hj')).2 (by rw [← h1, ← h2, he])
  rwa [cx.blk_rep hj, cx.blk_rep hj'] at this

/-- the Moore partition of the quotient is discrete -/
theorem QCtx.discrete (cx : QCtx A blk nb rep Q) (hN : IsNerode A blk) :
    isDiscrete (moore Q) = true := by
  have hQ := cx.wfQ
  have hlen := moore_length hQ
  have hnodup : (moore Q).Nodup := by
    rw [List.nodup_iff_getElem?_ne_getElem?]
    intro i j hij hj he
    have hj' : j < Q.states.length := by omega
    have hi' : i < Q.states.length := by omega
    have := moore_sound hQ hi' hj' he
    rw [cx.isq.length] at hi' hj'
    have := cx.reduced hN hi' hj' this
    omega
  have := canonical_nodup_eq_range (moore_canonical Q) hnodup
  unfold isDiscrete
  rw [beq_iff_eq]
  exact this

end quot

/-! ### the disjoint union used by the checker's search -/

section union
variable (A A' : Automaton)

def finU : Nat → Bool :=
  fun i => if i < A.states.length then finD A i else finD A' (i - A.states.length)

def deltaU : Nat → Nat → Nat :=
  fun i c => if i < A.states.length then stepD A i c
    else A.states.length + stepD A' (i - A.states.length) c

theorem unionBlocks_eq : unionBlocks A A' =
    mooreAbs (A.states.length + A'.states.length) (finU A A') (deltaU A A') (alphabetOf2 A A') :=
  rfl

variable {A A'}

theorem union_closed (h : wfAut A = true) (h' : wfAut A' = true) :
    Closed (A.states.length + A'.states.length) (deltaU A A') (alphabetOf2 A A') := by
  have hle := (alphabet2_covers h h').1
  intro s hs c hc
  unfold deltaU
  split
  · rename_i hlt
    have := stepD_lt h hlt (hle c hc)
    omega
  · have : s - A.states.length < A'.states.length := by omega
    have := stepD_lt h' this (hle c hc)
    omega

theorem runU_left (h : wfAut A = true) (h' : wfAut A' = true) {w : List Nat}
    (hw : ∀ c ∈ w, c ∈ alphabetOf2 A A') :
    ∀ {s : Nat}, s < A.states.length → run (deltaU A A') s w = runD A s w := by
  have hle := (alphabet2_covers h h').1
  induction w with
  | nil => intro s _; rfl
  | cons c w ih =>
    intro s hs
    have hc := hle c (hw c (by simp))
    have hstep : deltaU A A' s c = stepD A s c := by simp [deltaU, hs]
    show run (deltaU A A') (deltaU A A' s c) w = runD A (stepD A s c) w
    rw [hstep]
    exact ih (fun c' hc' => hw c' (by simp [hc'])) (stepD_lt h hs hc)

theorem runU_right (h : wfAut A = true) (h' : wfAut A' = true) {w : List Nat}
    (hw : ∀ c ∈ w, c ∈ alphabetOf2 A A') :
    ∀ {j : Nat}, j < A'.states.length →
      run (deltaU A A') (A.states.length + j) w = A.states.length + runD A' j w := by
  have hle := (alphabet2_covers h h').1
  induction w with
  | nil => intro j _; rfl
  | cons c w ih =>
    intro j hj
    have hc := hle c (hw c (by simp))
    have hstep : deltaU A A' (A.states.length + j) c = A.states.length + stepD A' j c := by
      simp [deltaU]
    show run (deltaU A A') (deltaU A A' (A.states.length + j) c) w
      = A.states.length + runD A' (stepD A' j c) w
    rw [hstep]
    exact ih (fun c' hc' => hw c' (by simp [hc'])) (stepD_lt h' hj hc)

/-- same block of the union ⇔ no word over the merged alphabet distinguishes the two states -/
theorem union_same_iff (h : wfAut A = true) (h' : wfAut A' = true) {x y : Nat}
    (hx : x < A.states.length + A'.states.length) (hy : y < A.states.length + A'.states.length) :
    (unionBlocks A A').getD x 0 = (unionBlocks A A').getD y 0 ↔
      ∀ w : List Nat, (∀ c ∈ w, c ∈ alphabetOf2 A A') →
        finU A A' (run (deltaU A A') x w) = finU A A' (run (deltaU A A') y w) := by
  rw [unionBlocks_eq]
  constructor
  · intro he w hw
    exact mooreAbs_sound (union_closed h h') hx hy he w hw
  · intro hall
    by_contra hne
    obtain ⟨w, hw, hd⟩ := mooreAbs_complete (fin := finU A A') (union_closed h h') hx hy hne
    exact hd (hall w hw)

theorem unionBlocks_length (h : wfAut A = true) (h' : wfAut A' = true) :
    (unionBlocks A A').length = A.states.length + A'.states.length := by
  rw [unionBlocks_eq]
  exact mooreAbs_length (union_closed h h')

/-- a state of `A` and a state of `A'` are in the same block of the union iff they agree on every
    word over the merged alphabet -/
theorem union_cross_iff (h : wfAut A = true) (h' : wfAut A' = true) {s j : Nat}
    (hs : s < A.states.length) (hj : j < A'.states.length) :
    (unionBlocks A A').getD s 0 = (unionBlocks A A').getD (A.states.length + j) 0 ↔
      ∀ w : List Nat, (∀ c ∈ w, c ∈ alphabetOf2 A A') →
        finD A (runD A s w) = finD A' (runD A' j w) := by
  rw [union_same_iff h h' (by omega) (by omega)]
  have hle := (alphabet2_covers h h').1
  constructor <;> intro hall w hw
  · have := hall w hw
    rw [runU_left h h' hw hs, runU_right h h' hw hj] at this
    have h1 := runD_lt h hs (wfs_of_alphabet hle hw)
    simpa [finU, h1] using this
  · rw [runU_left h h' hw hs, runU_right h h' hw hj]
    have h1 := runD_lt h hs (wfs_of_alphabet hle hw)
    simpa [finU, h1] using hall w hw

theorem union_right_iff (h : wfAut A = true) (h' : wfAut A' = true) {j j' : Nat}
    (hj : j < A'.states.length) (hj' : j' < A'.states.length) :
    (unionBlocks A A').getD (A.states.length + j) 0 =
      (unionBlocks A A').getD (A.states.length + j') 0 ↔
      ∀ w : List Nat, (∀ c ∈ w, c ∈ alphabetOf2 A A') →
        finD A' (runD A' j w) = finD A' (runD A' j' w) := by
  rw [union_same_iff h h' (by omega) (by omega)]
  constructor <;> intro hall w hw
  · have := hall w hw
    rw [runU_right h h' hw hj, runU_right h h' hw hj'] at this
    simpa [finU] using this
  · rw [runU_right h h' hw hj, runU_right h h' hw hj']
    simpa [finU] using hall w hw

end union

/-! ### the checker's search finds the block map -/

section search
variable {A Q : Automaton} {blk : List Nat} {nb : Nat} {rep : Nat → Nat}

theorem QCtx.union_left (cx : QCtx A blk nb rep Q) (hN : IsNerode A blk) {s : Nat}
    (hs : s < A.states.length) :
    (unionBlocks A Q).getD s 0 =
      (unionBlocks A Q).getD (A.states.length + blk.getD s 0) 0 := by
  have hb : blk.getD s 0 < Q.states.length := cx.isq.length ▸ cx.blk_lt hs
  rw [union_cross_iff cx.wfA cx.wfQ hs hb]
  intro w hw
  have hW := wfs_of_alphabet (alphabet2_covers cx.wfA cx.wfQ).1 hw
  rw [cx.run_quot hN hs hW, cx.finD_blk hN (runD_lt cx.wfA hs hW)]

theorem QCtx.union_right_inj (cx : QCtx A blk nb rep Q) (hN : IsNerode A blk) {j j' : Nat}
    (hj : j < Q.states.length) (hj' : j' < Q.states.length)
    (he : (unionBlocks A Q).getD (A.states.length + j) 0 =
      (unionBlocks A Q).getD (A.states.length + j') 0) : j = j' := by
  have hall := (union_right_iff cx.wfA cx.wfQ hj hj').1 he
  obtain ⟨_, hcov⟩ := alphabet2_covers cx.wfA cx.wfQ
  apply cx.reduced hN (cx.isq.length ▸ hj) (cx.isq.length ▸ hj')
  ext w
  rw [resid_iff cx.wfQ hj, resid_iff cx.wfQ hj']
  constructor <;> rintro ⟨hw, hf⟩ <;> refine ⟨hw, ?_⟩ <;>
    obtain ⟨w', hm, _, e2⟩ := normalize2 cx.wfA cx.wfQ hcov hw <;>
    have := hall w' hm <;>
    rw [e2 j hj, e2 j' hj'] at this
  · rw [← this]; exact hf
  · rw [this]; exact hf

theorem QCtx.findHom_quot (cx : QCtx A blk nb rep Q) (hN : IsNerode A blk) :
    findHom A Q = some blk := by
  have hul := unionBlocks_length cx.wfA cx.wfQ
  set ub := unionBlocks A Q with hub
  have hdl : (ub.drop A.states.length).length = Q.states.length := by simp [hul]
  have hD : ∀ j, j < Q.states.length →
      (ub.drop A.states.length)[j]? = some (ub.getD (A.states.length + j) 0) := by
    intro j hj
    rw [List.getElem?_drop]
    exact getElem?_eq_some_getD (by omega)
  -- the index found for the block id of state `s`
  have key : ∀ s, s < A.states.length →
      (ub.drop A.states.length).idxOf (ub.getD s 0) = blk.getD s 0 := by
    intro s hs
    have hb : blk.getD s 0 < Q.states.length := cx.isq.length ▸ cx.blk_lt hs
    have hmem : ub.getD s 0 ∈ ub.drop A.states.length := by
      rw [cx.union_left hN hs]
      exact List.mem_of_getElem? (hD _ hb)
    have hlt := List.idxOf_lt_length_iff.2 hmem
    have hget := List.getElem_idxOf hlt
    have hj0 : (ub.drop A.states.length).idxOf (ub.getD s 0) < Q.states.length := hdl ▸ hlt
    have h1 := hD _ hj0
    rw [List.getElem?_eq_getElem hlt, hget] at h1
    have h2 := Option.some.inj h1
    have h3 := (cx.union_left hN hs).symm.trans h2
    exact (cx.union_right_inj hN hb hj0 h3).symm
  unfold findHom
  simp only [← hub]
  rw [mapOpt_eq_some_map _ (fun b => (ub.drop A.states.length).idxOf b)]
  · congr 1
    apply List.ext_getElem
    · simp [hul, cx.len]
    · intro s h1 h2
      have hs : s < A.states.length := by simpa [hul] using h1
      simp only [List.getElem_map, List.getElem_take]
      have : ub[s]'(by omega) = ub.getD s 0 := by
        simp [List.getD_eq_getElem?_getD, List.getElem?_eq_getElem (show s < ub.length by omega)]
      rw [this, key s hs]
      simp [List.getD_eq_getElem?_getD, List.getElem?_eq_getElem h2]
  · intro b hb
    obtain ⟨s, hs, rfl⟩ := List.getElem_of_mem hb
    have hs' : s < A.states.length := by simpa [hul] using hs
    have : (ub.take A.states.length)[s] = ub.getD s 0 := by
      simp [List.getD_eq_getElem?_getD, List.getElem?_eq_getElem (show s < ub.length by omega)]
    have hlt : (ub.drop A.states.length).idxOf (ub.getD s 0) < (ub.drop A.states.length).length := by
      rw [key s hs', hdl]; exact cx.isq.length ▸ cx.blk_lt hs'
    show (if (ub.drop A.states.length).idxOf ((ub.take A.states.length)[s]) <
        (ub.drop A.states.length).length then
      some ((ub.drop A.states.length).idxOf ((ub.take A.states.length)[s])) else none) = _
    rw [this, if_pos hlt]

end search

/-- the model's own quotient passes the checker -/
theorem quotient_passes {A : Automaton} (h : wfAut A = true) :
    ∃ Q, quotient A (moore A) = some Q ∧ checkMinimized A Q = true ∧
      Q.numStates = numBlocks (moore A) := by
  obtain ⟨Q, hq, isq⟩ := quotient_eq h (moore_length h) (moore_canonical A)
  have hcan := moore_canonical A
  have hlen := moore_length h
  have cx : QCtx A (moore A) (numBlocks (moore A)) (repOf (moore A)) Q :=
    ⟨h, hlen,
      fun x hx => Minimize.blk_lt hcan (getElem?_eq_some_getD (hlen ▸ hx)),
      fun j hj => hlen ▸ repOf_lt hcan hj,
      fun j hj => by
        have := blk_repOf hcan hj
        simp [List.getD_eq_getElem?_getD, this],
      isq⟩
  have hN := moore_isNerode h
  refine ⟨Q, hq, ?_, isq.numStates⟩
  unfold checkMinimized
  rw [h, cx.wfQ, cx.findHom_quot hN]
  simp only [Bool.and_self, Bool.true_and, cx.checkHom_quot hN, cx.discrete hN]
  unfold countsOk
  rw [beq_iff_eq]
  exact isq.counts

end Smt.Minimize
