/-
  C04 helper lemmas, part 1: the Moore refinement of `Model/Minimize.lean` on an abstract complete
  DFA (`n` states, `fin`, `δ`, letters = the members of `alphabet`).

  * `canon_getD_eq_iff`       canonical numbering keeps exactly the equalities of the list
  * `E m s t`                  the m-th Moore equivalence; `E_iff_agree`: `E m s t` ↔ `s` and `t`
                               agree on every word of length ≤ m
  * `exists_stable`            pigeonhole: among `E 0 … E n` two consecutive relations coincide
                               (strictly more minimal representatives at every unstable round)
  * `mooreAbs_spec`            the list returned by `mooreAbs` has length `n`, its kernel is `E j`
                               for some `j`, and `E j` is stable (`E j s t → E m s t` for all m)
  * `mooreAbs_sound` / `mooreAbs_complete`   same block ↔ no distinguishing word
-/
import SmtModel.Model.Minimize
import Mathlib.Data.Finset.Card
import Mathlib.Data.Nat.Find

namespace Smt.Minimize

/-! ### canonical numbering -/
section canon
variable {α : Type} [DecidableEq α]

theorem mem_firstOccs {l : List α} {y : α} : y ∈ firstOccs l ↔ y ∈ l := by
  induction l with
  | nil => simp [firstOccs]
  | cons x l ih =>
    simp only [firstOccs, List.mem_cons, List.mem_filter, ih, decide_eq_true_eq]
    constructor
    · rintro (h | ⟨h, _⟩)
      · exact .inl h
      · exact .inr h
    · rintro (h | h)
      · exact .inl h
      · by_cases e : y = x
        · exact .inl e
        · exact .inr ⟨h, e⟩

theorem idxOf_inj_of_mem {d : List α} {a b : α} (ha : a ∈ d) :
    d.idxOf a = d.idxOf b ↔ a = b := by
  constructor
  · intro h
    have h1 : d.idxOf a < d.length := List.idxOf_lt_length_iff.2 ha
    have h2 : d.idxOf b < d.length := h ▸ h1
    have e1 := List.getElem_idxOf h1
    have e2 := List.getElem_idxOf h2
    have : d[d.idxOf a] = d[d.idxOf b] := by congr 1
    rw [e1, e2] at this
    exact this
  · rintro rfl; rfl

@[simp] theorem canon_length (l : List α) : (canon l).length = l.length := by simp [canon]

theorem canon_getElem (l : List α) (i : Nat) (h : i < l.length) :
    (canon l)[i]'(by simpa using h) = (firstOccs l).idxOf l[i] := by
  simp [canon]

/-- two positions get the same number iff they hold the same value -/
theorem canon_getD_eq_iff (l : List α) {i j : Nat} (hi : i < l.length) (hj : j < l.length) :
    (canon l).getD i 0 = (canon l).getD j 0 ↔ l[i] = l[j] := by
  have e1 : (canon l).getD i 0 = (firstOccs l).idxOf l[i] := by
    rw [List.getD_eq_getElem?_getD, List.getElem?_eq_getElem (by simpa using hi)]
    simp [canon_getElem l i hi]
  have e2 : (canon l).getD j 0 = (firstOccs l).idxOf l[j] := by
    rw [List.getD_eq_getElem?_getD, List.getElem?_eq_getElem (by simpa using hj)]
    simp [canon_getElem l j hj]
  rw [e1, e2]
  exact idxOf_inj_of_mem (mem_firstOccs.2 (List.getElem_mem hi))

end canon

/-! ### iteration -/

def iterN {β : Type} (f : β → β) : Nat → β → β
  | 0, x => x
  | m + 1, x => iterN f m (f x)

theorem iterN_succ' {β : Type} (f : β → β) (m : Nat) (x : β) :
    iterN f (m + 1) x = f (iterN f m x) := by
  induction m generalizing x with
  | zero => rfl
  | succ m ih => rw [iterN, ih (f x)]; rfl

section abs
variable (n : Nat) (fin : Nat → Bool) (δ : Nat → Nat → Nat) (alphabet : List Nat)

/-- `mooreIter` is plain iteration stopped at a fixpoint -/
theorem mooreIter_eq (r : Nat) (blk : List Nat) :
    ∃ j, j ≤ r ∧ mooreIter n δ alphabet r blk = iterN (refineStep n δ alphabet) j blk ∧
      (j < r → refineStep n δ alphabet (iterN (refineStep n δ alphabet) j blk) =
        iterN (refineStep n δ alphabet) j blk) := by
  induction r generalizing blk with
  | zero => exact ⟨0, Nat.le_refl _, rfl, fun h => absurd h (Nat.lt_irrefl _)⟩
  | succ r ih =>
    unfold mooreIter
    by_cases h : refineStep n δ alphabet blk = blk
    · simp only [h, if_true]
      exact ⟨0, Nat.zero_le _, rfl, fun _ => h⟩
    · simp only [h, if_false]
      obtain ⟨j, hj, e, st⟩ := ih (refineStep n δ alphabet blk)
      exact ⟨j + 1, by omega, e, fun hlt => st (by omega)⟩

/-- the transition function stays inside the state set -/
def Closed : Prop := ∀ s, s < n → ∀ c ∈ alphabet, δ s c < n

/-- the m-th Moore equivalence -/
def E : Nat → Nat → Nat → Prop
  | 0, s, t => fin s = fin t
  | m + 1, s, t => E m s t ∧ ∀ c ∈ alphabet, E m (δ s c) (δ t c)

/-- the state reached from `s` by the word `w` -/
def run (s : Nat) (w : List Nat) : Nat := w.foldl δ s

variable {n fin δ alphabet}

theorem run_closed (hc : Closed n δ alphabet) {s : Nat} (hs : s < n) {w : List Nat}
    (hw : ∀ c ∈ w, c ∈ alphabet) : run δ s w < n := by
  induction w generalizing s with
  | nil => exact hs
  | cons c w ih =>
    simp only [run, List.foldl_cons]
    exact ih (hc s hs c (hw c (by simp))) (fun c' h => hw c' (by simp [h]))

theorem E_refl (m s : Nat) : E fin δ alphabet m s s := by
  induction m generalizing s with
  | zero => rfl
  | succ m ih => exact ⟨ih s, fun c _ => ih _⟩

theorem E_symm {m s t : Nat} (h : E fin δ alphabet m s t) : E fin δ alphabet m t s := by
  induction m generalizing s t with
  | zero => exact h.symm
  | succ m ih => exact ⟨ih h.1, fun c hc => ih (h.2 c hc)⟩

theorem E_trans {m s t u : Nat} (h1 : E fin δ alphabet m s t) (h2 : E fin δ alphabet m t u) :
    E fin δ alphabet m s u := by
  induction m generalizing s t u with
  | zero => exact h1.trans h2
  | succ m ih => exact ⟨ih h1.1 h2.1, fun c hc => ih (h1.2 c hc) (h2.2 c hc)⟩

theorem E_mono {m m' s t : Nat} (hm : m ≤ m') (h : E fin δ alphabet m' s t) :
    E fin δ alphabet m s t := by
  induction m' with
  | zero => have : m = 0 := by omega
            subst this; exact h
  | succ m' ih =>
    by_cases e : m = m' + 1
    · subst e; exact h
    · exact ih (by omega) h.1

/-- `E m` = agreement on all words of length at most `m` -/
theorem E_iff_agree (m s t : Nat) :
    E fin δ alphabet m s t ↔
      ∀ w : List Nat, w.length ≤ m → (∀ c ∈ w, c ∈ alphabet) →
        fin (run δ s w) = fin (run δ t w) := by
  induction m generalizing s t with
  | zero =>
    constructor
    · intro h w hw _
      have : w = [] := List.length_eq_zero_iff.1 (by omega)
      subst this; exact h
    · intro h; exact h [] (by simp) (by simp)
  | succ m ih =>
    constructor
    · rintro ⟨h1, h2⟩ w hw hmem
      cases w with
      | nil => exact (ih s t).1 h1 [] (by simp) (by simp)
      | cons c w =>
        simp only [run, List.foldl_cons]
        exact (ih _ _).1 (h2 c (hmem c (by simp))) w (by simpa using hw)
          (fun c' h => hmem c' (by simp [h]))
    · intro h
      refine ⟨(ih s t).2 (fun w hw hmem => h w (by omega) hmem), fun c hc => ?_⟩
      refine (ih _ _).2 (fun w hw hmem => ?_)
      have := h (c :: w) (by simpa using hw) (by
        intro c' h'
        rcases List.mem_cons.1 h' with rfl | h'
        · exact hc
        · exact hmem c' h')
      simpa only [run, List.foldl_cons] using this

/-! ### stability and the pigeonhole argument -/

/-- round `j` does not split anything -/
def Stable (n : Nat) (fin : Nat → Bool) (δ : Nat → Nat → Nat) (alphabet : List Nat) (j : Nat) : Prop :=
  ∀ s t, s < n → t < n → E fin δ alphabet j s t → E fin δ alphabet (j + 1) s t

theorem stable_forever (hc : Closed n δ alphabet) {j : Nat} (hst : Stable n fin δ alphabet j) :
    ∀ m s t, s < n → t < n → E fin δ alphabet j s t → E fin δ alphabet m s t := by
  intro m
  induction m with
  | zero => intro s t _ _ h; exact E_mono (Nat.zero_le _) h
  | succ m ih =>
    intro s t hs ht h
    refine ⟨ih s t hs ht h, fun c hcm => ?_⟩
    exact ih _ _ (hc s hs c hcm) (hc t ht c hcm) ((hst s t hs ht h).2 c hcm)

open Classical in
/-- states that are the least element of their `E m`-class -/
noncomputable def reps (n : Nat) (fin : Nat → Bool) (δ : Nat → Nat → Nat) (alphabet : List Nat)
    (m : Nat) : Finset Nat :=
  (Finset.range n).filter (fun s => ∀ t, t < s → ¬ E fin δ alphabet m t s)

theorem mem_reps {m s : Nat} :
    s ∈ reps n fin δ alphabet m ↔ s < n ∧ ∀ t, t < s → ¬ E fin δ alphabet m t s := by
  simp [reps]

theorem reps_subset (m : Nat) : reps n fin δ alphabet m ⊆ reps n fin δ alphabet (m + 1) := by
  intro s hs
  rw [mem_reps] at hs ⊢
  exact ⟨hs.1, fun t ht h => hs.2 t ht h.1⟩

/-- the least element of the `E m`-class of `s` -/
theorem exists_rep (m : Nat) {s : Nat} (hs : s < n) :
    ∃ r, r ∈ reps n fin δ alphabet m ∧ E fin δ alphabet m r s := by
  classical
  have hex : ∃ y, E fin δ alphabet m y s := ⟨s, E_refl m s⟩
  refine ⟨Nat.find hex, mem_reps.2 ⟨?_, ?_⟩, Nat.find_spec hex⟩
  · exact Nat.lt_of_le_of_lt (Nat.find_min' hex (E_refl m s)) hs
  · intro t ht h
    exact Nat.find_min hex ht (E_trans h (Nat.find_spec hex))

theorem reps_ssubset {m : Nat} (h : ¬ Stable n fin δ alphabet m) :
    reps n fin δ alphabet m ⊂ reps n fin δ alphabet (m + 1) := by
  classical
  rw [Finset.ssubset_iff_of_subset (reps_subset m)]
  simp only [Stable, not_forall] at h
  obtain ⟨s, t, hs, ht, hE, hn⟩ := h
  obtain ⟨rs, hrs, ers⟩ := exists_rep (fin := fin) (δ := δ) (alphabet := alphabet) (m + 1) hs
  obtain ⟨rt, hrt, ert⟩ := exists_rep (fin := fin) (δ := δ) (alphabet := alphabet) (m + 1) ht
  have hne : rs ≠ rt := by
    rintro rfl
    exact hn (E_trans (E_symm ers) ert)
  -- rs and rt are E m-related
  have hrel : E fin δ alphabet m rs rt :=
    E_trans (E_trans (E_mono (Nat.le_succ m) ers) hE) (E_symm (E_mono (Nat.le_succ m) ert))
  by_cases h1 : rs ∈ reps n fin δ alphabet m
  · by_cases h2 : rt ∈ reps n fin δ alphabet m
    · exfalso
      rcases Nat.lt_or_gt_of_ne hne with hlt | hlt
      · exact (mem_reps.1 h2).2 rs hlt hrel
      · exact (mem_reps.1 h1).2 rt hlt (E_symm hrel)
    · exact ⟨rt, hrt, h2⟩
  · exact ⟨rs, hrs, h1⟩

theorem card_reps_ge (hn : 0 < n) (m : Nat) (h : ∀ i, i < m → ¬ Stable n fin δ alphabet i) :
    m + 1 ≤ (reps n fin δ alphabet m).card := by
  induction m with
  | zero =>
    have : 0 ∈ reps n fin δ alphabet 0 := mem_reps.2 ⟨hn, fun t ht => absurd ht (Nat.not_lt_zero _)⟩
    exact Finset.card_pos.2 ⟨0, this⟩
  | succ m ih =>
    have h1 := ih (fun i hi => h i (by omega))
    have h2 := Finset.card_lt_card (reps_ssubset (h m (Nat.lt_succ_self m)))
    omega

/-- some round among the first `n` is stable -/
theorem exists_stable (hn : 0 < n) : ∃ j, j < n ∧ Stable n fin δ alphabet j := by
  classical
  by_contra hcon
  have hall : ∀ i, i < n → ¬ Stable n fin δ alphabet i := fun i hi hs => hcon ⟨i, hi, hs⟩
  have h1 := card_reps_ge (fin := fin) (δ := δ) (alphabet := alphabet) hn n hall
  have h2 : (reps n fin δ alphabet n).card ≤ n := by
    have : reps n fin δ alphabet n ⊆ Finset.range n := by
      intro s hs; exact Finset.mem_range.2 (mem_reps.1 hs).1
    simpa using Finset.card_le_card this
  omega

/-! ### the lists computed by the model -/

/-- kernel of a block list on the states `< n` -/
def Ker (n : Nat) (blk : List Nat) (R : Nat → Nat → Prop) : Prop :=
  blk.length = n ∧ ∀ s t, s < n → t < n → (blk.getD s 0 = blk.getD t 0 ↔ R s t)

theorem init_ker : Ker n (canon ((List.range n).map fin)) (E fin δ alphabet 0) := by
  refine ⟨by simp, fun s t hs ht => ?_⟩
  rw [canon_getD_eq_iff _ (by simpa using hs) (by simpa using ht)]
  simp [E]

theorem step_ker (hc : Closed n δ alphabet) {blk : List Nat} {m : Nat}
    (h : Ker n blk (E fin δ alphabet m)) :
    Ker n (refineStep n δ alphabet blk) (E fin δ alphabet (m + 1)) := by
  refine ⟨by simp [refineStep], fun s t hs ht => ?_⟩
  unfold refineStep
  rw [canon_getD_eq_iff _ (by simpa using hs) (by simpa using ht)]
  simp only [List.getElem_map, List.getElem_range, sig, List.cons.injEq, List.map_inj_left]
  constructor
  · rintro ⟨h1, h2⟩
    exact ⟨(h.2 s t hs ht).1 h1, fun c hcm =>
      (h.2 _ _ (hc s hs c hcm) (hc t ht c hcm)).1 (h2 c hcm)⟩
  · rintro ⟨h1, h2⟩
    exact ⟨(h.2 s t hs ht).2 h1, fun c hcm =>
      (h.2 _ _ (hc s hs c hcm) (hc t ht c hcm)).2 (h2 c hcm)⟩

theorem iter_ker (hc : Closed n δ alphabet) (m : Nat) :
    Ker n (iterN (refineStep n δ alphabet) m (canon ((List.range n).map fin)))
      (E fin δ alphabet m) := by
  induction m with
  | zero => exact init_ker
  | succ m ih => rw [iterN_succ']; exact step_ker hc ih

/-- what `mooreAbs` returns: a list of length `n` whose kernel is a stable Moore equivalence -/
theorem mooreAbs_spec (hc : Closed n δ alphabet) :
    ∃ j, Ker n (mooreAbs n fin δ alphabet) (E fin δ alphabet j) ∧
      ∀ m s t, s < n → t < n → E fin δ alphabet j s t → E fin δ alphabet m s t := by
  obtain ⟨j, hj, e, st⟩ := mooreIter_eq n δ alphabet n (canon ((List.range n).map fin))
  refine ⟨j, ?_, ?_⟩
  · unfold mooreAbs; rw [e]; exact iter_ker hc j
  · by_cases hlt : j < n
    · -- stopped early: the next round returns the same list
      have hk := iter_ker (fin := fin) hc j
      have hk' := iter_ker (fin := fin) hc (j + 1)
      rw [iterN_succ', st hlt] at hk'
      have hst : Stable n fin δ alphabet j := by
        intro s t hs ht h
        exact (hk'.2 s t hs ht).1 ((hk.2 s t hs ht).2 h)
      exact stable_forever hc hst
    · have hjn : j = n := by omega
      subst hjn
      by_cases hn : 0 < j
      · obtain ⟨i, hi, hst⟩ := exists_stable (fin := fin) (δ := δ) (alphabet := alphabet) hn
        intro m s t hs ht h
        exact stable_forever hc hst m s t hs ht (E_mono (Nat.le_of_lt hi) h)
      · intro m s t hs; omega

/-- same block ⇒ no word distinguishes the two states -/
theorem mooreAbs_sound (hc : Closed n δ alphabet) {s t : Nat} (hs : s < n) (ht : t < n)
    (h : (mooreAbs n fin δ alphabet).getD s 0 = (mooreAbs n fin δ alphabet).getD t 0)
    (w : List Nat) (hw : ∀ c ∈ w, c ∈ alphabet) : fin (run δ s w) = fin (run δ t w) := by
  obtain ⟨j, hk, hst⟩ := mooreAbs_spec (fin := fin) hc
  have := hst w.length s t hs ht ((hk.2 s t hs ht).1 h)
  exact (E_iff_agree _ _ _).1 this w (Nat.le_refl _) hw

/-- different blocks ⇒ some word over the alphabet distinguishes the two states -/
theorem mooreAbs_complete (hc : Closed n δ alphabet) {s t : Nat} (hs : s < n) (ht : t < n)
    (h : (mooreAbs n fin δ alphabet).getD s 0 ≠ (mooreAbs n fin δ alphabet).getD t 0) :
    ∃ w : List Nat, (∀ c ∈ w, c ∈ alphabet) ∧ fin (run δ s w) ≠ fin (run δ t w) := by
  obtain ⟨j, hk, _⟩ := mooreAbs_spec (fin := fin) hc
  have hne : ¬ E fin δ alphabet j s t := fun hE => h ((hk.2 s t hs ht).2 hE)
  rw [E_iff_agree] at hne
  simp only [not_forall] at hne
  obtain ⟨w, _, hw, hd⟩ := hne
  exact ⟨w, hw, hd⟩

theorem mooreAbs_length (hc : Closed n δ alphabet) : (mooreAbs n fin δ alphabet).length = n := by
  obtain ⟨_, hk, _⟩ := mooreAbs_spec (fin := fin) hc
  exact hk.1

end abs
end Smt.Minimize
