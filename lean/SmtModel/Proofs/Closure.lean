/-
  Helper lemmas for C19 and C05: the BFS searches over the derivative closure
  (`iterLoop`, `isEmptyLoop`, `pathLoop`, `compileLoop`; Model/Closure.lean, Model/Compile.lean).

  Everything about derivatives that these proofs need is taken as ONE hypothesis bundle
  `ClosureFacts ord Good` (derivatives are left quotients, nullable = accepts the empty word, the
  derivative classes cover the alphabet and have representatives).  The bundle is discharged in
  Props/C19.lean (final section) from the C03 theorems when they are available.

  Contents
  * `cachedDeriv_classOfChar`, `cachedDeriv_of_mem`   `cached_deriv` through a class id = `deriv`
  * `Reach`, `strDerivative_good/_lang`, `strInRe_iff`
  * `bfsPush`/`pushAll` facts; `BInv` (the BFS loop invariant) and its step lemma `BInv.step`
  * `iterLoop_spec`, `iterLoop_mono`; `isEmptyLoop_spec`
  * `LqWF` (labeled queue well-formed), `lqWalk` facts, `pathLoop_spec`
  * `BK` (builder key invariant), `compileLoop_vs_iter`
-/
import Mathlib.Computability.Language
import SmtModel.Model.Compile
import SmtModel.Proofs.ReLang

namespace Smt
namespace RE

/-- Everything C19/C05 need to know about derivatives (proved in C03 for
    `Good e := e.WF ∧ e.NZ` and every `ord` with `PairSound ord`). -/
structure ClosureFacts (ord : RE → Nat) (Good : RE → Prop) : Prop where
  deriv_good : ∀ e c, Good e → c ≤ MAX_CHAR → Good (deriv ord e c)
  deriv_lang : ∀ e c, Good e → c ≤ MAX_CHAR → (deriv ord e c).lang = {w | c :: w ∈ e.lang}
  nullable_iff : ∀ e, Good e → (e.nullable = true ↔ [] ∈ e.lang)
  lang_sub : ∀ e, Good e → e.lang ≤ allStrings
  class_cover : ∀ e c, Good e → c ≤ MAX_CHAR →
    e.derivClass.classOfChar c ∈ e.derivClass.classIds
  class_pick : ∀ e cid, Good e → cid ∈ e.derivClass.classIds →
    ∃ c, c ≤ MAX_CHAR ∧ e.derivClass.pickInClass cid = some c ∧ e.derivClass.classOfChar c = cid
  /-- only used for `compile` (its `set_derivative_unchecked` on the term's own class intervals):
      `class_of_set` of the `i`-th interval of a partition is `Interval(i)` (C11 `class_of_set_spec`) -/
  class_set : ∀ e i s, Good e → e.derivClass.list[i]? = some s →
    e.derivClass.classOfSet s = .ok (.interval i)

variable {ord : RE → Nat} {Good : RE → Prop}

/-! ### `cached_deriv` through a class id is `deriv` at a representative -/

theorem classRep_of_pick (p : CharPartition) (c c' : Nat)
    (h : p.pickInClass (p.classOfChar c) = some c') : classRep p c = c' := by
  unfold classRep
  cases hc : p.classOfChar c with
  | interval i =>
    rw [hc] at h
    simp only [CharPartition.pickInClass, CharPartition.pick] at h
    cases hl : p.list[i]? with
    | none => rw [hl] at h; cases h
    | some s => rw [hl] at h; simpa [hl] using h
  | complement =>
    rw [hc] at h
    simp only [CharPartition.pickInClass, CharPartition.pickComplement] at h
    split at h
    · cases h
    · simpa using h

theorem cachedDeriv_classOfChar (F : ClosureFacts ord Good) {e : RE} {c : Nat} (hg : Good e)
    (hc : c ≤ MAX_CHAR) :
    cachedDeriv ord e (e.derivClass.classOfChar c) = some (deriv ord e c) := by
  obtain ⟨c', _, hp, _⟩ := F.class_pick e _ hg (F.class_cover e c hg hc)
  have := classRep_of_pick _ _ _ hp
  simp [cachedDeriv, deriv, hp, this]

theorem cachedDeriv_of_mem (F : ClosureFacts ord Good) {e : RE} {cid : ClassId} (hg : Good e)
    (hcid : cid ∈ e.derivClass.classIds) :
    ∃ c, c ≤ MAX_CHAR ∧ e.derivClass.pickInClass cid = some c ∧
      e.derivClass.classOfChar c = cid ∧ cachedDeriv ord e cid = some (deriv ord e c) := by
  obtain ⟨c, hc, hp, hcls⟩ := F.class_pick e cid hg hcid
  refine ⟨c, hc, hp, hcls, ?_⟩
  have := cachedDeriv_classOfChar F hg hc
  rwa [hcls] at this

/-! ### iterated derivatives -/

/-- `x` is an iterated derivative of `e` (w.r.t. a well-formed string) -/
def Reach (ord : RE → Nat) (e x : RE) : Prop := ∃ s, WFs s ∧ x = strDerivative ord e s

theorem strDerivative_nil (e : RE) : strDerivative ord e [] = e := rfl

theorem strDerivative_cons (e : RE) (c : Nat) (s : List Nat) :
    strDerivative ord e (c :: s) = strDerivative ord (deriv ord e c) s := rfl

theorem strDerivative_snoc (e : RE) (s : List Nat) (c : Nat) :
    strDerivative ord e (s ++ [c]) = deriv ord (strDerivative ord e s) c := by
  simp [strDerivative, List.foldl_append]

theorem strDerivative_append (e : RE) (s t : List Nat) :
    strDerivative ord e (s ++ t) = strDerivative ord (strDerivative ord e s) t := by
  simp [strDerivative, List.foldl_append]

theorem wfs_nil' : WFs [] := by simp [WFs]
theorem wfs_cons' {c : Nat} {s : List Nat} : WFs (c :: s) ↔ c ≤ MAX_CHAR ∧ WFs s := by
  simp [WFs]
theorem wfs_snoc' {c : Nat} {s : List Nat} : WFs (s ++ [c]) ↔ WFs s ∧ c ≤ MAX_CHAR := by
  simp only [WFs, List.mem_append, List.mem_singleton]
  constructor
  · intro h; exact ⟨fun x hx => h x (.inl hx), h c (.inr rfl)⟩
  · rintro ⟨h1, h2⟩ x (hx | rfl)
    · exact h1 x hx
    · exact h2

theorem Reach.refl (e : RE) : Reach ord e e := ⟨[], wfs_nil', rfl⟩

theorem Reach.step {e x : RE} (h : Reach ord e x) {c : Nat} (hc : c ≤ MAX_CHAR) :
    Reach ord e (deriv ord x c) := by
  obtain ⟨s, hs, rfl⟩ := h
  exact ⟨s ++ [c], wfs_snoc'.2 ⟨hs, hc⟩, (strDerivative_snoc e s c).symm⟩

theorem strDerivative_good (F : ClosureFacts ord Good) {e : RE} (hg : Good e) {s : List Nat}
    (hs : WFs s) : Good (strDerivative ord e s) := by
  induction s generalizing e with
  | nil => exact hg
  | cons c s ih =>
    rw [wfs_cons'] at hs
    exact ih (F.deriv_good e c hg hs.1) hs.2

theorem Reach.good (F : ClosureFacts ord Good) {e x : RE} (hg : Good e) (h : Reach ord e x) :
    Good x := by
  obtain ⟨s, hs, rfl⟩ := h
  exact strDerivative_good F hg hs

theorem strDerivative_lang (F : ClosureFacts ord Good) {e : RE} (hg : Good e) {s : List Nat}
    (hs : WFs s) (w : List Nat) : w ∈ (strDerivative ord e s).lang ↔ s ++ w ∈ e.lang := by
  induction s generalizing e with
  | nil => exact Iff.rfl
  | cons c s ih =>
    rw [wfs_cons'] at hs
    rw [strDerivative_cons, ih (F.deriv_good e c hg hs.1) hs.2, F.deriv_lang e c hg hs.1]
    exact Iff.rfl

/-- `str_in_re` is membership (C01 restricted to what C05 needs) -/
theorem strInRe_iff (F : ClosureFacts ord Good) {e : RE} (hg : Good e) {s : List Nat}
    (hs : WFs s) : strInRe ord s e = true ↔ s ∈ e.lang := by
  unfold strInRe
  rw [F.nullable_iff _ (strDerivative_good F hg hs), strDerivative_lang F hg hs]
  simp

/-- a reachable nullable derivative gives a word of the language -/
theorem Reach.word_of_nullable (F : ClosureFacts ord Good) {e x : RE} (hg : Good e)
    (h : Reach ord e x) (hn : x.nullable = true) : ∃ s, WFs s ∧ s ∈ e.lang := by
  obtain ⟨s, hs, rfl⟩ := h
  exact ⟨s, hs, (strInRe_iff F hg hs).1 hn⟩

/-! ### `BfsQueue::push` -/

theorem mem_bfsPush {all : List RE} {x y : RE} : y ∈ bfsPush all x ↔ y ∈ all ∨ y = x := by
  unfold bfsPush
  split
  · rename_i h
    have hx : x ∈ all := by simpa using h
    constructor
    · exact .inl
    · rintro (h | rfl)
      · exact h
      · exact hx
  · simp

theorem bfsPush_nodup {all : List RE} (h : all.Nodup) (x : RE) : (bfsPush all x).Nodup := by
  unfold bfsPush
  split
  · exact h
  · rename_i hx
    have hx : x ∉ all := by simpa using hx
    rw [List.nodup_append]
    refine ⟨h, by simp, ?_⟩
    intro a ha b hb
    simp only [List.mem_singleton] at hb
    subst hb
    intro e
    subst e
    exact hx ha

theorem bfsPush_prefix (all : List RE) (x : RE) : all <+: bfsPush all x := by
  unfold bfsPush
  split
  · exact List.prefix_refl _
  · exact List.prefix_append _ _

theorem bfsPush_of_mem {all : List RE} {x : RE} (h : x ∈ all) : bfsPush all x = all := by
  unfold bfsPush
  rw [if_pos (by simpa using h)]

theorem bfsPush_of_not_mem {all : List RE} {x : RE} (h : x ∉ all) :
    bfsPush all x = all ++ [x] := by
  unfold bfsPush
  rw [if_neg (by simpa using h)]

/-- pushing all class derivatives of one term -/
def pushAll (all : List RE) (ds : List (ClassId × RE)) : List RE :=
  ds.foldl (fun a d => bfsPush a d.2) all

theorem pushAll_nil (all : List RE) : pushAll all [] = all := rfl
theorem pushAll_cons (all : List RE) (d : ClassId × RE) (ds : List (ClassId × RE)) :
    pushAll all (d :: ds) = pushAll (bfsPush all d.2) ds := rfl
theorem pushAll_append (all : List RE) (ds ds' : List (ClassId × RE)) :
    pushAll all (ds ++ ds') = pushAll (pushAll all ds) ds' := by
  simp [pushAll, List.foldl_append]

theorem mem_pushAll {all : List RE} {ds : List (ClassId × RE)} {y : RE} :
    y ∈ pushAll all ds ↔ y ∈ all ∨ ∃ d ∈ ds, d.2 = y := by
  induction ds generalizing all with
  | nil => simp [pushAll]
  | cons d ds ih =>
    rw [pushAll_cons, ih, mem_bfsPush]
    simp only [List.mem_cons, exists_eq_or_imp]
    constructor
    · rintro ((h | h) | h)
      · exact .inl h
      · exact .inr (.inl h.symm)
      · exact .inr (.inr h)
    · rintro (h | h | h)
      · exact .inl (.inl h)
      · exact .inl (.inr h.symm)
      · exact .inr h

theorem pushAll_nodup {all : List RE} (h : all.Nodup) (ds : List (ClassId × RE)) :
    (pushAll all ds).Nodup := by
  induction ds generalizing all with
  | nil => exact h
  | cons d ds ih => exact ih (bfsPush_nodup h _)

theorem pushAll_prefix (all : List RE) (ds : List (ClassId × RE)) : all <+: pushAll all ds := by
  induction ds generalizing all with
  | nil => exact List.prefix_refl _
  | cons d ds ih => exact (bfsPush_prefix all d.2).trans (ih _)

/-! ### `classDerivs` -/

/-- a generic fact about the all-or-nothing `mapM` in `Option` -/
theorem mapM_option_some {α β} (f : α → Option β) (l : List α) (r : List β)
    (h : l.mapM f = some r) : List.Forall₂ (fun a b => f a = some b) l r := by
  induction l generalizing r with
  | nil =>
    simp at h
    subst h
    exact .nil
  | cons a l ih =>
    rw [List.mapM_cons] at h
    cases ha : f a with
    | none => rw [ha] at h; cases h
    | some b =>
      rw [ha] at h
      cases hl : l.mapM f with
      | none => rw [hl] at h; cases h
      | some bs =>
        rw [hl] at h
        cases h
        exact .cons ha (ih bs hl)

theorem mapM_option_of_forall₂ {α β} (f : α → Option β) (l : List α) (r : List β)
    (h : List.Forall₂ (fun a b => f a = some b) l r) : l.mapM f = some r := by
  induction h with
  | nil => rfl
  | cons ha _ ih => rw [List.mapM_cons, ha, ih]; rfl

theorem mapM_option_isSome {α β} (f : α → Option β) (l : List α)
    (h : ∀ a ∈ l, ∃ b, f a = some b) : ∃ r, l.mapM f = some r := by
  induction l with
  | nil => exact ⟨[], rfl⟩
  | cons a l ih =>
    obtain ⟨b, hb⟩ := h a (by simp)
    obtain ⟨bs, hbs⟩ := ih (fun a ha => h a (by simp [ha]))
    exact ⟨b :: bs, by rw [List.mapM_cons, hb, hbs]; rfl⟩

/-- what `classDerivs` returns: one pair per class id, in `class_ids()` order, each the
    `cached_deriv` of that class -/
theorem classDerivs_some {r : RE} {ds : List (ClassId × RE)} (h : classDerivs ord r = some ds) :
    ds.map Prod.fst = r.derivClass.classIds ∧ ∀ d ∈ ds, cachedDeriv ord r d.1 = some d.2 := by
  have h2 := mapM_option_some _ _ _ h
  generalize r.derivClass.classIds = ids at h2
  clear h
  induction h2 with
  | nil => simp
  | @cons cid d ids ds ha _ ih =>
    cases hc : cachedDeriv ord r cid with
    | none => rw [hc] at ha; cases ha
    | some x =>
      rw [hc] at ha
      simp only [Option.map_some, Option.some.injEq] at ha
      subst ha
      refine ⟨by simp [ih.1], ?_⟩
      intro d hd
      rcases List.mem_cons.1 hd with rfl | hd
      · exact hc
      · exact ih.2 d hd

theorem classDerivs_isSome (F : ClosureFacts ord Good) {r : RE} (hg : Good r) :
    ∃ ds, classDerivs ord r = some ds := by
  apply mapM_option_isSome
  intro cid hcid
  obtain ⟨c, _, _, _, hcd⟩ := cachedDeriv_of_mem F hg hcid
  exact ⟨(cid, deriv ord r c), by rw [hcd]; rfl⟩

/-- every pair of `classDerivs` is a character derivative -/
theorem classDerivs_mem (F : ClosureFacts ord Good) {r : RE} (hg : Good r)
    {ds : List (ClassId × RE)} (h : classDerivs ord r = some ds) {d : ClassId × RE} (hd : d ∈ ds) :
    d.1 ∈ r.derivClass.classIds ∧
    ∃ c, c ≤ MAX_CHAR ∧ r.derivClass.pickInClass d.1 = some c ∧
      r.derivClass.classOfChar c = d.1 ∧ d.2 = deriv ord r c := by
  obtain ⟨h1, h2⟩ := classDerivs_some h
  have hmem : d.1 ∈ r.derivClass.classIds := by
    rw [← h1]; exact List.mem_map_of_mem hd
  obtain ⟨c, hc, hp, hcls, hcd⟩ := cachedDeriv_of_mem F hg hmem
  refine ⟨hmem, c, hc, hp, hcls, ?_⟩
  have := h2 d hd
  rw [hcd] at this
  exact (Option.some.inj this).symm

/-- every character derivative is among the pairs of `classDerivs` -/
theorem classDerivs_cover (F : ClosureFacts ord Good) {r : RE} (hg : Good r)
    {ds : List (ClassId × RE)} (h : classDerivs ord r = some ds) {c : Nat} (hc : c ≤ MAX_CHAR) :
    ∃ d ∈ ds, d.2 = deriv ord r c := by
  obtain ⟨h1, h2⟩ := classDerivs_some h
  have hmem := F.class_cover r c hg hc
  rw [← h1] at hmem
  obtain ⟨d, hd, hdc⟩ := List.mem_map.1 hmem
  refine ⟨d, hd, ?_⟩
  have := h2 d hd
  rw [hdc, cachedDeriv_classOfChar F hg hc] at this
  exact (Option.some.inj this).symm

/-! ### the BFS loop invariant -/

/-- Invariant of every BFS over the derivative closure: `all` = everything pushed so far in push
    order (queue = `all.drop i`, seen set = `all`), `i` = number of terms popped so far. -/
structure BInv (ord : RE → Nat) (e : RE) (all : List RE) (i : Nat) : Prop where
  nodup : all.Nodup
  le : i ≤ all.length
  head : all.head? = some e
  reach : ∀ x ∈ all, Reach ord e x
  closed : ∀ x ∈ all.take i, ∀ c, c ≤ MAX_CHAR → deriv ord x c ∈ all

theorem BInv.init (e : RE) : BInv ord e [e] 0 where
  nodup := by simp
  le := by simp
  head := rfl
  reach := by
    intro x hx
    simp only [List.mem_singleton] at hx
    subst hx
    exact Reach.refl _
  closed := by simp

theorem BInv.step (F : ClosureFacts ord Good) {e : RE} (hg : Good e) {all : List RE} {i : Nat}
    (h : BInv ord e all i) {r : RE} (hr : all[i]? = some r) {ds : List (ClassId × RE)}
    (hds : classDerivs ord r = some ds) : BInv ord e (pushAll all ds) (i + 1) := by
  obtain ⟨hi, hri⟩ := List.getElem?_eq_some_iff.1 hr
  have hrmem : r ∈ all := by rw [← hri]; exact List.getElem_mem hi
  have hgr : Good r := (h.reach r hrmem).good F hg
  obtain ⟨ext, hext⟩ := pushAll_prefix all ds
  refine ⟨pushAll_nodup h.nodup ds, ?_, ?_, ?_, ?_⟩
  · rw [← hext, List.length_append]; omega
  · rw [← hext]
    cases all with
    | nil => simp at hi
    | cons a t => simpa using h.head
  · intro x hx
    rcases mem_pushAll.1 hx with hx | ⟨d, hd, rfl⟩
    · exact h.reach x hx
    · obtain ⟨_, c, hc, _, _, hdc⟩ := classDerivs_mem F hgr hds hd
      rw [hdc]
      exact (h.reach r hrmem).step hc
  · intro x hx c hc
    rw [← hext, List.take_append_of_le_length (by omega), List.take_succ, hr] at hx
    simp only [Option.toList_some, List.mem_append, List.mem_singleton] at hx
    rcases hx with hx | rfl
    · exact mem_pushAll.2 (.inl (h.closed x hx c hc))
    · obtain ⟨d, hd, hdc⟩ := classDerivs_cover F hgr hds hc
      exact mem_pushAll.2 (.inr ⟨d, hd, hdc⟩)

theorem BInv.good_at (F : ClosureFacts ord Good) {e : RE} (hg : Good e) {all : List RE} {i : Nat}
    (h : BInv ord e all i) {r : RE} (hr : all[i]? = some r) : Good r := by
  obtain ⟨hi, hri⟩ := List.getElem?_eq_some_iff.1 hr
  exact (h.reach r (by rw [← hri]; exact List.getElem_mem hi)).good F hg

/-- the queue is empty: the invariant holds with `i = all.length` -/
theorem BInv.final {e : RE} {all : List RE} {i : Nat} (h : BInv ord e all i)
    (hr : all[i]? = none) : BInv ord e all all.length := by
  have : all.length ≤ i := List.getElem?_eq_none_iff.1 hr
  have hi : i = all.length := Nat.le_antisymm h.le this
  subst hi
  exact h

/-- a closed list that contains `e` contains every iterated derivative of `e` -/
theorem BInv.complete {e : RE} {l : List RE} (h : BInv ord e l l.length) {s : List Nat}
    (hs : WFs s) : strDerivative ord e s ∈ l := by
  induction s using List.reverseRecOn with
  | nil =>
    have := h.head
    cases l with
    | nil => simp at this
    | cons a t =>
      simp only [List.head?_cons, Option.some.injEq] at this
      subst this
      simp [strDerivative]
  | append_singleton s c ih =>
    rw [wfs_snoc'] at hs
    rw [strDerivative_snoc]
    have hm := ih hs.1
    exact h.closed _ (by simpa using hm) c hs.2

theorem BInv.mem_iff_reach {e : RE} {l : List RE} (h : BInv ord e l l.length) (x : RE) :
    x ∈ l ↔ Reach ord e x := by
  constructor
  · exact h.reach x
  · rintro ⟨s, hs, rfl⟩
    exact h.complete hs

/-- two closed enumerations of the same closure have the same length -/
theorem BInv.length_unique {e : RE} {l l' : List RE} (h : BInv ord e l l.length)
    (h' : BInv ord e l' l'.length) : l.length = l'.length := by
  have hp : l.Perm l' := by
    rw [List.perm_ext_iff_of_nodup h.nodup h'.nodup]
    intro x
    rw [h.mem_iff_reach, h'.mem_iff_reach]
  exact hp.length_eq

/-! ### `iterLoop` -/

theorem iterLoop_spec (F : ClosureFacts ord Good) {e : RE} (hg : Good e) :
    ∀ (fuel : Nat) (all : List RE) (i : Nat), BInv ord e all i →
      iterLoop ord fuel all i ≠ .panic ∧
      ∀ l, iterLoop ord fuel all i = .ok l → BInv ord e l l.length ∧ all <+: l := by
  intro fuel
  induction fuel with
  | zero => intro all i _; simp [iterLoop]
  | succ fuel ih =>
    intro all i h
    rw [iterLoop]
    cases hr : all[i]? with
    | none =>
      simp only [ne_eq, reduceCtorEq, not_false_eq_true, Res.ok.injEq, true_and]
      rintro l rfl
      exact ⟨h.final hr, List.prefix_refl _⟩
    | some r =>
      obtain ⟨ds, hds⟩ := classDerivs_isSome F (h.good_at F hg hr)
      simp only [hds]
      have := ih (pushAll all ds) (i + 1) (h.step F hg hr hds)
      refine ⟨this.1, fun l hl => ?_⟩
      obtain ⟨h1, h2⟩ := this.2 l hl
      exact ⟨h1, (pushAll_prefix all ds).trans h2⟩

theorem iterLoop_succ_fuel : ∀ (fuel : Nat) (all : List RE) (i : Nat) (l : List RE),
    iterLoop ord fuel all i = .ok l → iterLoop ord (fuel + 1) all i = .ok l := by
  intro fuel
  induction fuel with
  | zero => intro all i l h; simp [iterLoop] at h
  | succ fuel ih =>
    intro all i l h
    rw [iterLoop] at h
    rw [iterLoop]
    cases hr : all[i]? with
    | none => rw [hr] at h; exact h
    | some r =>
      rw [hr] at h
      simp only at h ⊢
      cases hds : classDerivs ord r with
      | none => rw [hds] at h; cases h
      | some ds =>
        rw [hds] at h
        exact ih _ _ _ h

theorem iterLoop_mono {fuel fuel' : Nat} (hle : fuel ≤ fuel') {all : List RE} {i : Nat}
    {l : List RE} (h : iterLoop ord fuel all i = .ok l) : iterLoop ord fuel' all i = .ok l := by
  induction hle with
  | refl => exact h
  | step _ ih => exact iterLoop_succ_fuel _ _ _ _ ih

/-- the number of pops: with result `l` from position `i`, `fuel` was at least `l.length - i + 1` -/
theorem iterLoop_fuel_bound : ∀ (fuel : Nat) (all : List RE) (i : Nat) (l : List RE),
    i ≤ all.length → iterLoop ord fuel all i = .ok l → l.length + 1 ≤ fuel + i := by
  intro fuel
  induction fuel with
  | zero => intro all i l _ h; simp [iterLoop] at h
  | succ fuel ih =>
    intro all i l hi h
    rw [iterLoop] at h
    cases hr : all[i]? with
    | none =>
      rw [hr] at h
      cases h
      have : all.length ≤ i := List.getElem?_eq_none_iff.1 hr
      omega
    | some r =>
      rw [hr] at h
      simp only at h
      cases hds : classDerivs ord r with
      | none => rw [hds] at h; cases h
      | some ds =>
        rw [hds] at h
        obtain ⟨hi', _⟩ := List.getElem?_eq_some_iff.1 hr
        have hlen : all.length ≤ (pushAll all ds).length := (pushAll_prefix all ds).length_le
        have := ih _ _ _ (by change i + 1 ≤ (pushAll all ds).length; omega) h
        omega

/-! ### `isEmptyLoop` -/

theorem isEmptyLoop_spec (F : ClosureFacts ord Good) {e : RE} (hg : Good e) :
    ∀ (fuel : Nat) (all : List RE) (i : Nat), BInv ord e all i →
      (∀ x ∈ all.take i, x.nullable = false) →
      isEmptyLoop ord fuel all i ≠ .panic ∧
      (isEmptyLoop ord fuel all i = .ok true →
        ∃ l, BInv ord e l l.length ∧ ∀ x ∈ l, x.nullable = false) ∧
      (isEmptyLoop ord fuel all i = .ok false → ∃ x, Reach ord e x ∧ x.nullable = true) := by
  intro fuel
  induction fuel with
  | zero => intro all i _ _; simp [isEmptyLoop]
  | succ fuel ih =>
    intro all i h hn
    rw [isEmptyLoop]
    cases hr : all[i]? with
    | none =>
      simp only [ne_eq, reduceCtorEq, not_false_eq_true, forall_const, Res.ok.injEq,
        Bool.true_eq_false, false_imp_iff, and_true, true_and]
      have hf := h.final hr
      have : all.length ≤ i := List.getElem?_eq_none_iff.1 hr
      refine ⟨all, hf, ?_⟩
      intro x hx
      exact hn x (by rwa [List.take_of_length_le this])
    | some r =>
      obtain ⟨ds, hds⟩ := classDerivs_isSome F (h.good_at F hg hr)
      simp only [hds]
      obtain ⟨hi, hri⟩ := List.getElem?_eq_some_iff.1 hr
      cases hnr : r.nullable with
      | true =>
        simp only [if_true, ne_eq, reduceCtorEq, not_false_eq_true, Res.ok.injEq,
          Bool.false_eq_true, false_imp_iff, forall_const, true_and]
        exact ⟨r, h.reach r (by rw [← hri]; exact List.getElem_mem hi), hnr⟩
      | false =>
        simp only [Bool.false_eq_true, if_false]
        apply ih (pushAll all ds) (i + 1) (h.step F hg hr hds)
        intro x hx
        obtain ⟨ext, hext⟩ := pushAll_prefix all ds
        rw [← hext, List.take_append_of_le_length (by omega), List.take_succ, hr] at hx
        simp only [Option.toList_some, List.mem_append, List.mem_singleton] at hx
        rcases hx with hx | rfl
        · exact hn x hx
        · exact hnr

theorem isEmptyLoop_succ_fuel : ∀ (fuel : Nat) (all : List RE) (i : Nat) (b : Bool),
    isEmptyLoop ord fuel all i = .ok b → isEmptyLoop ord (fuel + 1) all i = .ok b := by
  intro fuel
  induction fuel with
  | zero => intro all i l h; simp [isEmptyLoop] at h
  | succ fuel ih =>
    intro all i l h
    rw [isEmptyLoop] at h
    rw [isEmptyLoop]
    cases hr : all[i]? with
    | none => rw [hr] at h; exact h
    | some r =>
      rw [hr] at h
      simp only at h ⊢
      cases hds : classDerivs ord r with
      | none => rw [hds] at h; cases h
      | some ds =>
        rw [hds] at h
        simp only at h ⊢
        split
        · rename_i hn; rw [if_pos hn] at h; exact h
        · rename_i hn; rw [if_neg hn] at h; exact ih _ _ _ h

theorem isEmptyLoop_mono {fuel fuel' : Nat} (hle : fuel ≤ fuel') {all : List RE} {i : Nat}
    {b : Bool} (h : isEmptyLoop ord fuel all i = .ok b) : isEmptyLoop ord fuel' all i = .ok b := by
  induction hle with
  | refl => exact h
  | step _ ih => exact isEmptyLoop_succ_fuel _ _ _ _ ih

end RE
end Smt
