/-
  Helper lemmas for C19 and C05: the BFS searches over the derivative closure
  (`iterLoop`, `isEmptyLoop`, `pathLoop`, `compileLoop`; Model/Closure.lean, Model/Compile.lean).

  Everything about derivatives that these proofs need is taken as ONE hypothesis bundle
  `ClosureFacts ord Good` (derivatives are left quotients, nullable = accepts the empty word, the
  derivative classes cover the alphabet and have representatives).  The three class fields follow
  from C11 for well-formed partitions (Props/C19.lean `closureFacts_of_class_wf`); the whole bundle
  is discharged in Props/C19Final.lean (`Smt.C19.closureFacts`) from the C03 theorems.

  Contents
  * `cachedDeriv_classOfChar`, `cachedDeriv_of_mem`   `cached_deriv` through a class id = `deriv`
  * `Reach`, `strDerivative_good/_lang`, `strInRe_iff`
  * `bfsPush`/`pushAll` facts; `BInv` (the BFS loop invariant) and its step lemma `BInv.step`
  * `iterLoop_spec`, `iterLoop_mono`; `isEmptyLoop_spec`
  * `LqWF` (labeled queue well-formed), `lqWalk` facts, `pathLoop_spec`
  * `BK` (builder key invariant), `compileLoop_vs_iter`
-/
import Mathlib.Computability.Language
import SmtModel.Model.Compile
import SmtModel.Proofs.ReLang

namespace Smt
namespace RE

/-- Everything C19/C05 need to know about derivatives (proved in C03 for
    `Good e := e.WF ∧ e.NZ` and every `ord` with `PairSound ord`). -/
structure ClosureFacts (ord : RE → Nat) (Good : RE → Prop) : Prop where
  deriv_good : ∀ e c, Good e → c ≤ MAX_CHAR → Good (deriv ord e c)
  deriv_lang : ∀ e c, Good e → c ≤ MAX_CHAR → (deriv ord e c).lang = {w | c :: w ∈ e.lang}
  nullable_iff : ∀ e, Good e → (e.nullable = true ↔ [] ∈ e.lang)
  lang_sub : ∀ e, Good e → e.lang ≤ allStrings
  class_cover : ∀ e c, Good e → c ≤ MAX_CHAR →
    e.derivClass.classOfChar c ∈ e.derivClass.classIds
  class_pick : ∀ e cid, Good e → cid ∈ e.derivClass.classIds →
    ∃ c, c ≤ MAX_CHAR ∧ e.derivClass.pickInClass cid = some c ∧ e.derivClass.classOfChar c = cid
  /-- only used for `compile` (its `set_derivative_unchecked` on the term's own class intervals):
      `class_of_set` of the `i`-th interval of a partition is `Interval(i)` (C11 `class_of_set_spec`) -/
  class_set : ∀ e i s, Good e → e.derivClass.list[i]? = some s →
    e.derivClass.classOfSet s = .ok (.interval i)

variable {ord : RE → Nat} {Good : RE → Prop}

/-! ### `cached_deriv` through a class id is `deriv` at a representative -/

theorem classRep_of_pick (p : CharPartition) (c c' : Nat)
    (h : p.pickInClass (p.classOfChar c) = some c') : classRep p c = c' := by
  unfold classRep
  cases hc : p.classOfChar c with
  | interval i =>
    rw [hc] at h
    simp only [CharPartition.pickInClass, CharPartition.pick] at h
    cases hl : p.list[i]? with
    | none => rw [hl] at h; cases h
    | some s => rw [hl] at h; simpa [hl] using h
  | complement =>
    rw [hc] at h
    simp only [CharPartition.pickInClass, CharPartition.pickComplement] at h
    split at h
    · cases h
    · simpa using h

theorem cachedDeriv_classOfChar (F : ClosureFacts ord Good) {e : RE} {c : Nat} (hg : Good e)
    (hc : c ≤ MAX_CHAR) :
    cachedDeriv ord e (e.derivClass.classOfChar c) = some (deriv ord e c) := by
  obtain ⟨c', _, hp, _⟩ := F.class_pick e _ hg (F.class_cover e c hg hc)
  have := classRep_of_pick _ _ _ hp
  simp [cachedDeriv, deriv, hp, this]

theorem cachedDeriv_of_mem (F : ClosureFacts ord Good) {e : RE} {cid : ClassId} (hg : Good e)
    (hcid : cid ∈ e.derivClass.classIds) :
    ∃ c, c ≤ MAX_CHAR ∧ e.derivClass.pickInClass cid = some c ∧
      e.derivClass.classOfChar c = cid ∧ cachedDeriv ord e cid = some (deriv ord e c) := by
  obtain ⟨c, hc, hp, hcls⟩ := F.class_pick e cid hg hcid
  refine ⟨c, hc, hp, hcls, ?_⟩
  have := cachedDeriv_classOfChar F hg hc
  rwa [hcls] at this

/-! ### iterated derivatives -/

/-- `x` is an iterated derivative of `e` (w.r.t. a well-formed string) -/
def Reach (ord : RE → Nat) (e x : RE) : Prop := ∃ s, WFs s ∧ x = strDerivative ord e s

theorem strDerivative_nil (e : RE) : strDerivative ord e [] = e := rfl

theorem strDerivative_cons (e : RE) (c : Nat) (s : List Nat) :
    strDerivative ord e (c :: s) = strDerivative ord (deriv ord e c) s := rfl

theorem strDerivative_snoc (e : RE) (s : List Nat) (c : Nat) :
    strDerivative ord e (s ++ [c]) = deriv ord (strDerivative ord e s) c := by
  simp [strDerivative, List.foldl_append]

theorem strDerivative_append (e : RE) (s t : List Nat) :
    strDerivative ord e (s ++ t) = strDerivative ord (strDerivative ord e s) t := by
  simp [strDerivative, List.foldl_append]

theorem wfs_nil' : WFs [] := by simp [WFs]
theorem wfs_cons' {c : Nat} {s : List Nat} : WFs (c :: s) ↔ c ≤ MAX_CHAR ∧ WFs s := by
  simp [WFs]
theorem wfs_snoc' {c : Nat} {s : List Nat} : WFs (s ++ [c]) ↔ WFs s ∧ c ≤ MAX_CHAR := by
  simp only [WFs, List.mem_append, List.mem_singleton]
  constructor
  · intro h; exact ⟨fun x hx => h x (.inl hx), h c (.inr rfl)⟩
  · rintro ⟨h1, h2⟩ x (hx | rfl)
    · exact h1 x hx
    · exact h2

theorem Reach.refl (e : RE) : Reach ord e e := ⟨[], wfs_nil', rfl⟩

theorem Reach.step {e x : RE} (h : Reach ord e x) {c : Nat} (hc : c ≤ MAX_CHAR) :
    Reach ord e (deriv ord x c) := by
  obtain ⟨s, hs, rfl⟩ := h
  exact ⟨s ++ [c], wfs_snoc'.2 ⟨hs, hc⟩, (strDerivative_snoc e s c).symm⟩

theorem strDerivative_good (F : ClosureFacts ord Good) {e : RE} (hg : Good e) {s : List Nat}
    (hs : WFs s) : Good (strDerivative ord e s) := by
  induction s generalizing e with
  | nil => exact hg
  | cons c s ih =>
    rw [wfs_cons'] at hs
    exact ih (F.deriv_good e c hg hs.1) hs.2

theorem Reach.good (F : ClosureFacts ord Good) {e x : RE} (hg : Good e) (h : Reach ord e x) :
    Good x := by
  obtain ⟨s, hs, rfl⟩ := h
  exact strDerivative_good F hg hs

theorem strDerivative_lang (F : ClosureFacts ord Good) {e : RE} (hg : Good e) {s : List Nat}
    (hs : WFs s) (w : List Nat) : w ∈ (strDerivative ord e s).lang ↔ s ++ w ∈ e.lang := by
  induction s generalizing e with
  | nil => exact Iff.rfl
  | cons c s ih =>
    rw [wfs_cons'] at hs
    rw [strDerivative_cons, ih (F.deriv_good e c hg hs.1) hs.2, F.deriv_lang e c hg hs.1]
    exact Iff.rfl

/-- `str_in_re` is membership (C01 restricted to what C05 needs) -/
theorem strInRe_iff (F : ClosureFacts ord Good) {e : RE} (hg : Good e) {s : List Nat}
    (hs : WFs s) : strInRe ord s e = true ↔ s ∈ e.lang := by
  unfold strInRe
  rw [F.nullable_iff _ (strDerivative_good F hg hs), strDerivative_lang F hg hs]
  simp

/-- a reachable nullable derivative gives a word of the language -/
theorem Reach.word_of_nullable (F : ClosureFacts ord Good) {e x : RE} (hg : Good e)
    (h : Reach ord e x) (hn : x.nullable = true) : ∃ s, WFs s ∧ s ∈ e.lang := by
  obtain ⟨s, hs, rfl⟩ := h
  exact ⟨s, hs, (strInRe_iff F hg hs).1 hn⟩

/-! ### `BfsQueue::push` -/

theorem mem_bfsPush {all : List RE} {x y : RE} : y ∈ bfsPush all x ↔ y ∈ all ∨ y = x := by
  unfold bfsPush
  split
  · rename_i h
    have hx : x ∈ all := by simpa using h
    constructor
    · exact .inl
    · rintro (h | rfl)
      · exact h
      · exact hx
  · simp

theorem bfsPush_nodup {all : List RE} (h : all.Nodup) (x : RE) : (bfsPush all x).Nodup := by
  unfold bfsPush
  split
  · exact h
  · rename_i hx
    have hx : x ∉ all := by simpa using hx
    rw [List.nodup_append]
    refine ⟨h, by simp, ?_⟩
    intro a ha b hb
    simp only [List.mem_singleton] at hb
    subst hb
    intro e
    subst e
    exact hx ha

theorem bfsPush_prefix (all : List RE) (x : RE) : all <+: bfsPush all x := by
  unfold bfsPush
  split
  · exact List.prefix_refl _
  · exact List.prefix_append _ _

theorem bfsPush_of_mem {all : List RE} {x : RE} (h : x ∈ all) : bfsPush all x = all := by
  unfold bfsPush
  rw [if_pos (by simpa using h)]

theorem bfsPush_of_not_mem {all : List RE} {x : RE} (h : x ∉ all) :
    bfsPush all x = all ++ [x] := by
  unfold bfsPush
  rw [if_neg (by simpa using h)]

/-- pushing all class derivatives of one term -/
def pushAll (all : List RE) (ds : List (ClassId × RE)) : List RE :=
  ds.foldl (fun a d => bfsPush a d.2) all

theorem pushAll_nil (all : List RE) : pushAll all [] = all := rfl
theorem pushAll_cons (all : List RE) (d : ClassId × RE) (ds : List (ClassId × RE)) :
    pushAll all (d :: ds) = pushAll (bfsPush all d.2) ds := rfl
theorem pushAll_append (all : List RE) (ds ds' : List (ClassId × RE)) :
    pushAll all (ds ++ ds') = pushAll (pushAll all ds) ds' := by
  simp [pushAll, List.foldl_append]

theorem mem_pushAll {all : List RE} {ds : List (ClassId × RE)} {y : RE} :
    y ∈ pushAll all ds ↔ y ∈ all ∨ ∃ d ∈ ds, d.2 = y := by
  induction ds generalizing all with
  | nil => simp [pushAll]
  | cons d ds ih =>
    rw [pushAll_cons, ih, mem_bfsPush]
    simp only [List.mem_cons, exists_eq_or_imp]
    constructor
    · rintro ((h | h) | h)
      · exact .inl h
      · exact .inr (.inl h.symm)
      · exact .inr (.inr h)
    · rintro (h | h | h)
      · exact .inl (.inl h)
      · exact .inl (.inr h.symm)
      · exact .inr h

theorem pushAll_nodup {all : List RE} (h : all.Nodup) (ds : List (ClassId × RE)) :
    (pushAll all ds).Nodup := by
  induction ds generalizing all with
  | nil => exact h
  | cons d ds ih => exact ih (bfsPush_nodup h _)

theorem pushAll_prefix (all : List RE) (ds : List (ClassId × RE)) : all <+: pushAll all ds := by
  induction ds generalizing all with
  | nil => exact List.prefix_refl _
  | cons d ds ih => exact (bfsPush_prefix all d.2).trans (ih _)

/-! ### `classDerivs` -/

/-- a generic fact about the all-or-nothing `mapM` in `Option` -/
theorem mapM_option_some {α β} (f : α → Option β) (l : List α) (r : List β)
    (h : l.mapM f = some r) : List.Forall₂ (fun a b => f a = some b) l r := by
  induction l generalizing r with
  | nil =>
    simp at h
    subst h
    exact .nil
  | cons a l ih =>
    rw [List.mapM_cons] at h
    cases ha : f a with
    | none => rw [ha] at h; cases h
    | some b =>
      rw [ha] at h
      cases hl : l.mapM f with
      | none => rw [hl] at h; cases h
      | some bs =>
        rw [hl] at h
        cases h
        exact .cons ha (ih bs hl)

theorem mapM_option_of_forall₂ {α β} (f : α → Option β) (l : List α) (r : List β)
    (h : List.Forall₂ (fun a b => f a = some b) l r) : l.mapM f = some r := by
  induction h with
  | nil => rfl
  | cons ha _ ih => rw [List.mapM_cons, ha, ih]; rfl

theorem mapM_option_isSome {α β} (f : α → Option β) (l : List α)
    (h : ∀ a ∈ l, ∃ b, f a = some b) : ∃ r, l.mapM f = some r := by
  induction l with
  | nil => exact ⟨[], rfl⟩
  | cons a l ih =>
    obtain ⟨b, hb⟩ := h a (by simp)
    obtain ⟨bs, hbs⟩ := ih (fun a ha => h a (by simp [ha]))
    exact ⟨b :: bs, by rw [List.mapM_cons, hb, hbs]; rfl⟩

/-- what `classDerivs` returns: one pair per class id, in `class_ids()` order, each the
    `cached_deriv` of that class -/
theorem classDerivs_some {r : RE} {ds : List (ClassId × RE)} (h : classDerivs ord r = some ds) :
    ds.map Prod.fst = r.derivClass.classIds ∧ ∀ d ∈ ds, cachedDeriv ord r d.1 = some d.2 := by
  have h2 := mapM_option_some _ _ _ h
  generalize r.derivClass.classIds = ids at h2
  clear h
  induction h2 with
  | nil => simp
  | @cons cid d ids ds ha _ ih =>
    cases hc : cachedDeriv ord r cid with
    | none => rw [hc] at ha; cases ha
    | some x =>
      rw [hc] at ha
      simp only [Option.map_some, Option.some.injEq] at ha
      subst ha
      refine ⟨by simp [ih.1], ?_⟩
      intro d hd
      rcases List.mem_cons.1 hd with rfl | hd
      · exact hc
      · exact ih.2 d hd

theorem classDerivs_isSome (F : ClosureFacts ord Good) {r : RE} (hg : Good r) :
    ∃ ds, classDerivs ord r = some ds := by
  apply mapM_option_isSome
  intro cid hcid
  obtain ⟨c, _, _, _, hcd⟩ := cachedDeriv_of_mem F hg hcid
  exact ⟨(cid, deriv ord r c), by rw [hcd]; rfl⟩

/-- every pair of `classDerivs` is a character derivative -/
theorem classDerivs_mem (F : ClosureFacts ord Good) {r : RE} (hg : Good r)
    {ds : List (ClassId × RE)} (h : classDerivs ord r = some ds) {d : ClassId × RE} (hd : d ∈ ds) :
    d.1 ∈ r.derivClass.classIds ∧
    ∃ c, c ≤ MAX_CHAR ∧ r.derivClass.pickInClass d.1 = some c ∧
      r.derivClass.classOfChar c = d.1 ∧ d.2 = deriv ord r c := by
  obtain ⟨h1, h2⟩ := classDerivs_some h
  have hmem : d.1 ∈ r.derivClass.classIds := by
    rw [← h1]; exact List.mem_map_of_mem hd
  obtain ⟨c, hc, hp, hcls, hcd⟩ := cachedDeriv_of_mem F hg hmem
  refine ⟨hmem, c, hc, hp, hcls, ?_⟩
  have := h2 d hd
  rw [hcd] at this
  exact (Option.some.inj this).symm

/-- every character derivative is among the pairs of `classDerivs` -/
theorem classDerivs_cover (F : ClosureFacts ord Good) {r : RE} (hg : Good r)
    {ds : List (ClassId × RE)} (h : classDerivs ord r = some ds) {c : Nat} (hc : c ≤ MAX_CHAR) :
    ∃ d ∈ ds, d.2 = deriv ord r c := by
  obtain ⟨h1, h2⟩ := classDerivs_some h
  have hmem := F.class_cover r c hg hc
  rw [← h1] at hmem
  obtain ⟨d, hd, hdc⟩ := List.mem_map.1 hmem
  refine ⟨d, hd, ?_⟩
  have := h2 d hd
  rw [hdc, cachedDeriv_classOfChar F hg hc] at this
  exact (Option.some.inj this).symm

/-! ### the BFS loop invariant -/

/-- Invariant of every BFS over the derivative closure: `all` = everything pushed so far in push
    order (queue = `all.drop i`, seen set = `all`), `i` = number of terms popped so far. -/
structure BInv (ord : RE → Nat) (e : RE) (all : List RE) (i : Nat) : Prop where
  nodup : all.Nodup
  le : i ≤ all.length
  head : all.head? = some e
  reach : ∀ x ∈ all, Reach ord e x
  closed : ∀ x ∈ all.take i, ∀ c, c ≤ MAX_CHAR → deriv ord x c ∈ all

theorem BInv.init (e : RE) : BInv ord e [e] 0 where
  nodup := by simp
  le := by simp
  head := rfl
  reach := by
    intro x hx
    simp only [List.mem_singleton] at hx
    subst hx
    exact Reach.refl _
  closed := by simp

theorem BInv.step (F : ClosureFacts ord Good) {e : RE} (hg : Good e) {all : List RE} {i : Nat}
    (h : BInv ord e all i) {r : RE} (hr : all[i]? = some r) {ds : List (ClassId × RE)}
    (hds : classDerivs ord r = some ds) : BInv ord e (pushAll all ds) (i + 1) := by
  obtain ⟨hi, hri⟩ := List.getElem?_eq_some_iff.1 hr
  have hrmem : r ∈ all := by rw [← hri]; exact List.getElem_mem hi
  have hgr : Good r := (h.reach r hrmem).good F hg
  obtain ⟨ext, hext⟩ := pushAll_prefix all ds
  refine ⟨pushAll_nodup h.nodup ds, ?_, ?_, ?_, ?_⟩
  · rw [← hext, List.length_append]; omega
  · rw [← hext]
    cases all with
    | nil => simp at hi
    | cons a t => simpa using h.head
  · intro x hx
    rcases mem_pushAll.1 hx with hx | ⟨d, hd, rfl⟩
    · exact h.reach x hx
    · obtain ⟨_, c, hc, _, _, hdc⟩ := classDerivs_mem F hgr hds hd
      rw [hdc]
      exact (h.reach r hrmem).step hc
  · intro x hx c hc
    rw [← hext, List.take_append_of_le_length (by omega), List.take_add_one, hr] at hx
    simp only [Option.toList_some, List.mem_append, List.mem_singleton] at hx
    rcases hx with hx | rfl
    · exact mem_pushAll.2 (.inl (h.closed x hx c hc))
    · obtain ⟨d, hd, hdc⟩ := classDerivs_cover F hgr hds hc
      exact mem_pushAll.2 (.inr ⟨d, hd, hdc⟩)

theorem BInv.good_at (F : ClosureFacts ord Good) {e : RE} (hg : Good e) {all : List RE} {i : Nat}
    (h : BInv ord e all i) {r : RE} (hr : all[i]? = some r) : Good r := by
  obtain ⟨hi, hri⟩ := List.getElem?_eq_some_iff.1 hr
  exact (h.reach r (by rw [← hri]; exact List.getElem_mem hi)).good F hg

/-- the queue is empty: the invariant holds with `i = all.length` -/
theorem BInv.final {e : RE} {all : List RE} {i : Nat} (h : BInv ord e all i)
    (hr : all[i]? = none) : BInv ord e all all.length := by
  have : all.length ≤ i := List.getElem?_eq_none_iff.1 hr
  have hi : i = all.length := Nat.le_antisymm h.le this
  subst hi
  exact h

/-- a closed list that contains `e` contains every iterated derivative of `e` -/
theorem BInv.complete {e : RE} {l : List RE} (h : BInv ord e l l.length) {s : List Nat}
    (hs : WFs s) : strDerivative ord e s ∈ l := by
  induction s using List.reverseRecOn with
  | nil =>
    have := h.head
    cases l with
    | nil => simp at this
    | cons a t =>
      simp only [List.head?_cons, Option.some.injEq] at this
      subst this
      simp [strDerivative]
  | append_singleton s c ih =>
    rw [wfs_snoc'] at hs
    rw [strDerivative_snoc]
    have hm := ih hs.1
    exact h.closed _ (by simpa using hm) c hs.2

theorem BInv.mem_iff_reach {e : RE} {l : List RE} (h : BInv ord e l l.length) (x : RE) :
    x ∈ l ↔ Reach ord e x := by
  constructor
  · exact h.reach x
  · rintro ⟨s, hs, rfl⟩
    exact h.complete hs

/-- two closed enumerations of the same closure have the same length -/
theorem BInv.length_unique {e : RE} {l l' : List RE} (h : BInv ord e l l.length)
    (h' : BInv ord e l' l'.length) : l.length = l'.length := by
  have hp : l.Perm l' := by
    rw [List.perm_ext_iff_of_nodup h.nodup h'.nodup]
    intro x
    rw [h.mem_iff_reach, h'.mem_iff_reach]
  exact hp.length_eq

/-! ### `iterLoop` -/

theorem iterLoop_spec (F : ClosureFacts ord Good) {e : RE} (hg : Good e) :
    ∀ (fuel : Nat) (all : List RE) (i : Nat), BInv ord e all i →
      iterLoop ord fuel all i ≠ .panic ∧
      ∀ l, iterLoop ord fuel all i = .ok l → BInv ord e l l.length ∧ all <+: l := by
  intro fuel
  induction fuel with
  | zero => intro all i _; simp [iterLoop]
  | succ fuel ih =>
    intro all i h
    rw [iterLoop]
    cases hr : all[i]? with
    | none =>
      simp only [ne_eq, reduceCtorEq, not_false_eq_true, Res.ok.injEq, true_and]
      rintro l rfl
      exact ⟨h.final hr, List.prefix_refl _⟩
    | some r =>
      obtain ⟨ds, hds⟩ := classDerivs_isSome F (h.good_at F hg hr)
      simp only [hds]
      have := ih (pushAll all ds) (i + 1) (h.step F hg hr hds)
      refine ⟨this.1, fun l hl => ?_⟩
      obtain ⟨h1, h2⟩ := this.2 l hl
      exact ⟨h1, (pushAll_prefix all ds).trans h2⟩

theorem iterLoop_succ_fuel : ∀ (fuel : Nat) (all : List RE) (i : Nat) (l : List RE),
    iterLoop ord fuel all i = .ok l → iterLoop ord (fuel + 1) all i = .ok l := by
  intro fuel
  induction fuel with
  | zero => intro all i l h; simp [iterLoop] at h
  | succ fuel ih =>
    intro all i l h
    rw [iterLoop] at h
    rw [iterLoop]
    cases hr : all[i]? with
    | none => rw [hr] at h; exact h
    | some r =>
      rw [hr] at h
      simp only at h ⊢
      cases hds : classDerivs ord r with
      | none => rw [hds] at h; cases h
      | some ds =>
        rw [hds] at h
        exact ih _ _ _ h

theorem iterLoop_mono {fuel fuel' : Nat} (hle : fuel ≤ fuel') {all : List RE} {i : Nat}
    {l : List RE} (h : iterLoop ord fuel all i = .ok l) : iterLoop ord fuel' all i = .ok l := by
  induction hle with
  | refl => exact h
  | step _ ih => exact iterLoop_succ_fuel _ _ _ _ ih

/-- the number of pops: with result `l` from position `i`, `fuel` was at least `l.length - i + 1` -/
theorem iterLoop_fuel_bound : ∀ (fuel : Nat) (all : List RE) (i : Nat) (l : List RE),
    i ≤ all.length → iterLoop ord fuel all i = .ok l → l.length + 1 ≤ fuel + i := by
  intro fuel
  induction fuel with
  | zero => intro all i l _ h; simp [iterLoop] at h
  | succ fuel ih =>
    intro all i l hi h
    rw [iterLoop] at h
    cases hr : all[i]? with
    | none =>
      rw [hr] at h
      cases h
      have : all.length ≤ i := List.getElem?_eq_none_iff.1 hr
      omega
    | some r =>
      rw [hr] at h
      simp only at h
      cases hds : classDerivs ord r with
      | none => rw [hds] at h; cases h
      | some ds =>
        rw [hds] at h
        obtain ⟨hi', _⟩ := List.getElem?_eq_some_iff.1 hr
        have hlen : all.length ≤ (pushAll all ds).length := (pushAll_prefix all ds).length_le
        have := ih _ _ _ (by change i + 1 ≤ (pushAll all ds).length; omega) h
        omega

/-! ### `isEmptyLoop` -/

theorem isEmptyLoop_spec (F : ClosureFacts ord Good) {e : RE} (hg : Good e) :
    ∀ (fuel : Nat) (all : List RE) (i : Nat), BInv ord e all i →
      (∀ x ∈ all.take i, x.nullable = false) →
      isEmptyLoop ord fuel all i ≠ .panic ∧
      (isEmptyLoop ord fuel all i = .ok true →
        ∃ l, BInv ord e l l.length ∧ ∀ x ∈ l, x.nullable = false) ∧
      (isEmptyLoop ord fuel all i = .ok false → ∃ x, Reach ord e x ∧ x.nullable = true) := by
  intro fuel
  induction fuel with
  | zero => intro all i _ _; simp [isEmptyLoop]
  | succ fuel ih =>
    intro all i h hn
    rw [isEmptyLoop]
    cases hr : all[i]? with
    | none =>
      simp only [ne_eq, reduceCtorEq, not_false_eq_true, forall_const, Res.ok.injEq,
        Bool.true_eq_false, false_imp_iff, and_true, true_and]
      have hf := h.final hr
      have : all.length ≤ i := List.getElem?_eq_none_iff.1 hr
      refine ⟨all, hf, ?_⟩
      intro x hx
      exact hn x (by rwa [List.take_of_length_le this])
    | some r =>
      obtain ⟨ds, hds⟩ := classDerivs_isSome F (h.good_at F hg hr)
      simp only [hds]
      obtain ⟨hi, hri⟩ := List.getElem?_eq_some_iff.1 hr
      cases hnr : r.nullable with
      | true =>
        simp only [if_true, ne_eq, reduceCtorEq, not_false_eq_true, Res.ok.injEq,
          Bool.false_eq_true, false_imp_iff, forall_const, true_and]
        exact ⟨r, h.reach r (by rw [← hri]; exact List.getElem_mem hi), hnr⟩
      | false =>
        simp only [Bool.false_eq_true, if_false]
        apply ih (pushAll all ds) (i + 1) (h.step F hg hr hds)
        intro x hx
        obtain ⟨ext, hext⟩ := pushAll_prefix all ds
        rw [← hext, List.take_append_of_le_length (by omega), List.take_add_one, hr] at hx
        simp only [Option.toList_some, List.mem_append, List.mem_singleton] at hx
        rcases hx with hx | rfl
        · exact hn x hx
        · exact hnr

theorem isEmptyLoop_succ_fuel : ∀ (fuel : Nat) (all : List RE) (i : Nat) (b : Bool),
    isEmptyLoop ord fuel all i = .ok b → isEmptyLoop ord (fuel + 1) all i = .ok b := by
  intro fuel
  induction fuel with
  | zero => intro all i l h; simp [isEmptyLoop] at h
  | succ fuel ih =>
    intro all i l h
    rw [isEmptyLoop] at h
    rw [isEmptyLoop]
    cases hr : all[i]? with
    | none => rw [hr] at h; exact h
    | some r =>
      rw [hr] at h
      simp only at h ⊢
      cases hds : classDerivs ord r with
      | none => rw [hds] at h; cases h
      | some ds =>
        rw [hds] at h
        simp only at h ⊢
        split
        · rename_i hn; rw [if_pos hn] at h; exact h
        · rename_i hn; rw [if_neg hn] at h; exact ih _ _ _ h

theorem isEmptyLoop_mono {fuel fuel' : Nat} (hle : fuel ≤ fuel') {all : List RE} {i : Nat}
    {b : Bool} (h : isEmptyLoop ord fuel all i = .ok b) : isEmptyLoop ord fuel' all i = .ok b := by
  induction hle with
  | refl => exact h
  | step _ ih => exact isEmptyLoop_succ_fuel _ _ _ _ ih

/-! ### `LabeledQueue` -/

/-- the nodes of the map, in insertion order (= the BFS list `all`) -/
def nodes (m : List LqEntry) : List RE := m.map (·.node)

theorem nodes_append (m m' : List LqEntry) : nodes (m ++ m') = nodes m ++ nodes m' := by
  simp [nodes]

theorem lqFind_some {m : List LqEntry} {x : RE} {ent : LqEntry} (h : lqFind m x = some ent) :
    ent ∈ m ∧ ent.node = x := by
  unfold lqFind at h
  have h1 := List.mem_of_find?_eq_some h
  have h2 := List.find?_some h
  exact ⟨h1, by simpa using h2⟩

theorem lqFind_none_iff {m : List LqEntry} {x : RE} : lqFind m x = none ↔ x ∉ nodes m := by
  unfold lqFind nodes
  rw [List.find?_eq_none]
  simp only [decide_eq_true_eq, List.mem_map, not_exists, not_and]

theorem lqFind_isSome_of_mem {m : List LqEntry} {x : RE} (h : x ∈ nodes m) :
    ∃ ent, lqFind m x = some ent := by
  cases hf : lqFind m x with
  | none => exact absurd h (lqFind_none_iff.1 hf)
  | some ent => exact ⟨ent, rfl⟩

theorem lqFind_append {m : List LqEntry} {x : RE} {ent : LqEntry} (h : lqFind m x = some ent)
    (ext : List LqEntry) : lqFind (m ++ ext) x = some ent := by
  unfold lqFind at h ⊢
  rw [List.find?_append, h]
  rfl

theorem nodes_lqPush (m : List LqEntry) (pre : RE) (label : ClassId) (suc : RE) :
    nodes (lqPush m pre label suc) = bfsPush (nodes m) suc := by
  unfold lqPush
  cases hf : lqFind m suc with
  | some ent =>
    obtain ⟨h1, h2⟩ := lqFind_some hf
    have : suc ∈ nodes m := by rw [← h2]; exact List.mem_map_of_mem h1
    simp only [bfsPush_of_mem this]
  | none =>
    have := lqFind_none_iff.1 hf
    simp only [bfsPush_of_not_mem this, nodes_append]
    rfl

/-- pushing all class derivatives of `r` with their labels -/
def lqPushAll (m : List LqEntry) (r : RE) (ds : List (ClassId × RE)) : List LqEntry :=
  ds.foldl (fun a d => lqPush a r d.1 d.2) m

theorem nodes_lqPushAll (m : List LqEntry) (r : RE) (ds : List (ClassId × RE)) :
    nodes (lqPushAll m r ds) = pushAll (nodes m) ds := by
  induction ds generalizing m with
  | nil => rfl
  | cons d ds ih =>
    change nodes (lqPushAll (lqPush m r d.1 d.2) r ds) = _
    rw [ih, nodes_lqPush, pushAll_cons]

/-- Well-formed labeled queue (T:labeled_path_wellformed): the root has no edge; every other entry
    `suc` records an edge `(label, pre)` with `pre` an EARLIER entry, `label` a class id of `pre`
    and `suc = class_derivative(pre, label)`. -/
inductive LqWF (ord : RE → Nat) (e : RE) : List LqEntry → Prop
  | root : LqWF ord e [⟨e, none⟩]
  | snoc {m : List LqEntry} {pre : RE} {label : ClassId} {suc : RE} :
      LqWF ord e m → pre ∈ nodes m → label ∈ pre.derivClass.classIds →
      cachedDeriv ord pre label = some suc → LqWF ord e (m ++ [⟨suc, some (label, pre)⟩])

theorem LqWF.lqPush {e : RE} {m : List LqEntry} (h : LqWF ord e m) {pre : RE} {label : ClassId}
    {suc : RE} (hpre : pre ∈ nodes m) (hl : label ∈ pre.derivClass.classIds)
    (hd : cachedDeriv ord pre label = some suc) : LqWF ord e (lqPush m pre label suc) := by
  unfold RE.lqPush
  cases lqFind m suc with
  | some _ => exact h
  | none => exact .snoc h hpre hl hd

theorem LqWF.lqPushAll {e : RE} {r : RE} {ds : List (ClassId × RE)}
    (hds : ∀ d ∈ ds, d.1 ∈ r.derivClass.classIds ∧ cachedDeriv ord r d.1 = some d.2) :
    ∀ {m : List LqEntry}, LqWF ord e m → r ∈ nodes m → LqWF ord e (lqPushAll m r ds) := by
  induction ds with
  | nil => intro m h _; exact h
  | cons d ds ih =>
    intro m h hr
    have hd := hds d (by simp)
    change LqWF ord e (RE.lqPushAll (RE.lqPush m r d.1 d.2) r ds)
    apply ih (fun d' hd' => hds d' (by simp [hd'])) (h.lqPush hr hd.1 hd.2)
    rw [nodes_lqPush]
    exact mem_bfsPush.2 (.inl hr)

/-- index form of `LqWF` -/
theorem LqWF.index_form {e : RE} {m : List LqEntry} (h : LqWF ord e m) :
    m[0]? = some ⟨e, none⟩ ∧
    ∀ k (hk : k < m.length), 0 < k →
      ∃ label pre j, ∃ hj : j < k, m[k].edge = some (label, pre) ∧ (m[j]'(by omega)).node = pre ∧
        label ∈ pre.derivClass.classIds ∧ cachedDeriv ord pre label = some m[k].node := by
  induction h with
  | root => exact ⟨rfl, fun k hk hk0 => by simp at hk; omega⟩
  | @snoc m pre label suc hm hpre hl hd ih =>
    have hlen : 0 < m.length := by
      cases m with
      | nil => simp [nodes] at hpre
      | cons _ _ => simp
    refine ⟨by rw [List.getElem?_append_left hlen]; exact ih.1, ?_⟩
    intro k hk hk0
    simp only [List.length_append, List.length_singleton] at hk
    by_cases hkm : k < m.length
    · obtain ⟨label', pre', j, hj, h1, h2, h3, h4⟩ := ih.2 k hkm hk0
      refine ⟨label', pre', j, hj, ?_, ?_, h3, ?_⟩
      · rw [List.getElem_append_left hkm]; exact h1
      · rw [List.getElem_append_left (by omega)]; exact h2
      · rw [List.getElem_append_left hkm]; exact h4
    · have hkeq : k = m.length := by omega
      subst hkeq
      obtain ⟨j, hj, hjn⟩ := List.getElem_of_mem hpre
      simp only [nodes, List.length_map] at hj
      refine ⟨label, pre, j, hj, by simp, ?_, hl, by simpa using hd⟩
      rw [List.getElem_append_left hj]
      simpa [nodes] using hjn

/-- a path read backwards (destination first), as `EdgeIterator` yields it -/
def RevPath (ord : RE → Nat) (e : RE) : List (RE × ClassId) → RE → Prop
  | [], dest => dest = e
  | (n, l) :: rest, dest =>
    l ∈ n.derivClass.classIds ∧ cachedDeriv ord n l = some dest ∧ RevPath ord e rest n

/-- the documented contract of `get_string_path` / `full_path`: the first term is `cur`, each
    class id is valid for its term, each next term is the class derivative, the path ends in `dest` -/
def PathFrom (ord : RE → Nat) : RE → List (RE × ClassId) → RE → Prop
  | cur, [], dest => cur = dest
  | cur, (n, l) :: rest, dest =>
    n = cur ∧ l ∈ n.derivClass.classIds ∧
      ∃ nxt, cachedDeriv ord n l = some nxt ∧ PathFrom ord nxt rest dest

theorem PathFrom.snoc {cur : RE} {p : List (RE × ClassId)} {n : RE} (h : PathFrom ord cur p n)
    {l : ClassId} {dest : RE} (hl : l ∈ n.derivClass.classIds)
    (hd : cachedDeriv ord n l = some dest) : PathFrom ord cur (p ++ [(n, l)]) dest := by
  induction p generalizing cur with
  | nil =>
    simp only [PathFrom] at h
    subst h
    exact ⟨rfl, hl, dest, hd, rfl⟩
  | cons a p ih =>
    obtain ⟨n', l'⟩ := a
    obtain ⟨h1, h2, nxt, h3, h4⟩ := h
    exact ⟨h1, h2, nxt, h3, ih h4⟩

theorem RevPath.reverse {e : RE} {w : List (RE × ClassId)} {dest : RE}
    (h : RevPath ord e w dest) : PathFrom ord e w.reverse dest := by
  induction w generalizing dest with
  | nil =>
    simp only [RevPath] at h
    subst h
    exact rfl
  | cons a w ih =>
    obtain ⟨n, l⟩ := a
    obtain ⟨h1, h2, h3⟩ := h
    rw [List.reverse_cons]
    exact (ih h3).snoc h1 h2

theorem lqWalk_none_edge (m : List LqEntry) (f : Nat) : lqWalk m f none = some [] := by
  cases f <;> rfl

theorem lqWalk_mono {m : List LqEntry} (ext : List LqEntry) :
    ∀ (f : Nat) (ed : Option (ClassId × RE)) (w : List (RE × ClassId)) (f' : Nat),
      lqWalk m f ed = some w → f ≤ f' → lqWalk (m ++ ext) f' ed = some w := by
  intro f
  induction f with
  | zero =>
    intro ed w f' h _
    cases ed with
    | none => rw [lqWalk_none_edge] at h ⊢; exact h
    | some p => simp [lqWalk] at h
  | succ f ih =>
    intro ed w f' h hle
    cases ed with
    | none => rw [lqWalk_none_edge] at h ⊢; exact h
    | some p =>
      obtain ⟨label, node⟩ := p
      obtain ⟨f'', rfl⟩ : ∃ f'', f' = f'' + 1 := ⟨f' - 1, by omega⟩
      rw [lqWalk] at h ⊢
      cases hf : lqFind m node with
      | none => rw [hf] at h; cases h
      | some ent =>
        rw [hf] at h
        rw [lqFind_append hf]
        simp only at h ⊢
        cases hw : lqWalk m f ent.edge with
        | none => rw [hw] at h; cases h
        | some w' =>
          rw [hw] at h
          rw [ih _ _ _ hw (by omega)]
          exact h

/-- from every entry the predecessor walk succeeds within `m.length` steps (predecessors are
    strictly earlier) and yields a path from the root -/
theorem LqWF.walk {e : RE} {m : List LqEntry} (h : LqWF ord e m) :
    ∀ ent ∈ m, ∃ w, lqWalk m m.length ent.edge = some w ∧ RevPath ord e w ent.node := by
  induction h with
  | root =>
    intro ent hent
    simp only [List.mem_singleton] at hent
    subst hent
    exact ⟨[], rfl, rfl⟩
  | @snoc m pre label suc hm hpre hl hd ih =>
    intro ent hent
    rcases List.mem_append.1 hent with hent | hent
    · obtain ⟨w, hw, hp⟩ := ih ent hent
      exact ⟨w, lqWalk_mono _ _ _ _ _ hw (by simp), hp⟩
    · simp only [List.mem_singleton] at hent
      subst hent
      obtain ⟨pe, hpe⟩ := lqFind_isSome_of_mem hpre
      obtain ⟨hpem, hpen⟩ := lqFind_some hpe
      obtain ⟨w, hw, hp⟩ := ih pe hpem
      refine ⟨(pre, label) :: w, ?_, hl, hd, by rw [← hpen]; exact hp⟩
      simp only [List.length_append, List.length_singleton]
      rw [lqWalk, lqFind_append hpe]
      simp only
      rw [lqWalk_mono _ _ _ _ _ hw (Nat.le_refl _)]
      rfl

/-- `full_path(dest)` of a visited node is a path from the root to `dest` -/
theorem LqWF.fullPath {e : RE} {m : List LqEntry} (h : LqWF ord e m) {dest : RE}
    (hd : dest ∈ nodes m) : ∃ p, lqFullPath m dest = some p ∧ PathFrom ord e p dest := by
  obtain ⟨ent, hent⟩ := lqFind_isSome_of_mem hd
  obtain ⟨hm, hn⟩ := lqFind_some hent
  obtain ⟨w, hw, hp⟩ := h.walk ent hm
  refine ⟨w.reverse, ?_, by rw [← hn]; exact hp.reverse⟩
  unfold lqFullPath
  rw [hent]
  simp only
  have := lqWalk_mono (m := m) [] _ _ _ (m.length + 1) hw (by omega)
  rw [List.append_nil] at this
  rw [this]
  rfl

/-! ### from a path to a string -/

/-- the representatives of the classes along a path: they exist (no `pick_class_rep` panic), form a
    well-formed string, and the string leads from `cur` to `dest` -/
theorem PathFrom.string (F : ClosureFacts ord Good) :
    ∀ (p : List (RE × ClassId)) {cur dest : RE}, Good cur → PathFrom ord cur p dest →
      ∃ s, p.mapM (fun (x : RE × ClassId) => x.1.derivClass.pickInClass x.2) = some s ∧
        WFs s ∧ strDerivative ord cur s = dest := by
  intro p
  induction p with
  | nil =>
    intro cur dest _ h
    simp only [PathFrom] at h
    subst h
    exact ⟨[], rfl, wfs_nil', rfl⟩
  | cons a p ih =>
    intro cur dest hg h
    obtain ⟨n, l⟩ := a
    obtain ⟨h1, h2, nxt, h3, h4⟩ := h
    subst h1
    obtain ⟨c, hc, hp, _, hcd⟩ := cachedDeriv_of_mem F hg h2
    rw [hcd] at h3
    have hnxt : nxt = deriv ord n c := (Option.some.inj h3).symm
    subst hnxt
    obtain ⟨s, hs, hwf, hsd⟩ := ih (F.deriv_good n c hg hc) h4
    refine ⟨c :: s, ?_, wfs_cons'.2 ⟨hc, hwf⟩, by rw [strDerivative_cons]; exact hsd⟩
    rw [List.mapM_cons]
    simp only [hp, hs]
    rfl

/-! ### `pathLoop` -/

theorem pathLoop_spec (F : ClosureFacts ord Good) {e : RE} (hg : Good e) :
    ∀ (fuel : Nat) (m : List LqEntry) (i : Nat), LqWF ord e m → BInv ord e (nodes m) i →
      (∀ x ∈ (nodes m).take i, x.nullable = false) →
      pathLoop ord fuel m i ≠ .panic ∧
      (pathLoop ord fuel m i = .ok none →
        ∃ l, BInv ord e l l.length ∧ ∀ x ∈ l, x.nullable = false) ∧
      (∀ p, pathLoop ord fuel m i = .ok (some p) →
        ∃ dest, dest.nullable = true ∧ PathFrom ord e p dest) := by
  intro fuel
  induction fuel with
  | zero => intro m i _ _ _; simp [pathLoop]
  | succ fuel ih =>
    intro m i hwf h hn
    rw [pathLoop]
    cases hr : m[i]? with
    | none =>
      have hr' : (nodes m)[i]? = none := by simp [nodes, hr]
      simp only [ne_eq, reduceCtorEq, not_false_eq_true, forall_const, Res.ok.injEq,
        false_imp_iff, and_true, true_and]
      have hf := h.final hr'
      have : (nodes m).length ≤ i := List.getElem?_eq_none_iff.1 hr'
      refine ⟨nodes m, hf, ?_⟩
      intro x hx
      exact hn x (by rwa [List.take_of_length_le this])
    | some ent =>
      have hr' : (nodes m)[i]? = some ent.node := by simp [nodes, hr]
      obtain ⟨hi, hri⟩ := List.getElem?_eq_some_iff.1 hr'
      have hmem : ent.node ∈ nodes m := by rw [← hri]; exact List.getElem_mem hi
      simp only
      cases hnr : ent.node.nullable with
      | true =>
        obtain ⟨p, hp, hpath⟩ := hwf.fullPath hmem
        simp only [if_true, hp, ne_eq, reduceCtorEq, not_false_eq_true, Res.ok.injEq,
          false_imp_iff, Option.some.injEq, true_and]
        rintro p' rfl
        exact ⟨ent.node, hnr, hpath⟩
      | false =>
        have hgr := h.good_at F hg hr'
        obtain ⟨ds, hds⟩ := classDerivs_isSome F hgr
        simp only [Bool.false_eq_true, if_false, hds]
        have hwf' : LqWF ord e (lqPushAll m ent.node ds) := by
          apply LqWF.lqPushAll _ hwf hmem
          intro d hd
          exact ⟨(classDerivs_mem F hgr hds hd).1, (classDerivs_some hds).2 d hd⟩
        have hinv := h.step F hg hr' hds
        rw [← nodes_lqPushAll m ent.node ds] at hinv
        apply ih (lqPushAll m ent.node ds) (i + 1) hwf' hinv
        intro x hx
        rw [nodes_lqPushAll] at hx
        obtain ⟨ext, hext⟩ := pushAll_prefix (nodes m) ds
        rw [← hext, List.take_append_of_le_length (by omega), List.take_add_one, hr'] at hx
        simp only [Option.toList_some, List.mem_append, List.mem_singleton] at hx
        rcases hx with hx | rfl
        · exact hn x hx
        · exact hnr

theorem pathLoop_succ_fuel : ∀ (fuel : Nat) (m : List LqEntry) (i : Nat)
    (r : Option (List (RE × ClassId))),
    pathLoop ord fuel m i = .ok r → pathLoop ord (fuel + 1) m i = .ok r := by
  intro fuel
  induction fuel with
  | zero => intro m i r h; simp [pathLoop] at h
  | succ fuel ih =>
    intro m i r h
    rw [pathLoop] at h
    rw [pathLoop]
    cases hr : m[i]? with
    | none => rw [hr] at h; exact h
    | some ent =>
      rw [hr] at h
      simp only at h ⊢
      split
      · rename_i hn; rw [if_pos hn] at h; exact h
      · rename_i hn
        rw [if_neg hn] at h
        cases hds : classDerivs ord ent.node with
        | none => rw [hds] at h; cases h
        | some ds =>
          rw [hds] at h
          exact ih _ _ _ h

theorem pathLoop_mono {fuel fuel' : Nat} (hle : fuel ≤ fuel') {m : List LqEntry} {i : Nat}
    {r : Option (List (RE × ClassId))} (h : pathLoop ord fuel m i = .ok r) :
    pathLoop ord fuel' m i = .ok r := by
  induction hle with
  | refl => exact h
  | step _ ih => exact pathLoop_succ_fuel _ _ _ _ ih

/-! ### the builder's key numbering during `compile_with_bound` -/

/-- the builder has seen exactly the keys `0 .. n-1` (so `size = n`) -/
def BK (n : Nat) (b : Builder) : Prop :=
  b.size = n ∧ ∀ k, (b.idMap.lookup k).isSome = true ↔ k < n

theorem BK.congr {n : Nat} {b b' : Builder} (h : BK n b) (h1 : b'.size = b.size)
    (h2 : b'.idMap = b.idMap) : BK n b' := by
  unfold BK
  rw [h1, h2]
  exact h

theorem BK.new : BK 1 (Builder.new 0) := by
  refine ⟨rfl, fun k => ?_⟩
  simp only [Builder.new, Builder.getStateId, Builder.empty, List.lookup_nil, List.nil_append,
    List.lookup_cons, List.lookup_nil]
  by_cases hk : k = 0
  · subst hk; simp
  · have : (k == 0) = false := by simpa using hk
    simp only [this]
    simp
    omega

theorem BK.getStateId_lt {n : Nat} {b : Builder} (h : BK n b) {k : Nat} (hk : k < n) :
    (b.getStateId k).1 = b := by
  have := (h.2 k).2 hk
  unfold Builder.getStateId
  cases hl : b.idMap.lookup k with
  | none => rw [hl] at this; cases this
  | some i => rfl

theorem lookup_append_single (l : List (Nat × Nat)) (a k v : Nat) :
    (l ++ [(a, v)]).lookup k = (l.lookup k).or (if k = a then some v else none) := by
  induction l with
  | nil =>
    simp only [List.nil_append, List.lookup_cons, List.lookup_nil, Option.none_or]
    by_cases hk : k = a
    · subst hk; simp
    · have : (k == a) = false := by simpa using hk
      simp [this, hk]
  | cons x l ih =>
    obtain ⟨x1, x2⟩ := x
    simp only [List.cons_append, List.lookup_cons]
    cases (k == x1)
    · simpa using ih
    · simp

theorem BK.getStateId_eq {n : Nat} {b : Builder} (h : BK n b) :
    BK (n + 1) (b.getStateId n).1 := by
  have hn : ¬ (b.idMap.lookup n).isSome = true := by
    rw [h.2 n]; omega
  unfold Builder.getStateId
  cases hl : b.idMap.lookup n with
  | some i => rw [hl] at hn; simp at hn
  | none =>
    refine ⟨by simp [h.1], fun k => ?_⟩
    simp only [lookup_append_single]
    by_cases hk : k = n
    · subst hk; simp [hl]
    · simp only [if_neg hk, Option.or_none]
      rw [h.2 k]
      omega

/-- mentioning a key `k ≤ n` -/
theorem BK.getStateId_le {n : Nat} {b : Builder} (h : BK n b) {k : Nat} (hk : k ≤ n) :
    BK (max n (k + 1)) (b.getStateId k).1 := by
  by_cases hlt : k < n
  · rw [h.getStateId_lt hlt, Nat.max_eq_left (by omega)]
    exact h
  · have : k = n := by omega
    subst this
    rw [Nat.max_eq_right (by omega)]
    exact h.getStateId_eq

theorem BK.addTransition {n : Nat} {b : Builder} (h : BK n b) {k k' : Nat} (hk : k < n)
    (hk' : k' ≤ n) (set : CharSet) : BK (max n (k' + 1)) (b.addTransition k set k') := by
  have h1 : ((b.getStateId k).1.getStateId k').1 = (b.getStateId k').1 := by
    rw [h.getStateId_lt hk]
  have := h.getStateId_le hk'
  rw [← h1] at this
  exact this.congr rfl rfl

theorem BK.setDefaultSuccessor {n : Nat} {b : Builder} (h : BK n b) {k k' : Nat} (hk : k < n)
    (hk' : k' ≤ n) : BK (max n (k' + 1)) (b.setDefaultSuccessor k k') := by
  have h1 : ((b.getStateId k).1.getStateId k').1 = (b.getStateId k').1 := by
    rw [h.getStateId_lt hk]
  have := h.getStateId_le hk'
  rw [← h1] at this
  exact this.congr rfl rfl

theorem BK.markFinal {n : Nat} {b : Builder} (h : BK n b) {k : Nat} (hk : k < n) :
    BK n (b.markFinal k) := by
  have h1 := h.getStateId_lt hk
  have : BK n (b.getStateId k).1 := by rw [h1]; exact h
  exact this.congr rfl rfl

theorem buildUnchecked_numStates {b : Builder} {A : Automaton} (h : b.buildUnchecked = some A) :
    A.numStates = b.size := by
  unfold Builder.buildUnchecked at h
  split at h
  · cases h
  · cases h; rfl

/-! ### `idxOf` after a push -/

theorem idxOf_bfsPush (all : List RE) (d : RE) :
    idxOf (bfsPush all d) d ≤ all.length ∧
    max all.length (idxOf (bfsPush all d) d + 1) = (bfsPush all d).length := by
  by_cases hd : d ∈ all
  · rw [bfsPush_of_mem hd]
    have : idxOf all d < all.length := by
      unfold idxOf
      apply List.findIdx_lt_length_of_exists
      exact ⟨d, hd, by simp⟩
    omega
  · rw [bfsPush_of_not_mem hd]
    have : idxOf (all ++ [d]) d = all.length := by
      unfold idxOf
      rw [List.findIdx_append]
      have hnone : List.findIdx (fun x => decide (x = d)) all = all.length := by
        rw [List.findIdx_eq_length]
        intro x hx
        simpa using fun h : x = d => hd (h ▸ hx)
      rw [hnone]
      simp
    rw [this]
    simp

/-- one push together with the builder call that mentions the pushed term -/
theorem BK.push_addTransition {all : List RE} {b : Builder} (h : BK all.length b) {kr : Nat}
    (hkr : kr < all.length) (set : CharSet) (d : RE) :
    BK (bfsPush all d).length (b.addTransition kr set (idxOf (bfsPush all d) d)) := by
  obtain ⟨h1, h2⟩ := idxOf_bfsPush all d
  rw [← h2]
  exact h.addTransition hkr h1 set

theorem BK.push_setDefault {all : List RE} {b : Builder} (h : BK all.length b) {kr : Nat}
    (hkr : kr < all.length) (d : RE) :
    BK (bfsPush all d).length (b.setDefaultSuccessor kr (idxOf (bfsPush all d) d)) := by
  obtain ⟨h1, h2⟩ := idxOf_bfsPush all d
  rw [← h2]
  exact h.setDefaultSuccessor hkr h1

/-! ### `compileRanges` / `compileLoop` discover terms exactly like `iterLoop` -/

theorem compileRanges_spec {r : RE} {kr : Nat} :
    ∀ (sets : List CharSet) (ds : List (ClassId × RE)),
      List.Forall₂ (fun set d => setDerivativeUnchecked ord r set = some d.2) sets ds →
      ∀ (all : List RE) (b : Builder), kr < all.length → BK all.length b →
      ∃ b', compileRanges ord r kr sets all b = some (pushAll all ds, b') ∧
        BK (pushAll all ds).length b' := by
  intro sets ds h
  induction h with
  | nil => intro all b _ hb; exact ⟨b, rfl, hb⟩
  | @cons set d sets ds hd _ ih =>
    intro all b hkr hb
    rw [compileRanges, hd]
    simp only
    have hlen : all.length ≤ (bfsPush all d.2).length := (bfsPush_prefix all d.2).length_le
    obtain ⟨b', hb', hbk⟩ := ih (bfsPush all d.2) _ (by omega) (hb.push_addTransition hkr set d.2)
    exact ⟨b', hb', hbk⟩

/-- the pairs of `classDerivs` split into the interval classes (matching `char_ranges()`) and the
    optional complementary class -/
theorem classDerivs_split (F : ClosureFacts ord Good) {r : RE} (hg : Good r)
    {ds : List (ClassId × RE)} (hds : classDerivs ord r = some ds) :
    ∃ ds1 ds2, ds = ds1 ++ ds2 ∧
      List.Forall₂ (fun set d => setDerivativeUnchecked ord r set = some d.2)
        r.derivClass.list ds1 ∧
      ((r.derivClass.emptyComplement = true ∧ ds2 = []) ∨
       (r.derivClass.emptyComplement = false ∧
         ∃ d, ds2 = [d] ∧ classDerivativeUnchecked ord r .complement = some d.2)) := by
  have h2 := mapM_option_some _ _ _ hds
  set p := r.derivClass with hp
  have hlen1 : ((List.range p.len).map ClassId.interval).length = p.list.length := by
    simp [CharPartition.len]
  refine ⟨ds.take p.list.length, ds.drop p.list.length, (List.take_append_drop _ _).symm, ?_, ?_⟩
  · have h3 := List.forall₂_take p.list.length h2
    simp only [CharPartition.classIds] at h3
    rw [List.take_append_of_le_length (by omega), List.take_of_length_le (by omega)] at h3
    rw [List.forall₂_iff_get] at h3 ⊢
    obtain ⟨hl, hget⟩ := h3
    refine ⟨by rw [← hl, hlen1], ?_⟩
    intro i h1 h2'
    have hi := hget i (by omega) h2'
    simp only [List.get_eq_getElem, List.getElem_map, List.getElem_range] at hi ⊢
    have hs : p.list[i]? = some p.list[i] := List.getElem?_eq_getElem h1
    have hcs := F.class_set r i _ hg hs
    have hcs' : p.classOfSet p.list[i] = .ok (.interval i) := hcs
    simp only [setDerivativeUnchecked, ← hp, hcs']
    cases hc : cachedDeriv ord r (.interval i) with
    | none => rw [hc] at hi; cases hi
    | some x =>
      rw [hc] at hi
      simp only [Option.map_some, Option.some.injEq] at hi
      rw [← hi]
  · have h3 := List.forall₂_drop p.list.length h2
    simp only [CharPartition.classIds] at h3
    rw [List.drop_append_of_le_length (by omega), List.drop_of_length_le (by omega),
      List.nil_append] at h3
    cases hec : p.emptyComplement with
    | true =>
      left
      rw [hec] at h3
      simp only [if_true, List.forall₂_nil_left_iff] at h3
      exact ⟨rfl, h3⟩
    | false =>
      right
      rw [hec] at h3
      simp only [Bool.false_eq_true, if_false] at h3
      refine ⟨rfl, ?_⟩
      generalize List.drop p.list.length ds = tl at h3 ⊢
      cases h3 with
      | @cons _ d _ ds' hd htl =>
        cases htl
        refine ⟨d, rfl, ?_⟩
        unfold classDerivativeUnchecked
        cases hc : cachedDeriv ord r .complement with
        | none => rw [hc] at hd; cases hd
        | some x =>
          rw [hc] at hd
          simp only [Option.map_some, Option.some.injEq] at hd
          rw [← hd]

/-- one iteration of the `while let Some(e) = queue.pop()` loop of `compile_with_bound` -/
theorem compileLoop_step (F : ClosureFacts ord Good) {r : RE} (hg : Good r) {all : List RE}
    {i : Nat} (hr : all[i]? = some r) {ds : List (ClassId × RE)}
    (hds : classDerivs ord r = some ds) {b : Builder} (hb : BK all.length b) {maxStates : Nat}
    (hne : i ≠ maxStates) (fuel : Nat) :
    ∃ b', BK (pushAll all ds).length b' ∧
      compileLoop ord maxStates (fuel + 1) all i b =
        compileLoop ord maxStates fuel (pushAll all ds) (i + 1) b' := by
  obtain ⟨hi, _⟩ := List.getElem?_eq_some_iff.1 hr
  obtain ⟨ds1, ds2, rfl, hf, h2⟩ := classDerivs_split F hg hds
  obtain ⟨b1, hb1, hbk1⟩ := compileRanges_spec _ _ hf all b hi hb
  have hlen1 : all.length ≤ (pushAll all ds1).length := (pushAll_prefix all ds1).length_le
  have hbeq : (i == maxStates) = false := by simpa using hne
  rw [compileLoop]
  simp only [hr, hbeq, hb1, Bool.false_eq_true, if_false]
  rcases h2 with ⟨hec, rfl⟩ | ⟨hec, d, rfl, hd⟩
  · simp only [hec, Bool.not_true, Bool.false_eq_true, if_false, List.append_nil]
    by_cases hn : r.nullable = true
    · exact ⟨_, hbk1.markFinal (k := i) (by omega), by simp only [hn, if_true]⟩
    · exact ⟨_, hbk1, by simp only [hn, Bool.false_eq_true, if_false]⟩
  · simp only [hec, Bool.not_false, if_true, hd, pushAll_append]
    have hbk2 := hbk1.push_setDefault (kr := i) (by omega) d.2
    have hlen2 : (pushAll all ds1).length ≤ (bfsPush (pushAll all ds1) d.2).length :=
      (bfsPush_prefix _ _).length_le
    change ∃ b', BK (bfsPush (pushAll all ds1) d.2).length b' ∧ _
    by_cases hn : r.nullable = true
    · exact ⟨_, hbk2.markFinal (k := i) (by omega), by simp only [hn, if_true]; rfl⟩
    · exact ⟨_, hbk2, by simp only [hn, Bool.false_eq_true, if_false]; rfl⟩

/-- `compileLoop` against the result `l` of `iterLoop` from the same BFS state: it never panics;
    it returns a builder exactly when `l.length ≤ maxStates`, and that builder has `l.length`
    states. -/
theorem compileLoop_vs_iter (F : ClosureFacts ord Good) {e : RE} (hg : Good e) (maxStates : Nat) :
    ∀ (fuel : Nat) (all : List RE) (i : Nat) (b : Builder) (fuel' : Nat) (l : List RE),
      BInv ord e all i → BK all.length b → i ≤ maxStates →
      iterLoop ord fuel' all i = .ok l →
      compileLoop ord maxStates fuel all i b ≠ .panic ∧
      (compileLoop ord maxStates fuel all i b = .ok none → maxStates < l.length) ∧
      (∀ b', compileLoop ord maxStates fuel all i b = .ok (some b') →
        l.length ≤ maxStates ∧ b'.size = l.length) := by
  intro fuel
  induction fuel with
  | zero => intro all i b fuel' l _ _ _ _; simp [compileLoop]
  | succ fuel ih =>
    intro all i b fuel' l h hb hi hit
    cases fuel' with
    | zero => simp [iterLoop] at hit
    | succ fuel' =>
      rw [iterLoop] at hit
      cases hr : all[i]? with
      | none =>
        rw [hr] at hit
        cases hit
        rw [compileLoop]
        simp only [hr, ne_eq, reduceCtorEq, not_false_eq_true, Res.ok.injEq, false_imp_iff,
          Option.some.injEq, true_and]
        rintro b' rfl
        have : all.length ≤ i := List.getElem?_eq_none_iff.1 hr
        have := h.le
        exact ⟨by omega, hb.1⟩
      | some r =>
        rw [hr] at hit
        simp only at hit
        obtain ⟨ds, hds⟩ := classDerivs_isSome F (h.good_at F hg hr)
        rw [hds] at hit
        obtain ⟨hil, _⟩ := List.getElem?_eq_some_iff.1 hr
        have hpre : all <+: l :=
          (pushAll_prefix all ds).trans ((iterLoop_spec F hg _ _ _ (h.step F hg hr hds)).2 l hit).2
        by_cases hmax : i = maxStates
        · rw [compileLoop]
          have hbeq : (i == maxStates) = true := by simpa using hmax
          simp only [hr, hbeq, if_true, ne_eq, reduceCtorEq, not_false_eq_true, Res.ok.injEq,
            forall_const, false_imp_iff, implies_true, and_true, true_and]
          have := hpre.length_le
          omega
        · obtain ⟨b', hbk', heq⟩ :=
            compileLoop_step F (h.good_at F hg hr) hr hds hb hmax fuel
          rw [heq]
          exact ih _ _ _ fuel' l (h.step F hg hr hds) hbk' (by omega) hit

/-- with a bound that the remaining fuel cannot reach, the bound is never hit -/
theorem compileLoop_ne_none (maxStates : Nat) :
    ∀ (fuel : Nat) (all : List RE) (i : Nat) (b : Builder), i + fuel ≤ maxStates →
      compileLoop ord maxStates fuel all i b ≠ .ok none := by
  intro fuel
  induction fuel with
  | zero => intro all i b _; simp [compileLoop]
  | succ fuel ih =>
    intro all i b hle
    rw [compileLoop]
    cases hr : all[i]? with
    | none => simp
    | some r =>
      have hbeq : (i == maxStates) = false := by
        simp only [beq_eq_false_iff_ne, ne_eq]; omega
      simp only [hbeq, Bool.false_eq_true, if_false]
      split
      · simp
      · split
        · simp
        · exact ih _ _ _ (by omega)

/-- `compileLoop` needs exactly as much fuel as `iterLoop` -/
theorem compileLoop_fuel (F : ClosureFacts ord Good) {e : RE} (hg : Good e) (maxStates : Nat) :
    ∀ (fuel : Nat) (all : List RE) (i : Nat) (b : Builder) (l : List RE),
      BInv ord e all i → BK all.length b →
      iterLoop ord fuel all i = .ok l →
      compileLoop ord maxStates fuel all i b ≠ .outOfFuel := by
  intro fuel
  induction fuel with
  | zero => intro all i b l _ _ hit; simp [iterLoop] at hit
  | succ fuel ih =>
    intro all i b l h hb hit
    rw [iterLoop] at hit
    cases hr : all[i]? with
    | none => rw [compileLoop]; simp [hr]
    | some r =>
      rw [hr] at hit
      simp only at hit
      obtain ⟨ds, hds⟩ := classDerivs_isSome F (h.good_at F hg hr)
      rw [hds] at hit
      by_cases hmax : i = maxStates
      · rw [compileLoop]
        have hbeq : (i == maxStates) = true := by simpa using hmax
        simp [hr, hbeq]
      · obtain ⟨b', hbk', heq⟩ :=
          compileLoop_step F (h.good_at F hg hr) hr hds hb hmax fuel
        rw [heq]
        exact ih _ _ _ l (h.step F hg hr hds) hbk' hit

/-- the BFS loop of `compile_with_bound` never panics, whether or not it terminates -/
theorem compileLoop_no_panic (F : ClosureFacts ord Good) {e : RE} (hg : Good e) (maxStates : Nat) :
    ∀ (fuel : Nat) (all : List RE) (i : Nat) (b : Builder),
      BInv ord e all i → BK all.length b →
      compileLoop ord maxStates fuel all i b ≠ .panic := by
  intro fuel
  induction fuel with
  | zero => intro all i b _ _; simp [compileLoop]
  | succ fuel ih =>
    intro all i b h hb
    cases hr : all[i]? with
    | none => rw [compileLoop]; simp [hr]
    | some r =>
      obtain ⟨ds, hds⟩ := classDerivs_isSome F (h.good_at F hg hr)
      by_cases hmax : i = maxStates
      · rw [compileLoop]
        have hbeq : (i == maxStates) = true := by simpa using hmax
        simp [hr, hbeq]
      · obtain ⟨b', hbk', heq⟩ :=
          compileLoop_step F (h.good_at F hg hr) hr hds hb hmax fuel
        rw [heq]
        exact ih _ _ _ (h.step F hg hr hds) hbk'

end RE
end Smt
