/-
  Helper lemmas for C15 (loop ranges): pure facts about naturals and lists of naturals.

  * sums of `k` numbers taken in `[a, b]` (resp. `[a, ∞)`) are exactly `[k*a, k*b]` (resp. `[k*a, ∞)`)
  * the "no gap" condition `a - 1 ≤ c * (b - a)` makes the intervals `[y*a, y*b]`, `y ≥ c`, overlap
    or touch; its negation leaves the element `c*b + 1` uncovered.

  Only `omega` plus monotonicity of multiplication is needed (products of variables are atoms
  for `omega`).
-/


namespace Smt.LoopRangeProofs

theorem sum_lower (a : Nat) (xs : List Nat) (h : ∀ x ∈ xs, a ≤ x) : xs.length * a ≤ xs.sum := by
  induction xs with
  | nil => simp
  | cons x xs ih =>
    have hx := h x List.mem_cons_self
    have := ih (fun y hy => h y (List.mem_cons_of_mem _ hy))
    simp only [List.length_cons, List.sum_cons, Nat.add_one_mul]
    omega

theorem sum_upper (b : Nat) (xs : List Nat) (h : ∀ x ∈ xs, x ≤ b) : xs.sum ≤ xs.length * b := by
  induction xs with
  | nil => simp
  | cons x xs ih =>
    have hx := h x List.mem_cons_self
    have := ih (fun y hy => h y (List.mem_cons_of_mem _ hy))
    simp only [List.length_cons, List.sum_cons, Nat.add_one_mul]
    omega

/-- every `n` in `[k*a, k*b]` is a sum of `k` numbers of `[a, b]` -/
theorem exists_list_fin (a b : Nat) (hab : a ≤ b) : ∀ (k n : Nat), k * a ≤ n → n ≤ k * b →
    ∃ xs : List Nat, xs.length = k ∧ (∀ x ∈ xs, a ≤ x ∧ x ≤ b) ∧ xs.sum = n := by
  intro k
  induction k with
  | zero =>
    intro n _ h2
    refine ⟨[], rfl, by simp, ?_⟩
    simp only [Nat.zero_mul] at h2
    simp only [List.sum_nil]; omega
  | succ k ih =>
    intro n h1 h2
    rw [Nat.add_one_mul] at h1 h2
    have hkab : k * a ≤ k * b := Nat.mul_le_mul_left k hab
    obtain ⟨xs, hl, hm, hs⟩ := ih (n - min b (n - k * a)) (by omega) (by omega)
    refine ⟨min b (n - k * a) :: xs, by simp [hl], ?_, ?_⟩
    · intro x hx
      rcases List.mem_cons.1 hx with rfl | hx
      · omega
      · exact hm x hx
    · simp only [List.sum_cons, hs]; omega

/-- every `n ≥ k*a` is a sum of `k ≥ 1` numbers that are all `≥ a` -/
theorem exists_list_inf (a : Nat) : ∀ (k n : Nat), (k + 1) * a ≤ n →
    ∃ xs : List Nat, xs.length = k + 1 ∧ (∀ x ∈ xs, a ≤ x) ∧ xs.sum = n := by
  intro k
  induction k with
  | zero =>
    intro n h
    refine ⟨[n], rfl, ?_, by simp⟩
    intro x hx
    simp only [List.mem_singleton] at hx
    subst hx; omega
  | succ k ih =>
    intro n h
    rw [Nat.add_one_mul] at h
    obtain ⟨xs, hl, hm, hs⟩ := ih (n - a) (by omega)
    refine ⟨a :: xs, by simp [hl], ?_, ?_⟩
    · intro x hx
      rcases List.mem_cons.1 hx with rfl | hx
      · exact Nat.le_refl _
      · exact hm x hx
    · simp only [List.sum_cons, hs]; omega

/-- no gap between `[y*a, y*b]` and `[(y+1)*a, (y+1)*b]` -/
theorem gap_step (a b y : Nat) (hab : a ≤ b) (h : a - 1 ≤ y * (b - a)) :
    (y + 1) * a ≤ y * b + 1 := by
  rw [Nat.mul_sub] at h
  rw [Nat.add_one_mul]
  have := Nat.mul_le_mul_left y hab
  omega

theorem gap_mono (a b c y : Nat) (hcy : c ≤ y) (h : a - 1 ≤ c * (b - a)) :
    a - 1 ≤ y * (b - a) :=
  Nat.le_trans h (Nat.mul_le_mul_right _ hcy)

/-- under the no-gap condition at `c`, the intervals `[y*a, y*b]` for `y = c .. c+m` cover
    `[c*a, (c+m)*b]` -/
theorem cover (a b c : Nat) (hab : a ≤ b) (hgap : a - 1 ≤ c * (b - a)) :
    ∀ m n, c * a ≤ n → n ≤ (c + m) * b → ∃ y, c ≤ y ∧ y ≤ c + m ∧ y * a ≤ n ∧ n ≤ y * b := by
  intro m
  induction m with
  | zero =>
    intro n h1 h2
    exact ⟨c, Nat.le_refl _, by omega, h1, by simpa using h2⟩
  | succ m ih =>
    intro n h1 h2
    by_cases hn : n ≤ (c + m) * b
    · obtain ⟨y, hy1, hy2, hy3, hy4⟩ := ih n h1 hn
      exact ⟨y, hy1, by omega, hy3, hy4⟩
    · have := gap_step a b (c + m) hab (gap_mono a b c (c + m) (by omega) hgap)
      rw [← Nat.add_assoc] at h2
      exact ⟨c + m + 1, by omega, by omega, by omega, h2⟩

/-- if the no-gap condition fails at `c`, the element `c*b + 1` lies strictly between
    `[c*a, c*b]` and `[(c+1)*a, …]`, so no `[y*a, y*b]` with `y ≥ c` contains it -/
theorem gap_not_covered (a b c y : Nat) (hab : a ≤ b) (h : c * (b - a) < a - 1) (hy : c ≤ y) :
    ¬ (y * a ≤ c * b + 1 ∧ c * b + 1 ≤ y * b) := by
  rw [Nat.mul_sub] at h
  have h0 := Nat.mul_le_mul_left c hab
  rintro ⟨h1, h2⟩
  rcases Nat.eq_or_lt_of_le hy with rfl | hlt
  · omega
  · have h3 : (c + 1) * a ≤ y * a := Nat.mul_le_mul_right a hlt
    rw [Nat.add_one_mul] at h3
    omega

/-- the gap element is in the product interval when `d > c` -/
theorem gap_in_product (a b c d : Nat) (hab : a ≤ b) (h : c * (b - a) < a - 1) (hcd : c < d) :
    a * c ≤ c * b + 1 ∧ c * b + 1 ≤ b * d := by
  have h0 := Nat.mul_le_mul_left c hab
  have h3 : b * (c + 1) ≤ b * d := Nat.mul_le_mul_left b hcd
  rw [Nat.mul_add, Nat.mul_one, Nat.mul_comm b c] at h3
  rw [Nat.mul_comm a c]
  constructor <;> omega

end Smt.LoopRangeProofs
