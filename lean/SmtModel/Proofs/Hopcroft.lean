/-
  C04, Hopcroft layer 3: the invariants of `Minimizer::new` / `refine` (Model/Hopcroft.lean) and what
  they give on exit.

  Context: `δ` closed on `n` states and `k` letters; `dd δ` the total successor, `ff isFinal` the total
  finality; `blk P x` the block of `x`; `Indist x y` = no word over the letters `< k` distinguishes
  `x` and `y`.

  * `Inv E m`        the invariant: the main partition is a partition of the states (`PartWF`), every
                     block is uniform in finality, indistinguishable states share a block, the splitter
                     lists / pred classes correspond to the partition (`Corr`), and Hopcroft's invariant
                     in pair form: for `x, y` in one block and a letter `c` whose successors lie in
                     different blocks, one of the two `(block of successor, c)` is an ACTIVE splitter —
                     or the escape clause `E x y c` holds (`E = False` between rounds; during the round
                     for splitter `(B, a)`: `c = a` and exactly one successor lies in `B`)
  * `inv_after_split`   a split of block `i` into `i`, `j` followed by
                     `upate_splitters_after_refinement(i, j)` keeps `Inv E` (the "smaller half" rule is
                     used only through: one of the two halves becomes active)
  * `pick_inv`, `refineBlockWithSplitter_inv`, `refineCandidates_inv`, `refineWithSplitter_inv`,
    `refineLoop_inv`, `new_inv`
  * `run_spec`       for `Minimizer::new(..).refine()`: partition of the states, blocks uniform in
                     finality, indistinguishable states together, and STABLE: successors of a block on a
                     letter lie in one block
-/
import SmtModel.Proofs.HopcroftUpdate
import SmtModel.Proofs.FastSet
import Mathlib.Data.List.Nodup

namespace Smt
namespace Hopcroft
open BasePartition Partition

/-- the total finality predicate -/
def ff (isFinal : Nat → Option Bool) (x : Nat) : Bool := (isFinal x).getD false

/-- no word over the letters `< k` distinguishes `x` and `y` -/
def Indist (δ : Nat → Nat → Option Nat) (isFinal : Nat → Option Bool) (k : Nat) (x y : Nat) : Prop :=
  ∀ w : List Nat, (∀ c ∈ w, c < k) → ff isFinal (w.foldl (dd δ) x) = ff isFinal (w.foldl (dd δ) y)

theorem Indist.step {δ : Nat → Nat → Option Nat} {isFinal : Nat → Option Bool} {k x y : Nat}
    (h : Indist δ isFinal k x y) {c : Nat} (hc : c < k) : Indist δ isFinal k (dd δ x c) (dd δ y c) := by
  intro w hw
  have := h (c :: w) (by
    intro c' hc'
    rcases List.mem_cons.1 hc' with rfl | hc'
    · exact hc
    · exact hw c' hc')
  simpa using this

section
variable {δ : Nat → Nat → Option Nat} {isFinal : Nat → Option Bool} {n k : Nat}

structure Inv (δ : Nat → Nat → Option Nat) (isFinal : Nat → Option Bool) (n k : Nat)
    (E : Nat → Nat → Nat → Prop) (m : Minimizer) : Prop where
  ns : m.numStates = n
  as : m.alphabetSize = k
  wf : PartWF m.mainPartition n
  fin : ∀ x y, x < n → y < n → blk m.mainPartition x = blk m.mainPartition y →
    ff isFinal x = ff isFinal y
  coarse : ∀ x y, x < n → y < n → Indist δ isFinal k x y →
    blk m.mainPartition x = blk m.mainPartition y
  corr : Corr δ n k (blk m.mainPartition) m.predClasses m.splitters
  hop : ∀ x y, x < n → y < n → blk m.mainPartition x = blk m.mainPartition y → ∀ c, c < k →
    blk m.mainPartition (dd δ x c) ≠ blk m.mainPartition (dd δ y c) →
    Act m.splitters (blk m.mainPartition (dd δ x c)) c ∨
    Act m.splitters (blk m.mainPartition (dd δ y c)) c ∨ E x y c

theorem Inv.mono {E E' : Nat → Nat → Nat → Prop} {m : Minimizer} (h : Inv δ isFinal n k E m)
    (hE : ∀ x y c, x < n → y < n → blk m.mainPartition x = blk m.mainPartition y → E x y c → E' x y c) :
    Inv δ isFinal n k E' m :=
  ⟨h.ns, h.as, h.wf, h.fin, h.coarse, h.corr, fun x y hx hy hb c hc hne => by
    rcases h.hop x y hx hy hb c hc hne with a | a | a
    · exact .inl a
    · exact .inr (.inl a)
    · exact .inr (.inr (hE x y c hx hy hb a))⟩

/-- a split of block `i` of the main partition into `i` and the new block `j`, followed by
    `upate_splitters_after_refinement(i, j)` -/
theorem inv_after_split (hcl : Closed δ n k) {E : Nat → Nat → Nat → Prop} {m : Minimizer}
    (hns : m.numStates = n) (has : m.alphabetSize = k)
    (hcorr0 : Corr δ n k (blk m.mainPartition) m.predClasses m.splitters)
    (hhop : ∀ x y, x < n → y < n → blk m.mainPartition x = blk m.mainPartition y → ∀ c, c < k →
      blk m.mainPartition (dd δ x c) ≠ blk m.mainPartition (dd δ y c) →
      Act m.splitters (blk m.mainPartition (dd δ x c)) c ∨
      Act m.splitters (blk m.mainPartition (dd δ y c)) c ∨ E x y c)
    {Q : Partition} (hQ : PartWF Q n) {i j : Nat} (hij : i ≠ j)
    (hBo : ∀ x, x < n → blk m.mainPartition x = if blk Q x = j then i else blk Q x)
    (hfin : ∀ x y, x < n → y < n → blk Q x = blk Q y → ff isFinal x = ff isFinal y)
    (hsep : ∀ x y, x < n → y < n → Indist δ isFinal k x y → blk Q x = blk Q y)
    {m' : Minimizer}
    (h : updateSplittersAfterRefinement δ { m with mainPartition := Q } i j = some m') :
    Inv δ isFinal n k E m' ∧ m'.mainPartition = Q := by
  obtain ⟨hmain, hns', has', hcorr, hT1, hT2, hT3⟩ :=
    update_spec hcl hQ hij hBo (m := { m with mainPartition := Q }) rfl hcorr0 h
  refine ⟨⟨by rw [hns']; exact hns, by rw [has']; exact has, by rw [hmain]; exact hQ,
    by rw [hmain]; exact hfin, by rw [hmain]; exact hsep, by rw [hmain]; exact hcorr, ?_⟩, hmain⟩
  rw [hmain]
  intro x y hx hy hb c hc hne
  have hu : dd δ x c < n := (hcl.eq hx hc).2
  have hv : dd δ y c < n := (hcl.eq hy hc).2
  have hbo : blk m.mainPartition x = blk m.mainPartition y := by
    rw [hBo x hx, hBo y hy, hb]
  -- facts relating old and new blocks
  have hnj : ∀ z, z < n → blk m.mainPartition z ≠ j := by
    intro z hz e
    rw [hBo z hz] at e
    split at e
    · exact hij e
    · rename_i hne'; exact hne' e
  have hold_i : ∀ z, z < n → blk m.mainPartition z = i → blk Q z = i ∨ blk Q z = j := by
    intro z hz e
    rw [hBo z hz] at e
    split at e
    · right; assumption
    · left; exact e
  have hold_ne : ∀ z, z < n → blk m.mainPartition z ≠ i → blk Q z = blk m.mainPartition z := by
    intro z hz e
    rw [hBo z hz] at e ⊢
    split
    · rename_i e'; rw [if_pos e'] at e; exact absurd rfl e
    · rfl
  have transfer : ∀ z w, z < n → w < n → dd δ w c = z →
      Act m.splitters (blk m.mainPartition z) c → Act m'.splitters (blk Q z) c := by
    intro z w hz hw hwz hact
    by_cases hzi : blk m.mainPartition z = i
    · rw [hzi] at hact
      exact hT2 c hact (blk Q z) (hold_i z hz hzi) ⟨w, hw, by rw [hwz]⟩
    · have e := hold_ne z hz hzi
      obtain ⟨it, hit, h1, h2⟩ := hact
      refine ⟨it, ?_, h1, h2⟩
      rw [e, hT1 _ hzi (hnj z hz)]
      exact hit
  by_cases hold : blk m.mainPartition (dd δ x c) = blk m.mainPartition (dd δ y c)
  · -- the two successors were in one block, which has just been split
    have hi : blk m.mainPartition (dd δ x c) = i := by
      by_contra hni
      have e1 := hold_ne _ hu hni
      have e2 := hold_ne _ hv (by rw [← hold]; exact hni)
      exact hne (by rw [e1, e2, hold])
    have hi' : blk m.mainPartition (dd δ y c) = i := by rw [← hold]; exact hi
    rcases hold_i _ hu hi with e1 | e1 <;> rcases hold_i _ hv hi' with e2 | e2
    · exact absurd (e1.trans e2.symm) hne
    · rw [e1, e2]
      rcases hT3 c hc ⟨x, hx, e1⟩ ⟨y, hy, e2⟩ with a | a
      · exact .inl a
      · exact .inr (.inl a)
    · rw [e1, e2]
      rcases hT3 c hc ⟨y, hy, e2⟩ ⟨x, hx, e1⟩ with a | a
      · exact .inr (.inl a)
      · exact .inl a
    · exact absurd (e1.trans e2.symm) hne
  · rcases hhop x y hx hy hbo c hc hold with a | a | a
    · exact .inl (transfer _ x hu hx rfl a)
    · exact .inr (.inl (transfer _ y hv hy rfl a))
    · exact .inr (.inr a)

/-! ### one `refine_block` of the main partition -/

theorem SplitCases.congr {p p' : BasePartition} {i : Nat} {pr pr' : Nat → Bool} {r : Nat × Nat}
    (h : SplitCases p i pr p' r) (he : ∀ x, Mem p i x → pr x = pr' x) : SplitCases p i pr' p' r := by
  rcases h with ⟨h1, h2, h3⟩ | ⟨h1, h2, h3, h4⟩ | ⟨h1, h2, h3, h4, h5, h6, h7⟩
  · exact .inl ⟨h1, h2, fun x hx => by rw [← he x hx]; exact h3 x hx⟩
  · exact .inr (.inl ⟨h1, h2, fun x hx => by rw [← he x hx]; exact h3 x hx, h4⟩)
  · refine .inr (.inr ⟨h1, h2, h3, h4, ?_, ?_, h7⟩)
    · intro x
      rw [h5 x]
      constructor
      · rintro ⟨a, b⟩; exact ⟨a, by rw [← he x a]; exact b⟩
      · rintro ⟨a, b⟩; exact ⟨a, by rw [he x a]; exact b⟩
    · intro x
      rw [h6 x]
      constructor
      · rintro ⟨a, b⟩; exact ⟨a, by rw [← he x a]; exact b⟩
      · rintro ⟨a, b⟩; exact ⟨a, by rw [he x a]; exact b⟩

/-- how the block function changes in one `refine_block(b, pr)` of a `Partition` -/
theorem refine_blk {P Q : Partition} (hP : PartWF P n) (hQ : PartWF Q n) {b : Nat} {pr : Nat → Bool}
    {r : Nat × Nat} (hc : SplitCases P.base b pr Q.base r) :
    ((r.1 = 0 ∨ r.2 = 0) ∧ (∀ x, x < n → blk Q x = blk P x) ∧ Q.numBlocks = P.numBlocks ∧
      (r.1 = 0 → ∀ x, x < n → blk P x = b → pr x = false) ∧
      (r.2 = 0 → ∀ x, x < n → blk P x = b → pr x = true)) ∨
    (r = (b, P.numBlocks) ∧ b ≠ 0 ∧ b < P.numBlocks ∧ Q.numBlocks = P.numBlocks + 1 ∧
      ∀ x, x < n → (blk P x ≠ b → blk Q x = blk P x) ∧
        (blk P x = b → pr x = true → blk Q x = b) ∧
        (blk P x = b → pr x = false → blk Q x = P.numBlocks)) := by
  rcases hc with ⟨h1, h2, h3⟩ | ⟨h1, h2, h3, _⟩ | ⟨h1, h2, h3, h4, h5, h6, h7⟩
  · left
    have hblk : ∀ x, x < n → blk Q x = blk P x := by
      intro x hx
      rw [blk_spec hQ hx, h2]
      exact mem_blk hP hx
    refine ⟨.inl (by rw [h1]), hblk, by show Q.base.numBlocks = _; rw [h2]; rfl, ?_, ?_⟩
    · intro _ x hx e
      exact h3 x ((blk_spec hP hx b).1 e)
    · intro e x hx e'
      rw [h1] at e
      simp only at e
      subst e
      exact absurd ((blk_spec hP hx 0).1 e') (not_mem_zero hP.base x)
  · left
    have hblk : ∀ x, x < n → blk Q x = blk P x := by
      intro x hx
      rw [blk_spec hQ hx, h2]
      exact mem_blk hP hx
    refine ⟨.inr (by rw [h1]), hblk, by show Q.base.numBlocks = _; rw [h2]; rfl, ?_, ?_⟩
    · intro e x hx e'
      rw [h1] at e
      simp only at e
      subst e
      exact absurd ((blk_spec hP hx 0).1 e') (not_mem_zero hP.base x)
    · intro _ x hx e
      exact h3 x ((blk_spec hP hx b).1 e)
  · right
    refine ⟨h1, h3, h4, h2, ?_⟩
    intro x hx
    refine ⟨?_, ?_, ?_⟩
    · intro hne
      rw [blk_spec hQ hx]
      have hlt := (blk_pos hP hx).2
      rw [h7 (blk P x) hne (by show blk P x ≠ P.base.numBlocks; exact Nat.ne_of_lt hlt) x]
      exact mem_blk hP hx
    · intro e hpx
      rw [blk_spec hQ hx, h5 x]
      exact ⟨(blk_spec hP hx b).1 e, hpx⟩
    · intro e hpx
      rw [blk_spec hQ hx]
      exact (h6 x).2 ⟨(blk_spec hP hx b).1 e, hpx⟩

/-- `refine_block_with_splitter(s, b)` -/
theorem refineBlockWithSplitter_inv (hcl : Closed δ n k) {E : Nat → Nat → Nat → Prop} {m : Minimizer}
    (inv : Inv δ isFinal n k E m) {s : Splitter} (hsk : s.char < k) {b : Nat} {m' : Minimizer}
    (h : refineBlockWithSplitter δ m s b = some m') :
    Inv δ isFinal n k E m' ∧
    (∀ x y, x < n → y < n → blk m'.mainPartition x = blk m'.mainPartition y →
      blk m.mainPartition x = blk m.mainPartition y) ∧
    (∀ x y, x < n → y < n → blk m'.mainPartition x = blk m'.mainPartition y →
      blk m.mainPartition x = b →
      (blk m.mainPartition (dd δ x s.char) = s.block ↔ blk m.mainPartition (dd δ y s.char) = s.block)) ∧
    (∀ z, z < n → blk m'.mainPartition z = blk m.mainPartition z ∨
      (blk m.mainPartition z = b ∧ blk m'.mainPartition z = m.mainPartition.numBlocks)) ∧
    m.mainPartition.numBlocks ≤ m'.mainPartition.numBlocks := by
  unfold refineBlockWithSplitter at h
  split at h
  · cases h
  · rename_i Q i j href
    obtain ⟨hdef, hQ, hcases⟩ := refineP_spec inv.wf _ href
    -- the predicate, read through the block function
    have hpr : ∀ x, x < n →
        ((match δ x s.char with
          | none => none
          | some t => (m.mainPartition.blockId[t]?).map (fun v => v == s.block)) : Option Bool).getD false
        = (blk m.mainPartition (dd δ x s.char) == s.block) := by
      intro x hx
      obtain ⟨e1, e2⟩ := hcl.eq hx hsk
      have e3 := blockIdOf_eq inv.wf e2
      unfold blockIdOf at e3
      simp only [e1, e3, Option.map_some, Option.getD_some]
    have hcases' : SplitCases m.mainPartition.base b
        (fun x => blk m.mainPartition (dd δ x s.char) == s.block) Q.base (i, j) :=
      SplitCases.congr hcases (fun x hx => hpr x (inv.wf.base.bound _ _ hx))
    have hrel := refine_blk inv.wf hQ hcases'
    -- the predicate respects indistinguishability
    have hresp : ∀ x y, x < n → y < n → Indist δ isFinal k x y →
        (blk m.mainPartition (dd δ x s.char) == s.block) = (blk m.mainPartition (dd δ y s.char) == s.block) := by
      intro x y hx hy hxy
      rw [inv.coarse _ _ (hcl.eq hx hsk).2 (hcl.eq hy hsk).2 (hxy.step hsk)]
    split at h
    · cases h
    · rename_i hi0
      by_cases hj0 : j = 0
      · -- no split
        rw [if_neg (by simpa using hj0)] at h
        simp only [Option.some.injEq] at h
        subst h
        rcases hrel with ⟨_, hblk, hnb, _, hall⟩ | ⟨hr, _, _, _, _⟩
        · have hall' := hall hj0
          refine ⟨⟨inv.ns, inv.as, hQ, ?_, ?_, ?_, ?_⟩, ?_, ?_, ?_, ?_⟩
          · intro x y hx hy e
            exact inv.fin x y hx hy (by rw [← hblk x hx, ← hblk y hy]; exact e)
          · intro x y hx hy e
            show blk Q x = blk Q y
            rw [hblk x hx, hblk y hy]; exact inv.coarse x y hx hy e
          · have : blk Q = fun x => blk Q x := rfl
            have hc := inv.corr
            refine ⟨hc.lwf, hc.pc_len, hc.pc_wf, ?_, ?_, hc.f3⟩
            · intro b' it hit
              have hok := hc.f1 b' it hit
              refine ⟨hok.char_lt, hok.cls_ne, ?_⟩
              obtain ⟨p, hp, hlt, hM⟩ := hok.pred
              refine ⟨p, hp, hlt, fun x => ?_⟩
              rw [hM x]
              constructor
              · rintro ⟨hx, e⟩
                exact ⟨hx, by show blk Q _ = _; rw [hblk _ (hcl.eq hx hok.char_lt).2]; exact e⟩
              · rintro ⟨hx, e⟩
                exact ⟨hx, by rw [← hblk _ (hcl.eq hx hok.char_lt).2]; exact e⟩
            · intro x c hx hc'
              obtain ⟨it, hit, hitc⟩ := hc.f2 x c hx hc'
              refine ⟨it, ?_, hitc⟩
              show it ∈ itemsAt m.splitters (blk Q (dd δ x c))
              rw [hblk _ (hcl.eq hx hc').2]; exact hit
          · intro x y hx hy e c hc hne
            show Act m.splitters (blk Q (dd δ x c)) c ∨ Act m.splitters (blk Q (dd δ y c)) c ∨ E x y c
            have hu := (hcl.eq hx hc).2
            have hv := (hcl.eq hy hc).2
            rw [hblk _ hu, hblk _ hv]
            apply inv.hop x y hx hy _ c hc
            · rw [← hblk _ hu, ← hblk _ hv]; exact hne
            · rw [← hblk x hx, ← hblk y hy]; exact e
          · intro x y hx hy e
            show blk m.mainPartition x = blk m.mainPartition y
            rw [← hblk x hx, ← hblk y hy]; exact e
          · intro x y hx hy e hxb
            have e' : blk Q x = blk Q y := e
            have hyb : blk m.mainPartition y = b := by
              rw [← hblk y hy, ← e', hblk x hx]; exact hxb
            have e1 := hall' x hx hxb
            have e2 := hall' y hy hyb
            simp only [beq_iff_eq] at e1 e2
            exact ⟨fun _ => e2, fun _ => e1⟩
          · intro z hz; exact .inl (hblk z hz)
          · show m.mainPartition.numBlocks ≤ Q.numBlocks
            rw [hnb]; exact Nat.le_refl _
        · simp only [Prod.mk.injEq] at hr
          have := inv.wf.base.blk0
          have : 0 < m.mainPartition.numBlocks := by
            obtain ⟨h0, hb0, _⟩ := this
            exact (List.getElem?_eq_some_iff.1 hb0).1
          omega
      · -- a split
        rw [if_pos (by simpa using hj0)] at h
        split at h
        · cases h
        · rename_i hib
          have hib' : i = b := by simpa using hib
          subst hib'
          rcases hrel with ⟨hz, _⟩ | ⟨hr, hb0, hblt, hnb, hrel'⟩
          · simp only at hz; omega
          · simp only [Prod.mk.injEq] at hr
            obtain ⟨_, hjeq⟩ := hr
            subst hjeq
            have hij : i ≠ m.mainPartition.numBlocks := Nat.ne_of_lt hblt
            have hBo : ∀ x, x < n → blk m.mainPartition x
                = if blk Q x = m.mainPartition.numBlocks then i else blk Q x := by
              intro x hx
              obtain ⟨r1, r2, r3⟩ := hrel' x hx
              have hxlt := (blk_pos inv.wf hx).2
              by_cases hxb : blk m.mainPartition x = i
              · cases hpx : (blk m.mainPartition (dd δ x s.char) == s.block) with
                | true => rw [r2 hxb hpx, if_neg hij, hxb]
                | false => rw [r3 hxb hpx, if_pos rfl, hxb]
              · rw [r1 hxb, if_neg (Nat.ne_of_lt hxlt)]
            have hfiner : ∀ x y, x < n → y < n → blk Q x = blk Q y →
                blk m.mainPartition x = blk m.mainPartition y := by
              intro x y hx hy e; rw [hBo x hx, hBo y hy, e]
            obtain ⟨inv', hmain'⟩ := inv_after_split hcl inv.ns inv.as inv.corr inv.hop hQ hij hBo
              (fun x y hx hy e => inv.fin x y hx hy (hfiner x y hx hy e))
              (fun x y hx hy e => by
                have e0 := inv.coarse x y hx hy e
                have hp := hresp x y hx hy e
                obtain ⟨r1, r2, r3⟩ := hrel' x hx
                obtain ⟨s1, s2, s3⟩ := hrel' y hy
                by_cases hxb : blk m.mainPartition x = i
                · have hyb : blk m.mainPartition y = i := by rw [← e0]; exact hxb
                  cases hpx : (blk m.mainPartition (dd δ x s.char) == s.block) with
                  | true => rw [r2 hxb hpx, s2 hyb (by rw [← hp]; exact hpx)]
                  | false => rw [r3 hxb hpx, s3 hyb (by rw [← hp]; exact hpx)]
                · have hyb : blk m.mainPartition y ≠ i := by rw [← e0]; exact hxb
                  rw [r1 hxb, s1 hyb, e0]) h
            rw [hmain']
            refine ⟨inv', hfiner, ?_, ?_, ?_⟩
            · intro x y hx hy e hxb
              have hyb : blk m.mainPartition y = i := by rw [← hfiner x y hx hy e]; exact hxb
              obtain ⟨_, r2, r3⟩ := hrel' x hx
              obtain ⟨_, s2, s3⟩ := hrel' y hy
              cases hpx : (blk m.mainPartition (dd δ x s.char) == s.block) with
              | true =>
                cases hpy : (blk m.mainPartition (dd δ y s.char) == s.block) with
                | true =>
                  simp only [beq_iff_eq] at hpx hpy
                  exact ⟨fun _ => hpy, fun _ => hpx⟩
                | false =>
                  rw [r2 hxb hpx, s3 hyb hpy] at e
                  exact absurd e hij
              | false =>
                cases hpy : (blk m.mainPartition (dd δ y s.char) == s.block) with
                | true =>
                  rw [r3 hxb hpx, s2 hyb hpy] at e
                  exact absurd e.symm hij
                | false =>
                  simp only [beq_eq_false_iff_ne, ne_eq] at hpx hpy
                  exact ⟨fun a => absurd a hpx, fun a => absurd a hpy⟩
            · intro z hz
              obtain ⟨r1, r2, r3⟩ := hrel' z hz
              by_cases hzb : blk m.mainPartition z = i
              · cases hpz : (blk m.mainPartition (dd δ z s.char) == s.block) with
                | true => left; rw [r2 hzb hpz, hzb]
                | false => right; exact ⟨hzb, r3 hzb hpz⟩
              · left; exact r1 hzb
            · show m.mainPartition.numBlocks ≤ Q.numBlocks
              rw [hnb]; omega

/-! ### picking a splitter -/

theorem EntryOK.congr {B : Nat → Nat} {pc : List BasePartition} {b : Nat} {it it' : SplitterItem}
    (h : EntryOK δ n k B pc b it) (hc : it'.char = it.char) (hk : it'.cls = it.cls) :
    EntryOK δ n k B pc b it' :=
  ⟨by rw [hc]; exact h.char_lt, by rw [hk]; exact h.cls_ne, by rw [hc, hk]; exact h.pred⟩

/-- `Corr` only depends on the (char, class) pairs of every list -/
theorem Corr.of_perm {B : Nat → Nat} {pc : List BasePartition} {ss ss' : SplitterSet}
    (h : Corr δ n k B pc ss) (hl : LWF ss')
    (hp : ∀ b, ((itemsAt ss' b).map (fun it => (it.char, it.cls))).Perm
      ((itemsAt ss b).map (fun it => (it.char, it.cls)))) : Corr δ n k B pc ss' := by
  have back : ∀ b it, it ∈ itemsAt ss' b → ∃ it0 ∈ itemsAt ss b, it0.char = it.char ∧ it0.cls = it.cls := by
    intro b it hit
    have : (it.char, it.cls) ∈ (itemsAt ss b).map (fun it => (it.char, it.cls)) :=
      (hp b).mem_iff.1 (List.mem_map_of_mem hit)
    obtain ⟨it0, h0, e⟩ := List.mem_map.1 this
    simp only [Prod.mk.injEq] at e
    exact ⟨it0, h0, e.1, e.2⟩
  have fwd : ∀ b it, it ∈ itemsAt ss b → ∃ it0 ∈ itemsAt ss' b, it0.char = it.char ∧ it0.cls = it.cls := by
    intro b it hit
    have : (it.char, it.cls) ∈ (itemsAt ss' b).map (fun it => (it.char, it.cls)) :=
      (hp b).mem_iff.2 (List.mem_map_of_mem hit)
    obtain ⟨it0, h0, e⟩ := List.mem_map.1 this
    simp only [Prod.mk.injEq] at e
    exact ⟨it0, h0, e.1, e.2⟩
  refine ⟨hl, h.pc_len, h.pc_wf, ?_, ?_, ?_⟩
  · intro b it hit
    obtain ⟨it0, h0, e1, e2⟩ := back b it hit
    exact (h.f1 b it0 h0).congr e1.symm e2.symm
  · intro x c hx hc
    obtain ⟨it, hit, hitc⟩ := h.f2 x c hx hc
    obtain ⟨it0, h0, e1, _⟩ := fwd _ it hit
    exact ⟨it0, h0, by rw [e1, hitc]⟩
  · intro b
    have e : ∀ l : List SplitterItem, l.map (·.char) = (l.map (fun it => (it.char, it.cls))).map Prod.fst := by
      intro l; simp [List.map_map]
    rw [e, ((hp b).map _).nodup_iff, ← e]
    exact h.f3 b

/-- escape clause of the round for splitter `s`, relative to the partition `P` at pick time -/
def Es (δ : Nat → Nat → Option Nat) (P : Partition) (s : Splitter) (x y c : Nat) : Prop :=
  c = s.char ∧ ¬ (blk P (dd δ x s.char) = s.block ↔ blk P (dd δ y s.char) = s.block)

theorem pick_inv {m : Minimizer} (inv : Inv δ isFinal n k (fun _ _ _ => False) m)
    {r : Option Splitter} {m1 : Minimizer} (h : pickSplitter m = some (r, m1)) :
    m1.mainPartition = m.mainPartition ∧
    match r with
    | none => Inv δ isFinal n k (fun _ _ _ => False) m1 ∧ ∀ b c, ¬ Act m1.splitters b c
    | some s => Inv δ isFinal n k (Es δ m.mainPartition s) m1 ∧
        (⟨s.char, s.cls, false⟩ : SplitterItem) ∈ itemsAt m1.splitters s.block := by
  unfold pickSplitter at h
  split at h
  · cases h
  · rename_i r' ss' hp
    simp only [Option.some.injEq, Prod.mk.injEq] at h
    obtain ⟨rfl, rfl⟩ := h
    refine ⟨rfl, ?_⟩
    obtain ⟨hl', hspec⟩ := pickSplitter_spec inv.corr.lwf hp
    cases r' with
    | none =>
      simp only at hspec ⊢
      obtain ⟨hsame, hinact⟩ := hspec
      refine ⟨⟨inv.ns, inv.as, inv.wf, inv.fin, inv.coarse,
        inv.corr.of_perm hl' (fun b => by rw [hsame b]), ?_⟩, ?_⟩
      · intro x y hx hy hb c hc hne
        rcases inv.hop x y hx hy hb c hc hne with ⟨it, hit, _, ha⟩ | ⟨it, hit, _, ha⟩ | a
        · rw [hinact _ it hit] at ha; cases ha
        · rw [hinact _ it hit] at ha; cases ha
        · exact a.elim
      · rintro b c ⟨it, hit, _, ha⟩
        rw [hsame b] at hit
        rw [hinact _ it hit] at ha; cases ha
    | some s =>
      simp only at hspec ⊢
      obtain ⟨_, hother, R, hp1, hp2⟩ := hspec
      have hperm : ∀ b, ((itemsAt ss' b).map (fun it => (it.char, it.cls))).Perm
          ((itemsAt m.splitters b).map (fun it => (it.char, it.cls))) := by
        intro b
        by_cases hb : b = s.block
        · subst hb
          exact ((hp2.map _).trans (by simp)).trans (hp1.map _).symm
        · rw [hother b hb]
      have hact : ∀ b c, Act m.splitters b c → Act ss' b c ∨ (b = s.block ∧ c = s.char) := by
        rintro b c ⟨it, hit, hitc, hita⟩
        by_cases hb : b = s.block
        · subst hb
          rcases List.mem_cons.1 (hp1.mem_iff.1 hit) with e | e
          · right; exact ⟨rfl, by rw [← hitc, e]⟩
          · left; exact ⟨it, hp2.mem_iff.2 (List.mem_cons_of_mem _ e), hitc, hita⟩
        · left; exact ⟨it, by rw [hother b hb]; exact hit, hitc, hita⟩
      refine ⟨⟨inv.ns, inv.as, inv.wf, inv.fin, inv.coarse, inv.corr.of_perm hl' hperm, ?_⟩,
        hp2.mem_iff.2 (List.mem_cons_self ..)⟩
      intro x y hx hy hb c hc hne
      rcases inv.hop x y hx hy hb c hc hne with a | a | a
      · rcases hact _ _ a with a' | ⟨e1, e2⟩
        · exact .inl a'
        · refine .inr (.inr ⟨e2, ?_⟩)
          subst e2
          intro hiff
          exact hne (e1.trans (hiff.1 e1).symm)
      · rcases hact _ _ a with a' | ⟨e1, e2⟩
        · exact .inr (.inl a')
        · refine .inr (.inr ⟨e2, ?_⟩)
          subst e2
          intro hiff
          exact hne ((hiff.2 e1).trans e1.symm)
      · exact a.elim

/-! ### collecting the candidates -/

theorem collectLoop_spec {main : Partition} (hmain : PartWF main n) :
    ∀ (xs : List Nat) (set set' : FastSet), (∀ x ∈ xs, x < n) → FastSet.Inv set →
      set.max = main.numBlocks → collectLoop main xs set = some set' →
      FastSet.Inv set' ∧ set'.max = set.max ∧ (∀ b ∈ FastSet.live set, b ∈ FastSet.live set') ∧
      (∀ x ∈ xs, ∃ sz, main.blockSize (blk main x) = some sz ∧
        (sz > 1 → blk main x ∈ FastSet.live set')) := by
  intro xs
  induction xs with
  | nil =>
    intro set set' _ hi _ h
    simp only [collectLoop, Option.some.injEq] at h
    subst h
    exact ⟨hi, rfl, fun _ hb => hb, fun x hx => by cases hx⟩
  | cons x rest ih =>
    intro set set' hlt hi hmax h
    have hx : x < n := hlt x (List.mem_cons_self ..)
    have hrest : ∀ y ∈ rest, y < n := fun y hy => hlt y (List.mem_cons_of_mem _ hy)
    unfold collectLoop at h
    rw [blockIdOf_eq hmain hx] at h
    simp only at h
    split at h
    · cases h
    · rename_i sz hsz
      split at h
      · rename_i hgt
        have hb : blk main x < set.max := by rw [hmax]; exact (blk_pos hmain hx).2
        obtain ⟨set1, e1, hi1, hm1, hl1⟩ := FastSet.insert_spec hi hb
        rw [e1] at h
        simp only at h
        obtain ⟨hi', hm', hsub, hall⟩ := ih set1 set' hrest hi1 (by rw [hm1]; exact hmax) h
        have hin : blk main x ∈ FastSet.live set1 := by
          rw [hl1]; split
          · assumption
          · simp
        refine ⟨hi', by rw [hm', hm1], ?_, ?_⟩
        · intro b hb'
          apply hsub
          rw [hl1]; split
          · exact hb'
          · exact List.mem_append_left _ hb'
        · intro y hy
          rcases List.mem_cons.1 hy with rfl | hy
          · exact ⟨sz, hsz, fun _ => hsub _ hin⟩
          · exact hall y hy
      · rename_i hle
        obtain ⟨hi', hm', hsub, hall⟩ := ih set set' hrest hi hmax h
        refine ⟨hi', hm', hsub, ?_⟩
        intro y hy
        rcases List.mem_cons.1 hy with rfl | hy
        · exact ⟨sz, hsz, fun hgt => absurd hgt hle⟩
        · exact hall y hy

/-! ### the round for one splitter -/

theorem refineCandidates_inv (hcl : Closed δ n k) {E : Nat → Nat → Nat → Prop} {s : Splitter}
    (hsk : s.char < k) (S0 : Nat → Prop) (selfp : Prop) :
    ∀ (bs : List Nat) (m m' : Minimizer), refineCandidates δ s bs m = some m' →
      Inv δ isFinal n k E m → s.block ∉ bs → s.block < m.mainPartition.numBlocks →
      (∀ z, z < n → (blk m.mainPartition z = s.block ↔ S0 z)) →
      (∀ x y, x < n → y < n → blk m.mainPartition x = blk m.mainPartition y →
        (S0 (dd δ x s.char) ↔ S0 (dd δ y s.char)) ∨ blk m.mainPartition x ∈ bs ∨
          (selfp ∧ blk m.mainPartition x = s.block)) →
      Inv δ isFinal n k E m' ∧ s.block < m'.mainPartition.numBlocks ∧
      (∀ z, z < n → (blk m'.mainPartition z = s.block ↔ S0 z)) ∧
      (∀ x y, x < n → y < n → blk m'.mainPartition x = blk m'.mainPartition y →
        (S0 (dd δ x s.char) ↔ S0 (dd δ y s.char)) ∨ (selfp ∧ blk m'.mainPartition x = s.block)) := by
  intro bs
  induction bs with
  | nil =>
    intro m m' h inv _ hlt hS0 hJ
    simp only [refineCandidates, Option.some.injEq] at h
    subst h
    refine ⟨inv, hlt, hS0, ?_⟩
    intro x y hx hy e
    rcases hJ x y hx hy e with a | a | a
    · exact .inl a
    · cases a
    · exact .inr a
  | cons b rest ih =>
    intro m m' h inv hnot hlt hS0 hJ
    unfold refineCandidates at h
    split at h
    · cases h
    · rename_i m1 hstep
      have hbne : b ≠ s.block := fun e => hnot (e ▸ List.mem_cons_self ..)
      obtain ⟨inv1, hfiner, hunif, hmove, hnb⟩ := refineBlockWithSplitter_inv hcl inv hsk hstep
      have hS0' : ∀ z, z < n → (blk m1.mainPartition z = s.block ↔ S0 z) := by
        intro z hz
        rcases hmove z hz with e | ⟨e1, e2⟩
        · rw [e]; exact hS0 z hz
        · rw [← hS0 z hz, e1, e2]
          constructor
          · intro e; omega
          · intro e; exact absurd e hbne
      apply ih m1 m' h inv1 (fun hm => hnot (List.mem_cons_of_mem _ hm)) (by omega) hS0'
      intro x y hx hy e
      have e0 := hfiner x y hx hy e
      by_cases hxb : blk m.mainPartition x = b
      · left
        have := hunif x y hx hy e hxb
        rw [hS0 _ (hcl.eq hx hsk).2, hS0 _ (hcl.eq hy hsk).2] at this
        exact this
      · have hx1 : blk m1.mainPartition x = blk m.mainPartition x := by
          rcases hmove x hx with e' | ⟨e', _⟩
          · exact e'
          · exact absurd e' hxb
        rcases hJ x y hx hy e0 with a | a | ⟨a1, a2⟩
        · exact .inl a
        · rcases List.mem_cons.1 a with a | a
          · exact absurd a hxb
          · right; left; rw [hx1]; exact a
        · right; right; exact ⟨a1, by rw [hx1]; exact a2⟩

theorem refineWithSplitter_inv (hcl : Closed δ n k) {m : Minimizer} {s : Splitter}
    (inv : Inv δ isFinal n k (Es δ m.mainPartition s) m)
    (hs : (⟨s.char, s.cls, false⟩ : SplitterItem) ∈ itemsAt m.splitters s.block)
    {m' : Minimizer} (h : refineWithSplitter δ m s = some m') :
    Inv δ isFinal n k (fun _ _ _ => False) m' := by
  have hok := inv.corr.f1 _ _ hs
  have hsk : s.char < k := hok.char_lt
  obtain ⟨p, hp, hclt, hM⟩ := hok.pred
  simp only at hp hclt hM
  have hpwf := inv.corr.pc_wf _ _ hp
  -- the splitter's block exists
  have hblt : s.block < m.mainPartition.numBlocks := by
    obtain ⟨x, hx⟩ := hpwf.nonempty s.cls (Nat.pos_of_ne_zero hok.cls_ne) hclt
    obtain ⟨hxn, e⟩ := (hM x).1 hx
    rw [← e]
    exact (blk_pos inv.wf (hcl.eq hxn hsk).2).2
  unfold refineWithSplitter at h
  simp only at h
  split at h
  · cases h
  · rename_i set1 hcollect
    unfold collectRefinementCandidates at hcollect
    simp only [hp] at hcollect
    split at hcollect
    · cases hcollect
    · rename_i xs hxs
      have hxs_mem : ∀ x, x ∈ xs ↔ (x < n ∧ blk m.mainPartition (dd δ x s.char) = s.block) := by
        intro x
        rw [← hM x]
        constructor
        · intro hx; exact ⟨xs, hxs, hx⟩
        · rintro ⟨l, hl, hx⟩
          rw [hxs] at hl; cases hl; exact hx
      obtain ⟨hi1, hmax1, _, hcand⟩ := collectLoop_spec inv.wf xs _ set1
        (fun x hx => ((hxs_mem x).1 hx).1) (FastSet.reset_inv (FastSet.new_inv _)) rfl hcollect
      have hmax1' : set1.max = m.mainPartition.numBlocks := by rw [hmax1]; rfl
      rw [FastSet.contains_spec hi1 (by rw [hmax1']; exact hblt)] at h
      simp only at h
      -- the set without the splitter's own block
      obtain ⟨set2, hset2, hi2, hlive2⟩ : ∃ set2,
          (if decide (s.block ∈ FastSet.live set1) = true then set1.remove s.block else some set1)
            = some set2 ∧ FastSet.Inv set2 ∧
          ∀ z, z ∈ FastSet.live set2 ↔ z ∈ FastSet.live set1 ∧ z ≠ s.block := by
        by_cases hself : s.block ∈ FastSet.live set1
        · obtain ⟨set2, e, hi, _, hmem, _⟩ := FastSet.remove_spec hi1 (x := s.block)
            (by rw [hmax1']; exact hblt)
          exact ⟨set2, by simp [hself, e], hi, hmem⟩
        · refine ⟨set1, by simp [hself], hi1, ?_⟩
          intro z
          constructor
          · intro hz; exact ⟨hz, fun e => hself (e ▸ hz)⟩
          · intro hz; exact hz.1
      rw [hset2] at h
      simp only at h
      rw [(FastSet.iter_spec hi2).1] at h
      simp only at h
      split at h
      · cases h
      · rename_i m1 hcands
        -- the invariant of the candidate loop
        have hJ0 : ∀ x y, x < n → y < n → blk m.mainPartition x = blk m.mainPartition y →
            (blk m.mainPartition (dd δ x s.char) = s.block ↔ blk m.mainPartition (dd δ y s.char) = s.block) ∨
            blk m.mainPartition x ∈ FastSet.live set2 ∨
            (s.block ∈ FastSet.live set1 ∧ blk m.mainPartition x = s.block) := by
          intro x y hx hy e
          by_cases h1 : blk m.mainPartition x ∈ FastSet.live set2
          · exact .inr (.inl h1)
          · by_cases h2 : s.block ∈ FastSet.live set1 ∧ blk m.mainPartition x = s.block
            · exact .inr (.inr h2)
            · left
              -- the block of x is not a candidate: it is a singleton or no member goes to the splitter
              have key : ∀ z, z < n → blk m.mainPartition z = blk m.mainPartition x →
                  blk m.mainPartition (dd δ z s.char) = s.block → x = y := by
                intro z hz hzx hgo
                obtain ⟨sz, hsz, hbig⟩ := hcand z ((hxs_mem z).2 ⟨hz, hgo⟩)
                rw [hzx] at hsz hbig
                have hsmall : sz ≤ 1 := by
                  by_contra hgt
                  have hin := hbig (by omega)
                  by_cases hxb : blk m.mainPartition x = s.block
                  · exact h2 ⟨hxb ▸ hin, hxb⟩
                  · exact h1 ((hlive2 _).2 ⟨hin, hxb⟩)
                exact mem_unique_of_size_le_one inv.wf.base hsz hsmall (mem_blk inv.wf hx)
                  (by rw [e]; exact mem_blk inv.wf hy)
              constructor
              · intro hgo
                have := key x hx rfl hgo
                subst this; exact hgo
              · intro hgo
                have := key y hy e.symm hgo
                subst this; exact hgo
        obtain ⟨inv1, hblt1, hS01, hJ1⟩ := refineCandidates_inv hcl hsk
          (fun z => blk m.mainPartition z = s.block) (s.block ∈ FastSet.live set1)
          (FastSet.live set2) m m1 hcands inv (fun hm => ((hlive2 _).1 hm).2 rfl) hblt
          (fun z _ => Iff.rfl) hJ0
        -- conclude: every block is uniform w.r.t. the splitter
        have finish : ∀ m2 : Minimizer, Inv δ isFinal n k (Es δ m.mainPartition s) m2 →
            (∀ x y, x < n → y < n → blk m2.mainPartition x = blk m2.mainPartition y →
              (blk m.mainPartition (dd δ x s.char) = s.block ↔
                blk m.mainPartition (dd δ y s.char) = s.block)) →
            Inv δ isFinal n k (fun _ _ _ => False) m2 := by
          intro m2 inv2 hq
          exact inv2.mono (fun x y c hx hy hb hE => hE.2 (hq x y hx hy hb))
        by_cases hself : s.block ∈ FastSet.live set1
        · simp only [hself, decide_true, if_true] at h
          obtain ⟨inv2, hfiner, hunif, _, _⟩ := refineBlockWithSplitter_inv hcl inv1 hsk h
          apply finish m' inv2
          intro x y hx hy e
          have e1 := hfiner x y hx hy e
          rcases hJ1 x y hx hy e1 with a | ⟨_, a⟩
          · exact a
          · have := hunif x y hx hy e a
            rw [hS01 _ (hcl.eq hx hsk).2, hS01 _ (hcl.eq hy hsk).2] at this
            exact this
        · simp only [hself, decide_false, Bool.false_eq_true, if_false, Option.some.injEq] at h
          subst h
          apply finish m1 inv1
          intro x y hx hy e
          rcases hJ1 x y hx hy e with a | ⟨a, _⟩
          · exact a
          · exact absurd a hself

/-! ### the loop of `refine` -/

/-- the successors of a block on a letter lie in one block -/
def Stable (δ : Nat → Nat → Option Nat) (n k : Nat) (P : Partition) : Prop :=
  ∀ x y, x < n → y < n → blk P x = blk P y → ∀ c, c < k → blk P (dd δ x c) = blk P (dd δ y c)

/-- pigeonhole: `n` states in at least `n` non-empty blocks: every block is a singleton -/
theorem discrete_of_blocks {P : Partition} (hP : PartWF P n) (hnb : n ≤ P.numBlocks - 1) :
    ∀ x y, x < n → y < n → blk P x = blk P y → x = y := by
  classical
  have hne : ∀ t, t + 1 < P.base.numBlocks → ∃ x, Mem P.base (t + 1) x :=
    fun t ht => hP.base.nonempty (t + 1) (by omega) ht
  let r : Nat → Nat := fun t => if h : t + 1 < P.base.numBlocks then Classical.choose (hne t h) else 0
  have hr : ∀ t, t + 1 < P.base.numBlocks → Mem P.base (t + 1) (r t) := by
    intro t ht
    simp only [r, dif_pos ht]
    exact Classical.choose_spec (hne t ht)
  let reps := (List.range (P.base.numBlocks - 1)).map r
  have hnd : reps.Nodup := by
    apply List.Nodup.map_on _ List.nodup_range
    intro t1 h1 t2 h2 e
    have m1 := hr t1 (by have := List.mem_range.1 h1; omega)
    have m2 := hr t2 (by have := List.mem_range.1 h2; omega)
    rw [e] at m1
    have := hP.base.disj _ _ _ m1 m2
    omega
  have hsub : reps ⊆ List.range n := by
    intro z hz
    obtain ⟨t, ht, rfl⟩ := List.mem_map.1 hz
    exact List.mem_range.2 (hP.base.bound _ _ (hr t (by have := List.mem_range.1 ht; omega)))
  have hperm := (List.subperm_of_subset hnd hsub).perm_of_length_le (by
    simp only [reps, List.length_map, List.length_range]
    exact hnb)
  have hall : ∀ z, z < n → ∃ t, t + 1 < P.base.numBlocks ∧ r t = z := by
    intro z hz
    have : z ∈ reps := hperm.mem_iff.2 (List.mem_range.2 hz)
    obtain ⟨t, ht, e⟩ := List.mem_map.1 this
    exact ⟨t, by have := List.mem_range.1 ht; omega, e⟩
  intro x y hx hy e
  obtain ⟨t1, h1, e1⟩ := hall x hx
  obtain ⟨t2, h2, e2⟩ := hall y hy
  have m1 := hr t1 h1
  have m2 := hr t2 h2
  rw [e1] at m1
  rw [e2] at m2
  have b1 := hP.base.disj _ _ _ m1 (mem_blk hP hx)
  have b2 := hP.base.disj _ _ _ m2 (mem_blk hP hy)
  have : t1 = t2 := by omega
  rw [← e1, ← e2, this]

theorem refineLoop_inv (hcl : Closed δ n k) :
    ∀ (fuel : Nat) (m m' : Minimizer), refineLoop δ fuel m = some m' →
      Inv δ isFinal n k (fun _ _ _ => False) m →
      Inv δ isFinal n k (fun _ _ _ => False) m' ∧ Stable δ n k m'.mainPartition := by
  intro fuel
  induction fuel with
  | zero => intro m m' h; cases h
  | succ fuel ih =>
    intro m m' h inv
    unfold refineLoop at h
    split at h
    · cases h
    · rename_i idx hidx
      split at h
      · split at h
        · cases h
        · -- no active splitter
          rename_i m1 hpick
          simp only [Option.some.injEq] at h
          subst h
          obtain ⟨_, inv1, hno⟩ := pick_inv inv hpick
          refine ⟨inv1, ?_⟩
          intro x y hx hy e c hc
          by_contra hne
          rcases inv1.hop x y hx hy e c hc hne with a | a | a
          · exact hno _ _ a
          · exact hno _ _ a
          · exact a
        · rename_i s m1 hpick
          split at h
          · cases h
          · rename_i m2 hstep
            obtain ⟨hmain, inv1, hs⟩ := pick_inv inv hpick
            rw [← hmain] at inv1
            exact ih m2 m' h (refineWithSplitter_inv hcl inv1 hs hstep)
      · -- the partition is discrete
        rename_i hge
        simp only [Option.some.injEq] at h
        subst h
        refine ⟨inv, ?_⟩
        have hnb : n ≤ m.mainPartition.numBlocks - 1 := by
          unfold Partition.index BasePartition.index at hidx
          split at hidx
          · cases hidx
          · simp only [Option.some.injEq] at hidx
            rw [inv.ns] at hge
            show n ≤ m.mainPartition.base.numBlocks - 1
            omega
        intro x y hx hy e c _
        rw [discrete_of_blocks inv.wf hnb x y hx hy e]

/-! ### `Minimizer::new` -/

theorem Corr.congr_B (hcl : Closed δ n k) {B B' : Nat → Nat} {pc : List BasePartition} {ss : SplitterSet}
    (h : Corr δ n k B pc ss) (hB : ∀ z, z < n → B' z = B z) : Corr δ n k B' pc ss := by
  refine ⟨h.lwf, h.pc_len, h.pc_wf, ?_, ?_, h.f3⟩
  · intro b it hit
    have hok := h.f1 b it hit
    refine ⟨hok.char_lt, hok.cls_ne, ?_⟩
    obtain ⟨p, hp, hlt, hM⟩ := hok.pred
    refine ⟨p, hp, hlt, fun x => ?_⟩
    rw [hM x]
    constructor
    · rintro ⟨hx, e⟩; exact ⟨hx, by rw [hB _ (hcl.eq hx hok.char_lt).2]; exact e⟩
    · rintro ⟨hx, e⟩; exact ⟨hx, by rw [← hB _ (hcl.eq hx hok.char_lt).2]; exact e⟩
  · intro x c hx hc
    obtain ⟨it, hit, hitc⟩ := h.f2 x c hx hc
    exact ⟨it, by rw [hB _ (hcl.eq hx hc).2]; exact hit, hitc⟩

theorem newLoop_spec : ∀ (cs : List Nat) (ss ss' : SplitterSet), LWF ss → newLoop cs ss = some ss' →
    LWF ss' ∧ (∀ b, b ≠ 1 → itemsAt ss' b = itemsAt ss b) ∧
    (itemsAt ss' 1).Perm (itemsAt ss 1 ++ cs.map (fun c => (⟨c, 1, false⟩ : SplitterItem))) := by
  intro cs
  induction cs with
  | nil =>
    intro ss ss' hl h
    simp only [newLoop, Option.some.injEq] at h
    subst h
    exact ⟨hl, fun _ _ => rfl, by simp⟩
  | cons c rest ih =>
    intro ss ss' hl h
    unfold newLoop at h
    obtain ⟨ss1, e, hl1, ho, hp⟩ := addSplitter_spec hl { block := 1, char := c, cls := 1, active := false }
    rw [e] at h
    simp only at h
    obtain ⟨hl', ho', hp'⟩ := ih ss1 ss' hl1 h
    refine ⟨hl', fun b hb => by rw [ho' b hb, ho b hb], ?_⟩
    refine hp'.trans ?_
    rw [List.map_cons, ← List.singleton_append (l := List.map _ rest), ← List.append_assoc]
    exact List.Perm.append_right _ hp

theorem new_inv (hcl : Closed δ n k) {m : Minimizer} (h : Hopcroft.new δ isFinal n k = some m) :
    Inv δ isFinal n k (fun _ _ _ => False) m := by
  unfold Hopcroft.new at h
  simp only at h
  split at h
  · cases h
  · rename_i ss hss
    unfold initMainPartition at h
    simp only at h
    split at h
    · cases h
    · rename_i hnb2
      -- n > 0
      have hn : 0 < n := by
        rcases Nat.eq_zero_or_pos n with rfl | hn
        · exfalso; apply hnb2; decide
        · exact hn
      have hP := new_partWF hn
      have hB1 : ∀ z, z < n → blk (Partition.new n) z = 1 := by
        intro z hz
        rw [blk_spec hP hz]
        exact (new_mem hn 1 z).2 ⟨rfl, hz⟩
      -- the splitter lists
      have hl0 : LWF SplitterSet.new := by
        intro b l hb; simp [SplitterSet.new] at hb
      obtain ⟨hl, hoth, hone⟩ := newLoop_spec _ _ _ hl0 hss
      have hempty : ∀ b, itemsAt SplitterSet.new b = [] := by
        intro b; simp [itemsAt, itemsOf, SplitterSet.new]
      rw [hempty, List.nil_append] at hone
      have hmem1 : ∀ it, it ∈ itemsAt ss 1 ↔ ∃ c, c < k ∧ it = ⟨c, 1, false⟩ := by
        intro it
        rw [hone.mem_iff, List.mem_map]
        constructor
        · rintro ⟨c, hc, rfl⟩; exact ⟨c, List.mem_range.1 hc, rfl⟩
        · rintro ⟨c, hc, rfl⟩; exact ⟨c, List.mem_range.2 hc, rfl⟩
      have hcorr0 : Corr δ n k (blk (Partition.new n))
          (List.replicate k (BasePartition.new n)) ss := by
        refine ⟨hl, by simp, ?_, ?_, ?_, ?_⟩
        · intro c p hp
          rw [List.getElem?_replicate] at hp
          split at hp
          · cases hp; exact new_pwf hn
          · cases hp
        · intro b it hit
          by_cases hb : b = 1
          · subst hb
            obtain ⟨c, hc, rfl⟩ := (hmem1 it).1 hit
            refine ⟨hc, by simp, BasePartition.new n, by simp [hc],
              by rw [new_numBlocks hn]; simp, ?_⟩
            intro x
            simp only
            rw [new_mem hn]
            constructor
            · rintro ⟨_, hx⟩; exact ⟨hx, hB1 _ (hcl.eq hx hc).2⟩
            · rintro ⟨hx, _⟩; exact ⟨rfl, hx⟩
          · rw [hoth b hb, hempty] at hit; cases hit
        · intro x c hx hc
          rw [hB1 _ (hcl.eq hx hc).2]
          exact ⟨⟨c, 1, false⟩, (hmem1 _).2 ⟨c, hc, rfl⟩, rfl⟩
        · intro b
          by_cases hb : b = 1
          · subst hb
            rw [(hone.map _).nodup_iff, List.map_map]
            have : ((fun it : SplitterItem => it.char) ∘ fun c => (⟨c, 1, false⟩ : SplitterItem)) = id := rfl
            rw [this, List.map_id]
            exact List.nodup_range
          · rw [hoth b hb, hempty]; simp
      split at h
      · cases h
      · rename_i Q i j href
        obtain ⟨_, hQ, hcases⟩ := refineP_spec hP _ href
        have hcases' : SplitCases (Partition.new n).base 1 (ff isFinal) Q.base (i, j) := hcases
        have hrel := refine_blk hP hQ hcases'
        by_cases hsplit : i ≠ 0 ∧ j ≠ 0
        · rw [if_pos hsplit] at h
          split at h
          · cases h
          · rename_i h12
            have h12' : i = 1 ∧ j = 2 := by simpa using h12
            obtain ⟨rfl, rfl⟩ := h12'
            rcases hrel with ⟨hz, _⟩ | ⟨_, _, _, _, hrel'⟩
            · simp only at hz; omega
            · have hnbP : (Partition.new n).numBlocks = 2 := new_numBlocks hn
              rw [hnbP] at hrel'
              have hBo : ∀ x, x < n → blk (Partition.new n) x = if blk Q x = 2 then 1 else blk Q x := by
                intro x hx
                obtain ⟨_, r2, r3⟩ := hrel' x hx
                rw [hB1 x hx]
                cases hpx : ff isFinal x with
                | true => rw [r2 (hB1 x hx) hpx]; simp
                | false => rw [r3 (hB1 x hx) hpx]; simp
              have hQf : ∀ x, x < n → blk Q x = if ff isFinal x then 1 else 2 := by
                intro x hx
                obtain ⟨_, r2, r3⟩ := hrel' x hx
                cases hpx : ff isFinal x with
                | true => rw [r2 (hB1 x hx) hpx]; simp
                | false => rw [r3 (hB1 x hx) hpx]; simp
              have hfin : ∀ x y, x < n → y < n → blk Q x = blk Q y → ff isFinal x = ff isFinal y := by
                intro x y hx hy e
                rw [hQf x hx, hQf y hy] at e
                cases h1 : ff isFinal x <;> cases h2 : ff isFinal y <;> simp [h1, h2] at e ⊢
              have hsep : ∀ x y, x < n → y < n → Indist δ isFinal k x y → blk Q x = blk Q y := by
                intro x y hx hy e
                have := e [] (by simp)
                simp only [List.foldl_nil] at this
                rw [hQf x hx, hQf y hy, this]
              exact (inv_after_split hcl (E := fun _ _ _ => False)
                (m := { numStates := n, alphabetSize := k, mainPartition := Partition.new n,
                        predClasses := List.replicate k (BasePartition.new n), splitters := ss })
                rfl rfl hcorr0 (by
                  intro x y hx hy _ c hc hne
                  exact absurd (by rw [hB1 _ (hcl.eq hx hc).2, hB1 _ (hcl.eq hy hc).2]) hne)
                hQ (by decide) hBo hfin hsep h).1
        · rw [if_neg hsplit] at h
          simp only [Option.some.injEq] at h
          subst h
          rcases hrel with ⟨hz, hblk, _, hallf, hallt⟩ | ⟨hr, _, _, _, _⟩
          · have hBQ : ∀ z, z < n → blk Q z = 1 := fun z hz' => by rw [hblk z hz', hB1 z hz']
            refine ⟨rfl, rfl, hQ, ?_, ?_, hcorr0.congr_B hcl (fun z hz' => by rw [hBQ z hz', hB1 z hz']), ?_⟩
            · intro x y hx hy _
              rcases hz with hz | hz
              · rw [hallf hz x hx (hB1 x hx), hallf hz y hy (hB1 y hy)]
              · rw [hallt hz x hx (hB1 x hx), hallt hz y hy (hB1 y hy)]
            · intro x y hx hy _
              show blk Q x = blk Q y
              rw [hBQ x hx, hBQ y hy]
            · intro x y hx hy _ c hc hne
              exfalso
              apply hne
              show blk Q _ = blk Q _
              rw [hBQ _ (hcl.eq hx hc).2, hBQ _ (hcl.eq hy hc).2]
          · simp only [Prod.mk.injEq] at hr
            exfalso
            apply hsplit
            rw [hr.1, hr.2]
            have : (Partition.new n).numBlocks = 2 := new_numBlocks hn
            rw [this]
            decide

/-- `Minimizer::new(n, k, delta, is_final).refine()` -/
theorem run_spec (hcl : Closed δ n k) {P : Partition} (h : Hopcroft.run δ isFinal n k = some P) :
    PartWF P n ∧
    (∀ x y, x < n → y < n → blk P x = blk P y → ff isFinal x = ff isFinal y) ∧
    (∀ x y, x < n → y < n → Indist δ isFinal k x y → blk P x = blk P y) ∧
    Stable δ n k P := by
  unfold Hopcroft.run at h
  split at h
  · cases h
  · rename_i m hnew
    cases href : refine δ m with
    | none => rw [href] at h; cases h
    | some m' =>
      rw [href] at h
      simp only [Option.map_some, Option.some.injEq] at h
      subst h
      obtain ⟨inv', hst⟩ := refineLoop_inv hcl _ m m' href (new_inv hcl hnew)
      exact ⟨inv'.wf, inv'.fin, inv'.coarse, hst⟩

/-- in a stable partition with blocks uniform in finality, states of one block are
    indistinguishable -/
theorem indist_of_stable (hcl : Closed δ n k) {P : Partition}
    (hfin : ∀ x y, x < n → y < n → blk P x = blk P y → ff isFinal x = ff isFinal y)
    (hst : Stable δ n k P) :
    ∀ x y, x < n → y < n → blk P x = blk P y → Indist δ isFinal k x y := by
  intro x y hx hy e w
  induction w generalizing x y with
  | nil => intro _; exact hfin x y hx hy e
  | cons c w ih =>
    intro hw
    have hc : c < k := hw c (List.mem_cons_self ..)
    simp only [List.foldl_cons]
    exact ih _ _ (hcl.eq hx hc).2 (hcl.eq hy hc).2 (hst x y hx hy e c hc)
      (fun c' hc' => hw c' (List.mem_cons_of_mem _ hc'))

end
end Hopcroft
end Smt
