/-
  Hypothesis-free versions of the theorems of Proofs/ReSetOps.lean:
    * the bundle `CoreFacts` is instantiated with the theorems of Proofs/ReLangCore.lean,
    * `SubSound` (soundness of `subLanguage`) with `Smt.C16.subSound` of Props/C16.lean
      (whose own two hypotheses `CoreFacts16` are again theorems of Proofs/ReLangCore.lean).

  Everything is stated for EVERY id assignment `ord` with `PairSound ord` (no injectivity, no
  sortedness) and all well-formed operands.  Names: `Smt.RE.Final.*`.
-/
import SmtModel.Proofs.ReSetOps
import SmtModel.Proofs.ReLangCore
import SmtModel.Props.C16

namespace Smt
namespace RE

/-- the id-independent facts, all proved in Proofs/ReLangCore.lean -/
theorem coreFacts : CoreFacts where
  lang_sub := lang_sub_allStrings
  nullable_iff := nullable_iff
  complement_lang := complement_lang
  complement_wf := complement_wf
  flattenUnion_lang := flattenUnion_lang
  flattenUnion_wf := flattenUnion_wf
  flattenInter_lang := flattenInter_lang
  flattenInter_wf := flattenInter_wf

/-- soundness of the inclusion test, proved in Props/C16.lean -/
theorem subSound : SubSound := C16.subSound ⟨lang_sub_allStrings, nullable_iff⟩

namespace Final

variable {ord : RE → Nat}

/-! ### simplify_set_operation -/

theorem simplifySetOperation_inter_lang (hp : PairSound ord) (v : List RE) (hv : WFList v) :
    ({w | WFs w ∧ w ∈ langAll (simplifySetOperation ord v sigmaStar .empty)} : Language ℕ)
      = {w | WFs w ∧ w ∈ langAll v} :=
  RE.simplifySetOperation_inter_lang coreFacts hp v hv

theorem simplifySetOperation_union_lang (hp : PairSound ord) (v : List RE) (hv : WFList v) :
    langAny (simplifySetOperation ord v .empty sigmaStar) = langAny v :=
  RE.simplifySetOperation_union_lang coreFacts hp v hv

/-! ### make_inter, inter, inter_list, diff, diff_list: no hypothesis left -/

theorem makeInter_lang (hp : PairSound ord) (v : List RE) (hv : WFList v) :
    (makeInter ord v).lang = {w | WFs w ∧ w ∈ langAll v} :=
  RE.makeInter_lang coreFacts hp v hv

theorem mkInter_lang (hp : PairSound ord) (a b : RE) (ha : a.WF) (hb : b.WF) :
    (mkInter ord a b).lang = a.lang ⊓ b.lang :=
  RE.mkInter_lang coreFacts hp a b ha hb

theorem mkInter_wf (ord : RE → Nat) (a b : RE) (ha : a.WF) (hb : b.WF) : (mkInter ord a b).WF :=
  RE.mkInter_wf coreFacts ord a b ha hb

theorem mkInterList_lang (hp : PairSound ord) (l : List RE) (hl : WFList l) :
    (mkInterList ord l).lang = {w | WFs w ∧ w ∈ langAll l} :=
  RE.mkInterList_lang coreFacts hp l hl

theorem mkInterList_wf (ord : RE → Nat) (l : List RE) (hl : WFList l) : (mkInterList ord l).WF :=
  RE.mkInterList_wf coreFacts ord l hl

theorem mkDiff_lang (hp : PairSound ord) (a b : RE) (ha : a.WF) (hb : b.WF) :
    (mkDiff ord a b).lang = a.lang \ b.lang :=
  RE.mkDiff_lang coreFacts hp a b ha hb

theorem mkDiff_wf (ord : RE → Nat) (a b : RE) (ha : a.WF) (hb : b.WF) : (mkDiff ord a b).WF :=
  RE.mkDiff_wf coreFacts ord a b ha hb

theorem mkDiffList_lang (hp : PairSound ord) (a : RE) (l : List RE) (ha : a.WF) (hl : WFList l) :
    (mkDiffList ord a l).lang = {w | w ∈ a.lang ∧ ∀ r ∈ l, w ∉ r.lang} :=
  RE.mkDiffList_lang coreFacts hp a l ha hl

theorem mkDiffList_wf (ord : RE → Nat) (a : RE) (l : List RE) (ha : a.WF) (hl : WFList l) :
    (mkDiffList ord a l).WF :=
  RE.mkDiffList_wf coreFacts ord a l ha hl

/-! ### make_union (with remove_subsumed), union, union_list -/

theorem removeSubsumed_lang (a : List RE) (ha : WFList a) :
    langAny (removeSubsumed a) = langAny a :=
  RE.removeSubsumed_lang subSound a ha

theorem makeUnion_lang (hp : PairSound ord) (v : List RE) (hv : WFList v) :
    (makeUnion ord v).lang = langAny v :=
  RE.makeUnion_lang coreFacts subSound hp v hv

theorem mkUnion_lang (hp : PairSound ord) (a b : RE) (ha : a.WF) (hb : b.WF) :
    (mkUnion ord a b).lang = a.lang + b.lang :=
  RE.mkUnion_lang coreFacts subSound hp a b ha hb

theorem mkUnion_wf (ord : RE → Nat) (a b : RE) (ha : a.WF) (hb : b.WF) : (mkUnion ord a b).WF :=
  RE.mkUnion_wf coreFacts ord a b ha hb

theorem mkUnionList_lang (hp : PairSound ord) (l : List RE) (hl : WFList l) :
    (mkUnionList ord l).lang = langAny l :=
  RE.mkUnionList_lang coreFacts subSound hp l hl

theorem mkUnionList_wf (ord : RE → Nat) (l : List RE) (hl : WFList l) : (mkUnionList ord l).WF :=
  RE.mkUnionList_wf coreFacts ord l hl

/-! ### history independence (C07 `language_history_independent`) -/

theorem mkInter_lang_history_independent {ord₁ ord₂ : RE → Nat}
    (h₁ : PairSound ord₁) (h₂ : PairSound ord₂) (a b : RE) (ha : a.WF) (hb : b.WF) :
    (mkInter ord₁ a b).lang = (mkInter ord₂ a b).lang :=
  RE.mkInter_lang_history_independent coreFacts h₁ h₂ a b ha hb

theorem mkInterList_lang_history_independent {ord₁ ord₂ : RE → Nat}
    (h₁ : PairSound ord₁) (h₂ : PairSound ord₂) (l : List RE) (hl : WFList l) :
    (mkInterList ord₁ l).lang = (mkInterList ord₂ l).lang :=
  RE.mkInterList_lang_history_independent coreFacts h₁ h₂ l hl

theorem mkDiff_lang_history_independent {ord₁ ord₂ : RE → Nat}
    (h₁ : PairSound ord₁) (h₂ : PairSound ord₂) (a b : RE) (ha : a.WF) (hb : b.WF) :
    (mkDiff ord₁ a b).lang = (mkDiff ord₂ a b).lang :=
  RE.mkDiff_lang_history_independent coreFacts h₁ h₂ a b ha hb

theorem mkDiffList_lang_history_independent {ord₁ ord₂ : RE → Nat}
    (h₁ : PairSound ord₁) (h₂ : PairSound ord₂) (a : RE) (l : List RE) (ha : a.WF)
    (hl : WFList l) : (mkDiffList ord₁ a l).lang = (mkDiffList ord₂ a l).lang :=
  RE.mkDiffList_lang_history_independent coreFacts h₁ h₂ a l ha hl

theorem mkUnion_lang_history_independent {ord₁ ord₂ : RE → Nat}
    (h₁ : PairSound ord₁) (h₂ : PairSound ord₂) (a b : RE) (ha : a.WF) (hb : b.WF) :
    (mkUnion ord₁ a b).lang = (mkUnion ord₂ a b).lang :=
  RE.mkUnion_lang_history_independent coreFacts subSound h₁ h₂ a b ha hb

theorem mkUnionList_lang_history_independent {ord₁ ord₂ : RE → Nat}
    (h₁ : PairSound ord₁) (h₂ : PairSound ord₂) (l : List RE) (hl : WFList l) :
    (mkUnionList ord₁ l).lang = (mkUnionList ord₂ l).lang :=
  RE.mkUnionList_lang_history_independent coreFacts subSound h₁ h₂ l hl

end Final

/-! ### non-vacuity: a concrete id assignment satisfying `PairSound`, and the constructors on it

  `ordEx` gives ids 0/1 to `a`/`¬a` and 2/3 to `b`/`¬b` (everything else gets distinct odd-free
  ids ≥ 10 that never satisfy the adjacency test). -/

section Example

private def exA : RE := .range (CharSet.range 97 99)
private def exB : RE := .range (CharSet.range 98 120)

private def ordEx (e : RE) : Nat :=
  if e = exA then 0 else if e = exA.complement then 1
  else if e = exB then 2 else if e = exB.complement then 3 else 11

private theorem ordEx_cases (x : RE) :
    (x = exA ∧ ordEx x = 0) ∨ (x = exA.complement ∧ ordEx x = 1) ∨ (x = exB ∧ ordEx x = 2) ∨
      (x = exB.complement ∧ ordEx x = 3) ∨ ordEx x = 11 := by
  unfold ordEx
  by_cases h1 : x = exA
  · exact Or.inl ⟨h1, if_pos h1⟩
  · rw [if_neg h1]
    by_cases h2 : x = exA.complement
    · exact Or.inr (Or.inl ⟨h2, if_pos h2⟩)
    · rw [if_neg h2]
      by_cases h3 : x = exB
      · exact Or.inr (Or.inr (Or.inl ⟨h3, if_pos h3⟩))
      · rw [if_neg h3]
        by_cases h4 : x = exB.complement
        · exact Or.inr (Or.inr (Or.inr (Or.inl ⟨h4, if_pos h4⟩)))
        · rw [if_neg h4]
          exact Or.inr (Or.inr (Or.inr (Or.inr rfl)))

private theorem ordEx_pairSound : PairSound ordEx := by
  intro x y hxy hx
  rcases ordEx_cases x with ⟨hx1, hx2⟩ | ⟨hx1, hx2⟩ | ⟨hx1, hx2⟩ | ⟨hx1, hx2⟩ | hx2 <;>
  rcases ordEx_cases y with ⟨hy1, hy2⟩ | ⟨hy1, hy2⟩ | ⟨hy1, hy2⟩ | ⟨hy1, hy2⟩ | hy2 <;>
  first
  | omega
  | rw [hx1, hy1]

private theorem exA_wf : exA.WF := by simp only [exA, WF]; decide
private theorem exB_wf : exB.WF := by simp only [exB, WF]; decide

example : (mkInter ordEx exA exB).lang = exA.lang ⊓ exB.lang :=
  Final.mkInter_lang ordEx_pairSound exA exB exA_wf exB_wf

example : (mkUnion ordEx exA exB).lang = exA.lang + exB.lang :=
  Final.mkUnion_lang ordEx_pairSound exA exB exA_wf exB_wf

example : (mkDiff ordEx exA exB).lang = exA.lang \ exB.lang :=
  Final.mkDiff_lang ordEx_pairSound exA exB exA_wf exB_wf

/-- the complement-pair shortcut fires on this `ord` -/
example : mkInter ordEx exA exA.complement = .empty := by decide

example : mkUnion ordEx exA exA.complement = sigmaStar := by decide

/-- a maximally non-injective id assignment is covered too (no injectivity, no sortedness):
    duplicates and `Σ*`/`∅` operands may survive, the language is the same -/
example : PairSound (fun _ => 1) := by intro x y _ h; cases h

example : (mkUnion (fun _ => 1) exA exB).lang = (mkUnion ordEx exA exB).lang :=
  Final.mkUnion_lang_history_independent (by intro x y _ h; cases h) ordEx_pairSound
    exA exB exA_wf exB_wf

example : (mkInter (fun _ => 1) exA exB).lang = (mkInter ordEx exA exB).lang :=
  Final.mkInter_lang_history_independent (by intro x y _ h; cases h) ordEx_pairSound
    exA exB exA_wf exB_wf

end Example

end RE
end Smt
