/-
  C04, Hopcroft layer 1: the splitter lists of `minimizer.rs` (Model/Hopcroft.lean) read as
  multisets of items `(char, class, active)` per block.

  * `SplitterList.items_eq`     `iter()` = the first `num_active` pairs flagged active, the others not
  * `SplitterList.add_spec`     `add` never panics on a list with `num_active ≤ len`; the items
                                afterwards are a permutation of the old ones plus the new one (the
                                `swap` keeps every old flag)
  * `SplitterList.pickActive_spec`   `pick_active` flips exactly one active item to inactive
  * `itemsAt ss b`, `LWF ss`    items of block `b` (`[]` if the block has no slot)
  * `takeList_spec`, `addSplitter_spec`, `pickSplitter_spec`   the `SplitterSet` operations on `itemsAt`
-/
import SmtModel.Model.Hopcroft
import Mathlib.Data.List.Perm.Basic

namespace Smt
namespace Hopcroft

namespace SplitterList

def mk1 (a : Bool) (p : CharClassPair) : SplitterItem := ⟨p.char, p.cls, a⟩

theorem itemsFrom_eq (na : Nat) : ∀ (l : List CharClassPair) (i : Nat),
    itemsFrom na i l = (l.take (na - i)).map (mk1 true) ++ (l.drop (na - i)).map (mk1 false) := by
  intro l
  induction l with
  | nil => intro i; simp [itemsFrom]
  | cons p rest ih =>
    intro i
    rw [itemsFrom, ih (i + 1)]
    by_cases h : i < na
    · have e : na - i = (na - (i + 1)) + 1 := by omega
      rw [e, List.take_succ_cons, List.drop_succ_cons]
      simp [mk1, h]
    · have e : na - i = 0 := by omega
      have e' : na - (i + 1) = 0 := by omega
      rw [e, e']
      simp [mk1, h]

theorem items_eq (l : SplitterList) :
    l.items = (l.list.take l.numActive).map (mk1 true) ++ (l.list.drop l.numActive).map (mk1 false) := by
  unfold items
  rw [itemsFrom_eq]
  simp

@[simp] theorem default_items : SplitterList.default.items = [] := rfl

theorem swap_mid (A I : List CharClassPair) (y p : CharClassPair) :
    swap (A ++ y :: I ++ [p]) A.length (A.length + 1 + I.length) = some (A ++ p :: I ++ [y]) := by
  have hk : (A ++ y :: I ++ [p])[A.length]? = some y := by
    rw [List.append_assoc, List.getElem?_append_right (Nat.le_refl _)]
    simp
  have hj : (A ++ y :: I ++ [p])[A.length + 1 + I.length]? = some p := by
    rw [List.getElem?_append_right (by rw [List.length_append, List.length_cons]; omega)]
    rw [List.length_append, List.length_cons]
    have : A.length + 1 + I.length - (A.length + (I.length + 1)) = 0 := by omega
    rw [this]; rfl
  unfold swap
  rw [hk, hj]
  simp only [Option.some.injEq]
  apply List.ext_getElem?
  intro m
  simp only [List.getElem?_set, List.length_set, List.length_append, List.length_cons, List.length_nil]
  by_cases h1 : m < A.length
  · have a1 : ¬ (A.length + 1 + I.length = m) := by omega
    have a2 : ¬ (A.length = m) := by omega
    rw [if_neg a1, if_neg a2]
    rw [List.append_assoc, List.append_assoc, List.getElem?_append_left h1, List.getElem?_append_left h1]
  · by_cases h2 : m = A.length
    · subst h2
      have a1 : ¬ (A.length + 1 + I.length = A.length) := by omega
      rw [if_neg a1, if_pos rfl, if_pos (by omega)]
      rw [List.append_assoc, List.getElem?_append_right (Nat.le_refl _)]
      simp
    · by_cases h3 : m = A.length + 1 + I.length
      · subst h3
        rw [if_pos rfl, if_pos (by omega)]
        rw [List.getElem?_append_right (by rw [List.length_append, List.length_cons]; omega)]
        rw [List.length_append, List.length_cons]
        have : A.length + 1 + I.length - (A.length + (I.length + 1)) = 0 := by omega
        rw [this]; rfl
      · rw [if_neg (fun e => h3 e.symm), if_neg (fun e => h2 e.symm)]
        simp only [List.append_assoc, List.cons_append]
        rw [List.getElem?_append_right (by omega), List.getElem?_append_right (by omega)]
        obtain ⟨q, hq⟩ : ∃ q, m - A.length = q + 1 := ⟨m - A.length - 1, by omega⟩
        rw [hq, List.getElem?_cons_succ, List.getElem?_cons_succ]
        by_cases h4 : q < I.length
        · rw [List.getElem?_append_left h4, List.getElem?_append_left h4]
        · have h5 : I.length < q := by omega
          rw [List.getElem?_eq_none (by simp; omega), List.getElem?_eq_none (by simp; omega)]

theorem add_spec {l : SplitterList} (hl : l.numActive ≤ l.list.length) (s : SplitterItem) :
    ∃ l', l.add s = some l' ∧ l'.numActive ≤ l'.list.length ∧ l'.items.Perm (l.items ++ [s]) := by
  obtain ⟨c, cls, act⟩ := s
  unfold add
  simp only
  cases act with
  | false =>
    refine ⟨_, rfl, by simp; omega, ?_⟩
    rw [items_eq, items_eq]
    simp only
    rw [List.take_append_of_le_length hl, List.drop_append_of_le_length hl]
    simp [mk1]
  | true =>
    simp only [if_true]
    by_cases hlt : l.numActive < l.list.length
    · rw [if_pos hlt]
      -- split the list at `num_active`
      have hsplit : l.list = l.list.take l.numActive ++ l.list[l.numActive] :: l.list.drop (l.numActive + 1) := by
        conv => lhs; rw [← List.take_append_drop l.numActive l.list]
        rw [List.drop_eq_getElem_cons hlt]
      have hAlen : (l.list.take l.numActive).length = l.numActive := by
        rw [List.length_take]; omega
      have hIlen : (l.list.drop (l.numActive + 1)).length = l.list.length - (l.numActive + 1) := by
        simp
      have hsw := swap_mid (l.list.take l.numActive) (l.list.drop (l.numActive + 1)) l.list[l.numActive]
        ⟨c, cls⟩
      rw [← hsplit, hAlen, hIlen] at hsw
      have e : l.numActive + 1 + (l.list.length - (l.numActive + 1)) = l.list.length := by omega
      rw [e] at hsw
      rw [hsw]
      refine ⟨_, rfl, by simp; omega, ?_⟩
      rw [items_eq, items_eq]
      simp only
      have t1 : (l.list.take l.numActive ++ ⟨c, cls⟩ :: l.list.drop (l.numActive + 1) ++ [l.list[l.numActive]]).take
          (l.numActive + 1) = l.list.take l.numActive ++ [⟨c, cls⟩] := by
        rw [List.append_assoc, List.take_append, hAlen,
          List.take_of_length_le (by rw [hAlen]; omega)]
        simp
      have t2 : (l.list.take l.numActive ++ ⟨c, cls⟩ :: l.list.drop (l.numActive + 1) ++ [l.list[l.numActive]]).drop
          (l.numActive + 1) = l.list.drop (l.numActive + 1) ++ [l.list[l.numActive]] := by
        rw [List.append_assoc, List.drop_append, hAlen,
          List.drop_of_length_le (by rw [hAlen]; omega)]
        simp
      rw [t1, t2]
      conv => rhs; rw [List.drop_eq_getElem_cons hlt]
      simp only [List.map_append, List.map_cons, List.map_nil, List.append_assoc]
      apply List.Perm.append_left
      simp only [mk1]
      rw [List.perm_iff_count]
      intro a
      simp only [List.count_append, List.count_cons, List.count_nil]
      omega
    · rw [if_neg hlt]
      have he : l.numActive = l.list.length := by omega
      refine ⟨_, rfl, by simp; omega, ?_⟩
      rw [items_eq, items_eq]
      simp only
      rw [he, List.take_of_length_le (by simp), List.drop_of_length_le (by simp),
        List.take_of_length_le (Nat.le_refl _), List.drop_of_length_le (Nat.le_refl _)]
      simp [mk1]

theorem pickActive_spec {l : SplitterList} (hl : l.numActive ≤ l.list.length)
    {pair : CharClassPair} {l' : SplitterList} (h : l.pickActive = some (pair, l')) :
    l'.numActive ≤ l'.list.length ∧ l'.list = l.list ∧
    ∃ R, l.items.Perm (⟨pair.char, pair.cls, true⟩ :: R) ∧
      l'.items.Perm (⟨pair.char, pair.cls, false⟩ :: R) := by
  unfold pickActive at h
  split at h
  · cases h
  · rename_i hpos
    have hpos' : 0 < l.numActive := by omega
    simp only at h
    cases hg : l.list[l.numActive - 1]? with
    | none => rw [hg] at h; cases h
    | some pr =>
      rw [hg] at h
      simp only [Option.some.injEq, Prod.mk.injEq] at h
      obtain ⟨rfl, rfl⟩ := h
      have hlt : l.numActive - 1 < l.list.length := by omega
      have hget : l.list[l.numActive - 1] = pr := by
        rw [List.getElem?_eq_getElem hlt] at hg; exact Option.some.inj hg
      refine ⟨by simp; omega, rfl, ?_⟩
      refine ⟨(l.list.take (l.numActive - 1)).map (mk1 true) ++ (l.list.drop l.numActive).map (mk1 false),
        ?_, ?_⟩
      · rw [items_eq]
        have e : l.numActive = (l.numActive - 1) + 1 := by omega
        have t : l.list.take l.numActive = l.list.take (l.numActive - 1) ++ [pr] := by
          conv => lhs; rw [e]
          rw [List.take_add_one, hg]; rfl
        rw [t]
        simp only [List.map_append, List.map_cons, List.map_nil, List.append_assoc]
        rw [List.perm_iff_count]
        intro a
        simp only [List.count_append, List.count_cons, List.count_nil, mk1]
        omega
      · rw [items_eq]
        simp only
        have t : l.list.drop (l.numActive - 1) = pr :: l.list.drop l.numActive := by
          rw [List.drop_eq_getElem_cons hlt, hget]
          congr 2; omega
        rw [t]
        simp only [List.map_cons]
        rw [List.perm_iff_count]
        intro a
        simp only [List.count_append, List.count_cons, mk1]
        omega

/-- no active item when `num_active = 0` -/
theorem items_inactive {l : SplitterList} (h : l.numActive = 0) : ∀ it ∈ l.items, it.active = false := by
  intro it hit
  rw [items_eq, h] at hit
  simp [mk1] at hit
  obtain ⟨p, _, rfl⟩ := hit
  rfl

end SplitterList

/-! ### SplitterSet -/

/-- items of the list of block `b` (`[]` if the block has no slot) -/
def itemsOf (L : List SplitterList) (b : Nat) : List SplitterItem :=
  match L[b]? with
  | some l => l.items
  | none => []

def itemsAt (ss : SplitterSet) (b : Nat) : List SplitterItem := itemsOf ss.list b

abbrev LWFl (L : List SplitterList) : Prop :=
  ∀ (b : Nat) (l : SplitterList), L[b]? = some l → l.numActive ≤ l.list.length
abbrev LWF (ss : SplitterSet) : Prop := LWFl ss.list

theorem itemsOf_resize (L : List SplitterList) (m b : Nat) :
    itemsOf (L ++ List.replicate m SplitterList.default) b = itemsOf L b := by
  unfold itemsOf
  by_cases h : b < L.length
  · rw [List.getElem?_append_left h]
  · rw [List.getElem?_append_right (by omega), List.getElem?_eq_none (Nat.le_of_not_lt h)]
    rw [List.getElem?_replicate]
    by_cases hm : b - L.length < m
    · rw [if_pos hm]; rfl
    · rw [if_neg hm]

theorem LWFl_resize {L : List SplitterList} (h : LWFl L) (m : Nat) :
    LWFl (L ++ List.replicate m SplitterList.default) := by
  intro b l hb
  by_cases hlt : b < L.length
  · rw [List.getElem?_append_left hlt] at hb; exact h b l hb
  · rw [List.getElem?_append_right (by omega), List.getElem?_replicate] at hb
    split at hb
    · cases hb; simp [SplitterList.default]
    · cases hb

theorem itemsOf_set (L : List SplitterList) (b : Nat) (l : SplitterList) (hb : b < L.length) (b' : Nat) :
    itemsOf (L.set b l) b' = if b' = b then l.items else itemsOf L b' := by
  unfold itemsOf
  by_cases h : b' = b
  · subst h; rw [if_pos rfl]; simp [hb]
  · rw [if_neg h, List.getElem?_set_ne (fun e => h e.symm)]

theorem LWFl_set {L : List SplitterList} (h : LWFl L) (b : Nat) {l : SplitterList}
    (hl : l.numActive ≤ l.list.length) : LWFl (L.set b l) := by
  intro b' l' hb'
  rw [List.getElem?_set] at hb'
  split at hb'
  · split at hb'
    · cases hb'; exact hl
    · cases hb'
  · exact h b' l' hb'

theorem takeList_spec {ss : SplitterSet} (h : LWF ss) (b : Nat) :
    (ss.takeList b).1.items = itemsAt ss b ∧ LWF (ss.takeList b).2 ∧
      ∀ b', itemsAt (ss.takeList b).2 b' = if b' = b then [] else itemsAt ss b' := by
  unfold SplitterSet.takeList
  cases hb : ss.list[b]? with
  | none =>
    simp only
    refine ⟨by simp [itemsAt, itemsOf, hb], h, ?_⟩
    intro b'
    split
    · rename_i e; subst e; simp [itemsAt, itemsOf, hb]
    · rfl
  | some l =>
    simp only
    have hlt : b < ss.list.length := (List.getElem?_eq_some_iff.1 hb).1
    refine ⟨by simp [itemsAt, itemsOf, hb], ?_, ?_⟩
    · exact LWFl_set h b (by simp [SplitterList.default])
    · intro b'
      show itemsOf (ss.list.set b SplitterList.default) b' = _
      rw [itemsOf_set _ _ _ hlt]
      rfl

theorem addSplitter_spec {ss : SplitterSet} (h : LWF ss) (s : Splitter) :
    ∃ ss', ss.addSplitter s = some ss' ∧ LWF ss' ∧
      (∀ b', b' ≠ s.block → itemsAt ss' b' = itemsAt ss b') ∧
      (itemsAt ss' s.block).Perm (itemsAt ss s.block ++ [SplitterItem.fromSplitter s]) := by
  unfold SplitterSet.addSplitter
  simp only
  -- the resized list
  obtain ⟨L, hL, hLlen, hLwf, hLitems⟩ : ∃ L, L = (if ss.list.length ≤ s.block then
        ss.list ++ List.replicate (s.block + 1 - ss.list.length) SplitterList.default
      else ss.list) ∧ s.block < L.length ∧ LWFl L ∧ ∀ b, itemsOf L b = itemsAt ss b := by
    refine ⟨_, rfl, ?_, ?_, ?_⟩
    · split
      · simp; omega
      · omega
    · split
      · exact LWFl_resize h _
      · exact h
    · intro b
      split
      · exact itemsOf_resize _ _ _
      · rfl
  rw [← hL]
  rw [List.getElem?_eq_getElem hLlen]
  simp only
  have hlb : L[s.block].numActive ≤ L[s.block].list.length :=
    hLwf s.block _ (List.getElem?_eq_getElem hLlen)
  obtain ⟨l', hadd, hl', hperm⟩ := SplitterList.add_spec hlb (SplitterItem.fromSplitter s)
  rw [hadd]
  refine ⟨_, rfl, LWFl_set hLwf _ hl', ?_, ?_⟩
  · intro b' hne
    show itemsOf (L.set s.block l') b' = _
    rw [itemsOf_set _ _ _ hLlen, if_neg hne, hLitems]
  · show (itemsOf (L.set s.block l') s.block).Perm _
    rw [itemsOf_set _ _ _ hLlen, if_pos rfl]
    have : itemsAt ss s.block = L[s.block].items := by
      rw [← hLitems]; simp [itemsOf, List.getElem?_eq_getElem hLlen]
    rw [this]
    exact hperm

theorem firstActive_some : ∀ (L : List SplitterList) (b0 b : Nat),
    SplitterSet.firstActive L b0 = some b →
    b0 ≤ b ∧ ∃ l, L[b - b0]? = some l ∧ 0 < l.numActive := by
  intro L
  induction L with
  | nil => intro b0 b h; simp [SplitterSet.firstActive] at h
  | cons l rest ih =>
    intro b0 b h
    unfold SplitterSet.firstActive at h
    split at h
    · rename_i ha
      cases h
      exact ⟨Nat.le_refl _, l, by simp, by simpa [SplitterList.hasActiveItems] using ha⟩
    · obtain ⟨hle, l', hl', hpos⟩ := ih _ _ h
      refine ⟨by omega, l', ?_, hpos⟩
      have : b - b0 = (b - (b0 + 1)) + 1 := by omega
      rw [this, List.getElem?_cons_succ]
      exact hl'

theorem firstActive_none : ∀ (L : List SplitterList) (b0 : Nat),
    SplitterSet.firstActive L b0 = none → ∀ l ∈ L, l.numActive = 0 := by
  intro L
  induction L with
  | nil => intro _ _ l hl; cases hl
  | cons l rest ih =>
    intro b0 h
    unfold SplitterSet.firstActive at h
    split at h
    · cases h
    · rename_i ha
      intro l' hl'
      rcases List.mem_cons.1 hl' with rfl | hl'
      · simpa [SplitterList.hasActiveItems] using ha
      · exact ih _ h l' hl'

/-- `pick_splitter()`: either no item of any list is active (and nothing changes), or one active
    item `(block, char, class)` is flipped to inactive -/
theorem pickSplitter_spec {ss : SplitterSet} (h : LWF ss) {r : Option Splitter} {ss' : SplitterSet}
    (hp : ss.pickSplitter = some (r, ss')) :
    LWF ss' ∧
    match r with
    | none => (∀ b, itemsAt ss' b = itemsAt ss b) ∧ ∀ b, ∀ it ∈ itemsAt ss b, it.active = false
    | some s => s.active = false ∧ (∀ b', b' ≠ s.block → itemsAt ss' b' = itemsAt ss b') ∧
        ∃ R, (itemsAt ss s.block).Perm (⟨s.char, s.cls, true⟩ :: R) ∧
          (itemsAt ss' s.block).Perm (⟨s.char, s.cls, false⟩ :: R) := by
  unfold SplitterSet.pickSplitter at hp
  -- has_active_splitter
  have hhas : ∀ fl ss1, ss.hasActiveSplitter = some (fl, ss1) → ss1.list = ss.list ∧
      (fl = false → ∀ l ∈ ss.list, l.numActive = 0) ∧
      (fl = true → ∃ l, ss.list[ss1.activeBlock]? = some l ∧ 0 < l.numActive) := by
    intro fl ss1 hh
    unfold SplitterSet.hasActiveSplitter at hh
    cases hb : ss.list[ss.activeBlock]? with
    | none => rw [hb] at hh; cases hh
    | some l =>
      rw [hb] at hh
      simp only at hh
      split at hh
      · rename_i ha
        cases hh
        exact ⟨rfl, (fun e => by cases e), fun _ => ⟨l, hb, by simpa [SplitterList.hasActiveItems] using ha⟩⟩
      · cases hf : SplitterSet.firstActive ss.list 0 with
        | none =>
          rw [hf] at hh
          cases hh
          exact ⟨rfl, fun _ => firstActive_none _ _ hf, (fun e => by cases e)⟩
        | some b =>
          rw [hf] at hh
          cases hh
          obtain ⟨_, l', hl', hpos⟩ := firstActive_some _ _ _ hf
          exact ⟨rfl, (fun e => by cases e), fun _ => ⟨l', by simpa using hl', hpos⟩⟩
  cases hh : ss.hasActiveSplitter with
  | none => rw [hh] at hp; cases hp
  | some res =>
    obtain ⟨fl, ss1⟩ := res
    rw [hh] at hp
    obtain ⟨hlist, hfalse, htrue⟩ := hhas fl ss1 hh
    obtain ⟨L1, ab⟩ := ss1
    simp only at hlist
    subst hlist
    cases fl with
    | false =>
      simp only at hp
      cases hp
      refine ⟨h, ?_⟩
      simp only
      refine ⟨fun b => rfl, ?_⟩
      intro b it hit
      unfold itemsAt itemsOf at hit
      cases hb : ss.list[b]? with
      | none => rw [hb] at hit; cases hit
      | some l =>
        rw [hb] at hit
        exact SplitterList.items_inactive (hfalse rfl l (List.mem_of_getElem? hb)) it hit
    | true =>
      simp only at hp
      obtain ⟨l, hl, hpos⟩ := htrue rfl
      simp only at hl
      rw [hl] at hp
      simp only at hp
      cases hpa : l.pickActive with
      | none => rw [hpa] at hp; cases hp
      | some res =>
        obtain ⟨pair, l'⟩ := res
        rw [hpa] at hp
        simp only [Option.some.injEq, Prod.mk.injEq] at hp
        obtain ⟨rfl, rfl⟩ := hp
        have hlt : ab < ss.list.length := (List.getElem?_eq_some_iff.1 hl).1
        obtain ⟨hl', _, R, hp1, hp2⟩ := SplitterList.pickActive_spec (h _ _ hl) hpa
        refine ⟨?_, ?_⟩
        · show LWFl (ss.list.set ab l')
          exact LWFl_set h _ hl'
        · simp only
          refine ⟨trivial, ?_, R, ?_, ?_⟩
          · intro b' hne
            show itemsOf (ss.list.set ab l') b' = itemsOf ss.list b'
            rw [itemsOf_set _ _ _ hlt, if_neg hne]
          · have : itemsAt ss ab = l.items := by simp [itemsAt, itemsOf, hl]
            rw [this]; exact hp1
          · show (itemsOf (ss.list.set ab l') ab).Perm _
            rw [itemsOf_set _ _ _ hlt, if_pos rfl]
            exact hp2

end Hopcroft
end Smt
