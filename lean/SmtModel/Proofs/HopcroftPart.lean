/-
  C04, Hopcroft layer 0: the abstract reading of `BasePartition` / `Partition` (Model/Partition.lean)
  as a partition of `{0, …, n-1}` into the blocks `1 … num_blocks-1`, and what one call of
  `refine_block` does to it.  Built on `Proofs/Partition.lean` (`RefineSpec`).

  * `Mem p k x`      `x` is an element of block `k` (`block_elements(k)` yields it)
  * `PWF p n`        representation invariant: headers inside `[0,n]` with pairwise disjoint windows,
                     block 0 empty, every `x < n` in exactly one block, blocks `≥ 1` non-empty
  * `PartWF P n`     `PWF` of the base and `block_id[x] = k ↔ Mem k x`
  * `SplitCases`     the three outcomes of `refine_block(i, pr)` in terms of `Mem`
  * `refine_pwf`     `BasePartition.refineBlock` on a `PWF` partition: never panics, keeps `PWF`,
                     `SplitCases`
  * `refineP_spec`   the same for `Partition` and a closure that may panic
                     (`finishRefine ids (refineBlockOpt i pro) = some …`): the closure did not panic on
                     any element of the block, `PartWF` is kept, `SplitCases` for `pr = getD ∘ pro`
-/
import SmtModel.Proofs.Partition

namespace Smt
namespace BasePartition

/-- `x` is an element of block `k` -/
def Mem (p : BasePartition) (k x : Nat) : Prop := ∃ l, p.blockElements k = some l ∧ x ∈ l

structure PWF (p : BasePartition) (n : Nat) : Prop where
  size_eq : p.size = n
  seg_len : p.segment.length = n
  hdr : ∀ (k : Nat) (h : BlockHeader), p.block[k]? = some h → h.start ≤ h.stop ∧ h.stop ≤ n
  pos_disj : ∀ (k k' : Nat) (h h' : BlockHeader), k ≠ k' → p.block[k]? = some h → p.block[k']? = some h' →
    h.stop ≤ h'.start ∨ h'.stop ≤ h.start
  blk0 : ∃ h0, p.block[0]? = some h0 ∧ h0.start = h0.stop
  cover : ∀ x, x < n → ∃ k, Mem p k x
  disj : ∀ k k' x, Mem p k x → Mem p k' x → k = k'
  bound : ∀ k x, Mem p k x → x < n
  nonempty : ∀ k, 0 < k → k < p.numBlocks → ∃ x, Mem p k x

theorem blockElements_of_hdr {p : BasePartition} {n : Nat} (hp : PWF p n) {k : Nat} {h : BlockHeader}
    (hk : p.block[k]? = some h) : p.blockElements k = some (window p.segment h) := by
  rw [blockElements_eq_window p k h hk, if_pos]
  have := hp.hdr k h hk
  rw [hp.seg_len]
  exact this

theorem mem_iff {p : BasePartition} {n : Nat} (hp : PWF p n) (k x : Nat) :
    Mem p k x ↔ ∃ h, p.block[k]? = some h ∧ x ∈ window p.segment h := by
  constructor
  · rintro ⟨l, hl, hx⟩
    cases hb : p.block[k]? with
    | none => simp [blockElements, slice, hb] at hl
    | some h =>
      rw [blockElements_of_hdr hp hb] at hl
      cases hl
      exact ⟨h, rfl, hx⟩
  · rintro ⟨h, hb, hx⟩
    exact ⟨_, blockElements_of_hdr hp hb, hx⟩

theorem mem_lt_numBlocks {p : BasePartition} {k x : Nat} (h : Mem p k x) : k < p.numBlocks := by
  obtain ⟨l, hl, _⟩ := h
  cases hb : p.block[k]? with
  | none => simp [blockElements, slice, hb] at hl
  | some hd => exact (List.getElem?_eq_some_iff.1 hb).1

theorem not_mem_zero {p : BasePartition} {n : Nat} (hp : PWF p n) (x : Nat) : ¬ Mem p 0 x := by
  obtain ⟨h0, hb, he⟩ := hp.blk0
  intro hm
  obtain ⟨h, hb', hx⟩ := (mem_iff hp 0 x).1 hm
  rw [hb] at hb'; cases hb'
  simp [window, he] at hx

/-- `block_size(k)` is the number of elements of block `k` -/
theorem blockSize_spec {p : BasePartition} {n : Nat} (hp : PWF p n) {k sz : Nat}
    (h : p.blockSize k = some sz) : ∃ l, p.blockElements k = some l ∧ l.length = sz := by
  unfold blockSize at h
  cases hb : p.block[k]? with
  | none => simp [hb] at h
  | some hd =>
    rw [hb] at h
    simp only at h
    split at h
    · cases h
      refine ⟨_, blockElements_of_hdr hp hb, ?_⟩
      rw [window_length]
      rw [hp.seg_len]
      exact (hp.hdr k hd hb).2
    · cases h

/-- a block of size `≤ 1` has at most one element -/
theorem mem_unique_of_size_le_one {p : BasePartition} {n : Nat} (hp : PWF p n) {k sz x y : Nat}
    (h : p.blockSize k = some sz) (hsz : sz ≤ 1) (hx : Mem p k x) (hy : Mem p k y) : x = y := by
  obtain ⟨l, hl, hlen⟩ := blockSize_spec hp h
  obtain ⟨l1, hl1, hx⟩ := hx
  obtain ⟨l2, hl2, hy⟩ := hy
  rw [hl] at hl1 hl2
  cases hl1; cases hl2
  match l, hlen, hx, hy with
  | [a], _, hx, hy => simp at hx hy; rw [hx, hy]
  | [], _, hx, _ => simp at hx
  | _ :: _ :: _, hlen, _, _ => simp at hlen; omega

/-! ### `BasePartition::new` -/

theorem new_pwf {n : Nat} (hn : 0 < n) : PWF (BasePartition.new n) n := by
  have hblk : (BasePartition.new n).block = [⟨0, 0⟩, ⟨0, n⟩] := by
    simp [BasePartition.new]; omega
  have hseg : (BasePartition.new n).segment = List.range n := rfl
  have hmem : ∀ k x, Mem (BasePartition.new n) k x ↔ k = 1 ∧ x < n := by
    intro k x
    unfold Mem blockElements slice
    rw [hblk, hseg]
    match k with
    | 0 => simp
    | 1 => simp
    | k + 2 => simp
  refine ⟨rfl, by simp [hseg], ?_, ?_, ⟨⟨0, 0⟩, by simp [hblk], rfl⟩, ?_, ?_, ?_, ?_⟩
  · intro k h hk
    rw [hblk] at hk
    match k with
    | 0 => simp at hk; subst hk; simp
    | 1 => simp at hk; subst hk; simp
    | k + 2 => simp at hk
  · intro k k' h h' hne hk hk'
    rw [hblk] at hk hk'
    match k, k' with
    | 0, 0 => exact absurd rfl hne
    | 0, 1 => simp at hk hk'; subst hk hk'; simp
    | 1, 0 => simp at hk hk'; subst hk hk'; simp
    | 1, 1 => exact absurd rfl hne
    | k + 2, _ => simp at hk
    | 0, k + 2 => simp at hk'
    | 1, k + 2 => simp at hk'
  · intro x hx; exact ⟨1, (hmem 1 x).2 ⟨rfl, hx⟩⟩
  · intro k k' x h h'
    rw [((hmem k x).1 h).1, ((hmem k' x).1 h').1]
  · intro k x h; exact ((hmem k x).1 h).2
  · intro k hk hk2
    have : (BasePartition.new n).numBlocks = 2 := by simp [numBlocks, hblk]
    have hk1 : k = 1 := by omega
    subst hk1
    exact ⟨0, (hmem 1 0).2 ⟨rfl, hn⟩⟩

theorem new_mem {n : Nat} (hn : 0 < n) (k x : Nat) :
    Mem (BasePartition.new n) k x ↔ k = 1 ∧ x < n := by
  have hblk : (BasePartition.new n).block = [⟨0, 0⟩, ⟨0, n⟩] := by
    simp [BasePartition.new]; omega
  have hseg : (BasePartition.new n).segment = List.range n := rfl
  unfold Mem blockElements slice
  rw [hblk, hseg]
  match k with
  | 0 => simp
  | 1 => simp
  | k + 2 => simp

theorem new_numBlocks {n : Nat} (hn : 0 < n) : (BasePartition.new n).numBlocks = 2 := by
  show (if n = 0 then [(⟨0, 0⟩ : BlockHeader)] else [⟨0, 0⟩, ⟨0, n⟩]).length = 2
  rw [if_neg (by omega)]; rfl

/-! ### one `refine_block` -/

/-- the outcomes of `refine_block(i, pr)` on `p`, giving `p'` and the pair `r` -/
def SplitCases (p : BasePartition) (i : Nat) (pr : Nat → Bool) (p' : BasePartition) (r : Nat × Nat) :
    Prop :=
  (r = (0, i) ∧ p' = p ∧ ∀ x, Mem p i x → pr x = false) ∨
  (r = (i, 0) ∧ p' = p ∧ (∀ x, Mem p i x → pr x = true) ∧ ∃ x, Mem p i x) ∨
  (r = (i, p.numBlocks) ∧ p'.numBlocks = p.numBlocks + 1 ∧ i ≠ 0 ∧ i < p.numBlocks ∧
    (∀ x, Mem p' i x ↔ Mem p i x ∧ pr x = true) ∧
    (∀ x, Mem p' p.numBlocks x ↔ Mem p i x ∧ pr x = false) ∧
    (∀ k, k ≠ i → k ≠ p.numBlocks → ∀ x, Mem p' k x ↔ Mem p k x))

theorem filter_eq_nil_iff' (pr : Nat → Bool) (l : List Nat) :
    l.filter pr = [] ↔ ∀ x ∈ l, pr x = false := by
  rw [List.filter_eq_nil_iff]
  constructor
  · intro h x hx; simpa using h x hx
  · intro h x hx; simp [h x hx]

theorem refine_pwf {p : BasePartition} {n : Nat} (hp : PWF p n) {i : Nat} (hi : i < p.numBlocks)
    (pr : Nat → Bool) :
    ∃ p' r, p.refineBlock i pr = some (p', r) ∧ PWF p' n ∧ SplitCases p i pr p' r := by
  have hilt : i < p.block.length := hi
  obtain ⟨h, hb⟩ : ∃ h, p.block[i]? = some h := ⟨_, List.getElem?_eq_getElem hilt⟩
  obtain ⟨hle, hstop⟩ := hp.hdr i h hb
  have hstop' : h.stop ≤ p.segment.length := by rw [hp.seg_len]; exact hstop
  obtain ⟨p', r, heq, spec⟩ := refine_block_spec p i pr h hb hle hstop' (by rw [hp.seg_len, hp.size_eq])
  refine ⟨p', r, heq, ?_⟩
  have hW : ∀ x, Mem p i x ↔ x ∈ window p.segment h := by
    intro x
    rw [mem_iff hp]
    constructor
    · rintro ⟨h', hb', hx⟩; rw [hb] at hb'; cases hb'; exact hx
    · intro hx; exact ⟨h, hb, hx⟩
  by_cases h1 : (window p.segment h).filter pr = []
  · obtain ⟨hr, hp'⟩ := spec.none_true h1
    subst hp'
    refine ⟨hp, .inl ⟨hr, rfl, ?_⟩⟩
    intro x hx
    exact (filter_eq_nil_iff' pr _).1 h1 x ((hW x).1 hx)
  · by_cases h2 : (window p.segment h).filter (fun x => !pr x) = []
    · obtain ⟨hr, hp'⟩ := spec.all_true h1 h2
      subst hp'
      refine ⟨hp, .inr (.inl ⟨hr, rfl, ?_, ?_⟩)⟩
      · intro x hx
        have := (filter_eq_nil_iff' (fun x => !pr x) _).1 h2 x ((hW x).1 hx)
        simpa using this
      · obtain ⟨x, hx⟩ := List.exists_mem_of_ne_nil _ h1
        exact ⟨x, (hW x).2 (List.mem_filter.1 hx).1⟩
    · obtain ⟨hr, hblk, hBi, B2', hBn, hperm⟩ := spec.split h1 h2
      -- sizes
      have hlenW := window_length p.segment h hstop'
      have hlen2 := length_filter_add pr (window p.segment h)
      have hB1pos : 0 < ((window p.segment h).filter pr).length :=
        List.length_pos_iff.2 h1
      have hB2pos : 0 < ((window p.segment h).filter (fun x => !pr x)).length :=
        List.length_pos_iff.2 h2
      -- block 0 is empty, so i ≠ 0
      have hi0 : i ≠ 0 := by
        rintro rfl
        obtain ⟨h0, hb0, he⟩ := hp.blk0
        rw [hb] at hb0; cases hb0
        omega
      have hnb' : p'.numBlocks = p.numBlocks + 1 := by
        simp [numBlocks, hblk]
      -- headers of p'
      have hget : ∀ k, p'.block[k]? =
          if k = i then some ⟨h.start, h.start + ((window p.segment h).filter pr).length⟩
          else if k = p.numBlocks then some ⟨h.start + ((window p.segment h).filter pr).length, h.stop⟩
          else p.block[k]? := by
        intro k
        rw [hblk]
        by_cases hki : k = i
        · subst hki
          rw [if_pos rfl, List.getElem?_append_left (by simpa using hilt)]
          simp [hilt]
        · rw [if_neg hki]
          by_cases hkn : k = p.numBlocks
          · subst hkn
            rw [if_pos rfl, List.getElem?_append_right (by simp [numBlocks])]
            simp [numBlocks]
          · rw [if_neg hkn]
            by_cases hklt : k < p.block.length
            · rw [List.getElem?_append_left (by simpa using hklt),
                List.getElem?_set_ne (fun e => hki e.symm)]
            · have hnbl : p.numBlocks = p.block.length := rfl
              have hk2 : p.block.length + 1 ≤ k := by omega
              rw [List.getElem?_eq_none (by simpa using hk2), List.getElem?_eq_none (by omega)]
      -- membership in p'
      have hM' : ∀ k x, Mem p' k x ↔
          if k = i then (Mem p i x ∧ pr x = true)
          else if k = p.numBlocks then (Mem p i x ∧ pr x = false)
          else Mem p k x := by
        intro k x
        by_cases hki : k = i
        · subst hki
          rw [if_pos rfl]
          show (∃ l, p'.blockElements k = some l ∧ x ∈ l) ↔ _
          rw [hBi]
          constructor
          · rintro ⟨l, hl, hx⟩
            cases hl
            obtain ⟨a, b⟩ := List.mem_filter.1 hx
            exact ⟨(hW x).2 a, b⟩
          · rintro ⟨a, b⟩
            exact ⟨_, rfl, List.mem_filter.2 ⟨(hW x).1 a, b⟩⟩
        · rw [if_neg hki]
          by_cases hkn : k = p.numBlocks
          · subst hkn
            rw [if_pos rfl]
            show (∃ l, p'.blockElements p.numBlocks = some l ∧ x ∈ l) ↔ _
            rw [hBn]
            constructor
            · rintro ⟨l, hl, hx⟩
              cases hl
              obtain ⟨a, b⟩ := List.mem_filter.1 (hperm.mem_iff.1 hx)
              exact ⟨(hW x).2 a, by simpa using b⟩
            · rintro ⟨a, b⟩
              exact ⟨_, rfl, hperm.mem_iff.2 (List.mem_filter.2 ⟨(hW x).1 a, by simpa using b⟩)⟩
          · rw [if_neg hkn]
            cases hbk : p.block[k]? with
            | none =>
              have e1 : ¬ Mem p k x := fun hm => by
                have := mem_lt_numBlocks hm
                rw [List.getElem?_eq_none_iff] at hbk
                exact absurd this (by simpa [numBlocks] using hbk)
              have e2 : ¬ Mem p' k x := fun hm => by
                obtain ⟨l, hl, _⟩ := hm
                have := hget k
                rw [if_neg hki, if_neg hkn, hbk] at this
                simp [blockElements, slice, this] at hl
              exact ⟨fun a => (e2 a).elim, fun a => (e1 a).elim⟩
            | some hk =>
              have hd := hp.pos_disj k i hk h hki hbk hb
              have := (spec.others k hk hbk hd).2
              unfold Mem
              rw [this]
      have hsub1 : ∀ k x, Mem p' k x → k ≠ i → k ≠ p.numBlocks → Mem p k x := by
        intro k x hm h1 h2
        have := (hM' k x).1 hm
        rwa [if_neg h1, if_neg h2] at this
      refine ⟨?_, .inr (.inr ⟨hr, hnb', hi0, hi, ?_, ?_, ?_⟩)⟩
      · refine ⟨by rw [spec.size_eq, hp.size_eq], by rw [spec.length_eq, hp.seg_len], ?_, ?_, ?_, ?_,
          ?_, ?_, ?_⟩
        · -- hdr
          intro k hk hbk
          rw [hget k] at hbk
          split at hbk
          · cases hbk; constructor <;> simp only <;> omega
          · split at hbk
            · cases hbk; constructor <;> simp only <;> omega
            · exact hp.hdr k hk hbk
        · -- pos_disj
          intro k k' hk hk' hne hbk hbk'
          rw [hget k] at hbk
          rw [hget k'] at hbk'
          have hin : ∀ k0 (h0 : BlockHeader), k0 ≠ i → p.block[k0]? = some h0 →
              h0.stop ≤ h.start ∨ h.stop ≤ h0.start :=
            fun k0 h0 hne0 hb0 => hp.pos_disj k0 i h0 h hne0 hb0 hb
          by_cases hki : k = i
          · rw [if_pos hki] at hbk; cases hbk
            by_cases hki' : k' = i
            · exact absurd (hki.trans hki'.symm) hne
            · rw [if_neg hki'] at hbk'
              by_cases hkn' : k' = p.numBlocks
              · rw [if_pos hkn'] at hbk'; cases hbk'; left; simp
              · rw [if_neg hkn'] at hbk'
                rcases hin k' hk' hki' hbk' with hd | hd
                · right; simp only; omega
                · left; simp only; omega
          · rw [if_neg hki] at hbk
            by_cases hkn : k = p.numBlocks
            · rw [if_pos hkn] at hbk; cases hbk
              by_cases hki' : k' = i
              · rw [if_pos hki'] at hbk'; cases hbk'; right; simp
              · rw [if_neg hki'] at hbk'
                by_cases hkn' : k' = p.numBlocks
                · exact absurd (hkn.trans hkn'.symm) hne
                · rw [if_neg hkn'] at hbk'
                  rcases hin k' hk' hki' hbk' with hd | hd
                  · right; simp only; omega
                  · left; simp only; omega
            · rw [if_neg hkn] at hbk
              by_cases hki' : k' = i
              · rw [if_pos hki'] at hbk'; cases hbk'
                rcases hin k hk hki hbk with hd | hd
                · left; simp only; omega
                · right; simp only; omega
              · rw [if_neg hki'] at hbk'
                by_cases hkn' : k' = p.numBlocks
                · rw [if_pos hkn'] at hbk'; cases hbk'
                  rcases hin k hk hki hbk with hd | hd
                  · left; simp only; omega
                  · right; simp only; omega
                · rw [if_neg hkn'] at hbk'
                  exact hp.pos_disj k k' hk hk' hne hbk hbk'
        · -- blk0
          obtain ⟨h0, hb0, he⟩ := hp.blk0
          refine ⟨h0, ?_, he⟩
          rw [hget 0, if_neg (fun e => hi0 e.symm), if_neg (by omega)]
          exact hb0
        · -- cover
          intro x hx
          obtain ⟨k, hk⟩ := hp.cover x hx
          by_cases hki : k = i
          · subst hki
            cases hpx : pr x with
            | true => exact ⟨k, (hM' k x).2 (by rw [if_pos rfl]; exact ⟨hk, hpx⟩)⟩
            | false =>
              refine ⟨p.numBlocks, (hM' _ x).2 ?_⟩
              rw [if_neg (by omega), if_pos rfl]
              exact ⟨hk, hpx⟩
          · have hkn : k ≠ p.numBlocks := by have := mem_lt_numBlocks hk; omega
            exact ⟨k, (hM' k x).2 (by rw [if_neg hki, if_neg hkn]; exact hk)⟩
        · -- disj
          intro k k' x hm hm'
          have a := (hM' k x).1 hm
          have a' := (hM' k' x).1 hm'
          by_cases hki : k = i
          · rw [if_pos hki] at a
            by_cases hki' : k' = i
            · rw [hki, hki']
            · rw [if_neg hki'] at a'
              by_cases hkn' : k' = p.numBlocks
              · rw [if_pos hkn'] at a'
                rw [a.2] at a'; cases a'.2
              · rw [if_neg hkn'] at a'
                exact absurd (hp.disj _ _ x a' a.1) hki'
          · rw [if_neg hki] at a
            by_cases hkn : k = p.numBlocks
            · rw [if_pos hkn] at a
              by_cases hki' : k' = i
              · rw [if_pos hki'] at a'
                rw [a.2] at a'; cases a'.2
              · rw [if_neg hki'] at a'
                by_cases hkn' : k' = p.numBlocks
                · rw [hkn, hkn']
                · rw [if_neg hkn'] at a'
                  exact absurd (hp.disj _ _ x a' a.1) hki'
            · rw [if_neg hkn] at a
              by_cases hki' : k' = i
              · rw [if_pos hki'] at a'
                exact absurd (hp.disj _ _ x a a'.1) hki
              · rw [if_neg hki'] at a'
                by_cases hkn' : k' = p.numBlocks
                · rw [if_pos hkn'] at a'
                  exact absurd (hp.disj _ _ x a a'.1) hki
                · rw [if_neg hkn'] at a'
                  exact hp.disj _ _ x a a'
        · -- bound
          intro k x hm
          have a := (hM' k x).1 hm
          split at a
          · exact hp.bound _ _ a.1
          · split at a
            · exact hp.bound _ _ a.1
            · exact hp.bound _ _ a
        · -- nonempty
          intro k hk0 hklt
          rw [hnb'] at hklt
          by_cases hki : k = i
          · subst hki
            obtain ⟨x, hx⟩ := List.exists_mem_of_ne_nil _ h1
            obtain ⟨hxw, hpx⟩ := List.mem_filter.1 hx
            exact ⟨x, (hM' k x).2 (by rw [if_pos rfl]; exact ⟨(hW x).2 hxw, hpx⟩)⟩
          · by_cases hkn : k = p.numBlocks
            · subst hkn
              obtain ⟨x, hx⟩ := List.exists_mem_of_ne_nil _ h2
              obtain ⟨hxw, hpx⟩ := List.mem_filter.1 hx
              refine ⟨x, (hM' _ x).2 ?_⟩
              rw [if_neg hki, if_pos rfl]
              exact ⟨(hW x).2 hxw, by simpa using hpx⟩
            · obtain ⟨x, hx⟩ := hp.nonempty k hk0 (by omega)
              exact ⟨x, (hM' k x).2 (by rw [if_neg hki, if_neg hkn]; exact hx)⟩
      · intro x; have := hM' i x; rwa [if_pos rfl] at this
      · intro x
        have := hM' p.numBlocks x
        rwa [if_neg (by omega), if_pos rfl] at this
      · intro k hki hkn x
        have := hM' k x
        rwa [if_neg hki, if_neg hkn] at this

end BasePartition

/-! ### Partition -/
namespace Partition
open BasePartition

structure PartWF (P : Partition) (n : Nat) : Prop where
  base : PWF P.base n
  ids_len : P.blockId.length = n
  ids : ∀ x k, x < n → (P.blockId[x]? = some k ↔ Mem P.base k x)

/-- the block of `x` (0 outside the domain) -/
def blk (P : Partition) (x : Nat) : Nat := P.blockId.getD x 0

theorem blk_spec {P : Partition} {n : Nat} (hP : PartWF P n) {x : Nat} (hx : x < n) (k : Nat) :
    blk P x = k ↔ Mem P.base k x := by
  rw [← hP.ids x k hx]
  unfold blk
  have : x < P.blockId.length := by rw [hP.ids_len]; exact hx
  rw [List.getD_eq_getElem?_getD, List.getElem?_eq_getElem this]
  simp

theorem mem_blk {P : Partition} {n : Nat} (hP : PartWF P n) {x : Nat} (hx : x < n) :
    Mem P.base (blk P x) x := (blk_spec hP hx _).1 rfl

theorem blk_pos {P : Partition} {n : Nat} (hP : PartWF P n) {x : Nat} (hx : x < n) :
    0 < blk P x ∧ blk P x < P.numBlocks := by
  have hm := mem_blk hP hx
  refine ⟨?_, mem_lt_numBlocks hm⟩
  rcases Nat.eq_zero_or_pos (blk P x) with h | h
  · rw [h] at hm; exact absurd hm (not_mem_zero hP.base x)
  · exact h

theorem blockIdOf_eq {P : Partition} {n : Nat} (hP : PartWF P n) {x : Nat} (hx : x < n) :
    P.blockIdOf x = some (blk P x) := by
  unfold blockIdOf blk
  have : x < P.blockId.length := by rw [hP.ids_len]; exact hx
  rw [List.getD_eq_getElem?_getD, List.getElem?_eq_getElem this]
  simp

theorem new_partWF {n : Nat} (hn : 0 < n) : PartWF (Partition.new n) n := by
  refine ⟨new_pwf hn, by simp [Partition.new], ?_⟩
  intro x k hx
  show (List.replicate n 1)[x]? = some k ↔ Mem (BasePartition.new n) k x
  rw [new_mem hn, List.getElem?_replicate, if_pos hx]
  constructor
  · intro e; cases e; exact ⟨rfl, hx⟩
  · rintro ⟨rfl, _⟩; rfl

/-- `refine_block` of a `Partition` with a closure that may panic: if the call returns, the closure
    did not panic on any element of the block, `PartWF` is kept, and the outcome is one of the three
    `SplitCases` for the predicate read through `getD` -/
theorem refineP_spec {P : Partition} {n : Nat} (hP : PartWF P n) {i : Nat}
    (pro : Nat → Option Bool) {Q : Partition} {r : Nat × Nat}
    (h : finishRefine P.blockId (P.base.refineBlockOpt i pro) = some (Q, r)) :
    (∀ x, Mem P.base i x → pro x ≠ none) ∧ PartWF Q n ∧
      SplitCases P.base i (fun x => (pro x).getD false) Q.base r := by
  -- the closure did not panic
  have hdef : ∀ x, Mem P.base i x → pro x ≠ none := by
    intro x ⟨l, hl, hx⟩ hnone
    have : P.base.refineBlockOpt i pro = none :=
      refineBlockOpt_none _ _ _ (fun s hs => by
        rw [show P.base.slice i = P.base.blockElements i from rfl, hl] at hs
        cases hs
        exact ⟨x, hx, hnone⟩)
    rw [this] at h
    simp [finishRefine] at h
  refine ⟨hdef, ?_⟩
  -- i is a block
  have hi : i < P.base.numBlocks := by
    cases hb : P.base.block[i]? with
    | none => simp [refineBlockOpt, hb, finishRefine] at h
    | some hd => exact (List.getElem?_eq_some_iff.1 hb).1
  -- replace the closure by the total predicate
  have hcongr : P.base.refineBlockOpt i pro
      = P.base.refineBlock i (fun x => (pro x).getD false) := by
    unfold BasePartition.refineBlock
    apply refineBlockOpt_congr
    intro s hs x hx
    have := hdef x ⟨s, hs, hx⟩
    cases hpx : pro x with
    | none => exact absurd hpx this
    | some b => simp [hpx]
  rw [hcongr] at h
  obtain ⟨p', r', heq, hp', hcases⟩ := refine_pwf hP.base hi (fun x => (pro x).getD false)
  rw [heq] at h
  unfold finishRefine at h
  simp only at h
  obtain ⟨b1, b2⟩ := r'
  rcases hcases with ⟨hr, hpe, hall⟩ | ⟨hr, hpe, hall, hne⟩ | ⟨hr, hnb, hi0, _, hMi, hMn, hMo⟩
  · cases hr
    simp only [ne_eq, not_true_eq_false, false_and, if_false] at h
    cases h
    subst hpe
    exact ⟨⟨hP.base, hP.ids_len, hP.ids⟩, .inl ⟨rfl, rfl, hall⟩⟩
  · cases hr
    simp only [ne_eq, not_true_eq_false, and_false, if_false] at h
    cases h
    subst hpe
    exact ⟨⟨hP.base, hP.ids_len, hP.ids⟩, .inr (.inl ⟨rfl, rfl, hall, hne⟩)⟩
  · cases hr
    have hnb0 : P.base.numBlocks ≠ 0 := by omega
    rw [if_pos ⟨hi0, hnb0⟩] at h
    cases hbe : p'.blockElements P.base.numBlocks with
    | none => rw [hbe] at h; cases h
    | some xs =>
      rw [hbe] at h
      simp only at h
      have hxs : ∀ x, x ∈ xs ↔ Mem p' P.base.numBlocks x := by
        intro x
        unfold Mem
        rw [hbe]
        simp
      obtain ⟨ids', e1, e2, e3⟩ := setIds_spec P.base.numBlocks xs P.blockId (by
        intro x hx
        rw [hP.ids_len]
        exact hp'.bound _ _ ((hxs x).1 hx))
      rw [e1] at h
      simp only [Option.some.injEq, Prod.mk.injEq] at h
      obtain ⟨hQ, hr⟩ := h
      subst hQ
      cases hr
      refine ⟨⟨hp', by rw [e2, hP.ids_len], ?_⟩, .inr (.inr ⟨rfl, hnb, hi0, hi, hMi, hMn, hMo⟩)⟩
      intro x k hx
      show ids'[x]? = some k ↔ Mem p' k x
      rw [e3 x]
      by_cases hm : x ∈ xs
      · rw [if_pos hm]
        have hmn := (hxs x).1 hm
        constructor
        · intro e; cases e; exact hmn
        · intro hk; rw [hp'.disj _ _ x hk hmn]
      · rw [if_neg hm]
        have hnm : ¬ Mem p' P.base.numBlocks x := fun a => hm ((hxs x).2 a)
        rw [hP.ids x k hx]
        by_cases hki : k = i
        · subst hki
          rw [hMi x]
          constructor
          · intro hk
            refine ⟨hk, ?_⟩
            cases hpx : (pro x).getD false with
            | true => exact hpx
            | false => exact absurd ((hMn x).2 ⟨hk, hpx⟩) hnm
          · exact fun hk => hk.1
        · by_cases hkn : k = P.base.numBlocks
          · subst hkn
            constructor
            · intro hk; have := mem_lt_numBlocks hk; omega
            · intro hk; exact absurd hk hnm
          · rw [hMo k hki hkn x]

end Partition
end Smt
