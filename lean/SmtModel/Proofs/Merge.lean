/-
  Helper lemmas for C12: the sweep of `merge_partitions`.

  Main result `mergeLoop_spec`: started in a state whose carried intervals and unread suffixes
  form the sorted lists `rem1`, `rem2`, and with fuel above the measure
  `mu rem1 rem2 = 2·(|rem1|+|rem2|) + [heads start at different points]`, the loop returns
  `result` extended (by `push`) with a sorted list `m` whose union is the union of `rem1`,`rem2`
  and whose cut points are the cut points of `rem1` and `rem2`.

  The second half of the file shows that a sorted list is determined by its union and its cut
  points (`sorted_ext`) and reads `cls` in those terms.
-/
import SmtModel.Proofs.PartitionWF

namespace Smt.CharPartition
open Smt

/-! ### pushing a list of intervals -/

/-- `push` every interval of `m`, in order -/
def pushAll (p : CharPartition) (m : List CharSet) : CharPartition :=
  m.foldl (fun q s => q.push s.start s.stop) p

@[simp] theorem pushAll_nil (p : CharPartition) : pushAll p [] = p := rfl

theorem pushAll_cons (p : CharPartition) (s : CharSet) (m : List CharSet) :
    pushAll p (s :: m) = pushAll (p.push s.start s.stop) m := rfl

theorem pushAll_list (p : CharPartition) (m : List CharSet) : (pushAll p m).list = p.list ++ m := by
  induction m generalizing p with
  | nil => simp
  | cons s m ih => rw [pushAll_cons, ih]; simp [CharPartition.push]

theorem pushAll_wf {p : CharPartition} (hp : p.WF) {m : List CharSet}
    (hs : Sorted (p.list ++ m)) : (pushAll p m).WF := by
  induction m generalizing p with
  | nil => simpa using hp
  | cons s m ih =>
    rw [pushAll_cons]
    have hs' : Sorted ((p.list ++ [s]) ++ m) := by simpa using hs
    apply ih
    · exact push_wf hp (sorted_append.1 hs').1
    · simpa [CharPartition.push] using hs'

/-- pushing the intervals of a sorted continuation never trips a `debug_assert!` of `push` -/
theorem pushSeqChecked_eq {p : CharPartition} {m : List CharSet} (hs : Sorted (p.list ++ m)) :
    pushSeqChecked p m = some (pushAll p m) := by
  induction m generalizing p with
  | nil => rfl
  | cons c m ih =>
    have hs' : Sorted ((p.list ++ [c]) ++ m) := by simpa using hs
    obtain ⟨_, hc, hlt⟩ := sorted_append.1 (sorted_append.1 hs').1
    have hcwf := sorted_singleton.1 hc
    have hpc : p.pushChecked c.start c.stop = some (p.push c.start c.stop) := by
      unfold CharPartition.pushChecked
      rw [if_neg (fun h => h hcwf)]
      cases hl : p.list.getLast? with
      | none => rfl
      | some last =>
        have := hlt last (List.mem_of_getLast? hl) c (by simp)
        simp [this]
    rw [pushSeqChecked, hpc, pushAll_cons]
    exact ih (by simpa [CharPartition.push] using hs')

/-! ### state of one side of the sweep -/

/-- `(i, a, b)` is the carried triple for the list `l`: either the sentinel (nothing left,
    `rem = []`) or `[a,b]` followed by the unread intervals `l.drop i` -/
def St (l : List CharSet) (i a b : Nat) (rem : List CharSet) : Prop :=
  (rem = [] ∧ a = MAX_CHAR + 1 ∧ b = MAX_CHAR + 1 ∧ l.drop i = []) ∨ rem = ⟨a, b⟩ :: l.drop i

theorem nextInterval_eq (p : CharPartition) (i : Nat) :
    nextInterval p i = (i + 1, (p.get i).1, (p.get i).2) := rfl

/-- reading the next interval: the new remainder is the unread suffix -/
theorem st_next (p : CharPartition) (i : Nat) :
    St p.list (i + 1) (p.get i).1 (p.get i).2 (p.list.drop i) := by
  unfold St CharPartition.get
  cases h : p.list.drop i with
  | nil =>
    left
    have hlen : p.list.length ≤ i := List.drop_eq_nil_iff.1 h
    have : p.list[i]? = none := List.getElem?_eq_none hlen
    refine ⟨rfl, by simp [this], by simp [this], ?_⟩
    exact List.drop_eq_nil_iff.2 (by omega)
  | cons s t =>
    right
    have hi : i < p.list.length := by
      rcases Nat.lt_or_ge i p.list.length with hlt | hge
      · exact hlt
      · rw [List.drop_eq_nil_iff.2 hge] at h; cases h
    have h1 : p.list[i]? = some s := by
      have := List.getElem?_drop (xs := p.list) (i := i) (j := 0)
      rw [h] at this
      simpa using this.symm
    have h2 : p.list.drop (i + 1) = t := by
      have : p.list.drop (i + 1) = (p.list.drop i).drop 1 := by simp [List.drop_drop]
      rw [this, h]; rfl
    simp [h1, h2]

theorem st_init (p : CharPartition) : St p.list 1 (p.get 0).1 (p.get 0).2 p.list := by
  simpa using st_next p 0

/-! ### the measure -/

/-- `2·(|rem1|+|rem2|) + [the two carried intervals start at different points]` -/
def mu : List CharSet → List CharSet → Nat
  | s :: r1, t :: r2 => 2 * (r1.length + r2.length) + 4 + (if s.start = t.start then 0 else 1)
  | r1, r2 => 2 * (r1.length + r2.length)

theorem mu_le (r1 r2 : List CharSet) : mu r1 r2 ≤ 2 * (r1.length + r2.length) + 1 := by
  unfold mu
  split
  · simp only [List.length_cons]; split <;> omega
  · omega

theorem mu_nil_left (r : List CharSet) : mu [] r = 2 * r.length := by
  unfold mu; simp

theorem mu_nil_right (r : List CharSet) : mu r [] = 2 * r.length := by
  cases r <;> simp [mu]

theorem mu_cons_cons (s t : CharSet) (r1 r2 : List CharSet) :
    mu (s :: r1) (t :: r2)
      = 2 * (r1.length + r2.length) + 4 + (if s.start = t.start then 0 else 1) := rfl

/-- the new measure is bounded by `mu_le`, the old one is `mu_cons_cons` -/
theorem mu_dec {s t : CharSet} {r1 r2 r1' r2' : List CharSet} {fuel : Nat}
    (h : mu (s :: r1) (t :: r2) < fuel + 1)
    (hl : r1'.length + r2'.length ≤ r1.length + r2.length + 1) : mu r1' r2' < fuel := by
  have := mu_le r1' r2'
  rw [mu_cons_cons] at h
  omega

/-! ### the loop -/

/-- what the loop does from a state described by `rem1`, `rem2` -/
def Spec (p1 p2 : CharPartition) (fuel : Nat) (st1 st2 : Nat × Nat × Nat)
    (result : CharPartition) (rem1 rem2 : List CharSet) : Prop :=
  ∃ m, mergeLoop p1 p2 fuel st1 st2 result = some (pushAll result m) ∧ Sorted m ∧
    (∀ x, InList m x ↔ InList rem1 x ∨ InList rem2 x) ∧
    (∀ x, IsCut m x ↔ IsCut rem1 x ∨ IsCut rem2 x)

theorem Sorted.lt_of_inList {s : CharSet} {r : List CharSet} (h : Sorted (s :: r)) {x : Nat}
    (hx : InList r x) : s.stop < x := by
  obtain ⟨t, ht, h1, _⟩ := hx
  have := (sorted_cons.1 h).2.1 t ht
  omega

theorem sorted_cons_of_inList {s : CharSet} {m : List CharSet} (hm : Sorted m) (hs : s.WF)
    (h : ∀ x, InList m x → s.stop < x) : Sorted (s :: m) := by
  refine sorted_cons.2 ⟨hs, ?_, hm⟩
  intro t ht
  exact h t.start ⟨t, ht, Nat.le_refl _, (hm.1 t ht).1⟩

/-- one iteration that pushes `[s,e]` and continues in a state described by `rem1'`, `rem2'` -/
theorem spec_step {p1 p2 : CharPartition} {fuel : Nat} {st1 st2 st1' st2' : Nat × Nat × Nat}
    {result : CharPartition} {rem1 rem2 rem1' rem2' : List CharSet} {s e : Nat}
    (hrun : mergeLoop p1 p2 (fuel + 1) st1 st2 result
              = mergeLoop p1 p2 fuel st1' st2' (result.push s e))
    (hIH : Spec p1 p2 fuel st1' st2' (result.push s e) rem1' rem2')
    (hwf : s ≤ e ∧ e ≤ MAX_CHAR)
    (hlo : ∀ x, InList rem1' x ∨ InList rem2' x → e < x)
    (hS : ∀ x, ((s ≤ x ∧ x ≤ e) ∨ InList rem1' x ∨ InList rem2' x)
                ↔ (InList rem1 x ∨ InList rem2 x))
    (hC : ∀ x, ((x = s ∨ x = e + 1) ∨ IsCut rem1' x ∨ IsCut rem2' x)
                ↔ (IsCut rem1 x ∨ IsCut rem2 x)) :
    Spec p1 p2 (fuel + 1) st1 st2 result rem1 rem2 := by
  obtain ⟨m', hm', hsm', hS', hC'⟩ := hIH
  refine ⟨⟨s, e⟩ :: m', ?_, ?_, ?_, ?_⟩
  · rw [hrun, hm', pushAll_cons]
  · apply sorted_cons_of_inList hsm' (show (⟨s, e⟩ : CharSet).WF from hwf)
    intro x hx
    exact hlo x ((hS' x).1 hx)
  · intro x
    rw [inList_cons, hS' x]
    exact hS x
  · intro x
    rw [isCut_cons, hC' x]
    exact hC x

theorem mergeLoop_spec (p1 p2 : CharPartition) :
    ∀ (fuel i a b j c d : Nat) (result : CharPartition) (rem1 rem2 : List CharSet),
      St p1.list i a b rem1 → St p2.list j c d rem2 → Sorted rem1 → Sorted rem2 →
      mu rem1 rem2 < fuel →
      Spec p1 p2 fuel (i, a, b) (j, c, d) result rem1 rem2 := by
  intro fuel
  induction fuel with
  | zero => intro i a b j c d result rem1 rem2 _ _ _ _ h; omega
  | succ fuel ih =>
    intro i a b j c d result rem1 rem2 h1 h2 hs1 hs2 hmu
    have hM : MAX_CHAR = 196607 := rfl
    rcases h1 with ⟨rfl, rfl, rfl, hd1⟩ | rfl <;> rcases h2 with ⟨rfl, rfl, rfl, hd2⟩ | rfl
    · -- both exhausted: the loop stops
      refine ⟨[], ?_, sorted_nil, by simp, by simp⟩
      rw [mergeLoop]
      simp [hM]
    · -- p1 exhausted: copy [c,d]
      obtain ⟨hcd, hlt2, hs2'⟩ := sorted_cons.1 hs2
      have h3 := hcd.1; have h4 := hcd.2
      simp only at h3 h4
      refine spec_step (s := c) (e := d) ?_
        (ih _ _ _ _ _ _ _ [] _ (.inl ⟨rfl, rfl, rfl, hd1⟩) (st_next p2 j) sorted_nil hs2' ?_)
        ⟨h3, h4⟩ ?_ ?_ ?_
      · rw [mergeLoop]
        have e1 : (decide (MAX_CHAR + 1 ≤ MAX_CHAR) || decide (d ≤ MAX_CHAR)) = true := by
          simp [h4]
        rw [if_pos e1, if_neg (by omega), if_pos (by omega)]; rfl
      · rw [mu_nil_left] at hmu ⊢; simp only [List.length_cons] at hmu; omega
      · rintro x (h | h)
        · simp at h
        · exact hs2.lt_of_inList h
      · intro x; simp
      · intro x; simp
    · -- p2 exhausted: copy [a,b]
      obtain ⟨hab, hlt1, hs1'⟩ := sorted_cons.1 hs1
      have h3 := hab.1; have h4 := hab.2
      simp only at h3 h4
      refine spec_step (s := a) (e := b) ?_
        (ih _ _ _ _ _ _ _ _ [] (st_next p1 i) (.inl ⟨rfl, rfl, rfl, hd2⟩) hs1' sorted_nil ?_)
        ⟨h3, h4⟩ ?_ ?_ ?_
      · rw [mergeLoop]
        have e1 : (decide (b ≤ MAX_CHAR) || decide (MAX_CHAR + 1 ≤ MAX_CHAR)) = true := by
          simp [h4]
        rw [if_pos e1, if_pos (by omega)]; rfl
      · rw [mu_nil_right] at hmu ⊢; simp only [List.length_cons] at hmu; omega
      · rintro x (h | h)
        · exact hs1.lt_of_inList h
        · simp at h
      · intro x; simp
      · intro x; simp
    · -- both sides carry an interval: the seven cases
      obtain ⟨hab, hlt1, hs1'⟩ := sorted_cons.1 hs1
      obtain ⟨hcd, hlt2, hs2'⟩ := sorted_cons.1 hs2
      have h3 := hab.1; have h4 := hab.2; have h5 := hcd.1; have h6 := hcd.2
      simp only at h3 h4 h5 h6
      have hr1 : ∀ x, InList (List.drop i p1.list) x → b < x := fun x h => hs1.lt_of_inList h
      have hr2 : ∀ x, InList (List.drop j p2.list) x → d < x := fun x h => hs2.lt_of_inList h
      have e1 : (decide (b ≤ MAX_CHAR) || decide (d ≤ MAX_CHAR)) = true := by simp [h4]
      by_cases c1 : b < c
      · -- [a,b] < [c,d]
        refine spec_step (s := a) (e := b) ?_
          (ih _ _ _ _ _ _ _ _ _ (st_next p1 i) (.inr rfl) hs1' hs2 ?_) ⟨h3, h4⟩ ?_ ?_ ?_
        · rw [mergeLoop, if_pos e1, if_pos c1]; rfl
        · exact mu_dec hmu (by (try simp only [List.length_cons]); omega)
        · rintro x (h | h)
          · exact hr1 x h
          · rcases (inList_cons _ _ _).1 h with h | h
            · simp only at h; omega
            · have := hr2 x h; omega
        · intro x; simp only [inList_cons]; exact or_assoc.symm
        · intro x; simp only [isCut_cons]; exact or_assoc.symm
      by_cases c2 : d < a
      · -- [c,d] < [a,b]
        refine spec_step (s := c) (e := d) ?_
          (ih _ _ _ _ _ _ _ _ _ (.inr rfl) (st_next p2 j) hs1 hs2' ?_) ⟨h5, h6⟩ ?_ ?_ ?_
        · rw [mergeLoop, if_pos e1, if_neg c1, if_pos c2]; rfl
        · exact mu_dec hmu (by (try simp only [List.length_cons]); omega)
        · rintro x (h | h)
          · rcases (inList_cons _ _ _).1 h with h | h
            · simp only at h; omega
            · have := hr1 x h; omega
          · exact hr2 x h
        · intro x; simp only [inList_cons]
          generalize InList (List.drop i p1.list) x = P
          generalize InList (List.drop j p2.list) x = Q
          by_cases P <;> by_cases Q <;> simp [*] <;> omega
        · intro x; simp only [isCut_cons]
          generalize IsCut (List.drop i p1.list) x = P
          generalize IsCut (List.drop j p2.list) x = Q
          by_cases P <;> by_cases Q <;> simp [*] <;> omega
      by_cases c3 : c < a
      · -- overlap, c < a: emit [c, a-1]
        have hs2n : Sorted (⟨a, d⟩ :: List.drop j p2.list) :=
          sorted_cons.2 ⟨⟨by simp only; omega, h6⟩, hlt2, hs2'⟩
        refine spec_step (s := c) (e := a - 1) ?_
          (ih _ _ _ _ _ _ _ _ _ (.inr rfl) (.inr rfl) hs1 hs2n ?_) ⟨by omega, by omega⟩ ?_ ?_ ?_
        · rw [mergeLoop, if_pos e1, if_neg c1, if_neg c2, if_pos c3]
        · rw [mu_cons_cons] at hmu ⊢; simp only [ite_true] at hmu ⊢; split at hmu <;> omega
        · rintro x (h | h)
          · rcases (inList_cons _ _ _).1 h with h | h
            · simp only at h; omega
            · have := hr1 x h; omega
          · rcases (inList_cons _ _ _).1 h with h | h
            · simp only at h; omega
            · have := hr2 x h; omega
        · intro x; simp only [inList_cons]
          generalize InList (List.drop i p1.list) x = P
          generalize InList (List.drop j p2.list) x = Q
          by_cases P <;> by_cases Q <;> simp [*] <;> omega
        · intro x; simp only [isCut_cons]
          generalize IsCut (List.drop i p1.list) x = P
          generalize IsCut (List.drop j p2.list) x = Q
          by_cases P <;> by_cases Q <;> simp [*] <;> omega
      by_cases c4 : a < c
      · -- overlap, a < c: emit [a, c-1]
        have hs1n : Sorted (⟨c, b⟩ :: List.drop i p1.list) :=
          sorted_cons.2 ⟨⟨by simp only; omega, h4⟩, hlt1, hs1'⟩
        refine spec_step (s := a) (e := c - 1) ?_
          (ih _ _ _ _ _ _ _ _ _ (.inr rfl) (.inr rfl) hs1n hs2 ?_) ⟨by omega, by omega⟩ ?_ ?_ ?_
        · rw [mergeLoop, if_pos e1, if_neg c1, if_neg c2, if_neg c3, if_pos c4]
        · rw [mu_cons_cons] at hmu ⊢; simp only [ite_true] at hmu ⊢; split at hmu <;> omega
        · rintro x (h | h)
          · rcases (inList_cons _ _ _).1 h with h | h
            · simp only at h; omega
            · have := hr1 x h; omega
          · rcases (inList_cons _ _ _).1 h with h | h
            · simp only at h; omega
            · have := hr2 x h; omega
        · intro x; simp only [inList_cons]
          generalize InList (List.drop i p1.list) x = P
          generalize InList (List.drop j p2.list) x = Q
          by_cases P <;> by_cases Q <;> simp [*] <;> omega
        · intro x; simp only [isCut_cons]
          generalize IsCut (List.drop i p1.list) x = P
          generalize IsCut (List.drop j p2.list) x = Q
          by_cases P <;> by_cases Q <;> simp [*] <;> omega
      have hac : a = c := by omega
      subst hac
      by_cases c5 : b < d
      · -- [a,b] is a proper prefix of [a,d]
        have hs2n : Sorted (⟨b + 1, d⟩ :: List.drop j p2.list) :=
          sorted_cons.2 ⟨⟨by simp only; omega, h6⟩, hlt2, hs2'⟩
        refine spec_step (s := a) (e := b) ?_
          (ih _ _ _ _ _ _ _ _ _ (st_next p1 i) (.inr rfl) hs1' hs2n ?_) ⟨h3, h4⟩ ?_ ?_ ?_
        · rw [mergeLoop, if_pos e1, if_neg c1, if_neg c2, if_neg c3, if_neg c4,
            if_pos c5]; rfl
        · exact mu_dec hmu (by (try simp only [List.length_cons]); omega)
        · rintro x (h | h)
          · exact hr1 x h
          · rcases (inList_cons _ _ _).1 h with h | h
            · simp only at h; omega
            · have := hr2 x h; omega
        · intro x; simp only [inList_cons]
          generalize InList (List.drop i p1.list) x = P
          generalize InList (List.drop j p2.list) x = Q
          by_cases P <;> by_cases Q <;> simp [*] <;> omega
        · intro x; simp only [isCut_cons]
          generalize IsCut (List.drop i p1.list) x = P
          generalize IsCut (List.drop j p2.list) x = Q
          by_cases P <;> by_cases Q <;> simp [*] <;> omega
      by_cases c6 : d < b
      · -- [a,d] is a proper prefix of [a,b]
        have hs1n : Sorted (⟨d + 1, b⟩ :: List.drop i p1.list) :=
          sorted_cons.2 ⟨⟨by simp only; omega, h4⟩, hlt1, hs1'⟩
        refine spec_step (s := a) (e := d) ?_
          (ih _ _ _ _ _ _ _ _ _ (.inr rfl) (st_next p2 j) hs1n hs2' ?_) ⟨h5, h6⟩ ?_ ?_ ?_
        · rw [mergeLoop, if_pos e1, if_neg c1, if_neg c2, if_neg c3, if_neg c4,
            if_neg c5, if_pos c6]; rfl
        · exact mu_dec hmu (by (try simp only [List.length_cons]); omega)
        · rintro x (h | h)
          · rcases (inList_cons _ _ _).1 h with h | h
            · simp only at h; omega
            · have := hr1 x h; omega
          · exact hr2 x h
        · intro x; simp only [inList_cons]
          generalize InList (List.drop i p1.list) x = P
          generalize InList (List.drop j p2.list) x = Q
          by_cases P <;> by_cases Q <;> simp [*] <;> omega
        · intro x; simp only [isCut_cons]
          generalize IsCut (List.drop i p1.list) x = P
          generalize IsCut (List.drop j p2.list) x = Q
          by_cases P <;> by_cases Q <;> simp [*] <;> omega
      · -- [a,b] = [a,d]
        have hbd : b = d := by omega
        subst hbd
        refine spec_step (s := a) (e := b) ?_
          (ih _ _ _ _ _ _ _ _ _ (st_next p1 i) (st_next p2 j) hs1' hs2' ?_) ⟨h3, h4⟩ ?_ ?_ ?_
        · rw [mergeLoop, if_pos e1, if_neg c1, if_neg c2,
            if_neg c3, if_neg c4, if_neg c5, if_neg c6]; rfl
        · exact mu_dec hmu (by (try simp only [List.length_cons]); omega)
        · rintro x (h | h)
          · exact hr1 x h
          · exact hr2 x h
        · intro x; simp only [inList_cons]
          generalize InList (List.drop i p1.list) x = P
          generalize InList (List.drop j p2.list) x = Q
          by_cases P <;> by_cases Q <;> simp [*] <;> omega
        · intro x; simp only [isCut_cons]
          generalize IsCut (List.drop i p1.list) x = P
          generalize IsCut (List.drop j p2.list) x = Q
          by_cases P <;> by_cases Q <;> simp [*] <;> omega

/-- `merge_partitions` on sorted inputs: the fuel suffices, the result is the `push`-built
    partition of a sorted list whose union / cut points are the unions of those of the inputs -/
theorem merge_spec {p1 p2 : CharPartition} (h1 : Sorted p1.list) (h2 : Sorted p2.list) :
    ∃ m, mergePartitions? p1 p2 = some (pushAll CharPartition.new m) ∧ Sorted m ∧
      (∀ x, InList m x ↔ InList p1.list x ∨ InList p2.list x) ∧
      (∀ x, IsCut m x ↔ IsCut p1.list x ∨ IsCut p2.list x) := by
  unfold mergePartitions?
  rw [nextInterval_eq, nextInterval_eq]
  apply mergeLoop_spec p1 p2 _ _ _ _ _ _ _ _ _ _ (st_init p1) (st_init p2) h1 h2
  have := mu_le p1.list p2.list
  simp only [mergeFuel, CharPartition.len]
  omega

/-! ### a sorted list is determined by its union and its cut points -/

/-- `x` is the start of an interval of `l` -/
def IsStart (l : List CharSet) (x : Nat) : Prop := ∃ s ∈ l, x = s.start

theorem Sorted.disjoint {l : List CharSet} (h : Sorted l) {s t : CharSet} (hs : s ∈ l)
    (ht : t ∈ l) : s = t ∨ s.stop < t.start ∨ t.stop < s.start := by
  induction l with
  | nil => cases hs
  | cons u l ih =>
    obtain ⟨_, hlt, hl⟩ := sorted_cons.1 h
    rcases List.mem_cons.1 hs with rfl | hs' <;> rcases List.mem_cons.1 ht with rfl | ht'
    · exact .inl rfl
    · exact .inr (.inl (hlt _ ht'))
    · exact .inr (.inr (hlt _ hs'))
    · exact ih hl hs' ht'

theorem isStart_iff {l : List CharSet} (h : Sorted l) (x : Nat) :
    IsStart l x ↔ IsCut l x ∧ InList l x := by
  constructor
  · rintro ⟨s, hs, rfl⟩
    exact ⟨⟨s, hs, .inl rfl⟩, ⟨s, hs, Nat.le_refl _, (h.1 s hs).1⟩⟩
  · rintro ⟨⟨t, ht, hc | hc⟩, ⟨u, hu, h1, h2⟩⟩
    · exact ⟨t, ht, hc⟩
    · have hwt := (h.1 t ht).1
      rcases h.disjoint ht hu with rfl | hd | hd
      · omega
      · exact ⟨u, hu, by omega⟩
      · omega

theorem Sorted.head_le {s : CharSet} {r : List CharSet} (h : Sorted (s :: r)) {x : Nat}
    (hx : InList (s :: r) x) : s.start ≤ x := by
  rcases (inList_cons _ _ _).1 hx with hx | hx
  · exact hx.1
  · have := h.lt_of_inList hx
    have := (sorted_cons.1 h).1.1
    omega

theorem sorted_ext_start {l l' : List CharSet} (h : Sorted l) (h' : Sorted l')
    (hS : ∀ x, InList l x ↔ InList l' x) (hB : ∀ x, IsStart l x ↔ IsStart l' x) : l = l' := by
  induction l generalizing l' with
  | nil =>
    cases l' with
    | nil => rfl
    | cons s r =>
      have := (hS s.start).2 ⟨s, by simp, Nat.le_refl _, (h'.1 s (by simp)).1⟩
      simp at this
  | cons s r ih =>
    cases l' with
    | nil =>
      have := (hS s.start).1 ⟨s, by simp, Nat.le_refl _, (h.1 s (by simp)).1⟩
      simp at this
    | cons s' r' =>
      obtain ⟨hw, hlt, hr⟩ := sorted_cons.1 h
      obtain ⟨hw', hlt', hr'⟩ := sorted_cons.1 h'
      have e1 := hw.1; have e2 := hw'.1
      -- the heads start at the same point
      have hst : s.start = s'.start := by
        have a1 := h'.head_le ((hS s.start).1 ⟨s, by simp, Nat.le_refl _, e1⟩)
        have a2 := h.head_le ((hS s'.start).2 ⟨s', by simp, Nat.le_refl _, e2⟩)
        omega
      -- ... and stop at the same point
      have key : ∀ {s s' : CharSet} {r r' : List CharSet}, Sorted (s :: r) → Sorted (s' :: r') →
          (∀ x, InList (s :: r) x ↔ InList (s' :: r') x) →
          (∀ x, IsStart (s :: r) x ↔ IsStart (s' :: r') x) →
          s.start = s'.start → ¬ s.stop < s'.stop := by
        intro s s' r r' h h' hS hB hst hlt
        obtain ⟨hw, hl, _⟩ := sorted_cons.1 h
        obtain ⟨hw', hl', _⟩ := sorted_cons.1 h'
        have e1 := hw.1
        have hin : InList (s :: r) (s.stop + 1) :=
          (hS _).2 ((inList_cons _ _ _).2 (.inl ⟨by omega, by omega⟩))
        rcases (inList_cons _ _ _).1 hin with hc | ⟨t, ht, ht1, ht2⟩
        · omega
        · have := hl t ht
          have hstart : IsStart (s' :: r') (s.stop + 1) :=
            (hB _).1 ⟨t, by simp [ht], by omega⟩
          obtain ⟨u, hu, hue⟩ := hstart
          rcases List.mem_cons.1 hu with rfl | hu'
          · omega
          · have := hl' u hu'; omega
      have hsp : s.stop = s'.stop := by
        have a1 := key h h' hS hB hst
        have a2 := key h' h (fun x => (hS x).symm) (fun x => (hB x).symm) hst.symm
        omega
      have hss : s = s' := by
        cases s; cases s'; simp_all
      subst hss
      congr 1
      apply ih hr hr'
      · intro x
        constructor
        · intro hx
          have hgt := h.lt_of_inList hx
          rcases (inList_cons _ _ _).1 ((hS x).1 ((inList_cons _ _ _).2 (.inr hx))) with hc | hc
          · omega
          · exact hc
        · intro hx
          have hgt := h'.lt_of_inList hx
          rcases (inList_cons _ _ _).1 ((hS x).2 ((inList_cons _ _ _).2 (.inr hx))) with hc | hc
          · omega
          · exact hc
      · intro x
        constructor
        · rintro ⟨t, ht, rfl⟩
          have := hlt t ht
          obtain ⟨u, hu, hue⟩ := (hB t.start).1 ⟨t, by simp [ht], rfl⟩
          rcases List.mem_cons.1 hu with rfl | hu'
          · omega
          · exact ⟨u, hu', hue⟩
        · rintro ⟨t, ht, rfl⟩
          have := hlt' t ht
          obtain ⟨u, hu, hue⟩ := (hB t.start).2 ⟨t, by simp [ht], rfl⟩
          rcases List.mem_cons.1 hu with rfl | hu'
          · omega
          · exact ⟨u, hu', hue⟩

/-- a sorted list is determined by its union and its cut points -/
theorem sorted_ext {l l' : List CharSet} (h : Sorted l) (h' : Sorted l')
    (hS : ∀ x, InList l x ↔ InList l' x) (hC : ∀ x, IsCut l x ↔ IsCut l' x) : l = l' := by
  apply sorted_ext_start h h' hS
  intro x
  rw [isStart_iff h, isStart_iff h', hS x, hC x]

/-! ### classes, unions and cut points -/

/-- no cut point in `(x, y]`: `x` and `y` belong to the same intervals -/
theorem mem_iff_of_no_cut {l : List CharSet} {x y : Nat} (hxy : x ≤ y)
    (hc : ∀ z, x < z → z ≤ y → ¬ IsCut l z) {s : CharSet} (hs : s ∈ l) :
    (s.start ≤ x ∧ x ≤ s.stop) ↔ (s.start ≤ y ∧ y ≤ s.stop) := by
  have c1 := fun h1 h2 => hc s.start h1 h2 ⟨s, hs, .inl rfl⟩
  have c2 := fun h1 h2 => hc (s.stop + 1) h1 h2 ⟨s, hs, .inr rfl⟩
  constructor
  · rintro ⟨h1, h2⟩
    refine ⟨by omega, ?_⟩
    rcases Nat.lt_or_ge s.stop y with h | h
    · exact absurd (by omega) (c2 (by omega))
    · exact h
  · rintro ⟨h1, h2⟩
    refine ⟨?_, by omega⟩
    rcases Nat.lt_or_ge x s.start with h | h
    · exact absurd h1 (c1 h)
    · exact h

theorem cls_eq_of_no_cut {p : CharPartition} (hp : Sorted p.list) {x y : Nat} (hxy : x ≤ y)
    (hc : ∀ z, x < z → z ≤ y → ¬ IsCut p.list z) : cls p x = cls p y :=
  (cls_eq_iff_mem hp x y).2 (fun _ hs => mem_iff_of_no_cut hxy hc hs)

/-- two points of one interval have no cut point between them -/
theorem no_cut_of_cls_eq {p : CharPartition} (hp : Sorted p.list) {x y : Nat} (_hxy : x ≤ y)
    (he : cls p x = cls p y) (hn : cls p x ≠ .complement) :
    ∀ z, x < z → z ≤ y → ¬ IsCut p.list z := by
  intro z hz1 hz2 ⟨t, ht, hcut⟩
  have hx : InList p.list x := Classical.not_not.1 (fun h => hn ((cls_eq_complement_iff p x).2 h))
  obtain ⟨s, hs, hxs⟩ := hx
  have hys := ((cls_eq_iff_mem hp x y).1 he s hs).1 hxs
  have hwt := (hp.1 t ht).1
  rcases hp.disjoint hs ht with rfl | hd | hd <;> omega

theorem cls_ne_of_cut {p : CharPartition} (hp : Sorted p.list) {z : Nat}
    (hc : IsCut p.list (z + 1)) : cls p z ≠ cls p (z + 1) := by
  obtain ⟨t, ht, hcut⟩ := hc
  intro he
  have := (cls_eq_iff_mem hp z (z + 1)).1 he t ht
  have hwt := (hp.1 t ht).1
  omega

theorem isCut_succ_iff {p : CharPartition} (hp : Sorted p.list) (z : Nat) :
    IsCut p.list (z + 1) ↔ cls p z ≠ cls p (z + 1) := by
  constructor
  · exact cls_ne_of_cut hp
  · intro hne
    apply Classical.byContradiction
    intro hnc
    apply hne
    apply cls_eq_of_no_cut hp (Nat.le_succ z)
    intro w h1 h2
    have : w = z + 1 := by omega
    subst this; exact hnc

theorem isCut_zero_iff (l : List CharSet) : IsCut l 0 ↔ InList l 0 := by
  constructor
  · rintro ⟨s, hs, h | h⟩
    · exact ⟨s, hs, by omega, by omega⟩
    · omega
  · rintro ⟨s, hs, h1, _⟩
    exact ⟨s, hs, .inl (by omega)⟩

end Smt.CharPartition
