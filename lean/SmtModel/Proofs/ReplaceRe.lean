/-
  Helper lemmas for C10 (regex search / replace): what the two loops of `naive_re_search`
  compute, stated with `List.take` / `List.drop` and `RE.lang` only.

  * `matchFrom_some` / `matchFrom_none`: the inner loop returns the length of the SHORTEST
    NON-EMPTY prefix of the remaining string that belongs to the language (the syntactic
    `is_empty` cut-off is sound: the derivative is literally `.empty`, whose language is empty, so
    no longer prefix can match);
  * `searchFrom_some` / `searchFrom_none`: the outer loop returns the LEFTMOST start position that
    has a non-empty match, with the shortest match there.

  Hypotheses: `DerivFacts ord Good` (C03, Proofs/DerivFacts.lean), `Good pattern`, `WFs string`.
-/
import SmtModel.Proofs.DerivFacts
import SmtModel.Model.ReplaceRe

namespace Smt
namespace RE

variable {ord : RE → Nat} {Good : RE → Prop}

theorem isEmpty_eq (p : RE) (h : p.isEmpty = true) : p = .empty := by
  cases p <;> simp [isEmpty] at h ⊢

theorem mem_deriv_lang (F : DerivFacts ord Good) {p : RE} {c : ℕ} (hg : Good p) (hc : c ≤ MAX_CHAR)
    (w : List ℕ) : w ∈ (deriv ord p c).lang ↔ c :: w ∈ p.lang := by
  rw [F.deriv_lang p c hg hc]; exact Iff.rfl

/-- the inner loop found a match: it is the shortest non-empty matching prefix -/
theorem matchFrom_some (F : DerivFacts ord Good) :
    ∀ (rest : List ℕ) (p : RE) (n m : ℕ), Good p → WFs rest → matchFrom ord p rest n = some m →
      ∃ len, m = n + len ∧ 1 ≤ len ∧ len ≤ rest.length ∧ rest.take len ∈ p.lang ∧
        ∀ l, 1 ≤ l → l < len → rest.take l ∉ p.lang := by
  intro rest
  induction rest with
  | nil => intro p n m _ _ h; simp [matchFrom] at h
  | cons c rest ih =>
    intro p n m hg hw h
    have hc : c ≤ MAX_CHAR := hw c List.mem_cons_self
    have hw' : WFs rest := fun x hx => hw x (List.mem_cons_of_mem _ hx)
    have hg' := F.deriv_good p c hg hc
    have hn := F.nullable_iff _ hg'
    simp only [matchFrom] at h
    split at h
    · rename_i hnull
      simp only [Option.some.injEq] at h
      subst h
      refine ⟨1, rfl, Nat.le_refl _, by simp, ?_, fun l h1 h2 => by omega⟩
      simp only [List.take_succ_cons, List.take_zero]
      exact (mem_deriv_lang F hg hc []).1 (hn.1 hnull)
    · rename_i hnull
      split at h
      · cases h
      · obtain ⟨len, rfl, h1, h2, h3, h4⟩ := ih _ (n + 1) m hg' hw' h
        refine ⟨len + 1, by omega, by omega, by simp; omega, ?_, ?_⟩
        · simp only [List.take_succ_cons]
          exact (mem_deriv_lang F hg hc _).1 h3
        · intro l hl1 hl2
          obtain ⟨l', rfl⟩ : ∃ l', l = l' + 1 := ⟨l - 1, by omega⟩
          simp only [List.take_succ_cons]
          intro hmem
          have hmem' := (mem_deriv_lang F hg hc _).2 hmem
          rcases Nat.eq_zero_or_pos l' with h0 | hpos
          · subst h0
            simp only [List.take_zero] at hmem'
            exact hnull (hn.2 hmem')
          · exact h4 l' hpos (by omega) hmem'

/-- the inner loop found nothing: no non-empty prefix matches -/
theorem matchFrom_none (F : DerivFacts ord Good) :
    ∀ (rest : List ℕ) (p : RE) (n : ℕ), Good p → WFs rest → matchFrom ord p rest n = none →
      ∀ l, 1 ≤ l → l ≤ rest.length → rest.take l ∉ p.lang := by
  intro rest
  induction rest with
  | nil =>
    intro p n _ _ _ l hl hl2
    simp only [List.length_nil] at hl2
    omega
  | cons c rest ih =>
    intro p n hg hw h l hl1 hl2
    have hc : c ≤ MAX_CHAR := hw c List.mem_cons_self
    have hw' : WFs rest := fun x hx => hw x (List.mem_cons_of_mem _ hx)
    have hg' := F.deriv_good p c hg hc
    have hn := F.nullable_iff _ hg'
    obtain ⟨l', rfl⟩ : ∃ l', l = l' + 1 := ⟨l - 1, by omega⟩
    simp only [List.take_succ_cons]
    intro hmem
    have hmem' := (mem_deriv_lang F hg hc _).2 hmem
    simp only [matchFrom] at h
    split at h
    · cases h
    · rename_i hnull
      split at h
      · rename_i hemp
        rw [isEmpty_eq _ hemp] at hmem'
        simp only [lang] at hmem'
        exact Language.notMem_zero _ hmem'
      · rcases Nat.eq_zero_or_pos l' with h0 | hpos
        · subst h0
          simp only [List.take_zero] at hmem'
          exact hnull (hn.2 hmem')
        · simp only [List.length_cons] at hl2
          exact ih _ (n + 1) hg' hw' h l' hpos (by omega) hmem'

/-- the outer loop found a match `(a, b)`: `a = i + d` is the leftmost start with a non-empty
    match and `b - a` is the length of the shortest non-empty match there -/
theorem searchFrom_some (F : DerivFacts ord Good) (r : RE) (hg : Good r) :
    ∀ (rest : List ℕ) (i a b : ℕ), WFs rest → searchFrom ord r rest i = some (a, b) →
      ∃ d len, a = i + d ∧ b = a + len ∧ 1 ≤ len ∧ d + len ≤ rest.length ∧
        (rest.drop d).take len ∈ r.lang ∧
        (∀ l, 1 ≤ l → l < len → (rest.drop d).take l ∉ r.lang) ∧
        (∀ d' l, d' < d → 1 ≤ l → d' + l ≤ rest.length → (rest.drop d').take l ∉ r.lang) := by
  intro rest
  induction rest with
  | nil => intro i a b _ h; simp [searchFrom] at h
  | cons c rest ih =>
    intro i a b hw h
    have hw' : WFs rest := fun x hx => hw x (List.mem_cons_of_mem _ hx)
    simp only [searchFrom] at h
    cases hm : matchFrom ord r (c :: rest) 0 with
    | some m =>
      rw [hm] at h
      simp only [Option.some.injEq, Prod.mk.injEq] at h
      obtain ⟨rfl, rfl⟩ := h
      obtain ⟨len, rfl, h1, h2, h3, h4⟩ := matchFrom_some F _ r 0 m hg hw hm
      refine ⟨0, len, rfl, by omega, h1, by omega, by simpa using h3, ?_, ?_⟩
      · intro l hl1 hl2; simpa using h4 l hl1 hl2
      · intro d' l hd; omega
    | none =>
      rw [hm] at h
      have hnone := matchFrom_none F _ r 0 hg hw hm
      obtain ⟨d, len, rfl, rfl, h1, h2, h3, h4, h5⟩ := ih (i + 1) a b hw' h
      refine ⟨d + 1, len, by omega, by omega, h1, by simp only [List.length_cons]; omega,
        by simpa using h3, ?_, ?_⟩
      · intro l hl1 hl2; simpa using h4 l hl1 hl2
      · intro d' l hd hl1 hl2
        cases d' with
        | zero =>
          simp only [List.drop_zero]
          exact hnone l hl1 (by omega)
        | succ d'' =>
          simp only [List.drop_succ_cons]
          simp only [List.length_cons] at hl2
          exact h5 d'' l (by omega) hl1 (by omega)

/-- the outer loop found nothing: there is no non-empty match at all -/
theorem searchFrom_none (F : DerivFacts ord Good) (r : RE) (hg : Good r) :
    ∀ (rest : List ℕ) (i : ℕ), WFs rest → searchFrom ord r rest i = none →
      ∀ d l, 1 ≤ l → d + l ≤ rest.length → (rest.drop d).take l ∉ r.lang := by
  intro rest
  induction rest with
  | nil =>
    intro i _ _ d l hl1 hl2
    simp only [List.length_nil] at hl2
    omega
  | cons c rest ih =>
    intro i hw h d l hl1 hl2
    have hw' : WFs rest := fun x hx => hw x (List.mem_cons_of_mem _ hx)
    simp only [searchFrom] at h
    cases hm : matchFrom ord r (c :: rest) 0 with
    | some m => rw [hm] at h; cases h
    | none =>
      rw [hm] at h
      cases d with
      | zero =>
        simp only [List.drop_zero]
        exact matchFrom_none F _ r 0 hg hw hm l hl1 (by omega)
      | succ d' =>
        simp only [List.drop_succ_cons]
        simp only [List.length_cons] at hl2
        exact ih (i + 1) hw' h d' l hl1 (by omega)

end RE
end Smt
