/-
  Helper lemmas for C14: well-formed automata, `mapOpt`, `edges`, `next`.
  Mathlib-free.
-/
import SmtModel.Model.Automaton
import SmtModel.Proofs.AutomatonState

namespace Smt
open CharPartition

/-! ### `mapOpt` -/

theorem mapOpt_some_iff {α β} (f : α → Option β) (l : List α) (r : List β) :
    mapOpt f l = some r ↔
      r.length = l.length ∧ ∀ i (h : i < l.length) (h' : i < r.length), f l[i] = some r[i] := by
  induction l generalizing r with
  | nil =>
    simp only [mapOpt, Option.some.injEq, List.length_nil]
    constructor
    · rintro rfl; exact ⟨rfl, fun i h => by cases h⟩
    · rintro ⟨h, _⟩; exact (List.eq_nil_of_length_eq_zero h).symm
  | cons a l ih =>
    simp only [mapOpt]
    cases hfa : f a with
    | none =>
      simp only [reduceCtorEq, false_iff, not_and]
      intro hlen h
      cases r with
      | nil => simp at hlen
      | cons b r =>
        have := h 0 (by simp) (by simp)
        simp [hfa] at this
    | some b =>
      cases hm : mapOpt f l with
      | none =>
        simp only [reduceCtorEq, false_iff, not_and]
        intro hlen h
        cases r with
        | nil => simp at hlen
        | cons b' r =>
          have := (ih r).2 ⟨by simpa using hlen, fun i hi hi' => by
            have := h (i + 1) (by simp; omega) (by simp; omega)
            simpa using this⟩
          rw [hm] at this; cases this
      | some bs =>
        simp only [Option.some.injEq]
        constructor
        · rintro rfl
          obtain ⟨hl, hg⟩ := (ih bs).1 hm
          refine ⟨by simp [hl], ?_⟩
          intro i hi hi'
          cases i with
          | zero => simpa using hfa
          | succ i => simpa using hg i (by simpa using hi) (by simpa using hi')
        · rintro ⟨hlen, h⟩
          cases r with
          | nil => simp at hlen
          | cons b' r =>
            have h0 := h 0 (by simp) (by simp)
            simp only [List.getElem_cons_zero, hfa, Option.some.injEq] at h0
            have := (ih r).2 ⟨by simpa using hlen, fun i hi hi' => by
              have := h (i + 1) (by simp; omega) (by simp; omega)
              simpa using this⟩
            rw [hm] at this
            cases this
            rw [h0]

theorem mapOpt_isSome {α β} (f : α → Option β) (l : List α) (h : ∀ a ∈ l, ∃ b, f a = some b) :
    ∃ r, mapOpt f l = some r := by
  induction l with
  | nil => exact ⟨[], rfl⟩
  | cons a l ih =>
    obtain ⟨b, hb⟩ := h a (by simp)
    obtain ⟨r, hr⟩ := ih (fun x hx => h x (by simp [hx]))
    exact ⟨b :: r, by simp [mapOpt, hb, hr]⟩

theorem mapOpt_mem {α β} {f : α → Option β} {l : List α} {r : List β} (h : mapOpt f l = some r)
    (b : β) : b ∈ r ↔ ∃ a ∈ l, f a = some b := by
  obtain ⟨hlen, hg⟩ := (mapOpt_some_iff f l r).1 h
  constructor
  · intro hb
    obtain ⟨i, hi, rfl⟩ := List.getElem_of_mem hb
    exact ⟨l[i]'(by omega), List.getElem_mem _, hg i (by omega) hi⟩
  · rintro ⟨a, ha, hfa⟩
    obtain ⟨i, hi, rfl⟩ := List.getElem_of_mem ha
    have := hg i hi (by omega)
    rw [hfa] at this
    cases this
    exact List.getElem_mem _

theorem mapOpt_none_of {α β} {f : α → Option β} {l : List α} {a : α} (ha : a ∈ l)
    (hf : f a = none) : mapOpt f l = none := by
  cases h : mapOpt f l with
  | none => rfl
  | some r =>
    obtain ⟨hlen, hg⟩ := (mapOpt_some_iff f l r).1 h
    obtain ⟨i, hi, rfl⟩ := List.getElem_of_mem ha
    have := hg i hi (by omega)
    rw [hf] at this; cases this

/-! ### well-formed automata -/

/-- a state of an automaton with `n` states -/
structure StateWF (n : Nat) (s : State) : Prop where
  classes : s.classes.WF
  succLen : s.successor.length = s.classes.len
  succBound : ∀ j ∈ s.successor, j < n
  defBound : ∀ d, s.defaultSuccessor = some d → d < n
  /-- a default successor exists exactly when the complementary class is non-empty -/
  defValid : s.defaultSuccessor.isSome = !s.classes.emptyComplement

/-- the invariant of every automaton the crate hands out -/
structure AutWF (A : Automaton) : Prop where
  num : A.numStates = A.states.length
  ids : ∀ i (h : i < A.states.length), (A.states[i]).id = i
  init : A.initialState < A.states.length
  states : ∀ s ∈ A.states, StateWF A.states.length s
  numFinal : A.numFinalStates = (A.states.filter (·.isFinal)).length

theorem AutWF.state_id {A : Automaton} (h : AutWF A) {i : Nat} {s : State}
    (hs : A.states[i]? = some s) : s.id = i := by
  obtain ⟨hi, rfl⟩ := List.getElem?_eq_some_iff.1 hs
  exact h.ids i hi

theorem AutWF.state_wf {A : Automaton} (h : AutWF A) {i : Nat} {s : State}
    (hs : A.states[i]? = some s) : StateWF A.states.length s := by
  obtain ⟨hi, rfl⟩ := List.getElem?_eq_some_iff.1 hs
  exact h.states _ (List.getElem_mem hi)

/-! ### `class_next`, `next` -/

/-- the successor index stored for a class id -/
def State.rawClassNext (s : State) : ClassId → Option Nat
  | .interval i => s.successor[i]?
  | .complement => s.defaultSuccessor

theorem Automaton.classNext_eq (A : Automaton) (s : State) (cid : ClassId) :
    A.classNext s cid =
      if s.validClassId cid then (s.rawClassNext cid).bind (fun j => A.states[j]?) else none := by
  unfold Automaton.classNext State.rawClassNext
  split
  · cases cid with
    | interval i => dsimp only; cases s.successor[i]? <;> rfl
    | complement => dsimp only; cases s.defaultSuccessor <;> rfl
  · rfl

/-- in a well-formed state every valid class id has a successor index in range -/
theorem StateWF.rawClassNext_valid {n : Nat} {s : State} (h : StateWF n s) {cid : ClassId}
    (hv : s.validClassId cid = true) : ∃ j, s.rawClassNext cid = some j ∧ j < n := by
  cases cid with
  | interval i =>
    simp only [State.validClassId, validClassId, decide_eq_true_eq] at hv
    have hi : i < s.successor.length := by rw [h.succLen]; exact hv
    exact ⟨s.successor[i], by simp [State.rawClassNext, hi],
      h.succBound _ (List.getElem_mem hi)⟩
  | complement =>
    simp only [State.validClassId, validClassId] at hv
    have := h.defValid
    rw [hv] at this
    obtain ⟨d, hd⟩ := Option.isSome_iff_exists.1 this
    exact ⟨d, hd, h.defBound d hd⟩

/-- the class of a character of the alphabet is a valid class id -/
theorem StateWF.valid_classOfChar {n : Nat} {s : State} (h : StateWF n s) {c : Nat}
    (hc : c ≤ MAX_CHAR) : s.validClassId (s.classes.classOfChar c) = true := by
  rw [classOfChar_eq_cls h.classes.1]
  cases hcls : cls s.classes c with
  | interval k =>
    obtain ⟨hk, _⟩ := (cls_eq_interval_iff h.classes.1 c k).1 hcls
    simp [State.validClassId, validClassId, CharPartition.len, hk]
  | complement =>
    have hnot := (cls_eq_complement_iff s.classes c).1 hcls
    simp only [State.validClassId, validClassId, Bool.not_eq_true', emptyComplement,
      decide_eq_false_iff_not]
    intro hgt
    exact hnot (h.classes.2.2.2 c (by omega))

/-- **totality**: in a well-formed automaton `next` is defined on the whole alphabet -/
theorem AutWF.next_total {A : Automaton} (h : AutWF A) {s : State} (hs : s ∈ A.states) {c : Nat}
    (hc : c ≤ MAX_CHAR) : ∃ t, A.next s c = some t ∧ t ∈ A.states := by
  have hw := h.states s hs
  have hv := hw.valid_classOfChar hc
  obtain ⟨j, hj, hjn⟩ := hw.rawClassNext_valid hv
  refine ⟨A.states[j], ?_, List.getElem_mem hjn⟩
  unfold Automaton.next
  rw [Automaton.classNext_eq, if_pos hv, hj]
  simp [hjn]

/-! ### `edges` -/

/-- the successor indices `edges` follows, in order -/
def State.edgeTargets (s : State) : List Nat :=
  (s.successor.take s.numSuccessors) ++ s.defaultSuccessor.toList

theorem Automaton.edges_some_iff (A : Automaton) (s : State) (es : List (ClassId × State)) :
    A.edges s = some es ↔
      ∃ ivs : List (ClassId × State),
        ivs.length = s.numSuccessors ∧
        (∀ i (h : i < s.numSuccessors) (h' : i < ivs.length),
          ∃ j, s.successor[i]? = some j ∧ A.states[j]? = some (ivs[i]).2 ∧
            (ivs[i]).1 = .interval i) ∧
        ((s.defaultSuccessor = none ∧ es = ivs) ∨
         ∃ d t, s.defaultSuccessor = some d ∧ A.states[d]? = some t ∧
           es = ivs ++ [(.complement, t)]) := by
  unfold Automaton.edges
  constructor
  · intro h
    split at h
    · cases h
    · rename_i ivs hivs
      obtain ⟨hlen, hg⟩ := (mapOpt_some_iff _ _ _).1 hivs
      simp only [List.length_range] at hlen
      refine ⟨ivs, hlen, ?_, ?_⟩
      · intro i hi hi'
        have := hg i (by simpa using hi) hi'
        simp only [List.getElem_range, Automaton.edgeAt] at this
        cases hsi : s.successor[i]? with
        | none => rw [hsi] at this; cases this
        | some j =>
          rw [hsi] at this
          simp only at this
          cases hj : A.states[j]? with
          | none => rw [hj] at this; cases this
          | some t =>
            rw [hj] at this
            simp only [Option.map_some, Option.some.injEq] at this
            exact ⟨j, rfl, by rw [← this]; exact hj, by rw [← this]⟩
      · split at h
        · rename_i hd
          cases h
          exact .inl ⟨hd, rfl⟩
        · rename_i d hd
          split at h
          · cases h
          · rename_i t ht
            cases h
            exact .inr ⟨d, t, hd, ht, rfl⟩
  · rintro ⟨ivs, hlen, hiv, hd⟩
    have hm : mapOpt (A.edgeAt s) (List.range s.numSuccessors) = some ivs := by
      rw [mapOpt_some_iff]
      refine ⟨by simpa using hlen, ?_⟩
      intro i hi hi'
      simp only [List.length_range] at hi
      obtain ⟨j, hj, ht, hc⟩ := hiv i hi hi'
      simp only [List.getElem_range, Automaton.edgeAt, hj, ht, Option.map_some, Option.some.injEq]
      rw [← hc]
    rw [hm]
    rcases hd with ⟨hd, rfl⟩ | ⟨d, t, hd, ht, rfl⟩
    · simp [hd]
    · simp [hd, ht]

/-- in a well-formed automaton `edges` never fails -/
theorem AutWF.edges_isSome {A : Automaton} (h : AutWF A) {s : State} (hs : s ∈ A.states) :
    ∃ es, A.edges s = some es := by
  have hw := h.states s hs
  unfold Automaton.edges
  have : ∃ ivs, mapOpt (A.edgeAt s) (List.range s.numSuccessors) = some ivs := by
    apply mapOpt_isSome
    intro i hi
    simp only [List.mem_range, State.numSuccessors] at hi
    have hi' : i < s.successor.length := by rw [hw.succLen]; exact hi
    have hb := hw.succBound _ (List.getElem_mem hi')
    exact ⟨(.interval i, A.states[s.successor[i]]), by simp [Automaton.edgeAt, hi', hb]⟩
  obtain ⟨ivs, hivs⟩ := this
  rw [hivs]
  cases hd : s.defaultSuccessor with
  | none => exact ⟨_, rfl⟩
  | some d =>
    have hb := hw.defBound d hd
    simp [hb]

/-- **edges_next**: in a well-formed automaton, `edges(s)` yields exactly the pairs
    `(cid, class_next(s, cid))` for the valid class ids of `s` — the transition structure `next`
    uses — and yields the class ids in the order of `class_ids()` -/
theorem AutWF.edges_next {A : Automaton} (h : AutWF A) {s : State} (hs : s ∈ A.states)
    {es : List (ClassId × State)} (he : A.edges s = some es) :
    (∀ cid t, (cid, t) ∈ es ↔ (s.validClassId cid = true ∧ A.classNext s cid = some t)) ∧
    es.map (·.1) = s.classes.classIds := by
  have hw := h.states s hs
  obtain ⟨ivs, hlen, hiv, hd⟩ := (A.edges_some_iff s es).1 he
  have hfst : ivs.map (·.1) = (List.range s.classes.len).map ClassId.interval := by
    apply List.ext_getElem
    · simp [hlen, State.numSuccessors]
    · intro i h1 h2
      simp only [List.length_map] at h1
      obtain ⟨_, _, _, hc⟩ := hiv i (by omega) h1
      simp [hc]
  have hmem_iv : ∀ cid t, (cid, t) ∈ ivs ↔
      ∃ i, cid = .interval i ∧ i < s.numSuccessors ∧ A.classNext s cid = some t := by
    intro cid t
    constructor
    · intro hm
      obtain ⟨i, hi, he⟩ := List.getElem_of_mem hm
      obtain ⟨j, hj, ht, hc⟩ := hiv i (by omega) hi
      rw [he] at ht hc
      simp only at ht hc
      refine ⟨i, hc, by omega, ?_⟩
      rw [Automaton.classNext_eq, hc]
      have hv : s.validClassId (.interval i) = true := by
        simp only [State.validClassId, validClassId, decide_eq_true_eq]
        have : i < s.numSuccessors := by omega
        exact this
      simp [hv, State.rawClassNext, hj, ht]
    · rintro ⟨i, rfl, hi, hn⟩
      obtain ⟨j, hj, ht, hc⟩ := hiv i hi (by omega)
      rw [Automaton.classNext_eq] at hn
      have hv : s.validClassId (.interval i) = true := by
        simp only [State.validClassId, validClassId, decide_eq_true_eq]
        exact hi
      simp only [hv, if_true, State.rawClassNext, hj, Option.bind_some] at hn
      rw [ht] at hn
      cases hn
      have hmem : ivs[i]'(by omega) ∈ ivs := List.getElem_mem _
      have : ivs[i]'(by omega) = (ClassId.interval i, (ivs[i]'(by omega)).2) := by
        rw [← hc]
      rw [this] at hmem
      exact hmem
  constructor
  · intro cid t
    rcases hd with ⟨hdn, rfl⟩ | ⟨d, td, hdd, htd, rfl⟩
    · rw [hmem_iv]
      constructor
      · rintro ⟨i, rfl, hi, hn⟩
        refine ⟨?_, hn⟩
        simp only [State.validClassId, validClassId, decide_eq_true_eq]
        exact hi
      · rintro ⟨hv, hn⟩
        cases cid with
        | interval i =>
          simp only [State.validClassId, validClassId, decide_eq_true_eq] at hv
          exact ⟨i, rfl, hv, hn⟩
        | complement =>
          rw [Automaton.classNext_eq, if_pos hv] at hn
          simp [State.rawClassNext, hdn] at hn
    · simp only [List.mem_append, List.mem_singleton, Prod.mk.injEq, hmem_iv]
      constructor
      · rintro (⟨i, rfl, hi, hn⟩ | ⟨rfl, rfl⟩)
        · refine ⟨?_, hn⟩
          simp only [State.validClassId, validClassId, decide_eq_true_eq]
          exact hi
        · have hv : s.validClassId .complement = true := by
            have := hw.defValid
            rw [hdd] at this
            simp only [Option.isSome_some] at this
            simp only [State.validClassId, validClassId]
            exact this.symm
          refine ⟨hv, ?_⟩
          rw [Automaton.classNext_eq, if_pos hv]
          simp [State.rawClassNext, hdd, htd]
      · rintro ⟨hv, hn⟩
        cases cid with
        | interval i =>
          simp only [State.validClassId, validClassId, decide_eq_true_eq] at hv
          exact .inl ⟨i, rfl, hv, hn⟩
        | complement =>
          rw [Automaton.classNext_eq, if_pos hv] at hn
          simp only [State.rawClassNext, hdd, Option.bind_some, htd, Option.some.injEq] at hn
          exact .inr ⟨rfl, hn.symm⟩
  · unfold classIds
    have hdv := hw.defValid
    rcases hd with ⟨hdn, rfl⟩ | ⟨d, td, hdd, htd, rfl⟩
    · rw [hdn] at hdv
      simp only [Option.isSome_none] at hdv
      have : s.classes.emptyComplement = true := by
        cases hh : s.classes.emptyComplement with
        | true => rfl
        | false => rw [hh] at hdv; cases hdv
      simp [hfst, this]
    · rw [hdd] at hdv
      simp only [Option.isSome_some] at hdv
      have : s.classes.emptyComplement = false := by
        cases hh : s.classes.emptyComplement with
        | false => rfl
        | true => rw [hh] at hdv; cases hdv
      simp [hfst, this]

/-- the ids of the states `edges` yields are `edgeTargets` -/
theorem AutWF.edges_ids {A : Automaton} (h : AutWF A) {s : State}
    {es : List (ClassId × State)} (he : A.edges s = some es) :
    es.map (·.2.id) = s.edgeTargets := by
  obtain ⟨ivs, hlen, hiv, hd⟩ := (A.edges_some_iff s es).1 he
  have hiv' : ivs.map (·.2.id) = s.successor.take s.numSuccessors := by
    apply List.ext_getElem?
    intro i
    by_cases hi : i < s.numSuccessors
    · obtain ⟨j, hj, ht, _⟩ := hiv i hi (by omega)
      have hi' : i < ivs.length := by omega
      simp only [List.getElem?_map, List.getElem?_eq_getElem hi', Option.map_some,
        List.getElem?_take, if_pos hi, hj, Option.some.injEq]
      exact h.state_id ht
    · have hi' : ivs.length ≤ i := by omega
      simp [List.getElem?_eq_none hi', List.getElem?_take, hi]
  unfold State.edgeTargets
  rcases hd with ⟨hdn, rfl⟩ | ⟨d, td, hdd, htd, rfl⟩
  · simp [hiv', hdn]
  · simp [hiv', hdd, h.state_id htd]

end Smt
