/-
  Helper lemmas for C17: every string the constructors, the literal parser and the `str_*`
  functions hand out consists of SMT-LIB characters (`WFs`).

  * `specParse_good`: the specification of the parser only emits code points ≤ 0x2FFFF
  * `Str.*_good`: the string functions of Model/Strings.lean (written by the C06/C09 work) map
    good arguments to good results, whatever the integer arguments.
-/
import SmtModel.Proofs.Literal
import SmtModel.Model.Strings

namespace Smt.LiteralProofs
open Smt Smt.Literal Smt.LiteralSpec

theorem WFs_nil : WFs [] := by simp [WFs]

theorem WFs_append {a b : List Nat} (ha : WFs a) (hb : WFs b) : WFs (a ++ b) := by
  intro c hc
  rcases List.mem_append.1 hc with h | h
  · exact ha c h
  · exact hb c h

theorem WFs_cons {c : Nat} {a : List Nat} (hc : c ≤ MAX_CHAR) (ha : WFs a) : WFs (c :: a) := by
  intro d hd
  rcases List.mem_cons.1 hd with rfl | h
  · exact hc
  · exact ha d h

theorem WFs_take {a : List Nat} (n : Nat) (ha : WFs a) : WFs (a.take n) :=
  fun c hc => ha c (List.mem_of_mem_take hc)

theorem WFs_drop {a : List Nat} (n : Nat) (ha : WFs a) : WFs (a.drop n) :=
  fun c hc => ha c (List.mem_of_mem_drop hc)

/-- the replacement map of the constructors -/
def repl (x : Nat) : Nat := if x ≤ MAX_CHAR then x else REPLACEMENT_CHAR

theorem repl_le (x : Nat) : repl x ≤ MAX_CHAR := by
  unfold repl; split
  · assumption
  · decide

theorem WFs_map_repl (a : List Nat) : WFs (a.map repl) := by
  intro c hc
  obtain ⟨x, _, rfl⟩ := List.mem_map.1 hc
  exact repl_le x

theorem map_repl_of_good {a : List Nat} (h : WFs a) : a.map repl = a := by
  induction a with
  | nil => rfl
  | cons x a ih =>
    have hx : x ≤ MAX_CHAR := h x List.mem_cons_self
    have ha : WFs a := fun y hy => h y (List.mem_cons_of_mem _ hy)
    simp [repl, hx, ih ha]

theorem copyChar_le (c : Nat) : copyChar c ≤ MAX_CHAR := repl_le c

theorem escapeAt_value_le {t : List Nat} {v : Nat} {r : List Nat} (h : escapeAt t = some (v, r)) :
    v ≤ MAX_CHAR := by
  unfold escapeAt at h
  split at h
  · dsimp only at h
    split at h
    · rename_i hc; cases h; exact hc.2.2.2
    · cases h
  · split at h
    · cases h
      have := hexValue_lt (List.take 4 (List.drop 2 t))
      have h4 : (List.take 4 (List.drop 2 t)).length ≤ 4 := by simp; omega
      have : (16:Nat) ^ (List.take 4 (List.drop 2 t)).length ≤ 16 ^ 4 :=
        Nat.pow_le_pow_right (by omega) h4
      have hm : MAX_CHAR = 196607 := rfl
      omega
    · cases h

theorem specParse_good (t : List Nat) : WFs (specParse t) := by
  induction t using specParse.induct with
  | case1 => simp [specParse_nil, WFs]
  | case2 c t v r h hlt ih => rw [specParse_esc h]; exact WFs_cons (escapeAt_value_le h) ih
  | case3 c t h ih => rw [specParse_copy h]; exact WFs_cons (copyChar_le c) ih

theorem make_some {a r : List Nat} (h : Literal.make a = some r) : r = a := by
  unfold Literal.make at h; split at h
  · cases h
  · cases h; rfl

/-! ### the `str_*` functions (Model/Strings.lean) -/

open Smt.Str in
theorem str_make_some {a r : List Nat} (h : Str.make a = some r) : r = a := by
  unfold Str.make at h; split at h
  · cases h
  · cases h; rfl

theorem str_fromU32_good {x : Nat} {r : List Nat} (h : Str.fromU32 x = some r) : WFs r := by
  unfold Str.fromU32 at h
  have := str_make_some h; subst this
  exact WFs_cons (repl_le x) WFs_nil

theorem str_fromStr_good {a r : List Nat} (h : Str.fromStr a = some r) : WFs r := by
  unfold Str.fromStr at h
  have := str_make_some h; subst this
  exact WFs_map_repl a

theorem str_slice_good {s r : List Nat} {i j : Nat} (hs : WFs s) (h : Str.slice? s i j = some r) :
    WFs r := by
  unfold Str.slice? at h; split at h
  · cases h; exact WFs_take _ (WFs_drop _ hs)
  · cases h

theorem str_sliceFrom_good {s r : List Nat} {i : Nat} (hs : WFs s) (h : Str.sliceFrom? s i = some r) :
    WFs r := by
  unfold Str.sliceFrom? at h; split at h
  · cases h; exact WFs_drop _ hs
  · cases h

theorem str_sliceTo_good {s r : List Nat} {i : Nat} (hs : WFs s) (h : Str.sliceTo? s i = some r) :
    WFs r := by
  unfold Str.sliceTo? at h; split at h
  · cases h; exact WFs_take _ hs
  · cases h

theorem strConcat_good {s1 s2 r : List Nat} (h1 : WFs s1) (h2 : WFs s2)
    (h : Str.strConcat s1 s2 = some r) : WFs r := by
  unfold Str.strConcat Str.vectorConcat at h
  have := str_make_some h; subst this
  exact WFs_append h1 h2

theorem strAt_good {s r : List Nat} {i : Int} (h : Str.strAt s i = some r) : WFs r := by
  unfold Str.strAt at h
  split at h
  · cases h; exact WFs_nil
  · split at h
    · cases h
    · exact str_fromU32_good h

theorem strSubstr_good {s r : List Nat} {i n : Int} (hs : WFs s) (h : Str.strSubstr s i n = some r) :
    WFs r := by
  unfold Str.strSubstr at h
  split at h
  · cases h; exact WFs_nil
  · dsimp only at h
    split at h
    · cases h
    · rename_i x hx
      have := str_make_some h; subst this
      exact str_slice_good hs hx

theorem strReplace_good {s p r x : List Nat} (hs : WFs s) (hr : WFs r)
    (h : Str.strReplace s p r = some x) : WFs x := by
  unfold Str.strReplace at h
  split at h
  · cases h
  · have := str_make_some h; subst this; exact hs
  · split at h
    · rename_i a b ha hb
      have := str_make_some h; subst this
      exact WFs_append (WFs_append (str_sliceTo_good hs ha) hr) (str_sliceFrom_good hs hb)
    · cases h

theorem replaceAllLoop_good (s p r : List Nat) (hp : 0 < p.length) (i : Nat) (x : List Nat)
    (hs : WFs s) (hr : WFs r) (hx : WFs x) (res : List Nat)
    (h : Str.replaceAllLoop s p r hp i x = some res) : WFs res := by
  fun_induction Str.replaceAllLoop s p r hp i x with
  | case1 i x hf => cases h
  | case2 i x j k hf hsl => cases h
  | case3 i x j k hf seg hsl ih =>
    exact ih (WFs_append (WFs_append hx (str_slice_good hs hsl)) hr) h
  | case4 i x hf hsl => cases h
  | case5 i x hf rest hsl =>
    have := str_make_some h; subst this
    exact WFs_append hx (str_sliceFrom_good hs hsl)

theorem strReplaceAll_good {s p r x : List Nat} (hs : WFs s) (hr : WFs r)
    (h : Str.strReplaceAll s p r = some x) : WFs x := by
  unfold Str.strReplaceAll at h
  split at h
  · have := str_make_some h; subst this; exact hs
  · exact replaceAllLoop_good s p r _ 0 [] hs hr WFs_nil x h

theorem strFromCode_good {x : Int} {r : List Nat} (h : Str.strFromCode x = some r) : WFs r := by
  unfold Str.strFromCode at h
  split at h
  · exact str_fromU32_good h
  · cases h; exact WFs_nil

theorem strFromInt_good {x : Int} {r : List Nat} (h : Str.strFromInt x = some r) : WFs r := by
  unfold Str.strFromInt at h
  split at h
  · exact str_fromStr_good h
  · cases h; exact WFs_nil

end Smt.LiteralProofs
