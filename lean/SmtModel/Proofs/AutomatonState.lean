/-
  Helper lemmas for C13 / C02: one state in construction.

  * `sicDelta s c`               what the transitions/default of `s` say about character `c`
  * `cleanup_preserves_delta`    majority-default promotion + removal of the transitions into the
                                 default never changes a defined `sicDelta` (shared with C02)
  * `makeSuccessor_spec`         the successor array built against the sorted partition
  * `buildState_*`               the body of the loop of `build`, characterised
  Mathlib-free.
-/
import SmtModel.Model.Automaton
import SmtModel.Proofs.CharPartition

namespace Smt.StateInConstruction
open Smt CharPartition

/-! ### delta of a transition list -/

/-- target of the first listed transition covering `c`, else `dflt` -/
def deltaL (l : List (CharSet × Nat)) (dflt : Option Nat) (c : Nat) : Option Nat :=
  match l.find? (fun t => t.1.contains c) with
  | some t => some t.2
  | none => dflt

def sicDelta (s : StateInConstruction) (c : Nat) : Option Nat :=
  deltaL s.transitions s.defaultSuccessor c

/-- no character is given two different successors by the transitions -/
def NoConflictL (l : List (CharSet × Nat)) : Prop :=
  ∀ c, ∀ t ∈ l, ∀ u ∈ l, t.1.contains c = true → u.1.contains c = true → t.2 = u.2

def NoConflict (s : StateInConstruction) : Prop := NoConflictL s.transitions

theorem deltaL_nil (d : Option Nat) (c : Nat) : deltaL [] d c = d := rfl

theorem deltaL_cons_pos {t : CharSet × Nat} {l : List (CharSet × Nat)} {d : Option Nat} {c : Nat}
    (h : t.1.contains c = true) : deltaL (t :: l) d c = some t.2 := by
  simp [deltaL, h]

theorem deltaL_cons_neg {t : CharSet × Nat} {l : List (CharSet × Nat)} {d : Option Nat} {c : Nat}
    (h : t.1.contains c = false) : deltaL (t :: l) d c = deltaL l d c := by
  simp [deltaL, h]

theorem deltaL_eq_default_of_uncovered {l : List (CharSet × Nat)} {d : Option Nat} {c : Nat}
    (h : ∀ t ∈ l, t.1.contains c = false) : deltaL l d c = d := by
  induction l with
  | nil => rfl
  | cons t l ih =>
    rw [deltaL_cons_neg (h t (by simp))]
    exact ih (fun u hu => h u (by simp [hu]))

theorem deltaL_of_covered {l : List (CharSet × Nat)} {d : Option Nat} {c : Nat}
    (h : ∃ t ∈ l, t.1.contains c = true) :
    ∃ t ∈ l, t.1.contains c = true ∧ deltaL l d c = some t.2 := by
  induction l with
  | nil => obtain ⟨t, ht, _⟩ := h; cases ht
  | cons t l ih =>
    by_cases hc : t.1.contains c = true
    · exact ⟨t, by simp, hc, deltaL_cons_pos hc⟩
    · have hc' : t.1.contains c = false := by simpa using hc
      obtain ⟨u, hu, huc⟩ := h
      rcases List.mem_cons.1 hu with rfl | hu'
      · exact absurd huc hc
      · obtain ⟨v, hv, hvc, hd⟩ := ih ⟨u, hu', huc⟩
        exact ⟨v, by simp [hv], hvc, by rw [deltaL_cons_neg hc']; exact hd⟩

/-- with no conflict, every covering transition gives the value of `deltaL` -/
theorem deltaL_eq_of_mem {l : List (CharSet × Nat)} (hn : NoConflictL l) {d : Option Nat} {c : Nat}
    {t : CharSet × Nat} (ht : t ∈ l) (hc : t.1.contains c = true) : deltaL l d c = some t.2 := by
  obtain ⟨u, hu, huc, hd⟩ := deltaL_of_covered (d := d) ⟨t, ht, hc⟩
  rw [hd, hn c u hu t ht huc hc]

theorem deltaL_default_irrelevant {l : List (CharSet × Nat)} {c : Nat}
    (h : ∃ t ∈ l, t.1.contains c = true) (d d' : Option Nat) : deltaL l d c = deltaL l d' c := by
  unfold deltaL
  cases hf : l.find? (fun t => t.1.contains c) with
  | some t => rfl
  | none =>
    obtain ⟨t, ht, hc⟩ := h
    have := List.find?_eq_none.1 hf t ht
    simp [hc] at this

theorem NoConflictL.tail {t : CharSet × Nat} {l : List (CharSet × Nat)} (h : NoConflictL (t :: l)) :
    NoConflictL l :=
  fun c u hu v hv => h c u (by simp [hu]) v (by simp [hv])

/-- removing the transitions into the default keeps every defined value -/
theorem deltaL_filter {l : List (CharSet × Nat)} (hn : NoConflictL l) (d : Nat) {c x : Nat}
    (h : deltaL l (some d) c = some x) :
    deltaL (l.filter (fun t => t.2 ≠ d)) (some d) c = some x := by
  induction l with
  | nil => simpa [deltaL] using h
  | cons t l ih =>
    by_cases hc : t.1.contains c = true
    · rw [deltaL_cons_pos hc] at h
      by_cases htd : t.2 = d
      · -- dropped: every other covering transition also goes to `d`, so all are dropped
        have hx : x = d := by cases h; exact htd
        subst hx
        have : (t :: l).filter (fun t => t.2 ≠ x) = l.filter (fun t => t.2 ≠ x) := by
          simp [htd]
        rw [this]
        apply deltaL_eq_default_of_uncovered
        intro u hu
        obtain ⟨hul, hux⟩ := List.mem_filter.1 hu
        cases hcov : u.1.contains c with
        | false => rfl
        | true =>
          have := hn c t (by simp) u (by simp [hul]) hc hcov
          simp only [ne_eq, decide_eq_true_eq] at hux
          exact absurd (this ▸ htd) hux
      · have : (t :: l).filter (fun t => t.2 ≠ d) = t :: l.filter (fun t => t.2 ≠ d) := by
          simp [htd]
        rw [this, deltaL_cons_pos hc]
        exact h
    · have hc' : t.1.contains c = false := by simpa using hc
      rw [deltaL_cons_neg hc'] at h
      have ih' := ih hn.tail h
      by_cases htd : t.2 = d
      · have : (t :: l).filter (fun t => t.2 ≠ d) = l.filter (fun t => t.2 ≠ d) := by
          simp [htd]
        rw [this]; exact ih'
      · have : (t :: l).filter (fun t => t.2 ≠ d) = t :: l.filter (fun t => t.2 ≠ d) := by
          simp [htd]
        rw [this, deltaL_cons_neg hc']; exact ih'

/-! ### cleanup -/

theorem choose_transitions (s : StateInConstruction) :
    s.chooseDefaultSuccessor.transitions = s.transitions := by
  unfold chooseDefaultSuccessor setDefaultSuccessor
  split
  · split
    · rfl
    · dsimp only
      split <;> rfl
  · rfl

theorem choose_isFinal (s : StateInConstruction) :
    s.chooseDefaultSuccessor.isFinal = s.isFinal := by
  unfold chooseDefaultSuccessor setDefaultSuccessor
  split
  · split
    · rfl
    · dsimp only
      split <;> rfl
  · rfl

theorem remove_isFinal (s : StateInConstruction) :
    s.removeTransitionsToDefault.isFinal = s.isFinal := by
  unfold removeTransitionsToDefault
  split <;> rfl

theorem remove_default (s : StateInConstruction) :
    s.removeTransitionsToDefault.defaultSuccessor = s.defaultSuccessor := by
  unfold removeTransitionsToDefault
  split <;> rfl

theorem cleanup_isFinal (s : StateInConstruction) : s.cleanup.isFinal = s.isFinal := by
  unfold cleanup
  rw [remove_isFinal, choose_isFinal]

/-- `cleanup` only removes transitions -/
theorem cleanup_transitions_sublist (s : StateInConstruction) :
    s.cleanup.transitions.Sublist s.transitions := by
  unfold cleanup removeTransitionsToDefault
  split
  · simp only [choose_transitions]
    exact List.filter_sublist
  · rw [choose_transitions]
    exact List.Sublist.refl _

/-- a declared default is kept by `cleanup` -/
theorem cleanup_default_of_some {s : StateInConstruction} {d : Nat}
    (h : s.defaultSuccessor = some d) : s.cleanup.defaultSuccessor = some d := by
  have h1 : s.chooseDefaultSuccessor = s := by
    unfold chooseDefaultSuccessor
    simp [h]
  unfold cleanup
  rw [h1]
  unfold removeTransitionsToDefault
  simp [h]

/-- **cleanup_preserves_delta** (C13, C02): if no character is given two different successors by
    the transitions of `s`, then wherever `s` defines a successor (by a transition or by the
    declared default), the cleaned-up state defines the same one.  Majority-default promotion and
    the removal of the transitions into the default never change delta. -/
theorem cleanup_preserves_delta {s : StateInConstruction} (hn : s.NoConflict) {c x : Nat}
    (h : s.sicDelta c = some x) : s.cleanup.sicDelta c = some x := by
  unfold sicDelta at h ⊢
  cases hd : s.defaultSuccessor with
  | some d =>
    have h1 : s.chooseDefaultSuccessor = s := by
      unfold chooseDefaultSuccessor
      simp [hd]
    unfold cleanup
    rw [h1]
    unfold removeTransitionsToDefault
    simp only [hd]
    rw [hd] at h
    exact deltaL_filter hn d h
  | none =>
    rw [hd] at h
    -- `c` is covered by a transition
    have hcov : ∃ t ∈ s.transitions, t.1.contains c = true := by
      cases hf : s.transitions.find? (fun t => t.1.contains c) with
      | some t =>
        have := List.find?_some hf
        exact ⟨t, List.mem_of_find?_eq_some hf, this⟩
      | none =>
        simp [deltaL, hf] at h
    unfold cleanup chooseDefaultSuccessor
    have hne : s.transitions.isEmpty = false := by
      obtain ⟨t, ht, _⟩ := hcov
      cases hl : s.transitions with
      | nil => rw [hl] at ht; cases ht
      | cons _ _ => rfl
    simp only [hd, Option.isNone_none, hne, Bool.not_false, Bool.and_self, if_true]
    split
    · -- unreachable: `majCandidate` of a non-empty list
      unfold removeTransitionsToDefault
      simp only [hd]
      exact h
    · rename_i m _
      split
      · unfold removeTransitionsToDefault setDefaultSuccessor
        simp only
        apply deltaL_filter hn m
        rw [← deltaL_default_irrelevant hcov none (some m)]
        exact h
      · unfold removeTransitionsToDefault
        simp only [hd]
        exact h

/-- the cleaned-up state has no conflict either -/
theorem cleanup_noConflict {s : StateInConstruction} (hn : s.NoConflict) : s.cleanup.NoConflict := by
  intro c t ht u hu
  exact hn c t ((cleanup_transitions_sublist s).subset ht) u ((cleanup_transitions_sublist s).subset hu)

/-- the default of the cleaned-up state is the declared one or the target of a given transition:
    nothing is invented -/
theorem cleanup_default_mem {s : StateInConstruction} {d : Nat}
    (h : s.cleanup.defaultSuccessor = some d) :
    s.defaultSuccessor = some d ∨ (s.defaultSuccessor = none ∧ ∃ t ∈ s.transitions, t.2 = d) := by
  cases hd : s.defaultSuccessor with
  | some d' =>
    rw [cleanup_default_of_some hd] at h
    exact .inl h
  | none =>
    right
    refine ⟨rfl, ?_⟩
    unfold cleanup at h
    rw [remove_default] at h
    unfold chooseDefaultSuccessor at h
    split at h
    · split at h
      · rw [hd] at h; cases h
      · rename_i m hm
        dsimp only at h
        split at h
        · simp only [setDefaultSuccessor] at h
          cases h
          -- the candidate is the target of some transition
          have key : ∀ (l : List (CharSet × Nat)) (maj k : Nat),
              majLoop maj k l = maj ∨ ∃ t ∈ l, t.2 = majLoop maj k l := by
            intro l
            induction l with
            | nil => intro maj k; exact .inl rfl
            | cons t l ih =>
              intro maj k
              obtain ⟨a, x⟩ := t
              simp only [majLoop]
              split
              · rcases ih x 1 with h | ⟨u, hu, h⟩
                · exact .inr ⟨(a, x), by simp, h.symm⟩
                · exact .inr ⟨u, by simp [hu], h⟩
              · split
                · rcases ih maj (k + 1) with h | ⟨u, hu, h⟩
                  · exact .inl h
                  · exact .inr ⟨u, by simp [hu], h⟩
                · rcases ih maj (k - 1) with h | ⟨u, hu, h⟩
                  · exact .inl h
                  · exact .inr ⟨u, by simp [hu], h⟩
          cases hl : s.transitions with
          | nil => rw [hl] at hm; simp [majCandidate] at hm
          | cons t l =>
            rw [hl] at hm
            obtain ⟨a, x⟩ := t
            simp only [majCandidate, Option.some.injEq] at hm
            rcases key l x 1 with h | ⟨u, hu, h⟩
            · exact ⟨(a, x), by simp, by rw [← hm, h]⟩
            · exact ⟨u, by simp [hu], by rw [← hm, h]⟩
        · rw [hd] at h; cases h
    · rw [hd] at h; cases h

/-! ### labels: well-formed, pairwise disjoint -/

/-- every label is a well-formed interval -/
def WFL (l : List (CharSet × Nat)) : Prop := ∀ t ∈ l, t.1.WF

/-- the labels are pairwise disjoint (as positions of the list) -/
def DisjL (l : List (CharSet × Nat)) : Prop := l.Pairwise (fun t u => Disj t.1 u.1)

theorem disjL_iff_labels (l : List (CharSet × Nat)) :
    DisjL l ↔ (l.map (·.1)).Pairwise Disj := by
  simp [DisjL, List.pairwise_map]

theorem pairwise_mem {α} {R : α → α → Prop} (hsymm : ∀ a b, R a b → R b a) {l : List α}
    (h : l.Pairwise R) : ∀ a ∈ l, ∀ b ∈ l, a = b ∨ R a b := by
  induction l with
  | nil => intro a ha; cases ha
  | cons x l ih =>
    obtain ⟨hx, hl⟩ := List.pairwise_cons.1 h
    intro a ha b hb
    rcases List.mem_cons.1 ha with rfl | ha' <;> rcases List.mem_cons.1 hb with rfl | hb'
    · exact .inl rfl
    · exact .inr (hx b hb')
    · exact .inr (hsymm _ _ (hx a ha'))
    · exact ih hl a ha' b hb'

theorem not_disj_of_common {a b : CharSet} {c : Nat} (ha : a.contains c = true)
    (hb : b.contains c = true) : ¬ Disj a b := by
  simp only [CharSet.contains, Bool.and_eq_true, decide_eq_true_eq] at ha hb
  unfold Disj
  omega

theorem not_disj_self {a : CharSet} (ha : a.WF) : ¬ Disj a a := by
  have := ha.1
  unfold Disj
  omega

theorem DisjL.noConflict {l : List (CharSet × Nat)} (h : DisjL l) : NoConflictL l := by
  intro c t ht u hu htc huc
  rcases pairwise_mem (R := fun t u : CharSet × Nat => Disj t.1 u.1)
      (fun a b hab => Disj.symm hab) h t ht u hu with rfl | hd
  · rfl
  · exact absurd hd (not_disj_of_common htc huc)

theorem DisjL.sublist {l l' : List (CharSet × Nat)} (h : DisjL l) (hs : l'.Sublist l) : DisjL l' :=
  List.Pairwise.sublist hs h

theorem contains_iff (s : CharSet) (x : Nat) :
    s.contains x = true ↔ s.start ≤ x ∧ x ≤ s.stop := by
  simp [CharSet.contains]

/-! ### `make_successor` -/

theorem sorted_getElem_inj {l : List CharSet} (h : Sorted l) {i j : Nat} (hi : i < l.length)
    (hj : j < l.length) (he : l[i] = l[j]) : i = j := by
  have hw := h.get_wf hi
  refine h.index_unique hi hj (x := l[i].start) ⟨Nat.le_refl _, hw.1⟩ ?_
  rw [← he]
  exact ⟨Nat.le_refl _, hw.1⟩

theorem makeSuccessorLoop_spec {p : CharPartition} (hp : Sorted p.list)
    (trs : List (CharSet × Nat)) (hmem : ∀ t ∈ trs, t.1 ∈ p.list) (hpw : DisjL trs)
    (result : List Nat) (hlen : result.length = p.list.length) :
    ∃ r, makeSuccessorLoop p trs result = some r ∧ r.length = result.length ∧
      ∀ i (hi : i < p.list.length),
        (∀ t ∈ trs, t.1 = p.list[i] → r[i]? = some t.2) ∧
        ((∀ t ∈ trs, t.1 ≠ p.list[i]) → r[i]? = result[i]?) := by
  induction trs generalizing result with
  | nil =>
    refine ⟨result, rfl, rfl, fun i hi => ⟨fun t ht _ => (by cases ht), fun _ => rfl⟩⟩
  | cons t rest ih =>
    obtain ⟨set, tg⟩ := t
    obtain ⟨hhead, hrest⟩ := List.pairwise_cons.1 hpw
    have hset : set ∈ p.list := hmem (set, tg) (by simp)
    obtain ⟨i0, hi0, he0⟩ := List.getElem_of_mem hset
    have hw : set.WF := hp.1 set hset
    have hcls : p.classOfChar set.pick = .interval i0 := by
      rw [classOfChar_eq_cls hp, cls_eq_interval_iff hp]
      refine ⟨hi0, ?_⟩
      rw [he0]
      exact ⟨Nat.le_refl _, hw.1⟩
    have hi0' : i0 < result.length := by omega
    obtain ⟨r, hr, hrl, hspec⟩ := ih (fun u hu => hmem u (by simp [hu])) hrest
      (result.set i0 tg) (by simpa using hlen)
    refine ⟨r, ?_, by simpa using hrl, ?_⟩
    · simp only [makeSuccessorLoop, hcls, hi0', if_true]
      exact hr
    · intro i hi
      obtain ⟨h1, h2⟩ := hspec i hi
      constructor
      · intro u hu hue
        rcases List.mem_cons.1 hu with rfl | hu'
        · -- the head: nobody later writes cell i0
          have hii : i = i0 := by
            apply sorted_getElem_inj hp hi hi0
            rw [he0]; exact hue.symm
          subst hii
          have hnone : ∀ v ∈ rest, v.1 ≠ p.list[i] := by
            intro v hv hve
            have hd := hhead v hv
            simp only at hd hue
            rw [hve, ← hue] at hd
            exact not_disj_self hw hd
          rw [h2 hnone]
          simp [List.getElem?_set_self hi0']
        · exact h1 u hu' hue
      · intro hnone
        have hne : i0 ≠ i := by
          intro hii
          subst hii
          exact hnone (set, tg) (by simp) he0.symm
        rw [h2 (fun v hv => hnone v (by simp [hv]))]
        simp [List.getElem?_set_ne hne]

theorem makeSuccessor_spec {s : StateInConstruction} {p : CharPartition} (hp : Sorted p.list)
    (hmem : ∀ t ∈ s.transitions, t.1 ∈ p.list) (hpw : DisjL s.transitions) :
    ∃ succ, s.makeSuccessor p = some succ ∧ succ.length = p.len ∧
      ∀ t ∈ s.transitions, ∀ i (hi : i < p.list.length), t.1 = p.list[i] → succ[i]? = some t.2 := by
  obtain ⟨r, hr, hrl, hspec⟩ := makeSuccessorLoop_spec hp s.transitions hmem hpw
    (List.replicate p.len 0) (by simp [CharPartition.len])
  refine ⟨r, hr, by simpa using hrl, ?_⟩
  intro t ht i hi he
  exact (hspec i hi).1 t ht he

end Smt.StateInConstruction

/-! ### the state built, against `sicDelta` -/

namespace Smt
open CharPartition StateInConstruction

/-- `next` of a state before the lookup of the successor in the state array: the successor
    index read from the state (dev profile: `none` also when the `debug_assert!` of `class_next`
    fails) -/
def State.rawNext (st : State) (c : Nat) : Option Nat :=
  if st.validClassId (st.classes.classOfChar c) then
    match st.classes.classOfChar c with
    | .interval i => st.successor[i]?
    | .complement => st.defaultSuccessor
  else none

theorem Automaton.next_eq_rawNext (A : Automaton) (st : State) (c : Nat) :
    A.next st c = (st.rawNext c).bind (fun j => A.states[j]?) := by
  unfold Automaton.next Automaton.classNext State.rawNext
  generalize st.classes.classOfChar c = cid
  split
  · cases cid with
    | interval i => dsimp only; cases h : st.successor[i]? <;> simp
    | complement => dsimp only; cases h : st.defaultSuccessor <;> simp
  · rfl

namespace StateInConstruction

/-- some transition of `s` covers `c` -/
def Covered (s : StateInConstruction) (c : Nat) : Prop :=
  ∃ t ∈ s.transitions, t.1.contains c = true

/-- the transitions of `s` cover the alphabet -/
def Complete (s : StateInConstruction) : Prop := ∀ c, c ≤ MAX_CHAR → s.Covered c

theorem inList_labels_iff (l : List (CharSet × Nat)) (c : Nat) :
    InList (l.map (·.1)) c ↔ ∃ t ∈ l, t.1.contains c = true := by
  simp only [InList, List.mem_map, contains_iff]
  constructor
  · rintro ⟨_, ⟨t, ht, rfl⟩, h⟩; exact ⟨t, ht, h⟩
  · rintro ⟨t, ht, h⟩; exact ⟨_, ⟨t, ht, rfl⟩, h⟩

theorem inList_sort_iff (l : List CharSet) (c : Nat) :
    InList (sortByStart l) c ↔ InList l c := by
  have hp := sortByStart_perm l
  simp only [InList]
  constructor
  · rintro ⟨s, hs, h⟩; exact ⟨s, hp.subset hs, h⟩
  · rintro ⟨s, hs, h⟩; exact ⟨s, hp.symm.subset hs, h⟩

/-- `make_partition` on WF pairwise disjoint labels: the sorted labels, a WF partition whose
    complementary class is empty exactly when the labels cover the alphabet -/
theorem makePartition_ok {s : StateInConstruction} (hwf : WFL s.transitions)
    (hd : DisjL s.transitions) :
    ∃ p, s.makePartition = .ok p ∧ p.WF ∧ p.list = sortByStart (s.transitions.map (·.1)) ∧
      (∀ c, InList p.list c ↔ s.Covered c) ∧ (p.emptyComplement = true ↔ s.Complete) := by
  have hl : ∀ c ∈ s.transitions.map (·.1), c.WF := by
    intro c hc
    obtain ⟨t, ht, rfl⟩ := List.mem_map.1 hc
    exact hwf t ht
  obtain ⟨w, hw, hwfp⟩ := (tryFromList_char hl).1 ((disjL_iff_labels _).1 hd)
  have hin : ∀ c, InList (sortByStart (s.transitions.map (·.1))) c ↔ s.Covered c := by
    intro c
    rw [inList_sort_iff, inList_labels_iff]
    rfl
  refine ⟨_, hw, hwfp, rfl, hin, ?_⟩
  obtain ⟨_, hw1, hw2, hw3⟩ := hwfp
  dsimp only at hw1 hw2 hw3
  simp only [emptyComplement, decide_eq_true_eq]
  constructor
  · intro hgt c hc
    exact (hin c).1 (hw3 c (by omega))
  · intro hcomp
    rcases Nat.lt_or_ge MAX_CHAR w with h | h
    · exact h
    · exact absurd ((hin w).2 (hcomp w h)) hw2

theorem makePartition_err {s : StateInConstruction} (hwf : WFL s.transitions)
    (hd : ¬ DisjL s.transitions) : s.makePartition = .error .NonDisjointCharSets := by
  have hl : ∀ c ∈ s.transitions.map (·.1), c.WF := by
    intro c hc
    obtain ⟨t, ht, rfl⟩ := List.mem_map.1 hc
    exact hwf t ht
  exact (tryFromList_char hl).2 (fun h => hd ((disjL_iff_labels _).2 h))

/-- what the state built by `build`/`build_unchecked` from a cleaned-up state says about `c` -/
theorem built_rawNext {s' : StateInConstruction} (hwf : WFL s'.transitions) (hd : DisjL s'.transitions)
    {p : CharPartition} (hp : s'.makePartition = .ok p) {succ : List Nat}
    (hs : s'.makeSuccessor p = some succ) (i : Nat) (fin : Bool) {c x : Nat} (hc : c ≤ MAX_CHAR)
    (hx : s'.sicDelta c = some x) :
    State.rawNext { id := i, isFinal := fin, classes := p, successor := succ,
                    defaultSuccessor := s'.defaultSuccessor } c = some x := by
  obtain ⟨p', hp', hwfp, hlist, hin, _⟩ := makePartition_ok hwf hd
  rw [hp] at hp'
  cases hp'
  have hsorted := hwfp.1
  have hmem : ∀ t ∈ s'.transitions, t.1 ∈ p.list := by
    intro t ht
    rw [hlist]
    exact (sortByStart_perm _).symm.subset (List.mem_map.2 ⟨t, ht, rfl⟩)
  obtain ⟨succ', hs', _, hspec⟩ := makeSuccessor_spec hsorted hmem hd
  rw [hs] at hs'
  cases hs'
  unfold State.rawNext State.validClassId
  simp only
  rw [classOfChar_eq_cls hsorted]
  cases hcls : cls p c with
  | interval k =>
    obtain ⟨hk, hck⟩ := (cls_eq_interval_iff hsorted c k).1 hcls
    have hv : p.validClassId (.interval k) = true := by
      simp [validClassId, CharPartition.len, hk]
    simp only [hv, if_true]
    -- the label at position k belongs to a transition u
    have hin' : p.list[k] ∈ sortByStart (s'.transitions.map (·.1)) := by
      rw [← hlist]; exact List.getElem_mem hk
    obtain ⟨u, hu, hue⟩ := List.mem_map.1 ((sortByStart_perm _).subset hin')
    rw [hspec u hu k hk hue]
    have huc : u.1.contains c = true := by
      rw [hue]; exact (contains_iff _ _).2 hck
    have := deltaL_eq_of_mem hd.noConflict (d := s'.defaultSuccessor) hu huc
    unfold sicDelta at hx
    rw [this] at hx
    exact hx
  | complement =>
    have hnot := (cls_eq_complement_iff p c).1 hcls
    have hv : p.validClassId .complement = true := by
      simp only [validClassId, Bool.not_eq_true', emptyComplement, decide_eq_false_iff_not]
      intro hgt
      exact hnot (hwfp.2.2.2 c (by omega))
    simp only [hv, if_true]
    have hunc : ∀ t ∈ s'.transitions, t.1.contains c = false := by
      intro t ht
      cases hh : t.1.contains c with
      | false => rfl
      | true => exact absurd ((hin c).2 ⟨t, ht, hh⟩) hnot
    unfold sicDelta at hx
    rw [deltaL_eq_default_of_uncovered hunc] at hx
    exact hx

/-- the verdict of `build` on one state, as a proposition about the transitions given -/
inductive Verdict (s : StateInConstruction) : Option Err → Prop
  | overlap : ¬ DisjL s.transitions → Verdict s (some .NonDisjointCharSets)
  | superfluous : DisjL s.transitions → s.defaultSuccessor.isSome = true → s.Complete →
      Verdict s (some .EmptyComplementaryClass)
  | missing : DisjL s.transitions → s.defaultSuccessor = none → ¬ s.Complete →
      Verdict s (some .MissingDefaultSuccessor)
  | valid : DisjL s.transitions → (s.defaultSuccessor.isSome = true ↔ ¬ s.Complete) →
      Verdict s none

/-- exactly one verdict applies -/
theorem verdict_total (s : StateInConstruction) : ∃ v, Verdict s v := by
  by_cases hd : DisjL s.transitions
  · by_cases hc : s.Complete
    · cases hdf : s.defaultSuccessor with
      | none => exact ⟨none, .valid hd (by simp [hdf, hc])⟩
      | some d => exact ⟨_, .superfluous hd (by simp [hdf]) hc⟩
    · cases hdf : s.defaultSuccessor with
      | none => exact ⟨_, .missing hd hdf hc⟩
      | some d => exact ⟨none, .valid hd (by simp [hdf, hc])⟩
  · exact ⟨_, .overlap hd⟩

theorem verdict_unique {s : StateInConstruction} {v v' : Option Err} (h : Verdict s v)
    (h' : Verdict s v') : v = v' := by
  cases h <;> cases h' <;> first | rfl | (simp_all; done) | skip
  all_goals simp_all

/-- the body of the loop of `build`, for WF labels: it never panics; it returns the error of the
    verdict, or a state that agrees with `sicDelta s` on the whole alphabet -/
theorem buildState_spec {s : StateInConstruction} (hwf : WFL s.transitions) (i : Nat) :
    (∀ e, Verdict s (some e) → s.buildState i = some (.error e)) ∧
    (Verdict s none → ∃ st, s.buildState i = some (.ok st) ∧ st.id = i ∧ st.isFinal = s.isFinal ∧
      st.classes.WF ∧ st.successor.length = st.classes.len ∧
      (∀ k, k ∈ st.successor → ∃ t ∈ s.transitions, t.2 = k) ∧
      (∀ d, st.defaultSuccessor = some d →
        s.defaultSuccessor = some d ∨ ∃ t ∈ s.transitions, t.2 = d) ∧
      ∀ c, c ≤ MAX_CHAR → ∃ x, s.sicDelta c = some x ∧ st.rawNext c = some x) := by
  constructor
  · intro e hv
    cases hv with
    | overlap hd =>
      unfold buildState
      rw [makePartition_err hwf hd]
    | superfluous hd hdf hc =>
      obtain ⟨p, hp, _, _, _, hec⟩ := makePartition_ok hwf hd
      unfold buildState
      rw [hp]
      simp [hdf, hec.2 hc]
    | missing hd hdf hc =>
      obtain ⟨p, hp, _, _, _, hec⟩ := makePartition_ok hwf hd
      have : p.emptyComplement = false := by
        cases h : p.emptyComplement with
        | false => rfl
        | true => exact absurd (hec.1 h) hc
      unfold buildState
      rw [hp]
      simp [hdf, this]
  · intro hv
    cases hv with
    | valid hd hiff =>
      obtain ⟨given, hgiven, _, _, _, hec⟩ := makePartition_ok hwf hd
      have hsub := cleanup_transitions_sublist s
      have hwf' : WFL s.cleanup.transitions := fun t ht => hwf t (hsub.subset ht)
      have hd' : DisjL s.cleanup.transitions := hd.sublist hsub
      obtain ⟨p, hp, hwfp, hlist, _, _⟩ := makePartition_ok hwf' hd'
      have hmem : ∀ t ∈ s.cleanup.transitions, t.1 ∈ p.list := by
        intro t ht
        rw [hlist]
        exact (sortByStart_perm _).symm.subset (List.mem_map.2 ⟨t, ht, rfl⟩)
      obtain ⟨succ, hsucc, hsl, hsspec⟩ := makeSuccessor_spec hwfp.1 hmem hd'
      have hc1 : (s.defaultSuccessor.isSome && given.emptyComplement) = false := by
        cases h1 : s.defaultSuccessor.isSome with
        | false => rfl
        | true =>
          cases h2 : given.emptyComplement with
          | false => rfl
          | true => exact absurd (hec.1 h2) (hiff.1 h1)
      have hc2 : (s.defaultSuccessor.isNone && !given.emptyComplement) = false := by
        cases h1 : s.defaultSuccessor with
        | some d => rfl
        | none =>
          cases h2 : given.emptyComplement with
          | true => rfl
          | false =>
            have hnc : ¬ s.Complete := fun hc => by
              have := hec.2 hc
              rw [h2] at this
              cases this
            have := hiff.2 hnc
            rw [h1] at this
            cases this
      refine ⟨{ id := i, isFinal := s.cleanup.isFinal, classes := p, successor := succ,
                defaultSuccessor := s.cleanup.defaultSuccessor },
              ?_, rfl, cleanup_isFinal s, hwfp, hsl, ?_, ?_, ?_⟩
      · unfold buildState
        rw [hgiven]
        simp only [hc1, hc2, Bool.false_eq_true, if_false, hp, hsucc]
      · -- every successor entry is the target of a given transition
        intro k hk
        simp only at hk
        obtain ⟨j, hj, hjk⟩ := List.getElem_of_mem hk
        have hjl : j < p.list.length := by
          have := hsl
          simp only [CharPartition.len] at this
          omega
        have hin' : p.list[j] ∈ sortByStart (s.cleanup.transitions.map (·.1)) := by
          rw [← hlist]; exact List.getElem_mem hjl
        obtain ⟨u, hu, hue⟩ := List.mem_map.1 ((sortByStart_perm _).subset hin')
        have := hsspec u hu j hjl hue
        rw [List.getElem?_eq_getElem hj, hjk] at this
        cases this
        exact ⟨u, hsub.subset hu, rfl⟩
      · intro d hdd
        simp only at hdd
        rcases cleanup_default_mem hdd with h | ⟨_, h⟩
        · exact .inl h
        · exact .inr h
      · intro c hc
        -- `s` defines a successor for every character of the alphabet
        have hx : ∃ x, s.sicDelta c = some x := by
          by_cases hcov : s.Covered c
          · obtain ⟨t, _, _, hdl⟩ := deltaL_of_covered (d := s.defaultSuccessor) hcov
            exact ⟨t.2, hdl⟩
          · have hnc : ¬ s.Complete := fun hcm => hcov (hcm c hc)
            have hsome := hiff.2 hnc
            obtain ⟨d, hdd⟩ := Option.isSome_iff_exists.1 hsome
            refine ⟨d, ?_⟩
            unfold sicDelta
            rw [deltaL_eq_default_of_uncovered, hdd]
            intro t ht
            cases hh : t.1.contains c with
            | false => rfl
            | true => exact absurd ⟨t, ht, hh⟩ hcov
        obtain ⟨x, hx⟩ := hx
        refine ⟨x, hx, ?_⟩
        exact built_rawNext hwf' hd' hp hsucc i s.cleanup.isFinal hc
          (cleanup_preserves_delta hd.noConflict hx)

/-- the transitions that survive `cleanup` are those that do not go to the final default -/
theorem cleanup_transitions_eq {s : StateInConstruction} {d : Nat}
    (h : s.cleanup.defaultSuccessor = some d) :
    s.cleanup.transitions = s.transitions.filter (fun x => x.2 ≠ d) := by
  unfold cleanup at h ⊢
  rw [remove_default] at h
  unfold removeTransitionsToDefault
  rw [h]
  simp only [choose_transitions]

/-- if `cleanup` ends without a default, it changed nothing -/
theorem cleanup_eq_self_of_none {s : StateInConstruction} (h : s.cleanup.defaultSuccessor = none) :
    s.cleanup = s := by
  unfold cleanup at h ⊢
  rw [remove_default] at h
  have hs : s.chooseDefaultSuccessor = s := by
    unfold chooseDefaultSuccessor at h ⊢
    split
    · rename_i hc
      rw [if_pos hc] at h
      split
      · rfl
      · rename_i m hm
        rw [hm] at h
        dsimp only at h ⊢
        split
        · rename_i hge
          rw [if_pos hge] at h
          simp [setDefaultSuccessor] at h
        · rfl
    · rfl
  rw [hs] at h ⊢
  unfold removeTransitionsToDefault
  rw [h]

/-- in the state built, a default successor exists exactly when the complementary class of its
    partition is non-empty -/
theorem buildState_defValid {s : StateInConstruction} (hwf : WFL s.transitions) {i : Nat}
    (hv : Verdict s none) {st : State} (h : s.buildState i = some (.ok st)) :
    st.defaultSuccessor.isSome = !st.classes.emptyComplement := by
  cases hv with
  | valid hd hiff =>
    have hsub := cleanup_transitions_sublist s
    have hwf' : WFL s.cleanup.transitions := fun t ht => hwf t (hsub.subset ht)
    have hd' : DisjL s.cleanup.transitions := hd.sublist hsub
    obtain ⟨p, hp, _, _, _, hec⟩ := makePartition_ok hwf' hd'
    -- identify `st`
    have hst : st.classes = p ∧ st.defaultSuccessor = s.cleanup.defaultSuccessor := by
      unfold buildState at h
      split at h
      · cases h
      · split at h
        · cases h
        · split at h
          · cases h
          · dsimp only at h
            rw [hp] at h
            dsimp only at h
            split at h
            · cases h
            · cases h; exact ⟨rfl, rfl⟩
    rw [hst.1, hst.2]
    cases hdd : s.cleanup.defaultSuccessor with
    | none =>
      -- nothing changed, no default declared: the labels are complete
      have hself := cleanup_eq_self_of_none hdd
      have hnone : s.defaultSuccessor = none := by rw [← hself]; exact hdd
      have hcomp : s.Complete := by
        refine Classical.byContradiction fun hn => ?_
        have := hiff.2 hn
        rw [hnone] at this
        cases this
      have : p.emptyComplement = true := hec.2 (by rw [hself]; exact hcomp)
      simp [this]
    | some d =>
      have hnc : ¬ s.cleanup.Complete := by
        rcases cleanup_default_mem hdd with hdecl | ⟨_, t, ht, htd⟩
        · -- declared: `s` leaves a character uncovered, so does the cleaned-up state
          have hsn : ¬ s.Complete := hiff.1 (by simp [hdecl])
          intro hc
          apply hsn
          intro c hcm
          obtain ⟨u, hu, huc⟩ := hc c hcm
          exact ⟨u, hsub.subset hu, huc⟩
        · -- promoted: the start of a removed label is no longer covered
          intro hc
          have htw := hwf t ht
          obtain ⟨u, hu, huc⟩ := hc t.1.start (by have := htw.1; have := htw.2; omega)
          rw [cleanup_transitions_eq hdd] at hu
          obtain ⟨hul, hud⟩ := List.mem_filter.1 hu
          simp only [ne_eq, decide_eq_true_eq] at hud
          have htc : t.1.contains t.1.start = true := (contains_iff _ _).2 ⟨Nat.le_refl _, htw.1⟩
          rcases pairwise_mem (R := fun t u : CharSet × Nat => Disj t.1 u.1)
              (fun a b hab => Disj.symm hab) hd t ht u hul with rfl | hdis
          · exact hud htd
          · exact not_disj_of_common htc huc hdis
      have : p.emptyComplement = false := by
        cases hh : p.emptyComplement with
        | false => rfl
        | true => exact absurd (hec.1 hh) hnc
      simp [this]

end StateInConstruction
end Smt
