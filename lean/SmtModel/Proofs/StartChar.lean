/-
  Helper lemmas for C18 (start_char / start_class are exact).

  * the loop lemma: a loop (range `lo ≤ hi`, not `[0,0]`) of `L` has a member starting with `c`
    iff `L` has;
  * `startChar_spec` / `startCharAny_spec`: the mutual structural recursion of `start_char`;
  * `startChar_ne_panic`.
-/
import SmtModel.Proofs.DerivFacts

namespace Smt
namespace RE

/-! ### the loop lemma -/

/-- first non-empty factor: a word of `L^k` that starts with `c` has a factor in `L` starting with `c` -/
theorem pow_start {L : Language ℕ} {c : ℕ} : ∀ (k : ℕ) (w : List ℕ), c :: w ∈ L ^ k → ∃ v, c :: v ∈ L := by
  intro k
  induction k with
  | zero =>
    intro w h
    rw [pow_zero, Language.mem_one] at h
    cases h
  | succ k ih =>
    intro w h
    rw [pow_succ', Language.mem_mul] at h
    obtain ⟨a, ha, b, hb, hab⟩ := h
    cases a with
    | nil =>
      simp only [List.nil_append] at hab
      subst hab
      exact ih w hb
    | cons x a' =>
      simp only [List.cons_append, List.cons.injEq] at hab
      obtain ⟨rfl, _⟩ := hab
      exact ⟨a', ha⟩

/-- if `L` has a member starting with `c`, so has every `L^k` with `k ≥ 1` -/
theorem start_pow {L : Language ℕ} {c : ℕ} {v : List ℕ} (hv : c :: v ∈ L) :
    ∀ k : ℕ, ∃ w, c :: w ∈ L ^ (k + 1) := by
  intro k
  induction k with
  | zero => exact ⟨v, by rw [zero_add, pow_one]; exact hv⟩
  | succ k ih =>
    obtain ⟨w, hw⟩ := ih
    refine ⟨v ++ c :: w, ?_⟩
    rw [pow_succ', Language.mem_mul]
    exact ⟨c :: v, hv, c :: w, hw, rfl⟩

/-- a range with `lo ≤ hi` other than `[0,0]` contains some `k ≥ 1` -/
theorem loopOK_pos_mem {r : LoopRange} (h : LoopOK r) : ∃ k, LoopRange.Mem (k + 1) r := by
  obtain ⟨a, st⟩ := r
  obtain ⟨h1, h2⟩ := h
  cases a with
  | succ a =>
    refine ⟨a, Nat.le_refl _, ?_⟩
    cases st with
    | none => trivial
    | some j => exact h1
  | zero =>
    refine ⟨0, by simp, ?_⟩
    cases st with
    | none => trivial
    | some j =>
      cases j with
      | zero => simp [LoopRange.isZero] at h2
      | succ j => show 0 + 1 ≤ j + 1; omega

/-- T:loop lemma — "a non-zero loop of `L` has a member starting with `c` iff `L` has" -/
theorem loop_start_iff (L : Language ℕ) {r : LoopRange} (hr : LoopOK r) (c : ℕ) :
    (∃ w, c :: w ∈ loopLang L r) ↔ ∃ w, c :: w ∈ L := by
  constructor
  · rintro ⟨w, k, _, hw⟩
    exact pow_start k w hw
  · rintro ⟨v, hv⟩
    obtain ⟨k, hk⟩ := loopOK_pos_mem hr
    obtain ⟨w, hw⟩ := start_pow hv k
    exact ⟨w, k + 1, hk, hw⟩

/-! ### the expensive case: derivative + emptiness -/

theorem start_via_deriv {ord : RE → Nat} {Good : RE → Prop}
    (F : DerivFacts ord Good) (E : EmptyFacts ord Good) (fuel : ℕ) (e : RE) (c : ℕ)
    (hg : Good e) (hc : c ≤ MAX_CHAR) (b : Bool)
    (h : (match isEmptyRe ord fuel (deriv ord e c) with
          | .ok b => Res.ok (!b) | .panic => .panic | .outOfFuel => .outOfFuel) = .ok b) :
    (b = true ↔ ∃ w, c :: w ∈ e.lang) := by
  cases hres : isEmptyRe ord fuel (deriv ord e c) with
  | panic => rw [hres] at h; cases h
  | outOfFuel => rw [hres] at h; cases h
  | ok b' =>
    rw [hres] at h
    simp only [Res.ok.injEq] at h
    have he := E.empty_iff _ fuel b' (F.deriv_good e c hg hc) hres
    rw [F.deriv_lang e c hg hc] at he
    subst h
    constructor
    · intro hb
      have hb' : ¬ (b' = true) := by simpa using hb
      rw [he] at hb'
      by_contra hcon
      exact hb' (fun w hw => hcon ⟨w, hw⟩)
    · rintro ⟨w, hw⟩
      cases hb : b' with
      | false => rfl
      | true => exact absurd hw (he.1 hb w)

theorem no_panic_via_deriv {ord : RE → Nat} {Good : RE → Prop}
    (F : DerivFacts ord Good) (E : EmptyFacts ord Good) (fuel : ℕ) (e : RE) (c : ℕ)
    (hg : Good e) (hc : c ≤ MAX_CHAR) :
    (match isEmptyRe ord fuel (deriv ord e c) with
          | .ok b => Res.ok (!b) | .panic => .panic | .outOfFuel => .outOfFuel) ≠ .panic := by
  have := E.no_panic _ fuel (F.deriv_good e c hg hc)
  cases hres : isEmptyRe ord fuel (deriv ord e c) with
  | panic => exact absurd hres this
  | outOfFuel => simp
  | ok b' => simp

/-! ### the structural recursion -/

mutual
theorem startChar_spec {ord : RE → Nat} {Good : RE → Prop}
    (F : DerivFacts ord Good) (E : EmptyFacts ord Good) (fuel : ℕ) (c : ℕ) (hc : c ≤ MAX_CHAR) :
    ∀ (e : RE) (b : Bool), Good e → startChar ord fuel e c = .ok b →
      (b = true ↔ ∃ w, c :: w ∈ e.lang)
  | .empty, b, _, h => by
    simp only [startChar, Res.ok.injEq] at h
    subst h
    simp only [lang, Bool.false_eq_true, false_iff, not_exists]
    exact fun w => Language.notMem_zero _
  | .epsilon, b, _, h => by
    simp only [startChar, Res.ok.injEq] at h
    subst h
    simp only [lang, Bool.false_eq_true, false_iff, not_exists]
    intro w hw
    rw [Language.mem_one] at hw
    cases hw
  | .range s, b, _, h => by
    simp only [startChar, Res.ok.injEq] at h
    subst h
    simp only [lang, CharSet.contains, Bool.and_eq_true, decide_eq_true_eq]
    constructor
    · intro hs
      exact ⟨[], c, rfl, hs.1, hs.2⟩
    · rintro ⟨w, c', hw, h1, h2⟩
      simp only [List.cons.injEq] at hw
      obtain ⟨rfl, _⟩ := hw
      exact ⟨h1, h2⟩
  | .loop e r, b, hg, h => by
    simp only [startChar] at h
    obtain ⟨hge, hr⟩ := F.good_loop e r hg
    rw [startChar_spec F E fuel c hc e b hge h]
    simp only [lang]
    exact (loop_start_iff e.lang hr c).symm
  | .union l, b, hg, h => by
    simp only [startChar] at h
    simp only [lang]
    exact startCharAny_spec F E fuel c hc l b (F.good_union l hg) h
  | .concat e1 e2, b, hg, h => by
    simp only [startChar] at h
    exact start_via_deriv F E fuel _ c hg hc b h
  | .inter l, b, hg, h => by
    simp only [startChar] at h
    exact start_via_deriv F E fuel _ c hg hc b h
  | .compl e, b, hg, h => by
    simp only [startChar] at h
    exact start_via_deriv F E fuel _ c hg hc b h
theorem startCharAny_spec {ord : RE → Nat} {Good : RE → Prop}
    (F : DerivFacts ord Good) (E : EmptyFacts ord Good) (fuel : ℕ) (c : ℕ) (hc : c ≤ MAX_CHAR) :
    ∀ (l : List RE) (b : Bool), (∀ e ∈ l, Good e) → startCharAny ord fuel l c = .ok b →
      (b = true ↔ ∃ w, c :: w ∈ langAny l)
  | [], b, _, h => by
    simp only [startCharAny, Res.ok.injEq] at h
    subst h
    simp only [langAny, Bool.false_eq_true, false_iff, not_exists]
    exact fun w => Language.notMem_zero _
  | x :: xs, b, hg, h => by
    simp only [startCharAny] at h
    have hx : Good x := hg x (List.mem_cons_self)
    have hxs : ∀ e ∈ xs, Good e := fun e he => hg e (List.mem_cons_of_mem _ he)
    cases hres : startChar ord fuel x c with
    | panic => rw [hres] at h; cases h
    | outOfFuel => rw [hres] at h; cases h
    | ok b' =>
      have hb' := startChar_spec F E fuel c hc x b' hx hres
      rw [hres] at h
      cases b' with
      | true =>
        simp only [Res.ok.injEq] at h
        subst h
        obtain ⟨w, hw⟩ := hb'.1 rfl
        simp only [langAny, true_iff]
        exact ⟨w, Language.mem_add _ _ _ |>.2 (.inl hw)⟩
      | false =>
        simp only at h
        rw [startCharAny_spec F E fuel c hc xs b hxs h]
        simp only [langAny]
        constructor
        · rintro ⟨w, hw⟩; exact ⟨w, (Language.mem_add _ _ _).2 (.inr hw)⟩
        · rintro ⟨w, hw⟩
          rcases (Language.mem_add _ _ _).1 hw with h1 | h2
          · have : false = true := hb'.2 ⟨w, h1⟩
            cases this
          · exact ⟨w, h2⟩
end

mutual
theorem startChar_ne_panic {ord : RE → Nat} {Good : RE → Prop}
    (F : DerivFacts ord Good) (E : EmptyFacts ord Good) (fuel : ℕ) (c : ℕ) (hc : c ≤ MAX_CHAR) :
    ∀ (e : RE), Good e → startChar ord fuel e c ≠ .panic
  | .empty, _ => by simp [startChar]
  | .epsilon, _ => by simp [startChar]
  | .range s, _ => by simp [startChar]
  | .loop e r, hg => by
    simp only [startChar]
    exact startChar_ne_panic F E fuel c hc e (F.good_loop e r hg).1
  | .union l, hg => by
    simp only [startChar]
    exact startCharAny_ne_panic F E fuel c hc l (F.good_union l hg)
  | .concat e1 e2, hg => by
    simp only [startChar]
    exact no_panic_via_deriv F E fuel _ c hg hc
  | .inter l, hg => by
    simp only [startChar]
    exact no_panic_via_deriv F E fuel _ c hg hc
  | .compl e, hg => by
    simp only [startChar]
    exact no_panic_via_deriv F E fuel _ c hg hc
theorem startCharAny_ne_panic {ord : RE → Nat} {Good : RE → Prop}
    (F : DerivFacts ord Good) (E : EmptyFacts ord Good) (fuel : ℕ) (c : ℕ) (hc : c ≤ MAX_CHAR) :
    ∀ (l : List RE), (∀ e ∈ l, Good e) → startCharAny ord fuel l c ≠ .panic
  | [], _ => by simp [startCharAny]
  | x :: xs, hg => by
    simp only [startCharAny]
    have hx := startChar_ne_panic F E fuel c hc x (hg x List.mem_cons_self)
    have hxs := startCharAny_ne_panic F E fuel c hc xs (fun e he => hg e (List.mem_cons_of_mem _ he))
    cases hres : startChar ord fuel x c with
    | panic => exact absurd hres hx
    | outOfFuel => simp
    | ok b' => cases b' <;> simp [hxs]
end

end RE
end Smt
