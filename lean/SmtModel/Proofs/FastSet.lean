/-
  `fast_sets.rs` implements a finite set (C04, used by `Minimizer::refine_with_splitter`).

  * `live s`     the abstract value: `elem[0 .. size)`
  * `Inv s`      the representation invariant stated in the Rust source: both arrays have `max`
                 cells, `size ≤ max`, and every live cell `elem[i] = x` is pointed back to by
                 `pos[x] = i` (hence the live cells are pairwise distinct)
  * `new_inv` / `contains_spec` / `insert_spec` / `remove_spec` / `reset_spec` / `iter_spec` /
    `card_spec`: under `Inv` and `x < max` no call panics, `Inv` is preserved and the abstract value
    changes as for a mathematical set (`insert` appends `x` if absent, `remove` deletes exactly `x`).
-/
import SmtModel.Model.FastSet
import Mathlib.Data.List.Perm.Subperm

namespace Smt
namespace FastSet

/-- the elements of the set, in the order `iter()` yields them -/
def live (s : FastSet) : List Nat := s.elem.take s.size

structure Inv (s : FastSet) : Prop where
  pos_len : s.pos.length = s.max
  elem_len : s.elem.length = s.max
  size_le : s.size ≤ s.max
  back : ∀ i, i < s.size → ∃ x, s.elem[i]? = some x ∧ x < s.max ∧ s.pos[x]? = some i

theorem mem_live_iff (s : FastSet) (x : Nat) :
    x ∈ live s ↔ ∃ i, i < s.size ∧ s.elem[i]? = some x := by
  unfold live
  rw [List.mem_iff_getElem?]
  constructor
  · rintro ⟨i, hi⟩
    rw [List.getElem?_take] at hi
    split at hi
    · exact ⟨i, by assumption, hi⟩
    · cases hi
  · rintro ⟨i, hi, he⟩
    exact ⟨i, by rw [List.getElem?_take, if_pos hi]; exact he⟩

theorem pos_of_mem {s : FastSet} (h : Inv s) {x : Nat} (hx : x ∈ live s) :
    ∃ i, i < s.size ∧ s.elem[i]? = some x ∧ s.pos[x]? = some i := by
  obtain ⟨i, hi, he⟩ := (mem_live_iff s x).1 hx
  obtain ⟨y, hy, _, hp⟩ := h.back i hi
  rw [he] at hy; cases hy
  exact ⟨i, hi, he, hp⟩

theorem live_lt {s : FastSet} (h : Inv s) {x : Nat} (hx : x ∈ live s) : x < s.max := by
  obtain ⟨i, hi, he⟩ := (mem_live_iff s x).1 hx
  obtain ⟨y, hy, hlt, _⟩ := h.back i hi
  rw [he] at hy; cases hy; exact hlt

theorem live_nodup {s : FastSet} (h : Inv s) : (live s).Nodup := by
  rw [List.nodup_iff_pairwise_ne, List.pairwise_iff_getElem]
  intro i j hi hj hij
  have hj' := hj
  unfold live at hj'
  rw [List.length_take] at hj'
  have hjs : j < s.size := by omega
  have his : i < s.size := by omega
  obtain ⟨x, hx, _, hpx⟩ := h.back i his
  obtain ⟨y, hy, _, hpy⟩ := h.back j hjs
  have e1 : (live s)[i]? = some x := by
    unfold live; rw [List.getElem?_take, if_pos his]; exact hx
  have e2 : (live s)[j]? = some y := by
    unfold live; rw [List.getElem?_take, if_pos hjs]; exact hy
  rw [List.getElem?_eq_getElem hi] at e1
  rw [List.getElem?_eq_getElem hj] at e2
  cases e1; cases e2
  intro e
  rw [e, hpy] at hpx
  cases hpx
  omega

theorem live_length {s : FastSet} (h : Inv s) : (live s).length = s.size := by
  unfold live
  rw [List.length_take, h.elem_len]
  have := h.size_le
  omega

/-- pigeonhole: a set that misses some `x < max` is not full -/
theorem size_lt_of_not_mem {s : FastSet} (h : Inv s) {x : Nat} (hx : x < s.max)
    (hn : x ∉ live s) : s.size < s.max := by
  have hnd : (x :: live s).Nodup := List.nodup_cons.2 ⟨hn, live_nodup h⟩
  have hsub : (x :: live s) ⊆ List.range s.max := by
    intro y hy
    rcases List.mem_cons.1 hy with rfl | hy
    · exact List.mem_range.2 hx
    · exact List.mem_range.2 (live_lt h hy)
  have := (List.subperm_of_subset hnd hsub).length_le
  rw [List.length_cons, live_length h, List.length_range] at this
  omega

/-! ### new / reset / card / iter -/

theorem new_inv (max : Nat) : Inv (FastSet.new max) :=
  ⟨by simp [FastSet.new], by simp [FastSet.new], by simp [FastSet.new],
   fun i hi => by simp [FastSet.new] at hi⟩

@[simp] theorem new_live (max : Nat) : live (FastSet.new max) = [] := by simp [live, FastSet.new]
@[simp] theorem new_max (max : Nat) : (FastSet.new max).max = max := rfl

theorem reset_inv {s : FastSet} (h : Inv s) : Inv s.reset :=
  ⟨h.pos_len, h.elem_len, Nat.zero_le _, fun i hi => by simp [FastSet.reset] at hi⟩

@[simp] theorem reset_live (s : FastSet) : live s.reset = [] := by simp [live, FastSet.reset]
@[simp] theorem reset_max (s : FastSet) : s.reset.max = s.max := rfl

theorem card_spec {s : FastSet} (h : Inv s) : s.card = (live s).length := by
  rw [live_length h]; rfl

theorem iterFrom_eq (elem : List Nat) : ∀ (m i : Nat), i + m ≤ elem.length →
    iterFrom elem m i = some ((elem.drop i).take m) := by
  intro m
  induction m with
  | zero => intro i _; simp [iterFrom]
  | succ m ih =>
    intro i hi
    have hlt : i < elem.length := by omega
    rw [iterFrom, List.getElem?_eq_getElem hlt, ih (i + 1) (by omega)]
    simp only [Option.some.injEq]
    rw [List.drop_eq_getElem_cons hlt, List.take_succ_cons]

/-- `iter()` yields exactly the live elements, without repetition -/
theorem iter_spec {s : FastSet} (h : Inv s) : s.iter = some (live s) ∧ (live s).Nodup := by
  refine ⟨?_, live_nodup h⟩
  unfold iter
  rw [iterFrom_eq _ _ _ (by rw [h.elem_len]; have := h.size_le; omega)]
  simp [live]

/-! ### contains -/

theorem contains_spec {s : FastSet} (h : Inv s) {x : Nat} (hx : x < s.max) :
    s.contains x = some (decide (x ∈ live s)) := by
  unfold contains
  rw [if_neg (by omega)]
  have hp : x < s.pos.length := by rw [h.pos_len]; exact hx
  rw [List.getElem?_eq_getElem hp]
  simp only
  by_cases hi : s.pos[x] < s.size
  · rw [if_pos hi]
    obtain ⟨y, hy, _, hpy⟩ := h.back _ hi
    rw [hy]
    simp only [Option.some.injEq]
    by_cases hyx : y = x
    · subst hyx
      have : y ∈ live s := (mem_live_iff s y).2 ⟨_, hi, hy⟩
      simp [this]
    · have : x ∉ live s := by
        intro hm
        obtain ⟨j, hj, hej, hpj⟩ := pos_of_mem h hm
        rw [List.getElem?_eq_getElem hp] at hpj
        cases hpj
        rw [hy] at hej
        cases hej
        exact hyx rfl
      simp [this, hyx]
  · rw [if_neg hi]
    have : x ∉ live s := by
      intro hm
      obtain ⟨j, hj, _, hpj⟩ := pos_of_mem h hm
      rw [List.getElem?_eq_getElem hp] at hpj
      cases hpj
      exact hi hj
    simp [this]

/-! ### insert -/

theorem insert_spec {s : FastSet} (h : Inv s) {x : Nat} (hx : x < s.max) :
    ∃ s', s.insert x = some s' ∧ Inv s' ∧ s'.max = s.max ∧
      live s' = if x ∈ live s then live s else live s ++ [x] := by
  have hp : x < s.pos.length := by rw [h.pos_len]; exact hx
  have hc := contains_spec h hx
  unfold contains at hc
  rw [if_neg (by omega), List.getElem?_eq_getElem hp] at hc
  simp only at hc
  unfold insert
  rw [if_neg (by omega), List.getElem?_eq_getElem hp]
  simp only
  by_cases hi : s.pos[x] < s.size
  · rw [if_pos hi] at hc
    rw [if_neg (by omega)]
    obtain ⟨y, hy, _, _⟩ := h.back _ hi
    rw [hy] at hc ⊢
    simp only [Option.some.injEq] at hc
    by_cases hyx : y = x
    · subst hyx
      have hm : y ∈ live s := by simpa using hc
      exact ⟨s, by simp, h, rfl, by rw [if_pos hm]⟩
    · have hm : x ∉ live s := by
        have : (y == x) = false := by simpa using hyx
        rw [this] at hc
        simpa using hc.symm
      have hlt := size_lt_of_not_mem h hx hm
      have hbne : (y != x) = true := by simpa using hyx
      simp only [hbne]
      rw [if_pos (by rw [h.elem_len]; exact hlt)]
      refine ⟨_, rfl, ?_, rfl, ?_⟩
      · refine ⟨by simpa using h.pos_len, by simpa using h.elem_len, by show s.size + 1 ≤ s.max; omega, ?_⟩
        intro i hi'
        simp only at hi'
        by_cases his : i = s.size
        · subst his
          exact ⟨x, by simp [h.elem_len, hlt], hx, by simp [hp]⟩
        · have hi2 : i < s.size := by omega
          obtain ⟨z, hz, hzl, hpz⟩ := h.back i hi2
          have hzx : z ≠ x := by
            rintro rfl
            exact hm ((mem_live_iff s z).2 ⟨i, hi2, hz⟩)
          refine ⟨z, ?_, hzl, ?_⟩
          · simp only; rw [List.getElem?_set_ne (by omega)]; exact hz
          · simp only; rw [List.getElem?_set_ne (fun e => hzx e.symm)]; exact hpz
      · rw [if_neg hm]
        simp only [live]
        rw [List.take_add_one, List.take_set_of_le (Nat.le_refl _)]
        simp [h.elem_len, hlt]
  · rw [if_neg hi] at hc
    rw [if_pos (by omega)]
    simp only
    have hm : x ∉ live s := by simpa using hc.symm
    have hlt := size_lt_of_not_mem h hx hm
    rw [if_pos (by rw [h.elem_len]; exact hlt)]
    refine ⟨_, rfl, ?_, rfl, ?_⟩
    · refine ⟨by simpa using h.pos_len, by simpa using h.elem_len, by show s.size + 1 ≤ s.max; omega, ?_⟩
      intro i hi'
      simp only at hi'
      by_cases his : i = s.size
      · subst his
        exact ⟨x, by simp [h.elem_len, hlt], hx, by simp [hp]⟩
      · have hi2 : i < s.size := by omega
        obtain ⟨z, hz, hzl, hpz⟩ := h.back i hi2
        have hzx : z ≠ x := by
          rintro rfl
          exact hm ((mem_live_iff s z).2 ⟨i, hi2, hz⟩)
        refine ⟨z, ?_, hzl, ?_⟩
        · simp only; rw [List.getElem?_set_ne (by omega)]; exact hz
        · simp only; rw [List.getElem?_set_ne (fun e => hzx e.symm)]; exact hpz
    · rw [if_neg hm]
      simp only [live]
      rw [List.take_add_one, List.take_set_of_le (Nat.le_refl _)]
      simp [h.elem_len, hlt]

/-! ### remove -/

/-- the state after removing a present `x` stored at index `i`, with `y` the last live element -/
theorem remove_present {s : FastSet} (h : Inv s) {x i y : Nat} (hi : i < s.size)
    (hxi : s.elem[i]? = some x) (hy : s.elem[s.size - 1]? = some y) :
    let s' : FastSet := { s with pos := s.pos.set y i, elem := s.elem.set i y, size := s.size - 1 }
    Inv s' ∧ (∀ z, z ∈ live s' ↔ z ∈ live s ∧ z ≠ x) := by
  intro s'
  obtain ⟨x', hx', hxl, hpx⟩ := h.back i hi
  rw [hxi] at hx'; cases hx'
  obtain ⟨y', hy', hyl, hpy⟩ := h.back (s.size - 1) (by omega)
  rw [hy] at hy'; cases hy'
  have hiel : i < s.elem.length := by rw [h.elem_len]; have := h.size_le; omega
  have hyp : y < s.pos.length := by rw [h.pos_len]; exact hyl
  have elem' : ∀ j, s'.elem[j]? = if j = i then some y else s.elem[j]? := by
    intro j
    show (s.elem.set i y)[j]? = _
    by_cases hji : j = i
    · subst hji; simp [hiel]
    · rw [if_neg hji, List.getElem?_set_ne (fun e => hji e.symm)]
  have pos' : ∀ w, s'.pos[w]? = if w = y then some i else s.pos[w]? := by
    intro w
    show (s.pos.set y i)[w]? = _
    by_cases hwy : w = y
    · subst hwy; simp [hyp]
    · rw [if_neg hwy, List.getElem?_set_ne (fun e => hwy e.symm)]
  -- x = y ↔ i = size - 1
  have hxy : x = y → i = s.size - 1 := by
    rintro rfl
    rw [hpx] at hpy; cases hpy; rfl
  constructor
  · refine ⟨by simpa [s'] using h.pos_len, by simpa [s'] using h.elem_len, ?_, ?_⟩
    · show s.size - 1 ≤ s.max
      have := h.size_le; omega
    · intro j hj
      have hj' : j < s.size - 1 := hj
      by_cases hji : j = i
      · subst hji
        exact ⟨y, by rw [elem', if_pos rfl], hyl, by rw [pos', if_pos rfl]⟩
      · obtain ⟨w, hw, hwl, hpw⟩ := h.back j (by omega)
        have hwy : w ≠ y := by
          rintro rfl
          rw [hpw] at hpy; cases hpy; omega
        exact ⟨w, by rw [elem', if_neg hji]; exact hw, hwl, by rw [pos', if_neg hwy]; exact hpw⟩
  · intro z
    rw [mem_live_iff, mem_live_iff]
    constructor
    · rintro ⟨j, hj, hz⟩
      have hj' : j < s.size - 1 := hj
      rw [elem'] at hz
      by_cases hji : j = i
      · subst hji
        rw [if_pos rfl] at hz; cases hz
        refine ⟨⟨s.size - 1, by omega, hy⟩, ?_⟩
        intro e
        have := hxy e.symm
        omega
      · rw [if_neg hji] at hz
        refine ⟨⟨j, by omega, hz⟩, ?_⟩
        rintro rfl
        obtain ⟨w, hw, _, hpw⟩ := h.back j (by omega)
        rw [hz] at hw; cases hw
        rw [hpx] at hpw; cases hpw
        exact hji rfl
    · rintro ⟨⟨j, hj, hz⟩, hne⟩
      have hji : j ≠ i := by
        rintro rfl
        rw [hxi] at hz; cases hz; exact hne rfl
      by_cases hjl : j < s.size - 1
      · exact ⟨j, hjl, by rw [elem', if_neg hji]; exact hz⟩
      · have hje : j = s.size - 1 := by omega
        subst hje
        rw [hy] at hz; cases hz
        exact ⟨i, by show i < s.size - 1; omega, by rw [elem', if_pos rfl]⟩

theorem remove_spec {s : FastSet} (h : Inv s) {x : Nat} (hx : x < s.max) :
    ∃ s', s.remove x = some s' ∧ Inv s' ∧ s'.max = s.max ∧
      (∀ z, z ∈ live s' ↔ z ∈ live s ∧ z ≠ x) ∧
      s'.size = if x ∈ live s then s.size - 1 else s.size := by
  have hp : x < s.pos.length := by rw [h.pos_len]; exact hx
  have hc := contains_spec h hx
  unfold contains at hc
  rw [if_neg (by omega), List.getElem?_eq_getElem hp] at hc
  simp only at hc
  unfold remove
  rw [if_neg (by omega), List.getElem?_eq_getElem hp]
  simp only
  by_cases hi : s.pos[x] < s.size
  · rw [if_pos hi] at hc ⊢
    obtain ⟨y, hy, _, _⟩ := h.back _ hi
    rw [hy] at hc ⊢
    simp only [Option.some.injEq] at hc
    by_cases hyx : y = x
    · subst hyx
      have hm : y ∈ live s := by simpa using hc
      simp only [beq_self_eq_true]
      obtain ⟨w, hw, hwl, _⟩ := h.back (s.size - 1) (by omega)
      rw [hw]
      simp only
      rw [if_pos (by rw [h.pos_len]; exact hwl)]
      obtain ⟨hinv, hmem⟩ := remove_present h hi hy hw
      exact ⟨_, rfl, hinv, rfl, hmem, by simp [hm]⟩
    · have hm : x ∉ live s := by
        have : (y == x) = false := by simpa using hyx
        rw [this] at hc
        simpa using hc.symm
      have : (y == x) = false := by simpa using hyx
      simp only [this]
      exact ⟨s, rfl, h, rfl, fun z => ⟨fun hz => ⟨hz, fun e => hm (e ▸ hz)⟩, fun hz => hz.1⟩,
        by simp [hm]⟩
  · rw [if_neg hi] at hc ⊢
    have hm : x ∉ live s := by simpa using hc.symm
    exact ⟨s, rfl, h, rfl, fun z => ⟨fun hz => ⟨hz, fun e => hm (e ▸ hz)⟩, fun hz => hz.1⟩,
      by simp [hm]⟩

end FastSet
end Smt
