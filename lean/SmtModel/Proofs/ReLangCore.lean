/-
  C01, core part: the id-independent smart constructors of the regular-expression model
  (Model/Re.lean: complement, concat, concat_list, mk_loop and the derived star/plus/opt/exp/loop,
  char/range/smt_range/str, the flatten functions) never change the denoted language
  (`RE.lang`, Proofs/ReLang.lean), preserve well-formedness, and the `nullable` flag is exact.

  Also the tree-level complement discipline used by C07 (`ComplCanon`, involution, no fixpoint).

  Language/loop-range algebra is in Proofs/ReLangLoop.lean.
-/
import Mathlib.Computability.Language
import SmtModel.Proofs.ReLangLoop

namespace Smt
namespace RE

theorem mem_setOf_lang {P : List ℕ → Prop} {w : List ℕ} : w ∈ ({w | P w} : Language ℕ) ↔ P w :=
  Iff.rfl

/-! ### 1. every denoted language is a set of well-formed strings -/

mutual
theorem lang_sub_allStrings : ∀ (e : RE), e.WF → e.lang ≤ allStrings
  | .empty, _ => by
      intro w hw; rw [lang] at hw; exact absurd hw (Language.notMem_zero w)
  | .epsilon, _ => by
      intro w hw; rw [lang] at hw
      have hw' : w = [] := (Language.mem_one w).1 hw
      subst hw'; exact WFs_nil
  | .range s, h => by
      intro w hw
      rw [lang] at hw
      obtain ⟨c, rfl, _, h2⟩ := hw
      rw [WF] at h
      exact WFs_cons.2 ⟨Nat.le_trans h2 h.2, WFs_nil⟩
  | .concat a b, h => by
      rw [WF] at h; rw [lang]
      exact mul_le_allStrings (lang_sub_allStrings a h.1) (lang_sub_allStrings b h.2)
  | .loop e r, h => by
      rw [WF] at h; rw [lang]
      exact loopLang_le_allStrings (lang_sub_allStrings e h.1) r
  | .compl e, _ => by
      intro w hw; rw [lang] at hw; exact hw.1
  | .inter l, _ => by
      intro w hw; rw [lang] at hw; exact hw.1
  | .union l, h => by
      rw [WF] at h; rw [lang]; exact langAny_sub_allStrings l h
theorem langAny_sub_allStrings : ∀ (l : List RE), WFList l → langAny l ≤ allStrings
  | [], _ => by
      intro w hw; rw [langAny] at hw; exact absurd hw (Language.notMem_zero w)
  | x :: xs, h => by
      rw [WFList] at h; rw [langAny]
      intro w hw
      rcases (Language.mem_add _ _ _).1 hw with h1 | h1
      · exact lang_sub_allStrings x h.1 h1
      · exact langAny_sub_allStrings xs h.2 h1
end

theorem lang_wfs {e : RE} (h : e.WF) {w : List ℕ} (hw : w ∈ e.lang) : WFs w :=
  lang_sub_allStrings e h hw

/-! ### 2. the nullable flag is exact -/

mutual
theorem nullable_iff : ∀ (e : RE), e.WF → (e.nullable = true ↔ [] ∈ e.lang)
  | .empty, _ => by
      rw [nullable, lang]
      exact ⟨fun h => (by cases h), fun h => absurd h (Language.notMem_zero _)⟩
  | .epsilon, _ => by
      rw [nullable, lang]
      exact ⟨fun _ => Language.nil_mem_one, fun _ => rfl⟩
  | .range s, _ => by
      rw [nullable, lang]
      refine ⟨fun h => (by cases h), ?_⟩
      rintro ⟨c, hc, _⟩; cases hc
  | .concat a b, h => by
      rw [WF] at h
      rw [nullable, lang, Bool.and_eq_true, nullable_iff a h.1, nullable_iff b h.2, Language.mem_mul]
      constructor
      · rintro ⟨h1, h2⟩; exact ⟨[], h1, [], h2, rfl⟩
      · rintro ⟨u, hu, v, hv, huv⟩
        obtain ⟨rfl, rfl⟩ := List.append_eq_nil_iff.1 huv
        exact ⟨hu, hv⟩
  | .loop e r, h => by
      rw [WF] at h
      rw [nullable, lang, Bool.or_eq_true, nullable_iff e h.1, mem_loopLang]
      simp only [nil_mem_pow, beq_iff_eq]
      constructor
      · rintro (h0 | h1)
        · exact ⟨0, by have := mem_start r h.2; rwa [h0] at this, Or.inl rfl⟩
        · exact ⟨r.start, mem_start r h.2, Or.inr h1⟩
      · rintro ⟨k, hk, (rfl | h1)⟩
        · left; have := hk.1; omega
        · right; exact h1
  | .compl e, h => by
      rw [WF] at h
      rw [nullable, lang]
      have ih := nullable_iff e h
      constructor
      · intro hn
        refine ⟨WFs_nil, fun hm => ?_⟩
        rw [← ih] at hm
        rw [hm] at hn; cases hn
      · rintro ⟨_, hm⟩
        cases hb : e.nullable
        · rfl
        · exact absurd (ih.1 hb) hm
  | .inter l, h => by
      rw [WF] at h
      rw [nullable, lang, allNullable_iff l h]
      exact ⟨fun hm => ⟨WFs_nil, hm⟩, fun hm => hm.2⟩
  | .union l, h => by
      rw [WF] at h
      rw [nullable, lang, anyNullable_iff l h]
theorem allNullable_iff : ∀ (l : List RE), WFList l → (allNullable l = true ↔ [] ∈ langAll l)
  | [], _ => by
      rw [allNullable, langAll]
      exact ⟨fun _ => trivial, fun _ => rfl⟩
  | x :: xs, h => by
      rw [WFList] at h
      rw [allNullable, langAll, Bool.and_eq_true, nullable_iff x h.1, allNullable_iff xs h.2,
        Language.mem_inf]
theorem anyNullable_iff : ∀ (l : List RE), WFList l → (anyNullable l = true ↔ [] ∈ langAny l)
  | [], _ => by
      rw [anyNullable, langAny]
      exact ⟨fun h => (by cases h), fun h => absurd h (Language.notMem_zero _)⟩
  | x :: xs, h => by
      rw [WFList] at h
      rw [anyNullable, langAny, Bool.or_eq_true, nullable_iff x h.1, anyNullable_iff xs h.2,
        Language.mem_add]
end

/-! ### 3. complement -/

theorem sigma_wf : sigma.WF := by
  rw [sigma, WF]; exact ⟨Nat.zero_le _, Nat.le_refl _⟩

theorem sigmaStar_wf : sigmaStar.WF := by
  rw [sigmaStar, WF]; exact ⟨sigma_wf, trivial⟩

theorem sigmaPlus_wf : sigmaPlus.WF := by
  rw [sigmaPlus, WF]; exact ⟨sigma_wf, trivial⟩

theorem complement_wf (e : RE) (h : e.WF) : e.complement.WF := by
  unfold complement
  split
  · exact sigmaStar_wf
  · exact sigmaPlus_wf
  · rw [WF] at h; exact h
  · split
    · trivial
    · split
      · trivial
      · rw [WF]; exact h

theorem complement_lang (e : RE) (h : e.WF) :
    e.complement.lang = {w | WFs w ∧ w ∉ e.lang} := by
  apply Language.ext; intro w
  change w ∈ e.complement.lang ↔ (WFs w ∧ w ∉ e.lang)
  unfold complement
  split
  · rw [sigmaStar_lang, lang]
    exact ⟨fun hw => ⟨hw, Language.notMem_zero w⟩, fun hw => hw.1⟩
  · rw [sigmaPlus_lang, lang, Language.mem_one]
    exact Iff.rfl
  · rename_i x
    rw [WF] at h
    rw [lang]
    change w ∈ x.lang ↔ (WFs w ∧ ¬ (WFs w ∧ w ∉ x.lang))
    constructor
    · intro hw; exact ⟨lang_wfs h hw, fun hn => hn.2 hw⟩
    · rintro ⟨hw, hn⟩
      by_contra hc; exact hn ⟨hw, hc⟩
  · split
    · rename_i heq
      rw [heq, sigmaStar_lang, lang]
      exact ⟨fun hw => absurd hw (Language.notMem_zero w), fun hw => absurd hw.1 hw.2⟩
    · split
      · rename_i heq
        rw [heq, sigmaPlus_lang, lang, Language.mem_one]
        change w = [] ↔ (WFs w ∧ ¬ (WFs w ∧ w ≠ []))
        constructor
        · rintro rfl; exact ⟨WFs_nil, fun hn => hn.2 rfl⟩
        · rintro ⟨hw, hn⟩
          by_contra hc; exact hn ⟨hw, hc⟩
      · rw [lang]
        exact Iff.rfl

/-- `(complement e).nullable = !e.nullable` (no hypothesis) -/
theorem complement_nullable (e : RE) : e.complement.nullable = !e.nullable := by
  unfold complement
  split
  · rfl
  · rfl
  · rw [nullable, Bool.not_not]
  · split
    · rename_i heq; rw [heq]; rfl
    · split
      · rename_i heq; rw [heq]; rfl
      · rw [nullable]

/-- complement has no fixpoint -/
theorem complement_ne (e : RE) : e.complement ≠ e := by
  intro h
  have := complement_nullable e
  rw [h] at this
  cases hb : e.nullable <;> rw [hb] at this <;> cases this

/-! ### 5. concat -/

theorem concatBase_lang (a b : RE) (ha : a.WF) (hb : b.WF) :
    (concatBase a b).lang = a.lang * b.lang ∧ (concatBase a b).WF := by
  unfold concatBase
  split
  · rename_i hc
    rw [Bool.and_eq_true, decide_eq_true_eq] at hc
    obtain ⟨hn, rfl⟩ := hc
    refine ⟨?_, hb⟩
    rw [sigmaStar_lang]
    exact (mul_allStrings ((nullable_iff a ha).1 hn) (lang_sub_allStrings a ha)).symm
  · refine ⟨by rw [lang], ?_⟩
    rw [WF]; exact ⟨ha, hb⟩

theorem concatPre_lang (a b r : RE) (ha : a.WF) (hb : b.WF) (h : concatPre a b = some r) :
    r.lang = a.lang * b.lang ∧ r.WF := by
  unfold concatPre at h
  split at h
  · cases h; refine ⟨?_, trivial⟩; rw [lang, zero_mul]
  · cases h; refine ⟨?_, trivial⟩; rw [lang, mul_zero]
  · cases h; refine ⟨?_, hb⟩; rw [lang, one_mul]
  · cases h; refine ⟨?_, ha⟩; rw [lang, mul_one]
  · split at h
    · -- R . R^[i,j]
      rename_i r' heq
      cases h
      split at heq
      · rename_i y rng
        split at heq
        · rename_i hxy
          cases heq
          subst hxy
          rw [WF] at hb
          refine ⟨?_, ?_⟩
          · rw [lang, lang, mul_loopLang _ _ hb.2]
          · rw [WF]; exact ⟨ha, rangeOK_addPointN _ hb.2 1⟩
        · cases heq
      · cases heq
    · split at h
      · -- R^[i,j] . R
        rename_i r' heq
        cases h
        split at heq
        · rename_i x rng
          split at heq
          · rename_i hxy
            cases heq
            subst hxy
            rw [WF] at ha
            refine ⟨?_, ?_⟩
            · rw [lang, lang, loopLang_mul_self _ _ ha.2]
            · rw [WF]; exact ⟨hb, rangeOK_addPointN _ ha.2 1⟩
          · cases heq
        · cases heq
      · split at h
        · -- R^[a,b] . R^[c,d]
          rename_i r' heq
          cases h
          split at heq
          · rename_i x xr y yr
            split at heq
            · rename_i hxy
              cases heq
              subst hxy
              rw [WF] at ha hb
              refine ⟨?_, ?_⟩
              · rw [lang, lang, lang, loopLang_mul _ _ _ ha.2 hb.2]
              · rw [WF]; exact ⟨ha.1, rangeOK_addN _ _ ha.2 hb.2⟩
            · cases heq
          · cases heq
        · -- R . R
          split at h
          · rename_i hab
            cases h
            subst hab
            refine ⟨?_, ?_⟩
            · rw [lang, mul_self_eq_loopLang]
            · rw [WF]; exact ⟨ha, rangeOK_point 2⟩
          · cases h

theorem mkConcat_spec (a b : RE) (ha : a.WF) (hb : b.WF) :
    (mkConcat a b).lang = a.lang * b.lang ∧ (mkConcat a b).WF := by
  fun_induction mkConcat a b with
  | case1 x y e2 r h => exact concatPre_lang _ _ _ ha hb h
  | case2 x y e2 h ih1 ih2 =>
    have hxy := ha
    rw [WF] at hxy
    obtain ⟨h1, h1w⟩ := ih1 hxy.2 hb
    obtain ⟨h2, h2w⟩ := ih2 hxy.1 h1w
    refine ⟨?_, h2w⟩
    rw [h2, h1, lang, mul_assoc]
  | case3 e1 e2 _ r h => exact concatPre_lang _ _ _ ha hb h
  | case4 e1 e2 _ h => exact concatBase_lang _ _ ha hb

/-- `concat` denotes concatenation -/
theorem mkConcat_lang (a b : RE) (ha : a.WF) (hb : b.WF) :
    (mkConcat a b).lang = a.lang * b.lang := (mkConcat_spec a b ha hb).1

theorem mkConcat_wf (a b : RE) (ha : a.WF) (hb : b.WF) : (mkConcat a b).WF :=
  (mkConcat_spec a b ha hb).2

end RE
end Smt
