/-
  C01, core part: the id-independent smart constructors of the regular-expression model
  (Model/Re.lean: complement, concat, concat_list, mk_loop and the derived star/plus/opt/exp/loop,
  char/range/smt_range/str, the flatten functions) never change the denoted language
  (`RE.lang`, Proofs/ReLang.lean), preserve well-formedness, and the `nullable` flag is exact.

  Also the tree-level complement discipline used by C07 (`ComplCanon`, involution, no fixpoint).

  Language/loop-range algebra is in Proofs/ReLangLoop.lean.
-/
import Mathlib.Computability.Language
import SmtModel.Proofs.ReLangLoop

namespace Smt
namespace RE

theorem mem_setOf_lang {P : List ℕ → Prop} {w : List ℕ} : w ∈ ({w | P w} : Language ℕ) ↔ P w :=
  Iff.rfl

/-! ### 1. every denoted language is a set of well-formed strings -/

mutual
theorem lang_sub_allStrings : ∀ (e : RE), e.WF → e.lang ≤ allStrings
  | .empty, _ => by
      intro w hw; rw [lang] at hw; exact absurd hw (Language.notMem_zero w)
  | .epsilon, _ => by
      intro w hw; rw [lang] at hw
      have hw' : w = [] := (Language.mem_one w).1 hw
      subst hw'; exact WFs_nil
  | .range s, h => by
      intro w hw
      rw [lang] at hw
      obtain ⟨c, rfl, _, h2⟩ := hw
      rw [WF] at h
      exact WFs_cons.2 ⟨Nat.le_trans h2 h.2, WFs_nil⟩
  | .concat a b, h => by
      rw [WF] at h; rw [lang]
      exact mul_le_allStrings (lang_sub_allStrings a h.1) (lang_sub_allStrings b h.2)
  | .loop e r, h => by
      rw [WF] at h; rw [lang]
      exact loopLang_le_allStrings (lang_sub_allStrings e h.1) r
  | .compl e, _ => by
      intro w hw; rw [lang] at hw; exact hw.1
  | .inter l, _ => by
      intro w hw; rw [lang] at hw; exact hw.1
  | .union l, h => by
      rw [WF] at h; rw [lang]; exact langAny_sub_allStrings l h
theorem langAny_sub_allStrings : ∀ (l : List RE), WFList l → langAny l ≤ allStrings
  | [], _ => by
      intro w hw; rw [langAny] at hw; exact absurd hw (Language.notMem_zero w)
  | x :: xs, h => by
      rw [WFList] at h; rw [langAny]
      intro w hw
      rcases (Language.mem_add _ _ _).1 hw with h1 | h1
      · exact lang_sub_allStrings x h.1 h1
      · exact langAny_sub_allStrings xs h.2 h1
end

theorem WF_loop_iff (e : RE) (r : LoopRange) : (RE.loop e r).WF ↔ e.WF ∧ RangeOK r := by
  rw [WF]; exact Iff.rfl

theorem lang_wfs {e : RE} (h : e.WF) {w : List ℕ} (hw : w ∈ e.lang) : WFs w :=
  lang_sub_allStrings e h hw

/-! ### 2. the nullable flag is exact -/

mutual
theorem nullable_iff : ∀ (e : RE), e.WF → (e.nullable = true ↔ [] ∈ e.lang)
  | .empty, _ => by
      rw [nullable, lang]
      exact ⟨fun h => (by cases h), fun h => absurd h (Language.notMem_zero _)⟩
  | .epsilon, _ => by
      rw [nullable, lang]
      exact ⟨fun _ => Language.nil_mem_one, fun _ => rfl⟩
  | .range s, _ => by
      rw [nullable, lang]
      refine ⟨fun h => (by cases h), ?_⟩
      rintro ⟨c, hc, _⟩; cases hc
  | .concat a b, h => by
      rw [WF] at h
      rw [nullable, lang, Bool.and_eq_true, nullable_iff a h.1, nullable_iff b h.2, Language.mem_mul]
      constructor
      · rintro ⟨h1, h2⟩; exact ⟨[], h1, [], h2, rfl⟩
      · rintro ⟨u, hu, v, hv, huv⟩
        obtain ⟨rfl, rfl⟩ := List.append_eq_nil_iff.1 huv
        exact ⟨hu, hv⟩
  | .loop e r, h => by
      rw [WF] at h
      rw [nullable, lang, Bool.or_eq_true, nullable_iff e h.1, mem_loopLang]
      simp only [nil_mem_pow, beq_iff_eq]
      constructor
      · rintro (h0 | h1)
        · exact ⟨0, by have := mem_start r h.2; rwa [h0] at this, Or.inl rfl⟩
        · exact ⟨r.start, mem_start r h.2, Or.inr h1⟩
      · rintro ⟨k, hk, (rfl | h1)⟩
        · left; have := hk.1; omega
        · right; exact h1
  | .compl e, h => by
      rw [WF] at h
      rw [nullable, lang]
      have ih := nullable_iff e h
      constructor
      · intro hn
        refine ⟨WFs_nil, fun hm => ?_⟩
        rw [← ih] at hm
        rw [hm] at hn; cases hn
      · rintro ⟨_, hm⟩
        cases hb : e.nullable
        · rfl
        · exact absurd (ih.1 hb) hm
  | .inter l, h => by
      rw [WF] at h
      rw [nullable, lang, allNullable_iff l h]
      exact ⟨fun hm => ⟨WFs_nil, hm⟩, fun hm => hm.2⟩
  | .union l, h => by
      rw [WF] at h
      rw [nullable, lang, anyNullable_iff l h]
theorem allNullable_iff : ∀ (l : List RE), WFList l → (allNullable l = true ↔ [] ∈ langAll l)
  | [], _ => by
      rw [allNullable, langAll]
      exact ⟨fun _ => trivial, fun _ => rfl⟩
  | x :: xs, h => by
      rw [WFList] at h
      rw [allNullable, langAll, Bool.and_eq_true, nullable_iff x h.1, allNullable_iff xs h.2,
        Language.mem_inf]
theorem anyNullable_iff : ∀ (l : List RE), WFList l → (anyNullable l = true ↔ [] ∈ langAny l)
  | [], _ => by
      rw [anyNullable, langAny]
      exact ⟨fun h => (by cases h), fun h => absurd h (Language.notMem_zero _)⟩
  | x :: xs, h => by
      rw [WFList] at h
      rw [anyNullable, langAny, Bool.or_eq_true, nullable_iff x h.1, anyNullable_iff xs h.2,
        Language.mem_add]
end

/-! ### 3. complement -/

theorem sigma_wf : sigma.WF := by
  rw [sigma, WF]; exact ⟨Nat.zero_le _, Nat.le_refl _⟩

theorem sigmaStar_wf : sigmaStar.WF := by
  rw [sigmaStar, WF]; exact ⟨sigma_wf, trivial⟩

theorem sigmaPlus_wf : sigmaPlus.WF := by
  rw [sigmaPlus, WF]; exact ⟨sigma_wf, trivial⟩

theorem complement_wf (e : RE) (h : e.WF) : e.complement.WF := by
  unfold complement
  split
  · exact sigmaStar_wf
  · exact sigmaPlus_wf
  · rw [WF] at h; exact h
  · split
    · trivial
    · split
      · trivial
      · rw [WF]; exact h

theorem complement_lang (e : RE) (h : e.WF) :
    e.complement.lang = {w | WFs w ∧ w ∉ e.lang} := by
  apply Language.ext; intro w
  change w ∈ e.complement.lang ↔ (WFs w ∧ w ∉ e.lang)
  unfold complement
  split
  · rw [sigmaStar_lang, lang]
    exact ⟨fun hw => ⟨hw, Language.notMem_zero w⟩, fun hw => hw.1⟩
  · rw [sigmaPlus_lang, lang, Language.mem_one]
    exact Iff.rfl
  · rename_i x
    rw [WF] at h
    rw [lang]
    change w ∈ x.lang ↔ (WFs w ∧ ¬ (WFs w ∧ w ∉ x.lang))
    constructor
    · intro hw; exact ⟨lang_wfs h hw, fun hn => hn.2 hw⟩
    · rintro ⟨hw, hn⟩
      by_contra hc; exact hn ⟨hw, hc⟩
  · split
    · rename_i heq
      rw [heq, sigmaStar_lang, lang]
      exact ⟨fun hw => absurd hw (Language.notMem_zero w), fun hw => absurd hw.1 hw.2⟩
    · split
      · rename_i heq
        rw [heq, sigmaPlus_lang, lang, Language.mem_one]
        change w = [] ↔ (WFs w ∧ ¬ (WFs w ∧ w ≠ []))
        constructor
        · rintro rfl; exact ⟨WFs_nil, fun hn => hn.2 rfl⟩
        · rintro ⟨hw, hn⟩
          by_contra hc; exact hn ⟨hw, hc⟩
      · rw [lang]
        exact Iff.rfl

/-- `(complement e).nullable = !e.nullable` (no hypothesis) -/
theorem complement_nullable (e : RE) : e.complement.nullable = !e.nullable := by
  unfold complement
  split
  · rfl
  · rfl
  · rw [nullable, Bool.not_not]
  · split
    · rename_i heq; rw [heq]; rfl
    · split
      · rename_i heq; rw [heq]; rfl
      · rw [nullable]

/-- complement has no fixpoint -/
theorem complement_ne (e : RE) : e.complement ≠ e := by
  intro h
  have := complement_nullable e
  rw [h] at this
  cases hb : e.nullable <;> rw [hb] at this <;> cases this

/-! ### 5. concat -/

theorem concatBase_lang (a b : RE) (ha : a.WF) (hb : b.WF) :
    (concatBase a b).lang = a.lang * b.lang ∧ (concatBase a b).WF := by
  unfold concatBase
  split
  · rename_i hc
    rw [Bool.and_eq_true, decide_eq_true_eq] at hc
    obtain ⟨hn, rfl⟩ := hc
    refine ⟨?_, hb⟩
    rw [sigmaStar_lang]
    exact (mul_allStrings ((nullable_iff a ha).1 hn) (lang_sub_allStrings a ha)).symm
  · refine ⟨by rw [lang], ?_⟩
    rw [WF]; exact ⟨ha, hb⟩

theorem concatPre_lang (a b r : RE) (ha : a.WF) (hb : b.WF) (h : concatPre a b = some r) :
    r.lang = a.lang * b.lang ∧ r.WF := by
  unfold concatPre at h
  split at h
  · cases h; refine ⟨?_, trivial⟩; rw [lang, zero_mul]
  · cases h; refine ⟨?_, trivial⟩; rw [lang, mul_zero]
  · cases h; refine ⟨?_, hb⟩; rw [lang, one_mul]
  · cases h; refine ⟨?_, ha⟩; rw [lang, mul_one]
  · split at h
    · -- R . R^[i,j]
      rename_i r' heq
      cases h
      split at heq
      · rename_i y rng
        split at heq
        · rename_i hxy
          cases heq
          subst hxy
          rw [WF] at hb
          refine ⟨?_, ?_⟩
          · rw [lang, lang, mul_loopLang _ _ hb.2]
          · rw [WF]; exact ⟨ha, rangeOK_addPointN _ hb.2 1⟩
        · cases heq
      · cases heq
    · split at h
      · -- R^[i,j] . R
        rename_i r' heq
        cases h
        split at heq
        · rename_i x rng
          split at heq
          · rename_i hxy
            cases heq
            subst hxy
            rw [WF] at ha
            refine ⟨?_, ?_⟩
            · rw [lang, lang, loopLang_mul_self _ _ ha.2]
            · rw [WF]; exact ⟨hb, rangeOK_addPointN _ ha.2 1⟩
          · cases heq
        · cases heq
      · split at h
        · -- R^[a,b] . R^[c,d]
          rename_i r' heq
          cases h
          split at heq
          · rename_i x xr y yr
            split at heq
            · rename_i hxy
              cases heq
              subst hxy
              rw [WF] at ha hb
              refine ⟨?_, ?_⟩
              · rw [lang, lang, lang, loopLang_mul _ _ _ ha.2 hb.2]
              · rw [WF]; exact ⟨ha.1, rangeOK_addN _ _ ha.2 hb.2⟩
            · cases heq
          · cases heq
        · -- R . R
          split at h
          · rename_i hab
            cases h
            subst hab
            refine ⟨?_, ?_⟩
            · rw [lang, mul_self_eq_loopLang]
            · rw [WF]; exact ⟨ha, rangeOK_point 2⟩
          · cases h

theorem mkConcat_spec (a b : RE) (ha : a.WF) (hb : b.WF) :
    (mkConcat a b).lang = a.lang * b.lang ∧ (mkConcat a b).WF := by
  fun_induction mkConcat a b with
  | case1 x y e2 r h => exact concatPre_lang _ _ _ ha hb h
  | case2 x y e2 h ih1 ih2 =>
    have hxy := ha
    rw [WF] at hxy
    obtain ⟨h1, h1w⟩ := ih1 hxy.2 hb
    obtain ⟨h2, h2w⟩ := ih2 hxy.1 h1w
    refine ⟨?_, h2w⟩
    rw [h2, h1, lang, mul_assoc]
  | case3 e1 e2 _ r h => exact concatPre_lang _ _ _ ha hb h
  | case4 e1 e2 _ h => exact concatBase_lang _ _ ha hb

/-- `concat` denotes concatenation -/
theorem mkConcat_lang (a b : RE) (ha : a.WF) (hb : b.WF) :
    (mkConcat a b).lang = a.lang * b.lang := (mkConcat_spec a b ha hb).1

theorem mkConcat_wf (a b : RE) (ha : a.WF) (hb : b.WF) : (mkConcat a b).WF :=
  (mkConcat_spec a b ha hb).2

/-! ### concat_list, flatten_concat -/

/-- the product of the languages of a list of terms -/
def concatLangs : List RE → Language ℕ
  | [] => 1
  | x :: xs => x.lang * concatLangs xs

theorem concatLangs_eq_foldr (l : List RE) :
    concatLangs l = (l.map lang).foldr (· * ·) 1 := by
  induction l with
  | nil => rfl
  | cons x xs ih => simp only [concatLangs, List.map_cons, List.foldr_cons, ih]

theorem concatLangs_append (l m : List RE) :
    concatLangs (l ++ m) = concatLangs l * concatLangs m := by
  induction l with
  | nil => simp [concatLangs]
  | cons x xs ih => simp only [List.cons_append, concatLangs, ih, mul_assoc]

theorem WFList_append (l m : List RE) : WFList (l ++ m) ↔ WFList l ∧ WFList m := by
  simp only [WFList_iff, List.mem_append]
  constructor
  · intro h; exact ⟨fun e he => h e (Or.inl he), fun e he => h e (Or.inr he)⟩
  · rintro ⟨h1, h2⟩ e (he | he)
    · exact h1 e he
    · exact h2 e he

/-- `flatten_concat` keeps the language: the product of the pieces is the language of the term -/
theorem flattenConcat_lang (e : RE) : concatLangs (flattenConcat e) = e.lang := by
  fun_induction flattenConcat e with
  | case1 => simp [concatLangs, lang]
  | case2 x y ihx ihy => rw [concatLangs_append, ihx, ihy, lang]
  | case3 r _ _ => simp [concatLangs]

theorem flattenConcat_wf (e : RE) (h : e.WF) : WFList (flattenConcat e) := by
  fun_induction flattenConcat e with
  | case1 => trivial
  | case2 x y ihx ihy =>
    rw [WF] at h
    exact (WFList_append _ _).2 ⟨ihx h.1, ihy h.2⟩
  | case3 r _ _ => exact ⟨h, trivial⟩

theorem foldr_mkConcat_spec (l : List RE) (h : WFList l) :
    (l.foldr mkConcat .epsilon).lang = concatLangs l ∧ (l.foldr mkConcat .epsilon).WF := by
  induction l with
  | nil => exact ⟨by simp [concatLangs, lang], trivial⟩
  | cons x xs ih =>
    rw [WFList] at h
    obtain ⟨h1, h2⟩ := ih h.2
    simp only [List.foldr_cons, concatLangs]
    exact ⟨by rw [mkConcat_lang _ _ h.1 h2, h1], mkConcat_wf _ _ h.1 h2⟩

theorem flatMap_flattenConcat_lang (a : List RE) :
    concatLangs (a.flatMap flattenConcat) = concatLangs a := by
  induction a with
  | nil => rfl
  | cons x xs ih =>
    rw [List.flatMap_cons, concatLangs_append, flattenConcat_lang, ih, concatLangs]

theorem flatMap_flattenConcat_wf (a : List RE) (h : WFList a) :
    WFList (a.flatMap flattenConcat) := by
  induction a with
  | nil => trivial
  | cons x xs ih =>
    rw [WFList] at h
    rw [List.flatMap_cons]
    exact (WFList_append _ _).2 ⟨flattenConcat_wf x h.1, ih h.2⟩

/-- `concat_list` denotes the concatenation of the list -/
theorem concatList_lang (a : List RE) (h : WFList a) : (concatList a).lang = concatLangs a := by
  rw [concatList, (foldr_mkConcat_spec _ (flatMap_flattenConcat_wf a h)).1,
    flatMap_flattenConcat_lang]

theorem concatList_wf (a : List RE) (h : WFList a) : (concatList a).WF :=
  (foldr_mkConcat_spec _ (flatMap_flattenConcat_wf a h)).2

/-! ### char, range, smt_range, str -/

theorem char?_eq_none_iff (x : ℕ) : char? x = none ↔ MAX_CHAR < x := by
  unfold char?; split <;> simp <;> omega

theorem char?_spec (x : ℕ) (e : RE) (h : char? x = some e) :
    e.lang = ({[x]} : Language ℕ) ∧ e.WF ∧ x ≤ MAX_CHAR := by
  unfold char? at h
  split at h
  · rename_i hx
    cases h
    refine ⟨?_, ?_, hx⟩
    · apply Language.ext; intro w
      rw [lang]
      change (∃ c, w = [c] ∧ x ≤ c ∧ c ≤ x) ↔ w = [x]
      constructor
      · rintro ⟨c, rfl, h1, h2⟩
        have : c = x := by omega
        rw [this]
      · rintro rfl; exact ⟨x, rfl, Nat.le_refl _, Nat.le_refl _⟩
    · rw [WF]; exact ⟨Nat.le_refl _, hx⟩
  · cases h

theorem char?_lang (x : ℕ) (e : RE) (h : char? x = some e) : e.lang = ({[x]} : Language ℕ) :=
  (char?_spec x e h).1

theorem char?_wf (x : ℕ) (e : RE) (h : char? x = some e) : e.WF := (char?_spec x e h).2.1

theorem range?_eq_none_iff (a b : ℕ) : range? a b = none ↔ ¬ (a ≤ b ∧ b ≤ MAX_CHAR) := by
  unfold range?; split <;> simp_all

theorem range?_lang (a b : ℕ) (e : RE) (h : range? a b = some e) :
    e.lang = {w | ∃ c, w = [c] ∧ a ≤ c ∧ c ≤ b} := by
  unfold range? at h
  split at h
  · cases h; rw [lang]; rfl
  · cases h

theorem range?_wf (a b : ℕ) (e : RE) (h : range? a b = some e) : e.WF := by
  unfold range? at h
  split at h
  · rename_i hc
    cases h
    rw [Bool.and_eq_true, decide_eq_true_eq, decide_eq_true_eq] at hc
    rw [WF]; exact hc
  · cases h

/-- `re.range`: the empty language unless both arguments are single characters -/
theorem smtRange_lang (s1 s2 : List ℕ) :
    (smtRange s1 s2).lang = {w | ∃ c1 c2 c, s1 = [c1] ∧ s2 = [c2] ∧ w = [c] ∧ c1 ≤ c ∧ c ≤ c2} := by
  apply Language.ext; intro w
  change w ∈ (smtRange s1 s2).lang ↔
    ∃ c1 c2 c, s1 = [c1] ∧ s2 = [c2] ∧ w = [c] ∧ c1 ≤ c ∧ c ≤ c2
  unfold smtRange
  split
  · rename_i c1 c2
    split
    · rw [lang]
      constructor
      · rintro ⟨c, rfl, h1, h2⟩; exact ⟨c1, c2, c, rfl, rfl, rfl, h1, h2⟩
      · rintro ⟨d1, d2, c, h1, h2, rfl, h3, h4⟩
        cases h1; cases h2
        exact ⟨c, rfl, h3, h4⟩
    · rename_i hlt
      rw [lang]
      constructor
      · intro hw; exact absurd hw (Language.notMem_zero w)
      · rintro ⟨d1, d2, c, h1, h2, rfl, h3, h4⟩
        cases h1; cases h2
        omega
  · rename_i hne
    rw [lang]
    constructor
    · intro hw; exact absurd hw (Language.notMem_zero w)
    · rintro ⟨d1, d2, c, rfl, rfl, _⟩
      exact absurd rfl (hne d1 d2 rfl)

theorem smtRange_wf (s1 s2 : List ℕ) (h2 : WFs s2) : (smtRange s1 s2).WF := by
  unfold smtRange
  split
  · rename_i c1 c2
    split
    · rename_i hle
      rw [WF]; exact ⟨hle, h2 c2 (by simp)⟩
    · trivial
  · trivial

theorem str?_eq_none_iff (s : List ℕ) : str? s = none ↔ ¬ WFs s := by
  induction s with
  | nil => simp [str?, WFs_nil]
  | cons c rest ih =>
    rw [WFs_cons]
    cases hr : str? rest with
    | none =>
      have : ¬ WFs rest := ih.1 hr
      simp [str?, hr, this]
    | some re =>
      have hw : WFs rest := by
        by_contra hc; rw [← ih, hr] at hc; cases hc
      cases hch : char? c with
      | none =>
        have := (char?_eq_none_iff c).1 hch
        simp [str?, hr, hch]; omega
      | some ch =>
        have := (char?_spec c ch hch).2.2
        simp [str?, hr, hch, hw, this]

/-- `str s` denotes `{s}` -/
theorem str?_spec (s : List ℕ) (e : RE) (h : str? s = some e) :
    e.lang = ({s} : Language ℕ) ∧ e.WF := by
  induction s generalizing e with
  | nil =>
    simp only [str?, Option.some.injEq] at h
    subst h
    refine ⟨?_, trivial⟩
    rw [lang]; rfl
  | cons c rest ih =>
    cases hr : str? rest with
    | none => simp [str?, hr] at h
    | some re =>
      cases hch : char? c with
      | none => simp [str?, hr, hch] at h
      | some ch =>
        simp only [str?, hr, hch, Option.bind_eq_bind, Option.bind_some, Option.pure_def,
          Option.some.injEq] at h
        subst h
        obtain ⟨h1, h2⟩ := ih re hr
        obtain ⟨h3, h4, _⟩ := char?_spec c ch hch
        refine ⟨?_, mkConcat_wf _ _ h4 h2⟩
        rw [mkConcat_lang _ _ h4 h2, h1, h3]
        apply Language.ext; intro w
        rw [Language.mem_mul]
        constructor
        · rintro ⟨u, hu, v, hv, rfl⟩
          have hu' : u = [c] := hu
          have hv' : v = rest := hv
          rw [hu', hv']; rfl
        · intro hw
          have hw' : w = c :: rest := hw
          exact ⟨[c], rfl, rest, rfl, hw'.symm⟩

theorem str?_lang (s : List ℕ) (e : RE) (h : str? s = some e) : e.lang = ({s} : Language ℕ) :=
  (str?_spec s e h).1

theorem str?_wf (s : List ℕ) (e : RE) (h : str? s = some e) : e.WF := (str?_spec s e h).2

/-! ### 6. mk_loop and the derived constructors -/

theorem mkLoop_spec (e : RE) (r : LoopRange) (he : e.WF) (hr : RangeOK r) :
    (mkLoop e r).lang = loopLang e.lang r ∧ (mkLoop e r).WF := by
  unfold mkLoop
  split
  · -- [0,0]
    rename_i hz
    have hz' : r.start = 0 ∧ r.stop = some 0 := by simpa [LoopRange.isZero] using hz
    obtain ⟨a, st⟩ := r
    simp only at hz'
    obtain ⟨rfl, rfl⟩ := hz'
    refine ⟨?_, trivial⟩
    have := loopLang_point e.lang 0
    rw [pow_zero] at this
    rw [lang]; exact this.symm
  · split
    · -- [1,1]
      rename_i _ ho
      have ho' : r.start = 1 ∧ r.stop = some 1 := by simpa [LoopRange.isOne] using ho
      obtain ⟨a, st⟩ := r
      simp only at ho'
      obtain ⟨rfl, rfl⟩ := ho'
      exact ⟨(loopLang_one e.lang).symm, he⟩
    · split
      · -- empty body
        rw [lang, loopLang_zero r hr]
        split
        · rename_i h0
          rw [beq_iff_eq] at h0
          rw [if_pos h0]
          exact ⟨by rw [lang], trivial⟩
        · rename_i h0
          rw [beq_iff_eq] at h0
          rw [if_neg h0]
          exact ⟨by rw [lang], trivial⟩
      · -- epsilon body
        rw [lang, loopLang_epsilon r hr]
        exact ⟨rfl, trivial⟩
      · -- nested loop
        rename_i x xr
        have hx := he
        rw [WF] at hx
        split
        · rename_i hex
          refine ⟨?_, ?_⟩
          · rw [lang, lang, loopLang_loopLang _ _ _ hx.2 hr hex]
          · rw [WF]; exact ⟨hx.1, rangeOK_mulN _ _ hx.2 hr⟩
        · refine ⟨by rw [lang], ?_⟩
          rw [WF]; exact ⟨he, hr⟩
      · refine ⟨by rw [lang], ?_⟩
        rw [WF]; exact ⟨he, hr⟩

/-- `mk_loop` denotes bounded/unbounded iteration -/
theorem mkLoop_lang (e : RE) (r : LoopRange) (he : e.WF) (hr : RangeOK r) :
    (mkLoop e r).lang = loopLang e.lang r := (mkLoop_spec e r he hr).1

theorem mkLoop_wf (e : RE) (r : LoopRange) (he : e.WF) (hr : RangeOK r) : (mkLoop e r).WF :=
  (mkLoop_spec e r he hr).2

theorem loopLang_star (L : Language ℕ) : loopLang L LoopRange.star = KStar.kstar L := by
  apply Language.ext; intro w
  rw [Language.kstar_eq_iSup_pow, Language.mem_iSup, mem_loopLang]
  simp only [LoopRange.star, LoopRange.infinite, mem_inf, Nat.zero_le, true_and]

theorem loopLang_opt (L : Language ℕ) : loopLang L LoopRange.opt = 1 + L := by
  apply Language.ext; intro w
  rw [mem_loopLang, Language.mem_add]
  simp only [LoopRange.opt, LoopRange.finite, mem_fin]
  constructor
  · rintro ⟨k, ⟨_, hk⟩, hw⟩
    rcases Nat.eq_zero_or_pos k with rfl | h
    · left; simpa using hw
    · have : k = 1 := by omega
      subst this; right; simpa using hw
  · rintro (hw | hw)
    · exact ⟨0, ⟨Nat.le_refl _, Nat.zero_le _⟩, by simpa using hw⟩
    · exact ⟨1, ⟨Nat.zero_le _, Nat.le_refl _⟩, by simpa using hw⟩

theorem loopLang_plus (L : Language ℕ) : loopLang L LoopRange.plus = L * KStar.kstar L := by
  rw [← loopLang_star, mul_loopLang L LoopRange.star (rangeOK_inf 0)]
  rfl

theorem star_lang (e : RE) (he : e.WF) : (star e).lang = KStar.kstar e.lang := by
  rw [star, mkLoop_lang e LoopRange.star he (rangeOK_inf 0), loopLang_star]

theorem star_wf (e : RE) (he : e.WF) : (star e).WF := mkLoop_wf e _ he (rangeOK_inf 0)

theorem plus_lang (e : RE) (he : e.WF) : (plus e).lang = e.lang * KStar.kstar e.lang := by
  rw [plus, mkLoop_lang e LoopRange.plus he (rangeOK_inf 1), loopLang_plus]

theorem plus_wf (e : RE) (he : e.WF) : (plus e).WF := mkLoop_wf e _ he (rangeOK_inf 1)

theorem opt_lang (e : RE) (he : e.WF) : (opt e).lang = 1 + e.lang := by
  rw [opt, mkLoop_lang e LoopRange.opt he ((rangeOK_fin 0 1).2 (Nat.zero_le _)), loopLang_opt]

theorem opt_wf (e : RE) (he : e.WF) : (opt e).WF :=
  mkLoop_wf e _ he ((rangeOK_fin 0 1).2 (Nat.zero_le _))

theorem exp_lang (e : RE) (k : ℕ) (he : e.WF) : (exp e k).lang = e.lang ^ k := by
  rw [exp, mkLoop_lang e _ he (rangeOK_point k), loopLang_point]

theorem exp_wf (e : RE) (k : ℕ) (he : e.WF) : (exp e k).WF := mkLoop_wf e _ he (rangeOK_point k)

/-- `re.loop i j`: `⋃ i ≤ k ≤ j, L^k`, empty when `i > j` -/
theorem smtLoop_lang (e : RE) (i j : ℕ) (he : e.WF) :
    (smtLoop e i j).lang = {w | ∃ k, i ≤ k ∧ k ≤ j ∧ w ∈ e.lang ^ k} := by
  apply Language.ext; intro w
  change w ∈ (smtLoop e i j).lang ↔ ∃ k, i ≤ k ∧ k ≤ j ∧ w ∈ e.lang ^ k
  unfold smtLoop
  split
  · rename_i hij
    rw [mkLoop_lang e (LoopRange.finite i j) he ((rangeOK_fin i j).2 hij), mem_loopLang]
    simp only [LoopRange.finite, mem_fin, and_assoc]
  · rename_i hij
    rw [lang]
    constructor
    · intro hw; exact absurd hw (Language.notMem_zero w)
    · rintro ⟨k, h1, h2, _⟩; omega

theorem smtLoop_wf (e : RE) (i j : ℕ) (he : e.WF) : (smtLoop e i j).WF := by
  unfold smtLoop
  split
  · rename_i hij; exact mkLoop_wf e _ he ((rangeOK_fin i j).2 hij)
  · trivial

/-! ### 4. flatten_union, flatten_inter -/

theorem langAny_append (l m : List RE) : langAny (l ++ m) = langAny l + langAny m := by
  induction l with
  | nil => simp [langAny]
  | cons x xs ih => simp only [List.cons_append, langAny, ih, add_assoc]

theorem langAll_append (l m : List RE) : langAll (l ++ m) = langAll l ⊓ langAll m := by
  induction l with
  | nil => simp [langAll]
  | cons x xs ih => simp only [List.cons_append, langAll, ih, inf_assoc]

theorem langAny_singleton (e : RE) : langAny [e] = e.lang := by
  simp [langAny]

theorem langAll_singleton (e : RE) : langAll [e] = e.lang := by
  simp [langAll]

theorem flattenUnion_plain (e : RE) (h : ∀ l, e ≠ .union l) : flattenUnion e = [e] := by
  unfold flattenUnion
  split
  · exact absurd rfl (h _)
  · rfl

theorem flattenInter_plain (e : RE) (h : ∀ l, e ≠ .inter l) : flattenInter e = [e] := by
  unfold flattenInter
  split
  · exact absurd rfl (h _)
  · rfl

mutual
/-- `flatten_union` keeps the language -/
theorem flattenUnion_lang : ∀ (e : RE), langAny (flattenUnion e) = e.lang
  | .empty => by simp [flattenUnion, langAny]
  | .epsilon => by simp [flattenUnion, langAny]
  | .range _ => by simp [flattenUnion, langAny]
  | .concat _ _ => by simp [flattenUnion, langAny]
  | .loop _ _ => by simp [flattenUnion, langAny]
  | .compl _ => by simp [flattenUnion, langAny]
  | .inter _ => by simp [flattenUnion, langAny]
  | .union l => by rw [flattenUnion, flattenUnionList_lang l, lang]
theorem flattenUnionList_lang : ∀ (l : List RE), langAny (flattenUnionList l) = langAny l
  | [] => by rw [flattenUnionList]
  | x :: xs => by
      rw [flattenUnionList, langAny_append, flattenUnion_lang x, flattenUnionList_lang xs, langAny]
end

mutual
theorem flattenUnion_wf : ∀ (e : RE), e.WF → WFList (flattenUnion e)
  | .empty, h => by simpa [flattenUnion, WFList] using h
  | .epsilon, h => by simpa [flattenUnion, WFList] using h
  | .range _, h => by simpa [flattenUnion, WFList] using h
  | .concat _ _, h => by simpa [flattenUnion, WFList] using h
  | .loop _ _, h => by simpa [flattenUnion, WFList] using h
  | .compl _, h => by simpa [flattenUnion, WFList] using h
  | .inter _, h => by simpa [flattenUnion, WFList] using h
  | .union l, h => by rw [WF] at h; rw [flattenUnion]; exact flattenUnionList_wf l h
theorem flattenUnionList_wf : ∀ (l : List RE), WFList l → WFList (flattenUnionList l)
  | [], _ => by rw [flattenUnionList]; trivial
  | x :: xs, h => by
      rw [WFList] at h
      rw [flattenUnionList]
      exact (WFList_append _ _).2 ⟨flattenUnion_wf x h.1, flattenUnionList_wf xs h.2⟩
end

mutual
/-- on well-formed strings, the intersection of the pieces of `flatten_inter` is the language -/
theorem flattenInter_mem : ∀ (e : RE) (w : List ℕ), WFs w →
    (w ∈ langAll (flattenInter e) ↔ w ∈ e.lang)
  | .empty, _, _ => by simp [flattenInter, langAll]
  | .epsilon, _, _ => by simp [flattenInter, langAll]
  | .range _, _, _ => by simp [flattenInter, langAll]
  | .concat _ _, _, _ => by simp [flattenInter, langAll]
  | .loop _ _, _, _ => by simp [flattenInter, langAll]
  | .compl _, _, _ => by simp [flattenInter, langAll]
  | .union _, _, _ => by simp [flattenInter, langAll]
  | .inter l, w, hw => by
      rw [flattenInter, flattenInterList_mem l w hw, lang]
      exact ⟨fun h => ⟨hw, h⟩, fun h => h.2⟩
theorem flattenInterList_mem : ∀ (l : List RE) (w : List ℕ), WFs w →
    (w ∈ langAll (flattenInterList l) ↔ w ∈ langAll l)
  | [], _, _ => by rw [flattenInterList]
  | x :: xs, w, hw => by
      rw [flattenInterList, langAll_append, langAll, Language.mem_inf, Language.mem_inf,
        flattenInter_mem x w hw, flattenInterList_mem xs w hw]
end

/-- `flatten_inter` keeps the language (relative to the well-formed strings) -/
theorem flattenInter_lang' (e : RE) :
    {w | WFs w ∧ w ∈ langAll (flattenInter e)} = e.lang ⊓ allStrings := by
  apply Language.ext; intro w
  rw [Language.mem_inf]
  change (WFs w ∧ w ∈ langAll (flattenInter e)) ↔ (w ∈ e.lang ∧ WFs w)
  constructor
  · rintro ⟨h1, h2⟩; exact ⟨(flattenInter_mem e w h1).1 h2, h1⟩
  · rintro ⟨h1, h2⟩; exact ⟨h2, (flattenInter_mem e w h2).2 h1⟩

theorem flattenInter_lang (e : RE) (h : e.WF) :
    {w | WFs w ∧ w ∈ langAll (flattenInter e)} = e.lang := by
  rw [flattenInter_lang']
  exact inf_eq_left.2 (lang_sub_allStrings e h)

mutual
theorem flattenInter_wf : ∀ (e : RE), e.WF → WFList (flattenInter e)
  | .empty, h => by simpa [flattenInter, WFList] using h
  | .epsilon, h => by simpa [flattenInter, WFList] using h
  | .range _, h => by simpa [flattenInter, WFList] using h
  | .concat _ _, h => by simpa [flattenInter, WFList] using h
  | .loop _ _, h => by simpa [flattenInter, WFList] using h
  | .compl _, h => by simpa [flattenInter, WFList] using h
  | .union _, h => by simpa [flattenInter, WFList] using h
  | .inter l, h => by rw [WF] at h; rw [flattenInter]; exact flattenInterList_wf l h
theorem flattenInterList_wf : ∀ (l : List RE), WFList l → WFList (flattenInterList l)
  | [], _ => by rw [flattenInterList]; trivial
  | x :: xs, h => by
      rw [WFList] at h
      rw [flattenInterList]
      exact (WFList_append _ _).2 ⟨flattenInter_wf x h.1, flattenInterList_wf xs h.2⟩
end

/-! ### 7. tree-level complement discipline (C07) -/

mutual
/-- no `compl x` node with `x` one of `∅`, `ε`, `Σ*`, `Σ⁺` or itself a complement: the shape of
    every term a manager can hold (`Complement` nodes are created only as the odd partner of a
    fresh even node, and the four built-ins are paired with each other) -/
def ComplCanon : RE → Prop
  | .empty => True
  | .epsilon => True
  | .range _ => True
  | .concat a b => ComplCanon a ∧ ComplCanon b
  | .loop e _ => ComplCanon e
  | .compl x => ComplCanon x ∧ x ≠ .empty ∧ x ≠ .epsilon ∧ x ≠ sigmaStar ∧ x ≠ sigmaPlus ∧
      ∀ y, x ≠ .compl y
  | .union l => ComplCanonList l
  | .inter l => ComplCanonList l
def ComplCanonList : List RE → Prop
  | [] => True
  | x :: xs => ComplCanon x ∧ ComplCanonList xs
end

theorem ComplCanonList_iff (l : List RE) : ComplCanonList l ↔ ∀ e ∈ l, ComplCanon e := by
  induction l with
  | nil => simp [ComplCanonList]
  | cons x xs ih => simp [ComplCanonList, ih]

theorem sigmaStar_canon : ComplCanon sigmaStar := by
  rw [sigmaStar, ComplCanon, sigma, ComplCanon]; trivial

theorem sigmaPlus_canon : ComplCanon sigmaPlus := by
  rw [sigmaPlus, ComplCanon, sigma, ComplCanon]; trivial

/-- `complement` on a term that is neither `∅`, `ε` nor a complement node -/
theorem complement_plain (e : RE) (h1 : e ≠ .empty) (h2 : e ≠ .epsilon) (h3 : ∀ y, e ≠ .compl y) :
    e.complement =
      if e = sigmaStar then .empty else if e = sigmaPlus then .epsilon else .compl e := by
  unfold complement
  split
  · exact absurd rfl h1
  · exact absurd rfl h2
  · exact absurd rfl (h3 _)
  · rfl

theorem complement_sigmaStar : sigmaStar.complement = .empty := by
  rw [complement_plain sigmaStar (by simp [sigmaStar]) (by simp [sigmaStar]) (by simp [sigmaStar]),
    if_pos rfl]

theorem sigmaPlus_ne_sigmaStar : sigmaPlus ≠ sigmaStar := by decide

theorem complement_sigmaPlus : sigmaPlus.complement = .epsilon := by
  rw [complement_plain sigmaPlus (by simp [sigmaPlus]) (by simp [sigmaPlus]) (by simp [sigmaPlus]),
    if_neg sigmaPlus_ne_sigmaStar, if_pos rfl]

/-- `complement` is an involution on canonical terms -/
theorem complement_involutive (e : RE) (h : ComplCanon e) : e.complement.complement = e := by
  by_cases h1 : e = .empty
  · subst h1; exact complement_sigmaStar
  by_cases h2 : e = .epsilon
  · subst h2; exact complement_sigmaPlus
  by_cases h3 : ∃ y, e = .compl y
  · obtain ⟨x, rfl⟩ := h3
    rw [ComplCanon] at h
    obtain ⟨_, k1, k2, k3, k4, k5⟩ := h
    show x.complement = .compl x
    rw [complement_plain x k1 k2 k5, if_neg k3, if_neg k4]
  · have h3' : ∀ y, e ≠ .compl y := fun y hy => h3 ⟨y, hy⟩
    rw [complement_plain e h1 h2 h3']
    split
    · rename_i heq; rw [heq]; rfl
    · split
      · rename_i heq; rw [heq]; rfl
      · rfl

/-- `complement` keeps terms canonical -/
theorem complement_canon (e : RE) (h : ComplCanon e) : ComplCanon e.complement := by
  by_cases h1 : e = .empty
  · subst h1; exact sigmaStar_canon
  by_cases h2 : e = .epsilon
  · subst h2; exact sigmaPlus_canon
  by_cases h3 : ∃ y, e = .compl y
  · obtain ⟨x, rfl⟩ := h3
    rw [ComplCanon] at h
    exact h.1
  · have h3' : ∀ y, e ≠ .compl y := fun y hy => h3 ⟨y, hy⟩
    rw [complement_plain e h1 h2 h3']
    split
    · trivial
    · split
      · trivial
      · rename_i k3 k4
        rw [ComplCanon]
        exact ⟨h, h1, h2, k3, k4, h3'⟩

theorem concatPre_canon (a b r : RE) (ha : ComplCanon a) (hb : ComplCanon b)
    (h : concatPre a b = some r) : ComplCanon r := by
  unfold concatPre at h
  split at h
  · cases h; trivial
  · cases h; trivial
  · cases h; exact hb
  · cases h; exact ha
  · split at h
    · rename_i r' heq
      cases h
      split at heq
      · split at heq
        · cases heq; rw [ComplCanon]; exact ha
        · cases heq
      · cases heq
    · split at h
      · rename_i r' heq
        cases h
        split at heq
        · split at heq
          · cases heq; rw [ComplCanon]; exact hb
          · cases heq
        · cases heq
      · split at h
        · rename_i r' heq
          cases h
          split at heq
          · split at heq
            · cases heq
              rw [ComplCanon] at ha
              rw [ComplCanon]; exact ha
            · cases heq
          · cases heq
        · split at h
          · cases h; rw [ComplCanon]; exact ha
          · cases h

theorem concatBase_canon (a b : RE) (ha : ComplCanon a) (hb : ComplCanon b) :
    ComplCanon (concatBase a b) := by
  unfold concatBase
  split
  · exact hb
  · rw [ComplCanon]; exact ⟨ha, hb⟩

/-- `concat` never creates a complement node -/
theorem mkConcat_canon (a b : RE) (ha : ComplCanon a) (hb : ComplCanon b) :
    ComplCanon (mkConcat a b) := by
  fun_induction mkConcat a b with
  | case1 x y e2 r h => exact concatPre_canon _ _ _ ha hb h
  | case2 x y e2 h ih1 ih2 =>
    have hxy := ha
    rw [ComplCanon] at hxy
    exact ih2 hxy.1 (ih1 hxy.2 hb)
  | case3 e1 e2 _ r h => exact concatPre_canon _ _ _ ha hb h
  | case4 e1 e2 _ h => exact concatBase_canon _ _ ha hb

/-- `mk_loop` never creates a complement node -/
theorem mkLoop_canon (e : RE) (r : LoopRange) (he : ComplCanon e) : ComplCanon (mkLoop e r) := by
  unfold mkLoop
  split
  · trivial
  · split
    · exact he
    · split
      · split <;> trivial
      · trivial
      · split
        · rw [ComplCanon] at he; rw [ComplCanon]; exact he
        · rw [ComplCanon]; exact he
      · rw [ComplCanon]; exact he

theorem concatList_canon (a : List RE) (h : ComplCanonList a) : ComplCanon (concatList a) := by
  have hflat : ∀ e, ComplCanon e → ComplCanonList (flattenConcat e) := by
    intro e he
    fun_induction flattenConcat e with
    | case1 => trivial
    | case2 x y ihx ihy =>
      rw [ComplCanon] at he
      rw [ComplCanonList_iff]
      intro z hz
      rcases List.mem_append.1 hz with hz | hz
      · exact (ComplCanonList_iff _).1 (ihx he.1) z hz
      · exact (ComplCanonList_iff _).1 (ihy he.2) z hz
    | case3 r _ _ => exact ⟨he, trivial⟩
  have hfold : ∀ l : List RE, (∀ e ∈ l, ComplCanon e) → ComplCanon (l.foldr mkConcat .epsilon) := by
    intro l hl
    induction l with
    | nil => trivial
    | cons x xs ih =>
      rw [List.foldr_cons]
      exact mkConcat_canon _ _ (hl x (by simp)) (ih (fun e he => hl e (by simp [he])))
  rw [concatList]
  apply hfold
  intro e he
  obtain ⟨x, hx, hex⟩ := List.mem_flatMap.1 he
  exact (ComplCanonList_iff _).1 (hflat x ((ComplCanonList_iff _).1 h x hx)) e hex

/-! ### sanity: the hypotheses are satisfiable and the rewrites fire -/

example : mkLoop (.loop sigma ⟨2, some 3⟩) ⟨2, some 4⟩ = .loop sigma ⟨4, some 12⟩ := by decide
example : mkLoop (.loop sigma ⟨3, some 3⟩) ⟨0, some 1⟩ = .loop (.loop sigma ⟨3, some 3⟩) ⟨0, some 1⟩ := by
  decide
example : mkLoop .empty LoopRange.star = .epsilon := by decide
example : mkConcat sigma sigmaStar = sigmaPlus := by decide
example : mkConcat (.concat sigma sigmaStar) sigma = .loop sigma ⟨2, none⟩ := by decide
example : (RE.loop (.loop sigma ⟨2, some 3⟩) ⟨2, some 4⟩).WF :=
  (WF_loop_iff _ _).2 ⟨(WF_loop_iff _ _).2 ⟨sigma_wf, (rangeOK_fin 2 3).2 (by decide)⟩,
    (rangeOK_fin 2 4).2 (by decide)⟩
example : ComplCanon (.compl (.concat sigma sigma)) := by
  rw [ComplCanon]
  refine ⟨by rw [ComplCanon]; exact ⟨by rw [sigma, ComplCanon]; trivial, by rw [sigma, ComplCanon]; trivial⟩,
    by decide, by decide, by decide, by decide, fun y h => by cases h⟩

end RE
end Smt
