/-
  Termination of the derivative-closure searches ON THE STATEFUL MANAGER MODEL (C19, the transfer
  from the pure model with an injective id oracle to `Smt.Mgr`, whose id assignment evolves while
  the search runs).

  `Props/C19Term.lean: closure_finite` needs a GLOBALLY injective `ord`; `Mgr.ord m` gives every
  tree absent from the table the same number, so it is injective only on the terms of the table.
  The argument here works directly on the stateful searches (`iterLoopM`, `isEmptyLoopM`,
  `pathLoopM`, `compileLoopM`, `startCharF`):

  A. (pure, any `ord`)  `Over A t`: `t` is built from members of `A` by the constructors (the shape
     invariant `Gen.Shape` without its duplicate-free / flat side conditions) is preserved by
     `computeDeriv` for EVERY id assignment (`over_deriv`), like the potential (`Gen.pot_deriv`).
  B. (table)  `FlatTbl`: every `Union` / `Inter` node stored in the table has pairwise distinct
     children none of which is a node of the same kind.  It holds for `Mgr.new` and is preserved by
     every allocating operation (`make_union` / `make_inter` only ever store a sorted, deduplicated
     vector of flattened operands).  `InvS = Mgr.Inv ∧ FlatTbl` is the strengthened invariant.
     In a flat table a tree that is `Over A` has the full shape `Gen.Shape A` (`shape_of_over`),
     because equal trees have equal ids (`tree_inj`).
  C. Hence every term the BFS of a search ever holds is a member of the finite list
     `Gen.univ A K` (`mem_univ_of_good`); the BFS list is duplicate-free, so its length is bounded by
     the length of that list and a search with more fuel cannot run out of it
     (`iterLoopM_not_oof`, `isEmptyLoopM_not_oof`, `pathLoopM_not_oof`, `compileLoopM_not_oof`,
     `startCharF_not_oof`).

  Props/C19Mgr.lean combines C with the refinement theorems of Props/C07RefineOps.lean.
-/
import SmtModel.Proofs.TerminationGen
import SmtModel.Proofs.ManagerOpsCompile

namespace Smt
namespace MgrTerm
open Smt RE Node MgrInv MgrCons MgrSet MgrDeriv MgrOps
open Smt.RE.Gen

/-! ## A. the ord-independent part of the shape invariant -/

/-- `t` is built from members of `A` by the constructors (no side condition on n-ary nodes) -/
inductive Over (A : List RE) : RE → Prop
  | atom {t : RE} : t ∈ A → Over A t
  | empty : Over A .empty
  | eps : Over A .epsilon
  | concat {a b : RE} : Over A a → Over A b → Over A (.concat a b)
  | loop {x : RE} (ρ : LoopRange) : Over A x → Over A (.loop x ρ)
  | compl {x : RE} : Over A x → Over A (.compl x)
  | union {w : List RE} : (∀ x ∈ w, Over A x) → Over A (.union w)
  | inter {w : List RE} : (∀ x ∈ w, Over A x) → Over A (.inter w)

variable {A : List RE} {ord : RE → Nat}

theorem Over.inv_concat (hA : SubClosed A) {a b : RE} (h : Over A (.concat a b)) :
    Over A a ∧ Over A b := by
  cases h with
  | atom h => exact ⟨.atom (hA.concat _ _ h).1, .atom (hA.concat _ _ h).2⟩
  | concat ha hb => exact ⟨ha, hb⟩

theorem Over.inv_loop (hA : SubClosed A) {x : RE} {ρ : LoopRange} (h : Over A (.loop x ρ)) :
    Over A x := by
  cases h with
  | atom h => exact .atom (hA.loop _ _ h)
  | loop _ hx => exact hx

theorem Over.inv_compl (hA : SubClosed A) {x : RE} (h : Over A (.compl x)) : Over A x := by
  cases h with
  | atom h => exact .atom (hA.compl _ h)
  | compl hx => exact hx

theorem Over.inv_union (hA : SubClosed A) {l : List RE} (h : Over A (.union l)) :
    ∀ x ∈ l, Over A x := by
  cases h with
  | atom h => exact fun x hx => .atom (hA.union _ h x hx)
  | union hs => exact hs

theorem Over.inv_inter (hA : SubClosed A) {l : List RE} (h : Over A (.inter l)) :
    ∀ x ∈ l, Over A x := by
  cases h with
  | atom h => exact fun x hx => .atom (hA.inter _ h x hx)
  | inter hs => exact hs

theorem over_sigmaStar (hσ : sigma ∈ A) : Over A sigmaStar := .loop _ (.atom hσ)
theorem over_sigmaPlus (hσ : sigma ∈ A) : Over A sigmaPlus := .loop _ (.atom hσ)

mutual
theorem over_flattenUnion (hA : SubClosed A) :
    ∀ (t : RE), Over A t → ∀ v ∈ flattenUnion t, Over A v
  | .empty, h, v, hv => by simp only [flattenUnion, List.mem_singleton] at hv; subst hv; exact h
  | .epsilon, h, v, hv => by simp only [flattenUnion, List.mem_singleton] at hv; subst hv; exact h
  | .range _, h, v, hv => by simp only [flattenUnion, List.mem_singleton] at hv; subst hv; exact h
  | .concat _ _, h, v, hv => by
    simp only [flattenUnion, List.mem_singleton] at hv; subst hv; exact h
  | .loop _ _, h, v, hv => by simp only [flattenUnion, List.mem_singleton] at hv; subst hv; exact h
  | .compl _, h, v, hv => by simp only [flattenUnion, List.mem_singleton] at hv; subst hv; exact h
  | .inter _, h, v, hv => by simp only [flattenUnion, List.mem_singleton] at hv; subst hv; exact h
  | .union m, h, v, hv => by
    simp only [flattenUnion] at hv
    exact over_flattenUnionList hA m (h.inv_union hA) v hv
theorem over_flattenUnionList (hA : SubClosed A) :
    ∀ (m : List RE), (∀ x ∈ m, Over A x) → ∀ v ∈ flattenUnionList m, Over A v
  | [], _, v, hv => by simp [flattenUnionList] at hv
  | x :: xs, hm, v, hv => by
    simp only [flattenUnionList, List.mem_append] at hv
    rcases hv with hv | hv
    · exact over_flattenUnion hA x (hm x (List.mem_cons_self ..)) v hv
    · exact over_flattenUnionList hA xs (fun y hy => hm y (List.mem_cons_of_mem _ hy)) v hv
end

mutual
theorem over_flattenInter (hA : SubClosed A) :
    ∀ (t : RE), Over A t → ∀ v ∈ flattenInter t, Over A v
  | .empty, h, v, hv => by simp only [flattenInter, List.mem_singleton] at hv; subst hv; exact h
  | .epsilon, h, v, hv => by simp only [flattenInter, List.mem_singleton] at hv; subst hv; exact h
  | .range _, h, v, hv => by simp only [flattenInter, List.mem_singleton] at hv; subst hv; exact h
  | .concat _ _, h, v, hv => by
    simp only [flattenInter, List.mem_singleton] at hv; subst hv; exact h
  | .loop _ _, h, v, hv => by simp only [flattenInter, List.mem_singleton] at hv; subst hv; exact h
  | .compl _, h, v, hv => by simp only [flattenInter, List.mem_singleton] at hv; subst hv; exact h
  | .union _, h, v, hv => by simp only [flattenInter, List.mem_singleton] at hv; subst hv; exact h
  | .inter m, h, v, hv => by
    simp only [flattenInter] at hv
    exact over_flattenInterList hA m (h.inv_inter hA) v hv
theorem over_flattenInterList (hA : SubClosed A) :
    ∀ (m : List RE), (∀ x ∈ m, Over A x) → ∀ v ∈ flattenInterList m, Over A v
  | [], _, v, hv => by simp [flattenInterList] at hv
  | x :: xs, hm, v, hv => by
    simp only [flattenInterList, List.mem_append] at hv
    rcases hv with hv | hv
    · exact over_flattenInter hA x (hm x (List.mem_cons_self ..)) v hv
    · exact over_flattenInterList hA xs (fun y hy => hm y (List.mem_cons_of_mem _ hy)) v hv
end

/-! the constructors and the derivative preserve `Over`, for ANY id assignment -/

theorem over_pre (hA : SubClosed A) {e1 e2 r : RE} (hpre : concatPre e1 e2 = some r)
    (h1 : Over A e1) (h2 : Over A e2) : Over A r := by
  rcases concatPre_some hpre with rfl | ⟨rfl, rfl⟩ | ⟨rfl, rfl⟩ | ⟨σ, rfl, rfl⟩ | ⟨ρ, rfl, rfl⟩ |
    ⟨x, ρ, σ, rfl, rfl, rfl⟩ | ⟨rfl, rfl⟩
  · exact .empty
  · exact h2
  · exact h1
  · exact .loop _ h1
  · exact .loop _ h2
  · exact .loop _ (h1.inv_loop hA)
  · exact .loop _ h1

theorem over_mkConcat (hA : SubClosed A) (a b : RE) :
    Over A a → Over A b → Over A (mkConcat a b) := by
  fun_induction mkConcat a b with
  | case1 x y e2 r hpre => exact fun h1 h2 => over_pre hA hpre h1 h2
  | case2 x y e2 hpre ih2 ih1 =>
    intro h1 h2
    obtain ⟨hx, hy⟩ := h1.inv_concat hA
    exact ih1 hx (ih2 hy h2)
  | case3 e1 e2 hn r hpre => exact fun h1 h2 => over_pre hA hpre h1 h2
  | case4 e1 e2 hn hpre =>
    intro h1 h2
    unfold concatBase
    split
    · exact h2
    · exact .concat h1 h2

theorem over_mkLoop (hA : SubClosed A) {x : RE} (hx : Over A x) (ρ : LoopRange) :
    Over A (mkLoop x ρ) := by
  unfold mkLoop
  split
  · exact .eps
  · split
    · exact hx
    · split
      · split
        · exact .eps
        · exact .empty
      · exact .eps
      · split
        · exact .loop _ (hx.inv_loop hA)
        · exact .loop _ hx
      · exact .loop _ hx

theorem over_complement (hA : SubClosed A) (hσ : sigma ∈ A) {x : RE} (hx : Over A x) :
    Over A x.complement := by
  unfold complement
  split
  · exact over_sigmaStar hσ
  · exact over_sigmaPlus hσ
  · exact hx.inv_compl hA
  · split
    · exact .empty
    · split
      · exact .eps
      · exact .compl hx

theorem over_makeUnion (hσ : sigma ∈ A) {v : List RE} (hv : ∀ x ∈ v, Over A x) :
    Over A (makeUnion ord v) := by
  rcases makeUnion_mem_cases (ord := ord) v with h | h | h | ⟨w, hsub, h⟩
  · rw [h]; exact .empty
  · rw [h]; exact over_sigmaStar hσ
  · exact hv _ h
  · rw [h]; exact .union (fun x hx => hv x (hsub x hx))

theorem over_makeInter (hσ : sigma ∈ A) {v : List RE} (hv : ∀ x ∈ v, Over A x) :
    Over A (makeInter ord v) := by
  rcases makeInter_mem_cases (ord := ord) v with h | h | h | h | ⟨w, hsub, h⟩
  · rw [h]; exact .empty
  · rw [h]; exact .eps
  · rw [h]; exact over_sigmaStar hσ
  · exact hv _ h
  · rw [h]; exact .inter (fun x hx => hv x (hsub x hx))

theorem over_mkUnion (hA : SubClosed A) (hσ : sigma ∈ A) {a b : RE} (ha : Over A a)
    (hb : Over A b) : Over A (mkUnion ord a b) := by
  unfold mkUnion
  apply over_makeUnion hσ
  intro x hx
  rcases List.mem_append.1 hx with h | h
  · exact over_flattenUnion hA a ha x h
  · exact over_flattenUnion hA b hb x h

mutual
/-- **the derivative preserves `Over`, for EVERY id assignment** -/
theorem over_deriv (ord : RE → Nat) (hA : SubClosed A) (hσ : sigma ∈ A) :
    ∀ (t : RE) (c : Nat), Over A t → Over A (computeDeriv ord t c)
  | .empty, c, _ => by rw [cd_empty]; exact .empty
  | .epsilon, c, _ => by rw [cd_eps]; exact .empty
  | .range r, c, _ => by
    rw [cd_range]
    split
    · exact .eps
    · exact .empty
  | .concat a b, c, h => by
    obtain ⟨ha, hb⟩ := h.inv_concat hA
    have h1 := over_mkConcat hA _ b (over_deriv ord hA hσ a (classRep a.derivClass c) ha) hb
    rw [cd_concat]
    split
    · exact over_mkUnion hA hσ h1 (over_deriv ord hA hσ b (classRep b.derivClass c) hb)
    · exact h1
  | .loop x ρ, c, h => by
    have hx := h.inv_loop hA
    rw [cd_loop]
    exact over_mkConcat hA _ _ (over_deriv ord hA hσ x (classRep x.derivClass c) hx)
      (over_mkLoop hA hx _)
  | .compl x, c, h => by
    rw [cd_compl]
    exact over_complement hA hσ (over_deriv ord hA hσ x (classRep x.derivClass c) (h.inv_compl hA))
  | .union l, c, h => by
    have hl := over_derivList ord hA hσ l c (h.inv_union hA)
    rw [cd_union, mkUnionList]
    apply over_makeUnion hσ
    intro x hx
    rw [List.mem_flatMap] at hx
    obtain ⟨d, hd, hxd⟩ := hx
    exact over_flattenUnion hA d (hl d hd) x hxd
  | .inter l, c, h => by
    have hl := over_derivList ord hA hσ l c (h.inv_inter hA)
    rw [cd_inter, mkInterList]
    apply over_makeInter hσ
    intro x hx
    rw [List.mem_flatMap] at hx
    obtain ⟨d, hd, hxd⟩ := hx
    exact over_flattenInter hA d (hl d hd) x hxd
theorem over_derivList (ord : RE → Nat) (hA : SubClosed A) (hσ : sigma ∈ A) :
    ∀ (l : List RE) (c : Nat), (∀ x ∈ l, Over A x) → ∀ d ∈ derivList ord l c, Over A d
  | [], c, _, d, hd => by simp [derivList] at hd
  | x :: xs, c, hl, d, hd => by
    simp only [derivList, List.mem_cons] at hd
    rcases hd with rfl | hd
    · exact over_deriv ord hA hσ x _ (hl x (List.mem_cons_self ..))
    · exact over_derivList ord hA hσ xs c (fun y hy => hl y (List.mem_cons_of_mem _ hy)) d hd
end

/-- the two ord-independent invariants of the iterated derivatives of a term of the universe
    `(A, K)`: built over `A`, potential at most `K` -/
def GoodT (A : List RE) (K : Nat) (t : RE) : Prop := Over A t ∧ pot t ≤ K

theorem goodT_deriv (ord : RE → Nat) (hA : SubClosed A) (hσ : sigma ∈ A) {K : Nat} {t : RE}
    (h : GoodT A K t) (c : Nat) : GoodT A K (computeDeriv ord t c) :=
  ⟨over_deriv ord hA hσ t c h.1, Nat.le_trans (pot_deriv ord t c) h.2⟩

theorem goodT_self (e : RE) : GoodT (atoms e) (pot e) e :=
  ⟨.atom (self_mem_atoms e), Nat.le_refl _⟩

/-! ## B. flat tables -/

/-- a key that `make_union` / `make_inter` may store in the table `t`: pairwise distinct operands,
    all of them existing terms, none a node of the same kind; no condition on other keys -/
def NodeOK (t : List Node) : Node → Prop
  | .union l => l.Nodup ∧ ∀ x ∈ l, x < t.length ∧ ∀ l', t[x]? ≠ some (Node.union l')
  | .inter l => l.Nodup ∧ ∀ x ∈ l, x < t.length ∧ ∀ l', t[x]? ≠ some (Node.inter l')
  | _ => True

/-- **flat table**: every `Union` / `Inter` node of the table has pairwise distinct children
    (smaller ids), none of which is a node of the same kind -/
def FlatTbl (t : List Node) : Prop :=
  ∀ (i : Nat) (l : List Nat),
    (t[i]? = some (Node.union l) →
      l.Nodup ∧ ∀ x ∈ l, x < i ∧ ∀ l', t[x]? ≠ some (Node.union l')) ∧
    (t[i]? = some (Node.inter l) →
      l.Nodup ∧ ∀ x ∈ l, x < i ∧ ∀ l', t[x]? ≠ some (Node.inter l'))

theorem flatTbl_new : FlatTbl Mgr.new.tbl := by
  intro i l
  have h6 : Mgr.new.tbl = initNodes := by
    show ReStore.new.table = _
    exact new_table
  rw [h6]
  constructor <;> intro h <;>
  · have hlt : i < 6 := by
      have := (List.getElem?_eq_some_iff.mp h).1; simpa [initNodes] using this
    have hi' : i = 0 ∨ i = 1 ∨ i = 2 ∨ i = 3 ∨ i = 4 ∨ i = 5 := by omega
    rcases hi' with rfl | rfl | rfl | rfl | rfl | rfl <;> simp [initNodes] at h

theorem getElem?_append_lt {t : List Node} {a : List Node} {i : Nat} (hi : i < t.length) :
    (t ++ a)[i]? = t[i]? := List.getElem?_append_left hi

theorem flat_extend {t : List Node} (hf : FlatTbl t) {n : Node} (hn : NodeOK t n) :
    FlatTbl (t ++ [n, .compl t.length]) := by
  intro i l
  by_cases hi : i < t.length
  · rw [getElem?_append_lt hi]
    constructor
    · intro h
      obtain ⟨h1, h2⟩ := (hf i l).1 h
      refine ⟨h1, fun x hx => ?_⟩
      obtain ⟨hxi, hxn⟩ := h2 x hx
      refine ⟨hxi, ?_⟩
      rw [getElem?_append_lt (by omega)]
      exact hxn
    · intro h
      obtain ⟨h1, h2⟩ := (hf i l).2 h
      refine ⟨h1, fun x hx => ?_⟩
      obtain ⟨hxi, hxn⟩ := h2 x hx
      refine ⟨hxi, ?_⟩
      rw [getElem?_append_lt (by omega)]
      exact hxn
  · have hge : t.length ≤ i := by omega
    rw [List.getElem?_append_right hge]
    by_cases h0 : i - t.length = 0
    · have hil : i = t.length := by omega
      rw [h0]
      simp only [List.getElem?_cons_zero, Option.some.injEq]
      constructor
      · intro h
        subst h
        obtain ⟨h1, h2⟩ := hn
        refine ⟨h1, fun x hx => ?_⟩
        obtain ⟨hxl, hxn⟩ := h2 x hx
        refine ⟨by omega, ?_⟩
        rw [getElem?_append_lt hxl]
        exact hxn
      · intro h
        subst h
        obtain ⟨h1, h2⟩ := hn
        refine ⟨h1, fun x hx => ?_⟩
        obtain ⟨hxl, hxn⟩ := h2 x hx
        refine ⟨by omega, ?_⟩
        rw [getElem?_append_lt hxl]
        exact hxn
    · obtain ⟨k, hk⟩ : ∃ k, i - t.length = k + 1 := ⟨i - t.length - 1, by omega⟩
      rw [hk]
      cases k with
      | zero => constructor <;> intro h <;> simp at h
      | succ k => constructor <;> intro h <;> simp at h

theorem flat_alloc {m : Mgr} (hf : FlatTbl m.tbl) {n : Node} (hn : NodeOK m.tbl n) :
    FlatTbl (m.alloc n).1.tbl := by
  rcases alloc_cases m n with ⟨i, _, hmk⟩ | ⟨_, hmk⟩
  · rw [hmk]; exact hf
  · rw [hmk]; exact flat_extend hf hn

theorem flat_make {m : Mgr} (hf : FlatTbl m.tbl) {n : Node} (hn : NodeOK m.tbl n) :
    FlatTbl (m.make n).1.tbl := by
  cases n with
  | compl x => exact hf
  | empty => exact flat_alloc hf hn
  | epsilon => exact flat_alloc hf hn
  | range a b => exact flat_alloc hf hn
  | concat a b => exact flat_alloc hf hn
  | loop a b c => exact flat_alloc hf hn
  | union l => exact flat_alloc hf hn
  | inter l => exact flat_alloc hf hn

/-! ### operations that never store a `Union` / `Inter` node keep the table flat, whatever their
    arguments -/

theorem flat_charSetM {m : Mgr} (hf : FlatTbl m.tbl) (s : CharSet) : FlatTbl (m.charSetM s).1.tbl :=
  flat_make hf trivial

theorem flat_charM {m : Mgr} (hf : FlatTbl m.tbl) {x : Nat} {r : Mgr × Nat}
    (h : m.charM x = some r) : FlatTbl r.1.tbl := by
  unfold Mgr.charM at h
  split at h
  · cases h; exact flat_charSetM hf _
  · cases h

theorem flat_rangeM {m : Mgr} (hf : FlatTbl m.tbl) {a b : Nat} {r : Mgr × Nat}
    (h : m.rangeM a b = some r) : FlatTbl r.1.tbl := by
  unfold Mgr.rangeM at h
  split at h
  · cases h; exact flat_charSetM hf _
  · cases h

theorem flat_smtRangeM {m : Mgr} (hf : FlatTbl m.tbl) (s1 s2 : List Nat) :
    FlatTbl (m.smtRangeM s1 s2).1.tbl := by
  unfold Mgr.smtRangeM
  split
  · split
    · exact flat_charSetM hf _
    · exact hf
  · exact hf

theorem flat_ofLoop {m : Mgr} (hf : FlatTbl m.tbl) (e : Nat) (r : LoopRange) :
    FlatTbl (m.make (Node.ofLoop e r)).1.tbl := flat_make hf trivial

theorem flat_concatArmR {m : Mgr} (hf : FlatTbl m.tbl) {e1 e2 : Nat} {r : Mgr × Nat}
    (h : m.concatArmR e1 e2 = some r) : FlatTbl r.1.tbl := by
  unfold Mgr.concatArmR at h
  split at h
  · split at h
    · cases h; exact flat_ofLoop hf _ _
    · cases h
  · cases h

theorem flat_concatArmL {m : Mgr} (hf : FlatTbl m.tbl) {e1 e2 : Nat} {r : Mgr × Nat}
    (h : m.concatArmL e1 e2 = some r) : FlatTbl r.1.tbl := by
  unfold Mgr.concatArmL at h
  split at h
  · split at h
    · cases h; exact flat_ofLoop hf _ _
    · cases h
  · cases h

theorem flat_concatArmB {m : Mgr} (hf : FlatTbl m.tbl) {e1 e2 : Nat} {r : Mgr × Nat}
    (h : m.concatArmB e1 e2 = some r) : FlatTbl r.1.tbl := by
  unfold Mgr.concatArmB at h
  split at h
  · split at h
    · cases h; exact flat_ofLoop hf _ _
    · cases h
  · cases h

theorem flat_concatArmS {m : Mgr} (hf : FlatTbl m.tbl) {e1 e2 : Nat} {r : Mgr × Nat}
    (h : m.concatArmS e1 e2 = some r) : FlatTbl r.1.tbl := by
  unfold Mgr.concatArmS at h
  split at h
  · cases h; exact flat_ofLoop hf _ _
  · cases h

theorem flat_concatChainM {m : Mgr} (hf : FlatTbl m.tbl) {e1 e2 : Nat} {r : Mgr × Nat}
    (h : m.concatChainM e1 e2 = some r) : FlatTbl r.1.tbl := by
  unfold Mgr.concatChainM at h
  split at h
  · rename_i r' hr; cases h; exact flat_concatArmR hf hr
  · split at h
    · rename_i r' hr; cases h; exact flat_concatArmL hf hr
    · split at h
      · rename_i r' hr; cases h; exact flat_concatArmB hf hr
      · exact flat_concatArmS hf h

theorem flat_concatPreM {m : Mgr} (hf : FlatTbl m.tbl) {e1 e2 : Nat} {r : Mgr × Nat}
    (h : m.concatPreM e1 e2 = some r) : FlatTbl r.1.tbl := by
  unfold Mgr.concatPreM at h
  split at h
  · cases h; exact hf
  · cases h; exact hf
  · cases h; exact hf
  · cases h; exact hf
  · exact flat_concatChainM hf h

theorem flat_concatBaseM {m : Mgr} (hf : FlatTbl m.tbl) (e1 e2 : Nat) :
    FlatTbl (m.concatBaseM e1 e2).1.tbl := by
  unfold Mgr.concatBaseM
  split
  · exact hf
  · exact flat_make hf trivial

theorem flat_concatF : ∀ (fuel : Nat) {m : Mgr}, FlatTbl m.tbl → ∀ (e1 e2 : Nat),
    FlatTbl (Mgr.concatF fuel m e1 e2).1.tbl := by
  intro fuel
  induction fuel with
  | zero => intro m hf e1 e2; exact flat_concatBaseM hf e1 e2
  | succ fuel ih =>
    intro m hf e1 e2
    simp only [Mgr.concatF]
    split
    · rename_i r hr; exact flat_concatPreM hf hr
    · split
      · exact ih (ih hf _ _) _ _
      · exact flat_concatBaseM hf e1 e2

theorem flat_concatM {m : Mgr} (hf : FlatTbl m.tbl) (e1 e2 : Nat) :
    FlatTbl (m.concatM e1 e2).1.tbl := flat_concatF _ hf e1 e2

theorem flat_foldr_concat : ∀ (l : List Nat) {m : Mgr}, FlatTbl m.tbl →
    FlatTbl (l.foldr (fun x acc => acc.1.concatM x acc.2) (m, Mgr.epsilonId)).1.tbl := by
  intro l
  induction l with
  | nil => intro m hf; exact hf
  | cons x xs ih => intro m hf; exact flat_concatM (ih hf) _ _

theorem flat_concatListM {m : Mgr} (hf : FlatTbl m.tbl) (a : List Nat) :
    FlatTbl (m.concatListM a).1.tbl := flat_foldr_concat _ hf

theorem flat_strM : ∀ (s : List Nat) {m : Mgr}, FlatTbl m.tbl → ∀ {r : Mgr × Nat},
    m.strM s = some r → FlatTbl r.1.tbl := by
  intro s
  induction s with
  | nil => intro m hf r h; cases h; exact hf
  | cons c rest ih =>
    intro m hf r h
    simp only [Mgr.strM] at h
    split at h
    · cases h
    · rename_i r1 hr1
      split at h
      · cases h
      · rename_i r2 hr2
        cases h
        exact flat_concatM (flat_charM (ih hf hr1) hr2) _ _

theorem flat_mkLoopM {m : Mgr} (hf : FlatTbl m.tbl) (e : Nat) (rg : LoopRange) :
    FlatTbl (m.mkLoopM e rg).1.tbl := by
  unfold Mgr.mkLoopM
  split
  · exact hf
  · split
    · exact hf
    · split
      · split <;> exact hf
      · exact hf
      · split <;> exact flat_ofLoop hf _ _
      · exact flat_ofLoop hf _ _

theorem flat_smtLoopM {m : Mgr} (hf : FlatTbl m.tbl) (e i j : Nat) :
    FlatTbl (m.smtLoopM e i j).1.tbl := by
  unfold Mgr.smtLoopM
  split
  · exact flat_mkLoopM hf _ _
  · exact hf

/-! ### `simplify_set_operation` returns a duplicate-free vector -/

theorem pairwise_insert {x : Nat} : ∀ {l : List Nat}, l.Pairwise (· ≤ ·) →
    (Ids.insert x l).Pairwise (· ≤ ·) := by
  intro l
  induction l with
  | nil => intro _; simp [Ids.insert]
  | cons y ys ih =>
    intro h
    rw [List.pairwise_cons] at h
    simp only [Ids.insert]
    split
    · rename_i hxy
      rw [List.pairwise_cons]
      refine ⟨?_, List.pairwise_cons.2 h⟩
      intro z hz
      rcases List.mem_cons.1 hz with rfl | hz
      · exact hxy
      · exact Nat.le_trans hxy (h.1 z hz)
    · rename_i hxy
      rw [List.pairwise_cons]
      refine ⟨?_, ih h.2⟩
      intro z hz
      rcases IdsL.mem_insert.1 hz with rfl | hz
      · omega
      · exact h.1 z hz

theorem pairwise_sort : ∀ (l : List Nat), (Ids.sort l).Pairwise (· ≤ ·)
  | [] => by simp [Ids.sort]
  | x :: xs => by simp only [Ids.sort]; exact pairwise_insert (pairwise_sort xs)

theorem pairwise_dedup : ∀ (l : List Nat), l.Pairwise (· ≤ ·) → (Ids.dedup l).Pairwise (· < ·)
  | [], _ => by simp [Ids.dedup]
  | [_], _ => by simp [Ids.dedup]
  | x :: y :: rest, h => by
    rw [List.pairwise_cons] at h
    have ih := pairwise_dedup (y :: rest) h.2
    rw [Ids.dedup]
    split
    · exact ih
    · rename_i hne
      rw [List.pairwise_cons]
      refine ⟨?_, ih⟩
      intro z hz
      have hz' := IdsL.mem_dedup _ hz
      have hxy : x ≤ y := h.1 y (List.mem_cons_self ..)
      have hyz : y ≤ z := by
        rcases List.mem_cons.1 hz' with rfl | hz'
        · exact Nat.le_refl _
        · exact (List.pairwise_cons.1 h.2).1 z hz'
      omega

theorem simplifyLoop_sublist {b : Nat} : ∀ {l : List Nat} {p : Nat} {r : List Nat},
    Ids.simplifyLoop b p l = some r → r.Sublist l := by
  intro l
  induction l with
  | nil => intro p r h; simp [Ids.simplifyLoop] at h; subst h; exact .slnil
  | cons c rest ih =>
    intro p r h
    simp only [Ids.simplifyLoop] at h
    split at h
    · cases h
    · split at h
      · simp only [Option.map_eq_some_iff] at h
        obtain ⟨r', hr', rfl⟩ := h
        exact (ih hr').cons_cons c
      · exact (ih h).cons c

theorem nodup_sso (v : List Nat) (b top : Nat) : (Ids.simplifySetOperation v b top).Nodup := by
  unfold Ids.simplifySetOperation
  have hp : (Ids.dedup (Ids.sort v)).Pairwise (· < ·) := pairwise_dedup _ (pairwise_sort v)
  have hnd : (Ids.dedup (Ids.sort v)).Nodup := hp.imp (fun h => Nat.ne_of_lt h)
  generalize Ids.dedup (Ids.sort v) = s at hnd
  cases s with
  | nil => exact List.nodup_nil
  | cons v0 rest =>
    simp only
    split
    · exact List.nodup_singleton _
    · split
      · exact List.nodup_singleton _
      · rename_i r hr
        have hsub := simplifyLoop_sublist hr
        split
        · exact (hsub.cons_cons v0).nodup hnd
        · exact (hsub.cons v0).nodup hnd

theorem removeSubsumedAuxM_sublist (m : Mgr) : ∀ (rest done : List Nat),
    (m.removeSubsumedAuxM done rest).Sublist (done ++ rest) := by
  intro rest
  induction rest with
  | nil => intro done; simp [Mgr.removeSubsumedAuxM]
  | cons x rest ih =>
    intro done
    simp only [Mgr.removeSubsumedAuxM]
    split
    · exact (ih done).trans ((List.Sublist.refl done).append (List.sublist_cons_self x rest))
    · have := ih (done ++ [x])
      simpa using this

theorem removeSubsumedM_sublist (m : Mgr) (a : List Nat) : (m.removeSubsumedM a).Sublist a := by
  have := removeSubsumedAuxM_sublist m a []
  simpa [Mgr.removeSubsumedM] using this

/-! ### `make_union`, `make_inter`, flattening -/

/-- `x` is a term of the table that is not a `Union` node -/
def NonUnion (t : List Node) (x : Nat) : Prop := x < t.length ∧ ∀ l', t[x]? ≠ some (Node.union l')
/-- `x` is a term of the table that is not an `Inter` node -/
def NonInter (t : List Node) (x : Nat) : Prop := x < t.length ∧ ∀ l', t[x]? ≠ some (Node.inter l')

theorem nonUnion_sigmaStar {t : List Node} (h : TableOK t) : NonUnion t Mgr.sigmaStarId := by
  refine ⟨by have := h.six_le; simp only [Mgr.sigmaStarId]; omega, fun l' hl => ?_⟩
  rw [Mgr.sigmaStarId, h.get_init (by omega)] at hl
  simp [initNodes] at hl

theorem nonInter_emptyId {t : List Node} (h : TableOK t) : NonInter t Mgr.emptyId := by
  refine ⟨by have := h.six_le; simp only [Mgr.emptyId]; omega, fun l' hl => ?_⟩
  rw [Mgr.emptyId, h.get_init (by omega)] at hl
  simp [initNodes] at hl

theorem flat_makeUnionM {m : Mgr} (hok : TableOK m.tbl) (hf : FlatTbl m.tbl) {v : List Nat}
    (hv : ∀ x ∈ v, NonUnion m.tbl x) : FlatTbl (m.makeUnionM v).1.tbl := by
  unfold Mgr.makeUnionM
  have h1 : ∀ x ∈ Ids.simplifySetOperation v Mgr.emptyId Mgr.sigmaStarId, NonUnion m.tbl x := by
    intro x hx
    rcases IdsL.mem_sso hx with hx | rfl
    · exact hv x hx
    · exact nonUnion_sigmaStar hok
  have h2 := nodup_sso v Mgr.emptyId Mgr.sigmaStarId
  generalize Ids.simplifySetOperation v Mgr.emptyId Mgr.sigmaStarId = s at h1 h2
  simp only
  have h3 : (if s.length ≥ 2 then m.removeSubsumedM s else s).Nodup ∧
      ∀ x ∈ (if s.length ≥ 2 then m.removeSubsumedM s else s), NonUnion m.tbl x := by
    split
    · exact ⟨(removeSubsumedM_sublist m s).nodup h2,
        fun x hx => h1 x ((removeSubsumedM_sublist m s).subset hx)⟩
    · exact ⟨h2, h1⟩
  generalize (if s.length ≥ 2 then m.removeSubsumedM s else s) = w at h3
  split
  · exact hf
  · exact hf
  · exact flat_make hf ⟨h3.1, h3.2⟩

theorem flat_makeInterM {m : Mgr} (hok : TableOK m.tbl) (hf : FlatTbl m.tbl) {v : List Nat}
    (hv : ∀ x ∈ v, NonInter m.tbl x) : FlatTbl (m.makeInterM v).1.tbl := by
  unfold Mgr.makeInterM
  have h1 : ∀ x ∈ Ids.simplifySetOperation v Mgr.sigmaStarId Mgr.emptyId, NonInter m.tbl x := by
    intro x hx
    rcases IdsL.mem_sso hx with hx | rfl
    · exact hv x hx
    · exact nonInter_emptyId hok
  have h2 := nodup_sso v Mgr.sigmaStarId Mgr.emptyId
  generalize Ids.simplifySetOperation v Mgr.sigmaStarId Mgr.emptyId = s at h1 h2
  simp only
  split
  · split <;> exact hf
  · split
    · exact hf
    · exact hf
    · exact flat_make hf ⟨h2, h1⟩

theorem flattenUnionF_nonUnion {t : List Node} (hc : ChildrenSmaller t) : ∀ (fuel e : Nat),
    e < fuel → e < t.length → ∀ x ∈ Mgr.flattenUnionF t fuel e, NonUnion t x := by
  intro fuel
  induction fuel with
  | zero => intro e h; omega
  | succ fuel ih =>
    intro e hlt hev x hx
    simp only [Mgr.flattenUnionF] at hx
    split at hx
    · rename_i l hl
      rw [List.mem_flatMap] at hx
      obtain ⟨c, hcl, hxc⟩ := hx
      have hce : c < e := hc e _ hl c (by simpa [children] using hcl)
      exact ih c (by omega) (by omega) x hxc
    · rename_i hnu
      rw [List.mem_singleton] at hx
      subst hx
      exact ⟨hev, fun l' hl' => hnu l' hl'⟩

theorem flattenInterF_nonInter {t : List Node} (hc : ChildrenSmaller t) : ∀ (fuel e : Nat),
    e < fuel → e < t.length → ∀ x ∈ Mgr.flattenInterF t fuel e, NonInter t x := by
  intro fuel
  induction fuel with
  | zero => intro e h; omega
  | succ fuel ih =>
    intro e hlt hev x hx
    simp only [Mgr.flattenInterF] at hx
    split at hx
    · rename_i l hl
      rw [List.mem_flatMap] at hx
      obtain ⟨c, hcl, hxc⟩ := hx
      have hce : c < e := hc e _ hl c (by simpa [children] using hcl)
      exact ih c (by omega) (by omega) x hxc
    · rename_i hnu
      rw [List.mem_singleton] at hx
      subst hx
      exact ⟨hev, fun l' hl' => hnu l' hl'⟩

theorem flattenUnionM_nonUnion {m : Mgr} (hok : TableOK m.tbl) {e : Nat} (he : e < m.tbl.length) :
    ∀ x ∈ m.flattenUnionM e, NonUnion m.tbl x :=
  flattenUnionF_nonUnion hok.children _ e (by omega) he

theorem flattenInterM_nonInter {m : Mgr} (hok : TableOK m.tbl) {e : Nat} (he : e < m.tbl.length) :
    ∀ x ∈ m.flattenInterM e, NonInter m.tbl x :=
  flattenInterF_nonInter hok.children _ e (by omega) he

theorem flat_unionM {m : Mgr} (hok : TableOK m.tbl) (hf : FlatTbl m.tbl) {e1 e2 : Nat}
    (h1 : e1 < m.tbl.length) (h2 : e2 < m.tbl.length) : FlatTbl (m.unionM e1 e2).1.tbl := by
  apply flat_makeUnionM hok hf
  intro x hx
  rcases List.mem_append.1 hx with hx | hx
  · exact flattenUnionM_nonUnion hok h1 x hx
  · exact flattenUnionM_nonUnion hok h2 x hx

theorem flat_interM {m : Mgr} (hok : TableOK m.tbl) (hf : FlatTbl m.tbl) {e1 e2 : Nat}
    (h1 : e1 < m.tbl.length) (h2 : e2 < m.tbl.length) : FlatTbl (m.interM e1 e2).1.tbl := by
  apply flat_makeInterM hok hf
  intro x hx
  rcases List.mem_append.1 hx with hx | hx
  · exact flattenInterM_nonInter hok h1 x hx
  · exact flattenInterM_nonInter hok h2 x hx

theorem flat_unionListM {m : Mgr} (hok : TableOK m.tbl) (hf : FlatTbl m.tbl) {a : List Nat}
    (ha : ∀ i ∈ a, i < m.tbl.length) : FlatTbl (m.unionListM a).1.tbl := by
  apply flat_makeUnionM hok hf
  intro x hx
  rw [List.mem_flatMap] at hx
  obtain ⟨e, he, hxe⟩ := hx
  exact flattenUnionM_nonUnion hok (ha e he) x hxe

theorem flat_interListM {m : Mgr} (hok : TableOK m.tbl) (hf : FlatTbl m.tbl) {a : List Nat}
    (ha : ∀ i ∈ a, i < m.tbl.length) : FlatTbl (m.interListM a).1.tbl := by
  apply flat_makeInterM hok hf
  intro x hx
  rw [List.mem_flatMap] at hx
  obtain ⟨e, he, hxe⟩ := hx
  exact flattenInterM_nonInter hok (ha e he) x hxe

theorem flat_diffM {m : Mgr} (hok : TableOK m.tbl) (hf : FlatTbl m.tbl) {e1 e2 : Nat}
    (h1 : e1 < m.tbl.length) (h2 : e2 < m.tbl.length) : FlatTbl (m.diffM e1 e2).1.tbl :=
  flat_interM hok hf h1 (xor_lt hok h2)

theorem flat_diffListM {m : Mgr} (hok : TableOK m.tbl) (hf : FlatTbl m.tbl) {e1 : Nat}
    {a : List Nat} (h1 : e1 < m.tbl.length) (ha : ∀ i ∈ a, i < m.tbl.length) :
    FlatTbl (m.diffListM e1 a).1.tbl := by
  apply flat_makeInterM hok hf
  intro x hx
  rcases List.mem_append.1 hx with hx | hx
  · exact flattenInterM_nonInter hok h1 x hx
  · rw [List.mem_flatMap] at hx
    obtain ⟨e, he, hxe⟩ := hx
    exact flattenInterM_nonInter hok (xor_lt hok (ha e he)) x hxe

/-! ### derivatives -/

theorem flat_derivWith {compute : Mgr → Nat → Nat → Mgr × Nat} {e : Nat}
    (Hf : ∀ m c, FlatTbl m.tbl → FlatTbl (compute m e c).1.tbl)
    {m : Mgr} (hf : FlatTbl m.tbl) (c : Nat) :
    FlatTbl (Mgr.derivWith compute m e c).1.tbl := by
  unfold Mgr.derivWith
  simp only
  split
  · exact hf
  · exact Hf m _ hf

theorem flat_derivListWith {d : Mgr → Nat → Mgr × Nat} {c : Nat} :
    ∀ {l : List Nat} {ts : List RE} {m : Mgr},
    (∀ x ∈ l, ∀ tx m, MgrDeriv.Inv m → treeOf m.tbl x = some tx →
      DPost m (d m x).1 (d m x).2 (fun ord => RE.deriv ord tx c)) →
    (∀ x ∈ l, ∀ tx m, MgrDeriv.Inv m → FlatTbl m.tbl → treeOf m.tbl x = some tx →
      FlatTbl (d m x).1.tbl) →
    MgrDeriv.Inv m → FlatTbl m.tbl → List.Forall₂ (fun i e => treeOf m.tbl i = some e) l ts →
    FlatTbl (Mgr.derivListWith d m l).1.tbl := by
  intro l
  induction l with
  | nil => intro ts m _ _ _ hf _; exact hf
  | cons x xs ih =>
    intro ts m hd hdf hI hf hfa
    cases hfa with
    | cons hx hxs =>
      rename_i tx txs
      have p1 := hd x (List.mem_cons_self ..) tx m hI hx
      have f1 := hdf x (List.mem_cons_self ..) tx m hI hf hx
      simp only [Mgr.derivListWith]
      exact ih (m := (d m x).1) (fun y hy => hd y (List.mem_cons_of_mem _ hy))
        (fun y hy => hdf y (List.mem_cons_of_mem _ hy)) p1.inv f1 (forall₂_prefix p1.ext hxs)

/-- **`compute_derivative` keeps the table flat** -/
theorem flat_computeDerivF : ∀ (fuel : Nat) {m : Mgr} {e : Nat} {te : RE} (c : Nat),
    MgrDeriv.Inv m → FlatTbl m.tbl → e < fuel → treeOf m.tbl e = some te →
    FlatTbl (Mgr.computeDerivF fuel m e c).1.tbl := by
  intro fuel
  induction fuel with
  | zero => intro m e te c _ _ hlt; omega
  | succ fuel ih =>
    intro m e te c hI hf hlt r
    have h := hI.ok
    obtain ⟨n, hn, ht⟩ := treeOf_node h.children r
    have hch := h.children e _ hn
    have hd : ∀ x, x < e → ∀ tx m', MgrDeriv.Inv m' → treeOf m'.tbl x = some tx →
        DPost m' (Mgr.derivWith (Mgr.computeDerivF fuel) m' x c).1
          (Mgr.derivWith (Mgr.computeDerivF fuel) m' x c).2 (fun ord => RE.deriv ord tx c) := by
      intro x hx tx m' hI' rx
      exact dpost_derivWith (fun m'' c'' hI'' r'' => dpost_computeDerivF fuel c'' hI'' (by omega) r'')
        hI' rx c
    have hdf : ∀ x, x < e → ∀ tx m', MgrDeriv.Inv m' → FlatTbl m'.tbl →
        treeOf m'.tbl x = some tx →
        FlatTbl (Mgr.derivWith (Mgr.computeDerivF fuel) m' x c).1.tbl := by
      intro x hx tx m' hI' hf' rx
      unfold Mgr.derivWith
      simp only
      split
      · exact hf'
      · exact ih _ hI' hf' (by omega) rx
    simp only [Mgr.computeDerivF, Mgr.expr, hn]
    cases n with
    | empty => exact hf
    | epsilon => exact hf
    | range a b => simp only; split <;> exact hf
    | concat e1 e2 =>
      simp only [Node.toRE, Option.bind_eq_some_iff, Option.map_eq_some_iff] at ht
      obtain ⟨ta, ha, tb, hb, rfl⟩ := ht
      have h1 : e1 < e := hch e1 (by simp [children])
      have h2 : e2 < e := hch e2 (by simp [children])
      simp only [rep_nullable ha]
      have p1 := hd e1 h1 ta m hI ha
      have f1 := hdf e1 h1 ta m hI hf ha
      generalize Mgr.derivWith (Mgr.computeDerivF fuel) m e1 c = r1 at p1 f1 ⊢
      have g2 := good_concat p1.inv.ok p1.here (treeOf_prefix p1.ext hb)
      have i2 : MgrDeriv.Inv (r1.1.concatM r1.2 e2).1 := inv_of_post p1.inv g2.post
      have f2 := flat_concatM f1 r1.2 e2
      have t2 := g2.post.rep
      have x2 := g2.post.ext
      by_cases hnl : ta.nullable = true
      · simp only [hnl, if_true]
        generalize r1.1.concatM r1.2 e2 = r2 at i2 f2 t2 x2 ⊢
        have rb : treeOf r2.1.tbl e2 = some tb := treeOf_prefix x2 (treeOf_prefix p1.ext hb)
        have p3 := hd e2 h2 tb r2.1 i2 rb
        have f3 := hdf e2 h2 tb r2.1 i2 f2 rb
        generalize Mgr.derivWith (Mgr.computeDerivF fuel) r2.1 e2 c = r3 at p3 f3 ⊢
        exact flat_unionM p3.inv.ok f3 (treeOf_lt (treeOf_prefix p3.ext t2)) (treeOf_lt p3.here)
      · simp only [hnl, Bool.false_eq_true, if_false]
        exact f2
    | loop e1 lo hi =>
      simp only [Node.toRE, Option.map_eq_some_iff] at ht
      obtain ⟨ta, ha, rfl⟩ := ht
      have h1 : e1 < e := hch e1 (by simp [children])
      have f1 := hdf e1 h1 ta m hI hf ha
      exact flat_concatM (flat_mkLoopM f1 _ _) _ _
    | compl e1 =>
      simp only [Node.toRE, Option.map_eq_some_iff] at ht
      obtain ⟨ta, ha, rfl⟩ := ht
      have h1 : e1 < e := hch e1 (by simp [children])
      exact hdf e1 h1 ta m hI hf ha
    | inter l =>
      simp only [Node.toRE, Option.map_eq_some_iff] at ht
      obtain ⟨ts, hts, rfl⟩ := ht
      rw [optMapM_eq_some_iff] at hts
      have pl := dpostL_derivListWith (d := fun m' e' => Mgr.derivWith (Mgr.computeDerivF fuel) m' e' c)
        (c := c) (l := l) (ts := ts) (m := m)
        (fun x hx tx m' hI' rx => hd x (hch x (by simpa [children] using hx)) tx m' hI' rx) hI hts
      have fl := flat_derivListWith (d := fun m' e' => Mgr.derivWith (Mgr.computeDerivF fuel) m' e' c)
        (c := c) (l := l) (ts := ts) (m := m)
        (fun x hx tx m' hI' rx => hd x (hch x (by simpa [children] using hx)) tx m' hI' rx)
        (fun x hx tx m' hI' hf' rx => hdf x (hch x (by simpa [children] using hx)) tx m' hI' hf' rx)
        hI hf hts
      simp only
      generalize Mgr.derivListWith
        (fun m' e' => Mgr.derivWith (Mgr.computeDerivF fuel) m' e' c) m l = r1 at pl fl ⊢
      obtain ⟨hv, _⟩ := forall₂_treeD pl.here
      exact flat_interListM pl.inv.ok fl hv
    | union l =>
      simp only [Node.toRE, Option.map_eq_some_iff] at ht
      obtain ⟨ts, hts, rfl⟩ := ht
      rw [optMapM_eq_some_iff] at hts
      have pl := dpostL_derivListWith (d := fun m' e' => Mgr.derivWith (Mgr.computeDerivF fuel) m' e' c)
        (c := c) (l := l) (ts := ts) (m := m)
        (fun x hx tx m' hI' rx => hd x (hch x (by simpa [children] using hx)) tx m' hI' rx) hI hts
      have fl := flat_derivListWith (d := fun m' e' => Mgr.derivWith (Mgr.computeDerivF fuel) m' e' c)
        (c := c) (l := l) (ts := ts) (m := m)
        (fun x hx tx m' hI' rx => hd x (hch x (by simpa [children] using hx)) tx m' hI' rx)
        (fun x hx tx m' hI' hf' rx => hdf x (hch x (by simpa [children] using hx)) tx m' hI' hf' rx)
        hI hf hts
      simp only
      generalize Mgr.derivListWith
        (fun m' e' => Mgr.derivWith (Mgr.computeDerivF fuel) m' e' c) m l = r1 at pl fl ⊢
      obtain ⟨hv, _⟩ := forall₂_treeD pl.here
      exact flat_unionListM pl.inv.ok fl hv

theorem flat_computeDerivM {m : Mgr} {e : Nat} {te : RE} (hI : MgrDeriv.Inv m)
    (hf : FlatTbl m.tbl) (r : treeOf m.tbl e = some te) (c : Nat) :
    FlatTbl (m.computeDerivM e c).1.tbl := flat_computeDerivF (e + 1) c hI hf (by omega) r

theorem flat_derivM {m : Mgr} {e : Nat} {te : RE} (hI : MgrDeriv.Inv m)
    (hf : FlatTbl m.tbl) (r : treeOf m.tbl e = some te) (c : Nat) :
    FlatTbl (m.derivM e c).1.tbl := by
  unfold Mgr.derivM Mgr.derivWith
  simp only
  split
  · exact hf
  · exact flat_computeDerivM hI hf r _

theorem flat_cachedDerivM {m : Mgr} {e : Nat} {te : RE} (hI : MgrDeriv.Inv m)
    (hf : FlatTbl m.tbl) (r : treeOf m.tbl e = some te) {cid : ClassId} {res : Mgr × Nat}
    (h : m.cachedDerivM e cid = some res) : FlatTbl res.1.tbl := by
  unfold Mgr.cachedDerivM at h
  split at h
  · cases h; exact hf
  · split at h
    · cases h
    · cases h; exact flat_computeDerivM hI hf r _

/-! ## the strengthened invariant, and: in a flat table `Over` is `Shape` -/

/-- **the invariant used for termination**: `Mgr.Inv` (table discipline + cache coherence) and the
    table is flat -/
structure InvS (m : Mgr) : Prop where
  inv : MgrDeriv.Inv m
  flat : FlatTbl m.tbl

theorem invS_new : InvS Mgr.new := ⟨MgrDeriv.inv_new, flatTbl_new⟩

theorem nodup_of_forall₂ {T : List Node} (hok : TableOK T) : ∀ {l : List Nat} {w : List RE},
    List.Forall₂ (fun i e => treeOf T i = some e) l w → l.Nodup → w.Nodup := by
  intro l w h
  induction h with
  | nil => intro _; exact List.nodup_nil
  | cons h1 h2 ih =>
    rename_i i e l' w'
    intro hnd
    rw [List.nodup_cons] at hnd ⊢
    refine ⟨?_, ih hnd.2⟩
    intro hmem
    -- `e` is also the tree of some id of `l'`, which must then be `i`
    have : ∀ {l : List Nat} {w : List RE}, List.Forall₂ (fun i e => treeOf T i = some e) l w →
        ∀ e ∈ w, ∃ j ∈ l, treeOf T j = some e := by
      intro l w h
      induction h with
      | nil => intro e he; cases he
      | cons g1 _ ih' =>
        intro e he
        rcases List.mem_cons.1 he with rfl | he
        · exact ⟨_, List.mem_cons_self .., g1⟩
        · obtain ⟨j, hj, hje⟩ := ih' e he
          exact ⟨j, List.mem_cons_of_mem _ hj, hje⟩
    obtain ⟨j, hj, hje⟩ := this h2 e hmem
    have := tree_inj hok h1 hje
    subst this
    exact hnd.1 hj

theorem forall₂_mem_right {T : List Node} : ∀ {l : List Nat} {w : List RE},
    List.Forall₂ (fun i e => treeOf T i = some e) l w →
    ∀ e ∈ w, ∃ j ∈ l, treeOf T j = some e := by
  intro l w h
  induction h with
  | nil => intro e he; cases he
  | cons g1 _ ih' =>
    intro e he
    rcases List.mem_cons.1 he with rfl | he
    · exact ⟨_, List.mem_cons_self .., g1⟩
    · obtain ⟨j, hj, hje⟩ := ih' e he
      exact ⟨j, List.mem_cons_of_mem _ hj, hje⟩

/-- **in a flat table, a tree built over `A` has the full shape invariant** (its `Union` / `Inter`
    nodes are duplicate-free because equal trees have equal ids, and flat) -/
theorem shape_of_over {T : List Node} (hok : TableOK T) (hf : FlatTbl T) {t : RE} (h : Over A t) :
    ∀ i, treeOf T i = some t → Shape A t := by
  induction h with
  | atom ht => intro _ _; exact .atom ht
  | empty => intro _ _; exact .empty
  | eps => intro _ _; exact .eps
  | concat _ _ iha ihb =>
    intro i hi
    obtain ⟨n, _, hti⟩ := treeOf_node hok.children hi
    rw [toRE_eq_concat] at hti
    obtain ⟨l, r, _, hl, hr⟩ := hti
    exact .concat (iha l hl) (ihb r hr)
  | loop ρ _ ih =>
    intro i hi
    obtain ⟨n, _, hti⟩ := treeOf_node hok.children hi
    rw [toRE_eq_loop] at hti
    obtain ⟨x, _, hx⟩ := hti
    exact .loop ρ (ih x hx)
  | compl _ ih =>
    intro i hi
    obtain ⟨n, _, hti⟩ := treeOf_node hok.children hi
    rw [toRE_eq_compl] at hti
    obtain ⟨x, _, hx⟩ := hti
    exact .compl (ih x hx)
  | union _ ih =>
    rename_i w
    intro i hi
    obtain ⟨n, hn, hti⟩ := treeOf_node hok.children hi
    rw [toRE_eq_union] at hti
    obtain ⟨l, rfl, hl⟩ := hti
    rw [optMapM_eq_some_iff] at hl
    obtain ⟨hnd, hch⟩ := (hf i l).1 hn
    refine .union (nodup_of_forall₂ hok hl hnd) ?_ ?_
    · intro x hx
      obtain ⟨j, _, hjx⟩ := forall₂_mem_right hl x hx
      exact ih x hx j hjx
    · intro x hx l' hxl
      obtain ⟨j, hj, hjx⟩ := forall₂_mem_right hl x hx
      subst hxl
      obtain ⟨n', hn', ht'⟩ := treeOf_node hok.children hjx
      rw [toRE_eq_union] at ht'
      obtain ⟨l2, rfl, _⟩ := ht'
      exact (hch j hj).2 l2 hn'
  | inter _ ih =>
    rename_i w
    intro i hi
    obtain ⟨n, hn, hti⟩ := treeOf_node hok.children hi
    rw [toRE_eq_inter] at hti
    obtain ⟨l, rfl, hl⟩ := hti
    rw [optMapM_eq_some_iff] at hl
    obtain ⟨hnd, hch⟩ := (hf i l).2 hn
    refine .inter (nodup_of_forall₂ hok hl hnd) ?_ ?_
    · intro x hx
      obtain ⟨j, _, hjx⟩ := forall₂_mem_right hl x hx
      exact ih x hx j hjx
    · intro x hx l' hxl
      obtain ⟨j, hj, hjx⟩ := forall₂_mem_right hl x hx
      subst hxl
      obtain ⟨n', hn', ht'⟩ := treeOf_node hok.children hjx
      rw [toRE_eq_inter] at ht'
      obtain ⟨l2, rfl, _⟩ := ht'
      exact (hch j hj).2 l2 hn'

/-- **every good tree of a flat table is a member of the finite universe** -/
theorem mem_univ_of_good {T : List Node} (hok : TableOK T) (hf : FlatTbl T) {K : Nat} {t : RE}
    (h : GoodT A K t) {i : Nat} (hi : treeOf T i = some t) : t ∈ univ A K :=
  mem_univ K t (shape_of_over hok hf h.1 i hi) (Nat.le_trans (sz_le_pot t) h.2)

/-! ### construction programs keep the table flat -/

section Prog
open MgrProg

def RunFlat (run : Mgr → Option (Mgr × Nat)) : Prop :=
  ∀ m m' r, TableOK m.tbl → FlatTbl m.tbl → run m = some (m', r) → FlatTbl m'.tbl

def RunFlatL (run : Mgr → Option (Mgr × List Nat)) : Prop :=
  ∀ m m' rs, TableOK m.tbl → FlatTbl m.tbl → run m = some (m', rs) → FlatTbl m'.tbl

theorem runFlat_seq1 {a : Mgr → Option (Mgr × Nat)} {A : (RE → Nat) → Option RE}
    {f : Mgr → Nat → Mgr × Nat} (ha : RunOK a A) (fa : RunFlat a)
    (Hf : ∀ m x, TableOK m.tbl → FlatTbl m.tbl → x < m.tbl.length → FlatTbl (f m x).1.tbl) :
    RunFlat (Mgr.seq1 a f) := by
  intro m m' r hm hf hr
  obtain ⟨m1, x, ha1, hf1⟩ := seq1_eq_some.1 hr
  obtain ⟨e1, p1, _, _⟩ := ha m m1 x hm ha1
  have f1 := fa m m1 x hm hf ha1
  have := Hf m1 x p1.ok f1 (treeOf_lt p1.rep)
  rw [hf1] at this
  exact this

theorem runFlat_seq2 {a b : Mgr → Option (Mgr × Nat)} {A B : (RE → Nat) → Option RE}
    {f : Mgr → Nat → Nat → Mgr × Nat} (ha : RunOK a A) (fa : RunFlat a) (hb : RunOK b B)
    (fb : RunFlat b)
    (Hf : ∀ m x y, TableOK m.tbl → FlatTbl m.tbl → x < m.tbl.length → y < m.tbl.length →
      FlatTbl (f m x y).1.tbl) :
    RunFlat (Mgr.seq2 a b f) := by
  intro m m' r hm hf hr
  obtain ⟨m1, x, m2, y, ha1, hb1, hf1⟩ := seq2_eq_some.1 hr
  obtain ⟨e1, p1, _, _⟩ := ha m m1 x hm ha1
  have f1 := fa m m1 x hm hf ha1
  obtain ⟨e2, p2, _, _⟩ := hb m1 m2 y p1.ok hb1
  have f2 := fb m1 m2 y p1.ok f1 hb1
  have := Hf m2 x y p2.ok f2 (treeOf_lt (treeOf_prefix p2.ext p1.rep)) (treeOf_lt p2.rep)
  rw [hf1] at this
  exact this

theorem runFlat_seq1L {a : Mgr → Option (Mgr × List Nat)} {A : (RE → Nat) → Option (List RE)}
    {f : Mgr → List Nat → Mgr × Nat} (ha : RunOKL a A) (fa : RunFlatL a)
    (Hf : ∀ m xs, TableOK m.tbl → FlatTbl m.tbl → (∀ i ∈ xs, i < m.tbl.length) →
      FlatTbl (f m xs).1.tbl) :
    RunFlat (Mgr.seq1 a f) := by
  intro m m' r hm hf hr
  obtain ⟨m1, x, ha1, hf1⟩ := seq1_eq_some.1 hr
  obtain ⟨e1, p1, _, _⟩ := ha m m1 x hm ha1
  have f1 := fa m m1 x hm hf ha1
  have := Hf m1 x p1.ok f1 (forall₂_treeD p1.rep).1
  rw [hf1] at this
  exact this

theorem runFlat_seq2L {a : Mgr → Option (Mgr × Nat)} {b : Mgr → Option (Mgr × List Nat)}
    {A : (RE → Nat) → Option RE} {B : (RE → Nat) → Option (List RE)}
    {f : Mgr → Nat → List Nat → Mgr × Nat} (ha : RunOK a A) (fa : RunFlat a) (hb : RunOKL b B)
    (fb : RunFlatL b)
    (Hf : ∀ m x ys, TableOK m.tbl → FlatTbl m.tbl → x < m.tbl.length →
      (∀ i ∈ ys, i < m.tbl.length) → FlatTbl (f m x ys).1.tbl) :
    RunFlat (Mgr.seq2 a b f) := by
  intro m m' r hm hf hr
  obtain ⟨m1, x, m2, y, ha1, hb1, hf1⟩ := seq2_eq_some.1 hr
  obtain ⟨e1, p1, _, _⟩ := ha m m1 x hm ha1
  have f1 := fa m m1 x hm hf ha1
  obtain ⟨e2, p2, _, _⟩ := hb m1 m2 y p1.ok hb1
  have f2 := fb m1 m2 y p1.ok f1 hb1
  have := Hf m2 x y p2.ok f2 (treeOf_lt (treeOf_prefix p2.ext p1.rep)) (forall₂_treeD p2.rep).1
  rw [hf1] at this
  exact this

theorem runFlatL_cons {a : Mgr → Option (Mgr × Nat)} {b : Mgr → Option (Mgr × List Nat)}
    {A : (RE → Nat) → Option RE} (ha : RunOK a A) (fa : RunFlat a) (fb : RunFlatL b) :
    RunFlatL (Mgr.seqCons a b) := by
  intro m m' rs hm hf hr
  unfold Mgr.seqCons at hr
  cases ha1 : a m with
  | none => rw [ha1] at hr; cases hr
  | some r1 =>
    obtain ⟨m1, x⟩ := r1
    rw [ha1] at hr
    simp only at hr
    cases hb1 : b m1 with
    | none => rw [hb1] at hr; cases hr
    | some r2 =>
      obtain ⟨m2, ys⟩ := r2
      rw [hb1] at hr
      simp only [Option.some.injEq, Prod.mk.injEq] at hr
      obtain ⟨rfl, rfl⟩ := hr
      obtain ⟨e1, p1, _, _⟩ := ha m m1 x hm ha1
      exact fb m1 m2 ys p1.ok (fa m m1 x hm hf ha1) hb1

mutual
/-- **every construction program keeps the table flat** -/
theorem flat_runProg : ∀ (p : Prog), RunFlat (fun m => m.runProg p)
  | .none => by intro m m' r _ hf h; beta_reduce at h; rw [Mgr.runProg] at h; cases h; exact hf
  | .all => by intro m m' r _ hf h; beta_reduce at h; rw [Mgr.runProg] at h; cases h; exact hf
  | .allchar => by intro m m' r _ hf h; beta_reduce at h; rw [Mgr.runProg] at h; cases h; exact hf
  | .eps => by intro m m' r _ hf h; beta_reduce at h; rw [Mgr.runProg] at h; cases h; exact hf
  | .sigmaPlus => by intro m m' r _ hf h; beta_reduce at h; rw [Mgr.runProg] at h; cases h; exact hf
  | .range a b => by intro m m' r _ hf h; beta_reduce at h; rw [Mgr.runProg] at h; exact flat_rangeM hf h
  | .char c => by intro m m' r _ hf h; beta_reduce at h; rw [Mgr.runProg] at h; exact flat_charM hf h
  | .smtRange s1 s2 => by
    intro m m' r _ hf h; beta_reduce at h; rw [Mgr.runProg] at h
    have := flat_smtRangeM hf s1 s2
    rw [Option.some.inj h] at this; exact this
  | .str s => by intro m m' r _ hf h; beta_reduce at h; rw [Mgr.runProg] at h; exact flat_strM s hf h
  | .charSet cs => by
    intro m m' r _ hf h; beta_reduce at h; rw [Mgr.runProg] at h
    have := flat_charSetM hf cs
    rw [Option.some.inj h] at this; exact this
  | .concat p q => by
    intro m m' r hm hf h; beta_reduce at h; rw [Mgr.runProg] at h
    exact runFlat_seq2 (runProg_ok p) (flat_runProg p) (runProg_ok q) (flat_runProg q)
      (fun m x y _ hf _ _ => flat_concatM hf x y) m m' r hm hf h
  | .concatList ps => by
    intro m m' r hm hf h; beta_reduce at h; rw [Mgr.runProg] at h
    exact runFlat_seq1L (runProgList_ok ps) (flat_runProgList ps)
      (fun m xs _ hf _ => flat_concatListM hf xs) m m' r hm hf h
  | .union p q => by
    intro m m' r hm hf h; beta_reduce at h; rw [Mgr.runProg] at h
    exact runFlat_seq2 (runProg_ok p) (flat_runProg p) (runProg_ok q) (flat_runProg q)
      (fun m x y hm hf hx hy => flat_unionM hm hf hx hy) m m' r hm hf h
  | .unionList ps => by
    intro m m' r hm hf h; beta_reduce at h; rw [Mgr.runProg] at h
    exact runFlat_seq1L (runProgList_ok ps) (flat_runProgList ps)
      (fun m xs hm hf hxs => flat_unionListM hm hf hxs) m m' r hm hf h
  | .inter p q => by
    intro m m' r hm hf h; beta_reduce at h; rw [Mgr.runProg] at h
    exact runFlat_seq2 (runProg_ok p) (flat_runProg p) (runProg_ok q) (flat_runProg q)
      (fun m x y hm hf hx hy => flat_interM hm hf hx hy) m m' r hm hf h
  | .interList ps => by
    intro m m' r hm hf h; beta_reduce at h; rw [Mgr.runProg] at h
    exact runFlat_seq1L (runProgList_ok ps) (flat_runProgList ps)
      (fun m xs hm hf hxs => flat_interListM hm hf hxs) m m' r hm hf h
  | .comp p => by
    intro m m' r hm hf h; beta_reduce at h; rw [Mgr.runProg] at h
    exact runFlat_seq1 (runProg_ok p) (flat_runProg p) (fun m x _ hf _ => hf) m m' r hm hf h
  | .diff p q => by
    intro m m' r hm hf h; beta_reduce at h; rw [Mgr.runProg] at h
    exact runFlat_seq2 (runProg_ok p) (flat_runProg p) (runProg_ok q) (flat_runProg q)
      (fun m x y hm hf hx hy => flat_diffM hm hf hx hy) m m' r hm hf h
  | .diffList p qs => by
    intro m m' r hm hf h; beta_reduce at h; rw [Mgr.runProg] at h
    exact runFlat_seq2L (runProg_ok p) (flat_runProg p) (runProgList_ok qs) (flat_runProgList qs)
      (fun m x ys hm hf hx hys => flat_diffListM hm hf hx hys) m m' r hm hf h
  | .star p => by
    intro m m' r hm hf h; beta_reduce at h; rw [Mgr.runProg] at h
    exact runFlat_seq1 (runProg_ok p) (flat_runProg p)
      (fun m x _ hf _ => flat_mkLoopM hf x _) m m' r hm hf h
  | .plus p => by
    intro m m' r hm hf h; beta_reduce at h; rw [Mgr.runProg] at h
    exact runFlat_seq1 (runProg_ok p) (flat_runProg p)
      (fun m x _ hf _ => flat_mkLoopM hf x _) m m' r hm hf h
  | .opt p => by
    intro m m' r hm hf h; beta_reduce at h; rw [Mgr.runProg] at h
    exact runFlat_seq1 (runProg_ok p) (flat_runProg p)
      (fun m x _ hf _ => flat_mkLoopM hf x _) m m' r hm hf h
  | .exp p k => by
    intro m m' r hm hf h; beta_reduce at h; rw [Mgr.runProg] at h
    exact runFlat_seq1 (runProg_ok p) (flat_runProg p)
      (fun m x _ hf _ => flat_mkLoopM hf x _) m m' r hm hf h
  | .smtLoop p i j => by
    intro m m' r hm hf h; beta_reduce at h; rw [Mgr.runProg] at h
    exact runFlat_seq1 (runProg_ok p) (flat_runProg p)
      (fun m x _ hf _ => flat_smtLoopM hf x i j) m m' r hm hf h
  | .mkLoop p rg => by
    intro m m' r hm hf h; beta_reduce at h; rw [Mgr.runProg] at h
    exact runFlat_seq1 (runProg_ok p) (flat_runProg p)
      (fun m x _ hf _ => flat_mkLoopM hf x rg) m m' r hm hf h
theorem flat_runProgList : ∀ (ps : List Prog), RunFlatL (fun m => m.runProgList ps)
  | [] => by
    intro m m' rs _ hf h; beta_reduce at h; rw [Mgr.runProgList] at h
    simp only [Option.some.injEq, Prod.mk.injEq] at h
    obtain ⟨rfl, _⟩ := h
    exact hf
  | p :: ps => by
    intro m m' rs hm hf h; beta_reduce at h; rw [Mgr.runProgList] at h
    exact runFlatL_cons (runProg_ok p) (flat_runProg p) (flat_runProgList ps) m m' rs hm hf h
end

end Prog

/-! ## C. the searches cannot run out of fuel -/

section Search
variable {K : Nat}

/-- the id `x` of the manager holds a good tree of the universe `(A, K)` -/
def GoodId (A : List RE) (K : Nat) (m : Mgr) (x : Nat) : Prop :=
  ∃ t, treeOf m.tbl x = some t ∧ GoodT A K t

theorem GoodId.mono {m m' : Mgr} (hp : m.tbl <+: m'.tbl) {x : Nat} (h : GoodId A K m x) :
    GoodId A K m' x := by
  obtain ⟨t, ht, hg⟩ := h
  exact ⟨t, treeOf_prefix hp ht, hg⟩

theorem GoodId.valid {m : Mgr} {x : Nat} (h : GoodId A K m x) : x < m.tbl.length := by
  obtain ⟨t, ht, _⟩ := h
  exact treeOf_lt ht

/-- one `cached_deriv` call from a good term: the invariant is kept and the result is good -/
theorem cachedDerivM_good (hA : SubClosed A) (hσ : sigma ∈ A) {m : Mgr} (hS : InvS m) {e : Nat}
    (he : GoodId A K m e) {cid : ClassId} {res : Mgr × Nat} (h : m.cachedDerivM e cid = some res) :
    InvS res.1 ∧ m.tbl <+: res.1.tbl ∧ GoodId A K res.1 res.2 := by
  obtain ⟨te, r, hg⟩ := he
  have hfl := flat_cachedDerivM hS.inv hS.flat r h
  cases hpick : te.derivClass.pickInClass cid with
  | some c =>
    obtain ⟨m', d, hres, hp⟩ := cachedDerivM_some hS.inv r hpick
    rw [hres] at h
    cases h
    exact ⟨⟨hp.inv, hfl⟩, hp.ext, _, hp.here, goodT_deriv _ hA hσ hg c⟩
  | none =>
    cases hget : m.cacheGet e cid with
    | none => rw [cachedDerivM_none r hpick hget] at h; cases h
    | some d =>
      simp only [Mgr.cachedDerivM, hget] at h
      cases h
      obtain ⟨te', hte', hT⟩ := hS.inv.cache _ _ _ (cacheGet_mem hget)
      rw [r] at hte'; cases hte'
      exact ⟨hS, List.prefix_refl _, _, hT _ (List.prefix_refl _) hS.inv.ok,
        goodT_deriv _ hA hσ hg _⟩

/-- all class derivatives of a good term -/
theorem classDerivsAux_good (hA : SubClosed A) (hσ : sigma ∈ A) {e : Nat} :
    ∀ (cids : List ClassId) {m : Mgr}, InvS m → GoodId A K m e →
    InvS (Mgr.classDerivsAux e m cids).1 ∧ m.tbl <+: (Mgr.classDerivsAux e m cids).1.tbl ∧
      ∀ ds, (Mgr.classDerivsAux e m cids).2 = some ds →
        ∀ d ∈ ds, GoodId A K (Mgr.classDerivsAux e m cids).1 d.2 := by
  intro cids
  induction cids with
  | nil =>
    intro m hS _
    refine ⟨hS, List.prefix_refl _, ?_⟩
    intro ds h d hd
    simp only [Mgr.classDerivsAux, Option.some.injEq] at h
    subst h
    cases hd
  | cons cid rest ih =>
    intro m hS he
    simp only [Mgr.classDerivsAux]
    cases hc : m.cachedDerivM e cid with
    | none =>
      simp only
      exact ⟨hS, List.prefix_refl _, fun ds h => by cases h⟩
    | some r1 =>
      simp only
      obtain ⟨hS1, hp1, hg1⟩ := cachedDerivM_good hA hσ hS he hc
      obtain ⟨hS2, hp2, hg2⟩ := ih (m := r1.1) hS1 (he.mono hp1)
      refine ⟨hS2, List.IsPrefix.trans hp1 hp2, ?_⟩
      intro ds h d hd
      cases h2 : (Mgr.classDerivsAux e r1.1 rest).2 with
      | none => rw [h2] at h; cases h
      | some ds' =>
        rw [h2] at h
        simp only [Option.map_some, Option.some.injEq] at h
        subst h
        rcases List.mem_cons.1 hd with rfl | hd
        · exact hg1.mono hp2
        · exact hg2 ds' h2 d hd

theorem classDerivsM_good (hA : SubClosed A) (hσ : sigma ∈ A) {m : Mgr} (hS : InvS m) {e : Nat}
    (he : GoodId A K m e) :
    InvS (m.classDerivsM e).1 ∧ m.tbl <+: (m.classDerivsM e).1.tbl ∧
      ∀ ds, (m.classDerivsM e).2 = some ds → ∀ d ∈ ds, GoodId A K (m.classDerivsM e).1 d.2 :=
  classDerivsAux_good hA hσ _ hS he

/-- invariant of the BFS list of a stateful search: duplicate-free ids of good terms -/
structure SInv (A : List RE) (K : Nat) (m : Mgr) (all : List Nat) : Prop where
  invS : InvS m
  nodup : all.Nodup
  good : ∀ x ∈ all, GoodId A K m x

/-- **the BFS list is never longer than the universe** -/
theorem SInv.length_le {m : Mgr} {all : List Nat} (h : SInv A K m all) :
    all.length ≤ (univ A K).length := by
  have hok := h.invS.inv.ok
  have hnd : (all.map (treeD m.tbl)).Nodup := by
    apply List.Nodup.map_on _ h.nodup
    intro x hx y hy hxy
    exact treeD_inj hok (h.good x hx).valid (h.good y hy).valid hxy
  have hsub : ∀ t ∈ all.map (treeD m.tbl), t ∈ univ A K := by
    intro t ht
    rw [List.mem_map] at ht
    obtain ⟨x, hx, rfl⟩ := ht
    obtain ⟨tx, htx, hg⟩ := h.good x hx
    rw [treeD_eq htx]
    exact mem_univ_of_good hok h.invS.flat hg htx
  have := (List.subperm_of_subset hnd hsub).length_le
  simpa using this

theorem nodup_bfsPushI {all : List Nat} (h : all.Nodup) (x : Nat) : (Mgr.bfsPushI all x).Nodup := by
  unfold Mgr.bfsPushI
  split
  · exact h
  · rename_i hc
    rw [List.nodup_append]
    refine ⟨h, List.nodup_singleton _, ?_⟩
    intro a ha b hb
    rw [List.mem_singleton] at hb
    subst hb
    intro hab
    subst hab
    exact hc (List.contains_iff_mem.2 ha)

theorem nodup_pushAllI : ∀ (ds : List (ClassId × Nat)) {all : List Nat}, all.Nodup →
    (pushAllI all ds).Nodup := by
  intro ds
  induction ds with
  | nil => intro all h; exact h
  | cons d ds ih => intro all h; exact ih (all := Mgr.bfsPushI all d.2) (nodup_bfsPushI h _)

theorem length_bfsPushI (all : List Nat) (x : Nat) : all.length ≤ (Mgr.bfsPushI all x).length := by
  unfold Mgr.bfsPushI
  split <;> simp

theorem length_pushAllI : ∀ (ds : List (ClassId × Nat)) (all : List Nat),
    all.length ≤ (pushAllI all ds).length := by
  intro ds
  induction ds with
  | nil => intro all; exact Nat.le_refl _
  | cons d ds ih =>
    intro all
    exact Nat.le_trans (length_bfsPushI all d.2) (ih (Mgr.bfsPushI all d.2))

/-- one BFS step keeps the invariant -/
theorem SInv.step (hA : SubClosed A) (hσ : sigma ∈ A) {m : Mgr} {all : List Nat}
    (h : SInv A K m all) {r : Nat} (hr : r ∈ all) {m1 : Mgr} {ds : List (ClassId × Nat)}
    (hcd : m.classDerivsM r = (m1, some ds)) : SInv A K m1 (pushAllI all ds) := by
  obtain ⟨hS1, hp1, hg1⟩ := classDerivsM_good hA hσ h.invS (h.good r hr)
  rw [hcd] at hS1 hp1 hg1
  refine ⟨hS1, nodup_pushAllI ds h.nodup, ?_⟩
  intro x hx
  rcases mem_pushAllI hx with hx | ⟨d, hd, rfl⟩
  · exact (h.good x hx).mono hp1
  · exact hg1 ds rfl d hd

theorem SInv.step_invS (hA : SubClosed A) (hσ : sigma ∈ A) {m : Mgr} {all : List Nat}
    (h : SInv A K m all) {r : Nat} (hr : r ∈ all) : InvS (m.classDerivsM r).1 :=
  (classDerivsM_good hA hσ h.invS (h.good r hr)).1

/-- **`iter_derivatives` on the stateful manager**: the invariant is kept, and with
    `fuel + i > |universe|` the loop does not run out of fuel -/
theorem iterLoopM_not_oof (hA : SubClosed A) (hσ : sigma ∈ A) :
    ∀ (fuel : Nat) {m : Mgr} {all : List Nat} {i : Nat}, SInv A K m all →
    InvS (Mgr.iterLoopM fuel m all i).1 ∧
    (i ≤ all.length → (univ A K).length + 1 ≤ fuel + i →
      (Mgr.iterLoopM fuel m all i).2 ≠ .outOfFuel) := by
  intro fuel
  induction fuel with
  | zero =>
    intro m all i h
    refine ⟨h.invS, fun hi hf => ?_⟩
    have := h.length_le
    omega
  | succ fuel ih =>
    intro m all i h
    simp only [Mgr.iterLoopM]
    cases hi : all[i]? with
    | none => exact ⟨h.invS, fun _ _ => by simp⟩
    | some r =>
      have hr : r ∈ all := List.mem_of_getElem? hi
      have hil : i < all.length := (List.getElem?_eq_some_iff.1 hi).1
      simp only
      cases hcd : m.classDerivsM r with
      | mk m1 dso =>
        cases dso with
        | none =>
          simp only
          have := h.step_invS hA hσ hr
          rw [hcd] at this
          exact ⟨this, fun _ _ => by simp⟩
        | some ds =>
          simp only
          have h1 := h.step hA hσ hr hcd
          obtain ⟨i1, i2⟩ := ih (m := m1) (all := pushAllI all ds) (i := i + 1) h1
          refine ⟨i1, fun _ hf => i2 ?_ (by omega)⟩
          have := length_pushAllI ds all
          omega

/-- **`is_empty_re` on the stateful manager** -/
theorem isEmptyLoopM_not_oof (hA : SubClosed A) (hσ : sigma ∈ A) :
    ∀ (fuel : Nat) {m : Mgr} {all : List Nat} {i : Nat}, SInv A K m all →
    InvS (Mgr.isEmptyLoopM fuel m all i).1 ∧
    (i ≤ all.length → (univ A K).length + 1 ≤ fuel + i →
      (Mgr.isEmptyLoopM fuel m all i).2 ≠ .outOfFuel) := by
  intro fuel
  induction fuel with
  | zero =>
    intro m all i h
    refine ⟨h.invS, fun hi hf => ?_⟩
    have := h.length_le
    omega
  | succ fuel ih =>
    intro m all i h
    simp only [Mgr.isEmptyLoopM]
    cases hi : all[i]? with
    | none => exact ⟨h.invS, fun _ _ => by simp⟩
    | some r =>
      have hr : r ∈ all := List.mem_of_getElem? hi
      have hil : i < all.length := (List.getElem?_eq_some_iff.1 hi).1
      simp only
      cases hcd : m.classDerivsM r with
      | mk m1 dso =>
        cases dso with
        | none =>
          simp only
          have := h.step_invS hA hσ hr
          rw [hcd] at this
          exact ⟨this, fun _ _ => by simp⟩
        | some ds =>
          simp only
          have h1 := h.step hA hσ hr hcd
          split
          · exact ⟨h1.invS, fun _ _ => by simp⟩
          · obtain ⟨i1, i2⟩ := ih (m := m1) (all := pushAllI all ds) (i := i + 1) h1
            refine ⟨i1, fun _ hf => i2 ?_ (by omega)⟩
            have := length_pushAllI ds all
            omega

theorem sinv_init {m : Mgr} (hS : InvS m) {e : Nat} (he : GoodId A K m e) : SInv A K m [e] :=
  ⟨hS, List.nodup_singleton _, fun x hx => by rw [List.mem_singleton.1 hx]; exact he⟩

/-! ### `get_string_path` -/

/-- the nodes of a `LabeledQueue` of ids, in insertion order -/
def nodesI (q : List Mgr.LqEntryI) : List Nat := q.map (·.node)

theorem lqFindI_isSome (q : List Mgr.LqEntryI) (x : Nat) :
    (Mgr.lqFindI q x).isSome = (nodesI q).contains x := by
  unfold Mgr.lqFindI nodesI
  induction q with
  | nil => rfl
  | cons a q ih =>
    simp only [List.find?_cons, List.map_cons, List.contains_cons]
    by_cases h : a.node = x
    · simp [h]
    · have h' : (x == a.node) = false := by
        simp only [beq_eq_false_iff_ne, ne_eq]; exact fun h2 => h h2.symm
      simp only [h, decide_false, h', Bool.false_or]
      exact ih

theorem nodesI_lqPushI (q : List Mgr.LqEntryI) (pre : Nat) (label : ClassId) (suc : Nat) :
    nodesI (Mgr.lqPushI q pre label suc) = Mgr.bfsPushI (nodesI q) suc := by
  have h := lqFindI_isSome q suc
  unfold Mgr.lqPushI Mgr.bfsPushI
  cases hf : Mgr.lqFindI q suc with
  | some e =>
    rw [hf] at h
    simp only [Option.isSome_some] at h
    simp only [← h, if_true]
  | none =>
    rw [hf] at h
    simp only [Option.isSome_none] at h
    simp only [← h, Bool.false_eq_true, if_false]
    simp [nodesI]

theorem nodesI_lqPushAllI (r : Nat) : ∀ (ds : List (ClassId × Nat)) (q : List Mgr.LqEntryI),
    nodesI (lqPushAllI q r ds) = pushAllI (nodesI q) ds := by
  intro ds
  induction ds with
  | nil => intro q; rfl
  | cons d ds ih =>
    intro q
    show nodesI (lqPushAllI (Mgr.lqPushI q r d.1 d.2) r ds) = pushAllI (Mgr.bfsPushI (nodesI q) d.2) ds
    rw [ih, nodesI_lqPushI]

/-- **`get_string_path` on the stateful manager** -/
theorem pathLoopM_not_oof (hA : SubClosed A) (hσ : sigma ∈ A) :
    ∀ (fuel : Nat) {m : Mgr} {q : List Mgr.LqEntryI} {i : Nat}, SInv A K m (nodesI q) →
    InvS (Mgr.pathLoopM fuel m q i).1 ∧
    (i ≤ q.length → (univ A K).length + 1 ≤ fuel + i →
      (Mgr.pathLoopM fuel m q i).2 ≠ .outOfFuel) := by
  intro fuel
  induction fuel with
  | zero =>
    intro m q i h
    refine ⟨h.invS, fun hi hf => ?_⟩
    have := h.length_le
    simp only [nodesI, List.length_map] at this
    omega
  | succ fuel ih =>
    intro m q i h
    simp only [Mgr.pathLoopM]
    cases hi : q[i]? with
    | none => exact ⟨h.invS, fun _ _ => by simp⟩
    | some ent =>
      have hr : ent.node ∈ nodesI q := by
        unfold nodesI
        exact List.mem_map.2 ⟨ent, List.mem_of_getElem? hi, rfl⟩
      have hil : i < q.length := (List.getElem?_eq_some_iff.1 hi).1
      simp only
      split
      · split
        · exact ⟨h.invS, fun _ _ => by simp⟩
        · exact ⟨h.invS, fun _ _ => by simp⟩
      · cases hcd : m.classDerivsM ent.node with
        | mk m1 dso =>
          cases dso with
          | none =>
            simp only
            have := h.step_invS hA hσ hr
            rw [hcd] at this
            exact ⟨this, fun _ _ => by simp⟩
          | some ds =>
            simp only
            have h1 := h.step hA hσ hr hcd
            rw [← nodesI_lqPushAllI ent.node ds q] at h1
            obtain ⟨i1, i2⟩ := ih (m := m1) (q := lqPushAllI q ent.node ds) (i := i + 1) h1
            refine ⟨i1, fun _ hf => i2 ?_ (by omega)⟩
            have h2 := length_pushAllI ds (nodesI q)
            rw [← nodesI_lqPushAllI ent.node ds q] at h2
            simp only [nodesI, List.length_map] at h2
            omega

/-! ### `compile_with_bound` -/

theorem SInv.push {m m1 : Mgr} {all : List Nat} (h : SInv A K m all) (hS1 : InvS m1)
    (hp : m.tbl <+: m1.tbl) {x : Nat} (hx : GoodId A K m1 x) : SInv A K m1 (Mgr.bfsPushI all x) := by
  refine ⟨hS1, nodup_bfsPushI h.nodup x, ?_⟩
  intro y hy
  rcases mem_bfsPushI hy with hy | rfl
  · exact (h.good y hy).mono hp
  · exact hx

theorem setDerivativeUncheckedM_good (hA : SubClosed A) (hσ : sigma ∈ A) {m : Mgr} (hS : InvS m)
    {e : Nat} (he : GoodId A K m e) {set : CharSet} {res : Mgr × Nat}
    (h : m.setDerivativeUncheckedM e set = some res) :
    InvS res.1 ∧ m.tbl <+: res.1.tbl ∧ GoodId A K res.1 res.2 := by
  unfold Mgr.setDerivativeUncheckedM at h
  split at h
  · cases h
  · exact cachedDerivM_good hA hσ hS he h

theorem compileRangesM_good (hA : SubClosed A) (hσ : sigma ∈ A) {r kr : Nat} :
    ∀ (sets : List CharSet) {m : Mgr} {all : List Nat} {b : Builder}, SInv A K m all →
    GoodId A K m r →
    InvS (Mgr.compileRangesM r kr m sets all b).1 ∧
    m.tbl <+: (Mgr.compileRangesM r kr m sets all b).1.tbl ∧
    ∀ all' b', (Mgr.compileRangesM r kr m sets all b).2 = some (all', b') →
      SInv A K (Mgr.compileRangesM r kr m sets all b).1 all' ∧ all.length ≤ all'.length := by
  intro sets
  induction sets with
  | nil =>
    intro m all b h _
    refine ⟨h.invS, List.prefix_refl _, ?_⟩
    intro all' b' heq
    simp only [Mgr.compileRangesM, Option.some.injEq, Prod.mk.injEq] at heq
    obtain ⟨rfl, _⟩ := heq
    exact ⟨h, Nat.le_refl _⟩
  | cons set rest ih =>
    intro m all b h hr
    simp only [Mgr.compileRangesM]
    cases hc : m.setDerivativeUncheckedM r set with
    | none =>
      simp only
      exact ⟨h.invS, List.prefix_refl _, fun _ _ heq => by cases heq⟩
    | some r1 =>
      simp only
      obtain ⟨hS1, hp1, hg1⟩ := setDerivativeUncheckedM_good hA hσ h.invS hr hc
      have h1 := h.push hS1 hp1 hg1
      obtain ⟨j1, j2, j3⟩ := ih (m := r1.1) (all := Mgr.bfsPushI all r1.2)
        (b := b.addTransition kr set (Mgr.idxOfI (Mgr.bfsPushI all r1.2) r1.2)) h1 (hr.mono hp1)
      refine ⟨j1, List.IsPrefix.trans hp1 j2, ?_⟩
      intro all' b' heq
      obtain ⟨k1, k2⟩ := j3 all' b' heq
      exact ⟨k1, Nat.le_trans (length_bfsPushI all r1.2) k2⟩

theorem compileDefaultM_good (hA : SubClosed A) (hσ : sigma ∈ A) {m : Mgr} {all : List Nat}
    (h : SInv A K m all) {r : Nat} (hr : GoodId A K m r) (i : Nat) (b : Builder) :
    InvS (m.compileDefaultM r i all b).1 ∧
    ∀ all' b', (m.compileDefaultM r i all b).2 = some (all', b') →
      SInv A K (m.compileDefaultM r i all b).1 all' ∧ all.length ≤ all'.length := by
  unfold Mgr.compileDefaultM
  split
  · cases hc : m.classDerivativeUncheckedM r .complement with
    | none =>
      simp only
      exact ⟨h.invS, fun _ _ heq => by cases heq⟩
    | some r1 =>
      simp only
      obtain ⟨hS1, hp1, hg1⟩ := cachedDerivM_good hA hσ h.invS hr hc
      refine ⟨hS1, ?_⟩
      intro all' b' heq
      simp only [Option.some.injEq, Prod.mk.injEq] at heq
      obtain ⟨rfl, _⟩ := heq
      exact ⟨h.push hS1 hp1 hg1, length_bfsPushI all r1.2⟩
  · refine ⟨h.invS, ?_⟩
    intro all' b' heq
    simp only [Option.some.injEq, Prod.mk.injEq] at heq
    obtain ⟨rfl, _⟩ := heq
    exact ⟨h, Nat.le_refl _⟩

/-- **`compile_with_bound` on the stateful manager** -/
theorem compileLoopM_not_oof (hA : SubClosed A) (hσ : sigma ∈ A) (maxStates : Nat) :
    ∀ (fuel : Nat) {m : Mgr} {all : List Nat} {i : Nat} {b : Builder}, SInv A K m all →
    InvS (Mgr.compileLoopM maxStates fuel m all i b).1 ∧
    (i ≤ all.length → (univ A K).length + 1 ≤ fuel + i →
      (Mgr.compileLoopM maxStates fuel m all i b).2 ≠ .outOfFuel) := by
  intro fuel
  induction fuel with
  | zero =>
    intro m all i b h
    refine ⟨h.invS, fun hi hf => ?_⟩
    have := h.length_le
    omega
  | succ fuel ih =>
    intro m all i b h
    simp only [Mgr.compileLoopM]
    cases hi : all[i]? with
    | none => exact ⟨h.invS, fun _ _ => by simp⟩
    | some r =>
      have hr : r ∈ all := List.mem_of_getElem? hi
      have hil : i < all.length := (List.getElem?_eq_some_iff.1 hi).1
      simp only
      split
      · exact ⟨h.invS, fun _ _ => by simp⟩
      · obtain ⟨j1, j2, j3⟩ := compileRangesM_good hA hσ (r := r) (kr := i)
          (m.derivClass r).list (b := b) h (h.good r hr)
        cases hcr : Mgr.compileRangesM r i m (m.derivClass r).list all b with
        | mk m1 o1 =>
          rw [hcr] at j1 j2 j3
          cases o1 with
          | none => exact ⟨j1, fun _ _ => by simp⟩
          | some ab1 =>
            obtain ⟨all1, b1⟩ := ab1
            simp only
            obtain ⟨k1, k2⟩ := j3 all1 b1 rfl
            obtain ⟨l1, l2⟩ := compileDefaultM_good hA hσ k1 ((h.good r hr).mono j2) i b1
            cases hcd : m1.compileDefaultM r i all1 b1 with
            | mk m2 o2 =>
              rw [hcd] at l1 l2
              cases o2 with
              | none => exact ⟨l1, fun _ _ => by simp⟩
              | some ab2 =>
                obtain ⟨all2, b2⟩ := ab2
                simp only
                obtain ⟨n1, n2⟩ := l2 all2 b2 rfl
                obtain ⟨i1, i2⟩ := ih (m := m2) (all := all2) (i := i + 1)
                  (b := if m.nullable r then b2.markFinal i else b2) n1
                exact ⟨i1, fun _ hf => i2 (by omega) (by omega)⟩

/-! ### the entry points -/

theorem isEmptyReM_not_oof_gen (hA : SubClosed A) (hσ : sigma ∈ A) {m : Mgr} (hS : InvS m)
    {e : Nat} (he : GoodId A K m e) {fuel : Nat} (hf : (univ A K).length + 1 ≤ fuel) :
    InvS (m.isEmptyReM fuel e).1 ∧ (m.isEmptyReM fuel e).2 ≠ .outOfFuel := by
  obtain ⟨h1, h2⟩ := isEmptyLoopM_not_oof hA hσ fuel (i := 0) (sinv_init hS he)
  exact ⟨h1, h2 (by simp) (by omega)⟩

theorem derivM_good (hA : SubClosed A) (hσ : sigma ∈ A) {m : Mgr} (hS : InvS m) {e : Nat}
    (he : GoodId A K m e) (c : Nat) :
    InvS (m.derivM e c).1 ∧ m.tbl <+: (m.derivM e c).1.tbl ∧
      GoodId A K (m.derivM e c).1 (m.derivM e c).2 := by
  obtain ⟨te, r, hg⟩ := he
  have p := dpost_derivM hS.inv r c
  exact ⟨⟨p.inv, flat_derivM hS.inv hS.flat r c⟩, p.ext, _, p.here, goodT_deriv _ hA hσ hg _⟩

theorem startViaDerivM_not_oof (hA : SubClosed A) (hσ : sigma ∈ A) {m : Mgr} (hS : InvS m)
    {e : Nat} (he : GoodId A K m e) (c : Nat) {fuel : Nat} (hf : (univ A K).length + 1 ≤ fuel) :
    InvS (m.startViaDerivM fuel e c).1 ∧ (m.startViaDerivM fuel e c).2 ≠ .outOfFuel := by
  obtain ⟨h1, _, h3⟩ := derivM_good hA hσ hS he c
  obtain ⟨k1, k2⟩ := isEmptyReM_not_oof_gen hA hσ h1 h3 hf
  simp only [Mgr.startViaDerivM]
  cases hr : (m.derivM e c).1.isEmptyReM fuel (m.derivM e c).2 with
  | mk m2 ro =>
    rw [hr] at k1 k2
    cases ro with
    | ok b => exact ⟨k1, by simp⟩
    | panic => exact ⟨k1, by simp⟩
    | outOfFuel => exact absurd rfl k2

end Search

/-- fuel that suffices for every search from a term with tree `te`: one more than the number of
    terms of the universe of `te` (all duplicate-free terms of size `≤ pot te` over the sub-terms
    of `te`) -/
def fuelFor (te : RE) : Nat := (univ (atoms te) (pot te)).length + 1

theorem goodId_self {m : Mgr} {e : Nat} {te : RE} (r : treeOf m.tbl e = some te) :
    GoodId (atoms te) (pot te) m e := ⟨te, r, goodT_self te⟩

/-- **`iter_derivatives(e)` on the stateful manager does not run out of fuel `≥ fuelFor te`**, and
    keeps the strengthened invariant -/
theorem iterDerivativesM_not_oof {m : Mgr} (hS : InvS m) {e : Nat} {te : RE}
    (r : treeOf m.tbl e = some te) {fuel : Nat} (hf : fuelFor te ≤ fuel) :
    InvS (m.iterDerivativesM fuel e).1 ∧ (m.iterDerivativesM fuel e).2 ≠ .outOfFuel := by
  obtain ⟨h1, h2⟩ := iterLoopM_not_oof (subClosed_atoms te) (sigma_mem_atoms te) fuel (i := 0)
    (sinv_init hS (goodId_self r))
  exact ⟨h1, h2 (by simp) (by unfold fuelFor at hf; omega)⟩

theorem isEmptyReM_not_oof {m : Mgr} (hS : InvS m) {e : Nat} {te : RE}
    (r : treeOf m.tbl e = some te) {fuel : Nat} (hf : fuelFor te ≤ fuel) :
    InvS (m.isEmptyReM fuel e).1 ∧ (m.isEmptyReM fuel e).2 ≠ .outOfFuel :=
  isEmptyReM_not_oof_gen (subClosed_atoms te) (sigma_mem_atoms te) hS (goodId_self r) hf

theorem getStringPathM_not_oof {m : Mgr} (hS : InvS m) {e : Nat} {te : RE}
    (r : treeOf m.tbl e = some te) {fuel : Nat} (hf : fuelFor te ≤ fuel) :
    InvS (m.getStringPathM fuel e).1 ∧ (m.getStringPathM fuel e).2 ≠ .outOfFuel := by
  obtain ⟨h1, h2⟩ := pathLoopM_not_oof (subClosed_atoms te) (sigma_mem_atoms te) fuel
    (q := [⟨e, none⟩]) (i := 0) (sinv_init hS (goodId_self r))
  exact ⟨h1, h2 (by simp) (by unfold fuelFor at hf; omega)⟩

theorem getStringM_not_oof {m : Mgr} (hS : InvS m) {e : Nat} {te : RE}
    (r : treeOf m.tbl e = some te) {fuel : Nat} (hf : fuelFor te ≤ fuel) :
    InvS (m.getStringM fuel e).1 ∧ (m.getStringM fuel e).2 ≠ .outOfFuel := by
  obtain ⟨h1, h2⟩ := getStringPathM_not_oof hS r hf
  unfold Mgr.getStringM
  cases hr : m.getStringPathM fuel e with
  | mk m1 ro =>
    rw [hr] at h1 h2
    cases ro with
    | outOfFuel => exact absurd rfl h2
    | panic => exact ⟨h1, by simp⟩
    | ok o =>
      cases o with
      | none => exact ⟨h1, by simp⟩
      | some path =>
        simp only
        split
        · exact ⟨h1, by simp⟩
        · exact ⟨h1, by simp⟩

theorem compileWithBoundM_not_oof {m : Mgr} (hS : InvS m) {e : Nat} {te : RE}
    (r : treeOf m.tbl e = some te) {fuel : Nat} (hf : fuelFor te ≤ fuel) (maxStates : Nat) :
    InvS (m.compileWithBoundM fuel e maxStates).1 ∧
      (m.compileWithBoundM fuel e maxStates).2 ≠ .outOfFuel := by
  unfold Mgr.compileWithBoundM
  split
  · exact ⟨hS, by simp⟩
  · obtain ⟨h1, h2⟩ := compileLoopM_not_oof (subClosed_atoms te) (sigma_mem_atoms te) maxStates fuel
      (i := 0) (b := Builder.new 0) (sinv_init hS (goodId_self r))
    have h3 := h2 (by simp) (by unfold fuelFor at hf; omega)
    cases hr : Mgr.compileLoopM maxStates fuel m [e] 0 (Builder.new 0) with
    | mk m1 ro =>
      rw [hr] at h1 h3
      cases ro with
      | outOfFuel => exact absurd rfl h3
      | panic => exact ⟨h1, by simp⟩
      | ok o =>
        cases o with
        | none => exact ⟨h1, by simp⟩
        | some b =>
          simp only
          split
          · exact ⟨h1, by simp⟩
          · exact ⟨h1, by simp⟩

theorem tryCompileM_not_oof {m : Mgr} (hS : InvS m) {e : Nat} {te : RE}
    (r : treeOf m.tbl e = some te) {fuel : Nat} (hf : fuelFor te ≤ fuel) (maxStates : Nat) :
    InvS (m.tryCompileM fuel e maxStates).1 ∧ (m.tryCompileM fuel e maxStates).2 ≠ .outOfFuel :=
  compileWithBoundM_not_oof hS r hf maxStates

theorem compileM_not_oof {m : Mgr} (hS : InvS m) {e : Nat} {te : RE}
    (r : treeOf m.tbl e = some te) {fuel : Nat} (hf : fuelFor te ≤ fuel) :
    InvS (m.compileM fuel e).1 ∧ (m.compileM fuel e).2 ≠ .outOfFuel := by
  obtain ⟨h1, h2⟩ := compileWithBoundM_not_oof hS r hf (fuel + 1)
  unfold Mgr.compileM
  cases hr : m.compileWithBoundM fuel e (fuel + 1) with
  | mk m1 ro =>
    rw [hr] at h1 h2
    cases ro with
    | outOfFuel => exact absurd rfl h2
    | panic => exact ⟨h1, by simp⟩
    | ok o =>
      cases o with
      | none => exact ⟨h1, by simp⟩
      | some b => exact ⟨h1, by simp⟩


/-! ### `start_char` -/

/-- with fuel `≥ N`, `start_char` on a term with tree `te` keeps the invariant and does not run out
    of fuel, from every state -/
def SCP (te : RE) (N : Nat) : Prop :=
  ∀ fuel, N ≤ fuel → ∀ (k : Nat) (m : Mgr) (e c : Nat), InvS m → treeOf m.tbl e = some te → e < k →
    InvS (Mgr.startCharF fuel k m e c).1 ∧ (Mgr.startCharF fuel k m e c).2 ≠ .outOfFuel

theorem SCP.mono {te : RE} {N N' : Nat} (h : SCP te N) (hle : N ≤ N') : SCP te N' :=
  fun fuel hf => h fuel (Nat.le_trans hle hf)

theorem scp_list {ts : List RE} (h : ∀ t ∈ ts, ∃ N, SCP t N) : ∃ N, ∀ t ∈ ts, SCP t N := by
  induction ts with
  | nil => exact ⟨0, fun _ h => by cases h⟩
  | cons t ts ih =>
    obtain ⟨N1, h1⟩ := h t (List.mem_cons_self ..)
    obtain ⟨N2, h2⟩ := ih (fun x hx => h x (List.mem_cons_of_mem _ hx))
    refine ⟨max N1 N2, fun x hx => ?_⟩
    rcases List.mem_cons.1 hx with rfl | hx
    · exact h1.mono (Nat.le_max_left _ _)
    · exact (h2 x hx).mono (Nat.le_max_right _ _)

theorem anyWith_not_oof {f : Mgr → Nat → Mgr × Res Bool} :
    ∀ {l : List Nat} {ts : List RE} {m : Mgr}, InvS m →
    List.Forall₂ (fun i e => treeOf m.tbl i = some e) l ts →
    (∀ x ∈ l, ∀ tx ∈ ts, ∀ m', InvS m' → treeOf m'.tbl x = some tx →
      InvS (f m' x).1 ∧ m'.tbl <+: (f m' x).1.tbl ∧ (f m' x).2 ≠ .outOfFuel) →
    InvS (Mgr.anyWith f m l).1 ∧ (Mgr.anyWith f m l).2 ≠ .outOfFuel := by
  intro l
  induction l with
  | nil => intro ts m hS _ _; exact ⟨hS, by simp [Mgr.anyWith]⟩
  | cons x xs ih =>
    intro ts m hS hfa H
    cases hfa with
    | cons hx hxs =>
      rename_i tx txs
      obtain ⟨h1, h2, h3⟩ := H x (List.mem_cons_self ..) tx (List.mem_cons_self ..) m hS hx
      simp only [Mgr.anyWith]
      cases hr : f m x with
      | mk m1 ro =>
        rw [hr] at h1 h2 h3
        cases ro with
        | outOfFuel => exact absurd rfl h3
        | panic => exact ⟨h1, by simp⟩
        | ok b =>
          cases b with
          | true => exact ⟨h1, by simp⟩
          | false =>
            simp only
            exact ih (m := m1) h1 (forall₂_prefix h2 hxs)
              (fun y hy ty hty => H y (List.mem_cons_of_mem _ hy) ty (List.mem_cons_of_mem _ hty))

/-- **`start_char` on the stateful manager**: for every tree there is a fuel from which on the
    search does not run out of it, whatever the state -/
theorem startCharF_scp : ∀ te : RE, ∃ N, SCP te N := by
  intro te
  induction te using Deriv.re_ind with
  | h_empty =>
    refine ⟨0, ?_⟩
    intro fuel _ k m e c hS r hlt
    obtain ⟨k', rfl⟩ : ∃ k', k = k' + 1 := ⟨k - 1, by omega⟩
    obtain ⟨n, hn, ht⟩ := treeOf_node hS.inv.ok.children r
    rw [toRE_eq_empty] at ht; subst ht
    simp only [Mgr.startCharF, Mgr.expr, hn]
    exact ⟨hS, by simp⟩
  | h_eps =>
    refine ⟨0, ?_⟩
    intro fuel _ k m e c hS r hlt
    obtain ⟨k', rfl⟩ : ∃ k', k = k' + 1 := ⟨k - 1, by omega⟩
    obtain ⟨n, hn, ht⟩ := treeOf_node hS.inv.ok.children r
    rw [toRE_eq_epsilon] at ht; subst ht
    simp only [Mgr.startCharF, Mgr.expr, hn]
    exact ⟨hS, by simp⟩
  | h_range s =>
    refine ⟨0, ?_⟩
    intro fuel _ k m e c hS r hlt
    obtain ⟨k', rfl⟩ : ∃ k', k = k' + 1 := ⟨k - 1, by omega⟩
    obtain ⟨n, hn, ht⟩ := treeOf_node hS.inv.ok.children r
    rw [toRE_eq_range] at ht; subst ht
    simp only [Mgr.startCharF, Mgr.expr, hn]
    exact ⟨hS, by simp⟩
  | h_concat a b _ _ =>
    refine ⟨fuelFor (.concat a b), ?_⟩
    intro fuel hf k m e c hS r hlt
    obtain ⟨k', rfl⟩ : ∃ k', k = k' + 1 := ⟨k - 1, by omega⟩
    obtain ⟨n, hn, ht⟩ := treeOf_node hS.inv.ok.children r
    rw [toRE_eq_concat] at ht
    obtain ⟨x, y, rfl, _, _⟩ := ht
    simp only [Mgr.startCharF, Mgr.expr, hn]
    exact startViaDerivM_not_oof (subClosed_atoms _) (sigma_mem_atoms _) hS (goodId_self r) c hf
  | h_loop x ρ ih =>
    obtain ⟨N, hN⟩ := ih
    refine ⟨N, ?_⟩
    intro fuel hf k m e c hS r hlt
    obtain ⟨k', rfl⟩ : ∃ k', k = k' + 1 := ⟨k - 1, by omega⟩
    obtain ⟨n, hn, ht⟩ := treeOf_node hS.inv.ok.children r
    rw [toRE_eq_loop] at ht
    obtain ⟨e1, rfl, hx⟩ := ht
    have h1 : e1 < e := hS.inv.ok.children e _ hn e1 (by simp [children])
    simp only [Mgr.startCharF, Mgr.expr, hn]
    exact hN fuel hf k' m e1 c hS hx (by omega)
  | h_compl x _ =>
    refine ⟨fuelFor (.compl x), ?_⟩
    intro fuel hf k m e c hS r hlt
    obtain ⟨k', rfl⟩ : ∃ k', k = k' + 1 := ⟨k - 1, by omega⟩
    obtain ⟨n, hn, ht⟩ := treeOf_node hS.inv.ok.children r
    rw [toRE_eq_compl] at ht
    obtain ⟨x', rfl, _⟩ := ht
    simp only [Mgr.startCharF, Mgr.expr, hn]
    exact startViaDerivM_not_oof (subClosed_atoms _) (sigma_mem_atoms _) hS (goodId_self r) c hf
  | h_inter l _ =>
    refine ⟨fuelFor (.inter l), ?_⟩
    intro fuel hf k m e c hS r hlt
    obtain ⟨k', rfl⟩ : ∃ k', k = k' + 1 := ⟨k - 1, by omega⟩
    obtain ⟨n, hn, ht⟩ := treeOf_node hS.inv.ok.children r
    rw [toRE_eq_inter] at ht
    obtain ⟨l', rfl, _⟩ := ht
    simp only [Mgr.startCharF, Mgr.expr, hn]
    exact startViaDerivM_not_oof (subClosed_atoms _) (sigma_mem_atoms _) hS (goodId_self r) c hf
  | h_union ts ih =>
    obtain ⟨N, hN⟩ := scp_list ih
    refine ⟨N, ?_⟩
    intro fuel hf k m e c hS r hlt
    obtain ⟨k', rfl⟩ : ∃ k', k = k' + 1 := ⟨k - 1, by omega⟩
    obtain ⟨n, hn, ht⟩ := treeOf_node hS.inv.ok.children r
    rw [toRE_eq_union] at ht
    obtain ⟨l, rfl, hl⟩ := ht
    rw [optMapM_eq_some_iff] at hl
    have hch := hS.inv.ok.children e _ hn
    simp only [Mgr.startCharF, Mgr.expr, hn]
    apply anyWith_not_oof hS hl
    intro x hx tx htx m' hS' rx
    have hxe : x < e := hch x (by simpa [children] using hx)
    obtain ⟨j1, j2⟩ := hN tx htx fuel hf k' m' x c hS' rx (by omega)
    exact ⟨j1, (startCharF_post fuel k' c hS'.inv (by omega) rx).ext, j2⟩

theorem startCharM_not_oof (te : RE) : ∃ N, ∀ fuel, N ≤ fuel → ∀ (m : Mgr) (e c : Nat), InvS m →
    treeOf m.tbl e = some te →
    InvS (m.startCharM fuel e c).1 ∧ (m.startCharM fuel e c).2 ≠ .outOfFuel := by
  obtain ⟨N, hN⟩ := startCharF_scp te
  exact ⟨N, fun fuel hf m e c hS r => hN fuel hf (e + 1) m e c hS r (by omega)⟩

/-! ### the remaining allocating operations keep the strengthened invariant -/

theorem invS_runProg {m : Mgr} (hS : InvS m) {p : Prog} {m' : Mgr} {r : Nat}
    (hr : m.runProg p = some (m', r)) : InvS m' := by
  obtain ⟨e, hp, _, _⟩ := MgrProg.runProg_ok p m m' r hS.inv.ok hr
  exact ⟨inv_of_post hS.inv hp, flat_runProg p m m' r hS.inv.ok hS.flat hr⟩

theorem invS_derivM {m : Mgr} (hS : InvS m) {e : Nat} {te : RE} (r : treeOf m.tbl e = some te)
    (c : Nat) : InvS (m.derivM e c).1 :=
  ⟨(dpost_derivM hS.inv r c).inv, flat_derivM hS.inv hS.flat r c⟩

theorem invS_cachedDerivM {m : Mgr} (hS : InvS m) {e : Nat} {te : RE}
    (r : treeOf m.tbl e = some te) {cid : ClassId} {res : Mgr × Nat}
    (h : m.cachedDerivM e cid = some res) : InvS res.1 :=
  (cachedDerivM_good (subClosed_atoms te) (sigma_mem_atoms te) hS (goodId_self r) h).1

theorem invS_strDerivativeM : ∀ (s : List Nat) {m : Mgr} {e : Nat} {te : RE}, InvS m →
    treeOf m.tbl e = some te → InvS (m.strDerivativeM e s).1 := by
  intro s
  induction s with
  | nil => intro m e te hS _; exact hS
  | cons c cs ih =>
    intro m e te hS r
    rw [strDerivativeM_cons]
    exact ih (invS_derivM hS r c) (dpost_derivM hS.inv r c).here

theorem invS_strInReM {m : Mgr} (hS : InvS m) {e : Nat} {te : RE} (r : treeOf m.tbl e = some te)
    (s : List Nat) : InvS (m.strInReM s e).1 := invS_strDerivativeM s hS r

theorem invS_matchFromM : ∀ (rest : List Nat) {m : Mgr} {p : Nat} {tp : RE} (n : Nat), InvS m →
    treeOf m.tbl p = some tp → InvS (m.matchFromM p rest n).1 := by
  intro rest
  induction rest with
  | nil => intro m p tp n hS _; exact hS
  | cons c rest ih =>
    intro m p tp n hS r
    have h1 : InvS (m.charDerivativeM p c).1 := invS_derivM hS r c
    have t1 := (dpost_derivM hS.inv r c).here
    simp only [Mgr.matchFromM]
    split
    · exact h1
    · split
      · exact h1
      · exact ih (n + 1) h1 t1

theorem invS_searchFromM {pat : Nat} {tp : RE} : ∀ (s : List Nat) {m : Mgr} (i : Nat), InvS m →
    treeOf m.tbl pat = some tp → InvS (Mgr.searchFromM pat m s i).1 := by
  intro s
  induction s with
  | nil => intro m i hS _; exact hS
  | cons c rest ih =>
    intro m i hS r
    have p1 := matchFromM_post (c :: rest) (m := m) 0 hS.inv r
    have h1 := invS_matchFromM (c :: rest) 0 hS r
    simp only [Mgr.searchFromM]
    generalize m.matchFromM pat (c :: rest) 0 = r1 at p1 h1 ⊢
    obtain ⟨m1, lo⟩ := r1
    cases lo with
    | some len => exact h1
    | none => exact ih (i + 1) h1 (treeOf_prefix p1.ext r)

theorem invS_naiveReSearchM {m : Mgr} (hS : InvS m) {pat : Nat} {tp : RE}
    (r : treeOf m.tbl pat = some tp) (s : List Nat) (k : Nat) (allowEmpty : Bool) :
    InvS (m.naiveReSearchM pat s k allowEmpty).1 := by
  unfold Mgr.naiveReSearchM
  split
  · exact hS
  · exact invS_searchFromM _ k hS r

theorem invS_strReplaceReM {m : Mgr} (hS : InvS m) {pat : Nat} {tp : RE}
    (r : treeOf m.tbl pat = some tp) (s1 s2 : List Nat) : InvS (m.strReplaceReM s1 pat s2).1 := by
  have h1 := invS_naiveReSearchM hS r s1 0 true
  unfold Mgr.strReplaceReM
  generalize m.naiveReSearchM pat s1 0 true = r1 at h1 ⊢
  obtain ⟨m1, o⟩ := r1
  cases o with
  | none => exact h1
  | some ij => exact h1

theorem invS_replaceAllLoopM {pat : Nat} {tp : RE} (s1 s2 : List Nat) :
    ∀ (fuel : Nat) {m : Mgr} (i : Nat) (x : List Nat), InvS m → treeOf m.tbl pat = some tp →
    InvS (Mgr.replaceAllLoopM pat s1 s2 fuel m i x).1 := by
  intro fuel
  induction fuel with
  | zero => intro m i x hS _; exact hS
  | succ fuel ih =>
    intro m i x hS r
    have p1 := naiveReSearchM_post hS.inv r s1 i false
    have h1 := invS_naiveReSearchM hS r s1 i false
    simp only [Mgr.replaceAllLoopM]
    generalize m.naiveReSearchM pat s1 i false = r1 at p1 h1 ⊢
    obtain ⟨m1, o⟩ := r1
    cases o with
    | none => exact h1
    | some jk => exact ih _ _ h1 (treeOf_prefix p1.ext r)

theorem invS_strReplaceReAllM {m : Mgr} (hS : InvS m) {pat : Nat} {tp : RE}
    (r : treeOf m.tbl pat = some tp) (s1 s2 : List Nat) :
    InvS (m.strReplaceReAllM s1 pat s2).1 := invS_replaceAllLoopM s1 s2 _ 0 [] hS r

end MgrTerm
end Smt
