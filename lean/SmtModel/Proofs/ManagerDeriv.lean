/-
  Helper lemmas for Props/C07Refine.lean, part 4: the full invariant `Inv` of the stateful manager
  (table + derivative cache) and the refinement of the CACHED derivative
  (`compute_derivative` / `deriv` / `cached_deriv` with `deriv_cache`) to the cache-free tree model
  `RE.computeDeriv` / `RE.deriv` of Model/Deriv.lean.

  The value of a derivative depends on the id assignment (`union` / `inter` sort by id), and the
  terms it sorts are allocated WHILE it is computed; the statements are therefore of the form
  "in every later table `T`, the returned id holds `computeDeriv (ordOf T) …`" (`DPost`).
-/
import SmtModel.Proofs.ManagerSetOps

namespace Smt
namespace MgrDeriv
open Smt RE Node MgrInv MgrCons MgrSet

/-! ### class representatives -/

theorem classOfCharAux_get (l : List CharSet) (x i j k : Nat)
    (h : CharPartition.classOfCharAux l x i j = .interval k) : ∃ s, l[k]? = some s := by
  fun_induction CharPartition.classOfCharAux l x i j with
  | case1 i j hlt m hm => cases h
  | case2 i j hlt m s hs hc => exact ⟨s, (ClassId.interval.inj h) ▸ hs⟩
  | case3 i j hlt m s hs hc hb ih => exact ih h
  | case4 i j hlt m s hs hc hb ih => exact ih h
  | case5 i j hlt => cases h

/-- `RE.classRep` (Model/Deriv.lean) is `pick_class_rep(class_of_char(c))` -/
theorem classRep_eq_repOf (p : CharPartition) (c : Nat) :
    classRep p c = Mgr.repOf p (p.classOfChar c) := by
  unfold classRep Mgr.repOf
  cases hc : p.classOfChar c with
  | complement => rfl
  | interval i =>
    obtain ⟨s, hs⟩ := classOfCharAux_get p.list c 0 p.len i hc
    simp only [hs]

theorem pickInClass_eq_repOf {p : CharPartition} {cid : ClassId} {c : Nat}
    (h : p.pickInClass cid = some c) : c = Mgr.repOf p cid := by
  cases cid with
  | interval i =>
    simp only [CharPartition.pickInClass, CharPartition.pick, Option.map_eq_some_iff] at h
    obtain ⟨s, hs, rfl⟩ := h
    simp only [Mgr.repOf, hs]
  | complement =>
    simp only [CharPartition.pickInClass] at h
    split at h
    · cases h
    · cases h; rfl

/-! ### the invariant -/

/-- **cache coherence**: every cached entry `(e, cid) ↦ d` is what a recomputation would return,
    now and in every later state (whatever ids are handed out later) -/
def CacheOK (m : Mgr) : Prop :=
  ∀ e cid d, ((e, cid), d) ∈ m.cache →
    ∃ te, treeOf m.tbl e = some te ∧
      ∀ T, m.tbl <+: T → TableOK T →
        treeOf T d = some (computeDeriv (ordOf T) te (Mgr.repOf te.derivClass cid))

/-- **the invariant of the stateful manager**: the table is a reachable store (`TableOK`: six
    built-ins, even length, no duplicate node, x/¬x at 2k/2k+1 with the two built-in exceptions,
    children smaller — hence `toTree` total and injective) and the cache is coherent -/
structure Inv (m : Mgr) : Prop where
  ok : TableOK m.tbl
  cache : CacheOK m

theorem inv_new : Inv Mgr.new := ⟨tableOK_new, fun _ _ _ h => by cases h⟩

theorem cacheOK_mono {m m' : Mgr} (hc : CacheOK m) (hp : m.tbl <+: m'.tbl)
    (hcache : m'.cache = m.cache) : CacheOK m' := by
  intro e cid d hmem
  rw [hcache] at hmem
  obtain ⟨te, hte, hT⟩ := hc e cid d hmem
  exact ⟨te, treeOf_prefix hp hte, fun T hpT hok => hT T (List.IsPrefix.trans hp hpT) hok⟩

theorem inv_of_post {m m' : Mgr} {r : Nat} {e : RE} (hI : Inv m) (hp : Post m m' r e) : Inv m' :=
  ⟨hp.ok, cacheOK_mono hI.cache hp.ext hp.cache⟩

theorem cacheGet_mem {m : Mgr} {e : Nat} {cid : ClassId} {d : Nat}
    (h : m.cacheGet e cid = some d) : ((e, cid), d) ∈ m.cache := by
  simp only [Mgr.cacheGet, Option.map_eq_some_iff] at h
  obtain ⟨kv, hkv, rfl⟩ := h
  have h1 := List.mem_of_find?_eq_some hkv
  have h2 := List.find?_some hkv
  simp only [decide_eq_true_eq] at h2
  rw [← h2]
  exact h1

/-! ### postcondition of a derivative computation -/

/-- from `m` to `m'`, returning `r`: in every later table `T` the id `r` holds `E (ordOf T)` -/
structure DPost (m m' : Mgr) (r : Nat) (E : (RE → Nat) → RE) : Prop where
  inv : Inv m'
  ext : m.tbl <+: m'.tbl
  rep : ∀ T, m'.tbl <+: T → TableOK T → treeOf T r = some (E (ordOf T))

theorem DPost.here {m m' : Mgr} {r : Nat} {E : (RE → Nat) → RE} (h : DPost m m' r E) :
    treeOf m'.tbl r = some (E (ordOf m'.tbl)) := h.rep _ (List.prefix_refl _) h.inv.ok

/-- the value does not depend on which later table provides the ids -/
theorem DPost.const {m m' : Mgr} {r : Nat} {E : (RE → Nat) → RE} (h : DPost m m' r E)
    {T : List Node} (hp : m'.tbl <+: T) (hT : TableOK T) : E (ordOf T) = E (ordOf m'.tbl) := by
  have h1 := h.rep T hp hT
  have h2 := treeOf_prefix hp h.here
  rw [h1] at h2
  exact Option.some.inj h2

theorem DPost.trans {m m1 m' : Mgr} {r : Nat} {E : (RE → Nat) → RE} (hp : m.tbl <+: m1.tbl)
    (h : DPost m1 m' r E) : DPost m m' r E :=
  ⟨h.inv, List.IsPrefix.trans hp h.ext, h.rep⟩

/-- a constructor call whose pure value `E ord` is the same for every later `ord` -/
theorem dpost_of_good {op : Mgr → Mgr × Nat} {m : Mgr} {E : (RE → Nat) → RE} (hI : Inv m)
    (hg : Good op m (E (ordOf m.tbl)))
    (hE : ∀ T, TableOK T → m.tbl <+: T → E (ordOf T) = E (ordOf m.tbl)) :
    DPost m (op m).1 (op m).2 E := by
  refine ⟨inv_of_post hI hg.post, hg.post.ext, ?_⟩
  intro T hp hT
  rw [hE T hT (List.IsPrefix.trans hg.post.ext hp)]
  exact treeOf_prefix hp hg.post.rep

/-! ### `deriv` through the cache -/

/-- if `compute` is a correct `compute_derivative` for the term `e`, then the cached `deriv(e, c)`
    returns `RE.deriv`: a hit returns what a recomputation would, a miss keeps the cache coherent -/
theorem dpost_derivWith {compute : Mgr → Nat → Nat → Mgr × Nat} {e : Nat} {te : RE}
    (Hc : ∀ m c, Inv m → treeOf m.tbl e = some te →
      DPost m (compute m e c).1 (compute m e c).2 (fun ord => computeDeriv ord te c))
    {m : Mgr} (hI : Inv m) (r : treeOf m.tbl e = some te) (c : Nat) :
    DPost m (Mgr.derivWith compute m e c).1 (Mgr.derivWith compute m e c).2
      (fun ord => RE.deriv ord te c) := by
  have hdc : m.derivClass e = te.derivClass := by simp only [Mgr.derivClass, Mgr.toTree, r]
  unfold Mgr.derivWith
  simp only [hdc]
  cases hget : m.cacheGet e (te.derivClass.classOfChar c) with
  | some d =>
    simp only
    obtain ⟨te', hte', hT⟩ := hI.cache _ _ _ (cacheGet_mem hget)
    rw [r] at hte'; cases hte'
    refine ⟨hI, List.prefix_refl _, ?_⟩
    intro T hp hok
    rw [hT T hp hok]
    simp only [RE.deriv, classRep_eq_repOf]
  | none =>
    simp only
    have hp := Hc m (Mgr.repOf te.derivClass (te.derivClass.classOfChar c)) hI r
    refine ⟨⟨hp.inv.ok, ?_⟩, hp.ext, ?_⟩
    · intro e' cid' d' hmem
      simp only [Mgr.cacheInsert, List.mem_cons] at hmem
      rcases hmem with heq | hmem
      · cases heq
        exact ⟨te, treeOf_prefix hp.ext r, fun T hpT hok => hp.rep T hpT hok⟩
      · exact hp.inv.cache e' cid' d' hmem
    · intro T hpT hok
      have := hp.rep T hpT hok
      simp only [RE.deriv, classRep_eq_repOf]
      exact this

/-! ### `deriv_list` -/

/-- list version of `DPost` -/
structure DPostL (m m' : Mgr) (rs : List Nat) (Es : (RE → Nat) → List RE) : Prop where
  inv : Inv m'
  ext : m.tbl <+: m'.tbl
  rep : ∀ T, m'.tbl <+: T → TableOK T →
    List.Forall₂ (fun i e => treeOf T i = some e) rs (Es (ordOf T))

theorem forall₂_fun {T : List Node} {rs : List Nat} {a b : List RE}
    (ha : List.Forall₂ (fun i e => treeOf T i = some e) rs a)
    (hb : List.Forall₂ (fun i e => treeOf T i = some e) rs b) : a = b := by
  induction ha generalizing b with
  | nil => cases hb; rfl
  | cons h1 _ ih =>
    cases hb with
    | cons h1' h2' =>
      rw [h1] at h1'
      rw [Option.some.inj h1', ih h2']

theorem forall₂_prefix {t T : List Node} (hp : t <+: T) {rs : List Nat} {a : List RE}
    (ha : List.Forall₂ (fun i e => treeOf t i = some e) rs a) :
    List.Forall₂ (fun i e => treeOf T i = some e) rs a := by
  induction ha with
  | nil => exact .nil
  | cons h1 _ ih => exact .cons (treeOf_prefix hp h1) ih

theorem forall₂_treeD {t : List Node} {rs : List Nat} {a : List RE}
    (ha : List.Forall₂ (fun i e => treeOf t i = some e) rs a) :
    (∀ i ∈ rs, i < t.length) ∧ rs.map (treeD t) = a := by
  induction ha with
  | nil => exact ⟨fun _ h => (by cases h), rfl⟩
  | cons h1 _ ih =>
    refine ⟨?_, ?_⟩
    · intro i hi
      rcases List.mem_cons.1 hi with rfl | hi
      · exact treeOf_lt h1
      · exact ih.1 i hi
    · simp only [List.map_cons, treeD_eq h1, ih.2]

theorem DPostL.here {m m' : Mgr} {rs : List Nat} {Es : (RE → Nat) → List RE}
    (h : DPostL m m' rs Es) :
    List.Forall₂ (fun i e => treeOf m'.tbl i = some e) rs (Es (ordOf m'.tbl)) :=
  h.rep _ (List.prefix_refl _) h.inv.ok

theorem DPostL.const {m m' : Mgr} {rs : List Nat} {Es : (RE → Nat) → List RE}
    (h : DPostL m m' rs Es) {T : List Node} (hp : m'.tbl <+: T) (hT : TableOK T) :
    Es (ordOf T) = Es (ordOf m'.tbl) :=
  forall₂_fun (h.rep T hp hT) (forall₂_prefix hp h.here)

theorem dpostL_derivListWith {d : Mgr → Nat → Mgr × Nat} {c : Nat} :
    ∀ {l : List Nat} {ts : List RE} {m : Mgr},
    (∀ x ∈ l, ∀ tx m, Inv m → treeOf m.tbl x = some tx →
      DPost m (d m x).1 (d m x).2 (fun ord => RE.deriv ord tx c)) →
    Inv m → List.Forall₂ (fun i e => treeOf m.tbl i = some e) l ts →
    DPostL m (Mgr.derivListWith d m l).1 (Mgr.derivListWith d m l).2
      (fun ord => ts.map (fun t => RE.deriv ord t c)) := by
  intro l
  induction l with
  | nil =>
    intro ts m _ hI hf
    cases hf
    exact ⟨hI, List.prefix_refl _, fun _ _ _ => .nil⟩
  | cons x xs ih =>
    intro ts m hd hI hf
    cases hf with
    | cons hx hxs =>
      rename_i tx txs
      have p1 := hd x (List.mem_cons_self ..) tx m hI hx
      have p2 := ih (m := (d m x).1) (fun y hy => hd y (List.mem_cons_of_mem _ hy)) p1.inv
        (forall₂_prefix p1.ext hxs)
      simp only [Mgr.derivListWith]
      refine ⟨p2.inv, List.IsPrefix.trans p1.ext p2.ext, ?_⟩
      intro T hp hok
      simp only [List.map_cons]
      exact .cons (p1.rep T (List.IsPrefix.trans p2.ext hp) hok) (p2.rep T hp hok)

/-! ### `compute_derivative` -/

theorem derivList_map (ord : RE → Nat) (l : List RE) (c : Nat) :
    derivList ord l c = l.map (fun t => RE.deriv ord t c) := by
  rw [Deriv.derivList_eq_map]; rfl

/-- **`compute_derivative`, with every inner `deriv` going through the cache, refines
    `RE.computeDeriv`** -/
theorem dpost_computeDerivF : ∀ (fuel : Nat) {m : Mgr} {e : Nat} {te : RE} (c : Nat), Inv m →
    e < fuel → treeOf m.tbl e = some te →
    DPost m (Mgr.computeDerivF fuel m e c).1 (Mgr.computeDerivF fuel m e c).2
      (fun ord => computeDeriv ord te c) := by
  intro fuel
  induction fuel with
  | zero => intro m e te c _ hlt; omega
  | succ fuel ih =>
    intro m e te c hI hlt r
    have h := hI.ok
    obtain ⟨n, hn, ht⟩ := treeOf_node h.children r
    have hch := h.children e _ hn
    -- the inner `deriv(·, c)` on a child
    have hd : ∀ x, x < e → ∀ tx m', Inv m' → treeOf m'.tbl x = some tx →
        DPost m' (Mgr.derivWith (Mgr.computeDerivF fuel) m' x c).1
          (Mgr.derivWith (Mgr.computeDerivF fuel) m' x c).2 (fun ord => RE.deriv ord tx c) := by
      intro x hx tx m' hI' rx
      exact dpost_derivWith (fun m'' c'' hI'' r'' => ih c'' hI'' (by omega) r'') hI' rx c
    have hfold : ∀ (ord : RE → Nat) (t : RE), computeDeriv ord t (classRep t.derivClass c) =
        RE.deriv ord t c := fun _ _ => rfl
    simp only [Mgr.computeDerivF, Mgr.expr, hn]
    cases n with
    | empty =>
      simp only [Node.toRE, Option.some.injEq] at ht; subst ht
      simp only [computeDeriv]
      exact dpost_of_good (E := fun _ => .empty) hI (good_ret h (tree_emptyId h)) (fun _ _ _ => rfl)
    | epsilon =>
      simp only [Node.toRE, Option.some.injEq] at ht; subst ht
      simp only [computeDeriv]
      exact dpost_of_good (E := fun _ => .empty) hI (good_ret h (tree_emptyId h)) (fun _ _ _ => rfl)
    | range a b =>
      simp only [Node.toRE, Option.some.injEq] at ht; subst ht
      simp only [computeDeriv]
      by_cases hcc : (CharSet.mk a b).contains c = true
      · simp only [hcc, if_true]
        exact dpost_of_good (E := fun _ => .epsilon) hI (good_ret h (tree_epsilonId h))
          (fun _ _ _ => rfl)
      · simp only [hcc, Bool.false_eq_true, if_false]
        exact dpost_of_good (E := fun _ => .empty) hI (good_ret h (tree_emptyId h))
          (fun _ _ _ => rfl)
    | concat e1 e2 =>
      simp only [Node.toRE, Option.bind_eq_some_iff, Option.map_eq_some_iff] at ht
      obtain ⟨ta, ha, tb, hb, rfl⟩ := ht
      have h1 : e1 < e := hch e1 (by simp [children])
      have h2 : e2 < e := hch e2 (by simp [children])
      simp only [computeDeriv, rep_nullable ha, hfold]
      -- d1 = deriv(e1, c)
      have p1 := hd e1 h1 ta m hI ha
      generalize Mgr.derivWith (Mgr.computeDerivF fuel) m e1 c = r1 at p1 ⊢
      -- d1 . e2
      have g2 := good_concat p1.inv.ok p1.here (treeOf_prefix p1.ext hb)
      have p2 : DPost m (r1.1.concatM r1.2 e2).1 (r1.1.concatM r1.2 e2).2
          (fun ord => mkConcat (RE.deriv ord ta c) tb) := by
        refine ⟨inv_of_post p1.inv g2.post, List.IsPrefix.trans p1.ext g2.post.ext, ?_⟩
        intro T hp hok
        have := p1.const (List.IsPrefix.trans g2.post.ext hp) hok
        rw [this]
        exact treeOf_prefix hp g2.post.rep
      by_cases hnl : ta.nullable = true
      · simp only [hnl, if_true]
        generalize r1.1.concatM r1.2 e2 = r2 at p2 ⊢
        have p3 := hd e2 h2 tb r2.1 p2.inv (treeOf_prefix p2.ext hb)
        generalize Mgr.derivWith (Mgr.computeDerivF fuel) r2.1 e2 c = r3 at p3 ⊢
        obtain ⟨g4, l4⟩ := good_union p3.inv.ok (treeOf_prefix p3.ext p2.here) p3.here
        refine ⟨inv_of_post p3.inv g4.post,
          List.IsPrefix.trans p2.ext (List.IsPrefix.trans p3.ext g4.post.ext), ?_⟩
        intro T hp hok
        have hp3 : r3.1.tbl <+: T := List.IsPrefix.trans g4.post.ext hp
        have c2 := p2.const (List.IsPrefix.trans p3.ext hp3) hok
        have c3 := p3.const hp3 hok
        rw [c2, c3, l4 T hok hp3]
        exact treeOf_prefix hp g4.post.rep
      · simp only [hnl, Bool.false_eq_true, if_false]
        exact p2
    | loop e1 lo hi =>
      simp only [Node.toRE, Option.map_eq_some_iff] at ht
      obtain ⟨ta, ha, rfl⟩ := ht
      have h1 : e1 < e := hch e1 (by simp [children])
      simp only [computeDeriv, hfold]
      have p1 := hd e1 h1 ta m hI ha
      generalize Mgr.derivWith (Mgr.computeDerivF fuel) m e1 c = r1 at p1 ⊢
      have g2 := good_mkLoop p1.inv.ok (treeOf_prefix p1.ext ha) (LoopRange.mk lo hi).shift
      generalize hr2 : r1.1.mkLoopM e1 (LoopRange.mk lo hi).shift = r2 at g2 ⊢
      have g2p : Post r1.1 r2.1 r2.2 (mkLoop ta (LoopRange.mk lo hi).shift) := by
        rw [← hr2]; exact g2.post
      have g3 := good_concat g2p.ok (treeOf_prefix g2p.ext p1.here) g2p.rep
      refine ⟨inv_of_post (inv_of_post p1.inv g2p) g3.post,
        List.IsPrefix.trans p1.ext (List.IsPrefix.trans g2p.ext g3.post.ext), ?_⟩
      intro T hp hok
      have := p1.const (List.IsPrefix.trans g2p.ext (List.IsPrefix.trans g3.post.ext hp)) hok
      rw [this]
      exact treeOf_prefix hp g3.post.rep
    | compl e1 =>
      simp only [Node.toRE, Option.map_eq_some_iff] at ht
      obtain ⟨ta, ha, rfl⟩ := ht
      have h1 : e1 < e := hch e1 (by simp [children])
      simp only [computeDeriv, hfold]
      have p1 := hd e1 h1 ta m hI ha
      generalize Mgr.derivWith (Mgr.computeDerivF fuel) m e1 c = r1 at p1 ⊢
      refine ⟨p1.inv, p1.ext, ?_⟩
      intro T hp hok
      exact treeOf_xor hok (p1.rep T hp hok)
    | inter l =>
      simp only [Node.toRE, Option.map_eq_some_iff] at ht
      obtain ⟨ts, hts, rfl⟩ := ht
      rw [optMapM_eq_some_iff] at hts
      simp only [computeDeriv, derivList_map]
      have pl := dpostL_derivListWith (d := fun m' e' => Mgr.derivWith (Mgr.computeDerivF fuel) m' e' c)
        (c := c) (l := l) (ts := ts) (m := m)
        (fun x hx tx m' hI' rx => hd x (hch x (by simpa [children] using hx)) tx m' hI' rx) hI hts
      generalize Mgr.derivListWith
        (fun m' e' => Mgr.derivWith (Mgr.computeDerivF fuel) m' e' c) m l = r1 at pl ⊢
      obtain ⟨hv, hmap⟩ := forall₂_treeD pl.here
      obtain ⟨g2, l2⟩ := good_interList pl.inv.ok hv
      rw [hmap] at g2 l2
      refine ⟨inv_of_post pl.inv g2.post, List.IsPrefix.trans pl.ext g2.post.ext, ?_⟩
      intro T hp hok
      have hp1 : r1.1.tbl <+: T := List.IsPrefix.trans g2.post.ext hp
      have c1 := pl.const hp1 hok
      rw [c1, l2 T hok hp1]
      exact treeOf_prefix hp g2.post.rep
    | union l =>
      simp only [Node.toRE, Option.map_eq_some_iff] at ht
      obtain ⟨ts, hts, rfl⟩ := ht
      rw [optMapM_eq_some_iff] at hts
      simp only [computeDeriv, derivList_map]
      have pl := dpostL_derivListWith (d := fun m' e' => Mgr.derivWith (Mgr.computeDerivF fuel) m' e' c)
        (c := c) (l := l) (ts := ts) (m := m)
        (fun x hx tx m' hI' rx => hd x (hch x (by simpa [children] using hx)) tx m' hI' rx) hI hts
      generalize Mgr.derivListWith
        (fun m' e' => Mgr.derivWith (Mgr.computeDerivF fuel) m' e' c) m l = r1 at pl ⊢
      obtain ⟨hv, hmap⟩ := forall₂_treeD pl.here
      obtain ⟨g2, l2⟩ := good_unionList pl.inv.ok hv
      rw [hmap] at g2 l2
      refine ⟨inv_of_post pl.inv g2.post, List.IsPrefix.trans pl.ext g2.post.ext, ?_⟩
      intro T hp hok
      have hp1 : r1.1.tbl <+: T := List.IsPrefix.trans g2.post.ext hp
      have c1 := pl.const hp1 hok
      rw [c1, l2 T hok hp1]
      exact treeOf_prefix hp g2.post.rep

/-! ### the entry points: `compute_derivative`, `deriv`, `cached_deriv`, `str_derivative`, `str_in_re` -/

theorem dpost_computeDerivM {m : Mgr} {e : Nat} {te : RE} (hI : Inv m)
    (r : treeOf m.tbl e = some te) (c : Nat) :
    DPost m (m.computeDerivM e c).1 (m.computeDerivM e c).2 (fun ord => computeDeriv ord te c) :=
  dpost_computeDerivF (e + 1) c hI (by omega) r

/-- **`deriv(e, c)` with the cache refines `RE.deriv`** -/
theorem dpost_derivM {m : Mgr} {e : Nat} {te : RE} (hI : Inv m)
    (r : treeOf m.tbl e = some te) (c : Nat) :
    DPost m (m.derivM e c).1 (m.derivM e c).2 (fun ord => RE.deriv ord te c) :=
  dpost_derivWith (fun _ c' hI' r' => dpost_computeDerivM hI' r' c') hI r c

/-- **`cached_deriv(e, cid)` refines `RE.cachedDeriv`** (valid class id) -/
theorem cachedDerivM_some {m : Mgr} {e : Nat} {te : RE} (hI : Inv m)
    (r : treeOf m.tbl e = some te) {cid : ClassId} {c : Nat}
    (hpick : te.derivClass.pickInClass cid = some c) :
    ∃ m' d, m.cachedDerivM e cid = some (m', d) ∧
      DPost m m' d (fun ord => computeDeriv ord te c) := by
  have hdc : m.derivClass e = te.derivClass := by simp only [Mgr.derivClass, Mgr.toTree, r]
  unfold Mgr.cachedDerivM
  cases hget : m.cacheGet e cid with
  | some d =>
    obtain ⟨te', hte', hT⟩ := hI.cache _ _ _ (cacheGet_mem hget)
    rw [r] at hte'; cases hte'
    refine ⟨m, d, rfl, hI, List.prefix_refl _, ?_⟩
    intro T hp hok
    rw [hT T hp hok, ← pickInClass_eq_repOf hpick]
  | none =>
    simp only [hdc, hpick]
    have hp := dpost_computeDerivM hI r c
    refine ⟨_, _, rfl, ⟨hp.inv.ok, ?_⟩, hp.ext, hp.rep⟩
    intro e' cid' d' hmem
    simp only [Mgr.cacheInsert, List.mem_cons] at hmem
    rcases hmem with heq | hmem
    · cases heq
      refine ⟨te, treeOf_prefix hp.ext r, fun T hpT hok => ?_⟩
      rw [← pickInClass_eq_repOf hpick]
      exact hp.rep T hpT hok
    · exact hp.inv.cache e' cid' d' hmem

/-- the panic of `pick_class_rep` on an invalid class id (when the cache has no entry) -/
theorem cachedDerivM_none {m : Mgr} {e : Nat} {te : RE} (r : treeOf m.tbl e = some te)
    {cid : ClassId} (hpick : te.derivClass.pickInClass cid = none)
    (hget : m.cacheGet e cid = none) : m.cachedDerivM e cid = none := by
  have hdc : m.derivClass e = te.derivClass := by simp only [Mgr.derivClass, Mgr.toTree, r]
  simp only [Mgr.cachedDerivM, hget, hdc, hpick]

theorem strDerivativeM_cons (m : Mgr) (e c : Nat) (cs : List Nat) :
    m.strDerivativeM e (c :: cs) = (m.derivM e c).1.strDerivativeM (m.derivM e c).2 cs := rfl

/-- **`str_derivative` through the cache refines `RE.strDerivative`** -/
theorem dpost_strDerivativeM : ∀ (s : List Nat) {m : Mgr} {e : Nat} {te : RE}, Inv m →
    treeOf m.tbl e = some te →
    DPost m (m.strDerivativeM e s).1 (m.strDerivativeM e s).2 (fun ord => strDerivative ord te s) := by
  intro s
  induction s with
  | nil =>
    intro m e te hI r
    exact ⟨hI, List.prefix_refl _, fun T hp _ => treeOf_prefix hp r⟩
  | cons c cs ih =>
    intro m e te hI r
    have p1 := dpost_derivM hI r c
    rw [strDerivativeM_cons]
    generalize m.derivM e c = r1 at p1 ⊢
    have p2 := ih p1.inv p1.here
    refine ⟨p2.inv, List.IsPrefix.trans p1.ext p2.ext, ?_⟩
    intro T hp hok
    have c1 := p1.const (List.IsPrefix.trans p2.ext hp) hok
    simp only [strDerivative, List.foldl_cons] at c1 ⊢
    rw [c1]
    exact p2.rep T hp hok

/-- **`str_in_re` through the cache is `RE.strInRe`** under the final id assignment -/
theorem strInReM_eq {m : Mgr} {e : Nat} {te : RE} (hI : Inv m) (r : treeOf m.tbl e = some te)
    (s : List Nat) : Inv (m.strInReM s e).1 ∧ m.tbl <+: (m.strInReM s e).1.tbl ∧
      (m.strInReM s e).2 = strInRe (ordOf (m.strInReM s e).1.tbl) s te := by
  have p := dpost_strDerivativeM s hI r
  refine ⟨p.inv, p.ext, ?_⟩
  simp only [Mgr.strInReM, strInRe]
  exact rep_nullable p.here

end MgrDeriv
end Smt
