/-
  Helper lemmas for C11 (CharPartition queries): index facts of sorted interval lists, the two
  binary searches, the classification performed by `interval_cover`, and the sort + sweep of
  `try_from_iter`.  Mathlib-free.  Well-formedness (`Sorted`, `InList`, `LeastNonMember`, `WF`,
  `cls`) comes from Proofs/PartitionWF.lean (shared with C12).
-/
import SmtModel.Proofs.PartitionWF
import SmtModel.Model.Spec.CharPartition

namespace Smt.CharPartition
open Smt

/-! ### index facts of a sorted list -/

theorem Sorted.get_wf {l : List CharSet} (h : Sorted l) {k : Nat} (hk : k < l.length) :
    l[k].start ≤ l[k].stop ∧ l[k].stop ≤ MAX_CHAR :=
  h.1 _ (List.getElem_mem hk)

theorem Sorted.get_lt {l : List CharSet} (h : Sorted l) {k k' : Nat} (hk : k < l.length)
    (hk' : k' < l.length) (hlt : k < k') : l[k].stop < l[k'].start :=
  List.pairwise_iff_getElem.1 h.2 k k' hk hk' hlt

/-- in a sorted list, a point determines the index of the interval that contains it -/
theorem Sorted.index_unique {l : List CharSet} (h : Sorted l) {k k' : Nat} (hk : k < l.length)
    (hk' : k' < l.length) {x : Nat} (h1 : l[k].start ≤ x ∧ x ≤ l[k].stop)
    (h2 : l[k'].start ≤ x ∧ x ≤ l[k'].stop) : k = k' := by
  rcases Nat.lt_trichotomy k k' with hlt | heq | hgt
  · have := h.get_lt hk hk' hlt; omega
  · exact heq
  · have := h.get_lt hk' hk hgt; omega

theorem inList_iff_getElem (l : List CharSet) (x : Nat) :
    InList l x ↔ ∃ k, ∃ h : k < l.length, l[k].start ≤ x ∧ x ≤ l[k].stop := by
  constructor
  · rintro ⟨s, hs, hx⟩
    obtain ⟨k, hk, rfl⟩ := List.getElem_of_mem hs
    exact ⟨k, hk, hx⟩
  · rintro ⟨k, hk, hx⟩
    exact ⟨_, List.getElem_mem hk, hx⟩

/-! ### accessors -/

theorem get_of_lt (p : CharPartition) {i : Nat} (h : i < p.list.length) :
    p.get i = (p.list[i].start, p.list[i].stop) := by
  simp [get, h]

theorem get_of_ge (p : CharPartition) {i : Nat} (h : p.list.length ≤ i) :
    p.get i = (MAX_CHAR + 1, MAX_CHAR + 1) := by
  simp [get, List.getElem?_eq_none h]

/-! ### `class_of_char`: the binary search -/

/-- the search on `[i, j)` finds index `k` exactly when `k ∈ [i, j)` and interval `k` contains `x` -/
theorem classOfCharAux_interval_iff {l : List CharSet} (hl : Sorted l) (x i j : Nat)
    (hj : j ≤ l.length) (k : Nat) :
    classOfCharAux l x i j = .interval k ↔
      i ≤ k ∧ k < j ∧ ∃ h : k < l.length, l[k].start ≤ x ∧ x ≤ l[k].stop := by
  fun_induction classOfCharAux l x i j with
  | case1 i j hij m hnone =>
    have : m < l.length := by omega
    simp [List.getElem?_eq_getElem this] at hnone
  | case2 i j hij m s hs hc =>
    have hm : m < l.length := by omega
    obtain ⟨_, rfl⟩ := List.getElem?_eq_some_iff.1 hs
    have hc' : l[m].start ≤ x ∧ x ≤ l[m].stop := by simpa [CharSet.contains] using hc
    constructor
    · intro e
      have e' : k = m := (ClassId.interval.inj e).symm
      rw [e']
      exact ⟨by omega, by omega, hm, hc'⟩
    · rintro ⟨_, _, hk, hx⟩
      rw [hl.index_unique hk hm hx hc']
  | case3 i j hij m s hs hc hb ih =>
    have hm : m < l.length := by omega
    obtain ⟨_, rfl⟩ := List.getElem?_eq_some_iff.1 hs
    have hb' : l[m].stop < x := by simpa [CharSet.isBefore] using hb
    rw [ih hj]
    constructor
    · rintro ⟨h1, h2, h3⟩; exact ⟨by omega, h2, h3⟩
    · rintro ⟨h1, h2, hk, hx⟩
      refine ⟨?_, h2, hk, hx⟩
      rcases Nat.lt_trichotomy k m with hlt | heq | hgt
      · have := hl.get_lt hk hm hlt
        have := (hl.get_wf hm).1
        omega
      · subst heq; omega
      · omega
  | case4 i j hij m s hs hc hb ih =>
    have hm : m < l.length := by omega
    obtain ⟨_, rfl⟩ := List.getElem?_eq_some_iff.1 hs
    have hb' : ¬ l[m].stop < x := by simpa [CharSet.isBefore] using hb
    have hc' : ¬ (l[m].start ≤ x ∧ x ≤ l[m].stop) := by simpa [CharSet.contains] using hc
    rw [ih (by omega)]
    constructor
    · rintro ⟨h1, h2, h3⟩; exact ⟨h1, by omega, h3⟩
    · rintro ⟨h1, h2, hk, hx⟩
      refine ⟨h1, ?_, hk, hx⟩
      rcases Nat.lt_trichotomy k m with hlt | heq | hgt
      · exact hlt
      · subst heq; omega
      · have := hl.get_lt hm hk hgt
        have := (hl.get_wf hm).1
        omega
  | case5 i j hij =>
    simp only [reduceCtorEq, false_iff]
    rintro ⟨h1, h2, _⟩
    omega

theorem classOfChar_eq_cls {p : CharPartition} (hp : Sorted p.list) (x : Nat) :
    p.classOfChar x = cls p x := by
  cases h : p.classOfChar x with
  | interval k =>
    obtain ⟨_, _, hk, hx⟩ :=
      (classOfCharAux_interval_iff hp x 0 p.len (Nat.le_refl _) k).1 h
    exact ((cls_eq_interval_iff hp x k).2 ⟨hk, hx⟩).symm
  | complement =>
    symm
    rw [cls_eq_complement_iff, inList_iff_getElem]
    rintro ⟨k, hk, hx⟩
    have := (classOfCharAux_interval_iff hp x 0 p.len (Nat.le_refl _) k).2
      ⟨Nat.zero_le _, hk, hk, hx⟩
    simp only [classOfChar] at h
    rw [h] at this
    cases this

/-! ### `interval_cover`: the binary search -/

/-- on a non-empty range the search returns `r ∈ [i, j)` such that every later interval of the
    range starts after `x`, and interval `r` starts at or before `x` unless `r = i` -/
theorem coverSearch_spec {l : List CharSet} (hl : Sorted l) (x i j : Nat) (hij : i < j)
    (hj : j ≤ l.length) :
    i ≤ coverSearch l x i j ∧ coverSearch l x i j < j ∧
    (∀ k, coverSearch l x i j < k → k < j → ∀ h : k < l.length, x < l[k].start) ∧
    (coverSearch l x i j ≠ i → ∃ h : coverSearch l x i j < l.length,
        l[coverSearch l x i j].start ≤ x) := by
  fun_induction coverSearch l x i j with
  | case1 i j hlt m hnone =>
    have : m < l.length := by omega
    simp [List.getElem?_eq_getElem this] at hnone
  | case2 i j hlt m s hs hle ih =>
    have hm : m < l.length := by omega
    obtain ⟨_, rfl⟩ := List.getElem?_eq_some_iff.1 hs
    obtain ⟨h1, h2, h3, h4⟩ := ih (by omega) hj
    refine ⟨by omega, h2, h3, ?_⟩
    intro hne
    by_cases hr : coverSearch l x m j = m
    · rw [hr]; exact ⟨hm, hle⟩
    · exact h4 hr
  | case3 i j hlt m s hs hle ih =>
    have hm : m < l.length := by omega
    obtain ⟨_, rfl⟩ := List.getElem?_eq_some_iff.1 hs
    obtain ⟨h1, h2, h3, h4⟩ := ih (by omega) (by omega)
    refine ⟨h1, by omega, ?_, h4⟩
    intro k hk1 hk2 hk
    rcases Nat.lt_trichotomy k m with hkm | hkm | hkm
    · exact h3 k hk1 hkm hk
    · subst hkm; omega
    · have := hl.get_lt hm hk hkm
      have := (hl.get_wf hm).1
      omega
  | case4 i j hlt =>
    refine ⟨Nat.le_refl _, hij, ?_, fun h => absurd rfl h⟩
    intro k hk1 hk2
    omega

/-! ### `interval_cover`: the three-way classification -/

/-- interval `i` exists and contains `[s.start, s.stop]` -/
def CoversAt (l : List CharSet) (s : CharSet) (i : Nat) : Prop :=
  ∃ h : i < l.length, l[i].start ≤ s.start ∧ s.stop ≤ l[i].stop

/-- interval `k` exists and has a point in common with `[s.start, s.stop]` -/
def MeetsAt (l : List CharSet) (s : CharSet) (k : Nat) : Prop :=
  ∃ h : k < l.length, l[k].start ≤ s.stop ∧ s.start ≤ l[k].stop

/-- what each outcome of `interval_cover` must imply -/
def CoverOK (l : List CharSet) (s : CharSet) : CoverResult → Prop
  | .coveredBy i => CoversAt l s i
  | .disjointFromAll => ∀ k, ¬ MeetsAt l s k
  | .overlaps => (∀ i, ¬ CoversAt l s i) ∧ ∃ k, MeetsAt l s k

theorem intervalCover_sound {p : CharPartition} (hp : Sorted p.list) {s : CharSet} (hs : s.WF) :
    CoverOK p.list s (p.intervalCover s) := by
  obtain ⟨hs1, hs2⟩ := hs
  have hmax : MAX_CHAR = 196607 := rfl
  by_cases hlen : p.list.length = 0
  · -- empty partition: the search returns 0, `get 0` is the sentinel
    have hr : coverSearch p.list s.start 0 p.len = 0 := by
      unfold coverSearch; simp [len, hlen]
    have hg := get_of_ge p (i := 0) (by omega)
    simp only [intervalCover, hr, hg]
    rw [if_pos (by omega), if_pos (by omega)]
    simp only [CoverOK]
    rintro k ⟨hk, _⟩; omega
  · have hpos : 0 < p.len := by simp only [len]; omega
    obtain ⟨_, hr2, hr3, hr4⟩ := coverSearch_spec hp s.start 0 p.len hpos (Nat.le_refl _)
    simp only [intervalCover]
    generalize coverSearch p.list s.start 0 p.len = r at hr2 hr3 hr4 ⊢
    simp only [len] at hr2 hr3
    have hg := get_of_lt p hr2
    have hrw := hp.get_wf hr2
    simp only [hg]
    split
    · -- a < a_r : then r = 0 and every interval starts after a
      rename_i hlt
      have hr0 : r = 0 := by
        by_cases h0 : r = 0
        · exact h0
        · obtain ⟨_, h⟩ := hr4 h0; omega
      subst hr0
      have hall : ∀ k (hk : k < p.list.length), s.start < p.list[k].start := by
        intro k hk
        by_cases hk0 : k = 0
        · subst hk0; exact hlt
        · exact hr3 k (by omega) hk hk
      have hfirst : ∀ k (hk : k < p.list.length), p.list[0].start ≤ p.list[k].start := by
        intro k hk
        by_cases hk0 : k = 0
        · subst hk0; exact Nat.le_refl _
        · have := hp.get_lt hr2 hk (by omega); omega
      split
      · simp only [CoverOK]
        rintro k ⟨hk, h1, h2⟩
        have := hfirst k hk; omega
      · simp only [CoverOK]
        refine ⟨?_, 0, hr2, by omega, by omega⟩
        rintro i ⟨hi, h1, _⟩
        have := hall i hi; omega
    · rename_i hge
      split
      · rename_i hle
        split
        · exact ⟨hr2, by omega, by omega⟩
        · simp only [CoverOK]
          refine ⟨?_, r, hr2, by omega, by omega⟩
          rintro i ⟨hi, h1, h2⟩
          have hiw := hp.get_wf hi
          have := hp.index_unique hi hr2 (x := s.start) ⟨h1, by omega⟩ ⟨by omega, hle⟩
          subst this; omega
      · -- b_r < a : a lies in no interval
        rename_i hgt
        have hbefore : ∀ k (hk : k < p.list.length), k ≤ r → p.list[k].stop < s.start := by
          intro k hk hkr
          by_cases hkr' : k = r
          · subst hkr'; omega
          · have := hp.get_lt hk hr2 (by omega)
            omega
        have hafter : ∀ k (hk : k < p.list.length), r < k → s.start < p.list[k].start :=
          fun k hk hrk => hr3 k hrk hk hk
        have hnocover : ∀ i, ¬ CoversAt p.list s i := by
          rintro i ⟨hi, h1, h2⟩
          have hiw := hp.get_wf hi
          by_cases hir : i ≤ r
          · have := hbefore i hi hir; omega
          · have := hafter i hi (by omega); omega
        by_cases hnext : r + 1 < p.list.length
        · have hst : p.startOf (r + 1) = p.list[r + 1].start := by
            simp [startOf, get_of_lt p hnext]
          rw [hst]
          split
          · rename_i hb
            simp only [CoverOK]
            rintro k ⟨hk, h1, h2⟩
            by_cases hkr : k ≤ r
            · have := hbefore k hk hkr; omega
            · by_cases hk1 : k = r + 1
              · subst hk1; omega
              · have := hp.get_lt hnext hk (by omega)
                have := (hp.get_wf hnext).1
                omega
          · rename_i hb
            have := hafter (r + 1) hnext (by omega)
            exact ⟨hnocover, r + 1, hnext, by omega, by
              have := (hp.get_wf hnext).1; omega⟩
        · have hst : p.startOf (r + 1) = MAX_CHAR + 1 := by
            simp [startOf, get_of_ge p (i := r + 1) (by omega)]
          rw [hst, if_pos (by omega)]
          simp only [CoverOK]
          rintro k ⟨hk, h1, h2⟩
          have := hbefore k hk (by omega); omega

/-- the three outcomes exclude each other, and the covering index is unique -/
theorem coverOK_unique {l : List CharSet} (hl : Sorted l) {s : CharSet} (hs : s.WF)
    {r r' : CoverResult} (h : CoverOK l s r) (h' : CoverOK l s r') : r = r' := by
  have covers_meets : ∀ i, CoversAt l s i → MeetsAt l s i := by
    rintro i ⟨hi, h1, h2⟩
    have := hs.1
    have := (hl.get_wf hi).1
    exact ⟨hi, by omega, by omega⟩
  cases r <;> cases r' <;> simp only [CoverOK] at h h'
  · rename_i i i'
    obtain ⟨hi, h1, h2⟩ := h
    obtain ⟨hi', h1', h2'⟩ := h'
    have := hs.1
    rw [hl.index_unique hi hi' (x := s.start) ⟨h1, by omega⟩ ⟨h1', by omega⟩]
  · exact absurd (covers_meets _ h) (h' _)
  · exact absurd h (h'.1 _)
  · exact absurd (covers_meets _ h') (h _)
  · rfl
  · obtain ⟨k, hk⟩ := h'.2; exact absurd hk (h k)
  · exact absurd h' (h.1 _)
  · obtain ⟨k, hk⟩ := h.2; exact absurd hk (h' k)
  · rfl

theorem intervalCover_eq_iff {p : CharPartition} (hp : Sorted p.list) {s : CharSet} (hs : s.WF)
    (r : CoverResult) : p.intervalCover s = r ↔ CoverOK p.list s r :=
  ⟨fun h => h ▸ intervalCover_sound hp hs, fun h => coverOK_unique hp hs (intervalCover_sound hp hs) h⟩

/-- the linear-scan specification satisfies the same characterisation -/
theorem specIntervalCover_sound {l : List CharSet} (hl : Sorted l) {s : CharSet} (hs : s.WF) :
    CoverOK l s (CPSpec.intervalCover l s) := by
  unfold CPSpec.intervalCover
  split
  · rename_i i hi
    obtain ⟨h, h1, _⟩ := List.findIdx?_eq_some_iff_getElem.1 hi
    simp only [CoverOK]
    refine ⟨h, ?_⟩
    simpa [CPSpec.inside] using h1
  · rename_i hn
    rw [List.findIdx?_eq_none_iff] at hn
    have hnc : ∀ i, ¬ CoversAt l s i := by
      rintro i ⟨hi, h1, h2⟩
      have := hn _ (List.getElem_mem hi)
      simp [CPSpec.inside, h1, h2] at this
    have hmeet : ∀ c ∈ l, (CPSpec.meets s c = true ↔ c.start ≤ s.stop ∧ s.start ≤ c.stop) := by
      intro c hc
      have := (hl.1 c hc).1
      have := hs.1
      simp only [CPSpec.meets, decide_eq_true_eq]
      omega
    split
    · rename_i hany
      simp only [CoverOK]
      refine ⟨hnc, ?_⟩
      obtain ⟨c, hc, hm⟩ := List.any_eq_true.1 hany
      obtain ⟨k, hk, rfl⟩ := List.getElem_of_mem hc
      exact ⟨k, hk, (hmeet _ hc).1 hm⟩
    · rename_i hany
      simp only [CoverOK]
      rintro k ⟨hk, hm⟩
      apply hany
      exact List.any_eq_true.2 ⟨_, List.getElem_mem hk, (hmeet _ (List.getElem_mem hk)).2 hm⟩

theorem intervalCover_eq_spec {p : CharPartition} (hp : Sorted p.list) {s : CharSet} (hs : s.WF) :
    p.intervalCover s = CPSpec.intervalCover p.list s :=
  coverOK_unique hp hs (intervalCover_sound hp hs) (specIntervalCover_sound hp hs)

/-- the two debug assertions of `interval_cover` hold for a sorted partition and a WF set -/
theorem intervalCoverChecked_eq {p : CharPartition} (hp : Sorted p.list) {s : CharSet} (hs : s.WF) :
    p.intervalCoverChecked s = some (p.intervalCover s) := by
  unfold intervalCoverChecked
  simp only
  rw [if_neg (by simp only [Classical.not_not]; exact hs)]
  by_cases hlen : p.list.length = 0
  · have hr : coverSearch p.list s.start 0 p.len = 0 := by
      unfold coverSearch; simp [len, hlen]
    simp [hr]
  · have hpos : 0 < p.len := by simp only [len]; omega
    obtain ⟨_, hr2, _, hr4⟩ := coverSearch_spec hp s.start 0 p.len hpos (Nat.le_refl _)
    generalize coverSearch p.list s.start 0 p.len = r at hr2 hr4 ⊢
    simp only [len] at hr2
    simp only [get_of_lt p hr2]
    rw [if_neg]
    rintro ⟨h1, h2⟩
    obtain ⟨_, h⟩ := hr4 h2
    omega

/-! ### `try_from_iter`: stable insertion sort by `start` -/

theorem insertByStart_perm (c : CharSet) (l : List CharSet) : (insertByStart c l).Perm (c :: l) := by
  induction l with
  | nil => exact List.Perm.refl _
  | cons d rest ih =>
    simp only [insertByStart]
    split
    · exact List.Perm.refl _
    · exact (List.Perm.cons d ih).trans (List.Perm.swap c d rest)

theorem sortByStart_perm (l : List CharSet) : (sortByStart l).Perm l := by
  induction l with
  | nil => exact List.Perm.refl _
  | cons c rest ih =>
    simp only [sortByStart]
    exact (insertByStart_perm c _).trans (List.Perm.cons c ih)

theorem insertByStart_sorted (c : CharSet) {l : List CharSet}
    (h : l.Pairwise (fun c d => c.start ≤ d.start)) :
    (insertByStart c l).Pairwise (fun c d => c.start ≤ d.start) := by
  induction l with
  | nil => simp [insertByStart]
  | cons d rest ih =>
    obtain ⟨hd, hrest⟩ := List.pairwise_cons.1 h
    simp only [insertByStart]
    split
    · rename_i hle
      refine List.pairwise_cons.2 ⟨?_, h⟩
      intro e he
      rcases List.mem_cons.1 he with rfl | he
      · exact hle
      · have := hd e he; omega
    · rename_i hgt
      refine List.pairwise_cons.2 ⟨?_, ih hrest⟩
      intro e he
      have := (insertByStart_perm c rest).subset he
      rcases List.mem_cons.1 this with rfl | he'
      · omega
      · exact hd e he'

theorem sortByStart_sorted (l : List CharSet) :
    (sortByStart l).Pairwise (fun c d => c.start ≤ d.start) := by
  induction l with
  | nil => simp [sortByStart]
  | cons c rest ih => exact insertByStart_sorted c ih

/-! ### `try_from_iter`: the sweep -/

/-- two intervals have no common point (for WF intervals) -/
def Disj (c d : CharSet) : Prop := c.stop < d.start ∨ d.stop < c.start

instance (c d : CharSet) : Decidable (Disj c d) := by unfold Disj; infer_instance

theorem Disj.symm {c d : CharSet} (h : Disj c d) : Disj d c := Or.symm h

/-- each interval starts after the end of the previous one, the first after `e` -/
def ChainGap : Nat → List CharSet → Prop
  | _, [] => True
  | e, c :: rest => e < c.start ∧ ChainGap c.stop rest

theorem chainGap_iff {rest : List CharSet} (hwf : ∀ c ∈ rest, c.WF) (e : Nat) :
    ChainGap e rest ↔ (∀ t ∈ rest, e < t.start) ∧ rest.Pairwise (fun s t => s.stop < t.start) := by
  induction rest generalizing e with
  | nil => simp [ChainGap]
  | cons c r ih =>
    have hc := (hwf c (by simp)).1
    simp only [ChainGap, ih (fun d hd => hwf d (by simp [hd])), List.mem_cons, forall_eq_or_imp,
      List.pairwise_cons]
    constructor
    · rintro ⟨h1, h2, h3⟩
      exact ⟨⟨h1, fun t ht => by have := h2 t ht; omega⟩, h2, h3⟩
    · rintro ⟨⟨h1, _⟩, h2, h3⟩
      exact ⟨h1, h2, h3⟩

/-- the sweep succeeds exactly on a chain with gaps; the only error is `NonDisjointCharSets` -/
theorem sweep_ok_or_err (e w : Nat) (rest : List CharSet) :
    (ChainGap e rest → ∃ w', sweep e w rest = .ok w') ∧
    (¬ ChainGap e rest → sweep e w rest = .error .NonDisjointCharSets) := by
  induction rest generalizing e w with
  | nil => simp [ChainGap, sweep]
  | cons c r ih =>
    simp only [ChainGap, sweep]
    by_cases h : c.start ≤ e
    · rw [if_pos h]
      exact ⟨fun hc => by omega, fun _ => rfl⟩
    · rw [if_neg h]
      obtain ⟨ih1, ih2⟩ := ih c.stop (if c.start ≤ w then c.stop + 1 else w)
      exact ⟨fun hc => ih1 hc.2, fun hc => ih2 (fun hr => hc ⟨by omega, hr⟩)⟩

/-- the witness maintained by the sweep is the one `push` maintains: it stays the least non-member -/
theorem sweep_witness {rest pre : List CharSet} {e w w' : Nat} (hpre : WF ⟨pre, w⟩)
    (hs : Sorted (pre ++ rest)) (h : sweep e w rest = .ok w') : LeastNonMember (pre ++ rest) w' := by
  induction rest generalizing pre e w with
  | nil =>
    simp only [sweep] at h
    cases h
    simpa using hpre.2
  | cons c r ih =>
    simp only [sweep] at h
    split at h
    · cases h
    · have hs' : Sorted ((pre ++ [c]) ++ r) := by simpa using hs
      have hsc : Sorted (pre ++ [c]) := (sorted_append.1 hs').1
      have hpush := push_wf hpre (a := c.start) (b := c.stop) hsc
      have := ih (pre := pre ++ [c]) (by simpa [push] using hpush) hs' h
      simpa using this

/-- `try_from_iter` on WF intervals: success exactly when the input is pairwise disjoint; the
    result is the sorted input with the least non-member as witness -/
theorem tryFromList_char {l : List CharSet} (hl : ∀ c ∈ l, c.WF) :
    (l.Pairwise Disj → ∃ w, tryFromList l = .ok ⟨sortByStart l, w⟩ ∧ WF ⟨sortByStart l, w⟩) ∧
    (¬ l.Pairwise Disj → tryFromList l = .error .NonDisjointCharSets) := by
  have hperm := sortByStart_perm l
  have hsorted := sortByStart_sorted l
  have hwf : ∀ c ∈ sortByStart l, c.WF := fun c hc => hl c (hperm.subset hc)
  -- pairwise disjointness of the input = strict chain of the sorted vector
  have hiff : l.Pairwise Disj ↔ (sortByStart l).Pairwise (fun s t => s.stop < t.start) := by
    rw [← hperm.pairwise_iff (fun h => Disj.symm h)]
    constructor
    · intro h
      have := hsorted.and h
      refine this.imp_of_mem ?_
      rintro a b ha hb ⟨h1, h2⟩
      have := (hwf b hb).1
      rcases h2 with h2 | h2
      · exact h2
      · omega
    · intro h
      exact h.imp (fun h => Or.inl h)
  unfold tryFromList
  simp only
  generalize sortByStart l = v at hperm hsorted hwf hiff
  cases v with
  | nil =>
    refine ⟨fun _ => ⟨0, rfl, wf_new⟩, fun h => ?_⟩
    exact absurd (hiff.2 List.Pairwise.nil) h
  | cons c0 rest =>
    have hwfr : ∀ c ∈ rest, c.WF := fun c hc => hwf c (by simp [hc])
    have hc0 : c0.WF := hwf c0 (by simp)
    have hchain : l.Pairwise Disj ↔ ChainGap c0.stop rest := by
      rw [hiff, List.pairwise_cons, chainGap_iff hwfr]
    obtain ⟨hs1, hs2⟩ := sweep_ok_or_err c0.stop (if c0.start ≤ 0 then c0.stop + 1 else 0) rest
    constructor
    · intro hd
      obtain ⟨w', hw'⟩ := hs1 (hchain.1 hd)
      refine ⟨w', by simp only [hw'], ?_⟩
      have hsort : Sorted (c0 :: rest) := ⟨hwf, hiff.1 hd⟩
      have h0 : WF ⟨[c0], if c0.start ≤ 0 then c0.stop + 1 else 0⟩ := by
        have := push_wf wf_new (a := c0.start) (b := c0.stop)
          (by simpa [CharPartition.new, sorted_singleton] using hc0)
        simpa [push, CharPartition.new] using this
      exact ⟨hsort, by simpa using sweep_witness (pre := [c0]) h0 (by simpa using hsort) hw'⟩
    · intro hd
      simp only [hs2 (fun hc => hd (hchain.2 hc))]

end Smt.CharPartition
