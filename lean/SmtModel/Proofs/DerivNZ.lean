/-
  The smart constructors never build a `[0,0]` loop: preservation of `RE.NZ` (Proofs/ReNZ.lean) by
  `complement`, `concat`, `mk_loop`, `make_union`/`union`/`union_list`, `make_inter`/`inter_list`,
  for every id assignment (no hypothesis on `ord`).
-/
import SmtModel.Proofs.Deriv
import SmtModel.Proofs.ReLangCore
import SmtModel.Proofs.ReSetOps

namespace Smt.DerivNZ
open Smt RE

/-! ### complement -/

theorem complement_nz (e : RE) (h : e.NZ) : e.complement.NZ := by
  unfold complement
  split
  · exact nz_sigmaStar
  · exact nz_sigmaPlus
  · exact (nz_compl _).1 h
  · split
    · exact nz_empty
    · split
      · exact nz_epsilon
      · exact (nz_compl _).2 h

/-! ### concat -/

theorem isZero_addN_false (r s : LoopRange) (h : r.isZero = false ∨ s.isZero = false)
    (hr : Deriv.RangeOK r) (hs : Deriv.RangeOK s) : (r.addN s).isZero = false := by
  obtain ⟨a, st⟩ := r
  obtain ⟨b, st'⟩ := s
  unfold Deriv.RangeOK at hr hs
  cases st <;> cases st' <;>
    simp only [LoopRange.addN, LoopRange.isZero, LoopRange.finite, LoopRange.infinite] at * <;>
    simp_all <;> omega

theorem isZero_addPointN_one_false (r : LoopRange) : (r.addPointN 1).isZero = false := by
  obtain ⟨a, st⟩ := r
  cases st <;>
    simp [LoopRange.addPointN, LoopRange.addN, LoopRange.isZero, LoopRange.finite,
      LoopRange.infinite, LoopRange.point]

theorem concatPre_nz (a b r : RE) (hwa : a.WF) (hwb : b.WF) (ha : a.NZ) (hb : b.NZ)
    (h : concatPre a b = some r) : r.NZ := by
  unfold concatPre at h
  split at h
  · cases h; exact nz_empty
  · cases h; exact nz_empty
  · cases h; exact hb
  · cases h; exact ha
  · split at h
    · rename_i r' heq
      cases h
      split at heq
      · split at heq
        · cases heq
          exact (nz_loop _ _).2 ⟨ha, isZero_addPointN_one_false _⟩
        · cases heq
      · cases heq
    · split at h
      · rename_i r' heq
        cases h
        split at heq
        · split at heq
          · cases heq
            exact (nz_loop _ _).2 ⟨hb, isZero_addPointN_one_false _⟩
          · cases heq
        · cases heq
      · split at h
        · rename_i r' heq
          cases h
          split at heq
          · rename_i x xr y yr
            split at heq
            · cases heq
              rw [RE.WF] at hwa hwb
              have h1 := (nz_loop _ _).1 ha
              have h2 := (nz_loop _ _).1 hb
              exact (nz_loop _ _).2 ⟨h1.1, isZero_addN_false _ _ (.inl h1.2) hwa.2 hwb.2⟩
            · cases heq
          · cases heq
        · split at h
          · cases h
            exact (nz_loop _ _).2 ⟨ha, by decide⟩
          · cases h

theorem concatBase_nz (a b : RE) (ha : a.NZ) (hb : b.NZ) : (concatBase a b).NZ := by
  unfold concatBase
  split
  · exact hb
  · exact (nz_concat _ _).2 ⟨ha, hb⟩

/-- `concat` (with the well-formedness of the result, needed along the re-association) -/
theorem mkConcat_good (a b : RE) (ha : Deriv.Good a) (hb : Deriv.Good b)
    (mkConcat_wf : ∀ a b : RE, a.WF → b.WF → (mkConcat a b).WF) :
    (mkConcat a b).NZ := by
  fun_induction mkConcat a b with
  | case1 x y e2 r h => exact concatPre_nz _ _ _ ha.1 hb.1 ha.2 hb.2 h
  | case2 x y e2 h ih1 ih2 =>
    have hxy := ha.1
    rw [RE.WF] at hxy
    have hnz := (nz_concat _ _).1 ha.2
    have h1 := ih1 ⟨hxy.2, hnz.2⟩ hb
    exact ih2 ⟨hxy.1, hnz.1⟩ ⟨mkConcat_wf _ _ hxy.2 hb.1, h1⟩
  | case3 e1 e2 _ r h => exact concatPre_nz _ _ _ ha.1 hb.1 ha.2 hb.2 h
  | case4 e1 e2 _ h => exact concatBase_nz _ _ ha.2 hb.2

/-! ### mk_loop -/

theorem isZero_mulN_false (xr r : LoopRange) (hx : xr.isZero = false) (hr : r.isZero = false)
    (hxo : Deriv.RangeOK xr) (hro : Deriv.RangeOK r) : (xr.mulN r).isZero = false := by
  unfold LoopRange.mulN
  rw [hx, hr]
  simp only [Bool.or_self, Bool.false_eq_true, if_false]
  obtain ⟨a, st⟩ := xr
  obtain ⟨b, st'⟩ := r
  unfold Deriv.RangeOK at hxo hro
  cases st with
  | none => cases st' <;> simp [LoopRange.isZero, LoopRange.infinite]
  | some i =>
    cases st' with
    | none => simp [LoopRange.isZero, LoopRange.infinite]
    | some j =>
      simp only [LoopRange.isZero, LoopRange.finite, Bool.and_eq_false_iff, beq_eq_false_iff_ne,
        ne_eq, Option.some.injEq, Nat.mul_eq_zero, not_or] at *
      right
      refine ⟨?_, ?_⟩
      · rcases hx with h | h
        · omega
        · exact h
      · rcases hr with h | h
        · omega
        · exact h

theorem mkLoop_nz (e : RE) (r : LoopRange) (hw : e.WF) (he : e.NZ) (hr : Deriv.RangeOK r) :
    (mkLoop e r).NZ := by
  unfold mkLoop
  split
  · exact nz_epsilon
  · rename_i hz
    have hz' : r.isZero = false := by simpa using hz
    split
    · exact he
    · split
      · split
        · exact nz_epsilon
        · exact nz_empty
      · exact nz_epsilon
      · rename_i x xr
        have hx := (nz_loop _ _).1 he
        rw [RE.WF] at hw
        split
        · exact (nz_loop _ _).2 ⟨hx.1, isZero_mulN_false _ _ hx.2 hz' hw.2 hr⟩
        · exact (nz_loop _ _).2 ⟨he, hz'⟩
      · exact (nz_loop _ _).2 ⟨he, hz'⟩

/-! ### flattening -/

theorem flattenUnionList_nz (l : List RE) (h : ∀ e ∈ l, e.NZ → NZList (flattenUnion e))
    (hl : NZList l) : NZList (flattenUnionList l) := by
  induction l with
  | nil => simp [flattenUnionList]
  | cons x xs ih =>
    rw [nzList_cons] at hl
    simp only [flattenUnionList]
    rw [nzList_append]
    exact ⟨h x (by simp) hl.1, ih (fun e he => h e (by simp [he])) hl.2⟩

theorem flattenUnion_nz : ∀ e : RE, e.NZ → NZList (flattenUnion e) := by
  intro e
  induction e using Deriv.re_ind with
  | h_union l ih =>
    intro h
    simp only [flattenUnion]
    exact flattenUnionList_nz l ih ((nz_union l).1 h)
  | h_empty => intro h; simp [flattenUnion]
  | h_eps => intro h; simp [flattenUnion]
  | h_range s => intro h; simp [flattenUnion]
  | h_concat a b _ _ => intro h; simpa [flattenUnion] using h
  | h_loop e r _ => intro h; simpa [flattenUnion] using h
  | h_compl e _ => intro h; simpa [flattenUnion] using h
  | h_inter l _ => intro h; simpa [flattenUnion] using h

theorem flattenInterList_nz (l : List RE) (h : ∀ e ∈ l, e.NZ → NZList (flattenInter e))
    (hl : NZList l) : NZList (flattenInterList l) := by
  induction l with
  | nil => simp [flattenInterList]
  | cons x xs ih =>
    rw [nzList_cons] at hl
    simp only [flattenInterList]
    rw [nzList_append]
    exact ⟨h x (by simp) hl.1, ih (fun e he => h e (by simp [he])) hl.2⟩

theorem flattenInter_nz : ∀ e : RE, e.NZ → NZList (flattenInter e) := by
  intro e
  induction e using Deriv.re_ind with
  | h_inter l ih =>
    intro h
    simp only [flattenInter]
    exact flattenInterList_nz l ih ((nz_inter l).1 h)
  | h_empty => intro h; simp [flattenInter]
  | h_eps => intro h; simp [flattenInter]
  | h_range s => intro h; simp [flattenInter]
  | h_concat a b _ _ => intro h; simpa [flattenInter] using h
  | h_loop e r _ => intro h; simpa [flattenInter] using h
  | h_compl e _ => intro h; simpa [flattenInter] using h
  | h_union l _ => intro h; simpa [flattenInter] using h

theorem nzList_flatMap (f : RE → List RE) (l : List RE) (h : ∀ a ∈ l, NZList (f a)) :
    NZList (l.flatMap f) := by
  rw [nzList_iff]
  intro e he
  obtain ⟨a, ha, hea⟩ := List.mem_flatMap.1 he
  exact (nzList_iff _).1 (h a ha) e hea

/-! ### make_union, make_inter -/

theorem simplifySetOperation_nz (ord : RE → Nat) (v : List RE) (bottom top : RE)
    (hv : NZList v) (ht : top.NZ) : NZList (simplifySetOperation ord v bottom top) := by
  rw [nzList_iff] at hv ⊢
  intro e he
  rcases simplifySetOperation_subset ord v bottom top e he with h | h
  · exact hv e h
  · subst h; exact ht

theorem makeInter_nz (ord : RE → Nat) (v : List RE) (hv : NZList v) : (makeInter ord v).NZ := by
  have hv' := simplifySetOperation_nz ord v sigmaStar .empty hv nz_empty
  unfold makeInter
  generalize simplifySetOperation ord v sigmaStar .empty = v' at hv'
  simp only
  split
  · split
    · exact nz_epsilon
    · exact nz_empty
  · split
    · exact nz_sigmaStar
    · exact ((nzList_cons _ _).1 hv').1
    · exact (nz_inter _).2 hv'

theorem makeUnion_nz (ord : RE → Nat) (v : List RE) (hv : NZList v) : (makeUnion ord v).NZ := by
  have hv' := simplifySetOperation_nz ord v .empty sigmaStar hv nz_sigmaStar
  unfold makeUnion
  generalize simplifySetOperation ord v .empty sigmaStar = v' at hv'
  have h2 : NZList (if v'.length ≥ 2 then removeSubsumed v' else v') := by
    split
    · rw [nzList_iff] at hv' ⊢
      exact fun e he => hv' e (removeSubsumed_subset v' e he)
    · exact hv'
  simp only
  generalize (if v'.length ≥ 2 then removeSubsumed v' else v') = v'' at h2
  split
  · exact nz_empty
  · exact ((nzList_cons _ _).1 h2).1
  · exact (nz_union _).2 h2

theorem mkUnion_nz (ord : RE → Nat) (a b : RE) (ha : a.NZ) (hb : b.NZ) : (mkUnion ord a b).NZ :=
  makeUnion_nz ord _ ((nzList_append _ _).2 ⟨flattenUnion_nz a ha, flattenUnion_nz b hb⟩)

theorem mkUnionList_nz (ord : RE → Nat) (l : List RE) (hl : NZList l) : (mkUnionList ord l).NZ :=
  makeUnion_nz ord _ (nzList_flatMap _ l (fun a ha => flattenUnion_nz a ((nzList_iff l).1 hl a ha)))

theorem mkInterList_nz (ord : RE → Nat) (l : List RE) (hl : NZList l) : (mkInterList ord l).NZ :=
  makeInter_nz ord _ (nzList_flatMap _ l (fun a ha => flattenInter_nz a ((nzList_iff l).1 hl a ha)))

theorem mkInter_nz (ord : RE → Nat) (a b : RE) (ha : a.NZ) (hb : b.NZ) : (mkInter ord a b).NZ :=
  makeInter_nz ord _ ((nzList_append _ _).2 ⟨flattenInter_nz a ha, flattenInter_nz b hb⟩)

end Smt.DerivNZ
