/-
  Helper lemmas for C14: `compile_successors` — the rows handed to the compact table builder and
  the loop over the states.  Mathlib-free.
-/
import SmtModel.Proofs.AutomatonOps
import SmtModel.Proofs.CompactTable

namespace Smt
open CharPartition CompactTableBuilder

/-- what the row of state `s` must contain: for every alphabet index `i`, the pair
    `(i, id(next(s, alphabet[i])))` unless the character maps to the default, and nothing else -/
def RowSpec (A : Automaton) (s : State) (alphabet : List Nat) (row : Row) : Prop :=
  ∀ i (hi : i < alphabet.length),
    (s.charMapsToDefault alphabet[i] = false →
      ∃ t, A.next s alphabet[i] = some t ∧ (i, t.id) ∈ row ∧ ∀ v, (i, v) ∈ row → v = t.id) ∧
    (s.charMapsToDefault alphabet[i] = true → ∀ v, (i, v) ∉ row)

theorem compileRow_spec {A : Automaton} (h : AutWF A) {s : State} (hs : s ∈ A.states)
    {alphabet : List Nat} (ha : ∀ c ∈ alphabet, c ≤ MAX_CHAR) :
    ∃ row, A.compileRow s alphabet = some row ∧ GoodRow alphabet.length row ∧
      RowSpec A s alphabet row := by
  -- every filtered entry is `(alphabet[i], i)`
  have hzip : ∀ p ∈ alphabet.zipIdx, ∃ hi : p.2 < alphabet.length, p.1 = alphabet[p.2] := by
    intro p hp
    obtain ⟨c, i⟩ := p
    obtain ⟨_, h2, h3⟩ := List.mem_zipIdx hp
    exact ⟨by simpa using h2, by simpa using h3⟩
  obtain ⟨row, hrow⟩ := mapOpt_isSome
    (fun (p : Nat × Nat) => (A.next s p.1).map (fun t => (p.2, t.id)))
    (alphabet.zipIdx.filter (fun p => !s.charMapsToDefault p.1)) (by
      intro p hp
      obtain ⟨hi, he⟩ := hzip p (List.mem_filter.1 hp).1
      obtain ⟨t, ht, _⟩ := h.next_total hs (ha p.1 (by rw [he]; exact List.getElem_mem hi))
      exact ⟨(p.2, t.id), by simp [ht]⟩)
  have hmem := mapOpt_mem hrow
  have hmem' : ∀ i v, (i, v) ∈ row ↔ ∃ hi : i < alphabet.length,
      s.charMapsToDefault alphabet[i] = false ∧ ∃ t, A.next s alphabet[i] = some t ∧ v = t.id := by
    intro i v
    rw [hmem]
    constructor
    · rintro ⟨p, hp, hf⟩
      obtain ⟨hpz, hpf⟩ := List.mem_filter.1 hp
      obtain ⟨hi, he⟩ := hzip p hpz
      cases hn : A.next s p.1 with
      | none => rw [hn] at hf; cases hf
      | some t =>
        rw [hn] at hf
        simp only [Option.map_some, Option.some.injEq, Prod.mk.injEq] at hf
        obtain ⟨rfl, rfl⟩ := hf
        rw [he] at hn hpf
        exact ⟨hi, by simpa using hpf, t, hn, rfl⟩
    · rintro ⟨hi, hf, t, ht, rfl⟩
      refine ⟨(alphabet[i], i), List.mem_filter.2 ⟨?_, by simp [hf]⟩, by simp [ht]⟩
      rw [List.mem_iff_getElem]
      exact ⟨i, by simpa using hi, by simp [List.getElem_zipIdx]⟩
  refine ⟨row, hrow, ⟨?_, ?_⟩, ?_⟩
  · -- distinct characters: the first components are a sublist of 0, 1, 2, …
    obtain ⟨hlen, hget⟩ := (mapOpt_some_iff _ _ _).1 hrow
    have hfst : row.map (·.1) =
        (alphabet.zipIdx.filter (fun p => !s.charMapsToDefault p.1)).map (·.2) := by
      apply List.ext_getElem
      · simp [hlen]
      · intro j h1 h2
        simp only [List.length_map] at h1 h2
        have := hget j h2 h1
        cases hn : A.next s
            ((alphabet.zipIdx.filter (fun p => !s.charMapsToDefault p.1))[j]).1 with
        | none => rw [hn] at this; cases this
        | some t =>
          rw [hn] at this
          simp only [Option.map_some, Option.some.injEq] at this
          simp only [List.getElem_map]
          rw [← this]
    have hsub : ((alphabet.zipIdx.filter (fun p => !s.charMapsToDefault p.1)).map (·.2)).Sublist
        (alphabet.zipIdx.map (·.2)) := List.Sublist.map _ List.filter_sublist
    have hnd : (alphabet.zipIdx.map (·.2)).Nodup := by
      rw [List.zipIdx_map_snd]
      exact List.nodup_range'
    have : (row.map (·.1)).Nodup := by rw [hfst]; exact hnd.sublist hsub
    have := List.nodup_iff_pairwise_ne.1 this
    exact List.pairwise_map.1 this
  · intro x hx
    obtain ⟨i, v⟩ := x
    exact ((hmem' i v).1 hx).1
  · intro i hi
    constructor
    · intro hf
      obtain ⟨t, ht, _⟩ := h.next_total hs (ha _ (List.getElem_mem hi))
      refine ⟨t, ht, (hmem' i t.id).2 ⟨hi, hf, t, ht, rfl⟩, ?_⟩
      intro v hv
      obtain ⟨_, _, t', ht', rfl⟩ := (hmem' i v).1 hv
      rw [ht] at ht'
      cases ht'
      rfl
    · intro ht v hv
      obtain ⟨_, hf, _⟩ := (hmem' i v).1 hv
      rw [ht] at hf
      cases hf

/-- the invariant of the loop of `compile_successors` after the states `pre` -/
structure CompileInv (A : Automaton) (alphabet : List Nat) (pre : List State)
    (b : CompactTableBuilder) (D : List (Nat × Row)) : Prop where
  shape : Shape b
  cells : Cells b D
  num : b.numStates = A.states.length
  alpha : b.alphabetSize = alphabet.length
  fresh : ∀ x ∈ D.map (·.1), x < pre.length
  rows : ∀ s ∈ pre, ∃ row, (s.id, row) ∈ D ∧ RowSpec A s alphabet row
  defaults : ∀ s ∈ pre, ∀ d, s.defaultSuccessor = some d → b.default[s.id]? = some d

theorem compileLoop_spec {A : Automaton} (h : AutWF A) {alphabet : List Nat}
    (ha : ∀ c ∈ alphabet, c ≤ MAX_CHAR) :
    ∀ (rest pre : List State) (b : CompactTableBuilder) (D : List (Nat × Row)),
      A.states = pre ++ rest → CompileInv A alphabet pre b D →
      ∃ b' D', A.compileLoop alphabet rest b = some b' ∧ CompileInv A alphabet A.states b' D' := by
  intro rest
  induction rest with
  | nil =>
    intro pre b D hst hinv
    have : pre = A.states := by simp [hst]
    subst this
    exact ⟨b, D, rfl, hinv⟩
  | cons s rest ih =>
    intro pre b D hst hinv
    have hsmem : s ∈ A.states := by rw [hst]; simp
    have hidx : pre.length < A.states.length := by rw [hst]; simp
    have hsid : s.id = pre.length := by
      have := h.ids pre.length hidx
      simp only [hst, List.getElem_append_right (Nat.le_refl _), Nat.sub_self,
        List.getElem_cons_zero] at this
      exact this
    have hw := h.states s hsmem
    have hsn : s.id < b.numStates := by rw [hinv.num, hsid]; exact hidx
    -- set_default
    have hb1 : ∃ b1, Automaton.compileDefault s b = some b1 ∧ Shape b1 ∧ Cells b1 D ∧
        b1.numStates = b.numStates ∧ b1.alphabetSize = b.alphabetSize ∧
        (∀ d, s.defaultSuccessor = some d → b1.default[s.id]? = some d) ∧
        (∀ j, j ≠ s.id → b1.default[j]? = b.default[j]?) := by
      unfold Automaton.compileDefault
      cases hd : s.defaultSuccessor with
      | none =>
        exact ⟨b, rfl, hinv.shape, hinv.cells, rfl, rfl, fun d hd' => (by cases hd'), fun _ _ => rfl⟩
      | some d =>
        have hdn : d < b.numStates := by rw [hinv.num]; exact hw.defBound d hd
        obtain ⟨b1, g1, g2, g3, g4, g5, g6, _⟩ := setDefault_spec hinv.shape hinv.cells hsn hdn
        refine ⟨b1, g1, g2, g3, g4, g5, ?_, ?_⟩
        · intro d' hd'
          cases hd'
          rw [g6]
          have : s.id < b.default.length := by rw [hinv.shape.dlen]; exact hsn
          simp [List.getElem?_set_self this]
        · intro j hj
          rw [g6, List.getElem?_set_ne (fun e => hj e.symm)]
    obtain ⟨b1, hb1e, hs1, hc1, hn1, ha1, hd1, hdo1⟩ := hb1
    obtain ⟨row, hrow, hgood, hspec⟩ := compileRow_spec h hsmem ha
    have hfresh : s.id ∉ D.map (·.1) := by
      intro hm
      have := hinv.fresh _ hm
      omega
    obtain ⟨b2, hb2, hs2, hc2, hn2, ha2, hd2⟩ := setSuccessors_spec hs1 hc1
      (by rw [hn1]; exact hsn) hfresh (by rw [ha1, hinv.alpha]; exact hgood)
    have hinv2 : CompileInv A alphabet (pre ++ [s]) b2 ((s.id, row) :: D) := by
      refine ⟨hs2, hc2, by rw [hn2, hn1]; exact hinv.num, by rw [ha2, ha1]; exact hinv.alpha,
        ?_, ?_, ?_⟩
      · intro x hx
        simp only [List.map_cons, List.mem_cons] at hx
        simp only [List.length_append, List.length_singleton]
        rcases hx with rfl | hx
        · omega
        · have := hinv.fresh x hx; omega
      · intro s0 hs0
        simp only [List.mem_append, List.mem_singleton] at hs0
        rcases hs0 with hs0 | rfl
        · obtain ⟨row0, h1, h2⟩ := hinv.rows s0 hs0
          exact ⟨row0, by simp [h1], h2⟩
        · exact ⟨row, by simp, hspec⟩
      · intro s0 hs0 d hd
        simp only [List.mem_append, List.mem_singleton] at hs0
        rw [hd2]
        rcases hs0 with hs0 | rfl
        · -- an earlier state: its id is smaller
          have hne : s0.id ≠ s.id := by
            obtain ⟨j, hj, rfl⟩ := List.getElem_of_mem hs0
            have := h.ids j (by omega)
            simp only [hst, List.getElem_append_left hj] at this
            omega
          rw [hdo1 _ hne]
          exact hinv.defaults s0 hs0 d hd
        · exact hd1 d hd

    obtain ⟨b', D', hl, hinv'⟩ := ih (pre ++ [s]) b2 ((s.id, row) :: D) (by simp [hst]) hinv2
    exact ⟨b', D', by simp only [Automaton.compileLoop, hb1e, hrow, hb2, hl], hinv'⟩

end Smt
