/-
  `RE.NZ`: no sub-term of the form `.loop _ ⟨0, some 0⟩` (a loop with range `[0,0]`).

  `ReManager::mk_loop` rewrites a `[0,0]` loop to epsilon before anything else, so no term a
  manager can produce contains one; `RE.WF` (Proofs/ReLang.lean) does not say so, and the
  derivative rule for loops (`compute_derivative`, C03) is wrong on such a node: the language of
  `.loop e ⟨0, some 0⟩` is `{ε}`, its derivative is empty, but the rule yields `deriv(e,c) . e^[0,0]`.
  Hence the theorems about derivatives are stated for `e.WF ∧ e.NZ`.

  Mathlib-free (only the term model is imported): definition, decidability, unfolding lemmas.
  Preservation by the smart constructors is in Proofs/DerivNZ.lean.
-/
import SmtModel.Model.Re

namespace Smt
namespace RE

/-- the loop range `[0,0]` -/
def zeroRange (r : LoopRange) : Bool := r.start == 0 && r.stop == some 0

mutual
/-- executable form of `NZ` -/
def noZeroLoop : RE → Bool
  | .empty => true
  | .epsilon => true
  | .range _ => true
  | .concat a b => a.noZeroLoop && b.noZeroLoop
  | .loop e r => e.noZeroLoop && !zeroRange r
  | .compl e => e.noZeroLoop
  | .inter l => noZeroLoopList l
  | .union l => noZeroLoopList l
def noZeroLoopList : List RE → Bool
  | [] => true
  | x :: xs => x.noZeroLoop && noZeroLoopList xs
end

/-- no loop with range `[0,0]` anywhere in the term -/
def NZ (e : RE) : Prop := e.noZeroLoop = true

/-- `NZ` for every element of a list -/
def NZList (l : List RE) : Prop := noZeroLoopList l = true

instance (e : RE) : Decidable e.NZ := by unfold NZ; infer_instance
instance (l : List RE) : Decidable (NZList l) := by unfold NZList; infer_instance

theorem zeroRange_iff (r : LoopRange) : zeroRange r = true ↔ r = ⟨0, some 0⟩ := by
  obtain ⟨a, b⟩ := r
  simp [zeroRange]

theorem zeroRange_eq_isZero (r : LoopRange) : zeroRange r = r.isZero := rfl

@[simp] theorem nz_empty : NZ .empty := by simp [NZ, noZeroLoop]
@[simp] theorem nz_epsilon : NZ .epsilon := by simp [NZ, noZeroLoop]
@[simp] theorem nz_range (s : CharSet) : NZ (.range s) := by simp [NZ, noZeroLoop]

@[simp] theorem nz_concat (a b : RE) : NZ (.concat a b) ↔ a.NZ ∧ b.NZ := by
  simp [NZ, noZeroLoop]

@[simp] theorem nz_loop (e : RE) (r : LoopRange) : NZ (.loop e r) ↔ e.NZ ∧ r.isZero = false := by
  simp [NZ, noZeroLoop, zeroRange_eq_isZero]

@[simp] theorem nz_compl (e : RE) : NZ (.compl e) ↔ e.NZ := by simp [NZ, noZeroLoop]
@[simp] theorem nz_inter (l : List RE) : NZ (.inter l) ↔ NZList l := by simp [NZ, NZList, noZeroLoop]
@[simp] theorem nz_union (l : List RE) : NZ (.union l) ↔ NZList l := by simp [NZ, NZList, noZeroLoop]

@[simp] theorem nzList_nil : NZList [] := by simp [NZList, noZeroLoopList]
@[simp] theorem nzList_cons (x : RE) (xs : List RE) : NZList (x :: xs) ↔ x.NZ ∧ NZList xs := by
  simp [NZ, NZList, noZeroLoopList]

theorem nzList_iff (l : List RE) : NZList l ↔ ∀ e ∈ l, e.NZ := by
  induction l with
  | nil => simp
  | cons x xs ih => simp [ih]

theorem nzList_append (l m : List RE) : NZList (l ++ m) ↔ NZList l ∧ NZList m := by
  simp only [nzList_iff, List.mem_append]
  constructor
  · intro h; exact ⟨fun e he => h e (.inl he), fun e he => h e (.inr he)⟩
  · rintro ⟨h1, h2⟩ e (he | he)
    · exact h1 e he
    · exact h2 e he

/-- the built-in terms -/
theorem nz_sigma : NZ sigma := by decide
theorem nz_sigmaStar : NZ sigmaStar := by decide
theorem nz_sigmaPlus : NZ sigmaPlus := by decide

end RE
end Smt
