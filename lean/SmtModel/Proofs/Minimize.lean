/-
  C04 helper lemmas, part 2: automata.  (Part 1, the abstract Moore theory, is `Proofs/MooreAbs`.)

  Specification-level notions used by `Props/C04.lean`:
  * `resid A s`        residual language of the state with index `s`: the well-formed strings `w`
                       with `str_next(state s, w)` final
  * `leftQuot A u`     `u⁻¹ L(A)` = `{w | accepts(u ++ w)}`; `nerodeIndex A` = number of distinct
                       left quotients (`Set.ncard`): the Myhill–Nerode index of `L(A)`
  * `AllReachable A`   every state is `str_next(initial, u)` for some well-formed `u`

  Lemmas:
  * `wfAut_spec`, `wfState_spec`, `wfPart_WF`   what the executable well-formedness test gives
  * `next_eq`          under `wfAut`, `next` is defined for every character `≤ MAX_CHAR`
                       and is the state with index `stepD`
  * `strNext_eq`, `accepts_eq`, `resid_iff`     `str_next` / `accepts` / `resid` through `runD`
  * `alphabet_covers`, `alphabet2_covers`       every character has a representative in the
                       alphabet that behaves alike in every state (C11 picks + C12 refinement)
  * `normalize`, `normalize2`                   hence every well-formed string can be replaced by
                       one over the representatives
  * `checkHom_spec`, `hom_run`                  a verified homomorphism commutes with `runD`
-/
import SmtModel.Proofs.MooreAbs
import SmtModel.Props.C11
import SmtModel.Props.C12
import Mathlib.Data.Set.Card

namespace Smt.Minimize
open Smt CharPartition

/-! ### specification-level notions -/

/-- residual language of state `s` -/
def resid (A : Automaton) (s : Nat) : Set (List Nat) :=
  {w | WFs w ∧ ∃ st t, A.states[s]? = some st ∧ A.strNext st w = some t ∧ t.isFinal = true}

/-- left quotient of the language of `A` by `u` -/
def leftQuot (A : Automaton) (u : List Nat) : Set (List Nat) :=
  {w | WFs w ∧ A.accepts (u ++ w) = some true}

/-- Myhill–Nerode index of the language of `A` (over well-formed strings) -/
noncomputable def nerodeIndex (A : Automaton) : Nat :=
  Set.ncard {L : Set (List Nat) | ∃ u, WFs u ∧ L = leftQuot A u}

/-- every state of `A` is reached from the initial state by some well-formed string -/
def AllReachable (A : Automaton) : Prop :=
  ∀ s, s < A.states.length →
    ∃ u st0 st, WFs u ∧ A.initial = some st0 ∧ A.strNext st0 u = some st ∧ st.id = s

/-- index reached from index `i` by `w` (total; meaningful under `wfAut`) -/
def runD (A : Automaton) (i : Nat) (w : List Nat) : Nat := run (stepD A) i w

theorem runD_cons (A : Automaton) (i c : Nat) (w : List Nat) :
    runD A i (c :: w) = runD A (stepD A i c) w := rfl

theorem runD_append (A : Automaton) (i : Nat) (u w : List Nat) :
    runD A i (u ++ w) = runD A (runD A i u) w := by
  simp [runD, run, List.foldl_append]

/-! ### the executable well-formedness test -/

theorem wfPart_WF {p : CharPartition} (h : wfPart p = true) : p.WF := by
  unfold wfPart at h
  rw [Bool.and_eq_true] at h
  obtain ⟨h1, h2⟩ := h
  have hl : ∀ c ∈ p.list, c.WF := by
    intro c hc
    have := List.all_eq_true.1 h1 c hc
    exact of_decide_eq_true this
  split at h2
  · rename_i q hq
    have : q = p := of_decide_eq_true h2
    subst this
    exact (C11.wf_try_from_list _ hl _ hq).1
  · cases h2

theorem wfState_spec {n i : Nat} {s : State} (h : wfState n i s = true) :
    s.id = i ∧ s.classes.WF ∧ s.successor.length = s.classes.list.length ∧
    (∀ j ∈ s.successor, j < n) ∧ (∀ d, s.defaultSuccessor = some d → d < n) ∧
    (s.defaultSuccessor = none → s.classes.emptyComplement = true) := by
  unfold wfState at h
  simp only [Bool.and_eq_true, beq_iff_eq, List.all_eq_true, decide_eq_true_eq] at h
  obtain ⟨⟨⟨⟨h1, h2⟩, h3⟩, h4⟩, h5⟩ := h
  refine ⟨h1, wfPart_WF h2, h3, h4, ?_, ?_⟩
  · intro d hd; rw [hd] at h5; simpa using h5
  · intro hd; rw [hd] at h5; exact h5

theorem wfAut_spec {A : Automaton} (h : wfAut A = true) :
    A.numStates = A.states.length ∧ A.initialState < A.states.length ∧
    ∀ i st, A.states[i]? = some st → wfState A.states.length i st = true := by
  unfold wfAut at h
  simp only [Bool.and_eq_true, beq_iff_eq, List.all_eq_true, decide_eq_true_eq] at h
  obtain ⟨⟨h1, h2⟩, h3⟩ := h
  refine ⟨h1, h2, fun i st hst => ?_⟩
  exact h3 (st, i) (List.mem_zipIdx_iff_getElem?.2 hst)

theorem wf_id {A : Automaton} (h : wfAut A = true) {i : Nat} {st : State}
    (hst : A.states[i]? = some st) : st.id = i :=
  (wfState_spec ((wfAut_spec h).2.2 i st hst)).1

theorem wf_classes {A : Automaton} (h : wfAut A = true) :
    ∀ p ∈ A.states.map (·.classes), p.WF := by
  intro p hp
  obtain ⟨st, hst, rfl⟩ := List.mem_map.1 hp
  obtain ⟨i, hi, rfl⟩ := List.getElem_of_mem hst
  exact (wfState_spec ((wfAut_spec h).2.2 i _ (List.getElem?_eq_getElem hi))).2.1

/-! ### `next`, `str_next`, `accepts` under `wfAut` -/

/-- `next` is defined for every valid character and lands on the state with index `stepD` -/
theorem next_eq {A : Automaton} (h : wfAut A = true) {i : Nat} {st : State}
    (hst : A.states[i]? = some st) {c : Nat} (hc : c ≤ MAX_CHAR) :
    stepD A i c < A.states.length ∧
    ∃ t, A.states[stepD A i c]? = some t ∧ A.next st c = some t := by
  obtain ⟨_, hwf, hlen, hsucc, hd1, hd2⟩ := wfState_spec ((wfAut_spec h).2.2 i st hst)
  have hvalid : st.classes.validClassId (st.classes.classOfChar c) = true :=
    (C11.valid_class_id_spec _ hwf _).2 ⟨c, hc, rfl⟩
  -- the index of the successor
  have key : ∃ j, j < A.states.length ∧ ∃ t, A.states[j]? = some t ∧ A.next st c = some t := by
    unfold Automaton.next Automaton.classNext State.validClassId
    rw [hvalid]
    simp only [if_true]
    cases hcid : st.classes.classOfChar c with
    | interval k =>
      rw [hcid] at hvalid
      have hk' : k < st.classes.list.length := by
        simp only [validClassId, len] at hvalid
        exact of_decide_eq_true hvalid
      have hk : k < st.successor.length := by omega
      have hj := hsucc _ (List.getElem_mem hk)
      refine ⟨st.successor[k], hj, A.states[st.successor[k]], List.getElem?_eq_getElem hj, ?_⟩
      simp [List.getElem?_eq_getElem hk, List.getElem?_eq_getElem hj]
    | complement =>
      rw [hcid] at hvalid
      cases hd : st.defaultSuccessor with
      | none =>
        have := hd2 hd
        simp [validClassId, this] at hvalid
      | some d =>
        have hj := hd1 d hd
        exact ⟨d, hj, A.states[d], List.getElem?_eq_getElem hj, by simp [List.getElem?_eq_getElem hj]⟩
  obtain ⟨j, hj, t, ht, hn⟩ := key
  have hstep : stepD A i c = j := by
    unfold stepD stepIdx
    rw [hst]
    simp only [hn, Option.map_some, Option.getD_some]
    exact wf_id h ht
  rw [hstep]
  exact ⟨hj, t, ht, hn⟩

theorem stepD_lt {A : Automaton} (h : wfAut A = true) {i : Nat} (hi : i < A.states.length)
    {c : Nat} (hc : c ≤ MAX_CHAR) : stepD A i c < A.states.length :=
  (next_eq h (List.getElem?_eq_getElem hi) hc).1

theorem strNext_eq {A : Automaton} (h : wfAut A = true) {w : List Nat} (hw : WFs w) :
    ∀ {i : Nat} {st : State}, A.states[i]? = some st →
      runD A i w < A.states.length ∧
      ∃ t, A.states[runD A i w]? = some t ∧ A.strNext st w = some t := by
  induction w with
  | nil =>
    intro i st hst
    exact ⟨(List.getElem?_eq_some_iff.1 hst).1, st, hst, rfl⟩
  | cons c w ih =>
    intro i st hst
    have hc : c ≤ MAX_CHAR := hw c (by simp)
    obtain ⟨_, t, ht, hn⟩ := next_eq h hst hc
    have := ih (fun c' h' => hw c' (by simp [h'])) ht
    rw [runD_cons]
    simp only [Automaton.strNext, hn]
    exact this

theorem runD_lt {A : Automaton} (h : wfAut A = true) {i : Nat} (hi : i < A.states.length)
    {w : List Nat} (hw : WFs w) : runD A i w < A.states.length :=
  (strNext_eq h hw (List.getElem?_eq_getElem hi)).1

theorem finD_eq {A : Automaton} {i : Nat} {st : State} (hst : A.states[i]? = some st) :
    finD A i = st.isFinal := by
  simp [finD, hst]

theorem accepts_eq {A : Automaton} (h : wfAut A = true) {w : List Nat} (hw : WFs w) :
    A.accepts w = some (finD A (runD A A.initialState w)) := by
  have hi := (wfAut_spec h).2.1
  obtain ⟨_, t, ht, hn⟩ := strNext_eq h hw (List.getElem?_eq_getElem hi)
  unfold Automaton.accepts Automaton.initial
  rw [List.getElem?_eq_getElem hi]
  simp only [hn, Option.map_some, finD_eq ht]

theorem resid_iff {A : Automaton} (h : wfAut A = true) {s : Nat} (hs : s < A.states.length)
    (w : List Nat) : w ∈ resid A s ↔ WFs w ∧ finD A (runD A s w) = true := by
  simp only [resid, Set.mem_ofPred_eq]
  constructor
  · rintro ⟨hw, st, t, hst, hn, hf⟩
    obtain ⟨_, t', ht', hn'⟩ := strNext_eq h hw hst
    rw [hn] at hn'
    cases hn'
    exact ⟨hw, by rw [finD_eq ht', hf]⟩
  · rintro ⟨hw, hf⟩
    obtain ⟨_, t, ht, hn⟩ := strNext_eq h hw (List.getElem?_eq_getElem hs)
    exact ⟨hw, _, t, List.getElem?_eq_getElem hs, hn, by rw [← finD_eq ht, hf]⟩

theorem leftQuot_eq_resid {A : Automaton} (h : wfAut A = true) {u : List Nat} (hu : WFs u) :
    leftQuot A u = resid A (runD A A.initialState u) := by
  ext w
  have hi := (wfAut_spec h).2.1
  rw [resid_iff h (runD_lt h hi hu)]
  simp only [leftQuot, Set.mem_ofPred_eq]
  constructor
  · rintro ⟨hw, ha⟩
    have huw : WFs (u ++ w) := by
      intro c hc
      rcases List.mem_append.1 hc with h' | h'
      · exact hu c h'
      · exact hw c h'
    rw [accepts_eq h huw, runD_append] at ha
    exact ⟨hw, by simpa using ha⟩
  · rintro ⟨hw, hf⟩
    have huw : WFs (u ++ w) := by
      intro c hc
      rcases List.mem_append.1 hc with h' | h'
      · exact hu c h'
      · exact hw c h'
    exact ⟨hw, by rw [accepts_eq h huw, runD_append, hf]⟩

/-- reachability stated through `runD` gives `AllReachable` -/
theorem allReachable_of_runD {A : Automaton} (h : wfAut A = true)
    (hr : ∀ s, s < A.states.length → ∃ u, WFs u ∧ runD A A.initialState u = s) :
    AllReachable A := by
  intro s hs
  obtain ⟨u, hu, hrun⟩ := hr s hs
  have hi := (wfAut_spec h).2.1
  obtain ⟨_, t, ht, hn⟩ := strNext_eq h hu (List.getElem?_eq_getElem hi)
  refine ⟨u, A.states[A.initialState], t, hu, ?_, hn, ?_⟩
  · simp [Automaton.initial, List.getElem?_eq_getElem hi]
  · rw [wf_id h ht, hrun]

/-! ### representatives of the character classes -/

/-- `next` depends on the character only through its class in the state's own partition -/
theorem stepD_congr (A : Automaton) {i : Nat} {st : State} (hst : A.states[i]? = some st)
    {c c' : Nat} (hcc : st.classes.classOfChar c = st.classes.classOfChar c') :
    stepD A i c = stepD A i c' := by
  unfold stepD stepIdx
  rw [hst]
  simp only [Automaton.next, hcc]

/-- every valid character has a pick in its class -/
theorem exists_pick {P : CharPartition} (hP : P.WF) {c : Nat} (hc : c ≤ MAX_CHAR) :
    ∃ p ∈ P.picks, p ≤ MAX_CHAR ∧ P.classOfChar p = P.classOfChar c := by
  have hne : C11.NonEmptyClass P (P.classOfChar c) := ⟨c, hc, rfl⟩
  have hmem : P.classOfChar c ∈ P.classIds := ((C11.class_ids_spec P hP).2.1 _).2 hne
  have hvalid := (C11.valid_class_id_spec P hP _).2 hne
  obtain ⟨hnone, hsome⟩ := C11.pick_in_class_spec P hP (P.classOfChar c)
  cases hp : P.pickInClass (P.classOfChar c) with
  | none => rw [hnone.1 hp] at hvalid; cases hvalid
  | some x =>
    obtain ⟨hx1, hx2⟩ := hsome x hp
    refine ⟨x, ?_, hx1, hx2⟩
    have hmap := (C11.picks_mem P hP).1
    have : some x ∈ P.classIds.map P.pickInClass := List.mem_map.2 ⟨_, hmem, hp⟩
    rw [← hmap] at this
    obtain ⟨y, hy, e⟩ := List.mem_map.1 this
    cases e
    exact hy

theorem picks_le {P : CharPartition} (hP : P.WF) : ∀ p ∈ P.picks, p ≤ MAX_CHAR := by
  intro p hp
  obtain ⟨k, hk, rfl⟩ := List.getElem_of_mem hp
  have hlen := (C11.picks_mem P hP).2.1
  exact ((C11.picks_mem P hP).2.2 k hk (hlen ▸ hk)).1

/-- `alphabet` represents every character for `A`: some member behaves like it in every state -/
def Covers (A : Automaton) (alphabet : List Nat) : Prop :=
  (∀ p ∈ alphabet, p ≤ MAX_CHAR) ∧
  ∀ c, c ≤ MAX_CHAR → ∃ p ∈ alphabet, ∀ i, i < A.states.length → stepD A i p = stepD A i c

theorem combined_wf {A : Automaton} (h : wfAut A = true) : A.combinedCharPartition.WF :=
  C12.merge_list_wf (wf_classes h)

/-- same class of the combined partition ⇒ same successor in every state (C14 `combined_uniform`,
    derived here from C12 `merge_list_refines`) -/
theorem combined_uniform {A : Automaton} (h : wfAut A = true) {c c' : Nat}
    (hcc : A.combinedCharPartition.cls c = A.combinedCharPartition.cls c')
    {i : Nat} (hi : i < A.states.length) : stepD A i c = stepD A i c' := by
  have hst := List.getElem?_eq_getElem hi
  apply stepD_congr A hst
  have hmem : A.states[i].classes ∈ A.states.map (·.classes) :=
    List.mem_map.2 ⟨_, List.getElem_mem hi, rfl⟩
  have hwf := wf_classes h _ hmem
  rw [classOfChar_eq_cls hwf.1, classOfChar_eq_cls hwf.1]
  exact C12.merge_list_refines (wf_classes h) hcc _ hmem

theorem alphabet_covers {A : Automaton} (h : wfAut A = true) : Covers A (alphabetOf A) := by
  have hP := combined_wf h
  refine ⟨picks_le hP, fun c hc => ?_⟩
  obtain ⟨p, hp, _, hcls⟩ := exists_pick hP hc
  refine ⟨p, hp, fun i hi => combined_uniform h ?_ hi⟩
  rw [← classOfChar_eq_cls hP.1, ← classOfChar_eq_cls hP.1]
  exact hcls

theorem alphabet2_covers {A A' : Automaton} (h : wfAut A = true) (h' : wfAut A' = true) :
    (∀ p ∈ alphabetOf2 A A', p ≤ MAX_CHAR) ∧
    ∀ c, c ≤ MAX_CHAR → ∃ p ∈ alphabetOf2 A A',
      (∀ i, i < A.states.length → stepD A i p = stepD A i c) ∧
      (∀ i, i < A'.states.length → stepD A' i p = stepD A' i c) := by
  have h1 := combined_wf h
  have h2 := combined_wf h'
  have hP := C12.merge_wf h1 h2
  refine ⟨picks_le hP, fun c hc => ?_⟩
  obtain ⟨p, hp, _, hcls⟩ := exists_pick hP hc
  rw [classOfChar_eq_cls hP.1, classOfChar_eq_cls hP.1] at hcls
  obtain ⟨e1, e2⟩ := C12.merge_refines h1 h2 hcls
  exact ⟨p, hp, fun i hi => combined_uniform h e1 hi, fun i hi => combined_uniform h' e2 hi⟩

theorem covers_closed {A : Automaton} (h : wfAut A = true) {alphabet : List Nat}
    (hc : ∀ p ∈ alphabet, p ≤ MAX_CHAR) : Closed A.states.length (stepD A) alphabet :=
  fun _ hs c hcm => stepD_lt h hs (hc c hcm)

/-- every well-formed string has a twin over the representatives, simultaneously for two automata -/
theorem normalize2 {A A' : Automaton} (h : wfAut A = true) (h' : wfAut A' = true)
    {alphabet : List Nat}
    (hcov : ∀ c, c ≤ MAX_CHAR → ∃ p ∈ alphabet,
      (∀ i, i < A.states.length → stepD A i p = stepD A i c) ∧
      (∀ i, i < A'.states.length → stepD A' i p = stepD A' i c))
    {w : List Nat} (hw : WFs w) :
    ∃ w', (∀ c ∈ w', c ∈ alphabet) ∧
      (∀ i, i < A.states.length → runD A i w' = runD A i w) ∧
      (∀ i, i < A'.states.length → runD A' i w' = runD A' i w) := by
  induction w with
  | nil => exact ⟨[], by simp, fun _ _ => rfl, fun _ _ => rfl⟩
  | cons c w ih =>
    obtain ⟨w', hm, e1, e2⟩ := ih (fun c' hc' => hw c' (by simp [hc']))
    obtain ⟨p, hp, f1, f2⟩ := hcov c (hw c (by simp))
    refine ⟨p :: w', ?_, ?_, ?_⟩
    · intro x hx
      rcases List.mem_cons.1 hx with rfl | hx
      · exact hp
      · exact hm x hx
    · intro i hi
      rw [runD_cons, runD_cons, f1 i hi]
      exact e1 _ (stepD_lt h hi (hw c (by simp)))
    · intro i hi
      rw [runD_cons, runD_cons, f2 i hi]
      exact e2 _ (stepD_lt h' hi (hw c (by simp)))

theorem normalize {A : Automaton} (h : wfAut A = true) {alphabet : List Nat}
    (hcov : Covers A alphabet) {w : List Nat} (hw : WFs w) :
    ∃ w', (∀ c ∈ w', c ∈ alphabet) ∧ ∀ i, i < A.states.length → runD A i w' = runD A i w := by
  obtain ⟨w', hm, e1, _⟩ := normalize2 h h (alphabet := alphabet)
    (fun c hc => by
      obtain ⟨p, hp, f⟩ := hcov.2 c hc
      exact ⟨p, hp, f, f⟩) hw
  exact ⟨w', hm, e1⟩

theorem wfs_of_alphabet {alphabet w : List Nat} (hle : ∀ p ∈ alphabet, p ≤ MAX_CHAR)
    (hw : ∀ c ∈ w, c ∈ alphabet) : WFs w := fun c hc => hle c (hw c hc)

/-! ### the homomorphism check -/

theorem checkHom_spec {A A' : Automaton} {h : List Nat} {alphabet : List Nat}
    (hc : checkHom A A' h alphabet = true) :
    h.length = A.states.length ∧ (∀ t ∈ h, t < A'.states.length) ∧
    h[A.initialState]? = some A'.initialState ∧
    (∀ s, s < A.states.length → ∃ t, h[s]? = some t ∧ finD A' t = finD A s ∧
      ∀ c ∈ alphabet, h[stepD A s c]? = some (stepD A' t c)) ∧
    (∀ t, t < A'.states.length → t ∈ h) := by
  unfold checkHom at hc
  simp only [Bool.and_eq_true, beq_iff_eq, List.all_eq_true, decide_eq_true_eq, List.mem_range,
    List.contains_iff_mem] at hc
  obtain ⟨⟨⟨⟨h1, h2⟩, h3⟩, h4⟩, h5⟩ := hc
  refine ⟨h1, h2, h3, fun s hs => ?_, h5⟩
  have := h4 s hs
  split at this
  · cases this
  · rename_i t ht
    simp only [Bool.and_eq_true, beq_iff_eq, List.all_eq_true] at this
    exact ⟨t, ht, this.1, this.2⟩

/-- a verified homomorphism commutes with reading a well-formed string -/
theorem hom_run {A A' : Automaton} (hA : wfAut A = true) (hA' : wfAut A' = true) {h : List Nat}
    (hc : checkHom A A' h (alphabetOf2 A A') = true) {w : List Nat} (hw : WFs w) :
    ∀ {s t : Nat}, s < A.states.length → h[s]? = some t →
      h[runD A s w]? = some (runD A' t w) := by
  obtain ⟨hlen, hrange, _, hstep, _⟩ := checkHom_spec hc
  obtain ⟨_, hcov⟩ := alphabet2_covers hA hA'
  induction w with
  | nil => intro s t _ hst; exact hst
  | cons c w ih =>
    intro s t hs hst
    have hcm : c ≤ MAX_CHAR := hw c (by simp)
    obtain ⟨p, hp, f1, f2⟩ := hcov c hcm
    obtain ⟨t', ht', _, hstp⟩ := hstep s hs
    rw [hst] at ht'
    cases ht'
    have ht : t < A'.states.length := hrange t (List.mem_of_getElem? hst)
    have := hstp p hp
    rw [f1 s hs, f2 t ht] at this
    rw [runD_cons, runD_cons]
    exact ih (fun c' hc' => hw c' (by simp [hc'])) (stepD_lt hA hs hcm) this

/-! ### the Moore partition is the Nerode equivalence of the states -/

theorem moore_length {A : Automaton} (h : wfAut A = true) :
    (moore A).length = A.states.length :=
  mooreAbs_length (covers_closed h (alphabet_covers h).1)

theorem getD_eq_iff {l : List Nat} {s t : Nat} (hs : s < l.length) (ht : t < l.length) :
    l.getD s 0 = l.getD t 0 ↔ l[s]? = l[t]? := by
  simp [List.getD_eq_getElem?_getD, List.getElem?_eq_getElem hs, List.getElem?_eq_getElem ht]

/-- two states in the same block of `moore A` have the same residual language -/
theorem moore_sound {A : Automaton} (h : wfAut A = true) {s t : Nat}
    (hs : s < A.states.length) (ht : t < A.states.length)
    (hb : (moore A)[s]? = (moore A)[t]?) : resid A s = resid A t := by
  have hcl := covers_closed h (alphabet_covers h).1
  have hlen := moore_length h
  have hb' := (getD_eq_iff (by omega) (by omega)).2 hb
  ext w
  rw [resid_iff h hs, resid_iff h ht]
  constructor <;> rintro ⟨hw, hf⟩ <;> refine ⟨hw, ?_⟩ <;>
    obtain ⟨w', hm, e⟩ := normalize h (alphabet_covers h) hw <;>
    have key := mooreAbs_sound (fin := finD A) hcl hs ht hb' w' hm <;>
    have e1 := e s hs <;> have e2 := e t ht <;>
    simp only [runD] at e1 e2 hf ⊢
  · rw [← e2, ← key, e1]; exact hf
  · rw [← e1, key, e2]; exact hf

/-- two states in different blocks are distinguished by a well-formed string -/
theorem moore_complete {A : Automaton} (h : wfAut A = true) {s t : Nat}
    (hs : s < A.states.length) (ht : t < A.states.length)
    (hb : (moore A)[s]? ≠ (moore A)[t]?) :
    ∃ w, WFs w ∧ ¬ (w ∈ resid A s ↔ w ∈ resid A t) := by
  have hcov := alphabet_covers h
  have hcl := covers_closed h hcov.1
  have hlen := moore_length h
  have hb' : (moore A).getD s 0 ≠ (moore A).getD t 0 :=
    fun e => hb ((getD_eq_iff (by omega) (by omega)).1 e)
  obtain ⟨w, hm, hd⟩ := mooreAbs_complete (fin := finD A) hcl hs ht hb'
  have hw : WFs w := wfs_of_alphabet hcov.1 hm
  refine ⟨w, hw, ?_⟩
  rw [resid_iff h hs, resid_iff h ht]
  simp only [runD, hw, true_and]
  intro hiff
  apply hd
  cases h1 : finD A (run (stepD A) s w) <;> cases h2 : finD A (run (stepD A) t w) <;>
    simp [h1, h2] at hiff ⊢

/-- same block ⇔ same residual language -/
theorem moore_block_iff {A : Automaton} (h : wfAut A = true) {s t : Nat}
    (hs : s < A.states.length) (ht : t < A.states.length) :
    (moore A)[s]? = (moore A)[t]? ↔ resid A s = resid A t := by
  constructor
  · exact moore_sound h hs ht
  · intro he
    by_contra hb
    obtain ⟨w, _, hn⟩ := moore_complete h hs ht hb
    exact hn (by rw [he])


theorem firstOccs_nodup {α : Type} [DecidableEq α] (l : List α) : (firstOccs l).Nodup := by
  induction l with
  | nil => simp [firstOccs]
  | cons x l ih =>
    simp only [firstOccs, List.nodup_cons, List.mem_filter, decide_eq_true_eq, ne_eq,
      not_true_eq_false, and_false, not_false_eq_true, true_and]
    exact ih.filter _


end Smt.Minimize
