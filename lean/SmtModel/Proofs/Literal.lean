/-
  Helper lemmas for C08 / C17 (string literals and constructors).

  Part A: hexadecimal digits (model `to_digit(16)` / `is_ascii_hexdigit` = the table of the spec).
  Part B: the specification: `escapeAt` on the shapes of text the automaton can be holding in its
          pending buffer, `specParse` unfolding.
  Part C: the automaton: representation invariant `Rep`, the shape of the pending buffer per state,
          one-step simulation `step_spec`, whole run `run_spec`.
  Part D: printing: `{:x}` digits, pieces of `Display`, reading a printed body back.

  Core Lean only (no Mathlib needed).
-/
import SmtModel.Model.Literal
import SmtModel.Model.Spec.Literal

namespace Smt.LiteralProofs
open Smt Smt.Literal Smt.LiteralSpec

theorem hexTable_keys : ∀ p ∈ hexTable, p.1 < 128 := by decide

theorem hexVal?_ge (c : Nat) (h : 128 ≤ c) : hexVal? c = none := by
  unfold hexVal?
  rw [List.lookup_eq_none_iff]
  intro p hp
  have := hexTable_keys p hp
  simp; omega

theorem toDigit16_small : ∀ c, c < 128 → toDigit16 c = hexVal? c := by decide

theorem toDigit16_eq (c : Nat) : toDigit16 c = hexVal? c := by
  by_cases h : c < 128
  · exact toDigit16_small c h
  · rw [hexVal?_ge c (by omega)]
    unfold toDigit16
    repeat' split
    all_goals first | rfl | (exfalso; omega)

theorem isHex_small : ∀ c, c < 128 → isAsciiHexdigit c = isHex c := by decide

theorem isAsciiHexdigit_eq (c : Nat) : isAsciiHexdigit c = isHex c := by
  by_cases h : c < 128
  · exact isHex_small c h
  · unfold isHex; rw [hexVal?_ge c (by omega)]
    unfold isAsciiHexdigit
    simp; omega

theorem isHex_iff (c : Nat) :
    isHex c = true ↔ (48 ≤ c ∧ c ≤ 57) ∨ (65 ≤ c ∧ c ≤ 70) ∨ (97 ≤ c ∧ c ≤ 102) := by
  rw [← isAsciiHexdigit_eq]; unfold isAsciiHexdigit; simp [or_assoc]

theorem hexVal_lt (c : Nat) : hexVal c < 16 := by
  by_cases h : c < 128
  · revert c; decide
  · unfold hexVal; rw [hexVal?_ge c (by omega)]; simp


def H (ds : List Nat) : Prop := ∀ d ∈ ds, isHex d = true

theorem specParse_nil : specParse [] = [] := by rw [specParse]

theorem specParse_esc {c : Nat} {t : List Nat} {v : Nat} {r : List Nat}
    (h : escapeAt (c :: t) = some (v, r)) : specParse (c :: t) = v :: specParse r := by
  rw [specParse]
  split
  · rename_i v' r' h'
    rw [h] at h'; cases h'; rfl
  · rename_i h'; rw [h] at h'; cases h'

theorem specParse_copy {c : Nat} {t : List Nat} (h : escapeAt (c :: t) = none) :
    specParse (c :: t) = copyChar c :: specParse t := by
  rw [specParse]
  split
  · rename_i v' r' h'
    rw [h] at h'; cases h'
  · rfl

/-- the specification never produces more characters than the text has -/
theorem specParse_length_le (t : List Nat) : (specParse t).length ≤ t.length := by
  induction t using specParse.induct with
  | case1 => simp [specParse_nil]
  | case2 c t v r h hlt ih =>
    rw [specParse_esc h]; simp only [List.length_cons] at hlt ⊢; omega
  | case3 c t h ih =>
    rw [specParse_copy h]; simp only [List.length_cons]; omega

theorem escapeAt_nil : escapeAt [] = none := by simp [escapeAt]

theorem escapeAt_ne_bs {c : Nat} {t : List Nat} (h : c ≠ 92) : escapeAt (c :: t) = none := by
  simp [escapeAt, h]

theorem takeWhile_hex_append (ds r : List Nat) (hd : H ds) :
    (ds ++ r).takeWhile isHex = ds ++ r.takeWhile isHex := by
  induction ds with
  | nil => rfl
  | cons d ds ih =>
    have h1 : isHex d = true := hd d List.mem_cons_self
    have h2 : H ds := fun y hy => hd y (List.mem_cons_of_mem _ hy)
    simp [h1, ih h2]

theorem dropWhile_hex_append (ds r : List Nat) (hd : H ds) :
    (ds ++ r).dropWhile isHex = r.dropWhile isHex := by
  induction ds with
  | nil => rfl
  | cons d ds ih =>
    have h1 : isHex d = true := hd d List.mem_cons_self
    have h2 : H ds := fun y hy => hd y (List.mem_cons_of_mem _ hy)
    simp [h1, ih h2]

/-- the text after `\u{` + digits `ds` does not continue with a digit -/
def NoHexHead (r : List Nat) : Prop := ∀ x ∈ r.head?, isHex x = false

theorem takeWhile_noHex {r : List Nat} (h : NoHexHead r) : r.takeWhile isHex = [] := by
  cases r with
  | nil => rfl
  | cons x t => simp [NoHexHead] at h; simp [h]

theorem dropWhile_noHex {r : List Nat} (h : NoHexHead r) : r.dropWhile isHex = r := by
  cases r with
  | nil => rfl
  | cons x t => simp [NoHexHead] at h; simp [h]

theorem escapeAt_brace (ds r : List Nat) (hd : H ds) (hr : NoHexHead r) :
    escapeAt (92 :: 117 :: 123 :: (ds ++ r)) =
      if 1 ≤ ds.length ∧ ds.length ≤ 5 ∧ r.head? = some 125 ∧ hexValue ds ≤ MAX_CHAR
      then some (hexValue ds, r.tail) else none := by
  simp [escapeAt, takeWhile_hex_append _ _ hd, dropWhile_hex_append _ _ hd, takeWhile_noHex hr,
    dropWhile_noHex hr]

theorem escapeAt_brace_long (ds r : List Nat) (hd : H ds) (h6 : 6 ≤ ds.length) :
    escapeAt (92 :: 117 :: 123 :: (ds ++ r)) = none := by
  simp [escapeAt, takeWhile_hex_append _ _ hd]
  intro _ h5; omega

theorem isHex_ne_123 {a : Nat} (h : isHex a = true) : a ≠ 123 := by
  rw [isHex_iff] at h; omega

theorem escapeAt_hex4 (a b c d : Nat) (r : List Nat) (ha : isHex a = true) (hb : isHex b = true)
    (hc : isHex c = true) (hd : isHex d = true) :
    escapeAt (92 :: 117 :: a :: b :: c :: d :: r) = some (hexValue [a, b, c, d], r) := by
  have := isHex_ne_123 ha
  simp [escapeAt, *]

/-- `\u` followed by at most three digits and then something that is not a digit (or nothing) -/
theorem escapeAt_u_short (ds r : List Nat) (hd : H ds) (h3 : ds.length ≤ 3) (hr : NoHexHead r)
    (h123 : (ds ++ r).head? ≠ some 123) : escapeAt (92 :: 117 :: (ds ++ r)) = none := by
  match ds, hd, h3, h123 with
  | [], _, _, h123 =>
    cases r with
    | nil => simp [escapeAt]
    | cons x t =>
      simp [NoHexHead] at hr
      simp at h123
      simp [escapeAt, hr, h123]
  | [a], hd, _, _ =>
    have ha := isHex_ne_123 (hd a (by simp))
    cases r with
    | nil => simp [escapeAt, ha]
    | cons x t =>
      simp [NoHexHead] at hr
      simp [escapeAt, hr, ha]
  | [a, b], hd, _, _ =>
    have ha := isHex_ne_123 (hd a (by simp))
    cases r with
    | nil => simp [escapeAt, ha]
    | cons x t =>
      simp [NoHexHead] at hr
      simp [escapeAt, hr, ha]
  | [a, b, c], hd, _, _ =>
    have ha := isHex_ne_123 (hd a (by simp))
    cases r with
    | nil => simp [escapeAt, ha]
    | cons x t =>
      simp [NoHexHead] at hr
      simp [escapeAt, hr, ha]
  | _ :: _ :: _ :: _ :: _, _, h3, _ => simp at h3

/-- characters that are neither a backslash nor outside the alphabet are copied one by one -/
theorem specParse_copy_run (p r : List Nat) (h : ∀ c ∈ p, c ≠ 92 ∧ c ≤ MAX_CHAR) :
    specParse (p ++ r) = p ++ specParse r := by
  induction p with
  | nil => rfl
  | cons c p ih =>
    have hc := h c List.mem_cons_self
    have hp : ∀ c ∈ p, c ≠ 92 ∧ c ≤ MAX_CHAR := fun y hy => h y (List.mem_cons_of_mem _ hy)
    rw [List.cons_append, specParse_copy (escapeAt_ne_bs hc.1), ih hp]
    simp [copyChar, hc.2]

/-- a backslash that does not start an escape, followed by harmless characters -/
theorem specParse_flush (p r : List Nat) (h : ∀ c ∈ p, c ≠ 92 ∧ c ≤ MAX_CHAR)
    (hn : escapeAt (92 :: (p ++ r)) = none) :
    specParse (92 :: (p ++ r)) = 92 :: p ++ specParse r := by
  rw [specParse_copy hn, specParse_copy_run p r h]
  simp [copyChar, MAX_CHAR]

/-! ## Part C: the automaton -/

/-- what the pending buffer holds in each state, and the value accumulated in `escape_code`:
    "the longest prefix of a potential escape read so far, and its value" -/
inductive Shape : State → List Nat → Nat → Prop
  | init : Shape .init [] 0
  | slash : Shape .afterSlash [92] 0
  | slashU : Shape .afterSlashU [92, 117] 0
  | hex (ds : List Nat) : 1 ≤ ds.length → ds.length ≤ 3 → H ds →
      Shape .afterSlashUHex (92 :: 117 :: ds) (hexValue ds)
  | brace (ds : List Nat) : ds.length ≤ 5 → H ds →
      Shape .afterSlashUBrace (92 :: 117 :: 123 :: ds) (hexValue ds)

/-- abstraction of a concrete automaton: state, output so far, logical pending text, code -/
structure Rep (a : Automaton) (st : State) (out P : List Nat) (code : Nat) : Prop where
  st : a.state = st
  out : a.stringSoFar = out
  len : a.pending.length = 9
  idx : a.pendingIdx = P.length
  pend : a.pending.take P.length = P
  code : a.escapeCode = code

theorem take_set_succ (l : List Nat) (n x : Nat) (h : n < l.length) :
    (l.set n x).take (n + 1) = l.take n ++ [x] := by
  induction l generalizing n with
  | nil => simp at h
  | cons y l ih =>
    cases n with
    | zero => simp
    | succ n => simp at h; simp [ih n h]

theorem rep_new : Rep newAutomaton .init [] [] 0 := by
  constructor <;> simp [newAutomaton]

theorem rep_state {a : Automaton} {st : State} {out P : List Nat} {code : Nat}
    (h : Rep a st out P code) (st' : State) : Rep { a with state := st' } st' out P code :=
  ⟨rfl, h.out, h.len, h.idx, h.pend, h.code⟩

theorem addPending_rep {a : Automaton} {st : State} {out P : List Nat} {code : Nat}
    (h : Rep a st out P code) (h8 : P.length ≤ 8) (x : Nat) :
    ∃ a', a.addPending x = some a' ∧ Rep a' st out (P ++ [x]) code := by
  refine ⟨{ a with pending := a.pending.set a.pendingIdx x, pendingIdx := a.pendingIdx + 1 }, ?_, ?_⟩
  · simp [Automaton.addPending, h.idx, h.len]; omega
  · refine ⟨h.st, h.out, by simp [h.len], by simp [h.idx], ?_, h.code⟩
    simp only [List.length_append, List.length_singleton, h.idx]
    rw [take_set_succ _ _ _ (by rw [h.len]; omega), h.pend]

theorem flushPending_rep {a : Automaton} {st : State} {out P : List Nat} {code : Nat}
    (h : Rep a st out P code) (h9 : P.length ≤ 9) :
    ∃ a', a.flushPending = some a' ∧ Rep a' .init (out ++ P) [] 0 := by
  refine ⟨{ a with stringSoFar := a.stringSoFar ++ a.pending.take a.pendingIdx,
                   pendingIdx := 0, escapeCode := 0, state := .init }, ?_, ?_⟩
  · simp [Automaton.flushPending, h.idx, h.len, h9]
  · refine ⟨rfl, ?_, h.len, rfl, by simp, rfl⟩
    simp [h.idx, h.pend, h.out]

theorem closeEscapeSeq_rep {a : Automaton} {st : State} {out P : List Nat} {code : Nat}
    (h : Rep a st out P code) : Rep a.closeEscapeSeq .init (out ++ [code]) [] 0 := by
  refine ⟨rfl, ?_, h.len, rfl, by simp, rfl⟩
  simp [Automaton.closeEscapeSeq, h.out, h.code]

theorem hexValue_snoc (ds : List Nat) (d : Nat) : hexValue (ds ++ [d]) = hexValue ds * 16 + hexVal d := by
  simp [hexValue, List.foldl_append]

theorem hexFold_lt (ds : List Nat) (a : Nat) :
    ds.foldl (fun a d => a * 16 + hexVal d) a < (a + 1) * 16 ^ ds.length := by
  induction ds generalizing a with
  | nil => simp
  | cons d ds ih =>
    have h1 := ih (a * 16 + hexVal d)
    have h2 := hexVal_lt d
    have h3 : (a * 16 + hexVal d + 1) * 16 ^ ds.length ≤ ((a + 1) * 16) * 16 ^ ds.length :=
      Nat.mul_le_mul_right _ (by omega)
    simp only [List.foldl_cons, List.length_cons, Nat.pow_succ]
    rw [Nat.mul_comm (16 ^ ds.length) 16, ← Nat.mul_assoc]
    omega

theorem hexValue_lt (ds : List Nat) : hexValue ds < 16 ^ ds.length := by
  have := hexFold_lt ds 0
  simpa [hexValue] using this

theorem shl_or (c h : Nat) (hc : c < 2 ^ 28) (hh : h < 16) :
    ((c <<< 4) % 4294967296) ||| h = c * 16 + h := by
  have h1 : c <<< 4 = c * 16 := by simp [Nat.shiftLeft_eq]
  rw [Nat.mod_eq_of_lt (by rw [h1]; omega), ← Nat.shiftLeft_add_eq_or_of_lt (by simpa using hh), h1]

theorem addHex_rep {a : Automaton} {st : State} {out P : List Nat} {code : Nat}
    (h : Rep a st out P code) (h8 : P.length ≤ 8) (hc : code < 2 ^ 28) (x : Nat)
    (hx : isHex x = true) :
    ∃ a', a.addHex x = some a' ∧ Rep a' st out (P ++ [x]) (code * 16 + hexVal x) := by
  have hd : toDigit16 x = some (hexVal x) := by
    rw [toDigit16_eq]; unfold hexVal; unfold isHex at hx
    cases hv : hexVal? x with
    | none => simp [hv] at hx
    | some v => simp
  have h' : Rep { a with escapeCode := ((a.escapeCode <<< 4) % 4294967296) ||| hexVal x } st out P
      (code * 16 + hexVal x) :=
    ⟨h.st, h.out, h.len, h.idx, h.pend, by simp [h.code, shl_or code _ hc (hexVal_lt x)]⟩
  obtain ⟨a', ha', hr⟩ := addPending_rep h' h8 x
  exact ⟨a', by simp [Automaton.addHex, hd, ha'], hr⟩

/-- the pending text is a backslash followed by characters that are copied as they are -/
theorem shape_harmless {st : State} {P : List Nat} {code : Nat} (h : Shape st P code) :
    P.length ≤ 8 ∧ (P = [] ∨ ∃ p, P = 92 :: p ∧ ∀ c ∈ p, c ≠ 92 ∧ c ≤ MAX_CHAR) := by
  have hex_ok : ∀ ds, H ds → ∀ c ∈ ds, c ≠ 92 ∧ c ≤ MAX_CHAR := by
    intro ds hd c hc
    have := (isHex_iff c).1 (hd c hc)
    have hm : MAX_CHAR = 196607 := rfl
    omega
  cases h with
  | init => exact ⟨by simp, Or.inl rfl⟩
  | slash => exact ⟨by simp, Or.inr ⟨[], rfl, by simp⟩⟩
  | slashU => exact ⟨by simp, Or.inr ⟨[117], rfl, by simp [MAX_CHAR]⟩⟩
  | hex ds h1 h3 hd =>
    refine ⟨by simp; omega, Or.inr ⟨117 :: ds, rfl, ?_⟩⟩
    intro c hc
    rcases List.mem_cons.1 hc with rfl | hc
    · simp [MAX_CHAR]
    · exact hex_ok ds hd c hc
  | brace ds h5 hd =>
    refine ⟨by simp; omega, Or.inr ⟨117 :: 123 :: ds, rfl, ?_⟩⟩
    intro c hc
    rcases List.mem_cons.1 hc with rfl | hc
    · simp [MAX_CHAR]
    · rcases List.mem_cons.1 hc with rfl | hc
      · simp [MAX_CHAR]
      · exact hex_ok ds hd c hc

/-- one step of the automaton is one step of the specification: after reading `x` with pending
    text `P` and output `out`, the new pending text `P'` and output `out'` denote the same result
    whatever text `t` follows -/
def StepOK (out P : List Nat) (x : Nat) (a' : Automaton) : Prop :=
  ∃ st' out' P' code', Rep a' st' out' P' code' ∧ Shape st' P' code' ∧
    ∀ t, out ++ specParse (P ++ x :: t) = out' ++ specParse (P' ++ t)

theorem consume_spec {a : Automaton} {out : List Nat} (h : Rep a .init out [] 0) (x : Nat) :
    ∃ a', a.consume x = some a' ∧ StepOK out [] x a' := by
  by_cases hx : x = 92
  · subst hx
    obtain ⟨a1, h1, r1⟩ := addPending_rep h (by simp) 92
    refine ⟨{ a1 with state := .afterSlash }, by simp [Automaton.consume, h1], ?_⟩
    refine ⟨.afterSlash, out, [92], 0, ?_, Shape.slash, fun t => by simp⟩
    have := rep_state r1 .afterSlash
    simpa using this
  · refine ⟨a.push x, by simp [Automaton.consume, hx], ?_⟩
    refine ⟨.init, out ++ [copyChar x], [], 0, ?_, Shape.init, fun t => ?_⟩
    · refine ⟨h.st, ?_, h.len, h.idx, h.pend, h.code⟩
      simp [Automaton.push, h.out, copyChar]
    · simp [specParse_copy (escapeAt_ne_bs (t := t) hx)]

theorem flush_consume_spec {a : Automaton} {st : State} {out P : List Nat} {code : Nat}
    (h : Rep a st out P code) (hs : Shape st P code) (x : Nat)
    (hn : ∀ t, escapeAt (P ++ x :: t) = none) :
    ∃ a', (do let a ← a.flushPending; a.consume x) = some a' ∧ StepOK out P x a' := by
  obtain ⟨h8, hP⟩ := shape_harmless hs
  obtain ⟨a1, h1, r1⟩ := flushPending_rep h (by omega)
  obtain ⟨a2, h2, st', out', P', code', r2, s2, e2⟩ := consume_spec r1 x
  refine ⟨a2, by simp [h1, h2], st', out', P', code', r2, s2, fun t => ?_⟩
  rw [← e2 t]
  rcases hP with rfl | ⟨p, rfl, hp⟩
  · simp
  · have := specParse_flush p (x :: t) hp (by simpa using hn t)
    simp only [List.cons_append] at this ⊢
    rw [this]; simp

theorem noHexHead_cons {x : Nat} {t : List Nat} (hx : isHex x = false) : NoHexHead (x :: t) := by
  simp [NoHexHead, hx]

theorem H_snoc {ds : List Nat} {x : Nat} (hd : H ds) (hx : isHex x = true) : H (ds ++ [x]) := by
  intro d hdm
  rcases List.mem_append.1 hdm with h | h
  · exact hd d h
  · simp at h; subst h; exact hx

theorem step_spec {a : Automaton} {st : State} {out P : List Nat} {code : Nat}
    (h : Rep a st out P code) (hs : Shape st P code) (x : Nat) :
    ∃ a', a.accept x = some a' ∧ StepOK out P x a' := by
  have hflush : a.accept x = (do let a ← a.flushPending; a.consume x) →
      (∀ t, escapeAt (P ++ x :: t) = none) → ∃ a', a.accept x = some a' ∧ StepOK out P x a' := by
    intro hacc hn
    rw [hacc]; exact flush_consume_spec h hs x hn
  cases hs with
  | init =>
    have : a.accept x = a.consume x := by simp [Automaton.accept, h.st]
    rw [this]; exact consume_spec h x
  | slash =>
    by_cases hx : x = 117
    · subst hx
      obtain ⟨a1, h1, r1⟩ := addPending_rep h (by simp) 117
      refine ⟨{ a1 with state := .afterSlashU }, by simp [Automaton.accept, h.st, h1], ?_⟩
      exact ⟨.afterSlashU, out, [92, 117], 0, by simpa using rep_state r1 .afterSlashU,
        Shape.slashU, fun t => by simp⟩
    · exact hflush (by simp [Automaton.accept, h.st, hx]) (fun t => by simp [escapeAt, hx])
  | slashU =>
    by_cases hx : x = 123
    · subst hx
      obtain ⟨a1, h1, r1⟩ := addPending_rep h (by simp) 123
      refine ⟨{ a1 with state := .afterSlashUBrace }, by simp [Automaton.accept, h.st, h1], ?_⟩
      exact ⟨.afterSlashUBrace, out, [92, 117, 123], 0, by simpa using rep_state r1 .afterSlashUBrace,
        Shape.brace [] (by simp) (by simp [H]), fun t => by simp⟩
    · by_cases hh : isHex x = true
      · obtain ⟨a1, h1, r1⟩ := addHex_rep h (by simp) (by omega) x hh
        refine ⟨{ a1 with state := .afterSlashUHex },
          by simp [Automaton.accept, h.st, hx, isAsciiHexdigit_eq, hh, h1], ?_⟩
        refine ⟨.afterSlashUHex, out, [92, 117, x], hexValue [x], ?_,
          Shape.hex [x] (by simp) (by simp) (by simp [H, hh]), fun t => by simp⟩
        have := rep_state r1 .afterSlashUHex
        simpa [hexValue] using this
      · have hh' : isHex x = false := by simpa using hh
        refine hflush (by simp [Automaton.accept, h.st, hx, isAsciiHexdigit_eq, hh']) (fun t => ?_)
        exact escapeAt_u_short [] (x :: t) (by simp [H]) (by simp) (noHexHead_cons hh') (by simp [hx])
  | hex ds h1 h3 hd =>
    by_cases hh : isHex x = true
    · obtain ⟨a1, e1, r1⟩ := addHex_rep h (by simp; omega)
        (by have := hexValue_lt ds
            have : (16:Nat) ^ ds.length ≤ 16 ^ 3 := Nat.pow_le_pow_right (by omega) h3
            omega) x hh
      have hidx : a1.pendingIdx = 3 + ds.length := by simp [r1.idx]; omega
      by_cases h4 : ds.length = 3
      · refine ⟨a1.closeEscapeSeq,
          by simp [Automaton.accept, h.st, isAsciiHexdigit_eq, hh, e1, hidx, h4], ?_⟩
        refine ⟨.init, out ++ [hexValue (ds ++ [x])], [], 0, ?_, Shape.init, fun t => ?_⟩
        · have := closeEscapeSeq_rep r1
          simpa [hexValue_snoc] using this
        · match ds, h4, hd with
          | [a, b, c], _, hd =>
            have := escapeAt_hex4 a b c x t (hd a (by simp)) (hd b (by simp)) (hd c (by simp)) hh
            simp [specParse_esc this]
      · refine ⟨a1, by simp [Automaton.accept, h.st, isAsciiHexdigit_eq, hh, e1, hidx]; omega, ?_⟩
        refine ⟨.afterSlashUHex, out, 92 :: 117 :: (ds ++ [x]), hexValue (ds ++ [x]), ?_,
          Shape.hex (ds ++ [x]) (by simp) (by simp; omega) (H_snoc hd hh), fun t => by simp⟩
        simpa [hexValue_snoc] using r1
    · have hh' : isHex x = false := by simpa using hh
      refine hflush (by simp [Automaton.accept, h.st, isAsciiHexdigit_eq, hh']) (fun t => ?_)
      refine escapeAt_u_short ds (x :: t) hd h3 (noHexHead_cons hh') ?_
      match ds, h1, hd with
      | d :: ds', _, hd =>
        have := isHex_ne_123 (hd d (by simp))
        simp [this]
  | brace ds h5 hd =>
    have hidx : a.pendingIdx = 3 + ds.length := by simp [h.idx]; omega
    by_cases hc : x = 125 ∧ 1 ≤ ds.length ∧ hexValue ds ≤ MAX_CHAR
    · obtain ⟨hx, hl, hv⟩ := hc
      subst hx
      refine ⟨a.closeEscapeSeq,
        by simp [Automaton.accept, h.st, hidx, h.code, hv]; intro h0; subst h0; simp at hl, ?_⟩
      refine ⟨.init, out ++ [hexValue ds], [], 0, closeEscapeSeq_rep h, Shape.init, fun t => ?_⟩
      have h125 : isHex 125 = false := by decide
      have := escapeAt_brace ds (125 :: t) hd (noHexHead_cons h125)
      simp [hl, h5, hv] at this
      simp [specParse_esc this]
    · by_cases hh : isHex x = true ∧ ds.length < 5
      · obtain ⟨hh, hl⟩ := hh
        have hx125 : x ≠ 125 := by have := (isHex_iff x).1 hh; omega
        obtain ⟨a1, e1, r1⟩ := addHex_rep h (by simp; omega)
          (by have := hexValue_lt ds
              have : (16:Nat) ^ ds.length ≤ 16 ^ 5 := Nat.pow_le_pow_right (by omega) h5
              omega) x hh
        refine ⟨a1, by simp [Automaton.accept, h.st, hidx, hx125, isAsciiHexdigit_eq, hh, e1]; omega, ?_⟩
        refine ⟨.afterSlashUBrace, out, 92 :: 117 :: 123 :: (ds ++ [x]), hexValue (ds ++ [x]), ?_,
          Shape.brace (ds ++ [x]) (by simp; omega) (H_snoc hd hh), fun t => by simp⟩
        simpa [hexValue_snoc] using r1
      · have hacc : a.accept x = (do let a ← a.flushPending; a.consume x) := by
          simp only [Automaton.accept, h.st, hidx, h.code, isAsciiHexdigit_eq]
          rw [if_neg (by intro hc'; exact hc ⟨hc'.1, by omega, hc'.2.2⟩),
            if_neg (by intro hh'; exact hh ⟨hh'.1, by omega⟩)]
        refine hflush hacc (fun t => ?_)
        by_cases hx : isHex x = true
        · have h55 : ds.length = 5 := by
            have : ¬ ds.length < 5 := fun hl => hh ⟨hx, hl⟩
            omega
          have := escapeAt_brace_long (ds ++ [x]) t (H_snoc hd hx) (by simp; omega)
          simpa using this
        · have hx' : isHex x = false := by simpa using hx
          have := escapeAt_brace ds (x :: t) hd (noHexHead_cons hx')
          simp only [List.cons_append] at this ⊢
          rw [this, if_neg]
          intro hc'
          simp at hc'
          exact hc ⟨hc'.2.2.1, hc'.1, hc'.2.2.2⟩

/-- run the automaton from `a` over `t`, then the final `flush_pending`; the string so far -/
def finish (a : Automaton) (t : List Nat) : Option (List Nat) := do
  let p ← t.foldlM Automaton.accept a
  let p ← p.flushPending
  pure p.stringSoFar

theorem finish_cons (a : Automaton) (x : Nat) (t : List Nat) :
    finish a (x :: t) = (a.accept x).bind (fun a' => finish a' t) := by
  simp only [finish, List.foldlM_cons]
  cases a.accept x <;> simp

/-- a pending text that was never completed is copied as it is -/
theorem specParse_pending {st : State} {P : List Nat} {code : Nat} (hs : Shape st P code) :
    specParse P = P := by
  obtain ⟨_, hP⟩ := shape_harmless hs
  rcases hP with rfl | ⟨p, rfl, hp⟩
  · exact specParse_nil
  · have hn : escapeAt (92 :: (p ++ [])) = none := by
      cases hs with
      | slash => simp [escapeAt]
      | slashU => simp [escapeAt]
      | hex ds h1 h3 hd =>
        refine escapeAt_u_short ds [] hd h3 (by simp [NoHexHead]) ?_
        match ds, h1, hd with
        | d :: ds', _, hd =>
          have := isHex_ne_123 (hd d (by simp))
          simp [this]
      | brace ds h5 hd =>
        have := escapeAt_brace ds [] hd (by simp [NoHexHead])
        simpa using this
    have := specParse_flush p [] hp hn
    simpa [specParse_nil] using this

/-- the whole run: from any reachable configuration, the automaton outputs what the
    specification says about (pending text ++ remaining text) -/
theorem run_spec (t : List Nat) : ∀ (a : Automaton) (st : State) (out P : List Nat) (code : Nat),
    Rep a st out P code → Shape st P code → finish a t = some (out ++ specParse (P ++ t)) := by
  induction t with
  | nil =>
    intro a st out P code h hs
    obtain ⟨h8, _⟩ := shape_harmless hs
    obtain ⟨a1, e1, r1⟩ := flushPending_rep h (by omega)
    simp [finish, e1, r1.out, specParse_pending hs]
  | cons x t ih =>
    intro a st out P code h hs
    obtain ⟨a', e', st', out', P', code', r', s', eq'⟩ := step_spec h hs x
    rw [finish_cons, e', Option.bind_some, ih a' st' out' P' code' r' s', eq' t]

theorem parse_eq_finish (t : List Nat) :
    parseSmtLiteral t = (finish newAutomaton t).bind make := by
  simp only [parseSmtLiteral, finish]
  cases List.foldlM Automaton.accept newAutomaton t with
  | none => simp
  | some p => cases hp : p.flushPending <;> simp [hp]

theorem parse_spec (t : List Nat) : parseSmtLiteral t = make (specParse t) := by
  rw [parse_eq_finish, run_spec t newAutomaton .init [] [] 0 rep_new Shape.init]
  simp

/-! ## Part D: printing -/

theorem hexDigitChar_spec : ∀ d, d < 16 →
    isHex (hexDigitChar d) = true ∧ hexVal (hexDigitChar d) = d ∧
    ((48 ≤ hexDigitChar d ∧ hexDigitChar d ≤ 57) ∨ (97 ≤ hexDigitChar d ∧ hexDigitChar d ≤ 102)) := by
  decide

/-- lower-case hexadecimal digit characters -/
def LowerHex (ds : List Nat) : Prop := ∀ d ∈ ds, (48 ≤ d ∧ d ≤ 57) ∨ (97 ≤ d ∧ d ≤ 102)

theorem LowerHex.H {ds : List Nat} (h : LowerHex ds) : H ds := by
  intro d hd; rw [isHex_iff]; have := h d hd; omega

theorem hexDigitsOf_lower (x : Nat) : LowerHex (hexDigitsOf x) := by
  fun_induction hexDigitsOf x with
  | case1 x hx =>
    intro d hd; simp at hd; subst hd; exact (hexDigitChar_spec x hx).2.2
  | case2 x hx ih =>
    intro d hd
    rcases List.mem_append.1 hd with h | h
    · exact ih d h
    · simp at h; subst h; exact (hexDigitChar_spec (x % 16) (by omega)).2.2

theorem hexDigitsOf_value (x : Nat) : hexValue (hexDigitsOf x) = x := by
  fun_induction hexDigitsOf x with
  | case1 x hx => simp [hexValue, (hexDigitChar_spec x hx).2.1]
  | case2 x hx ih =>
    rw [hexValue_snoc, ih, (hexDigitChar_spec (x % 16) (by omega)).2.1]; omega

theorem hexDigitsOf_len_le (k : Nat) : ∀ x, x < 16 ^ (k + 1) → (hexDigitsOf x).length ≤ k + 1 := by
  induction k with
  | zero => intro x hx; rw [hexDigitsOf]; simp at hx; simp [hx]
  | succ k ih =>
    intro x hx
    rw [hexDigitsOf]
    split
    · simp
    · have : x / 16 < 16 ^ (k + 1) := by rw [Nat.pow_succ] at hx; omega
      have := ih (x / 16) this
      simp; omega

theorem hexDigitsOf_len_ge (k : Nat) : ∀ x, 16 ^ k ≤ x → k + 1 ≤ (hexDigitsOf x).length := by
  induction k with
  | zero => intro x _; rw [hexDigitsOf]; split <;> simp
  | succ k ih =>
    intro x hx
    rw [hexDigitsOf]
    rw [Nat.pow_succ] at hx
    split
    · have : 0 < 16 ^ k := Nat.pow_pos (by omega)
      omega
    · have := ih (x / 16) (by omega)
      simp; omega

theorem hexValue_zeros (n : Nat) (ds : List Nat) : hexValue (List.replicate n 48 ++ ds) = hexValue ds := by
  induction n with
  | zero => simp
  | succ n ih =>
    have h0 : hexVal 48 = 0 := by decide
    simp only [hexValue, List.replicate_succ, List.cons_append, List.foldl_cons, h0] at ih ⊢
    exact ih

theorem hexPad_lower (w x : Nat) : LowerHex (hexPad w x) := by
  intro d hd
  rcases List.mem_append.1 hd with h | h
  · have := List.eq_of_mem_replicate h; omega
  · exact hexDigitsOf_lower x d h

theorem hexPad_value (w x : Nat) : hexValue (hexPad w x) = x := by
  rw [hexPad, hexValue_zeros, hexDigitsOf_value]

theorem hexPad_len (w x : Nat) (h : (hexDigitsOf x).length ≤ w) : (hexPad w x).length = w := by
  simp [hexPad]; omega

/-- the piece `Display` writes for `x`, without the panic channel -/
def pieceOf (x : Nat) : List Nat :=
  if x = 34 then [34, 34]
  else if x ≥ 32 ∧ x < 127 ∧ x ≠ 92 then [x]
  else if x < 32 ∨ x = 127 ∨ x = 92 then [92, 117, 123] ++ hexPad 2 x ++ [125]
  else if x < 0x10000 then [92, 117] ++ hexPad 4 x
  else [92, 117, 123] ++ hexDigitsOf x ++ [125]

theorem displayPiece_eq (x : Nat) : displayPiece x = some (pieceOf x) := by
  unfold displayPiece pieceOf
  split
  · rfl
  · split
    · rename_i h
      have : Scalar x := by unfold Scalar; omega
      simp [charFromU32, this]
    · repeat' split
      all_goals rfl

theorem smtCharAsString_eq (x : Nat) : smtCharAsString x = displayPiece x := rfl
theorem charToSmt_eq (x : Nat) : charToSmt x = displayPiece x := rfl

theorem displayBody_eq (s : List Nat) : displayBody s = some (s.flatMap pieceOf) := by
  induction s with
  | nil => rfl
  | cons x s ih => simp [displayBody, displayPiece_eq, ih]

theorem pieceOf_ascii (x : Nat) : ∀ c ∈ pieceOf x, 32 ≤ c ∧ c ≤ 126 := by
  have lower : ∀ ds, LowerHex ds → ∀ c ∈ ds, 32 ≤ c ∧ c ≤ 126 := by
    intro ds h c hc; have := h c hc; omega
  intro c hc
  unfold pieceOf at hc
  split at hc
  · simp at hc; omega
  · split at hc
    · simp at hc; omega
    · split at hc
      · simp at hc
        rcases hc with rfl | rfl | rfl | h | rfl <;> try omega
        exact lower _ (hexPad_lower 2 x) c h
      · split at hc
        · simp at hc
          rcases hc with rfl | rfl | h <;> try omega
          exact lower _ (hexPad_lower 4 x) c h
        · simp at hc
          rcases hc with rfl | rfl | rfl | h | rfl <;> try omega
          exact lower _ (hexDigitsOf_lower x) c h

theorem pieceOf_quote : pieceOf 34 = [34, 34] := by simp [pieceOf]

theorem pieceOf_no_quote (x : Nat) (hx : x ≠ 34) : 34 ∉ pieceOf x := by
  have lower : ∀ ds, LowerHex ds → 34 ∉ ds := by
    intro ds h hc; have := h 34 hc; omega
  intro hc
  unfold pieceOf at hc
  rw [if_neg hx] at hc
  split at hc
  · simp at hc; omega
  · split at hc
    · simp at hc; exact lower _ (hexPad_lower 2 x) hc
    · split at hc
      · simp at hc; exact lower _ (hexPad_lower 4 x) hc
      · simp at hc; exact lower _ (hexDigitsOf_lower x) hc

/-- the piece for `x` once doubled quotes are undone -/
def pieceU (x : Nat) : List Nat := if x = 34 then [34] else pieceOf x

theorem undouble_cons_ne (c : Nat) (q : List Nat) (hc : c ≠ 34) : undouble (c :: q) = c :: undouble q := by
  cases q with
  | nil => simp [undouble]
  | cons d q => simp [undouble, hc]

theorem undouble_no_quote (p r : List Nat) (h : 34 ∉ p) : undouble (p ++ r) = p ++ undouble r := by
  induction p with
  | nil => rfl
  | cons c p ih =>
    have hc : c ≠ 34 := fun e => h (by simp [e])
    have hp : 34 ∉ p := fun e => h (List.mem_cons_of_mem _ e)
    rw [List.cons_append, undouble_cons_ne _ _ hc, ih hp]; rfl

theorem undouble_body (s : List Nat) : undouble (s.flatMap pieceOf) = s.flatMap pieceU := by
  induction s with
  | nil => rfl
  | cons x s ih =>
    simp only [List.flatMap_cons]
    by_cases hx : x = 34
    · subst hx; simp [pieceOf_quote, pieceU, undouble, ih]
    · rw [undouble_no_quote _ _ (pieceOf_no_quote x hx), ih]; simp [pieceU, hx]

theorem quotesPaired_cons_ne (c : Nat) (q : List Nat) (hc : c ≠ 34) :
    quotesPaired (c :: q) = quotesPaired q := by
  cases q with
  | nil => simp [quotesPaired, hc]
  | cons d q => simp [quotesPaired, hc]

theorem quotesPaired_no_quote (p r : List Nat) (h : 34 ∉ p) : quotesPaired (p ++ r) = quotesPaired r := by
  induction p with
  | nil => rfl
  | cons c p ih =>
    have hc : c ≠ 34 := fun e => h (by simp [e])
    have hp : 34 ∉ p := fun e => h (List.mem_cons_of_mem _ e)
    rw [List.cons_append, quotesPaired_cons_ne _ _ hc, ih hp]

theorem quotesPaired_body (s : List Nat) : quotesPaired (s.flatMap pieceOf) = true := by
  induction s with
  | nil => rfl
  | cons x s ih =>
    simp only [List.flatMap_cons]
    by_cases hx : x = 34
    · subst hx; simp [pieceOf_quote, quotesPaired, ih]
    · rw [quotesPaired_no_quote _ _ (pieceOf_no_quote x hx), ih]

theorem count_quote_body (s : List Nat) : (s.flatMap pieceOf).count 34 = 2 * s.count 34 := by
  induction s with
  | nil => rfl
  | cons x s ih =>
    simp only [List.flatMap_cons, List.count_append, ih, List.count_cons]
    by_cases hx : x = 34
    · subst hx; simp [pieceOf_quote]; omega
    · have := List.count_eq_zero_of_not_mem (pieceOf_no_quote x hx)
      simp [this, hx]

/-- reading one printed character back -/
theorem specParse_pieceU (x : Nat) (r : List Nat) (hx : x ≤ MAX_CHAR) :
    specParse (pieceU x ++ r) = x :: specParse r := by
  have hm : MAX_CHAR = 196607 := rfl
  have h125 : isHex 125 = false := by decide
  by_cases h1 : x = 34
  · subst h1
    have : pieceU 34 = [34] := by simp [pieceU]
    rw [this, List.cons_append, List.nil_append, specParse_copy (escapeAt_ne_bs (by omega))]
    simp [copyChar, hm]
  by_cases h2 : x ≥ 32 ∧ x < 127 ∧ x ≠ 92
  · have : pieceU x = [x] := by simp [pieceU, pieceOf, h1, h2]
    rw [this, List.cons_append, List.nil_append, specParse_copy (escapeAt_ne_bs (by omega))]
    simp [copyChar, hx]
  by_cases h3 : x < 32 ∨ x = 127 ∨ x = 92
  · have hp : pieceU x = [92, 117, 123] ++ hexPad 2 x ++ [125] := by
      simp only [pieceU, pieceOf, if_neg h1, if_neg h2, if_pos h3]
    have hl : (hexPad 2 x).length = 2 :=
      hexPad_len 2 x (hexDigitsOf_len_le 1 x (by simp; omega))
    have := escapeAt_brace (hexPad 2 x) (125 :: r) (hexPad_lower 2 x).H (noHexHead_cons h125)
    simp [hl, hexPad_value, hx] at this
    rw [hp]
    simp [specParse_esc this]
  by_cases h4 : x < 0x10000
  · have hp : pieceU x = [92, 117] ++ hexPad 4 x := by
      simp only [pieceU, pieceOf, if_neg h1, if_neg h2, if_neg h3, if_pos h4]
    have hl : (hexPad 4 x).length = 4 :=
      hexPad_len 4 x (hexDigitsOf_len_le 3 x (by simp; omega))
    have hv := hexPad_value 4 x
    have hh := (hexPad_lower 4 x).H
    rw [hp]
    match hq : hexPad 4 x, hl with
    | [a, b, c, d], _ =>
      rw [hq] at hv hh
      have := escapeAt_hex4 a b c d r (hh a (by simp)) (hh b (by simp)) (hh c (by simp))
        (hh d (by simp))
      simp [specParse_esc this, hv]
  · have hp : pieceU x = [92, 117, 123] ++ hexDigitsOf x ++ [125] := by
      simp only [pieceU, pieceOf, if_neg h1, if_neg h2, if_neg h3, if_neg h4]
    have hl1 : (hexDigitsOf x).length ≤ 5 := hexDigitsOf_len_le 4 x (by simp; omega)
    have hl2 : 1 ≤ (hexDigitsOf x).length := hexDigitsOf_len_ge 0 x (by simp; omega)
    have := escapeAt_brace (hexDigitsOf x) (125 :: r) (hexDigitsOf_lower x).H
      (noHexHead_cons h125)
    simp [hl1, hl2, hexDigitsOf_value, hx] at this
    rw [hp]
    simp [specParse_esc this]

theorem specParse_body (s : List Nat) (hs : WFs s) : specParse (s.flatMap pieceU) = s := by
  induction s with
  | nil => exact specParse_nil
  | cons x s ih =>
    have hx : x ≤ MAX_CHAR := hs x List.mem_cons_self
    have hs' : WFs s := fun y hy => hs y (List.mem_cons_of_mem _ hy)
    rw [List.flatMap_cons, specParse_pieceU x _ hx, ih hs']

end Smt.LiteralProofs
