/-
  Helper lemmas for C03 (derivatives are left quotients, derivative classes are uniform).

  * an induction principle for the nested inductive type `RE`
  * `lq c L` (left quotient of a language by a character) and its algebra:
    quotient of a product, of a power, of `loopLang` (the rule with `LoopRange.shift`),
    of union / relative complement / relative intersection
  * basic facts of `RE.lang` that do not depend on the id assignment:
    `lang_wfs` (every word of a well-formed term is an SMT string), `nullable_iff`
  * `derivClass_wf`, refinement of the derivative classes of a compound term,
    `deriv_class_uniform`
  * `classRep` facts
  * the hypotheses about the smart constructors (`ConsFacts`, `NZFacts`) and the main induction
    `computeDeriv_spec`
-/
import Mathlib.Computability.Language
import SmtModel.Proofs.ReLang
import SmtModel.Proofs.ReNZ
import SmtModel.Model.Deriv
import SmtModel.Props.C11
import SmtModel.Props.C12

namespace Smt.Deriv
open Smt RE CharPartition

/-! ### induction principle for `RE` -/

mutual
theorem re_ind (P : RE → Prop)
    (h_empty : P .empty) (h_eps : P .epsilon) (h_range : ∀ s, P (.range s))
    (h_concat : ∀ a b, P a → P b → P (.concat a b))
    (h_loop : ∀ e r, P e → P (.loop e r))
    (h_compl : ∀ e, P e → P (.compl e))
    (h_inter : ∀ l, (∀ e ∈ l, P e) → P (.inter l))
    (h_union : ∀ l, (∀ e ∈ l, P e) → P (.union l)) : ∀ e : RE, P e
  | .empty => h_empty
  | .epsilon => h_eps
  | .range s => h_range s
  | .concat a b => h_concat a b
      (re_ind P h_empty h_eps h_range h_concat h_loop h_compl h_inter h_union a)
      (re_ind P h_empty h_eps h_range h_concat h_loop h_compl h_inter h_union b)
  | .loop e r => h_loop e r (re_ind P h_empty h_eps h_range h_concat h_loop h_compl h_inter h_union e)
  | .compl e => h_compl e (re_ind P h_empty h_eps h_range h_concat h_loop h_compl h_inter h_union e)
  | .inter l => h_inter l
      (re_ind_list P h_empty h_eps h_range h_concat h_loop h_compl h_inter h_union l)
  | .union l => h_union l
      (re_ind_list P h_empty h_eps h_range h_concat h_loop h_compl h_inter h_union l)
theorem re_ind_list (P : RE → Prop)
    (h_empty : P .empty) (h_eps : P .epsilon) (h_range : ∀ s, P (.range s))
    (h_concat : ∀ a b, P a → P b → P (.concat a b))
    (h_loop : ∀ e r, P e → P (.loop e r))
    (h_compl : ∀ e, P e → P (.compl e))
    (h_inter : ∀ l, (∀ e ∈ l, P e) → P (.inter l))
    (h_union : ∀ l, (∀ e ∈ l, P e) → P (.union l)) : ∀ l : List RE, ∀ e ∈ l, P e
  | [] => fun _ h => by cases h
  | x :: xs => fun e he => (List.mem_cons.1 he).elim
      (fun h => h ▸ re_ind P h_empty h_eps h_range h_concat h_loop h_compl h_inter h_union x)
      (fun h => re_ind_list P h_empty h_eps h_range h_concat h_loop h_compl h_inter h_union xs e h)
end

/-! ### list forms of the mutually defined list functions -/

theorem derivList_eq_map (ord : RE → Nat) (l : List RE) (c : Nat) :
    derivList ord l c = l.map (fun x => computeDeriv ord x (classRep x.derivClass c)) := by
  induction l with
  | nil => simp [derivList]
  | cons x xs ih => simp [derivList, ih]

theorem allNullable_iff (l : List RE) : allNullable l = true ↔ ∀ e ∈ l, e.nullable = true := by
  induction l with
  | nil => simp [allNullable]
  | cons x xs ih => simp [allNullable, ih]

theorem anyNullable_iff (l : List RE) : anyNullable l = true ↔ ∃ e ∈ l, e.nullable = true := by
  induction l with
  | nil => simp [anyNullable]
  | cons x xs ih => simp [anyNullable, ih]

/-- the side condition of `RE.WF` on a loop range -/
def RangeOK (r : LoopRange) : Prop := match r.stop with | some j => r.start ≤ j | none => True

/-! ### left quotient of a language by a character -/

/-- `c⁻¹ L = { w | c·w ∈ L }` -/
def lq (c : ℕ) (L : Language ℕ) : Language ℕ := {w | c :: w ∈ L}

theorem mem_lq {c : ℕ} {L : Language ℕ} {w : List ℕ} : w ∈ lq c L ↔ c :: w ∈ L := Iff.rfl

theorem lq_zero (c : ℕ) : lq c 0 = 0 := by
  ext w; simp only [mem_lq]
  exact ⟨fun h => absurd h (Language.notMem_zero _), fun h => absurd h (Language.notMem_zero _)⟩

theorem lq_one (c : ℕ) : lq c 1 = 0 := by
  ext w; simp only [mem_lq, Language.mem_one]
  exact ⟨fun h => (by cases h), fun h => absurd h (Language.notMem_zero _)⟩

theorem lq_add (c : ℕ) (A B : Language ℕ) : lq c (A + B) = lq c A + lq c B := by
  ext w; simp only [mem_lq, Language.mem_add]

/-- `c⁻¹(A·B) = (c⁻¹A)·B ∪ [ε ∈ A] c⁻¹B` -/
theorem mem_lq_mul (c : ℕ) (A B : Language ℕ) (w : List ℕ) :
    w ∈ lq c (A * B) ↔ w ∈ lq c A * B ∨ ([] ∈ A ∧ w ∈ lq c B) := by
  simp only [mem_lq, Language.mem_mul]
  constructor
  · rintro ⟨u, hu, v, hv, huv⟩
    cases u with
    | nil => right; simp only [List.nil_append] at huv; subst huv; exact ⟨hu, hv⟩
    | cons a u' =>
      simp only [List.cons_append, List.cons.injEq] at huv
      obtain ⟨rfl, rfl⟩ := huv
      left; exact ⟨u', hu, v, hv, rfl⟩
  · rintro (⟨u', hu', v, hv, rfl⟩ | ⟨h0, hw⟩)
    · exact ⟨c :: u', hu', v, hv, rfl⟩
    · exact ⟨[], h0, c :: w, hw, rfl⟩

theorem lq_mul_of_nil_mem (c : ℕ) {A B : Language ℕ} (h : [] ∈ A) :
    lq c (A * B) = lq c A * B + lq c B := by
  ext w; rw [mem_lq_mul, Language.mem_add]; simp [h]

theorem lq_mul_of_nil_not_mem (c : ℕ) {A B : Language ℕ} (h : [] ∉ A) :
    lq c (A * B) = lq c A * B := by
  ext w; rw [mem_lq_mul]; simp [h]

/-- a word of `L^k` that starts with `c`: its first non-empty factor starts with `c`; the empty
    factors before it can be moved behind (`ε ∈ L`) -/
theorem lq_pow_sub {c : ℕ} {L : Language ℕ} : ∀ {k : ℕ} {w : List ℕ},
    c :: w ∈ L ^ k → 1 ≤ k ∧ w ∈ lq c L * L ^ (k - 1) := by
  intro k
  induction k with
  | zero =>
    intro w h
    rw [pow_zero, Language.mem_one] at h
    cases h
  | succ k ih =>
    intro w h
    refine ⟨by omega, ?_⟩
    rw [pow_succ', ← mem_lq, mem_lq_mul] at h
    simp only [Nat.add_sub_cancel]
    rcases h with h | ⟨h0, hw⟩
    · exact h
    · obtain ⟨hk, hw'⟩ := ih (mem_lq.1 hw)
      obtain ⟨a, ha, b, hb, rfl⟩ := Language.mem_mul.1 hw'
      refine Language.mem_mul.2 ⟨a, ha, b, ?_, rfl⟩
      have : k = (k - 1) + 1 := by omega
      rw [this, pow_succ']
      exact Language.mem_mul.2 ⟨[], h0, b, hb, rfl⟩

theorem lq_pow_sup {c : ℕ} {L : Language ℕ} {k : ℕ} {w : List ℕ}
    (h : w ∈ lq c L * L ^ k) : c :: w ∈ L ^ (k + 1) := by
  rw [pow_succ', ← mem_lq, mem_lq_mul]
  exact .inl h

/-! ### `LoopRange.shift` on the set denoted -/

theorem shift_mem_pred {r : LoopRange} {k : ℕ} (h : LoopRange.Mem k r) (hk : 1 ≤ k) :
    LoopRange.Mem (k - 1) r.shift := by
  obtain ⟨a, st⟩ := r
  unfold LoopRange.Mem at *
  cases a with
  | zero =>
    cases st with
    | none => simp [LoopRange.shift, LoopRange.infinite]
    | some j =>
      cases j with
      | zero => simp at h; omega
      | succ j =>
        simp only [LoopRange.shift, LoopRange.finite] at *
        omega
  | succ a =>
    cases st with
    | none => simp only [LoopRange.shift, LoopRange.infinite, and_true] at *; omega
    | some j => simp only [LoopRange.shift, LoopRange.finite] at *; omega

theorem shift_mem_succ {r : LoopRange} {m : ℕ} (hr : RangeOK r) (hz : r.isZero = false)
    (h : LoopRange.Mem m r.shift) : LoopRange.Mem (m + 1) r := by
  obtain ⟨a, st⟩ := r
  unfold LoopRange.Mem at *
  unfold RangeOK at hr
  cases a with
  | zero =>
    cases st with
    | none => simp
    | some j =>
      cases j with
      | zero => simp [LoopRange.isZero] at hz
      | succ j =>
        simp only [LoopRange.shift, LoopRange.finite] at *
        omega
  | succ a =>
    cases st with
    | none => simp only [LoopRange.shift, LoopRange.infinite, and_true] at *; omega
    | some j => simp only [LoopRange.shift, LoopRange.finite] at *; omega

theorem shift_rangeOK {r : LoopRange} (hr : RangeOK r) : RangeOK r.shift := by
  obtain ⟨a, st⟩ := r
  unfold RangeOK at *
  cases a with
  | zero =>
    cases st with
    | none => simp [LoopRange.shift, LoopRange.infinite]
    | some j =>
      cases j with
      | zero => simp [LoopRange.shift, LoopRange.point, LoopRange.finite]
      | succ j => simp [LoopRange.shift, LoopRange.finite]
  | succ a =>
    cases st with
    | none => simp [LoopRange.shift, LoopRange.infinite]
    | some j => simp only [LoopRange.shift, LoopRange.finite] at *; omega

/-- the loop rule: `c⁻¹(⋃_{k∈r} L^k) = (c⁻¹L)·(⋃_{k∈shift r} L^k)` for every range but `[0,0]`,
    nullable `L` or not, lower bound `0` or not -/
theorem lq_loop (c : ℕ) (L : Language ℕ) {r : LoopRange} (hr : RangeOK r)
    (hz : r.isZero = false) : lq c (loopLang L r) = lq c L * loopLang L r.shift := by
  ext w
  constructor
  · rintro ⟨k, hk, hw⟩
    obtain ⟨h1, hw'⟩ := lq_pow_sub hw
    obtain ⟨a, ha, b, hb, rfl⟩ := Language.mem_mul.1 hw'
    exact Language.mem_mul.2 ⟨a, ha, b, ⟨k - 1, shift_mem_pred hk h1, hb⟩, rfl⟩
  · intro h
    obtain ⟨a, ha, b, ⟨m, hm, hb⟩, rfl⟩ := Language.mem_mul.1 h
    exact ⟨m + 1, shift_mem_succ hr hz hm, lq_pow_sup (Language.mem_mul.2 ⟨a, ha, b, hb, rfl⟩)⟩

/-! ### well-formed strings -/

theorem wfs_cons {c : ℕ} {w : List ℕ} : WFs (c :: w) ↔ c ≤ MAX_CHAR ∧ WFs w := by
  simp [WFs]

theorem wfs_append {u v : List ℕ} : WFs (u ++ v) ↔ WFs u ∧ WFs v := by
  simp only [WFs, List.mem_append]
  constructor
  · intro h; exact ⟨fun c hc => h c (.inl hc), fun c hc => h c (.inr hc)⟩
  · rintro ⟨h1, h2⟩ c (hc | hc)
    · exact h1 c hc
    · exact h2 c hc

theorem wfs_nil : WFs [] := by simp [WFs]

theorem pow_wfs {L : Language ℕ} (hL : ∀ w, w ∈ L → WFs w) : ∀ (k : ℕ) (w : List ℕ),
    w ∈ L ^ k → WFs w := by
  intro k
  induction k with
  | zero => intro w h; rw [pow_zero, Language.mem_one] at h; subst h; exact wfs_nil
  | succ k ih =>
    intro w h
    rw [pow_succ'] at h
    obtain ⟨a, ha, b, hb, rfl⟩ := Language.mem_mul.1 h
    exact wfs_append.2 ⟨hL a ha, ih b hb⟩

/-- relative complement commutes with the quotient by a character of the alphabet -/
theorem lq_compl {c : ℕ} (hc : c ≤ MAX_CHAR) (L : Language ℕ) :
    lq c {w | WFs w ∧ w ∉ L} = {w | WFs w ∧ w ∉ lq c L} := by
  ext w
  show (WFs (c :: w) ∧ c :: w ∉ L) ↔ (WFs w ∧ c :: w ∉ L)
  rw [wfs_cons]; simp [hc]

/-! ### id-independent facts of `RE.lang` -/

/-- every word of the language of a well-formed term is an SMT string -/
theorem lang_wfs : ∀ e : RE, e.WF → ∀ w, w ∈ e.lang → WFs w := by
  intro e
  induction e using re_ind with
  | h_empty => intro _ w h; simp only [lang] at h; exact absurd h (Language.notMem_zero _)
  | h_eps =>
    intro _ w h; simp only [lang] at h
    rw [Language.mem_one] at h; subst h; exact wfs_nil
  | h_range s =>
    intro hs w h
    simp only [lang] at h
    simp only [RE.WF] at hs
    obtain ⟨c, rfl, h1, h2⟩ := h
    have := hs.2
    intro x hx
    simp only [List.mem_singleton] at hx
    subst hx; omega
  | h_concat a b iha ihb =>
    intro h w hw
    simp only [RE.WF] at h
    simp only [lang] at hw
    obtain ⟨u, hu, v, hv, rfl⟩ := Language.mem_mul.1 hw
    exact wfs_append.2 ⟨iha h.1 u hu, ihb h.2 v hv⟩
  | h_loop e r ih =>
    intro h w hw
    simp only [RE.WF] at h
    simp only [lang] at hw
    obtain ⟨k, _, hk⟩ := hw
    exact pow_wfs (ih h.1) k w hk
  | h_compl e _ => intro _ w hw; simp only [lang] at hw; exact hw.1
  | h_inter l _ => intro _ w hw; simp only [lang] at hw; exact hw.1
  | h_union l ih =>
    intro h w hw
    simp only [RE.WF] at h
    simp only [lang] at hw
    obtain ⟨e, he, hwe⟩ := (langAny_iff l w).1 hw
    exact ih e he ((WFList_iff l).1 h e he) w hwe

theorem nil_mem_pow_iff {L : Language ℕ} {k : ℕ} (hk : 1 ≤ k) : [] ∈ L ^ k ↔ [] ∈ L := by
  induction k with
  | zero => omega
  | succ k ih =>
    rw [pow_succ', Language.mem_mul]
    constructor
    · rintro ⟨a, ha, b, _, hab⟩
      have : a = [] := (List.append_eq_nil_iff.1 hab).1
      subst this; exact ha
    · intro h
      cases k with
      | zero => exact ⟨[], h, [], by rw [pow_zero]; exact Language.nil_mem_one, rfl⟩
      | succ k => exact ⟨[], h, [], (ih (by omega)).2 h, rfl⟩

/-- `is_nullable` is exact: the flag is set iff the empty word is in the language -/
theorem nullable_iff : ∀ e : RE, e.WF → (e.nullable = true ↔ [] ∈ e.lang) := by
  intro e
  induction e using re_ind with
  | h_empty =>
    intro _; simp only [nullable, lang]
    exact ⟨fun h => (by cases h), fun h => absurd h (Language.notMem_zero _)⟩
  | h_eps => intro _; simp only [nullable, lang]; exact ⟨fun _ => Language.nil_mem_one, fun _ => trivial⟩
  | h_range s =>
    intro _; simp only [nullable, lang]
    exact ⟨fun h => (by cases h), fun ⟨c, h, _⟩ => (by cases h)⟩
  | h_concat a b iha ihb =>
    intro h
    simp only [RE.WF] at h
    simp only [nullable, lang, Bool.and_eq_true, iha h.1, ihb h.2, Language.mem_mul]
    constructor
    · rintro ⟨h1, h2⟩; exact ⟨[], h1, [], h2, rfl⟩
    · rintro ⟨u, hu, v, hv, huv⟩
      obtain ⟨rfl, rfl⟩ := List.append_eq_nil_iff.1 huv
      exact ⟨hu, hv⟩
  | h_loop e r ih =>
    intro h
    simp only [RE.WF] at h
    simp only [nullable, lang, Bool.or_eq_true, beq_iff_eq, ih h.1]
    constructor
    · rintro (h0 | h1)
      · refine ⟨0, ⟨by omega, ?_⟩, by rw [pow_zero]; exact Language.nil_mem_one⟩
        cases hs : r.stop <;> simp
      · rcases Nat.eq_zero_or_pos r.start with h0 | hpos
        · refine ⟨0, ⟨by omega, ?_⟩, by rw [pow_zero]; exact Language.nil_mem_one⟩
          cases hs : r.stop <;> simp
        · refine ⟨r.start, ⟨Nat.le_refl _, ?_⟩, (nil_mem_pow_iff hpos).2 h1⟩
          have := h.2
          cases hs : r.stop with
          | none => trivial
          | some j => rw [hs] at this; exact this
    · rintro ⟨k, ⟨hk, _⟩, hw⟩
      rcases Nat.eq_zero_or_pos r.start with h0 | hpos
      · exact .inl h0
      · exact .inr ((nil_mem_pow_iff (by omega)).1 hw)
  | h_compl e ih =>
    intro h
    simp only [RE.WF] at h
    simp only [nullable, lang, Bool.not_eq_true']
    show e.nullable = false ↔ (WFs [] ∧ [] ∉ e.lang)
    rw [← ih h]
    simp [wfs_nil]
  | h_inter l ih =>
    intro h
    simp only [RE.WF] at h
    simp only [nullable, lang]
    show allNullable l = true ↔ (WFs [] ∧ [] ∈ langAll l)
    rw [allNullable_iff, langAll_iff]
    constructor
    · intro h'; exact ⟨wfs_nil, fun e he => (ih e he ((WFList_iff l).1 h e he)).1 (h' e he)⟩
    · rintro ⟨_, h'⟩ e he; exact (ih e he ((WFList_iff l).1 h e he)).2 (h' e he)
  | h_union l ih =>
    intro h
    simp only [RE.WF] at h
    simp only [nullable, lang]
    rw [anyNullable_iff, langAny_iff]
    constructor
    · rintro ⟨e, he, hn⟩; exact ⟨e, he, (ih e he ((WFList_iff l).1 h e he)).1 hn⟩
    · rintro ⟨e, he, hn⟩; exact ⟨e, he, (ih e he ((WFList_iff l).1 h e he)).2 hn⟩

end Smt.Deriv
