/-
  Helper lemmas for C03 (derivatives are left quotients, derivative classes are uniform).

  * an induction principle for the nested inductive type `RE`
  * `lq c L` (left quotient of a language by a character) and its algebra:
    quotient of a product, of a power, of `loopLang` (the rule with `LoopRange.shift`),
    of union / relative complement / relative intersection
  * basic facts of `RE.lang` that do not depend on the id assignment:
    `lang_wfs` (every word of a well-formed term is an SMT string), `nullable_iff`
  * `derivClass_wf`, refinement of the derivative classes of a compound term,
    `deriv_class_uniform`
  * `classRep` facts
  * the hypotheses about the smart constructors (`ConsFacts`, `NZFacts`) and the main induction
    `computeDeriv_spec`
-/
import Mathlib.Computability.Language
import SmtModel.Proofs.ReLang
import SmtModel.Proofs.ReNZ
import SmtModel.Model.Deriv
import SmtModel.Props.C11
import SmtModel.Props.C12

namespace Smt.Deriv
open Smt RE CharPartition

/-! ### induction principle for `RE` -/

mutual
theorem re_ind (P : RE → Prop)
    (h_empty : P .empty) (h_eps : P .epsilon) (h_range : ∀ s, P (.range s))
    (h_concat : ∀ a b, P a → P b → P (.concat a b))
    (h_loop : ∀ e r, P e → P (.loop e r))
    (h_compl : ∀ e, P e → P (.compl e))
    (h_inter : ∀ l, (∀ e ∈ l, P e) → P (.inter l))
    (h_union : ∀ l, (∀ e ∈ l, P e) → P (.union l)) : ∀ e : RE, P e
  | .empty => h_empty
  | .epsilon => h_eps
  | .range s => h_range s
  | .concat a b => h_concat a b
      (re_ind P h_empty h_eps h_range h_concat h_loop h_compl h_inter h_union a)
      (re_ind P h_empty h_eps h_range h_concat h_loop h_compl h_inter h_union b)
  | .loop e r => h_loop e r (re_ind P h_empty h_eps h_range h_concat h_loop h_compl h_inter h_union e)
  | .compl e => h_compl e (re_ind P h_empty h_eps h_range h_concat h_loop h_compl h_inter h_union e)
  | .inter l => h_inter l
      (re_ind_list P h_empty h_eps h_range h_concat h_loop h_compl h_inter h_union l)
  | .union l => h_union l
      (re_ind_list P h_empty h_eps h_range h_concat h_loop h_compl h_inter h_union l)
theorem re_ind_list (P : RE → Prop)
    (h_empty : P .empty) (h_eps : P .epsilon) (h_range : ∀ s, P (.range s))
    (h_concat : ∀ a b, P a → P b → P (.concat a b))
    (h_loop : ∀ e r, P e → P (.loop e r))
    (h_compl : ∀ e, P e → P (.compl e))
    (h_inter : ∀ l, (∀ e ∈ l, P e) → P (.inter l))
    (h_union : ∀ l, (∀ e ∈ l, P e) → P (.union l)) : ∀ l : List RE, ∀ e ∈ l, P e
  | [] => fun _ h => by cases h
  | x :: xs => fun e he => (List.mem_cons.1 he).elim
      (fun h => h ▸ re_ind P h_empty h_eps h_range h_concat h_loop h_compl h_inter h_union x)
      (fun h => re_ind_list P h_empty h_eps h_range h_concat h_loop h_compl h_inter h_union xs e h)
end

/-! ### list forms of the mutually defined list functions -/

theorem derivList_eq_map (ord : RE → Nat) (l : List RE) (c : Nat) :
    derivList ord l c = l.map (fun x => computeDeriv ord x (classRep x.derivClass c)) := by
  induction l with
  | nil => simp [derivList]
  | cons x xs ih => simp [derivList, ih]

theorem allNullable_iff (l : List RE) : allNullable l = true ↔ ∀ e ∈ l, e.nullable = true := by
  induction l with
  | nil => simp [allNullable]
  | cons x xs ih => simp [allNullable, ih]

theorem anyNullable_iff (l : List RE) : anyNullable l = true ↔ ∃ e ∈ l, e.nullable = true := by
  induction l with
  | nil => simp [anyNullable]
  | cons x xs ih => simp [anyNullable, ih]

/-- the side condition of `RE.WF` on a loop range -/
def RangeOK (r : LoopRange) : Prop := match r.stop with | some j => r.start ≤ j | none => True

/-! ### left quotient of a language by a character -/

/-- `c⁻¹ L = { w | c·w ∈ L }` -/
def lq (c : ℕ) (L : Language ℕ) : Language ℕ := {w | c :: w ∈ L}

theorem mem_lq {c : ℕ} {L : Language ℕ} {w : List ℕ} : w ∈ lq c L ↔ c :: w ∈ L := Iff.rfl

theorem lq_zero (c : ℕ) : lq c 0 = 0 := by
  ext w; simp only [mem_lq]
  exact ⟨fun h => absurd h (Language.notMem_zero _), fun h => absurd h (Language.notMem_zero _)⟩

theorem lq_one (c : ℕ) : lq c 1 = 0 := by
  ext w; simp only [mem_lq, Language.mem_one]
  exact ⟨fun h => (by cases h), fun h => absurd h (Language.notMem_zero _)⟩

theorem lq_add (c : ℕ) (A B : Language ℕ) : lq c (A + B) = lq c A + lq c B := by
  ext w; simp only [mem_lq, Language.mem_add]

/-- `c⁻¹(A·B) = (c⁻¹A)·B ∪ [ε ∈ A] c⁻¹B` -/
theorem mem_lq_mul (c : ℕ) (A B : Language ℕ) (w : List ℕ) :
    w ∈ lq c (A * B) ↔ w ∈ lq c A * B ∨ ([] ∈ A ∧ w ∈ lq c B) := by
  simp only [mem_lq, Language.mem_mul]
  constructor
  · rintro ⟨u, hu, v, hv, huv⟩
    cases u with
    | nil => right; simp only [List.nil_append] at huv; subst huv; exact ⟨hu, hv⟩
    | cons a u' =>
      simp only [List.cons_append, List.cons.injEq] at huv
      obtain ⟨rfl, rfl⟩ := huv
      left; exact ⟨u', hu, v, hv, rfl⟩
  · rintro (⟨u', hu', v, hv, rfl⟩ | ⟨h0, hw⟩)
    · exact ⟨c :: u', hu', v, hv, rfl⟩
    · exact ⟨[], h0, c :: w, hw, rfl⟩

theorem lq_mul_of_nil_mem (c : ℕ) {A B : Language ℕ} (h : [] ∈ A) :
    lq c (A * B) = lq c A * B + lq c B := by
  ext w; rw [mem_lq_mul, Language.mem_add]; simp [h]

theorem lq_mul_of_nil_not_mem (c : ℕ) {A B : Language ℕ} (h : [] ∉ A) :
    lq c (A * B) = lq c A * B := by
  ext w; rw [mem_lq_mul]; simp [h]

/-- a word of `L^k` that starts with `c`: its first non-empty factor starts with `c`; the empty
    factors before it can be moved behind (`ε ∈ L`) -/
theorem lq_pow_sub {c : ℕ} {L : Language ℕ} : ∀ {k : ℕ} {w : List ℕ},
    c :: w ∈ L ^ k → 1 ≤ k ∧ w ∈ lq c L * L ^ (k - 1) := by
  intro k
  induction k with
  | zero =>
    intro w h
    rw [pow_zero, Language.mem_one] at h
    cases h
  | succ k ih =>
    intro w h
    refine ⟨by omega, ?_⟩
    rw [pow_succ', ← mem_lq, mem_lq_mul] at h
    simp only [Nat.add_sub_cancel]
    rcases h with h | ⟨h0, hw⟩
    · exact h
    · obtain ⟨hk, hw'⟩ := ih (mem_lq.1 hw)
      obtain ⟨a, ha, b, hb, rfl⟩ := Language.mem_mul.1 hw'
      refine Language.mem_mul.2 ⟨a, ha, b, ?_, rfl⟩
      have : k = (k - 1) + 1 := by omega
      rw [this, pow_succ']
      exact Language.mem_mul.2 ⟨[], h0, b, hb, rfl⟩

theorem lq_pow_sup {c : ℕ} {L : Language ℕ} {k : ℕ} {w : List ℕ}
    (h : w ∈ lq c L * L ^ k) : c :: w ∈ L ^ (k + 1) := by
  rw [pow_succ', ← mem_lq, mem_lq_mul]
  exact .inl h

/-! ### `LoopRange.shift` on the set denoted -/

theorem shift_mem_pred {r : LoopRange} {k : ℕ} (h : LoopRange.Mem k r) (hk : 1 ≤ k) :
    LoopRange.Mem (k - 1) r.shift := by
  obtain ⟨a, st⟩ := r
  unfold LoopRange.Mem at *
  cases a with
  | zero =>
    cases st with
    | none => simp [LoopRange.shift, LoopRange.infinite]
    | some j =>
      cases j with
      | zero => simp at h; omega
      | succ j =>
        simp only [LoopRange.shift, LoopRange.finite] at *
        omega
  | succ a =>
    cases st with
    | none => simp only [LoopRange.shift, LoopRange.infinite, and_true] at *; omega
    | some j => simp only [LoopRange.shift, LoopRange.finite] at *; omega

theorem shift_mem_succ {r : LoopRange} {m : ℕ} (hr : RangeOK r) (hz : r.isZero = false)
    (h : LoopRange.Mem m r.shift) : LoopRange.Mem (m + 1) r := by
  obtain ⟨a, st⟩ := r
  unfold LoopRange.Mem at *
  unfold RangeOK at hr
  cases a with
  | zero =>
    cases st with
    | none => simp
    | some j =>
      cases j with
      | zero => simp [LoopRange.isZero] at hz
      | succ j =>
        simp only [LoopRange.shift, LoopRange.finite] at *
        omega
  | succ a =>
    cases st with
    | none => simp only [LoopRange.shift, LoopRange.infinite, and_true] at *; omega
    | some j => simp only [LoopRange.shift, LoopRange.finite] at *; omega

theorem shift_rangeOK {r : LoopRange} (hr : RangeOK r) : RangeOK r.shift := by
  obtain ⟨a, st⟩ := r
  unfold RangeOK at *
  cases a with
  | zero =>
    cases st with
    | none => simp [LoopRange.shift, LoopRange.infinite]
    | some j =>
      cases j with
      | zero => simp [LoopRange.shift, LoopRange.point, LoopRange.finite]
      | succ j => simp [LoopRange.shift, LoopRange.finite]
  | succ a =>
    cases st with
    | none => simp [LoopRange.shift, LoopRange.infinite]
    | some j => simp only [LoopRange.shift, LoopRange.finite] at *; omega

/-- the loop rule: `c⁻¹(⋃_{k∈r} L^k) = (c⁻¹L)·(⋃_{k∈shift r} L^k)` for every range but `[0,0]`,
    nullable `L` or not, lower bound `0` or not -/
theorem lq_loop (c : ℕ) (L : Language ℕ) {r : LoopRange} (hr : RangeOK r)
    (hz : r.isZero = false) : lq c (loopLang L r) = lq c L * loopLang L r.shift := by
  ext w
  constructor
  · rintro ⟨k, hk, hw⟩
    obtain ⟨h1, hw'⟩ := lq_pow_sub hw
    obtain ⟨a, ha, b, hb, rfl⟩ := Language.mem_mul.1 hw'
    exact Language.mem_mul.2 ⟨a, ha, b, ⟨k - 1, shift_mem_pred hk h1, hb⟩, rfl⟩
  · intro h
    obtain ⟨a, ha, b, ⟨m, hm, hb⟩, rfl⟩ := Language.mem_mul.1 h
    exact ⟨m + 1, shift_mem_succ hr hz hm, lq_pow_sup (Language.mem_mul.2 ⟨a, ha, b, hb, rfl⟩)⟩

/-! ### well-formed strings -/

theorem wfs_cons {c : ℕ} {w : List ℕ} : WFs (c :: w) ↔ c ≤ MAX_CHAR ∧ WFs w := by
  simp [WFs]

theorem wfs_append {u v : List ℕ} : WFs (u ++ v) ↔ WFs u ∧ WFs v := by
  simp only [WFs, List.mem_append]
  constructor
  · intro h; exact ⟨fun c hc => h c (.inl hc), fun c hc => h c (.inr hc)⟩
  · rintro ⟨h1, h2⟩ c (hc | hc)
    · exact h1 c hc
    · exact h2 c hc

theorem wfs_nil : WFs [] := by simp [WFs]

theorem pow_wfs {L : Language ℕ} (hL : ∀ w, w ∈ L → WFs w) : ∀ (k : ℕ) (w : List ℕ),
    w ∈ L ^ k → WFs w := by
  intro k
  induction k with
  | zero => intro w h; rw [pow_zero, Language.mem_one] at h; subst h; exact wfs_nil
  | succ k ih =>
    intro w h
    rw [pow_succ'] at h
    obtain ⟨a, ha, b, hb, rfl⟩ := Language.mem_mul.1 h
    exact wfs_append.2 ⟨hL a ha, ih b hb⟩

/-- relative complement commutes with the quotient by a character of the alphabet -/
theorem lq_compl {c : ℕ} (hc : c ≤ MAX_CHAR) (L : Language ℕ) :
    lq c {w | WFs w ∧ w ∉ L} = {w | WFs w ∧ w ∉ lq c L} := by
  ext w
  show (WFs (c :: w) ∧ c :: w ∉ L) ↔ (WFs w ∧ c :: w ∉ L)
  rw [wfs_cons]; simp [hc]

/-! ### id-independent facts of `RE.lang` -/

theorem mem_lq_range (s : CharSet) (c : ℕ) (w : List ℕ) :
    w ∈ lq c (RE.range s).lang ↔ w = [] ∧ s.start ≤ c ∧ c ≤ s.stop := by
  simp only [lang]
  show (∃ x, c :: w = [x] ∧ s.start ≤ x ∧ x ≤ s.stop) ↔ _
  constructor
  · rintro ⟨x, hx, h1, h2⟩
    simp only [List.cons.injEq] at hx
    obtain ⟨rfl, rfl⟩ := hx
    exact ⟨rfl, h1, h2⟩
  · rintro ⟨rfl, h1, h2⟩; exact ⟨c, rfl, h1, h2⟩

/-- every word of the language of a well-formed term is an SMT string -/
theorem lang_wfs : ∀ e : RE, e.WF → ∀ w, w ∈ e.lang → WFs w := by
  intro e
  induction e using re_ind with
  | h_empty => intro _ w h; simp only [lang] at h; exact absurd h (Language.notMem_zero _)
  | h_eps =>
    intro _ w h; simp only [lang] at h
    rw [Language.mem_one] at h; subst h; exact wfs_nil
  | h_range s =>
    intro hs w h
    simp only [lang] at h
    simp only [RE.WF] at hs
    obtain ⟨c, rfl, h1, h2⟩ := h
    have := hs.2
    intro x hx
    simp only [List.mem_singleton] at hx
    subst hx; omega
  | h_concat a b iha ihb =>
    intro h w hw
    simp only [RE.WF] at h
    simp only [lang] at hw
    obtain ⟨u, hu, v, hv, rfl⟩ := Language.mem_mul.1 hw
    exact wfs_append.2 ⟨iha h.1 u hu, ihb h.2 v hv⟩
  | h_loop e r ih =>
    intro h w hw
    simp only [RE.WF] at h
    simp only [lang] at hw
    obtain ⟨k, _, hk⟩ := hw
    exact pow_wfs (ih h.1) k w hk
  | h_compl e _ => intro _ w hw; simp only [lang] at hw; exact hw.1
  | h_inter l _ => intro _ w hw; simp only [lang] at hw; exact hw.1
  | h_union l ih =>
    intro h w hw
    simp only [RE.WF] at h
    simp only [lang] at hw
    obtain ⟨e, he, hwe⟩ := (langAny_iff l w).1 hw
    exact ih e he ((WFList_iff l).1 h e he) w hwe

theorem nil_mem_pow_iff {L : Language ℕ} {k : ℕ} (hk : 1 ≤ k) : [] ∈ L ^ k ↔ [] ∈ L := by
  induction k with
  | zero => omega
  | succ k ih =>
    rw [pow_succ', Language.mem_mul]
    constructor
    · rintro ⟨a, ha, b, _, hab⟩
      have : a = [] := (List.append_eq_nil_iff.1 hab).1
      subst this; exact ha
    · intro h
      cases k with
      | zero => exact ⟨[], h, [], by rw [pow_zero]; exact Language.nil_mem_one, rfl⟩
      | succ k => exact ⟨[], h, [], (ih (by omega)).2 h, rfl⟩

/-- `is_nullable` is exact: the flag is set iff the empty word is in the language -/
theorem nullable_iff : ∀ e : RE, e.WF → (e.nullable = true ↔ [] ∈ e.lang) := by
  intro e
  induction e using re_ind with
  | h_empty =>
    intro _; simp only [nullable, lang]
    exact ⟨fun h => (by cases h), fun h => absurd h (Language.notMem_zero _)⟩
  | h_eps => intro _; simp only [nullable, lang]; exact ⟨fun _ => Language.nil_mem_one, fun _ => trivial⟩
  | h_range s =>
    intro _; simp only [nullable, lang]
    exact ⟨fun h => (by cases h), fun ⟨c, h, _⟩ => (by cases h)⟩
  | h_concat a b iha ihb =>
    intro h
    simp only [RE.WF] at h
    simp only [nullable, lang, Bool.and_eq_true, iha h.1, ihb h.2, Language.mem_mul]
    constructor
    · rintro ⟨h1, h2⟩; exact ⟨[], h1, [], h2, rfl⟩
    · rintro ⟨u, hu, v, hv, huv⟩
      obtain ⟨rfl, rfl⟩ := List.append_eq_nil_iff.1 huv
      exact ⟨hu, hv⟩
  | h_loop e r ih =>
    intro h
    simp only [RE.WF] at h
    simp only [nullable, lang, Bool.or_eq_true, beq_iff_eq, ih h.1]
    constructor
    · rintro (h0 | h1)
      · refine ⟨0, ⟨by omega, ?_⟩, by rw [pow_zero]; exact Language.nil_mem_one⟩
        cases hs : r.stop <;> simp
      · rcases Nat.eq_zero_or_pos r.start with h0 | hpos
        · refine ⟨0, ⟨by omega, ?_⟩, by rw [pow_zero]; exact Language.nil_mem_one⟩
          cases hs : r.stop <;> simp
        · refine ⟨r.start, ⟨Nat.le_refl _, ?_⟩, (nil_mem_pow_iff hpos).2 h1⟩
          have := h.2
          cases hs : r.stop with
          | none => trivial
          | some j => rw [hs] at this; exact this
    · rintro ⟨k, ⟨hk, _⟩, hw⟩
      rcases Nat.eq_zero_or_pos r.start with h0 | hpos
      · exact .inl h0
      · exact .inr ((nil_mem_pow_iff (by omega)).1 hw)
  | h_compl e ih =>
    intro h
    simp only [RE.WF] at h
    simp only [nullable, lang, Bool.not_eq_true']
    show e.nullable = false ↔ (WFs [] ∧ [] ∉ e.lang)
    rw [← ih h]
    simp [wfs_nil]
  | h_inter l ih =>
    intro h
    simp only [RE.WF] at h
    simp only [nullable, lang]
    show allNullable l = true ↔ (WFs [] ∧ [] ∈ langAll l)
    rw [allNullable_iff, langAll_iff]
    constructor
    · intro h'; exact ⟨wfs_nil, fun e he => (ih e he ((WFList_iff l).1 h e he)).1 (h' e he)⟩
    · rintro ⟨_, h'⟩ e he; exact (ih e he ((WFList_iff l).1 h e he)).2 (h' e he)
  | h_union l ih =>
    intro h
    simp only [RE.WF] at h
    simp only [nullable, lang]
    rw [anyNullable_iff, langAny_iff]
    constructor
    · rintro ⟨e, he, hn⟩; exact ⟨e, he, (ih e he ((WFList_iff l).1 h e he)).1 hn⟩
    · rintro ⟨e, he, hn⟩; exact ⟨e, he, (ih e he ((WFList_iff l).1 h e he)).2 hn⟩

/-! ### derivative classes: well-formedness and refinement -/

/-- `x` and `y` are in the same class of `p`, as `class_of_char` computes it -/
def Same (p : CharPartition) (x y : Nat) : Prop := p.classOfChar x = p.classOfChar y

theorem Same.symm {p : CharPartition} {x y : Nat} (h : Same p x y) : Same p y x := Eq.symm h
theorem Same.refl (p : CharPartition) (x : Nat) : Same p x x := rfl
theorem Same.trans {p : CharPartition} {x y z : Nat} (h : Same p x y) (h' : Same p y z) :
    Same p x z := Eq.trans h h'

theorem same_iff_cls {p : CharPartition} (hp : p.WF) (x y : Nat) :
    Same p x y ↔ cls p x = cls p y := by
  unfold Same; rw [classOfChar_eq_cls hp.1, classOfChar_eq_cls hp.1]

theorem mdc_wf : ∀ (l : List RE) (acc : CharPartition), (∀ e ∈ l, e.derivClass.WF) → acc.WF →
    (mergeDerivClasses acc l).WF := by
  intro l
  induction l with
  | nil => intro acc _ h; simpa [mergeDerivClasses] using h
  | cons x xs ih =>
    intro acc hl hacc
    simp only [mergeDerivClasses]
    exact ih _ (fun e he => hl e (by simp [he])) (C12.merge_wf hacc (hl x (by simp)))

/-- the derivative classes of a well-formed term form a well-formed partition -/
theorem derivClass_wf : ∀ e : RE, e.WF → e.derivClass.WF := by
  intro e
  induction e using re_ind with
  | h_empty => intro _; simp only [derivClass]; exact CharPartition.wf_new
  | h_eps => intro _; simp only [derivClass]; exact CharPartition.wf_new
  | h_range s => intro h; simp only [RE.WF] at h; simp only [derivClass]; exact C11.wf_from_set s h
  | h_concat a b iha ihb =>
    intro h
    simp only [RE.WF] at h
    simp only [derivClass]
    split
    · exact C12.merge_wf (iha h.1) (ihb h.2)
    · exact iha h.1
  | h_loop e r ih => intro h; simp only [RE.WF] at h; simp only [derivClass]; exact ih h.1
  | h_compl e ih => intro h; simp only [RE.WF] at h; simp only [derivClass]; exact ih h
  | h_inter l ih =>
    intro h
    simp only [RE.WF] at h
    simp only [derivClass]
    exact mdc_wf l _ (fun e he => ih e he ((WFList_iff l).1 h e he)) CharPartition.wf_new
  | h_union l ih =>
    intro h
    simp only [RE.WF] at h
    simp only [derivClass]
    exact mdc_wf l _ (fun e he => ih e he ((WFList_iff l).1 h e he)) CharPartition.wf_new

theorem merge_same {p1 p2 : CharPartition} (h1 : p1.WF) (h2 : p2.WF) {x y : Nat}
    (h : Same (mergePartitions p1 p2) x y) : Same p1 x y ∧ Same p2 x y := by
  rw [same_iff_cls (C12.merge_wf h1 h2)] at h
  rw [same_iff_cls h1, same_iff_cls h2]
  exact C12.merge_refines h1 h2 h

theorem mdc_same : ∀ (l : List RE) (acc : CharPartition), (∀ e ∈ l, e.derivClass.WF) → acc.WF →
    ∀ {x y : Nat}, Same (mergeDerivClasses acc l) x y →
      Same acc x y ∧ ∀ e ∈ l, Same e.derivClass x y := by
  intro l
  induction l with
  | nil => intro acc _ _ x y h; exact ⟨by simpa [mergeDerivClasses] using h, by simp⟩
  | cons a xs ih =>
    intro acc hl hacc x y h
    simp only [mergeDerivClasses] at h
    have ha := hl a (by simp)
    obtain ⟨h1, h2⟩ := ih _ (fun e he => hl e (by simp [he])) (C12.merge_wf hacc ha) h
    obtain ⟨h3, h4⟩ := merge_same hacc ha h1
    refine ⟨h3, ?_⟩
    intro e he
    rcases List.mem_cons.1 he with rfl | he
    · exact h4
    · exact h2 e he

/-- the classes of a concatenation refine those of the left operand -/
theorem same_concat_left {a b : RE} (ha : a.WF) (hb : b.WF) {x y : Nat}
    (h : Same (RE.concat a b).derivClass x y) : Same a.derivClass x y := by
  simp only [derivClass] at h
  split at h
  · exact (merge_same (derivClass_wf a ha) (derivClass_wf b hb) h).1
  · exact h

/-- … and those of the right operand when the left operand is nullable -/
theorem same_concat_right {a b : RE} (ha : a.WF) (hb : b.WF) (hn : a.nullable = true) {x y : Nat}
    (h : Same (RE.concat a b).derivClass x y) : Same b.derivClass x y := by
  simp only [derivClass, hn, if_true] at h
  exact (merge_same (derivClass_wf a ha) (derivClass_wf b hb) h).2

theorem same_loop {e : RE} {r : LoopRange} {x y : Nat}
    (h : Same (RE.loop e r).derivClass x y) : Same e.derivClass x y := by
  simpa only [derivClass] using h

theorem same_compl {e : RE} {x y : Nat}
    (h : Same (RE.compl e).derivClass x y) : Same e.derivClass x y := by
  simpa only [derivClass] using h

theorem same_inter {l : List RE} (hl : WFList l) {x y : Nat}
    (h : Same (RE.inter l).derivClass x y) : ∀ e ∈ l, Same e.derivClass x y := by
  simp only [derivClass] at h
  exact (mdc_same l _ (fun e he => derivClass_wf e ((WFList_iff l).1 hl e he))
    CharPartition.wf_new h).2

theorem same_union {l : List RE} (hl : WFList l) {x y : Nat}
    (h : Same (RE.union l).derivClass x y) : ∀ e ∈ l, Same e.derivClass x y := by
  simp only [derivClass] at h
  exact (mdc_same l _ (fun e he => derivClass_wf e ((WFList_iff l).1 hl e he))
    CharPartition.wf_new h).2

/-! ### every derivative class is uniform -/

theorem pow_unif {c c' : ℕ} {L : Language ℕ} (h : ∀ w, c :: w ∈ L → c' :: w ∈ L) :
    ∀ (k : ℕ) (w : List ℕ), c :: w ∈ L ^ k → c' :: w ∈ L ^ k := by
  intro k
  induction k with
  | zero => intro w hw; rw [pow_zero, Language.mem_one] at hw; cases hw
  | succ k ih =>
    intro w hw
    rw [pow_succ', ← mem_lq, mem_lq_mul] at hw ⊢
    rcases hw with ⟨u, hu, v, hv, rfl⟩ | ⟨h0, hw⟩
    · exact .inl (Language.mem_mul.2 ⟨u, h u hu, v, hv, rfl⟩)
    · exact .inr ⟨h0, ih w hw⟩

/-- one direction of uniformity -/
theorem unif_imp : ∀ e : RE, e.WF → ∀ c c', c ≤ MAX_CHAR → c' ≤ MAX_CHAR →
    Same e.derivClass c c' → ∀ w, c :: w ∈ e.lang → c' :: w ∈ e.lang := by
  intro e
  induction e using re_ind with
  | h_empty => intro _ c c' _ _ _ w h; simp only [lang] at h; exact absurd h (Language.notMem_zero _)
  | h_eps => intro _ c c' _ _ _ w h; simp only [lang] at h; rw [Language.mem_one] at h; cases h
  | h_range s =>
    intro hs c c' _ _ hsame w h
    simp only [RE.WF] at hs
    simp only [lang] at h ⊢
    obtain ⟨x, hx, h1, h2⟩ := h
    simp only [List.cons.injEq] at hx
    obtain ⟨rfl, rfl⟩ := hx
    simp only [derivClass] at hsame
    have hwf := C11.wf_from_set s hs
    rw [same_iff_cls hwf, cls_eq_iff_mem hwf.1] at hsame
    have := (hsame s (by simp [fromSet])).1 ⟨h1, h2⟩
    exact ⟨c', rfl, this.1, this.2⟩
  | h_concat a b iha ihb =>
    intro h c c' hc hc' hsame w hw
    simp only [RE.WF] at h
    simp only [lang] at hw ⊢
    rw [← mem_lq, mem_lq_mul] at hw ⊢
    rcases hw with ⟨u, hu, v, hv, rfl⟩ | ⟨h0, hw⟩
    · exact .inl (Language.mem_mul.2
        ⟨u, iha h.1 c c' hc hc' (same_concat_left h.1 h.2 hsame) u hu, v, hv, rfl⟩)
    · have hn := (nullable_iff a h.1).2 h0
      exact .inr ⟨h0, ihb h.2 c c' hc hc' (same_concat_right h.1 h.2 hn hsame) w hw⟩
  | h_loop e r ih =>
    intro h c c' hc hc' hsame w hw
    simp only [RE.WF] at h
    simp only [lang] at hw ⊢
    obtain ⟨k, hk, hw⟩ := hw
    exact ⟨k, hk, pow_unif (ih h.1 c c' hc hc' (same_loop hsame)) k w hw⟩
  | h_compl e ih =>
    intro h c c' hc hc' hsame w hw
    simp only [RE.WF] at h
    simp only [lang] at hw ⊢
    obtain ⟨h1, h2⟩ := hw
    refine ⟨wfs_cons.2 ⟨hc', (wfs_cons.1 h1).2⟩, ?_⟩
    intro h3
    exact h2 (ih h c' c hc' hc (same_compl hsame).symm w h3)
  | h_inter l ih =>
    intro h c c' hc hc' hsame w hw
    simp only [RE.WF] at h
    simp only [lang] at hw ⊢
    obtain ⟨h1, h2⟩ := hw
    refine ⟨wfs_cons.2 ⟨hc', (wfs_cons.1 h1).2⟩, ?_⟩
    rw [langAll_iff] at h2 ⊢
    intro e he
    exact ih e he ((WFList_iff l).1 h e he) c c' hc hc' (same_inter h hsame e he) w (h2 e he)
  | h_union l ih =>
    intro h c c' hc hc' hsame w hw
    simp only [RE.WF] at h
    simp only [lang] at hw ⊢
    rw [langAny_iff] at hw ⊢
    obtain ⟨e, he, hwe⟩ := hw
    exact ⟨e, he, ih e he ((WFList_iff l).1 h e he) c c' hc hc' (same_union h hsame e he) w hwe⟩

/-! ### the class representative -/

theorem classRep_congr {p : CharPartition} (hp : p.WF) {a b : Nat} (h : Same p a b) :
    classRep p a = classRep p b := by
  unfold Same at h
  unfold classRep
  rw [h]
  cases hb : p.classOfChar b with
  | interval i =>
    obtain ⟨hi, _⟩ := ((C11.class_of_char_spec p hp b).1 i).1 hb
    simp only [List.getElem?_eq_getElem hi]
  | complement => rfl

/-- the representative is a character of the alphabet in the class of `c` -/
theorem classRep_same {p : CharPartition} (hp : p.WF) {c : Nat} (hc : c ≤ MAX_CHAR) :
    Same p (classRep p c) c ∧ classRep p c ≤ MAX_CHAR := by
  unfold Same classRep
  cases h : p.classOfChar c with
  | interval i =>
    obtain ⟨hi, _⟩ := ((C11.class_of_char_spec p hp c).1 i).1 h
    have hw := hp.1.get_wf hi
    simp only [List.getElem?_eq_getElem hi]
    refine ⟨((C11.class_of_char_spec p hp _).1 i).2 ⟨hi, Nat.le_refl _, hw.1⟩, ?_⟩
    have := hw.2; have := hw.1; omega
  | complement =>
    simp only
    obtain ⟨h1, h2, h3⟩ := hp.2
    have hnc : ¬ InList p.list c := by
      have := (C11.class_of_char_spec p hp c).2.1.1 h
      rintro ⟨s, hs, hm⟩
      exact this s hs hm
    have hle : p.compWitness ≤ c := by
      rcases Nat.lt_or_ge c p.compWitness with hlt | hge
      · exact absurd (h3 c hlt) hnc
      · exact hge
    refine ⟨?_, by omega⟩
    rw [classOfChar_eq_cls hp.1, cls_eq_complement_iff]
    exact h2

/-- what the recursive calls of `compute_derivative` see: the representative, in the sub-term, of
    any member of the class of `c` is a member of the class of `c` -/
theorem rep_same {e : RE} (he : e.WF) {c0 c : Nat} (hc : c ≤ MAX_CHAR)
    (h : Same e.derivClass c0 c) : Same e.derivClass (classRep e.derivClass c0) c := by
  rw [classRep_congr (derivClass_wf e he) h]
  exact (classRep_same (derivClass_wf e he) hc).1

/-! ### what the main induction needs of the smart constructors -/

/-- the domain of the derivative theorems: well-formed and no `[0,0]` loop (Proofs/ReNZ.lean) -/
def Good (e : RE) : Prop := e.WF ∧ e.NZ
def GoodList (l : List RE) : Prop := WFList l ∧ NZList l

theorem goodList_iff (l : List RE) : GoodList l ↔ ∀ e ∈ l, Good e := by
  simp only [GoodList, Good, WFList_iff, nzList_iff]
  constructor
  · rintro ⟨h1, h2⟩ e he; exact ⟨h1 e he, h2 e he⟩
  · intro h; exact ⟨fun e he => (h e he).1, fun e he => (h e he).2⟩

/-- The facts about the smart constructors used by `compute_derivative`: each denotes the
    operation it stands for and stays inside `Good`.  Discharged for every id assignment with
    `PairSound` in Proofs/DerivFinal.lean. -/
structure ConsFacts (ord : RE → Nat) : Prop where
  complement_lang : ∀ e : RE, e.WF → e.complement.lang = {w | WFs w ∧ w ∉ e.lang}
  complement_good : ∀ e : RE, Good e → Good e.complement
  mkConcat_lang : ∀ a b : RE, a.WF → b.WF → (mkConcat a b).lang = a.lang * b.lang
  mkConcat_good : ∀ a b : RE, Good a → Good b → Good (mkConcat a b)
  mkLoop_lang : ∀ (e : RE) (r : LoopRange), e.WF → RangeOK r → (mkLoop e r).lang = loopLang e.lang r
  mkLoop_good : ∀ (e : RE) (r : LoopRange), Good e → RangeOK r → Good (mkLoop e r)
  mkUnion_lang : ∀ a b : RE, a.WF → b.WF → (mkUnion ord a b).lang = a.lang + b.lang
  mkUnion_good : ∀ a b : RE, Good a → Good b → Good (mkUnion ord a b)
  mkUnionList_lang : ∀ l : List RE, WFList l → (mkUnionList ord l).lang = langAny l
  mkUnionList_good : ∀ l : List RE, GoodList l → Good (mkUnionList ord l)
  mkInterList_lang : ∀ l : List RE, WFList l → (mkInterList ord l).lang = {w | WFs w ∧ w ∈ langAll l}
  mkInterList_good : ∀ l : List RE, GoodList l → Good (mkInterList ord l)

/-! ### the main induction -/

/-- `compute_derivative(e, c0)` for ANY `c0` in the derivative class of `c` denotes `c⁻¹ L(e)`
    (the recursive calls go through the class representative of `c0` in each sub-term). -/
theorem computeDeriv_spec {ord : RE → Nat} (F : ConsFacts ord) : ∀ e : RE, Good e →
    ∀ c0 c, c ≤ MAX_CHAR → Same e.derivClass c0 c →
      (computeDeriv ord e c0).lang = lq c e.lang ∧ Good (computeDeriv ord e c0) := by
  intro e
  induction e using re_ind with
  | h_empty =>
    intro _ c0 c _ _
    simp only [computeDeriv, lang, lq_zero]
    exact ⟨trivial, trivial, nz_empty⟩
  | h_eps =>
    intro _ c0 c _ _
    simp only [computeDeriv, lang, lq_one]
    exact ⟨trivial, trivial, nz_empty⟩
  | h_range s =>
    intro hg c0 c _ hsame
    have hs : s.WF := by have := hg.1; simpa only [RE.WF] using this
    simp only [derivClass] at hsame
    have hwf := C11.wf_from_set s hs
    rw [same_iff_cls hwf, cls_eq_iff_mem hwf.1] at hsame
    have hmem := hsame s (by simp [fromSet])
    simp only [computeDeriv]
    by_cases hc0 : s.contains c0 = true
    · rw [if_pos hc0]
      have hc : s.start ≤ c ∧ c ≤ s.stop := hmem.1 (by simpa [CharSet.contains] using hc0)
      refine ⟨?_, trivial, nz_epsilon⟩
      ext w
      rw [mem_lq_range]
      simp only [lang, Language.mem_one]
      exact ⟨fun h => ⟨h, hc⟩, fun h => h.1⟩
    · rw [if_neg hc0]
      have hc : ¬ (s.start ≤ c ∧ c ≤ s.stop) := by
        intro h; exact hc0 (by simpa [CharSet.contains] using hmem.2 h)
      refine ⟨?_, trivial, nz_empty⟩
      ext w
      rw [mem_lq_range]
      simp only [lang]
      exact ⟨fun h => absurd h (Language.notMem_zero _), fun h => absurd h.2 hc⟩
  | h_concat a b iha ihb =>
    intro hg c0 c hc hsame
    have hwf : a.WF ∧ b.WF := by have := hg.1; simpa only [RE.WF] using this
    have hnz : a.NZ ∧ b.NZ := (nz_concat a b).1 hg.2
    have hga : Good a := ⟨hwf.1, hnz.1⟩
    have hgb : Good b := ⟨hwf.2, hnz.2⟩
    obtain ⟨hl1, hg1⟩ := iha hga (classRep a.derivClass c0) c hc
      (rep_same hwf.1 hc (same_concat_left hwf.1 hwf.2 hsame))
    have hd1 : (mkConcat (computeDeriv ord a (classRep a.derivClass c0)) b).lang
        = lq c a.lang * b.lang := by
      rw [F.mkConcat_lang _ _ hg1.1 hwf.2, hl1]
    have hd1g := F.mkConcat_good _ _ hg1 hgb
    simp only [computeDeriv, lang]
    by_cases hn : a.nullable = true
    · rw [if_pos hn]
      obtain ⟨hl2, hg2⟩ := ihb hgb (classRep b.derivClass c0) c hc
        (rep_same hwf.2 hc (same_concat_right hwf.1 hwf.2 hn hsame))
      refine ⟨?_, F.mkUnion_good _ _ hd1g hg2⟩
      rw [F.mkUnion_lang _ _ hd1g.1 hg2.1, hd1, hl2,
        lq_mul_of_nil_mem c ((nullable_iff a hwf.1).1 hn)]
    · rw [if_neg hn]
      refine ⟨?_, hd1g⟩
      rw [hd1, lq_mul_of_nil_not_mem c (fun h => hn ((nullable_iff a hwf.1).2 h))]
  | h_loop e r ih =>
    intro hg c0 c hc hsame
    have hwf : e.WF ∧ RangeOK r := by have := hg.1; simp only [RE.WF] at this; exact this
    have hnz : e.NZ ∧ r.isZero = false := (nz_loop e r).1 hg.2
    have hge : Good e := ⟨hwf.1, hnz.1⟩
    obtain ⟨hl1, hg1⟩ := ih hge (classRep e.derivClass c0) c hc
      (rep_same hwf.1 hc (same_loop hsame))
    have hsr := shift_rangeOK hwf.2
    have hlg := F.mkLoop_good e r.shift hge hsr
    simp only [computeDeriv, lang]
    refine ⟨?_, F.mkConcat_good _ _ hg1 hlg⟩
    rw [F.mkConcat_lang _ _ hg1.1 hlg.1, hl1, F.mkLoop_lang e r.shift hwf.1 hsr,
      lq_loop c e.lang hwf.2 hnz.2]
  | h_compl e ih =>
    intro hg c0 c hc hsame
    have hwf : e.WF := by have := hg.1; simpa only [RE.WF] using this
    have hge : Good e := ⟨hwf, (nz_compl e).1 hg.2⟩
    obtain ⟨hl1, hg1⟩ := ih hge (classRep e.derivClass c0) c hc
      (rep_same hwf hc (same_compl hsame))
    simp only [computeDeriv, lang]
    refine ⟨?_, F.complement_good _ hg1⟩
    rw [F.complement_lang _ hg1.1, hl1, lq_compl hc]
  | h_inter l ih =>
    intro hg c0 c hc hsame
    have hwf : WFList l := by have := hg.1; simpa only [RE.WF] using this
    have hgl : ∀ e ∈ l, Good e := fun e he =>
      ⟨(WFList_iff l).1 hwf e he, (nzList_iff l).1 ((nz_inter l).1 hg.2) e he⟩
    have hsub : ∀ e ∈ l, (computeDeriv ord e (classRep e.derivClass c0)).lang = lq c e.lang ∧
        Good (computeDeriv ord e (classRep e.derivClass c0)) := fun e he =>
      ih e he (hgl e he) _ c hc (rep_same (hgl e he).1 hc (same_inter hwf hsame e he))
    have hdg : GoodList (derivList ord l c0) := by
      rw [goodList_iff, derivList_eq_map]
      intro d hd
      obtain ⟨e, he, rfl⟩ := List.mem_map.1 hd
      exact (hsub e he).2
    simp only [computeDeriv, lang]
    refine ⟨?_, F.mkInterList_good _ hdg⟩
    rw [F.mkInterList_lang _ hdg.1]
    ext w
    show (WFs w ∧ w ∈ langAll (derivList ord l c0)) ↔ (WFs (c :: w) ∧ c :: w ∈ langAll l)
    rw [langAll_iff, langAll_iff, wfs_cons, derivList_eq_map]
    simp only [List.forall_mem_map, hc, true_and]
    refine and_congr_right (fun _ => forall₂_congr (fun e he => ?_))
    rw [(hsub e he).1]; exact mem_lq
  | h_union l ih =>
    intro hg c0 c hc hsame
    have hwf : WFList l := by have := hg.1; simpa only [RE.WF] using this
    have hgl : ∀ e ∈ l, Good e := fun e he =>
      ⟨(WFList_iff l).1 hwf e he, (nzList_iff l).1 ((nz_union l).1 hg.2) e he⟩
    have hsub : ∀ e ∈ l, (computeDeriv ord e (classRep e.derivClass c0)).lang = lq c e.lang ∧
        Good (computeDeriv ord e (classRep e.derivClass c0)) := fun e he =>
      ih e he (hgl e he) _ c hc (rep_same (hgl e he).1 hc (same_union hwf hsame e he))
    have hdg : GoodList (derivList ord l c0) := by
      rw [goodList_iff, derivList_eq_map]
      intro d hd
      obtain ⟨e, he, rfl⟩ := List.mem_map.1 hd
      exact (hsub e he).2
    simp only [computeDeriv, lang]
    refine ⟨?_, F.mkUnionList_good _ hdg⟩
    rw [F.mkUnionList_lang _ hdg.1]
    ext w
    rw [mem_lq, langAny_iff, langAny_iff, derivList_eq_map]
    constructor
    · rintro ⟨d, hd, hw⟩
      obtain ⟨e, he, rfl⟩ := List.mem_map.1 hd
      rw [(hsub e he).1] at hw; exact ⟨e, he, hw⟩
    · rintro ⟨e, he, hw⟩
      refine ⟨_, List.mem_map.2 ⟨e, he, rfl⟩, ?_⟩
      rw [(hsub e he).1]; exact hw

/-- `deriv(e, c)`, for every character `c` of the alphabet -/
theorem deriv_spec {ord : RE → Nat} (F : ConsFacts ord) {e : RE} (he : Good e) {c : Nat}
    (hc : c ≤ MAX_CHAR) : (deriv ord e c).lang = lq c e.lang ∧ Good (deriv ord e c) :=
  computeDeriv_spec F e he _ c hc (classRep_same (derivClass_wf e he.1) hc).1

theorem strDerivative_spec {ord : RE → Nat} (F : ConsFacts ord) : ∀ (s : List Nat) (e : RE),
    Good e → WFs s →
      (strDerivative ord e s).lang = {w | s ++ w ∈ e.lang} ∧ Good (strDerivative ord e s) := by
  intro s
  induction s with
  | nil => intro e he _; exact ⟨rfl, he⟩
  | cons c s ih =>
    intro e he hs
    obtain ⟨hc, hs'⟩ := wfs_cons.1 hs
    obtain ⟨hl, hg⟩ := deriv_spec F he hc
    obtain ⟨hl2, hg2⟩ := ih (deriv ord e c) hg hs'
    have : strDerivative ord e (c :: s) = strDerivative ord (deriv ord e c) s := by
      simp [strDerivative]
    rw [this]
    refine ⟨?_, hg2⟩
    rw [hl2, hl]
    rfl

end Smt.Deriv
