/-
  Helper lemmas for Props/C07RefineOps.lean, part 3: `start_char` / `start_class` on the stateful
  manager (Model/ManagerOps.lean `startCharF`, `startClassM`) refine `RE.startChar` /
  `RE.startClass` (Model/Closure.lean).
-/
import SmtModel.Proofs.ManagerOpsPath

namespace Smt
namespace MgrOps
open Smt RE Node MgrInv MgrCons MgrSet MgrDeriv

/-- the expensive case of the pure `start_char` -/
def startViaDeriv (ord : RE → Nat) (fuel : Nat) (te : RE) (c : Nat) : Res Bool :=
  match isEmptyRe ord fuel (deriv ord te c) with
  | .ok b => .ok (!b)
  | .panic => .panic
  | .outOfFuel => .outOfFuel

theorem startChar_concat (ord : RE → Nat) (fuel : Nat) (a b : RE) (c : Nat) :
    startChar ord fuel (.concat a b) c = startViaDeriv ord fuel (.concat a b) c := by
  simp only [startChar, startViaDeriv]
  rfl
theorem startChar_compl (ord : RE → Nat) (fuel : Nat) (a : RE) (c : Nat) :
    startChar ord fuel (.compl a) c = startViaDeriv ord fuel (.compl a) c := by
  simp only [startChar, startViaDeriv]
  rfl
theorem startChar_inter (ord : RE → Nat) (fuel : Nat) (l : List RE) (c : Nat) :
    startChar ord fuel (.inter l) c = startViaDeriv ord fuel (.inter l) c := by
  simp only [startChar, startViaDeriv]
  rfl

theorem startViaDerivM_post (fuel : Nat) {m : Mgr} (hI : MgrDeriv.Inv m) {e : Nat} {te : RE}
    (r : treeOf m.tbl e = some te) (c : Nat) :
    RPost m (m.startViaDerivM fuel e c) (fun _ b => b)
      (fun T => startViaDeriv (ordOf T) fuel te c) := by
  have p1 := dpost_derivM hI r c
  simp only [Mgr.startViaDerivM]
  generalize m.derivM e c = r1 at p1 ⊢
  have p2 := isEmptyReM_post fuel p1.inv p1.here
  generalize r1.1.isEmptyReM fuel r1.2 = r2 at p2 ⊢
  obtain ⟨m2, ro⟩ := r2
  have key : ∀ T, m2.tbl <+: T → TableOK T →
      isEmptyRe (ordOf T) fuel (deriv (ordOf T) te c) = .panic ∨
      isEmptyRe (ordOf T) fuel (deriv (ordOf T) te c) = ro := by
    intro T hT hok
    have hc : deriv (ordOf T) te c = deriv (ordOf r1.1.tbl) te c :=
      p1.const (List.IsPrefix.trans p2.ext hT) hok
    rw [hc]
    rcases p2.rep T hT hok with h | h
    · exact Or.inl h
    · right; rw [h]; cases ro <;> rfl
  cases ro with
  | ok b =>
    refine ⟨p2.inv, List.IsPrefix.trans p1.ext p2.ext, ?_⟩
    intro T hT hok
    rcases key T hT hok with h | h
    · left; simp only [startViaDeriv, h]
    · right; simp only [startViaDeriv, h]; rfl
  | panic =>
    refine ⟨p2.inv, List.IsPrefix.trans p1.ext p2.ext, ?_⟩
    intro T hT hok
    rcases key T hT hok with h | h <;> (left; simp only [startViaDeriv, h])
  | outOfFuel =>
    refine ⟨p2.inv, List.IsPrefix.trans p1.ext p2.ext, ?_⟩
    intro T hT hok
    rcases key T hT hok with h | h
    · left; simp only [startViaDeriv, h]
    · right; simp only [startViaDeriv, h]; rfl

/-- `args.iter().any(|x| self.start_char(x, c))` -/
theorem anyWith_post {f : Mgr → Nat → Mgr × Res Bool} {fuel c : Nat} :
    ∀ {l : List Nat} {ts : List RE} {m : Mgr},
    (∀ x ∈ l, ∀ tx m', MgrDeriv.Inv m' → treeOf m'.tbl x = some tx →
      RPost m' (f m' x) (fun _ b => b) (fun T => startChar (ordOf T) fuel tx c)) →
    MgrDeriv.Inv m → List.Forall₂ (fun i e => treeOf m.tbl i = some e) l ts →
    RPost m (Mgr.anyWith f m l) (fun _ b => b) (fun T => startCharAny (ordOf T) fuel ts c) := by
  intro l
  induction l with
  | nil =>
    intro ts m _ hI hf
    cases hf
    exact ⟨hI, List.prefix_refl _, fun T _ _ => Or.inr (by simp only [startCharAny, Mgr.anyWith, Res.map])⟩
  | cons x xs ih =>
    intro ts m hd hI hf
    cases hf with
    | cons hx hxs =>
      rename_i tx txs
      have p1 := hd x (List.mem_cons_self ..) tx m hI hx
      simp only [Mgr.anyWith]
      generalize f m x = r1 at p1 ⊢
      obtain ⟨m1, ro⟩ := r1
      cases ro with
      | ok b =>
        cases b with
        | true =>
          simp only
          refine ⟨p1.inv, p1.ext, ?_⟩
          intro T hT hok
          rcases p1.rep T hT hok with h | h
          · left; simp only [startCharAny, h]
          · right; simp only [startCharAny, h]; rfl
        | false =>
          simp only
          have p2 := ih (m := m1) (fun y hy => hd y (List.mem_cons_of_mem _ hy)) p1.inv
            (forall₂_prefix p1.ext hxs)
          refine ⟨p2.inv, List.IsPrefix.trans p1.ext p2.ext, ?_⟩
          intro T hT hok
          rcases p1.rep T (List.IsPrefix.trans p2.ext hT) hok with h | h
          · left; simp only [startCharAny, h]
          · simp only [startCharAny, h]
            exact p2.rep T hT hok
      | panic =>
        simp only
        refine ⟨p1.inv, p1.ext, ?_⟩
        intro T hT hok
        rcases p1.rep T hT hok with h | h <;> (left; simp only [startCharAny, h]; try rfl)
      | outOfFuel =>
        simp only
        refine ⟨p1.inv, p1.ext, ?_⟩
        intro T hT hok
        rcases p1.rep T hT hok with h | h
        · left; simp only [startCharAny, h]
        · right; simp only [startCharAny, h]; rfl

/-- **`start_char` on the stateful manager refines `RE.startChar`** -/
theorem startCharF_post (fuel : Nat) : ∀ (k : Nat) {m : Mgr} {e : Nat} {te : RE} (c : Nat),
    MgrDeriv.Inv m → e < k → treeOf m.tbl e = some te →
    RPost m (Mgr.startCharF fuel k m e c) (fun _ b => b)
      (fun T => startChar (ordOf T) fuel te c) := by
  intro k
  induction k with
  | zero => intro m e te c _ hlt; omega
  | succ k ih =>
    intro m e te c hI hlt r
    have h := hI.ok
    obtain ⟨n, hn, ht⟩ := treeOf_node h.children r
    have hch := h.children e _ hn
    simp only [Mgr.startCharF, Mgr.expr, hn]
    cases n with
    | empty =>
      simp only [Node.toRE, Option.some.injEq] at ht; subst ht
      exact ⟨hI, List.prefix_refl _, fun T _ _ => Or.inr (by simp only [startChar, Res.map])⟩
    | epsilon =>
      simp only [Node.toRE, Option.some.injEq] at ht; subst ht
      exact ⟨hI, List.prefix_refl _, fun T _ _ => Or.inr (by simp only [startChar, Res.map])⟩
    | range a b =>
      simp only [Node.toRE, Option.some.injEq] at ht; subst ht
      exact ⟨hI, List.prefix_refl _, fun T _ _ => Or.inr (by simp only [startChar, Res.map])⟩
    | concat e1 e2 =>
      simp only [Node.toRE, Option.bind_eq_some_iff, Option.map_eq_some_iff] at ht
      obtain ⟨ta, _, tb, _, rfl⟩ := ht
      have := startViaDerivM_post fuel hI r c
      simp only [startChar_concat]
      exact this
    | loop e1 lo hi =>
      simp only [Node.toRE, Option.map_eq_some_iff] at ht
      obtain ⟨ta, ha, rfl⟩ := ht
      have h1 : e1 < e := hch e1 (by simp [children])
      simp only [startChar]
      exact ih c hI (by omega) ha
    | compl e1 =>
      simp only [Node.toRE, Option.map_eq_some_iff] at ht
      obtain ⟨ta, _, rfl⟩ := ht
      have := startViaDerivM_post fuel hI r c
      simp only [startChar_compl]
      exact this
    | inter l =>
      simp only [Node.toRE, Option.map_eq_some_iff] at ht
      obtain ⟨ts, _, rfl⟩ := ht
      have := startViaDerivM_post fuel hI r c
      simp only [startChar_inter]
      exact this
    | union l =>
      simp only [Node.toRE, Option.map_eq_some_iff] at ht
      obtain ⟨ts, hts, rfl⟩ := ht
      rw [optMapM_eq_some_iff] at hts
      simp only [startChar]
      exact anyWith_post (f := fun m' x => Mgr.startCharF fuel k m' x c)
        (fun x hx tx m' hI' rx =>
          ih c hI' (by have := hch x (by simpa [children] using hx); omega) rx) hI hts

/-- `start_char(e, c)` -/
theorem startCharM_post (fuel : Nat) {m : Mgr} (hI : MgrDeriv.Inv m) {e : Nat} {te : RE}
    (r : treeOf m.tbl e = some te) (c : Nat) :
    RPost m (m.startCharM fuel e c) (fun _ b => b) (fun T => startChar (ordOf T) fuel te c) :=
  startCharF_post fuel (e + 1) c hI (by omega) r

/-- `start_class(e, cid)` -/
theorem startClassM_post (fuel : Nat) {m : Mgr} (hI : MgrDeriv.Inv m) {e : Nat} {te : RE}
    (r : treeOf m.tbl e = some te) (cid : ClassId) :
    RPost m (m.startClassM fuel e cid) (fun _ b => b)
      (fun T => startClass (ordOf T) fuel te cid) := by
  unfold Mgr.startClassM startClass
  rw [derivClass_eq r]
  by_cases hv : te.derivClass.validClassId cid = true
  · simp only [hv, if_true]
    cases hpick : te.derivClass.pickInClass cid with
    | none => exact ⟨hI, List.prefix_refl _, fun T _ _ => Or.inl rfl⟩
    | some c =>
      simp only
      have p := startCharM_post fuel hI r c
      generalize m.startCharM fuel e c = r1 at p ⊢
      obtain ⟨m1, ro⟩ := r1
      cases ro <;>
      · refine ⟨p.inv, p.ext, ?_⟩
        intro T hT hok
        rcases p.rep T hT hok with h | h
        · left; simp only [h]
        · simp only [h]
          simp [Res.map]
  · simp only [hv, Bool.false_eq_true, if_false]
    exact ⟨hI, List.prefix_refl _, fun T _ _ => Or.inr rfl⟩

end MgrOps
end Smt
